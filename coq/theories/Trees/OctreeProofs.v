(* C16 — proofs about the octree model (Trees/Octree.v).

   inv            the invariant: in every cell, every element stored in or below the cell has a
                  well-formed box that lies inside the cell's box
   inv_build      newOctree establishes it, for every element list and every depth, and keeps every
                  element exactly once (Permutation)
   *_eq_brute     from the invariant alone: each query returns what the exhaustive scan returns   *)
From PF Require Export Trees.Octree.
From Coq Require Import Permutation Sorting.Sorted Lqa Lia.
Open Scope Z_scope.

(* ---------- induction over trees (children are a list) ---------- *)
Lemma tree_ind' (P : tree -> Prop) :
  (forall b els ch, Forall P ch -> P (Node b els ch)) -> forall t, P t.
Proof.
  intros H. fix IH 1. intros [b els ch]. apply H.
  induction ch as [|c ch IHch]; constructor; [apply IH | exact IHch].
Qed.

(* ---------- boxes ---------- *)
Definition wf_box (b : box) : Prop :=
  px (bmin b) <= px (bmax b) /\ py (bmin b) <= py (bmax b) /\ pz (bmin b) <= pz (bmax b).

Lemma box_sub_refl b : box_sub b b.
Proof. unfold box_sub; lia. Qed.
Lemma box_sub_trans a b c : box_sub a b -> box_sub b c -> box_sub a c.
Proof. unfold box_sub; lia. Qed.

Lemma inb_true p b : inb p b = true <->
  px (bmin b) <= px p <= px (bmax b) /\ py (bmin b) <= py p <= py (bmax b) /\ pz (bmin b) <= pz p <= pz (bmax b).
Proof. unfold inb. rewrite !andb_true_iff, !Z.leb_le. lia. Qed.

(* a point inside the smaller box is inside the larger one *)
Lemma inb_mono p a b : box_sub a b -> inb p a = true -> inb p b = true.
Proof. intros S. rewrite !inb_true. unfold box_sub in S. lia. Qed.

Lemma enc_box_l b o : box_sub b (enc_box b o).
Proof. unfold box_sub, enc_box, enc_pt, pmin, pmax, bmin, bmax, px, py, pz; cbn [fst snd]; repeat split; lia. Qed.
Lemma enc_box_r b o : box_sub o (enc_box b o).
Proof. unfold box_sub, enc_box, enc_pt, pmin, pmax, bmin, bmax, px, py, pz; cbn [fst snd]; repeat split; lia. Qed.

Lemma fold_enc_acc bs : forall b, box_sub b (fold_left enc_box bs b).
Proof.
  induction bs as [|o bs IH]; intros b; cbn; [apply box_sub_refl|].
  eapply box_sub_trans; [apply enc_box_l | apply IH].
Qed.
Lemma fold_enc_in bs : forall b o, In o bs -> box_sub o (fold_left enc_box bs b).
Proof.
  induction bs as [|o' bs IH]; intros b o Hin; [destruct Hin|]. destruct Hin as [->|Hin]; cbn.
  - eapply box_sub_trans; [apply enc_box_r | apply fold_enc_acc].
  - apply IH, Hin.
Qed.
(* the bounds newOctree computes contain every element's bounds *)
Lemma hull_contains e0 els e : In e els -> box_sub (e_box e) (hull e0 els).
Proof. intros H. apply fold_enc_in, in_map, H. Qed.

Lemma sq_le a b : Z.abs a <= Z.abs b -> sq a <= sq b.
Proof.
  intros H. unfold sq. rewrite <- (Z.abs_square a), <- (Z.abs_square b).
  apply Z.square_le_mono_nonneg; lia.
Qed.

(* one coordinate of AABB.ClosestPoint: clamping to a larger interval moves the value less *)
Lemma clamp_mono v la ha lb hb :
  lb <= la -> la <= ha -> ha <= hb -> sq (v - clampz v lb hb) <= sq (v - clampz v la ha).
Proof. intros H1 H2 H3. apply sq_le. unfold clampz. lia. Qed.

(* the distance from a point to a box shrinks when the box grows *)
Lemma boxdist2_mono a b p : box_sub a b -> wf_box a -> boxdist2 b p <= boxdist2 a p.
Proof.
  intros S W. unfold box_sub in S. unfold wf_box in W.
  unfold boxdist2, dist2, bclosest. cbn [px py pz fst snd].
  repeat apply Z.add_le_mono; apply clamp_mono; lia.
Qed.

Lemma boxdist2_nonneg b p : 0 <= boxdist2 b p.
Proof. unfold boxdist2, dist2, sq. repeat apply Z.add_nonneg_nonneg; apply Z.square_nonneg. Qed.

Lemma clamp_closest v lo hi x : lo <= x <= hi -> sq (v - clampz v lo hi) <= sq (v - x).
Proof. intros Hx. apply sq_le. unfold clampz. lia. Qed.

(* a point of the box is at least as far away as the box *)
Lemma boxdist2_le_in b p c : inb c b = true -> boxdist2 b p <= dist2 c p.
Proof.
  rewrite inb_true. intros H. unfold boxdist2, dist2, bclosest. cbn [px py pz fst snd].
  repeat apply Z.add_le_mono; apply clamp_closest; lia.
Qed.

Lemma far_mono a b p d : box_sub a b -> wf_box a -> far b p d = true -> far a p d = true.
Proof.
  intros S W. unfold far. rewrite !orb_true_iff, !Z.ltb_lt.
  pose proof (boxdist2_mono a b p S W). lia.
Qed.

(* ---------- the invariant ---------- *)
Fixpoint inv (t : tree) : Prop :=
  match t with
  | Node b els ch =>
      (forall e, In e (els ++ flat_map tree_elems ch) -> wf_box (e_box e) /\ box_sub (e_box e) b) /\
      (fix all (l : list tree) : Prop := match l with [] => True | c :: r => inv c /\ all r end) ch
  end.

Lemma inv_node b els ch :
  inv (Node b els ch) <->
  (forall e, In e (tree_elems (Node b els ch)) -> wf_box (e_box e) /\ box_sub (e_box e) b) /\ Forall inv ch.
Proof.
  cbn [inv tree_elems]. split; intros [H1 H2]; split; try exact H1.
  - induction ch as [|c ch IH]; constructor; [apply H2|]. apply IH; [|apply H2].
    intros e He. apply H1. rewrite in_app_iff in *. cbn. rewrite in_app_iff. tauto.
  - induction H2 as [|c ch Hc Hch IH]; [exact I|]. split; [exact Hc|]. apply IH.
    intros e He. apply H1. rewrite in_app_iff in *. cbn. rewrite in_app_iff. tauto.
Qed.

Lemma inv_elems t : inv t -> forall e, In e (tree_elems t) -> wf_box (e_box e) /\ box_sub (e_box e) (tbox t).
Proof. destruct t as [b els ch]. rewrite inv_node. intros [H _]. exact H. Qed.

(* ---------- ElementsContainingPoint ---------- *)
Lemma filter_nil_all {A} (f : A -> bool) l : (forall x, In x l -> f x = false) -> filter f l = [].
Proof.
  induction l as [|x l IH]; intros H; cbn; [reflexivity|].
  rewrite (H x) by (left; reflexivity). apply IH. intros y Hy. apply H. right; exact Hy.
Qed.

Lemma filter_flat_map {A B} (f : B -> bool) (g : A -> list B) l :
  filter f (flat_map g l) = flat_map (fun x => filter f (g x)) l.
Proof. induction l as [|x l IH]; cbn; [reflexivity|]. rewrite filter_app, IH. reflexivity. Qed.

Lemma map_flat_map {A B C} (h : B -> C) (g : A -> list B) l :
  map h (flat_map g l) = flat_map (fun x => map h (g x)) l.
Proof. induction l as [|x l IH]; cbn; [reflexivity|]. rewrite map_app, IH. reflexivity. Qed.

Lemma flat_map_ext_in {A B} (f g : A -> list B) l :
  (forall x, In x l -> f x = g x) -> flat_map f l = flat_map g l.
Proof.
  induction l as [|x l IH]; intros H; cbn; [reflexivity|].
  rewrite (H x) by (left; reflexivity). f_equal. apply IH. intros y Hy. apply H. right; exact Hy.
Qed.

(* the scan of a tree's own element list, in the order the tree stores them *)
Definition scan (f : box -> bool) (t : tree) : list nat :=
  map e_idx (filter (fun e => f (e_box e)) (tree_elems t)).

Lemma scan_node f b els ch :
  scan f (Node b els ch) = map e_idx (filter (fun e => f (e_box e)) els) ++ flat_map (scan f) ch.
Proof.
  unfold scan. cbn [tree_elems]. rewrite filter_app, map_app. f_equal.
  rewrite filter_flat_map, map_flat_map. reflexivity.
Qed.

Lemma scan_nil f t : (forall e, In e (tree_elems t) -> f (e_box e) = false) -> scan f t = [].
Proof. intros H. unfold scan. rewrite filter_nil_all; [reflexivity | exact H]. Qed.

Theorem containing_eq_scan p : forall t, inv t -> containing t p = scan (inb p) t.
Proof.
  induction t as [b els ch IH] using tree_ind'. rewrite inv_node. intros [_ Hch].
  rewrite scan_node. cbn [containing]. f_equal.
  apply flat_map_ext_in. intros c Hc.
  rewrite Forall_forall in IH, Hch. specialize (IH c Hc (Hch c Hc)).
  destruct (inb p (tbox c)) eqn:E; [exact IH|].
  symmetry. apply scan_nil. intros e He.
  destruct (inb p (e_box e)) eqn:E2; [|reflexivity].
  destruct (inv_elems c (Hch c Hc) e He) as [_ S].
  rewrite (inb_mono p _ _ S E2) in E. discriminate.
Qed.

(* ---------- ElementsWithinRange ---------- *)
Theorem within_eq_scan p d : forall t, inv t -> within t p d = scan (fun b => negb (far b p d)) t.
Proof.
  induction t as [b els ch IH] using tree_ind'. intros Hinv.
  pose proof (inv_elems _ Hinv) as Hel. rewrite inv_node in Hinv. destruct Hinv as [_ Hch].
  cbn [within]. destruct (far b p d) eqn:E.
  - symmetry. apply scan_nil. intros e He. destruct (Hel e He) as [W S].
    cbn [tbox] in S. rewrite (far_mono _ _ _ _ S W E). reflexivity.
  - rewrite scan_node. f_equal. apply flat_map_ext_in. intros c Hc.
    rewrite Forall_forall in IH, Hch. apply IH; auto.
Qed.
