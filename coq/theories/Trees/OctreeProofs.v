(* C16 — proofs about the octree model (Trees/Octree.v).

   inv            the invariant: in every cell, every element stored in or below the cell has a
                  well-formed box that lies inside the cell's box
   inv_build      newOctree establishes it, for every element list and every depth, and keeps every
                  element exactly once (Permutation)
   *_eq_brute     from the invariant alone: each query returns what the exhaustive scan returns   *)
From PF Require Export Trees.Octree.
From Coq Require Import Permutation Sorting.Sorted Lqa Lia Qfield.
Open Scope Z_scope.

Definition zero_pt_box : box := ((0, 0, 0), (0, 0, 0)).

(* ---------- induction over trees (children are a list) ---------- *)
Lemma tree_ind' (P : tree -> Prop) :
  (forall b els ch, Forall P ch -> P (Node b els ch)) -> forall t, P t.
Proof.
  intros H. fix IH 1. intros [b els ch]. apply H.
  induction ch as [|c ch IHch]; constructor; [apply IH | exact IHch].
Qed.

(* ---------- boxes ---------- *)
Definition wf_box (b : box) : Prop :=
  px (bmin b) <= px (bmax b) /\ py (bmin b) <= py (bmax b) /\ pz (bmin b) <= pz (bmax b).

Lemma box_sub_refl b : box_sub b b.
Proof. unfold box_sub; lia. Qed.
Lemma box_sub_trans a b c : box_sub a b -> box_sub b c -> box_sub a c.
Proof. unfold box_sub; lia. Qed.

Lemma inb_true p b : inb p b = true <->
  px (bmin b) <= px p <= px (bmax b) /\ py (bmin b) <= py p <= py (bmax b) /\ pz (bmin b) <= pz p <= pz (bmax b).
Proof. unfold inb. rewrite !andb_true_iff, !Z.leb_le. lia. Qed.

(* a point inside the smaller box is inside the larger one *)
Lemma inb_mono p a b : box_sub a b -> inb p a = true -> inb p b = true.
Proof. intros S. rewrite !inb_true. unfold box_sub in S. lia. Qed.

Lemma enc_box_l b o : box_sub b (enc_box b o).
Proof. unfold box_sub, enc_box, enc_pt, pmin, pmax, bmin, bmax, px, py, pz; cbn [fst snd]; repeat split; lia. Qed.
Lemma enc_box_r b o : box_sub o (enc_box b o).
Proof. unfold box_sub, enc_box, enc_pt, pmin, pmax, bmin, bmax, px, py, pz; cbn [fst snd]; repeat split; lia. Qed.

Lemma fold_enc_acc bs : forall b, box_sub b (fold_left enc_box bs b).
Proof.
  induction bs as [|o bs IH]; intros b; cbn; [apply box_sub_refl|].
  eapply box_sub_trans; [apply enc_box_l | apply IH].
Qed.
Lemma fold_enc_in bs : forall b o, In o bs -> box_sub o (fold_left enc_box bs b).
Proof.
  induction bs as [|o' bs IH]; intros b o Hin; [destruct Hin|]. destruct Hin as [->|Hin]; cbn.
  - eapply box_sub_trans; [apply enc_box_r | apply fold_enc_acc].
  - apply IH, Hin.
Qed.
(* the bounds newOctree computes contain every element's bounds *)
Lemma hull_contains e0 els e : In e els -> box_sub (e_box e) (hull e0 els).
Proof. intros H. apply fold_enc_in, in_map, H. Qed.

Lemma sq_le a b : Z.abs a <= Z.abs b -> sq a <= sq b.
Proof.
  intros H. unfold sq. rewrite <- (Z.abs_square a), <- (Z.abs_square b).
  apply Z.square_le_mono_nonneg; lia.
Qed.

(* one coordinate of AABB.ClosestPoint: clamping to a larger interval moves the value less *)
Lemma clamp_mono v la ha lb hb :
  lb <= la -> la <= ha -> ha <= hb -> sq (v - clampz v lb hb) <= sq (v - clampz v la ha).
Proof. intros H1 H2 H3. apply sq_le. unfold clampz. lia. Qed.

(* the distance from a point to a box shrinks when the box grows *)
Lemma boxdist2_mono a b p : box_sub a b -> wf_box a -> boxdist2 b p <= boxdist2 a p.
Proof.
  intros S W. unfold box_sub in S. unfold wf_box in W.
  unfold boxdist2, dist2, bclosest. cbn [px py pz fst snd].
  repeat apply Z.add_le_mono; apply clamp_mono; lia.
Qed.

Lemma boxdist2_nonneg b p : 0 <= boxdist2 b p.
Proof. unfold boxdist2, dist2, sq. repeat apply Z.add_nonneg_nonneg; apply Z.square_nonneg. Qed.

Lemma clamp_closest v lo hi x : lo <= x <= hi -> sq (v - clampz v lo hi) <= sq (v - x).
Proof. intros Hx. apply sq_le. unfold clampz. lia. Qed.

(* a point of the box is at least as far away as the box *)
Lemma boxdist2_le_in b p c : inb c b = true -> boxdist2 b p <= dist2 c p.
Proof.
  rewrite inb_true. intros H. unfold boxdist2, dist2, bclosest. cbn [px py pz fst snd].
  repeat apply Z.add_le_mono; apply clamp_closest; lia.
Qed.

Lemma far_mono a b p d : box_sub a b -> wf_box a -> far b p d = true -> far a p d = true.
Proof.
  intros S W. unfold far. rewrite !orb_true_iff, !Z.ltb_lt.
  pose proof (boxdist2_mono a b p S W). lia.
Qed.

(* ---------- the invariant ---------- *)
Fixpoint inv (t : tree) : Prop :=
  match t with
  | Node b els ch =>
      (forall e, In e (els ++ flat_map tree_elems ch) -> wf_box (e_box e) /\ box_sub (e_box e) b) /\
      (fix all (l : list tree) : Prop := match l with [] => True | c :: r => inv c /\ all r end) ch
  end.

Lemma inv_node b els ch :
  inv (Node b els ch) <->
  (forall e, In e (tree_elems (Node b els ch)) -> wf_box (e_box e) /\ box_sub (e_box e) b) /\ Forall inv ch.
Proof.
  cbn [inv tree_elems]. split; intros [H1 H2]; split; try exact H1.
  - induction ch as [|c ch IH]; constructor; [apply H2|]. apply IH; [|apply H2].
    intros e He. apply H1. rewrite in_app_iff in *. cbn. rewrite in_app_iff. tauto.
  - induction H2 as [|c ch Hc Hch IH]; [exact I|]. split; [exact Hc|]. apply IH.
    intros e He. apply H1. rewrite in_app_iff in *. cbn. rewrite in_app_iff. tauto.
Qed.

Lemma inv_elems t : inv t -> forall e, In e (tree_elems t) -> wf_box (e_box e) /\ box_sub (e_box e) (tbox t).
Proof. destruct t as [b els ch]. rewrite inv_node. intros [H _]. exact H. Qed.

(* ---------- ElementsContainingPoint ---------- *)
Lemma filter_nil_all {A} (f : A -> bool) l : (forall x, In x l -> f x = false) -> filter f l = [].
Proof.
  induction l as [|x l IH]; intros H; cbn; [reflexivity|].
  rewrite (H x) by (left; reflexivity). apply IH. intros y Hy. apply H. right; exact Hy.
Qed.

Lemma filter_flat_map {A B} (f : B -> bool) (g : A -> list B) l :
  filter f (flat_map g l) = flat_map (fun x => filter f (g x)) l.
Proof. induction l as [|x l IH]; cbn; [reflexivity|]. rewrite filter_app, IH. reflexivity. Qed.

Lemma map_flat_map {A B C} (h : B -> C) (g : A -> list B) l :
  map h (flat_map g l) = flat_map (fun x => map h (g x)) l.
Proof. induction l as [|x l IH]; cbn; [reflexivity|]. rewrite map_app, IH. reflexivity. Qed.

Lemma flat_map_ext_in {A B} (f g : A -> list B) l :
  (forall x, In x l -> f x = g x) -> flat_map f l = flat_map g l.
Proof.
  induction l as [|x l IH]; intros H; cbn; [reflexivity|].
  rewrite (H x) by (left; reflexivity). f_equal. apply IH. intros y Hy. apply H. right; exact Hy.
Qed.

(* the scan of a tree's own element list, in the order the tree stores them *)
Definition scan (f : box -> bool) (t : tree) : list nat :=
  map e_idx (filter (fun e => f (e_box e)) (tree_elems t)).

Lemma scan_node f b els ch :
  scan f (Node b els ch) = map e_idx (filter (fun e => f (e_box e)) els) ++ flat_map (scan f) ch.
Proof.
  unfold scan. cbn [tree_elems]. rewrite filter_app, map_app. f_equal.
  rewrite filter_flat_map, map_flat_map. reflexivity.
Qed.

Lemma scan_nil f t : (forall e, In e (tree_elems t) -> f (e_box e) = false) -> scan f t = [].
Proof. intros H. unfold scan. rewrite filter_nil_all; [reflexivity | exact H]. Qed.

Theorem containing_eq_scan p : forall t, inv t -> containing t p = scan (inb p) t.
Proof.
  induction t as [b els ch IH] using tree_ind'. rewrite inv_node. intros [_ Hch].
  rewrite scan_node. cbn [containing]. f_equal.
  apply flat_map_ext_in. intros c Hc.
  rewrite Forall_forall in IH, Hch. specialize (IH c Hc (Hch c Hc)).
  destruct (inb p (tbox c)) eqn:E; [exact IH|].
  symmetry. apply scan_nil. intros e He.
  destruct (inb p (e_box e)) eqn:E2; [|reflexivity].
  destruct (inv_elems c (Hch c Hc) e He) as [_ S].
  rewrite (inb_mono p _ _ S E2) in E. discriminate.
Qed.

(* ---------- ElementsWithinRange ---------- *)
Theorem within_eq_scan p d : forall t, inv t -> within t p d = scan (fun b => negb (far b p d)) t.
Proof.
  induction t as [b els ch IH] using tree_ind'. intros Hinv.
  pose proof (inv_elems _ Hinv) as Hel. rewrite inv_node in Hinv. destruct Hinv as [_ Hch].
  cbn [within]. destruct (far b p d) eqn:E.
  - symmetry. apply scan_nil. intros e He. destruct (Hel e He) as [W S].
    cbn [tbox] in S. rewrite (far_mono _ _ _ _ S W E). reflexivity.
  - rewrite scan_node. f_equal. apply flat_map_ext_in. intros c Hc.
    rewrite Forall_forall in IH, Hch. apply IH; auto.
Qed.

(* ---------- newOctree establishes the invariant and keeps every element exactly once ---------- *)
Lemma oct_index_lt c p : (oct_index c p < 8)%nat.
Proof. unfold oct_index. destruct (px p <? px c), (py p <? py c), (pz p <? pz c); cbn; lia. Qed.
Lemma octant_lt c e : (octant c e < 8)%nat.
Proof. unfold octant. destruct (_ <? _); apply oct_index_lt. Qed.

Lemma flat_map_insert_out {A} (F : nat -> list A) (x : A) (a : nat) n s :
  ~ (s <= a < s + n)%nat ->
  flat_map (fun k => if Nat.eqb a k then x :: F k else F k) (seq s n) = flat_map F (seq s n).
Proof.
  intros H. apply flat_map_ext_in. intros k Hk. apply in_seq in Hk.
  destruct (Nat.eqb a k) eqn:E; [|reflexivity]. apply Nat.eqb_eq in E. lia.
Qed.

Lemma flat_map_insert {A} (F : nat -> list A) (x : A) (a : nat) : forall n s,
  (s <= a < s + n)%nat ->
  Permutation (flat_map (fun k => if Nat.eqb a k then x :: F k else F k) (seq s n))
              (x :: flat_map F (seq s n)).
Proof.
  induction n as [|n IH]; intros s H; [lia|].
  cbn [seq flat_map]. destruct (Nat.eqb a s) eqn:E.
  - apply Nat.eqb_eq in E. subst s. rewrite flat_map_insert_out by lia. reflexivity.
  - apply Nat.eqb_neq in E.
    eapply Permutation_trans; [apply Permutation_app_head, IH; lia|].
    symmetry. apply Permutation_middle.
Qed.

Lemma flat_map_nil {A B} (l : list A) : flat_map (fun _ => @nil B) l = [].
Proof. induction l; cbn; auto. Qed.

(* distributing a list over n buckets by a key below n loses and duplicates nothing *)
Lemma partition_perm {A} (f : A -> nat) (n : nat) (l : list A) :
  (forall x, In x l -> (f x < n)%nat) ->
  Permutation (flat_map (fun k => filter (fun x => Nat.eqb (f x) k) l) (seq 0 n)) l.
Proof.
  induction l as [|x l IH]; intros H.
  - cbn. rewrite flat_map_nil. constructor.
  - cbn [filter].
    eapply Permutation_trans; [apply (flat_map_insert (fun k => filter (fun y => Nat.eqb (f y) k) l) x (f x) n 0)|].
    + specialize (H x (or_introl eq_refl)). lia.
    + constructor. apply IH. intros y Hy. apply H. right; exact Hy.
Qed.

Lemma build_none d els : build d els = None -> els = [].
Proof.
  destruct els as [|e0 [|e1 r]]; [reflexivity | destruct d; discriminate |].
  destruct d as [|d]; [discriminate|]. cbn [build].
  destruct (flat_map _ _) as [|? [|? ?]]; discriminate.
Qed.

Lemma kids_perm (bld : list eref -> option tree) (F : nat -> list eref) (ks : list nat) :
  (forall k, match bld (F k) with
             | Some t => inv t /\ Permutation (tree_elems t) (F k)
             | None => F k = [] end) ->
  let kids := flat_map (fun k => opt_list (bld (F k))) ks in
  Forall inv kids /\ Permutation (flat_map tree_elems kids) (flat_map F ks).
Proof.
  intros H. induction ks as [|k ks [IH1 IH2]]; cbn; [split; constructor|].
  specialize (H k). destruct (bld (F k)) as [t|]; cbn.
  - destruct H as [Hi Hp]. split; [constructor; assumption|].
    apply Permutation_app; assumption.
  - rewrite H. cbn. split; assumption.
Qed.

Lemma inv_leaf b els :
  (forall e, In e els -> wf_box (e_box e) /\ box_sub (e_box e) b) -> inv (Node b els []).
Proof.
  intros H. rewrite inv_node. split; [|constructor].
  cbn [tree_elems flat_map]. rewrite app_nil_r. exact H.
Qed.

Theorem build_inv : forall d els t,
  (forall e, In e els -> wf_box (e_box e)) ->
  build d els = Some t -> inv t /\ Permutation (tree_elems t) els.
Proof.
  assert (L1 : forall e0, (forall e, In e [e0] -> wf_box (e_box e)) ->
               inv (Node (e_box e0) [e0] []) /\ Permutation (tree_elems (Node (e_box e0) [e0] [])) [e0]).
  { intros e0 W. split; [|cbn; constructor; constructor].
    apply inv_leaf. intros e [<-|[]]. split; [apply W; left; reflexivity | apply box_sub_refl]. }
  induction d as [|d IH]; intros els t W B.
  - destruct els as [|e0 [|e1 r]]; [discriminate| |]; cbn [build] in B; injection B as <-.
    + apply L1, W.
    + split; [|cbn [tree_elems flat_map]; rewrite app_nil_r; apply Permutation_refl].
      apply inv_leaf. intros e He. split; [apply W, He | apply hull_contains, He].
  - destruct els as [|e0 [|e1 r]]; [discriminate| |].
    + cbn [build] in B. injection B as <-. apply L1, W.
    + remember (e0 :: e1 :: r) as els eqn:Eels.
      assert (B' : (let b := hull e0 els in let c := center b in
                    let kids := flat_map (fun k => opt_list (build d (filter (fun e => Nat.eqb (octant c e) k) els))) (seq 0 8) in
                    match kids with [t] => Some t | _ => Some (Node b [] kids) end) = Some t).
      { rewrite <- B. rewrite Eels. reflexivity. }
      clear B. cbv zeta in B'.
      set (b := hull e0 els) in *. set (c := center b) in *.
      set (F := fun k => filter (fun e => Nat.eqb (octant c e) k) els) in *.
      destruct (kids_perm (build d) F (seq 0 8)) as [Ki Kp].
      { intros k. destruct (build d (F k)) as [t'|] eqn:Bk.
        - apply (IH _ _ ) in Bk; [exact Bk|]. intros e He. apply W. unfold F in He.
          apply filter_In in He. apply He.
        - apply build_none in Bk. exact Bk. }
      assert (Kp' : Permutation (flat_map tree_elems (flat_map (fun k => opt_list (build d (F k))) (seq 0 8))) els).
      { eapply Permutation_trans; [exact Kp|]. apply partition_perm. intros x _. apply octant_lt. }
      clear Kp.
      assert (N : inv (Node b [] (flat_map (fun k => opt_list (build d (F k))) (seq 0 8)))).
      { rewrite inv_node. split; [|exact Ki]. cbn [tree_elems app]. intros e He.
        assert (In e els) by (eapply Permutation_in; eassumption).
        split; [apply W; assumption | apply hull_contains; assumption]. }
      change (flat_map (fun k => opt_list (build d (filter (fun e => Nat.eqb (octant c e) k) els))) (seq 0 8))
        with (flat_map (fun k => opt_list (build d (F k))) (seq 0 8)) in B'.
      destruct (flat_map (fun k => opt_list (build d (F k))) (seq 0 8)) as [|t1 [|t2 kids]];
        injection B' as <-.
      * split; [exact N | exact Kp'].
      * split; [inversion Ki; assumption|]. cbn in Kp'. rewrite app_nil_r in Kp'. exact Kp'.
      * split; [exact N | exact Kp'].
Qed.

(* ---------- the slab test is monotone ---------- *)
Open Scope Q_scope.
Lemma Qle_bool_false a b : Qle_bool a b = false <-> b < a.
Proof.
  split.
  - intros H. apply Qnot_le_lt. intros L. apply Qle_bool_iff in L. congruence.
  - intros H. destruct (Qle_bool a b) eqn:E; auto. apply Qle_bool_iff in E. lra.
Qed.
Lemma Qltb_true a b : Qltb a b = true <-> a < b.
Proof. unfold Qltb. rewrite negb_true_iff. apply Qle_bool_false. Qed.
Lemma Qltb_false a b : Qltb a b = false <-> b <= a.
Proof. unfold Qltb. rewrite negb_false_iff. apply Qle_bool_iff. Qed.

Lemma Qdiv_le_pos d x y : 0 < d -> x <= y -> x / d <= y / d.
Proof.
  intros Hd H. unfold Qdiv. apply Qmult_le_compat_r; [exact H|].
  apply Qlt_le_weak, Qinv_lt_0_compat, Hd.
Qed.
Lemma Qdiv_le_neg d x y : d < 0 -> x <= y -> y / d <= x / d.
Proof.
  intros Hd H.
  assert (E : forall z, z / d == (- z) / (- d)) by (intros z; field; lra).
  rewrite (E x), (E y). apply Qdiv_le_pos; lra.
Qed.

Ltac qb :=
  repeat match goal with
  | H : Qltb _ _ = true |- _ => apply Qltb_true in H
  | H : Qltb _ _ = false |- _ => apply Qltb_false in H
  | H : Qle_bool _ _ = true |- _ => apply Qle_bool_iff in H
  | H : Qle_bool _ _ = false |- _ => apply Qle_bool_false in H
  end.

Definition qmn (a b : Q) : Q := if Qltb b a then b else a.
Definition qmx (a b : Q) : Q := if Qltb a b then b else a.
Lemma qmn_spec a b : qmn a b <= a /\ qmn a b <= b /\ (qmn a b == a \/ qmn a b == b).
Proof. unfold qmn. destruct (Qltb b a) eqn:E; qb; (split; [lra|split; [lra|]]); [right|left]; reflexivity. Qed.
Lemma qmx_spec a b : a <= qmx a b /\ b <= qmx a b /\ (qmx a b == a \/ qmx a b == b).
Proof. unfold qmx. destruct (Qltb a b) eqn:E; qb; (split; [lra|split; [lra|]]); [right|left]; reflexivity. Qed.

Definition slab1_nz (o d bl bh : Q) (r : Q * Q) : option (Q * Q) :=
  let a0 := (bl - o) / d in let a1 := (bh - o) / d in
  let tmin' := qmx (fst r) (qmn a0 a1) in
  let tmax' := qmn (snd r) (qmx a1 a0) in
  if Qle_bool tmax' tmin' then None else Some (tmin', tmax').
Lemma slab1_nz_eq o d bl bh r : ~ d == 0 -> slab1 o d bl bh r = slab1_nz o d bl bh r.
Proof.
  intros H. unfold slab1, slab1_nz. destruct r as [tmin tmax].
  destruct (Qcompare d 0) eqn:C; [apply Qeq_alt in C; contradiction| |]; reflexivity.
Qed.

Lemma slab1_nz_mono o d bla bha blb bhb ra rb ra' :
  ~ d == 0 ->
  blb <= bla -> bla <= bha -> bha <= bhb -> fst rb <= fst ra -> snd ra <= snd rb ->
  slab1_nz o d bla bha ra = Some ra' ->
  exists rb', slab1_nz o d blb bhb rb = Some rb' /\ fst rb' <= fst ra' /\ snd ra' <= snd rb'.
Proof.
  intros Hd H1 H2 H3 H4 H5. unfold slab1_nz. cbv zeta.
  assert (M : ((blb - o) / d <= (bla - o) / d /\ (bla - o) / d <= (bha - o) / d /\ (bha - o) / d <= (bhb - o) / d) \/
              ((bhb - o) / d <= (bha - o) / d /\ (bha - o) / d <= (bla - o) / d /\ (bla - o) / d <= (blb - o) / d)).
  { destruct (Q_dec d 0) as [[Hn|Hp]|He]; [right|left|contradiction].
    - repeat split; apply Qdiv_le_neg; try assumption; lra.
    - repeat split; apply Qdiv_le_pos; try assumption; lra. }
  generalize dependent ((bla - o) / d). intros a0a.
  generalize dependent ((bha - o) / d). intros a1a.
  generalize dependent ((blb - o) / d). intros a0b.
  generalize dependent ((bhb - o) / d). intros a1b M.
  destruct (qmn_spec a0a a1a) as (A1 & A2 & A3). destruct (qmx_spec a1a a0a) as (A4 & A5 & A6).
  destruct (qmn_spec a0b a1b) as (B1 & B2 & B3). destruct (qmx_spec a1b a0b) as (B4 & B5 & B6).
  generalize dependent (qmn a0a a1a). intros t0a. generalize dependent (qmx a1a a0a). intros t1a.
  generalize dependent (qmn a0b a1b). intros t0b. generalize dependent (qmx a1b a0b). intros t1b. intros.
  destruct (qmx_spec (fst ra) t0a) as (C1 & C2 & C3). destruct (qmn_spec (snd ra) t1a) as (C4 & C5 & C6).
  destruct (qmx_spec (fst rb) t0b) as (D1 & D2 & D3). destruct (qmn_spec (snd rb) t1b) as (D4 & D5 & D6).
  generalize dependent (qmx (fst ra) t0a). intros lo_a. generalize dependent (qmn (snd ra) t1a). intros hi_a.
  generalize dependent (qmx (fst rb) t0b). intros lo_b. generalize dependent (qmn (snd rb) t1b). intros hi_b. intros.
  destruct (Qle_bool hi_a lo_a) eqn:E; [discriminate|]. injection H as <-. qb.
  assert (lo_b <= lo_a /\ hi_a <= hi_b).
  { destruct M as [M|M], A3, A6, B3, B6, C3, C6, D3, D6; split; lra. }
  replace (Qle_bool hi_b lo_b) with false by (symmetry; apply Qle_bool_false; lra).
  eexists; split; [reflexivity|]. cbn [fst snd]. lra.
Qed.

(* one axis of the slab test: a larger slab and a larger parameter range leave a larger range *)
Lemma slab1_mono o d bla bha blb bhb ra rb ra' :
  blb <= bla -> bla <= bha -> bha <= bhb -> fst rb <= fst ra -> snd ra <= snd rb ->
  slab1 o d bla bha ra = Some ra' ->
  exists rb', slab1 o d blb bhb rb = Some rb' /\ fst rb' <= fst ra' /\ snd ra' <= snd rb'.
Proof.
  intros H1 H2 H3 H4 H5. destruct (Qeq_dec d 0) as [Hd|Hd].
  - destruct ra as [tmin tmax], rb as [umin umax]. cbn [fst snd] in *. unfold slab1.
    apply Qeq_alt in Hd. rewrite Hd.
    destruct (Qle_bool bla o && Qle_bool o bha)%bool eqn:E1; [|discriminate].
    apply andb_true_iff in E1. destruct E1 as [E1 E2].
    destruct (Qle_bool tmax tmin) eqn:E3; [discriminate|]. intros [= <-]. qb.
    replace (Qle_bool blb o && Qle_bool o bhb)%bool with true
      by (symmetry; apply andb_true_iff; split; apply Qle_bool_iff; lra).
    replace (Qle_bool umax umin) with false by (symmetry; apply Qle_bool_false; lra).
    eexists; split; [reflexivity|]. cbn [fst snd]; lra.
  - rewrite !slab1_nz_eq by exact Hd. apply slab1_nz_mono; assumption.
Qed.

Lemma q4_mono x y : (x <= y)%Z -> q4 x <= q4 y.
Proof. intros H. unfold q4. apply Qdiv_le_pos; [reflexivity|]. rewrite <- Zle_Qle. exact H. Qed.

(* AABB.IntersectsRayInRange is monotone in the box and in the parameter range *)
Theorem slab_mono a b ry ra rb :
  box_sub a b -> wf_box a -> fst rb <= fst ra -> snd ra <= snd rb ->
  slab a ry ra = true -> slab b ry rb = true.
Proof.
  intros S W R1 R2. unfold slab. destruct ry as [o [[dx dy] dz]].
  unfold box_sub in S. unfold wf_box in W. destruct S as (S1 & S2 & S3 & S4 & S5 & S6). destruct W as (W1 & W2 & W3).
  apply q4_mono in S1, S2, S3, S4, S5, S6, W1, W2, W3.
  assert (K : 0 <= keps) by (unfold keps, Qle; cbn; lia).
  destruct (slab1 (q4 (px o)) dx (q4 (px (bmin a)) - keps) (q4 (px (bmax a)) + keps) ra) as [r1|] eqn:E1; [|discriminate].
  eapply slab1_mono in E1; [destruct E1 as (r1' & -> & X1 & X2) | | | | exact R1 | exact R2]; try lra.
  cbn [obind].
  destruct (slab1 (q4 (py o)) dy (q4 (py (bmin a)) - keps) (q4 (py (bmax a)) + keps) r1) as [r2|] eqn:E2; [|discriminate].
  eapply slab1_mono in E2; [destruct E2 as (r2' & -> & Y1 & Y2) | | | | exact X1 | exact X2]; try lra.
  cbn [obind].
  destruct (slab1 (q4 (pz o)) dz (q4 (pz (bmin a)) - keps) (q4 (pz (bmax a)) + keps) r2) as [r3|] eqn:E3; [|discriminate].
  eapply slab1_mono in E3; [destruct E3 as (r3' & -> & Z1 & Z2) | | | | exact Y1 | exact Y2]; try lra.
Qed.
Close Scope Q_scope.
Open Scope Z_scope.

(* ---------- ElementsIntersectingRay ---------- *)
Lemma Qle_refl' x : (x <= x)%Q.
Proof. apply Qle_refl. Qed.

Theorem ray_hits_eq_scan ry r : forall t, inv t -> ray_hits t ry r = scan (fun b => slab b ry r) t.
Proof.
  induction t as [b els ch IH] using tree_ind'. intros Hinv.
  pose proof (inv_elems _ Hinv) as Hel. rewrite inv_node in Hinv. destruct Hinv as [_ Hch].
  cbn [ray_hits]. destruct (slab b ry r) eqn:E.
  - rewrite scan_node. f_equal. apply flat_map_ext_in. intros c Hc.
    rewrite Forall_forall in IH, Hch. apply IH; auto.
  - symmetry. apply scan_nil. intros e He. destruct (Hel e He) as [W S]. cbn [tbox] in S.
    destruct (slab (e_box e) ry r) eqn:E2; [|reflexivity].
    rewrite (slab_mono _ _ ry r r S W (Qle_refl' _) (Qle_refl' _) E2) in E. discriminate.
Qed.

(* TraverseIntersectingRay with an iterator that leaves the range alone visits the same elements *)
Lemma trav_els_id ry r els :
  trav_els (fun _ r => r) ry els r = (map e_idx (filter (fun e => slab (e_box e) ry r) els), r).
Proof.
  unfold trav_els.
  assert (G : forall acc, fold_left (fun (st : list nat * (Q * Q)) e => let (vis, r0) := st in
              if slab (e_box e) ry r0 then (vis ++ [e_idx e], r0) else (vis, r0)) els (acc, r)
              = (acc ++ map e_idx (filter (fun e => slab (e_box e) ry r) els), r)).
  { induction els as [|e els IHe]; intros acc; cbn [fold_left filter map]; [rewrite app_nil_r; reflexivity|].
    destruct (slab (e_box e) ry r); rewrite IHe; [|reflexivity].
    cbn [map]. rewrite <- app_assoc. reflexivity. }
  apply (G []).
Qed.

Theorem traverse_id_eq_ray_hits ry r : forall t, traverse (fun _ r => r) t ry r = ray_hits t ry r.
Proof.
  induction t as [b els ch IH] using tree_ind'. cbn [traverse ray_hits].
  destruct (slab b ry r); [|reflexivity]. rewrite trav_els_id. f_equal.
  apply flat_map_ext_in. intros c Hc. rewrite Forall_forall in IH. apply IH, Hc.
Qed.

(* ---------- ClosestPoint ---------- *)
Section ClosestProofs.
  Variable P : Type.
  Variable ekey : nat -> Z.
  Variable cpt : nat -> P.
  Variable kscale : Z.
  Variable q : pt.
  Hypothesis kpos : 0 <= kscale.

  Local Notation ckey := (ckey kscale q).
  Local Notation item := (item P).
  Local Notation ikey := (ikey P).
  Local Notation insert := (insert P).
  Local Notation push_cells := (push_cells P kscale q).
  Local Notation push_elems := (push_elems P ekey cpt).
  Local Notation cloop := (cloop P ekey cpt kscale q).
  Local Notation closest := (closest P ekey cpt kscale q).

  (* the modelling hypothesis on the elements: an element is at least as far away as its box
     (true whenever Element.ClosestPoint returns a point of the element's box: boxdist2_le_in) *)
  Definition elem_ok (t : tree) : Prop :=
    forall e, In e (tree_elems t) -> ckey (e_box e) <= ekey (e_idx e).

  Definition item_ok (it : item) : Prop :=
    match it with
    | ICell k c => k = ckey (tbox c) /\ inv c /\ elem_ok c
    | IElem k i p => k = ekey i /\ p = cpt i
    end.
  Definition item_ids (it : item) : list nat :=
    match it with ICell _ c => map e_idx (tree_elems c) | IElem _ i _ => [i] end.
  Definition wl_ids (wl : list item) : list nat := flat_map item_ids wl.
  Definition R (a b : item) : Prop := ikey a <= ikey b.

  Lemma ckey_mono a b : box_sub a b -> wf_box a -> ckey b <= ckey a.
  Proof.
    intros S W. unfold Octree.ckey. apply Z.mul_le_mono_nonneg_r; [exact kpos|].
    apply boxdist2_mono; assumption.
  Qed.

  (* the key of a work item is a lower bound for every element it stands for *)
  Lemma item_lower it : item_ok it -> forall j, In j (item_ids it) -> ikey it <= ekey j.
  Proof.
    destruct it as [k c|k i p]; cbn.
    - intros (-> & Hinv & Hok) j Hj. apply in_map_iff in Hj. destruct Hj as (e & <- & He).
      destruct (inv_elems c Hinv e He) as [W S].
      etransitivity; [apply (ckey_mono _ _ S W) | apply Hok, He].
    - intros (-> & _) j [<-|[]]. lia.
  Qed.

  Lemma insert_in x it wl : In x (insert it wl) <-> x = it \/ In x wl.
  Proof.
    induction wl as [|y wl IH]; cbn; [intuition congruence|].
    destruct (ikey it <? ikey y); cbn; [intuition congruence|]. rewrite IH. intuition congruence.
  Qed.

  Lemma insert_sorted it wl : StronglySorted R wl -> StronglySorted R (insert it wl).
  Proof.
    induction 1 as [|y wl Hs IH Hf]; cbn; [repeat constructor|].
    destruct (ikey it <? ikey y) eqn:E.
    - apply Z.ltb_lt in E. constructor; [constructor; assumption|].
      constructor; [unfold R; lia|]. eapply Forall_impl; [|exact Hf]. unfold R. intros; lia.
    - apply Z.ltb_ge in E. constructor; [exact IH|].
      apply Forall_forall. intros x Hx. apply insert_in in Hx. destruct Hx as [->|Hx]; [exact E|].
      rewrite Forall_forall in Hf. apply Hf, Hx.
  Qed.

  Definition push (its wl : list item) : list item := fold_left (fun w it => insert it w) its wl.
  Lemma push_cells_eq ch wl : push_cells ch wl = push (map (fun c => ICell (ckey (tbox c)) c) ch) wl.
  Proof. revert wl. induction ch as [|c ch IH]; intros wl; cbn; [reflexivity|]. apply IH. Qed.
  Lemma push_elems_eq els wl :
    push_elems els wl = push (map (fun e => IElem (ekey (e_idx e)) (e_idx e) (cpt (e_idx e))) els) wl.
  Proof. revert wl. induction els as [|c ch IH]; intros wl; cbn; [reflexivity|]. apply IH. Qed.

  Lemma push_in x its : forall wl, In x (push its wl) <-> In x its \/ In x wl.
  Proof.
    induction its as [|it its IH]; intros wl; cbn; [tauto|].
    rewrite IH, insert_in. intuition congruence.
  Qed.
  Lemma push_sorted its : forall wl, StronglySorted R wl -> StronglySorted R (push its wl).
  Proof. induction its as [|it its IH]; intros wl H; cbn; [exact H|]. apply IH, insert_sorted, H. Qed.

  (* expanding a cell keeps the set of elements the work list stands for *)
  Lemma step_in (x : item) els ch rest :
    In x (push_elems els (push_cells ch rest)) <->
    (exists e, In e els /\ x = IElem (ekey (e_idx e)) (e_idx e) (cpt (e_idx e))) \/
    (exists c, In c ch /\ x = ICell (ckey (tbox c)) c) \/ In x rest.
  Proof.
    rewrite push_elems_eq, push_cells_eq, !push_in, !in_map_iff.
    split; intros [H|[H|H]]; auto.
    - destruct H as (e & <- & He). left. eauto.
    - destruct H as (c & <- & Hc). right; left. eauto.
    - destruct H as (e & He & ->). left. eauto.
    - destruct H as (c & Hc & ->). right; left. eauto.
  Qed.

  Lemma step_ids b els ch rest j :
    In j (wl_ids (push_elems els (push_cells ch rest))) <->
    In j (map e_idx (tree_elems (Node b els ch))) \/ In j (wl_ids rest).
  Proof.
    unfold wl_ids. rewrite !in_flat_map. cbn [tree_elems]. rewrite map_app, in_app_iff, !in_map_iff.
    split.
    - intros (x & Hx & Hj). apply step_in in Hx. destruct Hx as [(e & He & ->)|[(c & Hc & ->)|Hx]].
      + destruct Hj as [<-|[]]. left; left. eauto.
      + cbn in Hj. apply in_map_iff in Hj. destruct Hj as (e & <- & He). left; right.
        exists e. split; [reflexivity|]. apply in_flat_map. eauto.
      + right. eauto.
    - intros [[(e & <- & He)|(e & <- & He)]|(x & Hx & Hj)].
      + exists (IElem (ekey (e_idx e)) (e_idx e) (cpt (e_idx e))). split; [|left; reflexivity].
        apply step_in. left. eauto.
      + apply in_flat_map in He. destruct He as (c & Hc & He).
        exists (ICell (ckey (tbox c)) c). split; [apply step_in; right; left; eauto|].
        cbn. apply in_map, He.
      + exists x. split; [apply step_in; auto | exact Hj].
  Qed.

  Lemma step_ok b els ch rest :
    item_ok (ICell (ckey b) (Node b els ch)) -> Forall item_ok rest ->
    Forall item_ok (push_elems els (push_cells ch rest)).
  Proof.
    intros (_ & Hinv & Hok) Hr. apply Forall_forall. intros x Hx. apply step_in in Hx.
    destruct Hx as [(e & He & ->)|[(c & Hc & ->)|Hx]].
    - split; reflexivity.
    - rewrite inv_node in Hinv. destruct Hinv as [_ Hch]. rewrite Forall_forall in Hch.
      split; [reflexivity|]. split; [apply Hch, Hc|].
      intros e He. apply Hok. cbn [tree_elems]. apply in_app_iff. right. apply in_flat_map. eauto.
    - rewrite Forall_forall in Hr. apply Hr, Hx.
  Qed.

  Lemma cloop_spec : forall fuel wl i k p,
    StronglySorted R wl -> Forall item_ok wl -> cloop fuel wl = Some (i, k, p) ->
    In i (wl_ids wl) /\ k = ekey i /\ p = cpt i /\ forall j, In j (wl_ids wl) -> k <= ekey j.
  Proof.
    induction fuel as [|fuel IH]; intros wl i k p Hs Hok Hc; [discriminate|].
    destruct wl as [|[k0 [b els ch]|k0 i0 p0] rest]; [discriminate| |]; cbn [Octree.cloop] in Hc.
    - inversion Hs as [|? ? Hs' Hf]; subst. inversion Hok as [|? ? Hi Hr]; subst.
      assert (Hi' : item_ok (ICell (ckey b) (Node b els ch))).
      { destruct Hi as (E & ?). split; [reflexivity|assumption]. }
      apply IH in Hc; [| rewrite push_elems_eq, push_cells_eq; apply push_sorted, push_sorted, Hs' | apply (step_ok b); assumption].
      + destruct Hc as (H1 & H2 & H3 & H4).
        assert (U : forall j, In j (wl_ids (ICell k0 (Node b els ch) :: rest)) <->
                              In j (map e_idx (tree_elems (Node b els ch))) \/ In j (wl_ids rest)).
        { intros j. unfold wl_ids. cbn [flat_map item_ids]. apply in_app_iff. }
        split; [|split; [exact H2|split; [exact H3|]]].
        * apply U. apply (step_ids b) in H1. exact H1.
        * intros j Hj. apply H4. apply (step_ids b). apply U in Hj. exact Hj.
    - injection Hc as <- <- <-. inversion Hs as [|? ? Hs' Hf]; subst. inversion Hok as [|? ? Hi Hr]; subst.
      destruct Hi as (-> & ->). split; [left; reflexivity|]. split; [reflexivity|]. split; [reflexivity|].
      intros j [<-|Hj]; [lia|]. unfold wl_ids in Hj. apply in_flat_map in Hj. destruct Hj as (x & Hx & Hj).
      rewrite Forall_forall in Hf, Hr. specialize (Hf x Hx). unfold R in Hf. cbn in Hf.
      pose proof (item_lower x (Hr x Hx) j Hj). lia.
  Qed.

  (* OctTree.ClosestPoint: the returned index is an element of the tree, the returned point and
     distance are that element's own, and no element is nearer *)
  Theorem closest_spec t i k p :
    inv t -> elem_ok t -> closest t = Some (i, k, p) ->
    In i (map e_idx (tree_elems t)) /\ k = ekey i /\ p = cpt i /\
    forall j, In j (map e_idx (tree_elems t)) -> k <= ekey j.
  Proof.
    intros Hi Ho Hc. unfold Octree.closest in Hc. apply cloop_spec in Hc.
    - unfold wl_ids in Hc. cbn [flat_map item_ids] in Hc. rewrite app_nil_r in Hc. exact Hc.
    - repeat constructor.
    - constructor; [|constructor]. split; [reflexivity|split; assumption].
  Qed.

  (* the fuel (one unit per cell) is enough: a tree with an element always answers *)
  Definition cells (it : item) : nat := match it with ICell _ c => tnodes c | IElem _ _ _ => O end.
  Definition wl_cells (wl : list item) : nat := fold_right (fun it n => (cells it + n)%nat) O wl.

  Lemma insert_cells it wl : wl_cells (insert it wl) = (cells it + wl_cells wl)%nat.
  Proof.
    unfold wl_cells. induction wl as [|y wl IH]; cbn [Octree.insert]; [reflexivity|].
    destruct (ikey it <? ikey y); cbn [fold_right]; [reflexivity|]. rewrite IH. lia.
  Qed.
  Lemma push_measure its : forall wl, wl_cells (push its wl) = (wl_cells its + wl_cells wl)%nat.
  Proof.
    induction its as [|it its IH]; intros wl; [reflexivity|].
    unfold push in *. cbn [fold_left]. rewrite IH, insert_cells. unfold wl_cells. cbn [fold_right]. lia.
  Qed.

  Lemma cloop_some : forall fuel wl, (wl_cells wl < fuel)%nat -> wl_ids wl <> [] -> cloop fuel wl <> None.
  Proof.
    induction fuel as [|fuel IH]; intros wl Hf Hne; [lia|].
    destruct wl as [|[k0 [b els ch]|k0 i0 p0] rest]; [exfalso; apply Hne; reflexivity| |]; cbn [Octree.cloop].
    - apply IH.
      + rewrite push_elems_eq, push_cells_eq, !push_measure.
        cbn [wl_cells fold_right cells tnodes] in Hf.
        assert (E1 : wl_cells (map (fun e => IElem (ekey (e_idx e)) (e_idx e) (cpt (e_idx e))) els) = O).
        { clear. unfold wl_cells. induction els as [|e els IHe]; cbn [map fold_right cells]; [reflexivity|]. rewrite IHe. reflexivity. }
        assert (E2 : wl_cells (map (fun c => ICell (ckey (tbox c)) c) ch) =
                     fold_right (fun c n => (tnodes c + n)%nat) O ch).
        { clear. unfold wl_cells. induction ch as [|c ch IHc]; cbn [map fold_right cells]; [reflexivity|]. rewrite IHc. reflexivity. }
        rewrite E1, E2. fold (wl_cells rest) in Hf. lia.
      + destruct (wl_ids (ICell k0 (Node b els ch) :: rest)) as [|j l] eqn:E; [contradiction|].
        assert (Hj : In j (wl_ids (ICell k0 (Node b els ch) :: rest))) by (rewrite E; left; reflexivity).
        unfold wl_ids in Hj. cbn [flat_map item_ids] in Hj. apply in_app_iff in Hj.
        apply (step_ids b) in Hj. intros E'. rewrite E' in Hj. destruct Hj.
    - discriminate.
  Qed.

  Theorem closest_some t : tree_elems t <> [] -> closest t <> None.
  Proof.
    intros H. unfold Octree.closest. apply cloop_some.
    - cbn. lia.
    - unfold wl_ids. cbn [flat_map item_ids]. rewrite app_nil_r. intros E. apply map_eq_nil in E. contradiction.
  Qed.
End ClosestProofs.


(* ---------- from element lists to trees: NewOctree / NewOctreeWithDepth ---------- *)
Lemma Permutation_filter {A} (f : A -> bool) l l' : Permutation l l' -> Permutation (filter f l) (filter f l').
Proof.
  induction 1; cbn; try constructor.
  - destruct (f x); [constructor|]; assumption.
  - destruct (f x), (f y); try constructor; apply Permutation_refl.
  - eapply Permutation_trans; eassumption.
Qed.

Lemma in_number_gen (d : box) boxes : forall s i b,
  In (i, b) (combine (seq s (length boxes)) boxes) ->
  (s <= i < s + length boxes)%nat /\ nth (i - s) boxes d = b.
Proof.
  induction boxes as [|b0 bs IH]; intros s i b H; [destruct H|].
  cbn [length seq combine] in H. destruct H as [H|H].
  - injection H as <- <-. rewrite Nat.sub_diag. cbn. split; [lia|reflexivity].
  - apply IH in H. destruct H as [H1 H2]. cbn [length]. split; [lia|].
    replace (i - s)%nat with (S (i - S s)) by lia. exact H2.
Qed.

Lemma in_number d boxes e : In e (number boxes) ->
  (e_idx e < length boxes)%nat /\ e_box e = nth (e_idx e) boxes d.
Proof.
  destruct e as [i b]. intros H. apply (in_number_gen d) in H. cbn [e_idx e_box fst snd].
  rewrite Nat.sub_0_r in H. destruct H as [H1 H2]. split; [lia | symmetry; exact H2].
Qed.

Lemma number_idx_gen (boxes : list box) : forall s, map fst (combine (seq s (length boxes)) boxes) = seq s (length boxes).
Proof. induction boxes as [|b bs IH]; intros s; cbn; [reflexivity|]. f_equal. apply IH. Qed.

Lemma scan_number_gen (f : box -> bool) d boxes : forall s,
  map fst (filter (fun e => f (snd e)) (combine (seq s (length boxes)) boxes)) =
  filter (fun i => f (nth (i - s) boxes d)) (seq s (length boxes)).
Proof.
  induction boxes as [|b bs IH]; intros s; [reflexivity|].
  cbn [length seq combine filter snd]. rewrite Nat.sub_diag. change (nth 0 (b :: bs) d) with b.
  assert (E : filter (fun i => f (nth (i - s) (b :: bs) d)) (seq (S s) (length bs)) =
              filter (fun i => f (nth (i - S s) bs d)) (seq (S s) (length bs))).
  { apply filter_ext_in. intros i Hi. apply in_seq in Hi.
    replace (i - s)%nat with (S (i - S s)) by lia. reflexivity. }
  rewrite E. destruct (f b); cbn [map fst]; rewrite IH; reflexivity.
Qed.

(* the exhaustive scan: the indices of the boxes that pass the test *)
Definition brute (f : box -> bool) (boxes : list box) : list nat :=
  filter (fun i => f (nth i boxes zero_pt_box)) (seq 0 (length boxes)).

Lemma scan_number f boxes : map e_idx (filter (fun e => f (e_box e)) (number boxes)) = brute f boxes.
Proof.
  unfold number, brute. etransitivity; [exact (scan_number_gen f zero_pt_box boxes 0)|].
  apply filter_ext. intros i. rewrite Nat.sub_0_r. reflexivity.
Qed.

Lemma number_wf boxes : Forall wf_box boxes -> forall e, In e (number boxes) -> wf_box (e_box e).
Proof.
  intros H e He. destruct e as [i b]. apply in_combine_r in He. rewrite Forall_forall in H. apply H, He.
Qed.

Theorem new_octree_inv depth boxes t :
  Forall wf_box boxes -> new_octree depth boxes = Some t ->
  inv t /\ Permutation (tree_elems t) (number boxes).
Proof. intros W B. unfold new_octree in B. eapply build_inv; [apply number_wf, W | exact B]. Qed.

Theorem new_octree_none depth boxes : new_octree depth boxes = None <-> boxes = [].
Proof.
  split.
  - intros H. apply build_none in H. destruct boxes; [reflexivity | discriminate].
  - intros ->. unfold new_octree. destruct depth as [[|d]|]; reflexivity.
Qed.

Lemma scan_perm f t boxes : Permutation (tree_elems t) (number boxes) -> Permutation (scan f t) (brute f boxes).
Proof. intros H. unfold scan. rewrite <- scan_number. apply Permutation_map, Permutation_filter, H. Qed.

Theorem contains_eq_brute_thm depth boxes t p :
  Forall wf_box boxes -> new_octree depth boxes = Some t ->
  Permutation (containing t p) (brute (inb p) boxes).
Proof.
  intros W B. destruct (new_octree_inv _ _ _ W B) as [I Pm].
  rewrite containing_eq_scan by exact I. apply scan_perm, Pm.
Qed.

Theorem within_eq_brute_thm depth boxes t p d :
  Forall wf_box boxes -> new_octree depth boxes = Some t ->
  Permutation (within t p d) (brute (fun b => negb (far b p d)) boxes).
Proof.
  intros W B. destruct (new_octree_inv _ _ _ W B) as [I Pm].
  rewrite within_eq_scan by exact I. apply scan_perm, Pm.
Qed.

Theorem ray_eq_brute_thm depth boxes t ry r :
  Forall wf_box boxes -> new_octree depth boxes = Some t ->
  Permutation (ray_hits t ry r) (brute (fun b => slab b ry r) boxes) /\
  traverse (fun _ r => r) t ry r = ray_hits t ry r.
Proof.
  intros W B. destruct (new_octree_inv _ _ _ W B) as [I Pm]. split; [|apply traverse_id_eq_ray_hits].
  rewrite ray_hits_eq_scan by exact I. apply scan_perm, Pm.
Qed.

Lemma tree_ids depth boxes t j :
  Forall wf_box boxes -> new_octree depth boxes = Some t ->
  In j (map e_idx (tree_elems t)) <-> (j < length boxes)%nat.
Proof.
  intros W B. destruct (new_octree_inv _ _ _ W B) as [_ Pm].
  assert (E : Permutation (map e_idx (tree_elems t)) (seq 0 (length boxes))).
  { rewrite <- (number_idx_gen boxes 0). apply Permutation_map, Pm. }
  split; intros H.
  - eapply Permutation_in in H; [|exact E]. apply in_seq in H. lia.
  - eapply Permutation_in; [apply Permutation_sym, E|]. apply in_seq. lia.
Qed.

(* ClosestPoint on the tree NewOctree builds, for elements whose own closest point is at least as
   far away as their box *)
Theorem closest_eq_brute_thm (P : Type) (ekey : nat -> Z) (cpt : nat -> P) kscale q depth boxes t :
  0 <= kscale -> Forall wf_box boxes ->
  (forall i, (i < length boxes)%nat -> boxdist2 (nth i boxes zero_pt_box) q * kscale <= ekey i) ->
  new_octree depth boxes = Some t ->
  (exists r, closest P ekey cpt kscale q t = Some r) /\
  forall i k p, closest P ekey cpt kscale q t = Some (i, k, p) ->
    (i < length boxes)%nat /\ k = ekey i /\ p = cpt i /\
    forall j, (j < length boxes)%nat -> k <= ekey j.
Proof.
  intros K W H B. destruct (new_octree_inv _ _ _ W B) as [I Pm]. split.
  - destruct (closest P ekey cpt kscale q t) as [r|] eqn:E; [eauto|]. exfalso.
    revert E. apply closest_some. intros E. rewrite E in Pm. apply Permutation_nil in Pm.
    assert (boxes = []) by (destruct boxes; [reflexivity|discriminate]). subst.
    rewrite (proj2 (new_octree_none depth []) eq_refl) in B. discriminate.
  - intros i k p C. apply (closest_spec P ekey cpt kscale q K) in C; [|exact I|].
    + destruct C as (C1 & C2 & C3 & C4). split; [eapply tree_ids; eassumption|].
      split; [exact C2|]. split; [exact C3|]. intros j Hj. apply C4. eapply tree_ids; eassumption.
    + intros e He. eapply Permutation_in in He; [|exact Pm].
      destruct (in_number zero_pt_box boxes e He) as [L Eb]. unfold ckey. rewrite Eb. apply H, L.
Qed.

(* ---------- TraverseIntersectingRay with an iterator that narrows the range ---------- *)
Section Traverse.
  Variable it : nat -> Q * Q -> Q * Q.
  Variable ry : ray.
  Variable rl : Q * Q.                      (* a range every narrowed range still contains *)
  Definition rsub (a b : Q * Q) : Prop := (fst b <= fst a)%Q /\ (snd a <= snd b)%Q.
  Hypothesis it_shrinks : forall i r, rsub (it i r) r.
  Hypothesis it_keeps : forall i r, rsub rl r -> rsub rl (it i r).

  Lemma rsub_refl r : rsub r r.
  Proof. split; apply Qle_refl. Qed.
  Lemma rsub_trans a b c : rsub a b -> rsub b c -> rsub a c.
  Proof. unfold rsub. intros [? ?] [? ?]. split; lra. Qed.

  Lemma slab_range b r1 r2 : wf_box b -> rsub r1 r2 -> slab b ry r1 = true -> slab b ry r2 = true.
  Proof. intros W [H1 H2]. apply slab_mono; auto. apply box_sub_refl. Qed.

  Lemma trav_fold els : forall acc rc r,
    (forall e, In e els -> wf_box (e_box e)) -> rsub rc r -> rsub rl rc ->
    let res := fold_left (fun (st : list nat * (Q * Q)) e =>
                 let (vis, r0) := st in
                 if slab (e_box e) ry r0 then (vis ++ [e_idx e], it (e_idx e) r0) else (vis, r0)) els (acc, rc) in
    rsub (snd res) r /\ rsub rl (snd res) /\
    (forall i, In i (fst res) -> In i acc \/ exists e, In e els /\ e_idx e = i /\ slab (e_box e) ry r = true) /\
    (forall i, In i acc -> In i (fst res)) /\
    (forall e, In e els -> slab (e_box e) ry rl = true -> In (e_idx e) (fst res)).
  Proof.
    induction els as [|e els IH]; intros acc rc r W H1 H2; cbn [fold_left].
    - cbn [fst snd]. split; [exact H1|]. split; [exact H2|]. split; [intros i Hi; left; exact Hi|]. split; [auto|]. intros e [].
    - assert (We : wf_box (e_box e)) by (apply W; left; reflexivity).
      assert (W' : forall x, In x els -> wf_box (e_box x)) by (intros x Hx; apply W; right; exact Hx).
      destruct (slab (e_box e) ry rc) eqn:S.
      + specialize (IH (acc ++ [e_idx e]) (it (e_idx e) rc) r W'
                       (rsub_trans _ _ _ (it_shrinks _ _) H1) (it_keeps _ _ H2)).
        cbv zeta in *. destruct IH as (A & B & C & D & E). split; [exact A|]. split; [exact B|]. split; [|split].
        * intros i Hi. apply C in Hi. destruct Hi as [Hi|(x & Hx & Ex & Sx)].
          -- apply in_app_iff in Hi. destruct Hi as [Hi|[<-|[]]]; [left; exact Hi|].
             right. exists e. split; [left; reflexivity|]. split; [reflexivity|].
             eapply slab_range; eassumption.
          -- right. exists x. split; [right; exact Hx|]. split; assumption.
        * intros i Hi. apply D. apply in_app_iff. left; exact Hi.
        * intros x [<-|Hx] Sx; [apply D, in_app_iff; right; left; reflexivity | apply E; assumption].
      + specialize (IH acc rc r W' H1 H2). cbv zeta in *. destruct IH as (A & B & C & D & E). split; [exact A|]. split; [exact B|]. split; [|split; [exact D|]].
        * intros i Hi. apply C in Hi. destruct Hi as [Hi|(x & Hx & Ex & Sx)]; [left; exact Hi|].
          right. exists x. split; [right; exact Hx|]. split; assumption.
        * intros x [<-|Hx] Sx; [|apply E; assumption].
          rewrite (slab_range _ rl rc We H2 Sx) in S. discriminate.
  Qed.

  (* every visited element passes the bounds test for the range the caller gave, and every element
     that passes it for the range that is never cut away is visited *)
  Theorem traverse_sandwich : forall t r, inv t -> rsub rl r ->
    (forall i, In i (traverse it t ry r) -> In i (scan (fun b => slab b ry r) t)) /\
    (forall e, In e (tree_elems t) -> slab (e_box e) ry rl = true -> In (e_idx e) (traverse it t ry r)).
  Proof.
    induction t as [b els ch IH] using tree_ind'. intros r Hinv Hr.
    pose proof (inv_elems _ Hinv) as Hel. cbn [tbox] in Hel.
    rewrite inv_node in Hinv. destruct Hinv as [_ Hch].
    cbn [traverse]. destruct (slab b ry r) eqn:S.
    2:{ split; [intros i []|]. intros e He Se. exfalso. destruct (Hel e He) as [W Sb].
        destruct Hr as [R1 R2]. rewrite (slab_mono _ _ ry rl r Sb W R1 R2 Se) in S. discriminate. }
    assert (Wels : forall e, In e els -> wf_box (e_box e)).
    { intros e He. apply Hel. cbn [tree_elems]. apply in_app_iff. left; exact He. }
    pose proof (trav_fold els [] r r Wels (rsub_refl r) Hr) as T. cbv zeta in T.
    unfold trav_els. destruct (fold_left _ els ([], r)) as [vis r'] eqn:F. cbn [fst snd] in T.
    destruct T as (A & B & C & _ & E).
    rewrite Forall_forall in IH, Hch. split.
    - intros i Hi. rewrite scan_node. apply in_app_iff in Hi. apply in_app_iff. destruct Hi as [Hi|Hi].
      + left. apply C in Hi. destruct Hi as [[]|(e & He & <- & Se)].
        apply in_map, filter_In. split; assumption.
      + right. apply in_flat_map in Hi. destruct Hi as (c & Hc & Hi). apply in_flat_map. exists c. split; [exact Hc|].
        destruct (IH c Hc r' (Hch c Hc) B) as [U _]. apply U in Hi.
        unfold scan in *. apply in_map_iff in Hi. destruct Hi as (e & <- & He). apply filter_In in He. destruct He as [He Se].
        apply in_map, filter_In. split; [exact He|].
        destruct (inv_elems c (Hch c Hc) e He) as [W _]. eapply slab_range; eassumption.
    - intros e He Se. cbn [tree_elems] in He. apply in_app_iff in He. apply in_app_iff. destruct He as [He|He].
      + left. apply E; assumption.
      + right. apply in_flat_map in He. destruct He as (c & Hc & He). apply in_flat_map. exists c. split; [exact Hc|].
        destruct (IH c Hc r' (Hch c Hc) B) as [_ L]. apply L; assumption.
  Qed.
End Traverse.

Open Scope Q_scope.
(* ---------- what the slab test means ---------- *)
(* one axis: the coordinate o + t*d lies strictly inside the slab (bl, bh); for an exact zero direction
   component (either sign: 1/d is an infinity) the origin lies in the closed slab [bl, bh] *)
Definition axis_in (o d bl bh t : Q) : Prop :=
  if Qeq_bool d 0 then bl <= o /\ o <= bh else bl < o + t * d /\ o + t * d < bh.

Lemma div_lt_pos d x t : 0 < d -> (x / d < t <-> x < t * d) /\ (t < x / d <-> t * d < x).
Proof.
  intros Hd. assert (E : x == (x / d) * d) by (field; lra).
  split.
  - rewrite E at 2. symmetry. apply Qmult_lt_r. exact Hd.
  - rewrite E at 2. symmetry. apply Qmult_lt_r. exact Hd.
Qed.
Lemma div_lt_neg d x t : d < 0 -> (x / d < t <-> t * d < x) /\ (t < x / d <-> x < t * d).
Proof.
  intros Hd. assert (E : x / d == (- x) / (- d)) by (field; lra).
  assert (Hd' : 0 < - d) by lra. destruct (div_lt_pos (- d) (- x) t Hd') as [A B].
  split.
  - rewrite E, A. split; intros; nra.
  - rewrite E, B. split; intros; nra.
Qed.

Definition in_range (r : Q * Q) (t : Q) : Prop := fst r < t /\ t < snd r.

Lemma qeqb_false d : Qeq_bool d 0 = false <-> ~ d == 0.
Proof.
  split.
  - intros H E. apply Qeq_bool_iff in E. congruence.
  - intros H. destruct (Qeq_bool d 0) eqn:E; [|reflexivity]. apply Qeq_bool_iff in E. contradiction.
Qed.

(* one stage of the slab test: the range that is left is exactly the part of the range where the
   axis condition holds; "miss" means that part is empty *)
Lemma slab1_geo o d bl bh r : bl <= bh ->
  match slab1 o d bl bh r with
  | Some r' => fst r' < snd r' /\ forall t, in_range r' t <-> in_range r t /\ axis_in o d bl bh t
  | None => forall t, ~ (in_range r t /\ axis_in o d bl bh t)
  end.
Proof.
  intros W. destruct (Qeq_dec d 0) as [Hd|Hd].
  - destruct r as [lo hi]. unfold slab1, axis_in. pose proof Hd as Hd'. apply Qeq_alt in Hd'. rewrite Hd'.
    apply Qeq_bool_iff in Hd. rewrite Hd.
    destruct (Qle_bool bl o && Qle_bool o bh)%bool eqn:E1.
    + apply andb_true_iff in E1. destruct E1 as [E1 E2].
      destruct (Qle_bool hi lo) eqn:E3; qb.
      * intros t [[A B] _]. cbn in A, B. lra.
      * split; [exact E3|]. intros t. tauto.
    + intros t [_ [A B]]. apply andb_false_iff in E1. destruct E1 as [E1|E1]; qb; lra.
  - rewrite slab1_nz_eq by exact Hd. unfold slab1_nz, axis_in. cbv zeta.
    rewrite (proj2 (qeqb_false d) Hd).
    assert (M : forall t,
      (qmn ((bl - o) / d) ((bh - o) / d) < t /\ t < qmx ((bh - o) / d) ((bl - o) / d)) <->
      (bl < o + t * d /\ o + t * d < bh)).
    { intros t.
      destruct (qmn_spec ((bl - o) / d) ((bh - o) / d)) as (A1 & A2 & A3).
      destruct (qmx_spec ((bh - o) / d) ((bl - o) / d)) as (A4 & A5 & A6).
      destruct (Q_dec d 0) as [[Hn|Hp]|He]; [| |contradiction].
      - destruct (div_lt_neg d (bl - o) t Hn) as [L1 L2]. destruct (div_lt_neg d (bh - o) t Hn) as [H1 H2].
        assert ((bh - o) / d <= (bl - o) / d) by (apply Qdiv_le_neg; [assumption|lra]).
        generalize dependent ((bl - o) / d). generalize dependent ((bh - o) / d). intros.
        destruct A3, A6; split; intros [X Y]; split; lra.
      - destruct (div_lt_pos d (bl - o) t Hp) as [L1 L2]. destruct (div_lt_pos d (bh - o) t Hp) as [H1 H2].
        assert ((bl - o) / d <= (bh - o) / d) by (apply Qdiv_le_pos; [assumption|lra]).
        generalize dependent ((bl - o) / d). generalize dependent ((bh - o) / d). intros.
        destruct A3, A6; split; intros [X Y]; split; lra. }
    generalize dependent (qmn ((bl - o) / d) ((bh - o) / d)). intros t0.
    generalize dependent (qmx ((bh - o) / d) ((bl - o) / d)). intros t1 M.
    destruct (qmx_spec (fst r) t0) as (C1 & C2 & C3). destruct (qmn_spec (snd r) t1) as (C4 & C5 & C6).
    generalize dependent (qmx (fst r) t0). intros lo'. generalize dependent (qmn (snd r) t1). intros hi'. intros.
    assert (N : forall t, (lo' < t /\ t < hi') <-> (in_range r t /\ t0 < t /\ t < t1)).
    { intros t. unfold in_range. destruct C3, C6; split; intros; repeat split; lra. }
    destruct (Qle_bool hi' lo') eqn:E; qb.
    + intros t [R A]. apply M in A. assert (lo' < t /\ t < hi') by (apply N; tauto). lra.
    + split; [exact E|]. intros t. unfold in_range at 1. cbn [fst snd]. rewrite N, M. tauto.
Qed.

(* "the ray crosses the box within the range": some parameter t strictly inside the range puts the
   point origin + t*direction inside the kEpsilon-inflated box (strictly, on every axis with a non-zero
   direction component; an axis with a zero component only asks the origin to be in the closed slab) *)
Definition ray_crosses (b : box) (ry : ray) (r : Q * Q) : Prop :=
  let '(o, (dx, dy, dz)) := ry in
  exists t, in_range r t /\
    axis_in (q4 (px o)) dx (q4 (px (bmin b)) - keps) (q4 (px (bmax b)) + keps) t /\
    axis_in (q4 (py o)) dy (q4 (py (bmin b)) - keps) (q4 (py (bmax b)) + keps) t /\
    axis_in (q4 (pz o)) dz (q4 (pz (bmin b)) - keps) (q4 (pz (bmax b)) + keps) t.

Lemma range_midpoint (r : Q * Q) : fst r < snd r -> in_range r ((fst r + snd r) / 2).
Proof.
  intros H. unfold in_range. assert (E : (fst r + snd r) / 2 == (fst r + snd r) * (1 # 2)) by field.
  rewrite E. split; lra.
Qed.

Theorem slab_geo b ry r : wf_box b -> (slab b ry r = true <-> ray_crosses b ry r).
Proof.
  intros W. unfold slab, ray_crosses. destruct ry as [o [[dx dy] dz]].
  unfold wf_box in W. destruct W as (W1 & W2 & W3). apply q4_mono in W1, W2, W3.
  assert (K : 0 <= keps) by (unfold keps, Qle; cbn; lia).
  pose proof (slab1_geo (q4 (px o)) dx (q4 (px (bmin b)) - keps) (q4 (px (bmax b)) + keps) r ltac:(lra)) as G1.
  destruct (slab1 (q4 (px o)) dx _ _ r) as [r1|]; cbn [obind].
  2:{ split; [discriminate|]. intros (t & R & A1 & _). exfalso. apply (G1 t). tauto. }
  destruct G1 as [_ G1].
  pose proof (slab1_geo (q4 (py o)) dy (q4 (py (bmin b)) - keps) (q4 (py (bmax b)) + keps) r1 ltac:(lra)) as G2.
  destruct (slab1 (q4 (py o)) dy _ _ r1) as [r2|]; cbn [obind].
  2:{ split; [discriminate|]. intros (t & R & A1 & A2 & _). exfalso. apply (G2 t). rewrite G1. tauto. }
  destruct G2 as [_ G2].
  pose proof (slab1_geo (q4 (pz o)) dz (q4 (pz (bmin b)) - keps) (q4 (pz (bmax b)) + keps) r2 ltac:(lra)) as G3.
  destruct (slab1 (q4 (pz o)) dz _ _ r2) as [r3|]; cbn [obind].
  2:{ split; [discriminate|]. intros (t & R & A1 & A2 & A3). exfalso. apply (G3 t). rewrite G2, G1. tauto. }
  destruct G3 as [N3 G3]. split; [intros _|reflexivity].
  exists ((fst r3 + snd r3) / 2). pose proof (range_midpoint r3 N3) as Mid.
  apply G3 in Mid. rewrite G2, G1 in Mid. tauto.
Qed.
Open Scope Z_scope.

(* ElementsIntersectingRay against the geometric specification: exactly the elements whose (inflated)
   box the ray crosses within the range, each once *)
Theorem ray_hits_geo depth boxes t ry r :
  Forall wf_box boxes -> new_octree depth boxes = Some t ->
  NoDup (ray_hits t ry r) /\
  forall i, In i (ray_hits t ry r) <->
            (i < length boxes)%nat /\ ray_crosses (nth i boxes zero_pt_box) ry r.
Proof.
  intros W B. destruct (ray_eq_brute_thm depth boxes t ry r W B) as [P _].
  assert (ND : NoDup (brute (fun b => slab b ry r) boxes)) by (apply NoDup_filter, seq_NoDup).
  split; [eapply Permutation_NoDup; [apply Permutation_sym, P | exact ND]|].
  intros i. split.
  - intros H. eapply Permutation_in in H; [|exact P]. unfold brute in H. apply filter_In in H.
    destruct H as [H1 H2]. apply in_seq in H1. split; [lia|].
    apply slab_geo; [|exact H2]. rewrite Forall_forall in W. apply W, nth_In. lia.
  - intros [H1 H2]. eapply Permutation_in; [apply Permutation_sym, P|]. apply filter_In. split; [apply in_seq; lia|].
    apply slab_geo; [|exact H2]. rewrite Forall_forall in W. apply W, nth_In. lia.
Qed.
