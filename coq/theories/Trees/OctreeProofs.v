(* C16 — proofs about the octree model (Trees/Octree.v).

   inv            the invariant: in every cell, every element stored in or below the cell has a
                  well-formed box that lies inside the cell's box
   inv_build      newOctree establishes it, for every element list and every depth, and keeps every
                  element exactly once (Permutation)
   *_eq_brute     from the invariant alone: each query returns what the exhaustive scan returns   *)
From PF Require Export Trees.Octree.
From Coq Require Import Permutation Sorting.Sorted Lqa Lia Qfield.
Open Scope Z_scope.

(* ---------- induction over trees (children are a list) ---------- *)
Lemma tree_ind' (P : tree -> Prop) :
  (forall b els ch, Forall P ch -> P (Node b els ch)) -> forall t, P t.
Proof.
  intros H. fix IH 1. intros [b els ch]. apply H.
  induction ch as [|c ch IHch]; constructor; [apply IH | exact IHch].
Qed.

(* ---------- boxes ---------- *)
Definition wf_box (b : box) : Prop :=
  px (bmin b) <= px (bmax b) /\ py (bmin b) <= py (bmax b) /\ pz (bmin b) <= pz (bmax b).

Lemma box_sub_refl b : box_sub b b.
Proof. unfold box_sub; lia. Qed.
Lemma box_sub_trans a b c : box_sub a b -> box_sub b c -> box_sub a c.
Proof. unfold box_sub; lia. Qed.

Lemma inb_true p b : inb p b = true <->
  px (bmin b) <= px p <= px (bmax b) /\ py (bmin b) <= py p <= py (bmax b) /\ pz (bmin b) <= pz p <= pz (bmax b).
Proof. unfold inb. rewrite !andb_true_iff, !Z.leb_le. lia. Qed.

(* a point inside the smaller box is inside the larger one *)
Lemma inb_mono p a b : box_sub a b -> inb p a = true -> inb p b = true.
Proof. intros S. rewrite !inb_true. unfold box_sub in S. lia. Qed.

Lemma enc_box_l b o : box_sub b (enc_box b o).
Proof. unfold box_sub, enc_box, enc_pt, pmin, pmax, bmin, bmax, px, py, pz; cbn [fst snd]; repeat split; lia. Qed.
Lemma enc_box_r b o : box_sub o (enc_box b o).
Proof. unfold box_sub, enc_box, enc_pt, pmin, pmax, bmin, bmax, px, py, pz; cbn [fst snd]; repeat split; lia. Qed.

Lemma fold_enc_acc bs : forall b, box_sub b (fold_left enc_box bs b).
Proof.
  induction bs as [|o bs IH]; intros b; cbn; [apply box_sub_refl|].
  eapply box_sub_trans; [apply enc_box_l | apply IH].
Qed.
Lemma fold_enc_in bs : forall b o, In o bs -> box_sub o (fold_left enc_box bs b).
Proof.
  induction bs as [|o' bs IH]; intros b o Hin; [destruct Hin|]. destruct Hin as [->|Hin]; cbn.
  - eapply box_sub_trans; [apply enc_box_r | apply fold_enc_acc].
  - apply IH, Hin.
Qed.
(* the bounds newOctree computes contain every element's bounds *)
Lemma hull_contains e0 els e : In e els -> box_sub (e_box e) (hull e0 els).
Proof. intros H. apply fold_enc_in, in_map, H. Qed.

Lemma sq_le a b : Z.abs a <= Z.abs b -> sq a <= sq b.
Proof.
  intros H. unfold sq. rewrite <- (Z.abs_square a), <- (Z.abs_square b).
  apply Z.square_le_mono_nonneg; lia.
Qed.

(* one coordinate of AABB.ClosestPoint: clamping to a larger interval moves the value less *)
Lemma clamp_mono v la ha lb hb :
  lb <= la -> la <= ha -> ha <= hb -> sq (v - clampz v lb hb) <= sq (v - clampz v la ha).
Proof. intros H1 H2 H3. apply sq_le. unfold clampz. lia. Qed.

(* the distance from a point to a box shrinks when the box grows *)
Lemma boxdist2_mono a b p : box_sub a b -> wf_box a -> boxdist2 b p <= boxdist2 a p.
Proof.
  intros S W. unfold box_sub in S. unfold wf_box in W.
  unfold boxdist2, dist2, bclosest. cbn [px py pz fst snd].
  repeat apply Z.add_le_mono; apply clamp_mono; lia.
Qed.

Lemma boxdist2_nonneg b p : 0 <= boxdist2 b p.
Proof. unfold boxdist2, dist2, sq. repeat apply Z.add_nonneg_nonneg; apply Z.square_nonneg. Qed.

Lemma clamp_closest v lo hi x : lo <= x <= hi -> sq (v - clampz v lo hi) <= sq (v - x).
Proof. intros Hx. apply sq_le. unfold clampz. lia. Qed.

(* a point of the box is at least as far away as the box *)
Lemma boxdist2_le_in b p c : inb c b = true -> boxdist2 b p <= dist2 c p.
Proof.
  rewrite inb_true. intros H. unfold boxdist2, dist2, bclosest. cbn [px py pz fst snd].
  repeat apply Z.add_le_mono; apply clamp_closest; lia.
Qed.

Lemma far_mono a b p d : box_sub a b -> wf_box a -> far b p d = true -> far a p d = true.
Proof.
  intros S W. unfold far. rewrite !orb_true_iff, !Z.ltb_lt.
  pose proof (boxdist2_mono a b p S W). lia.
Qed.

(* ---------- the invariant ---------- *)
Fixpoint inv (t : tree) : Prop :=
  match t with
  | Node b els ch =>
      (forall e, In e (els ++ flat_map tree_elems ch) -> wf_box (e_box e) /\ box_sub (e_box e) b) /\
      (fix all (l : list tree) : Prop := match l with [] => True | c :: r => inv c /\ all r end) ch
  end.

Lemma inv_node b els ch :
  inv (Node b els ch) <->
  (forall e, In e (tree_elems (Node b els ch)) -> wf_box (e_box e) /\ box_sub (e_box e) b) /\ Forall inv ch.
Proof.
  cbn [inv tree_elems]. split; intros [H1 H2]; split; try exact H1.
  - induction ch as [|c ch IH]; constructor; [apply H2|]. apply IH; [|apply H2].
    intros e He. apply H1. rewrite in_app_iff in *. cbn. rewrite in_app_iff. tauto.
  - induction H2 as [|c ch Hc Hch IH]; [exact I|]. split; [exact Hc|]. apply IH.
    intros e He. apply H1. rewrite in_app_iff in *. cbn. rewrite in_app_iff. tauto.
Qed.

Lemma inv_elems t : inv t -> forall e, In e (tree_elems t) -> wf_box (e_box e) /\ box_sub (e_box e) (tbox t).
Proof. destruct t as [b els ch]. rewrite inv_node. intros [H _]. exact H. Qed.

(* ---------- ElementsContainingPoint ---------- *)
Lemma filter_nil_all {A} (f : A -> bool) l : (forall x, In x l -> f x = false) -> filter f l = [].
Proof.
  induction l as [|x l IH]; intros H; cbn; [reflexivity|].
  rewrite (H x) by (left; reflexivity). apply IH. intros y Hy. apply H. right; exact Hy.
Qed.

Lemma filter_flat_map {A B} (f : B -> bool) (g : A -> list B) l :
  filter f (flat_map g l) = flat_map (fun x => filter f (g x)) l.
Proof. induction l as [|x l IH]; cbn; [reflexivity|]. rewrite filter_app, IH. reflexivity. Qed.

Lemma map_flat_map {A B C} (h : B -> C) (g : A -> list B) l :
  map h (flat_map g l) = flat_map (fun x => map h (g x)) l.
Proof. induction l as [|x l IH]; cbn; [reflexivity|]. rewrite map_app, IH. reflexivity. Qed.

Lemma flat_map_ext_in {A B} (f g : A -> list B) l :
  (forall x, In x l -> f x = g x) -> flat_map f l = flat_map g l.
Proof.
  induction l as [|x l IH]; intros H; cbn; [reflexivity|].
  rewrite (H x) by (left; reflexivity). f_equal. apply IH. intros y Hy. apply H. right; exact Hy.
Qed.

(* the scan of a tree's own element list, in the order the tree stores them *)
Definition scan (f : box -> bool) (t : tree) : list nat :=
  map e_idx (filter (fun e => f (e_box e)) (tree_elems t)).

Lemma scan_node f b els ch :
  scan f (Node b els ch) = map e_idx (filter (fun e => f (e_box e)) els) ++ flat_map (scan f) ch.
Proof.
  unfold scan. cbn [tree_elems]. rewrite filter_app, map_app. f_equal.
  rewrite filter_flat_map, map_flat_map. reflexivity.
Qed.

Lemma scan_nil f t : (forall e, In e (tree_elems t) -> f (e_box e) = false) -> scan f t = [].
Proof. intros H. unfold scan. rewrite filter_nil_all; [reflexivity | exact H]. Qed.

Theorem containing_eq_scan p : forall t, inv t -> containing t p = scan (inb p) t.
Proof.
  induction t as [b els ch IH] using tree_ind'. rewrite inv_node. intros [_ Hch].
  rewrite scan_node. cbn [containing]. f_equal.
  apply flat_map_ext_in. intros c Hc.
  rewrite Forall_forall in IH, Hch. specialize (IH c Hc (Hch c Hc)).
  destruct (inb p (tbox c)) eqn:E; [exact IH|].
  symmetry. apply scan_nil. intros e He.
  destruct (inb p (e_box e)) eqn:E2; [|reflexivity].
  destruct (inv_elems c (Hch c Hc) e He) as [_ S].
  rewrite (inb_mono p _ _ S E2) in E. discriminate.
Qed.

(* ---------- ElementsWithinRange ---------- *)
Theorem within_eq_scan p d : forall t, inv t -> within t p d = scan (fun b => negb (far b p d)) t.
Proof.
  induction t as [b els ch IH] using tree_ind'. intros Hinv.
  pose proof (inv_elems _ Hinv) as Hel. rewrite inv_node in Hinv. destruct Hinv as [_ Hch].
  cbn [within]. destruct (far b p d) eqn:E.
  - symmetry. apply scan_nil. intros e He. destruct (Hel e He) as [W S].
    cbn [tbox] in S. rewrite (far_mono _ _ _ _ S W E). reflexivity.
  - rewrite scan_node. f_equal. apply flat_map_ext_in. intros c Hc.
    rewrite Forall_forall in IH, Hch. apply IH; auto.
Qed.

(* ---------- newOctree establishes the invariant and keeps every element exactly once ---------- *)
Lemma oct_index_lt c p : (oct_index c p < 8)%nat.
Proof. unfold oct_index. destruct (px p <? px c), (py p <? py c), (pz p <? pz c); cbn; lia. Qed.
Lemma octant_lt c e : (octant c e < 8)%nat.
Proof. unfold octant. destruct (_ <? _); apply oct_index_lt. Qed.

Lemma flat_map_insert_out {A} (F : nat -> list A) (x : A) (a : nat) n s :
  ~ (s <= a < s + n)%nat ->
  flat_map (fun k => if Nat.eqb a k then x :: F k else F k) (seq s n) = flat_map F (seq s n).
Proof.
  intros H. apply flat_map_ext_in. intros k Hk. apply in_seq in Hk.
  destruct (Nat.eqb a k) eqn:E; [|reflexivity]. apply Nat.eqb_eq in E. lia.
Qed.

Lemma flat_map_insert {A} (F : nat -> list A) (x : A) (a : nat) : forall n s,
  (s <= a < s + n)%nat ->
  Permutation (flat_map (fun k => if Nat.eqb a k then x :: F k else F k) (seq s n))
              (x :: flat_map F (seq s n)).
Proof.
  induction n as [|n IH]; intros s H; [lia|].
  cbn [seq flat_map]. destruct (Nat.eqb a s) eqn:E.
  - apply Nat.eqb_eq in E. subst s. rewrite flat_map_insert_out by lia. reflexivity.
  - apply Nat.eqb_neq in E.
    eapply Permutation_trans; [apply Permutation_app_head, IH; lia|].
    symmetry. apply Permutation_middle.
Qed.

Lemma flat_map_nil {A B} (l : list A) : flat_map (fun _ => @nil B) l = [].
Proof. induction l; cbn; auto. Qed.

(* distributing a list over n buckets by a key below n loses and duplicates nothing *)
Lemma partition_perm {A} (f : A -> nat) (n : nat) (l : list A) :
  (forall x, In x l -> (f x < n)%nat) ->
  Permutation (flat_map (fun k => filter (fun x => Nat.eqb (f x) k) l) (seq 0 n)) l.
Proof.
  induction l as [|x l IH]; intros H.
  - cbn. rewrite flat_map_nil. constructor.
  - cbn [filter].
    eapply Permutation_trans; [apply (flat_map_insert (fun k => filter (fun y => Nat.eqb (f y) k) l) x (f x) n 0)|].
    + specialize (H x (or_introl eq_refl)). lia.
    + constructor. apply IH. intros y Hy. apply H. right; exact Hy.
Qed.

Lemma build_none d els : build d els = None -> els = [].
Proof.
  destruct els as [|e0 [|e1 r]]; [reflexivity | destruct d; discriminate |].
  destruct d as [|d]; [discriminate|]. cbn [build].
  destruct (flat_map _ _) as [|? [|? ?]]; discriminate.
Qed.

Lemma kids_perm (bld : list eref -> option tree) (F : nat -> list eref) (ks : list nat) :
  (forall k, match bld (F k) with
             | Some t => inv t /\ Permutation (tree_elems t) (F k)
             | None => F k = [] end) ->
  let kids := flat_map (fun k => opt_list (bld (F k))) ks in
  Forall inv kids /\ Permutation (flat_map tree_elems kids) (flat_map F ks).
Proof.
  intros H. induction ks as [|k ks [IH1 IH2]]; cbn; [split; constructor|].
  specialize (H k). destruct (bld (F k)) as [t|]; cbn.
  - destruct H as [Hi Hp]. split; [constructor; assumption|].
    apply Permutation_app; assumption.
  - rewrite H. cbn. split; assumption.
Qed.

Lemma inv_leaf b els :
  (forall e, In e els -> wf_box (e_box e) /\ box_sub (e_box e) b) -> inv (Node b els []).
Proof.
  intros H. rewrite inv_node. split; [|constructor].
  cbn [tree_elems flat_map]. rewrite app_nil_r. exact H.
Qed.

Theorem build_inv : forall d els t,
  (forall e, In e els -> wf_box (e_box e)) ->
  build d els = Some t -> inv t /\ Permutation (tree_elems t) els.
Proof.
  assert (L1 : forall e0, (forall e, In e [e0] -> wf_box (e_box e)) ->
               inv (Node (e_box e0) [e0] []) /\ Permutation (tree_elems (Node (e_box e0) [e0] [])) [e0]).
  { intros e0 W. split; [|cbn; constructor; constructor].
    apply inv_leaf. intros e [<-|[]]. split; [apply W; left; reflexivity | apply box_sub_refl]. }
  induction d as [|d IH]; intros els t W B.
  - destruct els as [|e0 [|e1 r]]; [discriminate| |]; cbn [build] in B; injection B as <-.
    + apply L1, W.
    + split; [|cbn [tree_elems flat_map]; rewrite app_nil_r; apply Permutation_refl].
      apply inv_leaf. intros e He. split; [apply W, He | apply hull_contains, He].
  - destruct els as [|e0 [|e1 r]]; [discriminate| |].
    + cbn [build] in B. injection B as <-. apply L1, W.
    + remember (e0 :: e1 :: r) as els eqn:Eels.
      assert (B' : (let b := hull e0 els in let c := center b in
                    let kids := flat_map (fun k => opt_list (build d (filter (fun e => Nat.eqb (octant c e) k) els))) (seq 0 8) in
                    match kids with [t] => Some t | _ => Some (Node b [] kids) end) = Some t).
      { rewrite <- B. rewrite Eels. reflexivity. }
      clear B. cbv zeta in B'.
      set (b := hull e0 els) in *. set (c := center b) in *.
      set (F := fun k => filter (fun e => Nat.eqb (octant c e) k) els) in *.
      destruct (kids_perm (build d) F (seq 0 8)) as [Ki Kp].
      { intros k. destruct (build d (F k)) as [t'|] eqn:Bk.
        - apply (IH _ _ ) in Bk; [exact Bk|]. intros e He. apply W. unfold F in He.
          apply filter_In in He. apply He.
        - apply build_none in Bk. exact Bk. }
      assert (Kp' : Permutation (flat_map tree_elems (flat_map (fun k => opt_list (build d (F k))) (seq 0 8))) els).
      { eapply Permutation_trans; [exact Kp|]. apply partition_perm. intros x _. apply octant_lt. }
      clear Kp.
      assert (N : inv (Node b [] (flat_map (fun k => opt_list (build d (F k))) (seq 0 8)))).
      { rewrite inv_node. split; [|exact Ki]. cbn [tree_elems app]. intros e He.
        assert (In e els) by (eapply Permutation_in; eassumption).
        split; [apply W; assumption | apply hull_contains; assumption]. }
      change (flat_map (fun k => opt_list (build d (filter (fun e => Nat.eqb (octant c e) k) els))) (seq 0 8))
        with (flat_map (fun k => opt_list (build d (F k))) (seq 0 8)) in B'.
      destruct (flat_map (fun k => opt_list (build d (F k))) (seq 0 8)) as [|t1 [|t2 kids]];
        injection B' as <-.
      * split; [exact N | exact Kp'].
      * split; [inversion Ki; assumption|]. cbn in Kp'. rewrite app_nil_r in Kp'. exact Kp'.
      * split; [exact N | exact Kp'].
Qed.

(* ---------- the slab test is monotone ---------- *)
Open Scope Q_scope.
Lemma Qle_bool_false a b : Qle_bool a b = false <-> b < a.
Proof.
  split.
  - intros H. apply Qnot_le_lt. intros L. apply Qle_bool_iff in L. congruence.
  - intros H. destruct (Qle_bool a b) eqn:E; auto. apply Qle_bool_iff in E. lra.
Qed.
Lemma Qltb_true a b : Qltb a b = true <-> a < b.
Proof. unfold Qltb. rewrite negb_true_iff. apply Qle_bool_false. Qed.
Lemma Qltb_false a b : Qltb a b = false <-> b <= a.
Proof. unfold Qltb. rewrite negb_false_iff. apply Qle_bool_iff. Qed.

Lemma Qdiv_le_pos d x y : 0 < d -> x <= y -> x / d <= y / d.
Proof.
  intros Hd H. unfold Qdiv. apply Qmult_le_compat_r; [exact H|].
  apply Qlt_le_weak, Qinv_lt_0_compat, Hd.
Qed.
Lemma Qdiv_le_neg d x y : d < 0 -> x <= y -> y / d <= x / d.
Proof.
  intros Hd H.
  assert (E : forall z, z / d == (- z) / (- d)) by (intros z; field; lra).
  rewrite (E x), (E y). apply Qdiv_le_pos; lra.
Qed.

Ltac qb :=
  repeat match goal with
  | H : Qltb _ _ = true |- _ => apply Qltb_true in H
  | H : Qltb _ _ = false |- _ => apply Qltb_false in H
  | H : Qle_bool _ _ = true |- _ => apply Qle_bool_iff in H
  | H : Qle_bool _ _ = false |- _ => apply Qle_bool_false in H
  end.

Definition qmn (a b : Q) : Q := if Qltb b a then b else a.
Definition qmx (a b : Q) : Q := if Qltb a b then b else a.
Lemma qmn_spec a b : qmn a b <= a /\ qmn a b <= b /\ (qmn a b == a \/ qmn a b == b).
Proof. unfold qmn. destruct (Qltb b a) eqn:E; qb; (split; [lra|split; [lra|]]); [right|left]; reflexivity. Qed.
Lemma qmx_spec a b : a <= qmx a b /\ b <= qmx a b /\ (qmx a b == a \/ qmx a b == b).
Proof. unfold qmx. destruct (Qltb a b) eqn:E; qb; (split; [lra|split; [lra|]]); [right|left]; reflexivity. Qed.

Definition slab1_nz (o d bl bh : Q) (r : Q * Q) : option (Q * Q) :=
  let a0 := (bl - o) / d in let a1 := (bh - o) / d in
  let tmin' := qmx (fst r) (qmn a0 a1) in
  let tmax' := qmn (snd r) (qmx a1 a0) in
  if Qle_bool tmax' tmin' then None else Some (tmin', tmax').
Lemma slab1_nz_eq o d bl bh r : ~ d == 0 -> slab1 o d bl bh r = slab1_nz o d bl bh r.
Proof.
  intros H. unfold slab1, slab1_nz. destruct r as [tmin tmax].
  destruct (Qcompare d 0) eqn:C; [apply Qeq_alt in C; contradiction| |]; reflexivity.
Qed.

Lemma slab1_nz_mono o d bla bha blb bhb ra rb ra' :
  ~ d == 0 ->
  blb <= bla -> bla <= bha -> bha <= bhb -> fst rb <= fst ra -> snd ra <= snd rb ->
  slab1_nz o d bla bha ra = Some ra' ->
  exists rb', slab1_nz o d blb bhb rb = Some rb' /\ fst rb' <= fst ra' /\ snd ra' <= snd rb'.
Proof.
  intros Hd H1 H2 H3 H4 H5. unfold slab1_nz. cbv zeta.
  assert (M : ((blb - o) / d <= (bla - o) / d /\ (bla - o) / d <= (bha - o) / d /\ (bha - o) / d <= (bhb - o) / d) \/
              ((bhb - o) / d <= (bha - o) / d /\ (bha - o) / d <= (bla - o) / d /\ (bla - o) / d <= (blb - o) / d)).
  { destruct (Q_dec d 0) as [[Hn|Hp]|He]; [right|left|contradiction].
    - repeat split; apply Qdiv_le_neg; try assumption; lra.
    - repeat split; apply Qdiv_le_pos; try assumption; lra. }
  generalize dependent ((bla - o) / d). intros a0a.
  generalize dependent ((bha - o) / d). intros a1a.
  generalize dependent ((blb - o) / d). intros a0b.
  generalize dependent ((bhb - o) / d). intros a1b M.
  destruct (qmn_spec a0a a1a) as (A1 & A2 & A3). destruct (qmx_spec a1a a0a) as (A4 & A5 & A6).
  destruct (qmn_spec a0b a1b) as (B1 & B2 & B3). destruct (qmx_spec a1b a0b) as (B4 & B5 & B6).
  generalize dependent (qmn a0a a1a). intros t0a. generalize dependent (qmx a1a a0a). intros t1a.
  generalize dependent (qmn a0b a1b). intros t0b. generalize dependent (qmx a1b a0b). intros t1b. intros.
  destruct (qmx_spec (fst ra) t0a) as (C1 & C2 & C3). destruct (qmn_spec (snd ra) t1a) as (C4 & C5 & C6).
  destruct (qmx_spec (fst rb) t0b) as (D1 & D2 & D3). destruct (qmn_spec (snd rb) t1b) as (D4 & D5 & D6).
  generalize dependent (qmx (fst ra) t0a). intros lo_a. generalize dependent (qmn (snd ra) t1a). intros hi_a.
  generalize dependent (qmx (fst rb) t0b). intros lo_b. generalize dependent (qmn (snd rb) t1b). intros hi_b. intros.
  destruct (Qle_bool hi_a lo_a) eqn:E; [discriminate|]. injection H as <-. qb.
  assert (lo_b <= lo_a /\ hi_a <= hi_b).
  { destruct M as [M|M], A3, A6, B3, B6, C3, C6, D3, D6; split; lra. }
  replace (Qle_bool hi_b lo_b) with false by (symmetry; apply Qle_bool_false; lra).
  eexists; split; [reflexivity|]. cbn [fst snd]. lra.
Qed.

(* one axis of the slab test: a larger slab and a larger parameter range leave a larger range *)
Lemma slab1_mono o d bla bha blb bhb ra rb ra' :
  blb <= bla -> bla <= bha -> bha <= bhb -> fst rb <= fst ra -> snd ra <= snd rb ->
  slab1 o d bla bha ra = Some ra' ->
  exists rb', slab1 o d blb bhb rb = Some rb' /\ fst rb' <= fst ra' /\ snd ra' <= snd rb'.
Proof.
  intros H1 H2 H3 H4 H5. destruct (Qeq_dec d 0) as [Hd|Hd].
  - destruct ra as [tmin tmax], rb as [umin umax]. cbn [fst snd] in *. unfold slab1.
    apply Qeq_alt in Hd. rewrite Hd.
    destruct (Qle_bool bla o && Qle_bool o bha)%bool eqn:E1; [|discriminate].
    apply andb_true_iff in E1. destruct E1 as [E1 E2].
    destruct (Qle_bool tmax tmin) eqn:E3; [discriminate|]. intros [= <-]. qb.
    replace (Qle_bool blb o && Qle_bool o bhb)%bool with true
      by (symmetry; apply andb_true_iff; split; apply Qle_bool_iff; lra).
    replace (Qle_bool umax umin) with false by (symmetry; apply Qle_bool_false; lra).
    eexists; split; [reflexivity|]. cbn [fst snd]; lra.
  - rewrite !slab1_nz_eq by exact Hd. apply slab1_nz_mono; assumption.
Qed.

Lemma q4_mono x y : (x <= y)%Z -> q4 x <= q4 y.
Proof. intros H. unfold q4. apply Qdiv_le_pos; [reflexivity|]. rewrite <- Zle_Qle. exact H. Qed.

(* AABB.IntersectsRayInRange is monotone in the box and in the parameter range *)
Theorem slab_mono a b ry ra rb :
  box_sub a b -> wf_box a -> fst rb <= fst ra -> snd ra <= snd rb ->
  slab a ry ra = true -> slab b ry rb = true.
Proof.
  intros S W R1 R2. unfold slab. destruct ry as [o [[dx dy] dz]].
  unfold box_sub in S. unfold wf_box in W. destruct S as (S1 & S2 & S3 & S4 & S5 & S6). destruct W as (W1 & W2 & W3).
  apply q4_mono in S1, S2, S3, S4, S5, S6, W1, W2, W3.
  assert (K : 0 <= keps) by (unfold keps, Qle; cbn; lia).
  destruct (slab1 (q4 (px o)) dx (q4 (px (bmin a)) - keps) (q4 (px (bmax a)) + keps) ra) as [r1|] eqn:E1; [|discriminate].
  eapply slab1_mono in E1; [destruct E1 as (r1' & -> & X1 & X2) | | | | exact R1 | exact R2]; try lra.
  cbn [obind].
  destruct (slab1 (q4 (py o)) dy (q4 (py (bmin a)) - keps) (q4 (py (bmax a)) + keps) r1) as [r2|] eqn:E2; [|discriminate].
  eapply slab1_mono in E2; [destruct E2 as (r2' & -> & Y1 & Y2) | | | | exact X1 | exact X2]; try lra.
  cbn [obind].
  destruct (slab1 (q4 (pz o)) dz (q4 (pz (bmin a)) - keps) (q4 (pz (bmax a)) + keps) r2) as [r3|] eqn:E3; [|discriminate].
  eapply slab1_mono in E3; [destruct E3 as (r3' & -> & Z1 & Z2) | | | | exact Y1 | exact Y2]; try lra.
Qed.
Close Scope Q_scope.
Open Scope Z_scope.

(* ---------- ElementsIntersectingRay ---------- *)
Lemma Qle_refl' x : (x <= x)%Q.
Proof. apply Qle_refl. Qed.

Theorem ray_hits_eq_scan ry r : forall t, inv t -> ray_hits t ry r = scan (fun b => slab b ry r) t.
Proof.
  induction t as [b els ch IH] using tree_ind'. intros Hinv.
  pose proof (inv_elems _ Hinv) as Hel. rewrite inv_node in Hinv. destruct Hinv as [_ Hch].
  cbn [ray_hits]. destruct (slab b ry r) eqn:E.
  - rewrite scan_node. f_equal. apply flat_map_ext_in. intros c Hc.
    rewrite Forall_forall in IH, Hch. apply IH; auto.
  - symmetry. apply scan_nil. intros e He. destruct (Hel e He) as [W S]. cbn [tbox] in S.
    destruct (slab (e_box e) ry r) eqn:E2; [|reflexivity].
    rewrite (slab_mono _ _ ry r r S W (Qle_refl' _) (Qle_refl' _) E2) in E. discriminate.
Qed.

(* TraverseIntersectingRay with an iterator that leaves the range alone visits the same elements *)
Lemma trav_els_id ry r els :
  trav_els (fun _ r => r) ry els r = (map e_idx (filter (fun e => slab (e_box e) ry r) els), r).
Proof.
  unfold trav_els.
  assert (G : forall acc, fold_left (fun (st : list nat * (Q * Q)) e => let (vis, r0) := st in
              if slab (e_box e) ry r0 then (vis ++ [e_idx e], r0) else (vis, r0)) els (acc, r)
              = (acc ++ map e_idx (filter (fun e => slab (e_box e) ry r) els), r)).
  { induction els as [|e els IHe]; intros acc; cbn [fold_left filter map]; [rewrite app_nil_r; reflexivity|].
    destruct (slab (e_box e) ry r); rewrite IHe; [|reflexivity].
    cbn [map]. rewrite <- app_assoc. reflexivity. }
  apply (G []).
Qed.

Theorem traverse_id_eq_ray_hits ry r : forall t, traverse (fun _ r => r) t ry r = ray_hits t ry r.
Proof.
  induction t as [b els ch IH] using tree_ind'. cbn [traverse ray_hits].
  destruct (slab b ry r); [|reflexivity]. rewrite trav_els_id. f_equal.
  apply flat_map_ext_in. intros c Hc. rewrite Forall_forall in IH. apply IH, Hc.
Qed.
