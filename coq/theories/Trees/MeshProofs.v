(* C16 — the mesh-level entry points Mesh.OctTree / OctTreeDepth / OctTreeWithAttributeAndDepth: the element
   list is "primitive i of the mesh, scoped to the attribute" (Trees/Octree.v mesh_boxes), so the ids every
   query reports are mesh primitive indices, and for triangle meshes without zero-area triangles
   ClosestPoint needs no element hypothesis. *)
From PF Require Export Trees.TriProofs.
From Coq Require Import Permutation Lia.
Open Scope Z_scope.

Lemma in_brute f boxes i :
  In i (brute f boxes) <-> (i < length boxes)%nat /\ f (nth i boxes zero_pt_box) = true.
Proof. unfold brute. rewrite filter_In, in_seq. split; intros [H1 H2]; split; auto; lia. Qed.

Lemma list3_ind {A} (P : list A -> Prop) :
  P [] -> (forall a, P [a]) -> (forall a b, P [a; b]) -> (forall a b c r, P r -> P (a :: b :: c :: r)) ->
  forall l, P l.
Proof. intros H0 H1 H2 H3. fix F 1. intros [|a [|b [|c r]]]; [exact H0 | apply H1 | apply H2 | apply H3, F]. Qed.

(* triangles: len/3 primitives, primitive i = indices 3i, 3i+1, 3i+2 *)
Lemma mesh_tri_boxes_spec verts idx :
  length (mesh_tri_boxes verts idx) = Nat.div (length idx) 3 /\
  forall i, (i < Nat.div (length idx) 3)%nat ->
    nth i (mesh_tri_boxes verts idx) zero_pt_box =
    tri_box (vat verts (nth (3 * i) idx 0%nat)) (vat verts (nth (3 * i + 1) idx 0%nat))
            (vat verts (nth (3 * i + 2) idx 0%nat)).
Proof.
  induction idx as [|a|a b|a b c r [IH1 IH2]] using list3_ind.
  - cbn. split; [reflexivity|]. intros i Hi. lia.
  - cbn. split; [reflexivity|]. intros i Hi. lia.
  - cbn. split; [reflexivity|]. intros i Hi. lia.
  - assert (E : Nat.div (length (a :: b :: c :: r)) 3 = S (Nat.div (length r) 3)).
    { cbn [length]. change (S (S (S (length r)))) with (1 * 3 + length r)%nat. rewrite Nat.div_add_l by lia. reflexivity. }
    rewrite E. cbn [mesh_tri_boxes length]. split; [rewrite IH1; reflexivity|].
    intros [|i] Hi; [reflexivity|].
    replace (3 * S i)%nat with (S (S (S (3 * i)))) by lia.
    replace (S (S (S (3 * i))) + 1)%nat with (S (S (S (3 * i + 1)))) by lia.
    replace (S (S (S (3 * i))) + 2)%nat with (S (S (S (3 * i + 2)))) by lia.
    cbn [nth]. apply IH2. lia.
Qed.

(* line strip: len-1 primitives, primitive i = indices i, i+1 *)
Lemma mesh_strip_boxes_spec verts : forall idx,
  length (mesh_strip_boxes verts idx) = Nat.pred (length idx) /\
  forall i, (i < Nat.pred (length idx))%nat ->
    nth i (mesh_strip_boxes verts idx) zero_pt_box =
    seg_box (vat verts (nth i idx 0%nat)) (vat verts (nth (S i) idx 0%nat)).
Proof.
  induction idx as [|a r [IH1 IH2]].
  - cbn. split; [reflexivity|]. intros i Hi. lia.
  - destruct r as [|b r'].
    + cbn. split; [reflexivity|]. intros i Hi. lia.
    + cbn [mesh_strip_boxes length Nat.pred] in *. split; [rewrite IH1; reflexivity|].
      intros [|i] Hi; [reflexivity|]. cbn [nth]. apply IH2. lia.
Qed.

(* point cloud: primitive i = vertex i *)
Lemma mesh_point_boxes_spec verts :
  length (mesh_point_boxes verts) = length verts /\
  forall i, (i < length verts)%nat -> nth i (mesh_point_boxes verts) zero_pt_box = point_box (vat verts i).
Proof.
  unfold mesh_point_boxes. split; [apply map_length|]. intros i Hi.
  change zero_pt_box with (point_box (0, 0, 0)). rewrite map_nth. reflexivity.
Qed.

Lemma mesh_boxes_wf kind verts idx : Forall wf_box (mesh_boxes kind verts idx).
Proof.
  destruct kind as [|[|k]]; cbn [mesh_boxes].
  - unfold mesh_point_boxes. apply Forall_forall. intros b Hb. apply in_map_iff in Hb. destruct Hb as (a & <- & _). apply point_box_wf.
  - induction idx as [|a r IH]; [constructor|]. destruct r as [|b r']; [constructor|].
    cbn [mesh_strip_boxes]. constructor; [apply seg_box_wf | exact IH].
  - induction idx as [|a|a b|a b c r IH] using list3_ind; try constructor; [apply tri_box_wf | exact IH].
Qed.

(* every query on the tree of a mesh reports mesh primitive indices: ElementsContainingPoint returns
   exactly the primitives whose own box contains the point, ElementsWithinRange those within the radius,
   ElementsIntersectingRay those whose box the ray crosses *)
Theorem mesh_octree_ids_thm kind verts idx depth t :
  let boxes := mesh_boxes kind verts idx in
  new_octree depth boxes = Some t ->
  (forall p i, In i (containing t p) <-> (i < length boxes)%nat /\ inb p (nth i boxes zero_pt_box) = true) /\
  (forall p d i, In i (within t p d) <-> (i < length boxes)%nat /\ far (nth i boxes zero_pt_box) p d = false) /\
  (forall ry r i, In i (ray_hits t ry r) <-> (i < length boxes)%nat /\ ray_crosses (nth i boxes zero_pt_box) ry r).
Proof.
  intros boxes B. pose proof (mesh_boxes_wf kind verts idx) as W. fold boxes in W.
  split; [|split].
  - intros p i. rewrite <- in_brute. pose proof (contains_eq_brute_thm depth boxes t p W B) as P.
    split; intros H; [eapply Permutation_in; [exact P|exact H] | eapply Permutation_in; [apply Permutation_sym, P|exact H]].
  - intros p d i. rewrite <- negb_true_iff, <- (in_brute (fun b => negb (far b p d))).
    pose proof (within_eq_brute_thm depth boxes t p d W B) as P.
    split; intros H; [eapply Permutation_in; [exact P|exact H] | eapply Permutation_in; [apply Permutation_sym, P|exact H]].
  - intros ry r i. apply (ray_hits_geo depth boxes t ry r W B).
Qed.

(* the triangles of a mesh as corner triples *)
Fixpoint mesh_tris (verts : list pt) (idx : list nat) : list tri3 :=
  match idx with
  | a :: b :: c :: r => (vat verts a, vat verts b, vat verts c) :: mesh_tris verts r
  | _ => []
  end.
Lemma mesh_tri_boxes_tris verts idx : mesh_tri_boxes verts idx = map tri3_box (mesh_tris verts idx).
Proof.
  induction idx as [|a|a b|a b c r IH] using list3_ind; try reflexivity.
  cbn [mesh_tri_boxes mesh_tris map tri3_box]. rewrite IH. reflexivity.
Qed.

(* Mesh.OctTree(...).ClosestPoint on a triangle mesh without zero-area triangles: the returned id is a
   primitive index whose exact closest point (scopedTri.ClosestPoint, rational model) is nearest, and the
   returned point is that primitive's *)
Theorem mesh_tri_closest_thm verts idx q depth t :
  let tris := mesh_tris verts idx in
  Forall tri_proper tris ->
  let cpt := fun i => tri3_closest (tri_of tris i) q in
  let kq := fun i => qdist2 (cpt i) q in
  new_octree depth (mesh_tri_boxes verts idx) = Some t ->
  exists (K : Z) (ekey : nat -> Z),
    (0 < K)%Z /\ (forall i, (i < length tris)%nat -> (inject_Z (ekey i) == inject_Z K * kq i)%Q) /\
    (exists r, closest qpt ekey cpt K q t = Some r) /\
    forall i k p, closest qpt ekey cpt K q t = Some (i, k, p) ->
      (i < length tris)%nat /\ p = cpt i /\ forall j, (j < length tris)%nat -> (kq i <= kq j)%Q.
Proof.
  intros tris HP cpt kq B. rewrite mesh_tri_boxes_tris in B. fold tris in B.
  exact (closest_eq_brute_triangles_thm tris q depth t HP B).
Qed.

(* ---------- the two element kinds whose closest point needs no geometry ---------- *)
(* trees.BoundingBoxElement: ClosestPoint = AABB.ClosestPoint, so the element's distance IS its box distance *)
Theorem closest_eq_brute_boxes_thm (boxes : list box) q depth t :
  Forall wf_box boxes ->
  let ekey := fun i => boxdist2 (nth i boxes zero_pt_box) q in
  let cpt := fun i => bclosest (nth i boxes zero_pt_box) q in
  new_octree depth boxes = Some t ->
  (exists r, closest pt ekey cpt 1 q t = Some r) /\
  forall i k p, closest pt ekey cpt 1 q t = Some (i, k, p) ->
    (i < length boxes)%nat /\ k = ekey i /\ p = cpt i /\ forall j, (j < length boxes)%nat -> k <= ekey j.
Proof.
  intros W ekey cpt B. apply (closest_eq_brute_thm pt ekey cpt 1 q depth boxes t); try assumption; [lia|].
  intros i Hi. unfold ekey. lia.
Qed.

(* scopedPoint (point clouds): ClosestPoint = the point itself *)
Theorem closest_eq_brute_points_thm (pts : list pt) q depth t :
  let ekey := fun i => dist2 (vat pts i) q in
  let cpt := fun i => vat pts i in
  new_octree depth (mesh_point_boxes pts) = Some t ->
  (exists r, closest pt ekey cpt 1 q t = Some r) /\
  forall i k p, closest pt ekey cpt 1 q t = Some (i, k, p) ->
    (i < length pts)%nat /\ k = ekey i /\ p = cpt i /\ forall j, (j < length pts)%nat -> k <= ekey j.
Proof.
  intros ekey cpt B. destruct (mesh_point_boxes_spec pts) as [L N].
  rewrite <- L. apply (closest_eq_brute_thm pt ekey cpt 1 q depth (mesh_point_boxes pts) t); try assumption; [lia| |].
  - apply (mesh_boxes_wf 0 pts []).
  - intros i Hi. rewrite L in Hi. rewrite (N i Hi). unfold ekey. rewrite Z.mul_1_r.
    apply boxdist2_le_in, point_closest_in_bbox.
Qed.
