(* C16 — the invariant test the correspondence check runs on the implementation's dumped tree
   (Check/C16.v: invb) is sound for the invariant the query theorems assume (OctreeProofs.inv). *)
From PF Require Import Check.C16 Trees.OctreeProofs.
From Coq Require Import Lqa Lia Qfield.
Open Scope Z_scope.

Lemma box_subb_sub a b : box_subb a b = true -> box_sub a b.
Proof. unfold box_subb, box_sub. rewrite !andb_true_iff, !Z.leb_le. tauto. Qed.
Lemma wf_boxb_wf b : wf_boxb b = true -> wf_box b.
Proof. unfold wf_boxb, wf_box. rewrite !andb_true_iff, !Z.leb_le. tauto. Qed.

Theorem invb_inv : forall t, invb t = true -> inv t.
Proof.
  induction t as [b els ch IH] using tree_ind'. intros H.
  cbn [invb] in H. apply andb_true_iff in H. destruct H as [H1 H2].
  rewrite inv_node. split.
  - intros e He. rewrite forallb_forall in H1. specialize (H1 e He).
    apply andb_true_iff in H1. destruct H1 as [W S]. split; [apply wf_boxb_wf, W | apply box_subb_sub, S].
  - clear H1. induction IH as [|c ch Hc _ IHch]; [constructor|].
    apply andb_true_iff in H2. destruct H2 as [Hc' Hch]. constructor; [apply Hc, Hc' | apply IHch, Hch].
Qed.

(* ---------- the direct oracle's ray/box formulation ---------- *)
Open Scope Q_scope.
Lemma axis_iv_geo o d bl bh :
  match axis_iv o d bl bh with
  | Some iv => forall r t, in_range (narrow r iv) t <-> in_range r t /\ axis_in o d bl bh t
  | None => forall t, ~ axis_in o d bl bh t
  end.
Proof.
  unfold axis_iv, axis_in. destruct (Qcompare d 0) eqn:C.
  - apply Qeq_alt in C. apply Qeq_bool_iff in C. rewrite C.
    destruct (Qle_bool bl o && Qle_bool o bh)%bool eqn:E.
    + apply andb_true_iff in E. destruct E as [E1 E2]. qb. intros r t. cbn [narrow]. tauto.
    + intros t [A B]. apply andb_false_iff in E. destruct E as [E|E]; qb; lra.
  - apply Qlt_alt in C. assert (Hd : ~ d == 0) by lra. rewrite (proj2 (qeqb_false d) Hd).
    intros r t. cbn [narrow]. unfold in_range. cbn [fst snd].
    destruct (div_lt_neg d (bl - o) t C) as [L1 L2]. destruct (div_lt_neg d (bh - o) t C) as [H1 H2].
    generalize dependent ((bl - o) / d). generalize dependent ((bh - o) / d). intros a1 H1 H2 a0 L1 L2.
    unfold qmax. destruct (Qltb (fst r) a1) eqn:X, (Qltb a0 (snd r)) eqn:Y; qb; split; intros; repeat split; lra.
  - apply Qgt_alt in C. assert (Hd : ~ d == 0) by lra. rewrite (proj2 (qeqb_false d) Hd).
    intros r t. cbn [narrow]. unfold in_range. cbn [fst snd].
    destruct (div_lt_pos d (bl - o) t C) as [L1 L2]. destruct (div_lt_pos d (bh - o) t C) as [H1 H2].
    generalize dependent ((bl - o) / d). generalize dependent ((bh - o) / d). intros a1 H1 H2 a0 L1 L2.
    unfold qmax. destruct (Qltb (fst r) a0) eqn:X, (Qltb a1 (snd r)) eqn:Y; qb; split; intros; repeat split; lra.
Qed.

(* the direct oracle's formulation (all three intervals intersected at once) means the same thing *)
Theorem ray_spec_geo b ry r : ray_spec b ry r = true <-> ray_crosses b ry r.
Proof.
  unfold ray_spec, ray_crosses. destruct ry as [o [[dx dy] dz]].
  pose proof (axis_iv_geo (q4 (px o)) dx (q4 (px (bmin b)) - keps) (q4 (px (bmax b)) + keps)) as G1.
  pose proof (axis_iv_geo (q4 (py o)) dy (q4 (py (bmin b)) - keps) (q4 (py (bmax b)) + keps)) as G2.
  pose proof (axis_iv_geo (q4 (pz o)) dz (q4 (pz (bmin b)) - keps) (q4 (pz (bmax b)) + keps)) as G3.
  destruct (axis_iv (q4 (px o)) dx _ _) as [ix|].
  2:{ split; [discriminate|]. intros (t & _ & A & _). destruct (G1 t A). }
  destruct (axis_iv (q4 (py o)) dy _ _) as [iy|].
  2:{ split; [discriminate|]. intros (t & _ & _ & A & _). destruct (G2 t A). }
  destruct (axis_iv (q4 (pz o)) dz _ _) as [iz|].
  2:{ split; [discriminate|]. intros (t & _ & _ & _ & A). destruct (G3 t A). }
  set (r' := narrow (narrow (narrow r ix) iy) iz).
  assert (E : forall t, in_range r' t <-> in_range r t /\
            axis_in (q4 (px o)) dx (q4 (px (bmin b)) - keps) (q4 (px (bmax b)) + keps) t /\
            axis_in (q4 (py o)) dy (q4 (py (bmin b)) - keps) (q4 (py (bmax b)) + keps) t /\
            axis_in (q4 (pz o)) dz (q4 (pz (bmin b)) - keps) (q4 (pz (bmax b)) + keps) t).
  { intros t. unfold r'. rewrite G3, G2, G1. tauto. }
  split.
  - intros H. apply Qltb_true in H. exists ((fst r' + snd r') / 2). apply E. apply range_midpoint, H.
  - intros (t & H). apply E in H. apply Qltb_true. unfold in_range in H. lra.
Qed.

Theorem ray_spec_eq_slab b ry r : wf_box b -> ray_spec b ry r = slab b ry r.
Proof.
  intros W. destruct (slab b ry r) eqn:S.
  - apply ray_spec_geo, (slab_geo b ry r W), S.
  - destruct (ray_spec b ry r) eqn:R; [|reflexivity].
    apply ray_spec_geo, (slab_geo b ry r W) in R. congruence.
Qed.
Open Scope Z_scope.
