(* C16 — the invariant test the correspondence check runs on the implementation's dumped tree
   (Check/C16.v: invb) is sound for the invariant the query theorems assume (OctreeProofs.inv). *)
From PF Require Import Check.C16 Trees.OctreeProofs.
From Coq Require Import Lia.
Open Scope Z_scope.

Lemma box_subb_sub a b : box_subb a b = true -> box_sub a b.
Proof. unfold box_subb, box_sub. rewrite !andb_true_iff, !Z.leb_le. tauto. Qed.
Lemma wf_boxb_wf b : wf_boxb b = true -> wf_box b.
Proof. unfold wf_boxb, wf_box. rewrite !andb_true_iff, !Z.leb_le. tauto. Qed.

Theorem invb_inv : forall t, invb t = true -> inv t.
Proof.
  induction t as [b els ch IH] using tree_ind'. intros H.
  cbn [invb] in H. apply andb_true_iff in H. destruct H as [H1 H2].
  rewrite inv_node. split.
  - intros e He. rewrite forallb_forall in H1. specialize (H1 e He).
    apply andb_true_iff in H1. destruct H1 as [W S]. split; [apply wf_boxb_wf, W | apply box_subb_sub, S].
  - clear H1. induction IH as [|c ch Hc _ IHch]; [constructor|].
    apply andb_true_iff in H2. destruct H2 as [Hc' Hch]. constructor; [apply Hc, Hc' | apply IHch, Hch].
Qed.
