(* C16 — executable model of trees/octree.go (newOctree and the five queries), of the AABB operations
   it uses (math/geometry/aabb.go) and of the element types' exact geometry (modeling/point.go,
   line.go, tri.go).  No proofs here.

   Coordinates are integers: a Go coordinate x is represented by 4*x, so inputs on the quarter grid
   (and the one halving in SetMinMax / Center on integer inputs) are exact.  Squared distances are
   therefore in units of 1/16.  Ray parameters are rationals (Q).                                   *)
From Coq Require Export List ZArith QArith Bool Lia.
Export ListNotations.
Open Scope Z_scope.

(* ---------- points and boxes (geometry.AABB seen through Min()/Max()) ---------- *)
Definition pt := (Z * Z * Z)%type.
Definition px (p : pt) : Z := fst (fst p).
Definition py (p : pt) : Z := snd (fst p).
Definition pz (p : pt) : Z := snd p.

Definition box := (pt * pt)%type.            (* (Min(), Max()) *)
Definition bmin (b : box) : pt := fst b.
Definition bmax (b : box) : pt := snd b.

Definition pmin (a b : pt) : pt := (Z.min (px a) (px b), Z.min (py a) (py b), Z.min (pz a) (pz b)).
Definition pmax (a b : pt) : pt := (Z.max (px a) (px b), Z.max (py a) (py b), Z.max (pz a) (pz b)).

(* AABB.EncapsulatePoint: SetMinMax(minVector(Min(),p), maxVector(Max(),p)) *)
Definition enc_pt (b : box) (p : pt) : box := (pmin (bmin b) p, pmax (bmax b) p).
(* AABB.EncapsulateBounds: both corners, one after the other *)
Definition enc_box (b o : box) : box := enc_pt (enc_pt b (bmin o)) (bmax o).

(* AABB.Center after SetMinMax: min + (max-min)*0.5 — exact on the model's inputs (multiples of 4) *)
Definition center (b : box) : pt :=
  (px (bmin b) + (px (bmax b) - px (bmin b)) / 2,
   py (bmin b) + (py (bmax b) - py (bmin b)) / 2,
   pz (bmin b) + (pz (bmax b) - pz (bmin b)) / 2).

(* AABB.Contains: closed box *)
Definition inb (p : pt) (b : box) : bool :=
  (px (bmin b) <=? px p) && (py (bmin b) <=? py p) && (pz (bmin b) <=? pz p) &&
  (px p <=? px (bmax b)) && (py p <=? py (bmax b)) && (pz p <=? pz (bmax b)).

(* clamp(v,min,max) = math.Min(math.Max(v,min),max) and AABB.ClosestPoint *)
Definition clampz (v lo hi : Z) : Z := Z.min (Z.max v lo) hi.
Definition bclosest (b : box) (p : pt) : pt :=
  (clampz (px p) (px (bmin b)) (px (bmax b)),
   clampz (py p) (py (bmin b)) (py (bmax b)),
   clampz (pz p) (pz (bmin b)) (pz (bmax b))).

Definition sq (x : Z) : Z := x * x.
Definition dist2 (a b : pt) : Z := sq (px b - px a) + sq (py b - py a) + sq (pz b - pz a).
(* bounds.ClosestPoint(v).DistanceSquared(v) *)
Definition boxdist2 (b : box) (p : pt) : Z := dist2 (bclosest b p) p.

Definition box_sub (a b : box) : Prop :=
  px (bmin b) <= px (bmin a) /\ py (bmin b) <= py (bmin a) /\ pz (bmin b) <= pz (bmin a) /\
  px (bmax a) <= px (bmax b) /\ py (bmax a) <= py (bmax b) /\ pz (bmax a) <= pz (bmax b).
Definition box_subb (a b : box) : bool :=
  (px (bmin b) <=? px (bmin a)) && (py (bmin b) <=? py (bmin a)) && (pz (bmin b) <=? pz (bmin a)) &&
  (px (bmax a) <=? px (bmax b)) && (py (bmax a) <=? py (bmax b)) && (pz (bmax a) <=? pz (bmax b)).

Definition pt_eqb (a b : pt) : bool := (px a =? px b) && (py a =? py b) && (pz a =? pz b).
Definition box_eqb (a b : box) : bool := pt_eqb (bmin a) (bmin b) && pt_eqb (bmax a) (bmax b).

(* ---------- element references and the tree ---------- *)
(* elementReference: originalIndex and the cached bounds; the primitive itself is referred to by index *)
Definition eref := (nat * box)%type.
Definition e_idx (e : eref) : nat := fst e.
Definition e_box (e : eref) : box := snd e.
Definition eref_eqb (a b : eref) : bool := Nat.eqb (e_idx a) (e_idx b) && box_eqb (e_box a) (e_box b).

Inductive tree := Node (b : box) (els : list eref) (ch : list tree).
Definition tbox (t : tree) : box := match t with Node b _ _ => b end.

Fixpoint tree_elems (t : tree) : list eref :=
  match t with Node _ els ch => els ++ flat_map tree_elems ch end.
Fixpoint tnodes (t : tree) : nat :=
  match t with Node _ _ ch => S (fold_right (fun c n => (tnodes c + n)%nat) O ch) end.

Fixpoint list_eqb {A} (f : A -> A -> bool) (x y : list A) : bool :=
  match x, y with
  | [], [] => true
  | a :: x', b :: y' => f a b && list_eqb f x' y'
  | _, _ => false
  end.
Fixpoint tree_eqb (a b : tree) : bool :=
  match a, b with
  | Node ba ea ca, Node bb eb cb =>
      box_eqb ba bb && list_eqb eref_eqb ea eb &&
      (fix go (x y : list tree) : bool :=
         match x, y with
         | [], [] => true
         | t :: x', u :: y' => tree_eqb t u && go x' y'
         | _, _ => false
         end) ca cb
  end.

(* ---------- newOctree ---------- *)
(* octreeIndex *)
Definition oct_index (c p : pt) : nat :=
  Nat.add (Nat.add (if px p <? px c then 1%nat else 0%nat) (if py p <? py c then 2%nat else 0%nat))
          (if pz p <? pz c then 4%nat else 0%nat).
(* the corner farther from the centre decides (distMin > distMax ? Min : Max); the code compares
   Distance = sqrt(DistanceSquared), which orders like the squares on the harness' value range *)
Definition octant (c : pt) (e : eref) : nat :=
  let b := e_box e in
  if dist2 c (bmax b) <? dist2 c (bmin b) then oct_index c (bmin b) else oct_index c (bmax b).

(* bounds := elements[0].BoundingBox(); for every item (the first again) EncapsulateBounds *)
Definition hull (e0 : eref) (els : list eref) : box := fold_left enc_box (map e_box els) (e_box e0).

Definition opt_list {A} (o : option A) : list A := match o with Some a => [a] | None => [] end.

Fixpoint build (depth : nat) (els : list eref) : option tree :=
  match els with
  | [] => None
  | [e] => Some (Node (e_box e) [e] [])
  | e0 :: _ =>
      let b := hull e0 els in
      match depth with
      | O => Some (Node b els [])
      | S d =>
          let c := center b in
          let kids := flat_map (fun k => opt_list (build d (filter (fun e => Nat.eqb (octant c e) k) els)))
                               (seq 0 8) in
          match kids with
          | [t] => Some t                     (* single child: no proxy node *)
          | _ => Some (Node b [] kids)
          end
      end
  end.

(* OctreeDepthFromCount: max(1, round(log8 n)); round(log8 n) = k  iff  8^(2k-1) <= n^2 < 8^(2k+1) *)
Fixpoint log8_round (fuel : nat) (k : nat) (n2 : Z) : nat :=
  match fuel with
  | O => k
  | S f => if n2 <? 8 ^ (2 * Z.of_nat k + 1) then k else log8_round f (S k) n2
  end.
Definition auto_depth (n : nat) : nat := Nat.max 1 (log8_round 24 0 (Z.of_nat n * Z.of_nat n)).

(* NewOctreeWithDepth / NewOctree: element i gets originalIndex i *)
Definition number (boxes : list box) : list eref := combine (seq 0 (length boxes)) boxes.
Definition new_octree (depth : option nat) (boxes : list box) : option tree :=
  build (match depth with Some d => d | None => auto_depth (length boxes) end) (number boxes).

(* ---------- queries ---------- *)
(* ElementsContainingPoint: the receiver's own bounds are not tested, each child's are *)
Fixpoint containing (t : tree) (p : pt) : list nat :=
  match t with
  | Node _ els ch =>
      map e_idx (filter (fun e => inb p (e_box e)) els) ++
      flat_map (fun c => if inb p (tbox c) then containing c p else []) ch
  end.

(* ElementsWithinRange: bounds.ClosestPoint(p).Distance(p) > d  (d in quarter units; the square root
   orders like the squares; a negative d is smaller than every distance) *)
Definition far (b : box) (p : pt) (d : Z) : bool := (d <? 0) || (d * d <? boxdist2 b p).
Fixpoint within (t : tree) (p : pt) (d : Z) : list nat :=
  match t with
  | Node b els ch =>
      if far b p d then []
      else map e_idx (filter (fun e => negb (far (e_box e) p d)) els) ++ flat_map (fun c => within c p d) ch
  end.

(* ---------- the slab test AABB.IntersectsRayInRange over Q ---------- *)
Open Scope Q_scope.
Definition keps : Q := 1 # 10000000000.              (* kEpsilon = 0.0000000001 *)
Definition Qltb (a b : Q) : bool := negb (Qle_bool b a).
Definition q4 (z : Z) : Q := inject_Z z / 4.        (* model coordinate -> Go coordinate *)

(* intersectsRayInRangeComponent; Some = the narrowed range, None = the code's "true" (miss).
   dir = 0: 1/dir is an infinity, t0 and t1 are infinities of the sign of (bound-origin): the range
   is untouched when the origin is between the bounds and emptied otherwise. *)
Definition slab1 (o d bl bh : Q) (r : Q * Q) : option (Q * Q) :=
  let (tmin, tmax) := r in
  match Qcompare d 0 with
  | Eq => if Qle_bool bl o && Qle_bool o bh
          then (if Qle_bool tmax tmin then None else Some r) else None
  | _ => let a0 := (bl - o) / d in
         let a1 := (bh - o) / d in
         let t0 := if Qltb a1 a0 then a1 else a0 in
         let t1 := if Qltb a1 a0 then a0 else a1 in
         let tmin' := if Qltb tmin t0 then t0 else tmin in
         let tmax' := if Qltb t1 tmax then t1 else tmax in
         if Qle_bool tmax' tmin' then None else Some (tmin', tmax')
  end.

Definition qvec := (Q * Q * Q)%type.
Definition ray := (pt * qvec)%type.                 (* origin (quarter grid), direction *)
Definition obind {A B} (o : option A) (f : A -> option B) : option B :=
  match o with Some a => f a | None => None end.

Definition slab (b : box) (ry : ray) (r : Q * Q) : bool :=
  let '(o, (dx, dy, dz)) := ry in
  match obind (obind (slab1 (q4 (px o)) dx (q4 (px (bmin b)) - keps) (q4 (px (bmax b)) + keps) r)
                     (slab1 (q4 (py o)) dy (q4 (py (bmin b)) - keps) (q4 (py (bmax b)) + keps)))
              (slab1 (q4 (pz o)) dz (q4 (pz (bmin b)) - keps) (q4 (pz (bmax b)) + keps)) with
  | Some _ => true
  | None => false
  end.

(* ElementsIntersectingRay *)
Fixpoint ray_hits (t : tree) (ry : ray) (r : Q * Q) : list nat :=
  match t with
  | Node b els ch =>
      if slab b ry r
      then map e_idx (filter (fun e => slab (e_box e) ry r) els) ++ flat_map (fun c => ray_hits c ry r) ch
      else []
  end.

(* TraverseIntersectingRay: the iterator may narrow the range; the narrowed range is used for the
   remaining elements of this cell and handed to the children *)
Definition trav_els (it : nat -> Q * Q -> Q * Q) (ry : ray) (els : list eref) (r : Q * Q)
  : list nat * (Q * Q) :=
  fold_left (fun (st : list nat * (Q * Q)) e =>
               let (vis, r) := st in
               if slab (e_box e) ry r then (vis ++ [e_idx e], it (e_idx e) r) else (vis, r))
            els ([], r).
Fixpoint traverse (it : nat -> Q * Q -> Q * Q) (t : tree) (ry : ray) (r : Q * Q) : list nat :=
  match t with
  | Node b els ch =>
      if slab b ry r
      then let (vis, r') := trav_els it ry els r in
           vis ++ flat_map (fun c => traverse it c ry r') ch
      else []
  end.

Close Scope Q_scope.

(* ---------- ClosestPoint: best-first search ---------- *)
Section Closest.
  Variable P : Type.                 (* what Element.ClosestPoint returns *)
  Variable ekey : nat -> Z.          (* element i: ClosestPoint(v).DistanceSquared(v), scaled *)
  Variable cpt : nat -> P.           (* element i: ClosestPoint(v) *)
  Variable kscale : Z.               (* scale of ekey relative to 1/16 units *)
  Variable q : pt.

  Definition ckey (b : box) : Z := boxdist2 b q * kscale.

  Inductive item := ICell (k : Z) (t : tree) | IElem (k : Z) (i : nat) (p : P).
  Definition ikey (it : item) : Z := match it with ICell k _ => k | IElem k _ _ => k end.

  (* priority queue as a sorted list (the code's binary heap returns some minimal item) *)
  Fixpoint insert (it : item) (wl : list item) : list item :=
    match wl with
    | [] => [it]
    | x :: r => if ikey it <? ikey x then it :: wl else x :: insert it r
    end.

  Definition push_cells (ch : list tree) (wl : list item) : list item :=
    fold_left (fun w c => insert (ICell (ckey (tbox c)) c) w) ch wl.
  Definition push_elems (els : list eref) (wl : list item) : list item :=
    fold_left (fun w e => insert (IElem (ekey (e_idx e)) (e_idx e) (cpt (e_idx e))) w) els wl.

  Fixpoint cloop (fuel : nat) (wl : list item) : option (nat * Z * P) :=
    match fuel with
    | O => None
    | S f =>
        match wl with
        | [] => None                                   (* the code's (-1, zero) *)
        | IElem k i p :: _ => Some (i, k, p)
        | ICell _ (Node _ els ch) :: rest => cloop f (push_elems els (push_cells ch rest))
        end
    end.

  Definition closest (t : tree) : option (nat * Z * P) :=
    cloop (S (tnodes t)) [ICell (ckey (tbox t)) t].
End Closest.
Arguments ICell {P}. Arguments IElem {P}.

(* ---------- the element types' geometry (exact) ---------- *)
(* scopedPoint: box = the point, closest = the point *)
Definition point_box (a : pt) : box := (a, a).
(* scopedLine / scopedTri: NewAABBFromPoints *)
Definition seg_box (a b : pt) : box := (pmin a b, pmax a b).
Definition tri_box (a b c : pt) : box := (pmin (pmin a b) c, pmax (pmax a b) c).

(* Line3D.ClosestPointOnLine with the parameter t given: p1 if t<=0, p2 if t>=1, else p1+(p2-p1)*t *)
Definition seg_at (a b : Q) (t : Q) : Q :=
  (if Qle_bool 1 t then b else if Qle_bool t 0 then a else a + (b - a) * t)%Q.

Definition vsub (a b : pt) : pt := (px a - px b, py a - py b, pz a - pz b).
Definition cross (a b : pt) : pt :=
  (py a * pz b - pz a * py b, pz a * px b - px a * pz b, px a * py b - py a * px b).
Definition dot (a b : pt) : Z := px a * px b + py a * py b + pz a * pz b.

(* scopedTri.PointInSide as pinned (two sign tests) and as repaired by 26a68bd (three) *)
Definition tri_in_side_pinned (a b c p : pt) : bool :=
  let a' := vsub a p in let b' := vsub b p in let c' := vsub c p in
  let u := cross b' c' in let v := cross c' a' in let w := cross a' b' in
  negb (dot u v <? 0) && (0 <=? dot u w).
Definition tri_in_side (a b c p : pt) : bool :=
  let a' := vsub a p in let b' := vsub b p in let c' := vsub c p in
  let u := cross b' c' in let v := cross c' a' in let w := cross a' b' in
  negb (dot u v <? 0) && negb (dot u w <? 0) && (0 <=? dot v w).
Definition coplanar (a b c p : pt) : bool :=
  dot (cross (vsub b a) (vsub c a)) (vsub p a) =? 0.

(* ---------- exact (rational) closest point of a segment element ---------- *)
(* scopedLine.ClosestPoint = Line3D.ClosestPointOnLine: t = (p-a).heading / |b-a| with heading the unit
   vector, i.e. t = (p-a).(b-a) / |b-a|^2; p2 if t >= 1, p1 if t <= 0, else p1 + (p2-p1)*t.  Model
   units (Go coordinate x4) throughout; exact over Q. *)
Definition qpt := (Q * Q * Q)%type.
Definition zq (z : Z) : Q := inject_Z z.
Definition seg_param (a b p : pt) : Q :=
  (zq (dot (vsub p a) (vsub b a)) / zq (dot (vsub b a) (vsub b a)))%Q.
Definition seg_closest (a b p : pt) : qpt :=
  let t := seg_param a b p in
  (seg_at (zq (px a)) (zq (px b)) t, seg_at (zq (py a)) (zq (py b)) t, seg_at (zq (pz a)) (zq (pz b)) t).
Definition qsq (x : Q) : Q := (x * x)%Q.
Definition qdist2 (c : qpt) (p : pt) : Q :=
  let '(cx, cy, cz) := c in (qsq (cx - zq (px p)) + qsq (cy - zq (py p)) + qsq (cz - zq (pz p)))%Q.

(* ---------- mesh-level entry points: Mesh.OctTree / OctTreeDepth / OctTreeWithAttributeAndDepth ---------- *)
(* The element list handed to NewOctreeWithDepth is  primitives[i] = primitive i of the mesh, scoped to the
   attribute  (ScanPrimitives + Scope): element i IS mesh primitive i, for every i < PrimitiveCount().
   Point cloud (implied indices): primitive i = vertex i.  Line strip: primitive i = indices i, i+1
   (len-1 primitives).  Triangles: primitive i = indices 3i, 3i+1, 3i+2 (len/3 primitives; a triangle
   that names a vertex twice is a primitive like any other).  verts = the values of the chosen attribute. *)
Definition vat (verts : list pt) (i : nat) : pt := nth i verts (0, 0, 0).
Definition mesh_point_boxes (verts : list pt) : list box := map point_box verts.
Fixpoint mesh_strip_boxes (verts : list pt) (idx : list nat) : list box :=
  match idx with
  | a :: ((b :: _) as r) => seg_box (vat verts a) (vat verts b) :: mesh_strip_boxes verts r
  | _ => []
  end.
Fixpoint mesh_tri_boxes (verts : list pt) (idx : list nat) : list box :=
  match idx with
  | a :: b :: c :: r => tri_box (vat verts a) (vat verts b) (vat verts c) :: mesh_tri_boxes verts r
  | _ => []
  end.
(* kind: 0 point cloud, 1 line strip, 2 triangles *)
Definition mesh_boxes (kind : nat) (verts : list pt) (idx : list nat) : list box :=
  match kind with
  | O => mesh_point_boxes verts
  | S O => mesh_strip_boxes verts idx
  | _ => mesh_tri_boxes verts idx
  end.

(* ---------- exact (rational) closest point of a triangle element: scopedTri.ClosestPoint ---------- *)
(* closestPoint := Plane().ClosestPoint(p)  =  p - nhat * (nhat.p - nhat.a)  =  p - n * ((p-a).n / n.n)  with the
   unnormalised normal n = (b-a) x (c-a);  if PointInSide(closestPoint) (three sign tests, 26a68bd) that
   point; else ClosestPointOnLine(closestPoint) on the edges AB, BC, CA and the one of least squared
   distance to closestPoint (the first on ties: min == mag1, else min == mag2, else the third).
   Model units (Go coordinate x4); exact over Q.  For a zero-area triangle n.n = 0 and Go computes NaN;
   the theorems exclude it (0 < n.n). *)
Definition qx (p : qpt) : Q := fst (fst p).
Definition qy (p : qpt) : Q := snd (fst p).
Definition qz (p : qpt) : Q := snd p.
Definition inj (p : pt) : qpt := (zq (px p), zq (py p), zq (pz p)).
Definition qvsub (a b : qpt) : qpt := (qx a - qx b, qy a - qy b, qz a - qz b)%Q.
Definition qcross (a b : qpt) : qpt :=
  (qy a * qz b - qz a * qy b, qz a * qx b - qx a * qz b, qx a * qy b - qy a * qx b)%Q.
Definition qdot (a b : qpt) : Q := (qx a * qx b + qy a * qy b + qz a * qz b)%Q.
Definition qdist2q (c p : qpt) : Q := qdot (qvsub c p) (qvsub c p).

Definition tri_normal_q (a b c : pt) : qpt := qcross (qvsub (inj b) (inj a)) (qvsub (inj c) (inj a)).
Definition tri_proj (a b c p : pt) : qpt :=
  let n := tri_normal_q a b c in
  let k := (qdot n (qvsub (inj p) (inj a)) / qdot n n)%Q in
  (qx (inj p) - k * qx n, qy (inj p) - k * qy n, qz (inj p) - k * qz n)%Q.
Definition tri_in_side_q (a b c : pt) (p : qpt) : bool :=
  let a' := qvsub (inj a) p in let b' := qvsub (inj b) p in let c' := qvsub (inj c) p in
  let u := qcross b' c' in let v := qcross c' a' in let w := qcross a' b' in
  negb (Qltb (qdot u v) 0) && negb (Qltb (qdot u w) 0) && Qle_bool 0 (qdot v w).
(* Line3D.ClosestPointOnLine for a rational query *)
Definition seg_param_q (a b : pt) (p : qpt) : Q :=
  let h := qvsub (inj b) (inj a) in (qdot (qvsub p (inj a)) h / qdot h h)%Q.
Definition seg_closest_q (a b : pt) (p : qpt) : qpt :=
  let t := seg_param_q a b p in
  (seg_at (zq (px a)) (zq (px b)) t, seg_at (zq (py a)) (zq (py b)) t, seg_at (zq (pz a)) (zq (pz b)) t).
Definition qmin2 (a b : Q) : Q := if Qltb b a then b else a.
Definition tri_closest (a b c p : pt) : qpt :=
  let c0 := tri_proj a b c p in
  if tri_in_side_q a b c c0 then c0
  else
    let c1 := seg_closest_q a b c0 in
    let c2 := seg_closest_q b c c0 in
    let c3 := seg_closest_q c a c0 in
    let m1 := qdist2q c0 c1 in let m2 := qdist2q c0 c2 in let m3 := qdist2q c0 c3 in
    let mn := qmin2 (qmin2 m1 m2) m3 in
    if Qeq_bool mn m1 then c1 else if Qeq_bool mn m2 then c2 else c3.
