(* C16 — proofs about the BVH model (Trees/Bvh.v): BVHNode.Hit finds the nearest hit, exactly like
   HitList.Hit over the same leaves, whatever the shape of the hierarchy. *)
From PF Require Export Trees.Bvh Trees.OctreeProofs.
From Coq Require Import Permutation Lqa Lia.
Open Scope Q_scope.

Section BvhProofs.
  Variable lbox : nat -> box.
  Variable tv : nat -> option Q.
  Variable dist : nat -> Q.
  Variable ry : ray.
  Variable lo : Q.

  (* lower bound 0: the recorded Distance is the ray parameter of the hit *)
  Hypothesis dist_tv : forall i t, tv i = Some t -> dist i == t.
  (* a hit lies inside the leaf's own (well-formed) box *)
  Hypothesis hit_in_box : forall i t, tv i = Some t -> slab (lbox i) ry (lo, t) = true.
  Hypothesis lbox_wf : forall i, wf_box (lbox i).

  Local Notation leaf_hit := (leaf_hit tv dist).
  Local Notation bhit := (bhit tv dist ry lo).
  Local Notation list_hit := (list_hit tv dist).
  Local Notation bbox_of := (bbox_of lbox).

  (* every node box contains the boxes below it (what NewBVHTree's EncapsulateBounds gives) *)
  Fixpoint binv (t : bvh) : Prop :=
    match t with
    | BLeaf _ => True
    | BNode b l r => box_sub (bbox_of l) b /\ box_sub (bbox_of r) b /\ binv l /\ binv r
    end.

  Lemma binv_leaves t : binv t -> forall i, In i (leaves t) -> box_sub (lbox i) (bbox_of t).
  Proof.
    induction t as [j|b l IHl r IHr]; cbn.
    - intros _ i [<-|[]]. apply box_sub_refl.
    - intros (Sl & Sr & Il & Ir) i Hi. apply in_app_iff in Hi. destruct Hi as [Hi|Hi].
      + eapply box_sub_trans; [apply IHl; assumption | exact Sl].
      + eapply box_sub_trans; [apply IHr; assumption | exact Sr].
  Qed.

  Lemma lh_mono i c c' d : c' <= c -> leaf_hit i c' = Some d -> leaf_hit i c = Some d.
  Proof.
    unfold Bvh.leaf_hit. destruct (tv i) as [t|]; [|discriminate]. intros H.
    destruct (Qle_bool t c') eqn:E; [|discriminate]. intros [= <-]. qb.
    replace (Qle_bool t c) with true by (symmetry; apply Qle_bool_iff; lra). reflexivity.
  Qed.
  Lemma lh_le i c d : leaf_hit i c = Some d -> d <= c.
  Proof.
    unfold Bvh.leaf_hit. destruct (tv i) as [t|] eqn:T; [|discriminate].
    destruct (Qle_bool t c) eqn:E; [|discriminate]. intros [= <-]. qb. rewrite (dist_tv i t T). exact E.
  Qed.
  Lemma lh_down i c c' d : leaf_hit i c = Some d -> d <= c' -> leaf_hit i c' = Some d.
  Proof.
    unfold Bvh.leaf_hit. destruct (tv i) as [t|] eqn:T; [|discriminate].
    destruct (Qle_bool t c) eqn:E; [|discriminate]. intros [= <-] H. rewrite (dist_tv i t T) in H.
    replace (Qle_bool t c') with true by (symmetry; apply Qle_bool_iff; exact H). reflexivity.
  Qed.

  (* pruning by the node box loses nothing: the slab test is monotone *)
  Lemma prune t hi : binv t -> slab (bbox_of t) ry (lo, hi) = false ->
    forall i, In i (leaves t) -> leaf_hit i hi = None.
  Proof.
    intros I S i Hi. destruct (leaf_hit i hi) as [d|] eqn:E; [|reflexivity]. exfalso.
    unfold Bvh.leaf_hit in E. destruct (tv i) as [t0|] eqn:T; [|discriminate].
    destruct (Qle_bool t0 hi) eqn:L; [|discriminate]. qb.
    pose proof (hit_in_box i t0 T) as Hs.
    rewrite (slab_mono (lbox i) (bbox_of t) ry (lo, t0) (lo, hi)) in S; try discriminate; auto.
    - apply binv_leaves; assumption.
    - cbn. lra.
  Qed.

  (* "res is the answer of an exhaustive scan of the leaves l with upper bound hi" *)
  Definition is_best (l : list nat) (hi : Q) (dflt : bool * option Q) (res : bool * option Q) : Prop :=
    (res = dflt /\ forall i, In i l -> leaf_hit i hi = None) \/
    (exists i d, res = (true, Some d) /\ In i l /\ leaf_hit i hi = Some d /\
                 forall j d', In j l -> leaf_hit j hi = Some d' -> d <= d').

  Lemma bhit_best : forall t hi rec, binv t -> is_best (leaves t) hi (false, rec) (bhit t hi rec).
  Proof.
    induction t as [i|b l IHl r IHr]; intros hi rec I; cbn [Bvh.bhit leaves].
    - destruct (leaf_hit i hi) as [d|] eqn:E.
      + right. exists i, d. repeat split; auto; [left; reflexivity|].
        intros j d' [<-|[]] E'. rewrite E in E'. injection E' as <-. lra.
      + left. split; [reflexivity|]. intros j [<-|[]]. exact E.
    - destruct (slab b ry (lo, hi)) eqn:S.
      2:{ left. split; [reflexivity|]. apply (prune (BNode b l r) hi I S). }
      destruct I as (Sl & Sr & Il & Ir).
      specialize (IHl hi rec Il). destruct (bhit l hi rec) as [hl rec1].
      destruct IHl as [[[= -> ->] Nl]|(i & d1 & [= -> ->] & Hi & E1 & M1)].
      + (* nothing on the left *)
        specialize (IHr hi rec Ir). destruct (bhit r hi rec) as [hr rec2]. cbn [orb].
        destruct IHr as [[[= -> ->] Nr]|(j & d2 & [= -> ->] & Hj & E2 & M2)].
        * left. split; [reflexivity|]. intros k Hk. apply in_app_iff in Hk. destruct Hk; auto.
        * right. exists j, d2. repeat split; auto; [apply in_app_iff; auto|].
          intros k d' Hk E'. apply in_app_iff in Hk. destruct Hk as [Hk|Hk]; [|eauto].
          rewrite (Nl k Hk) in E'. discriminate.
      + (* a hit on the left at d1: the right child is searched up to d1 *)
        pose proof (lh_le _ _ _ E1) as L1.
        specialize (IHr d1 (Some d1) Ir). destruct (bhit r d1 (Some d1)) as [hr rec2]. cbn [orb].
        destruct IHr as [[[= -> ->] Nr]|(j & d2 & [= -> ->] & Hj & E2 & M2)].
        * right. exists i, d1. repeat split; auto; [apply in_app_iff; auto|].
          intros k d' Hk E'. apply in_app_iff in Hk. destruct Hk as [Hk|Hk]; [eauto|].
          destruct (Qlt_le_dec d1 d') as [G|G]; [lra|].
          pose proof (Nr k Hk) as X. rewrite (lh_down _ _ _ _ E' G) in X. discriminate X.
        * pose proof (lh_le _ _ _ E2) as L2.
          right. exists j, d2. repeat split; auto; [apply in_app_iff; auto | eapply lh_mono; eassumption |].
          intros k d' Hk E'. apply in_app_iff in Hk. destruct Hk as [Hk|Hk].
          -- specialize (M1 k d' Hk E'). lra.
          -- destruct (Qlt_le_dec d1 d') as [G|G]; [lra|]. apply (M2 k d' Hk). eapply lh_down; eassumption.
  Qed.

  Lemma list_best : forall l c any rec, is_best l c (any, rec) (list_hit l c any rec).
  Proof.
    induction l as [|i l IH]; intros c any rec; cbn [Bvh.list_hit].
    - left. split; [reflexivity|]. intros ? [].
    - destruct (leaf_hit i c) as [d|] eqn:E.
      + pose proof (lh_le _ _ _ E) as L.
        specialize (IH d true (Some d)). destruct (list_hit l d true (Some d)) as [h r].
        destruct IH as [[[= -> ->] N]|(j & d2 & [= -> ->] & Hj & E2 & M2)].
        * right. exists i, d. repeat split; auto; [left; reflexivity|].
          intros k d' [<-|Hk] E'; [rewrite E in E'; injection E' as <-; lra|].
          destruct (Qlt_le_dec d d') as [G|G]; [lra|].
          pose proof (N k Hk) as X. rewrite (lh_down _ _ _ _ E' G) in X. discriminate X.
        * pose proof (lh_le _ _ _ E2) as L2.
          right. exists j, d2. repeat split; auto; [right; exact Hj | eapply lh_mono; eassumption |].
          intros k d' [<-|Hk] E'; [rewrite E in E'; injection E' as <-; lra|].
          destruct (Qlt_le_dec d d') as [G|G]; [lra|]. apply (M2 k d' Hk). eapply lh_down; eassumption.
      + specialize (IH c any rec). destruct (list_hit l c any rec) as [h r].
        destruct IH as [[[= -> ->] N]|(j & d2 & [= -> ->] & Hj & E2 & M2)].
        * left. split; [reflexivity|]. intros k [<-|Hk]; auto.
        * right. exists j, d2. repeat split; auto; [right; exact Hj|].
          intros k d' [<-|Hk] E'; [rewrite E in E'; discriminate | eauto].
  Qed.

  Definition same_answer (a b : bool * option Q) : Prop :=
    fst a = fst b /\
    match snd a, snd b with
    | Some x, Some y => x == y
    | None, None => True
    | _, _ => False
    end.

  (* BVHNode.Hit = HitList.Hit on any list with the same members as the hierarchy's leaves:
     same hit flag, same nearest distance (which of several equally near triangles is found may differ) *)
  Theorem bvh_hit_eq_list_thm t l hi :
    binv t -> (forall i, In i (leaves t) <-> In i l) ->
    same_answer (bhit t hi None) (list_hit l hi false None).
  Proof.
    intros I Hm. pose proof (bhit_best t hi None I) as B. pose proof (list_best l hi false None) as L.
    destruct (bhit t hi None) as [h1 r1], (list_hit l hi false None) as [h2 r2]. unfold same_answer. cbn [fst snd].
    destruct B as [[[= -> ->] N1]|(i & d1 & [= -> ->] & Hi & E1 & M1)];
      destruct L as [[[= -> ->] N2]|(j & d2 & [= -> ->] & Hj & E2 & M2)].
    - split; [reflexivity|exact Logic.I].
    - apply Hm in Hj. rewrite (N1 j Hj) in E2. discriminate.
    - apply Hm in Hi. rewrite (N2 i Hi) in E1. discriminate.
    - split; [reflexivity|]. apply Hm in Hi as Hi'. apply Hm in Hj as Hj'.
      pose proof (M1 j d2 Hj' E2). pose proof (M2 i d1 Hi' E1). lra.
  Qed.

  (* the structure check of the correspondence (node boxes as NewBVHTree computes them) implies binv *)
  Lemma box_eqb_eq a b : box_eqb a b = true -> a = b.
  Proof.
    destruct a as [[[a1 a2] a3] [[a4 a5] a6]], b as [[[b1 b2] b3] [[b4 b5] b6]].
    unfold box_eqb, pt_eqb, bmin, bmax, px, py, pz. cbn [fst snd].
    rewrite !andb_true_iff, !Z.eqb_eq. intros [[[-> ->] ->] [[-> ->] ->]]. reflexivity.
  Qed.
  Lemma bvh_wfb_binv t : bvh_wfb lbox t = true -> binv t.
  Proof.
    induction t as [i|b l IHl r IHr]; cbn; [auto|].
    rewrite !andb_true_iff. intros [[E Wl] Wr]. apply box_eqb_eq in E. subst b.
    split; [|split; [|split; auto]]; unfold node_box.
    - eapply box_sub_trans; [apply enc_box_r | apply enc_box_l].
    - apply enc_box_r.
  Qed.
End BvhProofs.

(* ---------- NewBVHTree ---------- *)
Section BuildProofs.
  Variable lbox : nat -> box.
  Variable srt : list nat -> list nat.
  Hypothesis srt_perm : forall l, Permutation (srt l) l.

  Lemma node_box_l a b : box_sub a (node_box a b).
  Proof. unfold node_box. eapply box_sub_trans; [apply enc_box_r | apply enc_box_l]. Qed.
  Lemma node_box_r a b : box_sub b (node_box a b).
  Proof. unfold node_box. apply enc_box_r. Qed.

  Lemma binv_node l r : binv lbox l -> binv lbox r ->
    binv lbox (BNode (node_box (bbox_of lbox l) (bbox_of lbox r)) l r).
  Proof. intros Hl Hr. cbn [binv]. split; [apply node_box_l|]. split; [apply node_box_r|]. split; assumption. Qed.

  (* every tree NewBVHTree can build (any axes, any tie order of the sort) has node boxes containing the
     boxes below, and holds exactly the given objects *)
  Theorem bvh_build_ok : forall fuel objs t,
    bvh_build lbox srt fuel objs = Some t ->
    binv lbox t /\ forall i, In i (leaves t) <-> In i objs.
  Proof.
    induction fuel as [|f IH]; intros objs t B; [discriminate|].
    cbn [bvh_build] in B. destruct objs as [|i [|j [|k rest]]]; [discriminate| | |].
    - injection B as <-. split; [apply (binv_node (BLeaf i) (BLeaf i)); exact I|].
      intros x. cbn. tauto.
    - pose proof (srt_perm [i; j]) as P. destruct (srt [i; j]) as [|a [|b [|c l]]]; try discriminate.
      injection B as <-. split; [apply (binv_node (BLeaf a) (BLeaf b)); exact I|]. cbn [leaves app].
      intros x. split; intros H.
      + eapply Permutation_in; [exact P | exact H].
      + eapply Permutation_in; [apply Permutation_sym, P | exact H].
    - remember (i :: j :: k :: rest) as objs eqn:E. pose proof (srt_perm objs) as P.
      cbv zeta in B.
      destruct (bvh_build lbox srt f (firstn (Nat.div (length (srt objs)) 2) (srt objs))) as [l|] eqn:Bl; [|discriminate].
      destruct (bvh_build lbox srt f (skipn (Nat.div (length (srt objs)) 2) (srt objs))) as [r|] eqn:Br; [|discriminate].
      injection B as <-. apply IH in Bl. apply IH in Br. destruct Bl as [Il Ll], Br as [Ir Lr].
      split; [apply binv_node; assumption|]. cbn [leaves].
      intros x. rewrite in_app_iff, Ll, Lr, <- in_app_iff, firstn_skipn.
      split; intros H; [eapply Permutation_in; [exact P | exact H] | eapply Permutation_in; [apply Permutation_sym, P | exact H]].
  Qed.

  (* enough fuel (one unit per level; the number of objects always suffices): the builder answers on
     every non-empty list *)
  Theorem bvh_build_some : forall fuel objs,
    (length objs <= fuel)%nat -> objs <> [] -> exists t, bvh_build lbox srt fuel objs = Some t.
  Proof.
    induction fuel as [|f IH]; intros objs L N; [destruct objs; [contradiction | cbn in L; lia]|].
    cbn [bvh_build]. destruct objs as [|i [|j [|k rest]]]; [contradiction | eauto | |].
    - pose proof (srt_perm [i; j]) as P. apply Permutation_length in P.
      destruct (srt [i; j]) as [|a [|b [|c l]]]; try discriminate. eauto.
    - remember (i :: j :: k :: rest) as objs eqn:E. pose proof (srt_perm objs) as P.
      apply Permutation_length in P. cbv zeta.
      assert (Ln : (3 <= length objs)%nat) by (rewrite E; cbn; lia).
      set (s := srt objs) in *. set (mid := Nat.div (length s) 2).
      assert (M1 : (0 < mid)%nat) by (unfold mid; apply Nat.div_str_pos; lia).
      assert (M2 : (mid < length s)%nat) by (unfold mid; apply Nat.div_lt; lia).
      destruct (IH (firstn mid s)) as [l ->].
      { rewrite firstn_length. lia. }
      { intros X. apply (f_equal (@length nat)) in X. rewrite firstn_length in X. cbn [length] in X. lia. }
      destruct (IH (skipn mid s)) as [r ->].
      { rewrite skipn_length. lia. }
      { intros X. apply (f_equal (@length nat)) in X. rewrite skipn_length in X. cbn [length] in X. lia. }
      eauto.
  Qed.
End BuildProofs.

(* BVHNode.Hit on every tree NewBVHTree can build over objs = HitList.Hit over objs: any range [lo, hi]
   (absolute ray parameters: dist i == tv i, which is what Triangle.Hit records once its upper-bound test
   compares tVal + min with max — fixes/c16-tri-hit-max-offset) *)
Theorem bvh_built_hit_eq_list_thm lbox srt tv dist ry lo :
  (forall l, Permutation (srt l) l) ->
  (forall i t, tv i = Some t -> dist i == t) ->
  (forall i t, tv i = Some t -> slab (lbox i) ry (lo, t) = true) ->
  (forall i, wf_box (lbox i)) ->
  forall fuel objs t hi,
    bvh_build lbox srt fuel objs = Some t ->
    same_answer (bhit tv dist ry lo t hi None) (list_hit tv dist objs hi false None).
Proof.
  intros P D H W fuel objs t hi B. destruct (bvh_build_ok lbox srt P fuel objs t B) as [I L].
  apply (bvh_hit_eq_list_thm lbox tv dist ry lo D H W); assumption.
Qed.

(* The pinned Triangle.Hit compares the parameter measured from ray.At(lo) (tv) with the absolute bound
   but records dist = tv + lo.  With lo <> 0 neither search is a nearest-hit search any more and the two
   disagree: two leaves at relative parameters 9/2 and 4, lo = 1, hierarchy (leaf 1, leaf 0), list
   [0; 1]: BVHNode.Hit reports 11/2, HitList.Hit reports 5. *)
Theorem bvh_hit_min_offset_refuted :
  exists (lbox : nat -> box) (tv : nat -> option Q) (dist : nat -> Q) (ry : ray) (lo hi : Q) (t : bvh) (l : list nat),
    (forall i t0, tv i = Some t0 -> dist i == t0 + lo) /\
    (forall i t0, tv i = Some t0 -> slab (lbox i) ry (lo, t0 + lo) = true) /\
    (forall i, wf_box (lbox i)) /\
    binv lbox t /\ (forall i, In i (leaves t) <-> In i l) /\
    bhit tv dist ry lo t hi None = (true, Some (11 # 2)) /\
    list_hit tv dist l hi false None = (true, Some 5) /\
    ~ same_answer (bhit tv dist ry lo t hi None) (list_hit tv dist l hi false None).
Proof.
  set (bx := ((-16, -16, 0), (16, 24, 24))%Z : box).
  exists (fun _ => bx),
         (fun i => match i with O => Some (9 # 2) | S O => Some 4 | _ => None end),
         (fun i => match i with O => 11 # 2 | S O => 5 | _ => 0 end),
         ((0, 0, 0)%Z, (0, 0, 1)), 1, 1000000,
         (BNode bx (BLeaf 1%nat) (BLeaf 0%nat)), [0%nat; 1%nat].
  split; [intros [|[|i]] t0 [= <-]; reflexivity|].
  split; [intros [|[|i]] t0 [= <-]; vm_compute; reflexivity|].
  split; [intros i; unfold wf_box, bx; cbn; lia|].
  split; [cbn; repeat split; apply box_sub_refl|].
  split; [intros i; cbn; tauto|].
  split; [vm_compute; reflexivity|]. split; [vm_compute; reflexivity|].
  intros [_ H]. vm_compute in H. discriminate H.
Qed.

(* ---------- nearest ray hit = exhaustive scan ---------- *)
(* "res is what an exhaustive scan of the objects l with upper bound hi finds": no hit flag and an untouched
   record exactly when no object is hit within the bound; otherwise the flag and the least Distance among
   all objects hit within the bound (attained by some object of l) *)
Definition nearest_answer (tv : nat -> option Q) (dist : nat -> Q) (l : list nat) (hi : Q) (res : bool * option Q) : Prop :=
  match res with
  | (true, Some d) => exists i, In i l /\ leaf_hit tv dist i hi = Some d /\
                                forall j d', In j l -> leaf_hit tv dist j hi = Some d' -> d <= d'
  | (false, None) => forall i, In i l -> leaf_hit tv dist i hi = None
  | _ => False
  end.

Lemma is_best_nearest tv dist l hi res : is_best tv dist l hi (false, None) res -> nearest_answer tv dist l hi res.
Proof.
  intros [[-> N]|(i & d & -> & Hi & E & M)]; cbn [nearest_answer]; [exact N|].
  exists i. split; [exact Hi|]. split; [exact E | exact M].
Qed.

(* HitList.Hit is the exhaustive scan (any order of the list, any range) *)
Theorem list_hit_nearest_thm tv dist :
  (forall i t, tv i = Some t -> dist i == t) ->
  forall l hi, nearest_answer tv dist l hi (list_hit tv dist l hi false None).
Proof. intros D l hi. apply is_best_nearest, list_best, D. Qed.

(* BVHNode.Hit finds the nearest hit among ALL its objects although it skips every subtree whose box the
   ray misses and searches the second child only up to the first child's hit *)
Theorem bvh_hit_nearest_thm lbox tv dist ry lo :
  (forall i t, tv i = Some t -> dist i == t) ->
  (forall i t, tv i = Some t -> slab (lbox i) ry (lo, t) = true) ->
  (forall i, wf_box (lbox i)) ->
  forall t hi, binv lbox t -> nearest_answer tv dist (leaves t) hi (bhit tv dist ry lo t hi None).
Proof. intros D H W t hi I. apply is_best_nearest, (bhit_best lbox tv dist ry lo D H W), I. Qed.

Theorem bvh_built_hit_nearest_thm lbox srt tv dist ry lo :
  (forall l, Permutation (srt l) l) ->
  (forall i t, tv i = Some t -> dist i == t) ->
  (forall i t, tv i = Some t -> slab (lbox i) ry (lo, t) = true) ->
  (forall i, wf_box (lbox i)) ->
  forall fuel objs t hi, bvh_build lbox srt fuel objs = Some t ->
    nearest_answer tv dist objs hi (bhit tv dist ry lo t hi None).
Proof.
  intros P D H W fuel objs t hi B. destruct (bvh_build_ok lbox srt P fuel objs t B) as [I L].
  pose proof (bvh_hit_nearest_thm lbox tv dist ry lo D H W t hi I) as N.
  destruct (bhit tv dist ry lo t hi None) as [[|] [d|]]; cbn [nearest_answer] in *; try contradiction.
  - destruct N as (i & Hi & E & M). exists i. split; [apply L, Hi|]. split; [exact E|].
    intros j d' Hj. apply M, L, Hj.
  - intros i Hi. apply N, L, Hi.
Qed.
