(* C16 — executable model of rendering/bvh.go (BVHNode.Hit, the node box of NewBVHTree) and of
   rendering/hit.go (HitList.Hit).  No proofs here.

   The leaves are abstract: leaf i has a bounding box and, for the fixed ray and lower bound, the
   parameter tVal at which rayIntersectsTri finds the triangle (None: no intersection) and the
   Distance it records (tVal + min).  Triangle.Hit(ray, min, max) succeeds iff tVal <= max.        *)
From PF Require Export Trees.Octree.
Open Scope Z_scope.

Inductive bvh := BLeaf (i : nat) | BNode (b : box) (l r : bvh).

Fixpoint leaves (t : bvh) : list nat :=
  match t with BLeaf i => [i] | BNode _ l r => leaves l ++ leaves r end.

(* NewBVHTree: node.box = NewEmptyAABB() (the zero box at the origin!) then both children's boxes *)
Definition zero_box : box := ((0, 0, 0), (0, 0, 0)).
Definition node_box (lb rb : box) : box := enc_box (enc_box zero_box lb) rb.

Section Hit.
  Variable lbox : nat -> box.
  Variable tv : nat -> option Q.
  Variable dist : nat -> Q.
  Variable ry : ray.
  Variable lo : Q.

  Definition bbox_of (t : bvh) : box := match t with BLeaf i => lbox i | BNode b _ _ => b end.

  (* Triangle.Hit: the record is written only on success *)
  Definition leaf_hit (i : nat) (hi : Q) : option Q :=
    match tv i with
    | Some t => if Qle_bool t hi then Some (dist i) else None
    | None => None
    end.

  (* BVHNode.Hit; rec = hitRecord.Distance as left by earlier hits (None: untouched) *)
  Fixpoint bhit (t : bvh) (hi : Q) (rec : option Q) : bool * option Q :=
    match t with
    | BLeaf i => match leaf_hit i hi with Some d => (true, Some d) | None => (false, rec) end
    | BNode b l r =>
        if slab b ry (lo, hi) then
          let (hl, rec1) := bhit l hi rec in
          let rT := if hl then match rec1 with Some d => d | None => hi end else hi in
          let (hr, rec2) := bhit r rT rec1 in
          (hl || hr, rec2)
        else (false, rec)
    end.

  (* HitList.Hit *)
  Fixpoint list_hit (l : list nat) (closest : Q) (any : bool) (rec : option Q) : bool * option Q :=
    match l with
    | [] => (any, rec)
    | i :: r => match leaf_hit i closest with
                | Some d => list_hit r d true (Some d)
                | None => list_hit r closest any rec
                end
    end.

  (* node boxes are what NewBVHTree computes from the children *)
  Fixpoint bvh_wfb (t : bvh) : bool :=
    match t with
    | BLeaf _ => true
    | BNode b l r => box_eqb b (node_box (bbox_of l) (bbox_of r)) && bvh_wfb l && bvh_wfb r
    end.
End Hit.

(* NewBVHTree over a non-empty object list.  The split axis is random at every node and sort.Sort is not
   stable, so the rearrangement of the objects at a node is a parameter: `srt` stands for "sort the
   slice by the comparator drawn at this node" (for two objects: put the smaller first) and is only
   assumed to return a permutation.  One object: both children are that object.  (The code does not
   terminate on an empty slice; NewBVHFromMesh of an empty mesh is outside the model: None.) *)
Section Build.
  Variable lbox : nat -> box.
  Variable srt : list nat -> list nat.

  Fixpoint bvh_build (fuel : nat) (objs : list nat) : option bvh :=
    match fuel with
    | O => None
    | S f =>
        match objs with
        | [] => None
        | [i] => Some (BNode (node_box (lbox i) (lbox i)) (BLeaf i) (BLeaf i))
        | [_; _] =>
            match srt objs with
            | [a; b] => Some (BNode (node_box (lbox a) (lbox b)) (BLeaf a) (BLeaf b))
            | _ => None
            end
        | _ =>
            let s := srt objs in
            let mid := Nat.div (length s) 2 in
            match bvh_build f (firstn mid s), bvh_build f (skipn mid s) with
            | Some l, Some r => Some (BNode (node_box (bbox_of lbox l) (bbox_of lbox r)) l r)
            | _, _ => None
            end
        end
    end.
End Build.

(* rendering.Sphere as a BVH member.  BoundingBox(start, end) = NewAABB(animation(start), size) hulled with
   the same box at animation(end).  NewAABB takes the SIZE of the box: the pinned code passes the radius
   (sphere_box_pinned: the box reaches only radius/2 from the centre; model units: r = 4 * Go radius, even
   in every witness below), the repaired code the diameter (sphere_box). *)
Definition sphere_box (c : pt) (r : Z) : box :=
  ((px c - r, py c - r, pz c - r), (px c + r, py c + r, pz c + r)).
Definition sphere_box_pinned (c : pt) (r : Z) : box :=
  ((px c - r / 2, py c - r / 2, pz c - r / 2), (px c + r / 2, py c + r / 2, pz c + r / 2)).
Definition moving_sphere_box (c0 c1 : pt) (r : Z) : box := enc_box (sphere_box c0 r) (sphere_box c1 r).
