(* C16 — triangle elements: the exact rational model of scopedTri.ClosestPoint (Trees/Octree.v tri_closest:
   plane projection, repaired PointInSide, else the nearest of the three edge points) never reports a point
   nearer than the triangle's own bounding box.  This removes the element hypothesis of closest_eq_brute
   for triangle sets (proper triangles: non-zero area), as ElemProofs.v does for segments. *)
From PF Require Export Trees.ElemProofs.
From Coq Require Import Lqa Lia Qfield Permutation.
Open Scope Q_scope.

(* a rational point inside a box (closed) *)
Definition in_qbox (c : qpt) (b : box) : Prop :=
  (zq (px (bmin b)) <= qx c /\ qx c <= zq (px (bmax b))) /\
  (zq (py (bmin b)) <= qy c /\ qy c <= zq (py (bmax b))) /\
  (zq (pz (bmin b)) <= qz c /\ qz c <= zq (pz (bmax b))).

(* a point of the box is at least as far from the query as the box (rational point, integer box) *)
Lemma qbox_far b p c : wf_box b -> in_qbox c b -> zq (boxdist2 b p) <= qdist2 c p.
Proof.
  destruct c as [[cx cy] cz]. unfold wf_box, in_qbox, qx, qy, qz. cbn [fst snd].
  intros (Wx & Wy & Wz) ((X1 & X2) & (Y1 & Y2) & (Z1 & Z2)).
  unfold boxdist2, dist2, bclosest, qdist2.
  pose proof (clamp_closest_q (px p) _ _ _ Wx X1 X2) as Hx.
  pose proof (clamp_closest_q (py p) _ _ _ Wy Y1 Y2) as Hy.
  pose proof (clamp_closest_q (pz p) _ _ _ Wz Z1 Z2) as Hz.
  cbn [px py pz fst snd] in *.
  unfold zq, sq, qsq in *. rewrite !inject_Z_plus, !inject_Z_mult, !ElemProofs.inj_minus.
  assert (S : forall x y : Q, (x - y) * (x - y) == (y - x) * (y - x)) by (intros; ring).
  unfold px, py, pz in *.
  rewrite (S (inject_Z (fst (fst p)))), (S (inject_Z (snd (fst p)))), (S (inject_Z (snd p))). lra.
Qed.

(* ---------- the projection branch ---------- *)
Lemma tri_identity_q (ax ay az bx by_ bz cx cy cz x y z : Q) :
  let a := (ax, ay, az) in let b := (bx, by_, bz) in let c := (cx, cy, cz) in let p := (x, y, z) in
  let a' := qvsub a p in let b' := qvsub b p in let c' := qvsub c p in
  let u := qcross b' c' in let v := qcross c' a' in let w := qcross a' b' in
  let n := qcross (qvsub b a) (qvsub c a) in
  qdot n n * x - (qdot u n * ax + qdot v n * bx + qdot w n * cx) == qdot n (qvsub p a) * qx n /\
  qdot n n * y - (qdot u n * ay + qdot v n * by_ + qdot w n * cy) == qdot n (qvsub p a) * qy n /\
  qdot n n * z - (qdot u n * az + qdot v n * bz + qdot w n * cz) == qdot n (qvsub p a) * qz n /\
  qdot u n + qdot v n + qdot w n == qdot n n /\
  qdot u n == qdot u u + qdot u v + qdot u w /\
  qdot v n == qdot u v + qdot v v + qdot v w /\
  qdot w n == qdot u w + qdot v w + qdot w w.
Proof. cbv zeta. unfold qdot, qcross, qvsub, qx, qy, qz. cbn [fst snd]. repeat split; ring. Qed.

Lemma qdot_self_nonneg u : 0 <= qdot u u.
Proof.
  unfold qdot. pose proof (qsq_nonneg (qx u)). pose proof (qsq_nonneg (qy u)). pose proof (qsq_nonneg (qz u)). lra.
Qed.

Lemma convex_axis_q (N al be ga ax bx cx x m M : Q) :
  0 < N -> 0 <= al -> 0 <= be -> 0 <= ga -> al + be + ga == N ->
  N * x - (al * ax + be * bx + ga * cx) == 0 ->
  m <= ax -> m <= bx -> m <= cx -> ax <= M -> bx <= M -> cx <= M ->
  m <= x /\ x <= M.
Proof.
  intros HN Ha Hb Hc Hs He A1 B1 C1 A2 B2 C2.
  assert (0 <= al * (ax - m)) by nra. assert (0 <= be * (bx - m)) by nra. assert (0 <= ga * (cx - m)) by nra.
  assert (0 <= al * (M - ax)) by nra. assert (0 <= be * (M - bx)) by nra. assert (0 <= ga * (M - cx)) by nra.
  assert (L : 0 <= N * (x - m)) by nra. assert (U : 0 <= N * (M - x)) by nra.
  split; nra.
Qed.

Lemma zq_le a b : (a <= b)%Z -> zq a <= zq b.
Proof. unfold zq. rewrite <- Zle_Qle. auto. Qed.

(* a rational point of the triangle's plane accepted by the repaired PointInSide lies in the triangle's box *)
Theorem tri_in_side_q_in_box a b c (P : qpt) :
  0 < qdot (tri_normal_q a b c) (tri_normal_q a b c) ->
  qdot (tri_normal_q a b c) (qvsub P (inj a)) == 0 ->
  tri_in_side_q a b c P = true -> in_qbox P (tri_box a b c).
Proof.
  destruct a as [[ax ay] az], b as [[bx by_] bz], c as [[cx cy] cz], P as [[x y] z].
  intros HN Hc Hs. unfold tri_in_side_q in Hs. cbv zeta in Hs.
  rewrite !andb_true_iff, !negb_true_iff in Hs. destruct Hs as [[H1 H2] H3]. qb.
  unfold tri_normal_q, inj in *. cbn [px py pz fst snd] in *.
  destruct (tri_identity_q (zq ax) (zq ay) (zq az) (zq bx) (zq by_) (zq bz) (zq cx) (zq cy) (zq cz) x y z)
    as (Ix & Iy & Iz & S & U & V & W).
  cbv zeta in *.
  set (a := (zq ax, zq ay, zq az)) in *. set (b := (zq bx, zq by_, zq bz)) in *. set (c := (zq cx, zq cy, zq cz)) in *.
  set (p := (x, y, z)) in *.
  set (n := qcross (qvsub b a) (qvsub c a)) in *.
  set (u := qcross (qvsub b p) (qvsub c p)) in *. set (v := qcross (qvsub c p) (qvsub a p)) in *.
  set (w := qcross (qvsub a p) (qvsub b p)) in *.
  rewrite Hc in Ix, Iy, Iz.
  pose proof (qdot_self_nonneg u). pose proof (qdot_self_nonneg v). pose proof (qdot_self_nonneg w).
  assert (Pu : 0 <= qdot u n) by lra. assert (Pv : 0 <= qdot v n) by lra. assert (Pw : 0 <= qdot w n) by lra.
  assert (Ex : qdot n n * x - (qdot u n * zq ax + qdot v n * zq bx + qdot w n * zq cx) == 0) by (rewrite Ix; ring).
  assert (Ey : qdot n n * y - (qdot u n * zq ay + qdot v n * zq by_ + qdot w n * zq cy) == 0) by (rewrite Iy; ring).
  assert (Ez : qdot n n * z - (qdot u n * zq az + qdot v n * zq bz + qdot w n * zq cz) == 0) by (rewrite Iz; ring).
  assert (Bx : zq (Z.min (Z.min ax bx) cx) <= x /\ x <= zq (Z.max (Z.max ax bx) cx)).
  { apply (convex_axis_q _ _ _ _ _ _ _ _ _ _ HN Pu Pv Pw S Ex); apply zq_le; lia. }
  assert (By : zq (Z.min (Z.min ay by_) cy) <= y /\ y <= zq (Z.max (Z.max ay by_) cy)).
  { apply (convex_axis_q _ _ _ _ _ _ _ _ _ _ HN Pu Pv Pw S Ey); apply zq_le; lia. }
  assert (Bz : zq (Z.min (Z.min az bz) cz) <= z /\ z <= zq (Z.max (Z.max az bz) cz)).
  { apply (convex_axis_q _ _ _ _ _ _ _ _ _ _ HN Pu Pv Pw S Ez); apply zq_le; lia. }
  unfold in_qbox, tri_box, bmin, bmax, pmin, pmax, qx, qy, qz. cbn [fst snd px py pz].
  subst p. cbn [fst snd]. tauto.
Qed.

(* the plane projection p - n ((p-a).n / n.n) is a point of the triangle's plane *)
Lemma tri_proj_coplanar a b c p :
  0 < qdot (tri_normal_q a b c) (tri_normal_q a b c) ->
  qdot (tri_normal_q a b c) (qvsub (tri_proj a b c p) (inj a)) == 0.
Proof.
  unfold tri_proj. generalize (tri_normal_q a b c). intros n HN. cbv zeta.
  generalize dependent (inj p). generalize (inj a). intros qa qp.
  unfold qdot, qvsub, qx, qy, qz in *. cbn [fst snd] in *. field. lra.
Qed.

(* the unnormalised normal over Q is the integer one *)
Lemma tri_normal_q_dot a b c :
  qdot (tri_normal_q a b c) (tri_normal_q a b c) ==
  zq (dot (cross (vsub b a) (vsub c a)) (cross (vsub b a) (vsub c a))).
Proof.
  destruct a as [[ax ay] az], b as [[bx by_] bz], c as [[cx cy] cz].
  unfold tri_normal_q, qdot, qcross, qvsub, inj, qx, qy, qz, dot, cross, vsub, px, py, pz, zq. cbn [fst snd].
  rewrite !inject_Z_plus, !inject_Z_mult, !ElemProofs.inj_minus, !inject_Z_mult, !ElemProofs.inj_minus. ring.
Qed.
Lemma tri_normal_pos a b c :
  (0 < dot (cross (vsub b a) (vsub c a)) (cross (vsub b a) (vsub c a)))%Z ->
  0 < qdot (tri_normal_q a b c) (tri_normal_q a b c).
Proof. intros H. rewrite tri_normal_q_dot. unfold zq. change 0 with (inject_Z 0). rewrite <- Zlt_Qlt. exact H. Qed.

(* ---------- the edge branch ---------- *)
Lemma seg_closest_q_in_box a b p : in_qbox (seg_closest_q a b p) (seg_box a b).
Proof.
  unfold seg_closest_q, in_qbox, seg_box, bmin, bmax, pmin, pmax, qx, qy, qz. cbn [fst snd px py pz].
  set (t := seg_param_q a b p).
  pose proof (seg_at_box (fst (fst a)) (fst (fst b)) t). pose proof (seg_at_box (snd (fst a)) (snd (fst b)) t).
  pose proof (seg_at_box (snd a) (snd b) t). unfold px, py, pz. tauto.
Qed.

Lemma in_qbox_mono c b1 b2 : box_sub b1 b2 -> in_qbox c b1 -> in_qbox c b2.
Proof.
  unfold box_sub, in_qbox. intros (A1 & A2 & A3 & A4 & A5 & A6) ((X1 & X2) & (Y1 & Y2) & (Z1 & Z2)).
  apply zq_le in A1, A2, A3, A4, A5, A6. repeat split; lra.
Qed.

Lemma seg_box_sub_tri a b c :
  box_sub (seg_box a b) (tri_box a b c) /\ box_sub (seg_box b c) (tri_box a b c) /\ box_sub (seg_box c a) (tri_box a b c).
Proof.
  destruct a as [[ax ay] az], b as [[bx by_] bz], c as [[cx cy] cz].
  unfold box_sub, seg_box, tri_box, bmin, bmax, pmin, pmax, px, py, pz. cbn [fst snd]. repeat split; lia.
Qed.

(* scopedTri.ClosestPoint of a proper triangle lies in the triangle's bounding box: for EVERY query *)
Theorem tri_closest_in_box a b c p :
  (0 < dot (cross (vsub b a) (vsub c a)) (cross (vsub b a) (vsub c a)))%Z ->
  in_qbox (tri_closest a b c p) (tri_box a b c).
Proof.
  intros HN. apply tri_normal_pos in HN. unfold tri_closest. cbv zeta.
  destruct (seg_box_sub_tri a b c) as (S1 & S2 & S3).
  destruct (tri_in_side_q a b c (tri_proj a b c p)) eqn:E.
  - apply tri_in_side_q_in_box; [exact HN | apply tri_proj_coplanar; exact HN | exact E].
  - destruct (Qeq_bool _ _); [|destruct (Qeq_bool _ _)];
      (eapply in_qbox_mono; [|apply seg_closest_q_in_box]); assumption.
Qed.

(* ... hence is at least as far from the query as that box: the element hypothesis of closest_eq_brute *)
Theorem tri_closest_far a b c p :
  (0 < dot (cross (vsub b a) (vsub c a)) (cross (vsub b a) (vsub c a)))%Z ->
  zq (boxdist2 (tri_box a b c) p) <= qdist2 (tri_closest a b c p) p.
Proof. intros HN. apply qbox_far; [apply tri_box_wf | apply tri_closest_in_box; exact HN]. Qed.

(* triangles: no hypothesis on the elements is left but "non-zero area" *)
Definition tri3 := (pt * pt * pt)%type.
Definition tri_proper (tr : tri3) : Prop :=
  let '(a, b, c) := tr in (0 < dot (cross (vsub b a) (vsub c a)) (cross (vsub b a) (vsub c a)))%Z.
Definition tri_of (tris : list tri3) (i : nat) : tri3 := nth i tris ((0, 0, 0)%Z, (0, 0, 0)%Z, (0, 0, 0)%Z).
Definition tri3_box (tr : tri3) : box := let '(a, b, c) := tr in tri_box a b c.
Definition tri3_closest (tr : tri3) (q : pt) : qpt := let '(a, b, c) := tr in tri_closest a b c q.

Theorem closest_eq_brute_triangles_thm (tris : list tri3) q depth t :
  Forall tri_proper tris ->
  let boxes := map tri3_box tris in
  let cpt := fun i => tri3_closest (tri_of tris i) q in
  let kq := fun i => qdist2 (cpt i) q in
  new_octree depth boxes = Some t ->
  exists (K : Z) (ekey : nat -> Z),
    (0 < K)%Z /\ (forall i, (i < length tris)%nat -> inject_Z (ekey i) == inject_Z K * kq i) /\
    (exists r, closest qpt ekey cpt K q t = Some r) /\
    forall i k p, closest qpt ekey cpt K q t = Some (i, k, p) ->
      (i < length tris)%nat /\ p = cpt i /\ forall j, (j < length tris)%nat -> kq i <= kq j.
Proof.
  intros HP boxes cpt kq B.
  assert (L : length boxes = length tris) by (unfold boxes; apply map_length).
  rewrite <- L. apply (closest_eq_brute_exact_thm qpt cpt kq q depth boxes t); [| |exact B].
  - unfold boxes. apply Forall_forall. intros bx Hb. apply in_map_iff in Hb. destruct Hb as ([[a b] c] & <- & _).
    apply tri_box_wf.
  - intros i Hi. rewrite L in Hi. unfold kq, cpt, tri_of, boxes.
    change zero_pt_box with (tri3_box ((0, 0, 0)%Z, (0, 0, 0)%Z, (0, 0, 0)%Z)).
    rewrite map_nth.
    assert (HPi : tri_proper (nth i tris ((0, 0, 0)%Z, (0, 0, 0)%Z, (0, 0, 0)%Z))).
    { rewrite Forall_forall in HP. apply HP, nth_In, Hi. }
    destruct (nth i tris ((0, 0, 0)%Z, (0, 0, 0)%Z, (0, 0, 0)%Z)) as [[a b] c]. cbn [tri3_box tri3_closest].
    apply tri_closest_far. exact HPi.
Qed.
