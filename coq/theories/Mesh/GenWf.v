(* C02, generators: a generator's output is well-formed as soon as its index list is in range of its
   vertex count and a multiple of three long (Gen.Closed.wf_idx, proved for the primitives' index
   formulas by C18 for every admissible count) and all attribute arrays are allocated with that count. *)
From Coq Require Import List NArith ZArith Bool Arith Lia ZifyN ZifyNat ZifyBool.
From PF Require Import Mesh.Pure Mesh.PureLemmas Mesh.PureProofs.
From PF Require Import Gen.Closed Gen.Sphere Gen.Hemisphere Gen.Cylinder Gen.Cube
  Gen.SphereProofs Gen.CylinderProofs Gen.CubeProofs.
Import ListNotations.
Ltac Zify.zify_post_hook ::= Z.div_mod_to_equations.

(* the triangle mesh a generator returns: [nv] vertices, index list [idx], one array of length nv
   under every key of [ks] (values are irrelevant to well-formedness), material ranges [mats] *)
Definition gen_mesh (nv : N) (idx : list N) (ks : list Pure.key) (mats : list (nat * N)) (vals : Pure.key -> nat -> Pure.vec) : Pure.mesh :=
  Mesh Triangle (map N.to_nat idx) mats
       (map (fun k => ((k, map (vals k) (seq 0 (N.to_nat nv))) : Pure.attr)) ks).

Lemma gen_mesh_wf : forall nv idx ks mats vals,
  wf_idx nv idx -> ssortedb ks = true -> ks <> [] -> wf (gen_mesh nv idx ks mats vals).
Proof.
  intros nv idx ks mats vals [Hm Hr] Hs Hk. unfold gen_mesh.
  apply wf_build with (n := N.to_nat nv).
  - rewrite Forall_forall. intros a Ha. apply in_map_iff in Ha. destruct Ha as [k [<- _]].
    cbn [snd]. rewrite map_length, seq_length. reflexivity.
  - intros E. destruct ks; [congruence|discriminate].
  - rewrite Forall_forall. intros i Hi. apply in_map_iff in Hi. destruct Hi as [j [<- Hj]].
    rewrite Forall_forall in Hr. specialize (Hr j Hj). lia.
  - cbn [count_okb]. rewrite map_length. apply Nat.eqb_eq.
    assert (N.of_nat (length idx) mod 3 = 0)%N by exact Hm. lia.
  - rewrite map_map. cbn [fst]. rewrite map_id. exact Hs.
Qed.

(* UVSphere / UVSphereUnwelded / Hemisphere.UV / Cylinder.ToMesh / Cube: every accepted count *)
Theorem sphere_mesh_wf : forall r c ks mats vals, (2 <= r)%N -> (1 <= c)%N -> ssortedb ks = true -> ks <> [] ->
  wf (gen_mesh (sphere_nverts r c) (sphere_idx r c) ks mats vals).
Proof. intros. apply gen_mesh_wf; auto. apply sphere_wf; assumption. Qed.

Theorem sphereU_mesh_wf : forall r c ks mats vals, (2 <= r)%N -> (1 <= c)%N -> ssortedb ks = true -> ks <> [] ->
  wf (gen_mesh (sphereU_nverts r c) (sphereU_idx r c) ks mats vals).
Proof. intros. apply gen_mesh_wf; auto. apply sphereU_wf; assumption. Qed.

Theorem hemi_mesh_wf : forall r c ks mats vals, (2 <= r)%N -> (1 <= c)%N -> ssortedb ks = true -> ks <> [] ->
  wf (gen_mesh (hemi_nverts r c) (hemi_idx r c) ks mats vals).
Proof. intros. apply gen_mesh_wf; auto. apply hemi_wf; assumption. Qed.

Theorem cyl_mesh_wf : forall n ks mats vals, (1 <= n)%N -> ssortedb ks = true -> ks <> [] ->
  wf (gen_mesh (cyl_nverts n) (cyl_idx n) ks mats vals).
Proof. intros. apply gen_mesh_wf; auto. apply cyl_wf; assumption. Qed.

Theorem cube_mesh_wf : forall ks mats vals, ssortedb ks = true -> ks <> [] ->
  wf (gen_mesh cubeW_nverts cubeW_idx ks mats vals) /\ wf (gen_mesh cubeQ_nverts cubeQ_idx ks mats vals).
Proof. intros. split; apply gen_mesh_wf; auto; [apply cubeW_wf|apply cubeQ_wf]. Qed.
