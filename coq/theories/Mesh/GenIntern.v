(* C02, generators whose output is NOT an index formula of their parameters: marching cubes and the
   Bowyer-Watson triangulation.  What makes their outputs well-formed is the way the mesh is ASSEMBLED,
   whatever the geometry decides:

   - marching (modeling/marching/canvas.go): inside a block every triangle corner goes through
     LookupOrAdd - the vertex is looked up by its rounded position and appended to the vertex array when
     new, the returned position in the array is the index - so every index addresses an existing vertex
     and three are emitted per triangle; the block meshes are folded with Mesh.Append from the empty mesh,
     the result is welded (WeldByFloat3Attribute) and scaled (ScaleAttribute3D).
   - BowyerWatson (modeling/triangulation/bowyer_watson.go): the mesh has one vertex per input point and
     the clean-up keeps only the triangles none of whose corners is a super-triangle vertex (index >= n).

   Both are modelled here for ARBITRARY geometric decisions: any list of emitted corner positions per block
   and any rounding key; any triangle list the insertion loop may have produced. *)
From Coq Require Import List NArith ZArith Bool Arith Lia.
From PF Require Import Mesh.Pure Mesh.PureLemmas Mesh.PureProofs Mesh.GenCompose.
Import ListNotations.

Fixpoint find_idx {A} (p : A -> bool) (l : list A) : option nat :=
  match l with
  | [] => None
  | x :: r => if p x then Some 0 else option_map S (find_idx p r)
  end.

Lemma find_idx_lt : forall (A : Type) (p : A -> bool) l i, find_idx p l = Some i -> i < length l.
Proof.
  intros A p. induction l as [|x r IH]; intros i H; cbn [find_idx] in H; [discriminate|].
  destruct (p x); [inversion H; subst; cbn; lia|].
  destruct (find_idx p r) as [j|]; [|discriminate]. inversion H; subst. cbn. specialize (IH j eq_refl). lia.
Qed.

Section Intern.
  Context {K : Type} (keq : K -> K -> bool) (keyf : vec -> K).

  (* marching.LookupOrAdd: data.vertLookup is the map key -> position, data.verts the array *)
  Definition lookup_or_add (verts : list vec) (v : vec) : list vec * nat :=
    match find_idx (fun w => keq (keyf w) (keyf v)) verts with
    | Some i => (verts, i)
    | None => (verts ++ [v], length verts)
    end.

  Fixpoint intern (verts : list vec) (vs : list vec) : list vec * list nat :=
    match vs with
    | [] => (verts, [])
    | v :: r =>
        let (verts1, i) := lookup_or_add verts v in
        let (verts2, is) := intern verts1 r in
        (verts2, i :: is)
    end.

  (* one block: the corner positions of the emitted triangles, three per triangle *)
  Definition corners_of (tris : list (vec * vec * vec)) : list vec :=
    flat_map (fun t => let '(a, b, c) := t in [a; b; c]) tris.
  Definition block_mesh (a : N) (tris : list (vec * vec * vec)) : mesh :=
    let (verts, idx) := intern [] (corners_of tris) in
    Mesh Triangle idx [] [((3%N, a), verts)].

  Lemma lookup_or_add_spec : forall verts v verts1 i, lookup_or_add verts v = (verts1, i) ->
    length verts <= length verts1 /\ i < length verts1.
  Proof.
    intros verts v verts1 i H. unfold lookup_or_add in H.
    destruct (find_idx (fun w => keq (keyf w) (keyf v)) verts) as [j|] eqn:E; inversion H; subst.
    - split; [lia|]. eapply find_idx_lt, E.
    - rewrite app_length. cbn. lia.
  Qed.

  Lemma intern_spec : forall vs verts verts2 idx, intern verts vs = (verts2, idx) ->
    length verts <= length verts2 /\ Forall (fun i => i < length verts2) idx /\ length idx = length vs.
  Proof.
    induction vs as [|v r IH]; intros verts verts2 idx H; cbn [intern] in H.
    - inversion H; subst. split; [lia|]. split; [constructor|reflexivity].
    - destruct (lookup_or_add verts v) as [verts1 i] eqn:E1.
      destruct (intern verts1 r) as [v2 is] eqn:E2. inversion H; subst.
      destruct (lookup_or_add_spec _ _ _ _ E1) as [L1 I1].
      destruct (IH _ _ _ E2) as [L2 [F2 N2]].
      split; [lia|]. split; [constructor; [lia|exact F2]|cbn; lia].
  Qed.

  Lemma corners_of_length : forall tris, length (corners_of tris) = 3 * length tris.
  Proof.
    induction tris as [|[[a b] c] r IH]; [reflexivity|].
    unfold corners_of in *. cbn [flat_map]. rewrite app_length, IH. cbn [length]. lia.
  Qed.

  Theorem block_mesh_wf : forall a tris, wf (block_mesh a tris).
  Proof.
    intros a tris. unfold block_mesh. destruct (intern [] (corners_of tris)) as [verts idx] eqn:E.
    destruct (intern_spec _ _ _ _ E) as [_ [F N]].
    unfold wf, nverts. cbn [attrs indices topology snd fst map].
    split; [constructor; [reflexivity|constructor]|]. split; [exact F|]. split; [|reflexivity].
    cbn [count_okb]. rewrite N, corners_of_length. apply Nat.eqb_eq. rewrite Nat.mul_comm. apply Nat.mod_mul. lia.
  Qed.
End Intern.

(* MarchingCanvas.MarchOnAttribute: fold Append over the block meshes, weld, scale *)
Definition res_bind (r : res) (f : mesh -> res) : res :=
  match r with Ok [m] => f m | Ok _ => Crash | x => x end.

Definition marching_mesh {K} (keq : K -> K -> bool) (keyf : vec -> K) (wkey : vec -> vec) (a : N)
           (blocks : list (list (vec * vec * vec))) (origin amount : vec) : res :=
  res_bind (append_all (empty_mesh Triangle) (map (block_mesh keq keyf a) blocks))
           (fun m => if is_nil (indices m) then Ok [m]
                     else res_bind (weld vec_eqb wkey a m) (scale3 a origin amount)).

Theorem marching_mesh_wf : forall (K : Type) (keq : K -> K -> bool) keyf wkey a blocks origin amount,
  match marching_mesh keq keyf wkey a blocks origin amount with
  | Ok ms => Forall wf ms | Declared => True | Crash => False end.
Proof.
  intros K keq keyf wkey a blocks origin amount. unfold marching_mesh.
  destruct (append_all_ok (map (block_mesh keq keyf a) blocks) (empty_mesh Triangle)) as [m [E [W T]]].
  - apply empty_mesh_wf.
  - rewrite Forall_forall. intros x Hx. apply in_map_iff in Hx. destruct Hx as [b [Eb _]]. subst x.
    apply block_mesh_wf.
  - rewrite Forall_forall. intros x Hx. apply in_map_iff in Hx. destruct Hx as [b [Eb _]]. subst x.
    unfold block_mesh. destruct (intern keq keyf [] (corners_of b)). reflexivity.
  - rewrite E. cbn [res_bind]. destruct (is_nil (indices m)); [constructor; [exact W|constructor]|].
    pose proof (weld_wf wkey a m W) as HW. unfold weld in *.
    destruct (lookup (3%N, a) (attrs m)) as [d|]; [|exact I].
    destruct (topology m); try exact I.
    inversion HW as [|? ? Ww _]; subst. cbn [res_bind]. apply scale3_wf, Ww.
Qed.

(* BowyerWatson: one vertex per input point (Position and TexCoord), the triangles that survive the clean-up *)
Definition bw_mesh (pos tex : N) (n : nat) (tris : list nat) : mesh :=
  Mesh Triangle (concat (filter (forallb (fun i => i <? n)) (chunk3 tris))) []
       [((3%N, pos), repeat [] n); ((2%N, tex), repeat [] n)].

Theorem bw_mesh_wf : forall pos tex n tris, wf (bw_mesh pos tex n tris).
Proof.
  intros pos tex n tris. unfold bw_mesh, wf, nverts. cbn [attrs indices topology snd fst map].
  rewrite repeat_length.
  split; [constructor; [apply repeat_length|constructor; [apply repeat_length|constructor]]|].
  split.
  - rewrite Forall_forall. intros i Hi. apply in_concat in Hi. destruct Hi as [t [Ht Hit]].
    apply filter_In in Ht. destruct Ht as [_ Ht]. rewrite forallb_forall in Ht. apply Nat.ltb_lt, Ht, Hit.
  - split; [|reflexivity]. cbn [count_okb]. apply Nat.eqb_eq. apply chunk3_filter_mod.
Qed.
