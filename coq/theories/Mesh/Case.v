(* Shared by Check/C02.v and Check/C03.v: the observation format written by harness/meshgen and the
   boolean evaluators.  corr_ok compares the implementation's result with the model (Mesh/Pure.v);
   prop_c02 / prop_c03 judge the implementation's result by the property itself (well-formedness,
   resp. the per-operation contract stated on rows/corners) without running the model's step. *)
From Coq Require Import List NArith ZArith Bool Arith.
From Coq Require Import QArith Qabs Qcanon.
From PF Require Export Mesh.Pure Mesh.GenIdx Mesh.Smooth Mesh.Normals.
Import ListNotations.
Close Scope Qc_scope.
Close Scope Q_scope.

(* single-attribute transforms whose values are float arithmetic (checked by the harness within a
   tolerance); Coq checks the frame: everything except the target attribute is untouched *)
Inductive fop :=
| FNormalize3 (a : N)
| FNormalize2 (a : N)
| FSmoothNormals (pos nrm : N)
| FFlatNormals (pos nrm : N)
| FSmoothImplicit (pos nrm : N)
| FLaplacian (a : N)
| FScaleAlongNormal (a nrm : N).

Inductive law :=
| LEq                              (* the two meshes are equal: flip-twice, unweld-twice, remove-unreferenced-twice *)
| LWeldUnweld (a : N) (dv : Z).    (* weld m and weld (unweld m): same key-rounded corner positions *)

(* generators with an index model (Mesh/GenIdx.v) *)
Inductive gdesc := GFan (n : nat) | GTube (sides points : nat) | GQuad | GRibbon (points : nat)
                 | GShape (sides points : nat) (closed : bool)
                 (* assembled generators (Mesh/GenIntern.v): no index formula, structural facts only *)
                 | GBw (n : nat)          (* BowyerWatson over n input points: one vertex per point *)
                 | GMarch.                (* marching canvas: interned vertices, welded - every vertex is referenced *)
Definition gen_idx (g : gdesc) (fl : list bool) : list nat :=
  match g with
  | GFan n => fan_idx n | GTube s p => tube_idx (flip_of fl s) s p
  | GQuad => quad_idx | GRibbon p => ribbon_idx p | GShape s p c => shape_idx s p c
  | GBw _ | GMarch => []
  end.
Definition gen_nverts (g : gdesc) : nat :=
  match g with
  | GFan n => fan_nverts n | GTube s p => tube_nverts s p
  | GQuad => quad_nverts | GRibbon p => ribbon_nverts p | GShape s p _ => shape_nverts s p
  | GBw n => n | GMarch => 0
  end.

Inductive case :=
| COp (o : op) (ins : list mesh) (out : res)
| CFrame (f : fop) (m : mesh) (out : res) (klen : option nat)   (* out: the result with the target attribute removed; klen: its length *)
| CGen (out : res)                                              (* generator output, attribute values blanked *)
| CGenI (g : gdesc) (fl : list bool) (out : res)                (* same, for a generator with an index model; fl: winding flips *)
| CLaw (l : law) (ms : list mesh)
(* LaplacianSmooth: the implementation's output values as exact dyadic rationals (mantissa, exponent),
   compared with the rational model Mesh/Smooth.v laplacian_mesh (factor given as a dyadic as well) *)
| CLap (t : topo) (idx : list nat) (d : list vec) (f : Z * Z) (k : nat) (out : list (list (Z * Z)))
(* a retained result re-observed after LATER operations of a branching history on the real Go values:
   [was] = what was read when the operation returned it, [now] = what is read from the same value after
   the later operations (C02: still well-formed; C03: the same content) *)
| CKeep (was now : mesh)
(* a case judged by the harness alone (meshes too large for Coq literals: the disjoint-union law of the
   tile stream); the number is the vertex count, for the record *)
| CNote (n : N)
(* unit-vector value maps (normalise, smooth / implicit-weld / flat normals): the implementation's output as
   exact dyadic rationals, compared with (numerator vector) / sqrt(squared length) computed in Z from the
   integer mesh (Mesh/Normals.v units_ok: |o - n/sqrt(len2)| <= 2e-9, decided in Q by squaring) *)
| CUnit (k : nkind) (idx : list nat) (d : list vec) (out : list (list (Z * Z))).

(* predicates used by the attribute filters of the harness *)
Inductive pdesc := PGe (c : nat) (t : Z) | PLe (c : nat) (t : Z) | PEven (c : nat) | PAll | PNone.
Definition pred_of (p : pdesc) (v : vec) : bool :=
  match p with
  | PGe c t => (t <=? nth c v 0)%Z
  | PLe c t => (nth c v 0 <=? t)%Z
  | PEven c => Z.even (nth c v 0%Z)
  | PAll => true
  | PNone => false
  end.

(* blanked attribute (generator cases): n values, content irrelevant for well-formedness *)
Definition blank (n : nat) : list vec := repeat [] n.

(* ------------------------------------------------------------------ frame operations *)
Definition fop_target (f : fop) : key :=
  match f with
  | FNormalize3 a => (3%N, a) | FNormalize2 a => (2%N, a)
  | FSmoothNormals _ n | FFlatNormals _ n | FSmoothImplicit _ n => (3%N, n)
  | FLaplacian a => (3%N, a)
  | FScaleAlongNormal a _ => (3%N, a)
  end.
Definition has (k : key) (m : mesh) : bool := match lookup k (attrs m) with Some _ => true | None => false end.
Definition is_tri (m : mesh) : bool := topo_eqb (topology m) Triangle.
Definition fop_accepts (f : fop) (m : mesh) : bool :=
  match f with
  | FNormalize3 a => has (3%N, a) m
  | FNormalize2 a => has (2%N, a) m
  | FSmoothNormals p _ | FFlatNormals p _ | FSmoothImplicit p _ => is_tri m && has (3%N, p) m
  | FLaplacian a => has (3%N, a) m && match topology m with Point | Quad => false | _ => true end
  | FScaleAlongNormal a n => has (3%N, a) m && has (3%N, n) m
  end.
Definition without (k : key) (m : mesh) : mesh :=
  Mesh (topology m) (indices m) (materials m) (remove_key k (attrs m)).
Definition opt_nat_eqb (a b : option nat) : bool :=
  match a, b with Some x, Some y => Nat.eqb x y | None, None => true | _, _ => false end.
Definition frame_ok (f : fop) (m : mesh) (out : res) (klen : option nat) : bool :=
  if fop_accepts f m
  then res_eqb out (Ok [without (fop_target f) m])
       && opt_nat_eqb klen (if nverts m =? 0 then None else Some (nverts m))
  else res_eqb out Declared.

(* well-formedness of a mesh one of whose attributes was taken out (length klen) *)
Definition wfb_with (klen : option nat) (m : mesh) : bool :=
  match klen with
  | None => wfb m
  | Some n =>
      forallb (fun a => length (snd a) =? n) (attrs m) && forallb (fun i => i <? n) (indices m)
      && count_okb (topology m) (length (indices m)) && ssortedb (keys m)
  end.

(* ------------------------------------------------------------------ Laplacian values over Q *)
Definition dy (p : Z * Z) : Q :=
  let (m, e) := p in
  if (0 <=? e)%Z then inject_Z (m * 2 ^ e) else Qmake m (Z.to_pos (2 ^ (- e))).
(* relative 1e-9 *)
Definition close_q (a b : Q) : bool :=
  Qle_bool (Qabs (Qminus a b)) (Qmult (Qmake 1 1000000000) (Qplus (Qmake 1 1) (Qabs b))).
Definition lap_ok (t : topo) (idx : list nat) (d : list vec) (f : Z * Z) (k : nat) (out : list (list (Z * Z))) : bool :=
  (length out =? length d)
  && forallb (fun c =>
       let model := laplacian_mesh t idx (Q2Qc (dy f)) k (map (fun v => Q2Qc (inject_Z (nth c v 0%Z))) d) in
       forallb (fun p => close_q (dy (fst p)) (this (snd p)))
               (combine (map (fun r => nth c r (0%Z, 0%Z)) out) model)) [0; 1; 2].

(* ------------------------------------------------------------------ correspondence *)
Definition inputs_ok (o : op) (ins : list mesh) : bool := forallb wfb ins && op_pre o ins.

Definition corr_ok (c : case) : bool :=
  match c with
  | COp o ins out => inputs_ok o ins && res_eqb (step o ins) out
  | CFrame f m out klen => wfb m && frame_ok f m out klen
  | CGen _ => true
  | CGenI g fl out =>
      match out with
      | Ok [r] =>
          match g with
          | GBw n => topo_eqb (topology r) Triangle && (nverts r =? n) && (length (attrs r) =? 2)
          | GMarch => topo_eqb (topology r) Triangle
                      && forallb (fun v => existsb (Nat.eqb v) (indices r)) (seq 0 (nverts r))
          | _ => topo_eqb (topology r) Triangle && list_eqb Nat.eqb (indices r) (gen_idx g fl)
                 && (nverts r =? gen_nverts g)
          end
      | _ => false
      end
  | CLaw _ _ => true
  | CLap t idx d f k out => lap_ok t idx d f k out
  | CKeep _ _ | CNote _ => true
  | CUnit k idx d out => units_ok k idx d out
  end.

(* ------------------------------------------------------------------ C02: the direct oracle is wfb *)
Definition res_wfb (r : res) : bool :=
  match r with Ok ms => forallb wfb ms | Declared => true | Crash => false end.

Definition prop_c02 (c : case) : bool :=
  match c with
  | COp o ins out => negb (inputs_ok o ins) || res_wfb out
  | CFrame f m out klen =>
      negb (wfb m) || match out with Ok ms => forallb (wfb_with klen) ms | Declared => true | Crash => false end
  | CGen out | CGenI _ _ out =>
      match out with Ok ms => forallb wfb ms | _ => true end   (* a rejected parameterisation is outside the quantifier *)
  | CLaw _ ms => forallb wfb ms
  | CLap _ _ _ _ _ _ => true
  | CKeep was now => negb (wfb was) || wfb now
  | CNote _ => true
  | CUnit _ _ _ _ => true
  end.

(* ------------------------------------------------------------------ C03: per-operation contracts *)
Definition rows_eqb (a b : list (list vec)) : bool := list_eqb (list_eqb vec_eqb) a b.
Definition idx_eqb : list nat -> list nat -> bool := list_eqb Nat.eqb.
Definition mats_eqb : list (nat * N) -> list (nat * N) -> bool := list_eqb mat_eqb.
Definition attrs_eqb : list attr -> list attr -> bool := list_eqb attr_eqb.
Definition keys_eqb : list key -> list key -> bool := list_eqb key_eqb.
Definition rows (m : mesh) : list (list vec) := map (row m) (seq 0 (nverts m)).
Definition all_referenced (m : mesh) : bool :=
  forallb (fun v => existsb (Nat.eqb v) (indices m)) (seq 0 (nverts m)).
(* topology and materials are never touched by the layout operations that keep the primitive list *)
Definition same_shell (m r : mesh) : bool :=
  topo_eqb (topology m) (topology r) && mats_eqb (materials m) (materials r).
(* row of vertex i over a given key list, zero-filled where the mesh lacks the key (Append) *)
Definition rowk (ks : list key) (m : mesh) (i : nat) : list vec :=
  map (fun k => match lookup k (attrs m) with Some d => nth i d [] | None => repeat 0%Z (N.to_nat (fst k)) end) ks.
Definition mem_key (k : key) (ks : list key) : bool := existsb (key_eqb k) ks.
Fixpoint nodupb_vec (l : list vec) : bool :=
  match l with [] => true | x :: r => negb (existsb (vec_eqb x) r) && nodupb_vec r end.
Fixpoint nodupb_N (l : list N) : bool :=
  match l with [] => true | x :: r => negb (existsb (N.eqb x) r) && nodupb_N r end.
Definition data_or_nil (k : key) (m : mesh) : list vec :=
  match lookup k (attrs m) with Some d => d | None => [] end.

(* the single-attribute law: exactly attribute k changes, by the map f on its array *)
Definition only_attr_changesb (k : key) (f : list vec -> list vec) (m : mesh) (out : res) : bool :=
  match lookup k (attrs m), out with
  | Some d, Ok [r] =>
      same_shell m r && idx_eqb (indices m) (indices r)
      && attrs_eqb (remove_key k (attrs m)) (remove_key k (attrs r))
      && match f d, lookup k (attrs r) with
         | [], None => true
         | (_ :: _) as d', Some dr => list_eqb vec_eqb d' dr
         | _, _ => false
         end
  | None, Declared => true
  | _, _ => false
  end.

(* the survivors of a selection of whole primitives: exactly the selected corners with their content, no
   unreferenced vertex, shell untouched, keys kept unless nothing survives (filters, slice) *)
Definition kept_okb (m : mesh) (kept : list nat) (r : mesh) : bool :=
  same_shell m r && all_referenced r && rows_eqb (corners r) (map (row m) kept)
  && (is_nil kept || keys_eqb (keys m) (keys r)).

Definition contract (o : op) (ins : list mesh) (out : res) : bool :=
  match o, ins with
  | OUnweld, [m] =>
      match out with
      | Ok [r] => same_shell m r && keys_eqb (keys m) (keys r)
                  && idx_eqb (indices r) (seq 0 (length (indices m)))
                  && rows_eqb (corners r) (corners m)
                  && (is_nil (attrs m) || (nverts r =? length (indices m)))
      | _ => false
      end
  | ORemoveUnref, [m] =>
      match out with
      | Ok [r] => same_shell m r && all_referenced r
                  && rows_eqb (rows r) (compact (used_mask (nverts m) (indices m)) (rows m))
                  && (if is_nil (indices m) then is_nil (attrs r) && is_nil (indices r)
                      else keys_eqb (keys m) (keys r) && rows_eqb (corners r) (corners m))
      | _ => false
      end
  | ORemoveNull a keep, [m] =>
      match topology m, lookup (3%N, a) (attrs m) with
      | Triangle, Some d =>
          let kept := concat (filter (fun t => keep (gather t d)) (chunk3 (indices m))) in
          match out with
          | Ok [r] => same_shell m r && rows_eqb (corners r) (map (row m) kept)
                      && (if length kept =? length (indices m) then mesh_eqb r m else all_referenced r)
          | _ => false
          end
      | _, _ => res_eqb out Declared
      end
  | OFlip, [m] =>
      if is_tri m then
        match out with
        | Ok [r] => same_shell m r && attrs_eqb (attrs m) (attrs r)
                    && idx_eqb (indices r) (flip3 (indices m))
                    && rows_eqb (corners r) (flip3 (corners m))
        | _ => false
        end
      else res_eqb out Declared
  | OToPoints, [m] =>
      match out with
      | Ok [r] => topo_eqb (topology r) Point && mats_eqb (materials m) (materials r)
                  && attrs_eqb (attrs m) (attrs r)
                  && idx_eqb (indices r) (if topo_eqb (topology m) Point then indices m else seq 0 (nverts m))
      | _ => false
      end
  | OFilter k p, [m] =>
      match lookup k (attrs m) with
      | Some d =>
          let kept := concat (filter (forallb (fun i => p (nth i d []))) (units (topology m) (indices m))) in
          match out with
          | Ok [r] => same_shell m r && all_referenced r && rows_eqb (corners r) (map (row m) kept)
                      && (is_nil kept || keys_eqb (keys m) (keys r))
          | _ => false
          end
      | None => res_eqb out Declared
      end
  | OCrop a lo hi, [m] =>
      match topology m, lookup (3%N, a) (attrs m) with
      | Point, Some d =>
          let kept := filter (fun i => inside lo hi (nth i d [])) (indices m) in
          match out with
          | Ok [r] => same_shell m r && idx_eqb (indices r) (seq 0 (length kept))
                      && rows_eqb (corners r) (map (row m) kept)
                      && (if is_nil kept then is_nil (attrs r) else keys_eqb (keys m) (keys r) && (nverts r =? length kept))
          | _ => false
          end
      | _, _ => res_eqb out Declared
      end
  | OAppend, [a; b] =>
      if topo_eqb (topology a) (topology b) then
        match out with
        | Ok [r] =>
            let ks := keys r in
            topo_eqb (topology a) (topology r) && mats_eqb (materials a ++ materials b) (materials r)
            && forallb (fun k => mem_key k ks) (keys a ++ keys b)
            && forallb (fun k => mem_key k (keys a ++ keys b)) ks
            && idx_eqb (indices r) (indices a ++ map (fun i => i + nverts a) (indices b))
            && (is_nil ks || rows_eqb (rows r) (map (rowk ks a) (seq 0 (nverts a)) ++ map (rowk ks b) (seq 0 (nverts b))))
            && rows_eqb (corners r) (map (rowk ks a) (indices a) ++ map (rowk ks b) (indices b))
        | _ => false
        end
      else res_eqb out Declared
  | OSplit, [m] =>
      match materials m with
      | [] | [_] => match out with Ok [r] => mesh_eqb r m | _ => false end
      | (_, mat0) :: _ =>
          if is_tri m then
            let ts := chunk3 (indices m) in
            let tm := firstn (length ts) (tri_mats (materials m)) in
            if length tm <? length ts then negb (match out with Ok _ => true | _ => false end)
            else match out with
                 | Ok parts =>
                     let pm := map (fun p => match materials p with [(_, x)] => x | _ => 0%N end) parts in
                     nodupb_N pm
                     && forallb (fun x => existsb (N.eqb x) (mat0 :: tm)) pm
                     && forallb (fun x => existsb (N.eqb x) pm) tm
                     && forallb (fun p =>
                          match materials p with
                          | [(c, x)] =>
                              is_tri p && all_referenced p && (c =? length (indices p) / 3)
                              && rows_eqb (corners p) (map (row m) (concat (tris_of_mat ts tm x)))
                              && (is_nil (indices p) || keys_eqb (keys m) (keys p))
                          | _ => false
                          end) parts
                 | _ => false
                 end
          else res_eqb out Declared
      end
  | OWeld a kf, [m] =>
      match lookup (3%N, a) (attrs m), topology m with
      | Some d, Triangle =>
          let surv := concat (filter (distinct3 vec_eqb kf d) (chunk3 (indices m))) in
          match out with
          | Ok [r] =>
              is_tri r && is_nil (materials r) && keys_eqb (keys m) (keys r) && all_referenced r
              && rows_eqb (corners r) (map (fun i => row m (rep vec_eqb kf d i)) surv)
              && nodupb_vec (map kf (data_or_nil (3%N, a) r))
              && forallb (fun i => vec_eqb (kf (nth (rep vec_eqb kf d i) d [])) (kf (nth i d []))
                                   && (rep vec_eqb kf d i <=? i)) surv
          | _ => false
          end
      | _, _ => res_eqb out Declared
      end
  | OSetIndices idx, [m] =>
      match out with Ok [r] => same_shell m r && attrs_eqb (attrs m) (attrs r) && idx_eqb idx (indices r) | _ => false end
  | OSetMaterials ms, [m] =>
      match out with
      | Ok [r] => topo_eqb (topology m) (topology r) && attrs_eqb (attrs m) (attrs r)
                  && idx_eqb (indices m) (indices r) && mats_eqb ms (materials r)
      | _ => false
      end
  | OSetAttr k d, [m] =>
      match out with
      | Ok [r] => same_shell m r && idx_eqb (indices m) (indices r)
                  && attrs_eqb (remove_key k (attrs m)) (remove_key k (attrs r))
                  && match d, lookup k (attrs r) with
                     | [], None => true
                     | _ :: _, Some dr => list_eqb vec_eqb d dr
                     | _, _ => false
                     end
      | _ => false
      end
  | ORepeat pos ts, [m] =>
      match ts with
      | [] => match out with Ok [r] => mesh_eqb r (empty_mesh (topology m)) | _ => false end
      | _ =>
          match lookup (3%N, pos) (attrs m) with
          | None => res_eqb out Declared
          | Some d =>
              match out with
              | Ok [r] =>
                  let n := nverts m in
                  if n =? 0 then is_nil (indices r)
                  else
                    topo_eqb (topology m) (topology r)
                    && mats_eqb (concat (map (fun _ => materials m) ts)) (materials r)
                    && keys_eqb (keys m) (keys r)
                    && idx_eqb (indices r)
                         (concat (map (fun j => map (fun i => i + j * n) (indices m)) (seq 0 (length ts))))
                    && forallb (fun x =>
                         list_eqb vec_eqb (data_or_nil (fst x) r)
                           (if key_eqb (fst x) (3%N, pos)
                            then concat (map (fun t => map (trs_v t) (snd x)) ts)
                            else concat (map (fun _ => snd x) ts))) (attrs m)
              | _ => false
              end
          end
      end
  | OTranslate a v, [m] => only_attr_changesb (3%N, a) (map (translate_v v)) m out
  | OScale3 a o' s, [m] => only_attr_changesb (3%N, a) (map (scale_v o' s)) m out
  | OScale2 a o' s, [m] => only_attr_changesb (2%N, a) (map (scale_v o' s)) m out
  | ORotate a q, [m] => only_attr_changesb (3%N, a) (map (rotate_v q)) m out
  | OApplyTRS pos t, [m] => only_attr_changesb (3%N, pos) (map (trs_v t)) m out
  | OCenter a, [m] => only_attr_changesb (3%N, a) center_data m out
  | OSlice a clip, [m] =>
      match topology m, lookup (3%N, a) (attrs m) with
      | Triangle, Some d =>
          match out with
          | Ok [ra; rb] =>
              kept_okb m (concat (filter (forallb (fun i => clip (nth i d []))) (chunk3 (indices m)))) ra
              && kept_okb m (concat (filter (forallb (fun i => negb (clip (nth i d [])))) (chunk3 (indices m)))) rb
          | _ => false
          end
      | _, _ => res_eqb out Declared
      end
  | OScaleAlongNormal a nrm amt, [m] =>
      match lookup (3%N, nrm) (attrs m) with
      | Some dn => only_attr_changesb (3%N, a) (along_normal amt dn) m out
      | None => res_eqb out Declared
      end
  | _, _ => false
  end.

Definition law_ok (l : law) (ms : list mesh) : bool :=
  match l, ms with
  | LEq, [x; y] => mesh_eqb x y
  | LWeldUnweld a dv, [x; y] =>
      let kc (m : mesh) := map (round_key dv) (gather (indices m) (data_or_nil (3%N, a) m)) in
      list_eqb vec_eqb (kc x) (kc y)
  | _, _ => false
  end.

Definition prop_c03 (c : case) : bool :=
  match c with
  | COp o ins out => negb (inputs_ok o ins) || contract o ins out
  | CFrame f m out klen => negb (wfb m) || frame_ok f m out klen
  | CGen _ | CGenI _ _ _ => true
  | CLaw l ms => law_ok l ms
  | CLap t idx d f k out => lap_ok t idx d f k out
  | CKeep was now => mesh_eqb was now
  | CNote _ => true
  | CUnit k idx d out => units_ok k idx d out
  end.
