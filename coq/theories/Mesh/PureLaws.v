(* C03: the mesh operations of Mesh/Pure.v do what they say and nothing else, stated through
   per-corner content (row / corners / prims).  Prop-level laws of the same shape as the boolean
   oracle [contract] of Mesh/Case.v; every law is for an arbitrary well-formed mesh.

   Index (headline theorems):
     1  unweld_corners, unweld_prims, unweld_nverts, unweld_idem
     2  flip_spec, flip_declared, flip_flip, flip_prims
     3  to_points_spec, to_points_corners
     4  modify_attr_frame, modify_attr_frame_nil, modify_attr_declared, only_attr_changes,
        only_attr_changes_rows, translate/scale3/scale2/rotate/apply_trs_only_attr, center_only_attr
     5  append_spec, append_rows, append_corners, append_prims, append_all_rows, append_nverts
     6  remove_unref_corners, remove_unref_prims, remove_unref_all_referenced, remove_unref_order,
        remove_unref_keys, remove_unref_shell, remove_unref_empty, remove_unref_fixed, remove_unref_idem
        (and the remove_unref_with_* versions shared with weld)
     7  filter_spec, remove_null_spec, crop_spec (+ *_declared)
     8  weld_spec, weld_spec_vec, weld_declared, weld_unweld
     9  split_partition, split_single
     10 repeat_spec, repeat_nil, repeat_declared
     11 contract_sound (all 20 operations), prop_c03_model, law_eq_model, law_weld_unweld_model *)
From Coq Require Import List NArith ZArith Bool Arith Lia Permutation.
From PF Require Import Mesh.Pure Mesh.PureLemmas Mesh.PureProofs Mesh.Case.
Import ListNotations.

(* ================================================================ generic list facts *)
Lemma map_nth_seq_id : forall (A : Type) (l : list A) d,
  map (fun j => nth j l d) (seq 0 (length l)) = l.
Proof.
  intros A l d. induction l as [|a l IH]; [reflexivity|].
  cbn [length seq map nth]. f_equal. rewrite <- seq_shift, map_map. exact IH.
Qed.

Lemma filter_all : forall (A : Type) (f : A -> bool) (l : list A),
  (forall x, In x l -> f x = true) -> filter f l = l.
Proof.
  intros A f l. induction l as [|a l IH]; intros H; [reflexivity|].
  cbn [filter]. rewrite (H a (or_introl eq_refl)). f_equal. apply IH. intros x Hx. apply H. right; assumption.
Qed.

Lemma filter_length_le' : forall (A : Type) (f : A -> bool) (l : list A), length (filter f l) <= length l.
Proof. intros A f l. induction l as [|a l IH]; [simpl; lia|]. cbn [filter]. destruct (f a); cbn [length]; lia. Qed.

Lemma filter_length_eq : forall (A : Type) (f : A -> bool) (l : list A),
  length (filter f l) = length l -> filter f l = l.
Proof.
  intros A f l. induction l as [|a l IH]; intros H; [reflexivity|].
  cbn [filter] in *. destruct (f a).
  - cbn [length] in H. f_equal. apply IH. lia.
  - pose proof (filter_length_le' A f l). cbn [length] in H. lia.
Qed.

Lemma nth_repeat_lt : forall (A : Type) (x d : A) n i, i < n -> nth i (repeat x n) d = x.
Proof.
  intros A x d. induction n as [|n IH]; intros i H; [lia|].
  destruct i; cbn [repeat nth]; [reflexivity|]. apply IH. lia.
Qed.

Lemma compact_map : forall (A B : Type) (f : A -> B) u (l : list A),
  compact u (map f l) = map f (compact u l).
Proof.
  intros A B f. induction u as [|b u IH]; intros [|x l]; try reflexivity.
  cbn [map compact]. destruct b; cbn [map]; rewrite IH; reflexivity.
Qed.

Lemma flip3_map : forall (A B : Type) (f : A -> B) (l : list A), flip3 (map f l) = map f (flip3 l).
Proof.
  intros A B f. induction l using list_ind3; try reflexivity.
  cbn [map flip3]. rewrite IHl. reflexivity.
Qed.

Lemma chunk3_map : forall (A B : Type) (f : A -> B) (l : list A), chunk3 (map f l) = map (map f) (chunk3 l).
Proof.
  intros A B f. induction l using list_ind3; try reflexivity.
  cbn [map chunk3]. rewrite IHl. reflexivity.
Qed.

Lemma chunk4_map : forall (A B : Type) (f : A -> B) (l : list A), chunk4 (map f l) = map (map f) (chunk4 l).
Proof.
  intros A B f. induction l using list_ind4; try reflexivity.
  cbn [map chunk4]. rewrite IHl. reflexivity.
Qed.

Lemma units_map : forall (A B : Type) (f : A -> B) t (l : list A),
  units t (map f l) = map (map f) (units t l).
Proof.
  intros A B f t l. destruct t; cbn [units]; try apply chunk3_map; try apply chunk4_map;
    rewrite !map_map; reflexivity.
Qed.

Lemma filter_idem : forall (A : Type) (f : A -> bool) (l : list A), filter f (filter f l) = filter f l.
Proof.
  intros A f l. apply filter_all. intros x Hx. apply filter_In in Hx. apply Hx.
Qed.

Lemma seq_add_map : forall s n, seq s n = map (fun i => i + s) (seq 0 n).
Proof.
  intros s n. revert s. induction n as [|n IH]; intros s; [reflexivity|].
  cbn [seq map]. f_equal. rewrite (IH (S s)), (IH 1), map_map. apply map_ext. intros; lia.
Qed.

Lemma compact_none : forall (A : Type) (u : list bool) (d : list A),
  Forall (fun b => b = false) u -> compact u d = [].
Proof.
  intros A u d F. revert d. induction F as [|b u Hb F IH]; intros d; [reflexivity|].
  subst b. destruct d; [reflexivity|]. cbn [compact]. apply IH.
Qed.

(* the size of the units an index list is cut into *)
Definition usize (t : topo) : nat := match t with Triangle => 3 | Quad => 4 | _ => 1 end.

Lemma units_lengths : forall (A : Type) t (l : list A), Forall (fun c => length c = usize t) (units t l).
Proof.
  intros A t l. destruct t; cbn [units usize]; try apply chunk3_lengths; try apply chunk4_lengths;
    rewrite Forall_forall; intros c Hc; apply in_map_iff in Hc; destruct Hc as [x [E _]]; subst c; reflexivity.
Qed.

Lemma units_concat : forall (A : Type) t (ll : list (list A)),
  Forall (fun c => length c = usize t) ll -> units t (concat ll) = ll.
Proof.
  intros A t ll F. induction F as [|c ll Hc F IH]; [destruct t; reflexivity|].
  cbn [concat]. destruct t; cbn [usize units] in *.
  - destruct c as [|x [|y [|z [|w c]]]]; try discriminate. cbn [app chunk3]. rewrite IH. reflexivity.
  - destruct c as [|x [|y c]]; try discriminate. cbn [app map]. rewrite IH. reflexivity.
  - destruct c as [|x [|y [|z [|w [|v c]]]]]; try discriminate. cbn [app chunk4]. rewrite IH. reflexivity.
  - destruct c as [|x [|y c]]; try discriminate. cbn [app map]. rewrite IH. reflexivity.
  - destruct c as [|x [|y c]]; try discriminate. cbn [app map]. rewrite IH. reflexivity.
  - destruct c as [|x [|y c]]; try discriminate. cbn [app map]. rewrite IH. reflexivity.
Qed.

Lemma units_concat_filter : forall (A : Type) t g (l : list A),
  units t (concat (filter g (units t l))) = filter g (units t l).
Proof. intros A t g l. apply units_concat, Forall_filter, units_lengths. Qed.

Lemma chunk3_app : forall (A : Type) (x y : list A), length x mod 3 = 0 -> chunk3 (x ++ y) = chunk3 x ++ chunk3 y.
Proof.
  intros A x y. induction x using list_ind3; intros H; try reflexivity; try (simpl in H; discriminate).
  cbn [length] in H. rewrite mod3_step in H. cbn [app chunk3]. rewrite IHx by assumption. reflexivity.
Qed.

Lemma chunk4_app : forall (A : Type) (x y : list A), length x mod 4 = 0 -> chunk4 (x ++ y) = chunk4 x ++ chunk4 y.
Proof.
  intros A x y. induction x using list_ind4; intros H; try reflexivity; try (simpl in H; discriminate).
  cbn [length] in H. rewrite mod4_step in H. cbn [app chunk4]. rewrite IHx by assumption. reflexivity.
Qed.

Lemma units_app : forall (A : Type) t (x y : list A), count_okb t (length x) = true ->
  units t (x ++ y) = units t x ++ units t y.
Proof.
  intros A t x y H. destruct t; cbn [units count_okb] in *; try apply map_app.
  - apply chunk3_app, Nat.eqb_eq, H.
  - apply chunk4_app, Nat.eqb_eq, H.
Qed.

Lemma units_concat_id : forall (A : Type) t (l : list A), count_okb t (length l) = true ->
  concat (units t l) = l.
Proof.
  intros A t l H. destruct t; cbn [units count_okb] in *;
    try (apply concat_chunk3, Nat.eqb_eq, H); try (apply concat_chunk4, Nat.eqb_eq, H);
    induction l as [|a l IH]; try reflexivity; cbn [map concat app]; rewrite IH by reflexivity; reflexivity.
Qed.

(* ================================================================ row / corners basics *)
Lemma row_attrs : forall m m' i, attrs m = attrs m' -> row m i = row m' i.
Proof. intros m m' i E. unfold row. rewrite E. reflexivity. Qed.

Lemma corners_set_indices : forall m idx, corners (set_indices m idx) = map (row m) idx.
Proof. reflexivity. Qed.

(* gathering every attribute through an index list and then reading row j gives the row of idx[j] *)
Lemma gather_rows : forall (l : list attr) idx,
  map (fun j => map (fun a : attr => nth j (snd a) [])
                    (map (fun a : attr => (fst a, gather idx (snd a))) l)) (seq 0 (length idx))
  = map (fun i => map (fun a : attr => nth i (snd a) []) l) idx.
Proof.
  intros l idx.
  transitivity (map (fun i => map (fun a : attr => nth i (snd a) []) l)
                     (map (fun j => nth j idx 0) (seq 0 (length idx))));
    [|rewrite map_nth_seq_id; reflexivity].
  rewrite map_map.
  apply map_ext_in. intros j Hj. apply in_seq in Hj. rewrite map_map. apply map_ext. intros a. cbn [snd].
  unfold gather. apply (nth_map_lt _ _ (fun i => nth i (snd a) [])). lia.
Qed.

(* ================================================================ 1. Unweld *)
Theorem unweld_corners : forall m,
  corners (unweld m) = corners m
  /\ indices (unweld m) = seq 0 (length (indices m))
  /\ topology (unweld m) = topology m
  /\ materials (unweld m) = materials m
  /\ keys (unweld m) = keys m.
Proof.
  intros m. repeat split.
  - unfold corners, unweld, row. cbn [indices attrs]. apply gather_rows.
  - unfold keys, unweld. cbn [attrs]. apply (map_snd_keys (fun a => gather (indices m) (snd a))).
Qed.

Theorem unweld_prims : forall m, prims (unweld m) = prims m.
Proof. intros m. unfold prims. destruct (unweld_corners m) as [E _]. rewrite E. reflexivity. Qed.

(* every vertex of the unwelded mesh is one corner *)
Theorem unweld_nverts : forall m, attrs m <> [] -> nverts (unweld m) = length (indices m).
Proof.
  intros m H. unfold nverts, unweld. cbn [attrs]. destruct (attrs m) as [|[k d] r]; [contradiction|].
  cbn [map fst snd]. unfold gather. apply map_length.
Qed.

(* ================================================================ 2. FlipTriangleWinding *)
Theorem flip_spec : forall m, topology m = Triangle ->
  exists r, flip m = Ok [r]
    /\ corners r = flip3 (corners m)
    /\ indices r = flip3 (indices m)
    /\ attrs r = attrs m /\ materials r = materials m /\ topology r = topology m.
Proof.
  intros m T. unfold flip. rewrite T. eexists. split; [reflexivity|].
  repeat split; try assumption.
  rewrite corners_set_indices. unfold corners. symmetry. apply flip3_map.
Qed.

Theorem flip_declared : forall m, topology m <> Triangle -> flip m = Declared.
Proof. intros m T. unfold flip. destruct (topology m); try reflexivity. contradiction. Qed.

Theorem flip_flip : forall m, wf m -> topology m = Triangle ->
  exists r, flip m = Ok [r] /\ flip r = Ok [m].
Proof.
  intros m [_ [_ [WC _]]] T. rewrite T in WC. cbn [count_okb] in WC. apply Nat.eqb_eq in WC.
  unfold flip at 1. rewrite T. eexists. split; [reflexivity|].
  unfold flip, set_indices. cbn [topology indices materials attrs]. rewrite T.
  rewrite flip3_invol by assumption. rewrite <- T. rewrite wf_mesh_eta. reflexivity.
Qed.

(* each triangle keeps its three corners, the first two exchanged *)
Theorem flip_prims : forall m, topology m = Triangle ->
  exists r, flip m = Ok [r]
    /\ prims r = map (fun t => match t with [a; b; c] => [b; a; c] | _ => t end) (prims m).
Proof.
  intros m T. destruct (flip_spec m T) as [r [E [C [_ [_ [_ Tr]]]]]]. exists r. split; [assumption|].
  unfold prims. rewrite Tr, T, C. cbn [units]. apply flip3_chunk3.
Qed.

(* ================================================================ 3. ToPointCloud *)
Theorem to_points_spec : forall m,
  attrs (to_points m) = attrs m /\ materials (to_points m) = materials m
  /\ topology (to_points m) = Point
  /\ (topology m = Point -> to_points m = m)
  /\ (topology m <> Point -> indices (to_points m) = seq 0 (nverts m)).
Proof.
  intros m. unfold to_points. destruct (topology m) eqn:T; cbn [attrs materials topology indices];
    repeat split; try reflexivity; try discriminate; try assumption; intros; try reflexivity; contradiction.
Qed.

(* one point per vertex, in vertex order, each with its full row *)
Theorem to_points_corners : forall m, topology m <> Point -> corners (to_points m) = rows m.
Proof.
  intros m T. unfold corners, rows. destruct (to_points_spec m) as [A [_ [_ [_ I]]]].
  rewrite (I T). apply map_ext. intros i. apply row_attrs. assumption.
Qed.

(* ================================================================ 4. single-attribute transforms *)
Lemma insert_keys_present : forall k d d' (l : list attr),
  ssortedb (map fst l) = true -> lookup k l = Some d -> map fst (insert k d' l) = map fst l.
Proof.
  intros k d d'. induction l as [|[k' d0] l IH]; intros S H; cbn [lookup] in H; [discriminate|].
  cbn [map fst] in S. apply ssortedb_cons in S. destruct S as [S1 S2]. cbn [insert].
  destruct (key_eqb k k') eqn:E.
  - apply key_eqb_eq in E. subst k'. reflexivity.
  - assert (L : key_ltb k' k = true) by (apply S1; eapply lookup_Some_key; eassumption).
    rewrite (key_ltb_asym _ _ L). cbn [map fst]. f_equal. apply IH; assumption.
Qed.

Lemma neq_key_eqb : forall a b : key, a <> b -> key_eqb a b = false.
Proof. intros a b H. apply key_eqb_neq. assumption. Qed.

Theorem modify_attr_frame : forall k f m d, lookup k (attrs m) = Some d -> f d <> [] ->
  exists r, modify_attr k f m = Ok [r]
    /\ topology r = topology m /\ indices r = indices m /\ materials r = materials m
    /\ lookup k (attrs r) = Some (f d)
    /\ (forall k', k' <> k -> lookup k' (attrs r) = lookup k' (attrs m))
    /\ (ssortedb (keys m) = true -> keys r = keys m).
Proof.
  intros k f m d L N. unfold modify_attr. rewrite L. eexists. split; [reflexivity|].
  unfold set_attr. cbn [topology indices materials attrs].
  destruct (f d) as [|x fd] eqn:E; [contradiction|]. repeat split.
  - apply lookup_insert_same.
  - intros k' Hk. apply lookup_insert_other. apply neq_key_eqb. assumption.
  - intros S. unfold keys. cbn [attrs]. eapply insert_keys_present; eassumption.
Qed.

(* the degenerate case: the transform returns no data (only possible for a mesh without vertices);
   SetFloatNAttribute then deletes the key, everything else is still untouched *)
Theorem modify_attr_frame_nil : forall k f m d, lookup k (attrs m) = Some d -> f d = [] ->
  exists r, modify_attr k f m = Ok [r]
    /\ topology r = topology m /\ indices r = indices m /\ materials r = materials m
    /\ lookup k (attrs r) = None
    /\ (forall k', k' <> k -> lookup k' (attrs r) = lookup k' (attrs m)).
Proof.
  intros k f m d L N. unfold modify_attr. rewrite L. eexists. split; [reflexivity|].
  unfold set_attr. cbn [topology indices materials attrs]. rewrite N. repeat split.
  - apply lookup_remove_same.
  - intros k' Hk. apply lookup_remove_other. apply neq_key_eqb. assumption.
Qed.

Theorem modify_attr_declared : forall k f m, lookup k (attrs m) = None -> modify_attr k f m = Declared.
Proof. intros k f m L. unfold modify_attr. rewrite L. reflexivity. Qed.

(* pointwise transforms: exactly attribute k changes, value i becomes g (value i) *)
Theorem only_attr_changes : forall k (g : vec -> vec) f m d,
  f = map g -> lookup k (attrs m) = Some d -> d <> [] ->
  exists r d', modify_attr k f m = Ok [r]
    /\ topology r = topology m /\ indices r = indices m /\ materials r = materials m
    /\ lookup k (attrs r) = Some d' /\ length d' = length d
    /\ (forall i, i < length d -> nth i d' [] = g (nth i d []))
    /\ (forall k', k' <> k -> lookup k' (attrs r) = lookup k' (attrs m))
    /\ (ssortedb (keys m) = true -> keys r = keys m).
Proof.
  intros k g f m d Ef L N. subst f.
  destruct (modify_attr_frame k (map g) m d L) as [r [E [T [I [M [Lr [Fr Kr]]]]]]].
  { destruct d; [contradiction|discriminate]. }
  exists r, (map g d). repeat split; try assumption.
  - apply map_length.
  - intros i Hi. apply nth_map_lt. assumption.
Qed.

(* the other attributes of every vertex row are untouched: stated on rows with the key removed *)
Theorem only_attr_changes_rows : forall k f m d r, wf m ->
  lookup k (attrs m) = Some d -> modify_attr k f m = Ok [r] ->
  remove_key k (attrs r) = remove_key k (attrs m).
Proof.
  intros k f m d r W L E. unfold modify_attr in E. rewrite L in E. inversion E; subst r. clear E.
  unfold set_attr. cbn [attrs]. destruct W as [_ [_ [_ S]]].
  assert (G : forall d' (l : list attr), ssortedb (map fst l) = true ->
            remove_key k (insert k d' l) = remove_key k l).
  { intros d'. induction l as [|[k' d0] l IH]; intros S'; cbn [insert].
    - unfold remove_key. cbn [filter fst]. rewrite key_eqb_refl. reflexivity.
    - cbn [map fst] in S'. apply ssortedb_cons in S'. destruct S' as [S1 S2].
      destruct (key_eqb k k') eqn:E1.
      + unfold remove_key. cbn [filter fst]. rewrite key_eqb_refl, E1. reflexivity.
      + destruct (key_ltb k k').
        * unfold remove_key. cbn [filter fst]. rewrite key_eqb_refl, E1. reflexivity.
        * unfold remove_key in *. cbn [filter fst]. rewrite E1. cbn [negb]. f_equal. apply IH, S2. }
  destruct (f d).
  - unfold remove_key. apply filter_idem.
  - apply G, S.
Qed.

Theorem translate_only_attr : forall a amount m d, lookup (3%N, a) (attrs m) = Some d -> d <> [] ->
  exists r d', translate a amount m = Ok [r]
    /\ topology r = topology m /\ indices r = indices m /\ materials r = materials m
    /\ lookup (3%N, a) (attrs r) = Some d' /\ length d' = length d
    /\ (forall i, i < length d -> nth i d' [] = translate_v amount (nth i d []))
    /\ (forall k', k' <> (3%N, a) -> lookup k' (attrs r) = lookup k' (attrs m))
    /\ (ssortedb (keys m) = true -> keys r = keys m).
Proof. intros a amount m d. apply only_attr_changes. reflexivity. Qed.

Theorem scale3_only_attr : forall a origin amount m d, lookup (3%N, a) (attrs m) = Some d -> d <> [] ->
  exists r d', scale3 a origin amount m = Ok [r]
    /\ topology r = topology m /\ indices r = indices m /\ materials r = materials m
    /\ lookup (3%N, a) (attrs r) = Some d' /\ length d' = length d
    /\ (forall i, i < length d -> nth i d' [] = scale_v origin amount (nth i d []))
    /\ (forall k', k' <> (3%N, a) -> lookup k' (attrs r) = lookup k' (attrs m))
    /\ (ssortedb (keys m) = true -> keys r = keys m).
Proof. intros a origin amount m d. apply only_attr_changes. reflexivity. Qed.

Theorem scale2_only_attr : forall a origin amount m d, lookup (2%N, a) (attrs m) = Some d -> d <> [] ->
  exists r d', scale2 a origin amount m = Ok [r]
    /\ topology r = topology m /\ indices r = indices m /\ materials r = materials m
    /\ lookup (2%N, a) (attrs r) = Some d' /\ length d' = length d
    /\ (forall i, i < length d -> nth i d' [] = scale_v origin amount (nth i d []))
    /\ (forall k', k' <> (2%N, a) -> lookup k' (attrs r) = lookup k' (attrs m))
    /\ (ssortedb (keys m) = true -> keys r = keys m).
Proof. intros a origin amount m d. apply only_attr_changes. reflexivity. Qed.

Theorem rotate_only_attr : forall a q m d, lookup (3%N, a) (attrs m) = Some d -> d <> [] ->
  exists r d', rotate a q m = Ok [r]
    /\ topology r = topology m /\ indices r = indices m /\ materials r = materials m
    /\ lookup (3%N, a) (attrs r) = Some d' /\ length d' = length d
    /\ (forall i, i < length d -> nth i d' [] = rotate_v q (nth i d []))
    /\ (forall k', k' <> (3%N, a) -> lookup k' (attrs r) = lookup k' (attrs m))
    /\ (ssortedb (keys m) = true -> keys r = keys m).
Proof. intros a q m d. apply only_attr_changes. reflexivity. Qed.

Theorem apply_trs_only_attr : forall pos t m d, lookup (3%N, pos) (attrs m) = Some d -> d <> [] ->
  exists r d', apply_trs pos t m = Ok [r]
    /\ topology r = topology m /\ indices r = indices m /\ materials r = materials m
    /\ lookup (3%N, pos) (attrs r) = Some d' /\ length d' = length d
    /\ (forall i, i < length d -> nth i d' [] = trs_v t (nth i d []))
    /\ (forall k', k' <> (3%N, pos) -> lookup k' (attrs r) = lookup k' (attrs m))
    /\ (ssortedb (keys m) = true -> keys r = keys m).
Proof. intros pos t m d. apply only_attr_changes. reflexivity. Qed.

(* CenterFloat3Attribute subtracts one common vector from every value *)
Lemma center_data_common : forall d, exists mid,
  forall i, i < length d -> nth i (center_data d) [] = vzip Z.sub (nth i d []) mid.
Proof.
  intros [|v0 r]; [exists []; intros i H; simpl in H; lia|].
  unfold center_data. eexists. intros i Hi.
  apply (nth_map_lt _ _ (fun v => vzip Z.sub v _)). assumption.
Qed.

Theorem center_only_attr : forall a m d, lookup (3%N, a) (attrs m) = Some d -> d <> [] ->
  exists r d' mid, center a m = Ok [r]
    /\ topology r = topology m /\ indices r = indices m /\ materials r = materials m
    /\ lookup (3%N, a) (attrs r) = Some d' /\ length d' = length d
    /\ (forall i, i < length d -> nth i d' [] = vzip Z.sub (nth i d []) mid)
    /\ (forall k', k' <> (3%N, a) -> lookup k' (attrs r) = lookup k' (attrs m))
    /\ (ssortedb (keys m) = true -> keys r = keys m).
Proof.
  intros a m d L N.
  destruct (modify_attr_frame (3%N, a) center_data m d L) as [r [E [T [I [M [Lr [Fr Kr]]]]]]].
  { intros C. apply (f_equal (@length vec)) in C. rewrite center_data_length in C.
    destruct d; [contradiction|discriminate]. }
  destruct (center_data_common d) as [mid Hmid].
  exists r, (center_data d), mid. repeat split; try assumption. apply center_data_length.
Qed.

(* ================================================================ 5. Mesh.Append *)
Lemma lookup_map_keyed : forall (g : key -> list vec -> list vec) k (l : list attr),
  lookup k (map (fun a : attr => (fst a, g (fst a) (snd a))) l) = option_map (g k) (lookup k l).
Proof.
  intros g k. induction l as [|[k' d'] l IH]; [reflexivity|].
  cbn [map lookup fst snd]. destruct (key_eqb k k') eqn:E; [|assumption].
  apply key_eqb_eq in E. subst k'. reflexivity.
Qed.

Lemma sorted_head_not_in : forall (k : key) (d : list vec) (l : list attr),
  ssortedb (map fst ((k, d) :: l)) = true -> lookup k l = None.
Proof.
  intros k d l S. cbn [map fst] in S. apply ssortedb_cons in S. destruct S as [S1 _].
  apply lookup_None. intros C. apply S1 in C. rewrite key_ltb_irrefl in C. discriminate.
Qed.

Lemma append_fold_lookup : forall (a : list attr) la k (b acc : list attr),
  ssortedb (map fst b) = true ->
  lookup k (fold_left (append_step a la) b acc) =
  match lookup k a with
  | Some _ => lookup k acc
  | None => match lookup k b with
            | Some db => Some (zeros k la ++ db)
            | None => lookup k acc
            end
  end.
Proof.
  intros a la k. induction b as [|[k' d'] b IH]; intros acc S; cbn [fold_left].
  - cbn [lookup]. destruct (lookup k a); reflexivity.
  - pose proof (sorted_head_not_in _ _ _ S) as Hk'.
    cbn [map fst] in S. apply ssortedb_cons in S. destruct S as [S1 S2].
    rewrite IH by assumption. clear IH. unfold append_step. cbn [fst snd lookup].
    destruct (key_eqb k k') eqn:E.
    + apply key_eqb_eq in E. subst k'. rewrite Hk'.
      destruct (lookup k a); [reflexivity|]. rewrite lookup_insert_same. reflexivity.
    + destruct (lookup k' a) eqn:La; [reflexivity|].
      rewrite lookup_insert_other by assumption. reflexivity.
Qed.

(* the attribute map of the appended mesh, key by key *)
Lemma append_attrs_lookup : forall (a b : list attr) la lb k,
  ssortedb (map fst b) = true ->
  lookup k (append_attrs a b la lb) =
  match lookup k a, lookup k b with
  | Some da, Some db => Some (da ++ db)
  | Some da, None => Some (da ++ zeros k lb)
  | None, Some db => Some (zeros k la ++ db)
  | None, None => None
  end.
Proof.
  intros a b la lb k S. rewrite append_attrs_unfold, append_fold_lookup by assumption.
  rewrite (lookup_map_keyed (fun k0 d0 => d0 ++ match lookup k0 b with Some db => db | None => zeros k0 lb end)).
  destruct (lookup k a) as [da|]; cbn [option_map]; destruct (lookup k b); reflexivity.
Qed.

Lemma In_keys_lookup : forall k (l : list attr), In k (map fst l) <-> lookup k l <> None.
Proof.
  intros k l. split.
  - intros H C. apply lookup_None in C. contradiction.
  - intros H. destruct (lookup k l) as [d|] eqn:E; [|contradiction].
    eapply lookup_Some_key; eassumption.
Qed.

(* the data one side contributes to attribute k of the appended mesh: its own, or zero fill *)
Definition part (k : key) (m : mesh) : list vec :=
  match lookup k (attrs m) with Some d => d | None => zeros k (nverts m) end.

Lemma part_length : forall k m, wf m -> length (part k m) = nverts m.
Proof.
  intros k m W. unfold part. destruct (lookup k (attrs m)) eqn:L.
  - eapply wf_lookup_length; eassumption.
  - apply zeros_length.
Qed.

Lemma part_nth : forall k m i, i < nverts m ->
  nth i (part k m) [] =
  match lookup k (attrs m) with Some d => nth i d [] | None => repeat 0%Z (N.to_nat (fst k)) end.
Proof.
  intros k m i H. unfold part. destruct (lookup k (attrs m)); [reflexivity|].
  unfold zeros. apply nth_repeat_lt. assumption.
Qed.

Lemma topo_eqb_refl : forall t, topo_eqb t t = true.
Proof. destruct t; reflexivity. Qed.

Theorem append_spec : forall a b, wf a -> wf b -> topology a = topology b ->
  exists r, append a b = Ok [r]
    /\ topology r = topology a
    /\ indices r = indices a ++ map (fun i => i + nverts a) (indices b)
    /\ materials r = materials a ++ materials b
    /\ (forall k, In k (keys r) <-> In k (keys a) \/ In k (keys b))
    /\ (forall k d, lookup k (attrs r) = Some d -> d = part k a ++ part k b)
    /\ (forall k, In k (keys r) -> lookup k (attrs r) = Some (part k a ++ part k b)).
Proof.
  intros a b Wa Wb T. unfold append. rewrite T, topo_eqb_refl. eexists. split; [reflexivity|].
  cbn [topology indices materials attrs]. unfold keys. cbn [attrs].
  destruct Wb as [_ [_ [_ Sb]]].
  assert (Lk : forall k d, lookup k (append_attrs (attrs a) (attrs b) (nverts a) (nverts b)) = Some d ->
                           d = part k a ++ part k b).
  { intros k d H. rewrite append_attrs_lookup in H by assumption. unfold part.
    destruct (lookup k (attrs a)), (lookup k (attrs b)); congruence. }
  repeat split; try (symmetry; assumption).
  - intros H. apply In_keys_lookup in H. rewrite append_attrs_lookup in H by assumption.
    destruct (lookup k (attrs a)) eqn:La.
    + left. eapply lookup_Some_key; eassumption.
    + destruct (lookup k (attrs b)) eqn:Lb; [|contradiction]. right. eapply lookup_Some_key; eassumption.
  - intros H. apply In_keys_lookup. rewrite append_attrs_lookup by assumption.
    rewrite !In_keys_lookup in H.
    destruct (lookup k (attrs a)), (lookup k (attrs b)); try discriminate. destruct H; contradiction.
  - exact Lk.
  - intros k H. apply In_keys_lookup in H.
    destruct (lookup k (append_attrs (attrs a) (attrs b) (nverts a) (nverts b))) as [d|] eqn:E; [|contradiction].
    rewrite (Lk k d E). reflexivity.
Qed.

(* the row of a vertex of the appended mesh is the (zero-filled) row of the vertex it came from *)
Lemma append_rows : forall a b r, wf a -> wf b -> append a b = Ok [r] ->
  (forall i, i < nverts a -> row r i = rowk (keys r) a i)
  /\ (forall i, i < nverts b -> row r (i + nverts a) = rowk (keys r) b i).
Proof.
  intros a b r Wa Wb E.
  pose proof (append_wf a b Wa Wb) as Wr. rewrite E in Wr. inversion Wr as [|? ? Wr' _]; subst.
  destruct Wr' as [_ [_ [_ Sr]]].
  assert (T : topology a = topology b).
  { unfold append in E. destruct (topo_eqb (topology a) (topology b)) eqn:T; [|discriminate].
    apply topo_eqb_eq, T. }
  destruct (append_spec a b Wa Wb T) as [r' [E' [_ [_ [_ [_ [Lk _]]]]]]].
  rewrite E in E'. inversion E'; subst r'. clear E'.
  assert (Ld : forall x, In x (attrs r) -> snd x = part (fst x) a ++ part (fst x) b).
  { intros [k d] Hx. cbn [fst snd]. apply Lk. apply In_lookup; assumption. }
  split; intros i Hi; unfold row, rowk, keys; rewrite map_map; apply map_ext_in; intros x Hx;
    pose proof (Ld x Hx) as Lx; destruct x as [k d]; cbn [fst snd] in *; subst d.
  - rewrite app_nth1 by (rewrite part_length; assumption). apply part_nth. assumption.
  - rewrite Nat.add_comm, <- (part_length k a Wa), app_nth2_plus. apply part_nth. assumption.
Qed.

(* headline: every corner of a and of b keeps its content *)
Theorem append_corners : forall a b r, wf a -> wf b -> append a b = Ok [r] ->
  corners r = map (rowk (keys r) a) (indices a) ++ map (rowk (keys r) b) (indices b).
Proof.
  intros a b r Wa Wb E. destruct (append_rows a b r Wa Wb E) as [Ra Rb].
  assert (I : indices r = indices a ++ map (fun i => i + nverts a) (indices b)).
  { unfold append in E. destruct (topo_eqb (topology a) (topology b)); [|discriminate].
    inversion E. reflexivity. }
  unfold corners. rewrite I, map_app, map_map. f_equal.
  - apply map_ext_in. intros i Hi. apply Ra. destruct Wa as [_ [WI _]]. rewrite Forall_forall in WI. apply WI, Hi.
  - apply map_ext_in. intros i Hi. apply Rb. destruct Wb as [_ [WI _]]. rewrite Forall_forall in WI. apply WI, Hi.
Qed.

(* the primitives of the result: those of a followed by those of b *)
Theorem append_prims : forall a b r, wf a -> wf b -> append a b = Ok [r] ->
  prims r = units (topology a) (map (rowk (keys r) a) (indices a))
            ++ units (topology a) (map (rowk (keys r) b) (indices b)).
Proof.
  intros a b r Wa Wb E. unfold prims. rewrite (append_corners a b r Wa Wb E).
  assert (T : topology r = topology a).
  { unfold append in E. destruct (topo_eqb (topology a) (topology b)); [|discriminate].
    inversion E. reflexivity. }
  rewrite T. apply units_app. rewrite map_length. apply Wa.
Qed.

(* all vertex rows: the rows of a followed by the rows of b *)
Theorem append_all_rows : forall a b r, wf a -> wf b -> append a b = Ok [r] -> keys r <> [] ->
  rows r = map (rowk (keys r) a) (seq 0 (nverts a)) ++ map (rowk (keys r) b) (seq 0 (nverts b)).
Proof.
  intros a b r Wa Wb E N. destruct (append_rows a b r Wa Wb E) as [Ra Rb].
  assert (Nr : nverts r = nverts a + nverts b).
  { assert (T : topology a = topology b).
    { unfold append in E. destruct (topo_eqb (topology a) (topology b)) eqn:T; [|discriminate].
      apply topo_eqb_eq, T. }
    destruct (append_spec a b Wa Wb T) as [r' [E' [_ [_ [_ [_ [Lk _]]]]]]].
    rewrite E in E'. inversion E'; subst r'. clear E'.
    unfold nverts at 1. unfold keys in N. destruct (attrs r) as [|[k d] l] eqn:Ar; [contradiction|].
    rewrite (Lk k d) by (cbn [lookup]; rewrite key_eqb_refl; reflexivity).
    rewrite app_length, !part_length by assumption. reflexivity. }
  unfold rows. rewrite Nr, seq_app, map_app. f_equal.
  - apply map_ext_in. intros i Hi. apply in_seq in Hi. apply Ra. lia.
  - cbn [Nat.add]. rewrite (seq_add_map (nverts a)), map_map.
    apply map_ext_in. intros i Hi. apply in_seq in Hi. apply Rb. lia.
Qed.

(* ================================================================ 6. RemovedUnreferencedVertices *)
Definition umask (m : mesh) : list bool := used_mask (nverts m) (indices m).

Lemma umask_length : forall m, length (umask m) = nverts m.
Proof. intros m. apply used_mask_length. Qed.

Lemma umask_used : forall m i, wf m -> In i (indices m) -> i < nverts m /\ nth i (umask m) false = true.
Proof.
  intros m i [_ [WI _]] Hi. rewrite Forall_forall in WI. specialize (WI i Hi). split; [assumption|].
  apply used_mask_In; assumption.
Qed.

Lemma remove_unref_with_indices : forall b m,
  indices (remove_unref_with b m) = map (fun i => i - shift_by (umask m) i) (indices m).
Proof. reflexivity. Qed.

Lemma remove_unref_with_indices_rank : forall b m, wf m ->
  indices (remove_unref_with b m) = map (rank (umask m)) (indices m).
Proof.
  intros b m W. rewrite remove_unref_with_indices. apply map_ext_in. intros i Hi.
  destruct (umask_used m i W Hi) as [H1 H2]. apply shift_rank; [rewrite umask_length|]; assumption.
Qed.

(* no attribute is dropped unless no vertex survives *)
Lemma remove_unref_with_attrs : forall b m, wf m -> (b = false \/ indices m <> []) ->
  attrs (remove_unref_with b m) = map (fun a : attr => (fst a, compact (umask m) (snd a))) (attrs m).
Proof.
  intros b m W H. unfold remove_unref_with. cbn [attrs]. fold (umask m). apply filter_all.
  intros x Hx. destruct H as [H|H]; [subst b; reflexivity|].
  apply in_map_iff in Hx. destruct Hx as [a [E Ha]]. subst x. cbn [snd].
  assert (L : length (compact (umask m) (snd a)) = count_true (umask m)).
  { apply compact_length. rewrite umask_length. symmetry. destruct W as [WA _].
    rewrite Forall_forall in WA. apply WA, Ha. }
  destruct (compact (umask m) (snd a)) as [|y c]; [|rewrite andb_false_r; reflexivity].
  exfalso. apply H. apply (used_mask_count_0 (nverts m)); [symmetry; exact L|apply W].
Qed.

Lemma remove_unref_with_row : forall b m i, wf m -> (b = false \/ indices m <> []) ->
  i < nverts m -> nth i (umask m) false = true ->
  row (remove_unref_with b m) (rank (umask m) i) = row m i.
Proof.
  intros b m i W H Hi Hu. unfold row. rewrite remove_unref_with_attrs by assumption.
  rewrite map_map. apply map_ext_in. intros a Ha. cbn [snd].
  apply compact_nth; [|rewrite umask_length; assumption|assumption].
  rewrite umask_length. symmetry. destruct W as [WA _]. rewrite Forall_forall in WA. apply WA, Ha.
Qed.

Theorem remove_unref_with_corners : forall b m, wf m -> corners (remove_unref_with b m) = corners m.
Proof.
  intros b m W. unfold corners. rewrite remove_unref_with_indices_rank by assumption. rewrite map_map.
  destruct (indices m) as [|i0 r0] eqn:EI; [reflexivity|]. rewrite <- EI.
  apply map_ext_in. intros i Hi. destruct (umask_used m i W Hi) as [H1 H2].
  apply remove_unref_with_row; try assumption. right. rewrite EI. discriminate.
Qed.

Theorem remove_unref_corners : forall m, wf m -> corners (remove_unref m) = corners m.
Proof. intros m. apply remove_unref_with_corners. Qed.

Theorem remove_unref_prims : forall m, wf m -> prims (remove_unref m) = prims m.
Proof. intros m W. unfold prims. rewrite remove_unref_corners by assumption. reflexivity. Qed.

Theorem remove_unref_with_shell : forall b m,
  topology (remove_unref_with b m) = topology m /\ materials (remove_unref_with b m) = materials m
  /\ length (indices (remove_unref_with b m)) = length (indices m).
Proof. intros b m. repeat split. rewrite remove_unref_with_indices. apply map_length. Qed.

Theorem remove_unref_shell : forall m,
  topology (remove_unref m) = topology m /\ materials (remove_unref m) = materials m
  /\ length (indices (remove_unref m)) = length (indices m).
Proof. intros m. apply remove_unref_with_shell. Qed.

Lemma remove_unref_with_nverts_le : forall b m, wf m ->
  nverts (remove_unref_with b m) <= count_true (umask m).
Proof.
  intros b m W. unfold nverts. destruct (attrs (remove_unref_with b m)) as [|[k d] l] eqn:E; [lia|].
  assert (I : In (k, d) (attrs (remove_unref_with b m))) by (rewrite E; left; reflexivity).
  unfold remove_unref_with in I. cbn [attrs] in I. apply filter_In in I. destruct I as [I _].
  apply in_map_iff in I. destruct I as [a [Ea Ha]]. inversion Ea; subst. fold (umask m).
  rewrite compact_length; [lia|]. rewrite umask_length. symmetry. destruct W as [WA _].
  rewrite Forall_forall in WA. apply WA, Ha.
Qed.

Theorem remove_unref_with_all_referenced : forall b m, wf m ->
  forall v, v < nverts (remove_unref_with b m) -> In v (indices (remove_unref_with b m)).
Proof.
  intros b m W v Hv. pose proof (remove_unref_with_nverts_le b m W) as Hle.
  destruct (rank_surj (umask m) v) as [i [Hi [Hu Hr]]]; [lia|].
  rewrite remove_unref_with_indices_rank by assumption. apply in_map_iff. exists i. split; [assumption|].
  rewrite umask_length in Hi. unfold umask in Hu. apply used_mask_nth in Hu; assumption.
Qed.

Theorem remove_unref_all_referenced : forall m, wf m ->
  forall v, v < nverts (remove_unref m) -> In v (indices (remove_unref m)).
Proof. intros m. apply remove_unref_with_all_referenced. Qed.

Lemma remove_unref_with_nverts : forall b m, wf m -> indices m <> [] ->
  nverts (remove_unref_with b m) = count_true (umask m).
Proof.
  intros b m W H. unfold nverts at 1. rewrite remove_unref_with_attrs by (try assumption; right; assumption).
  destruct (attrs m) as [|[k d] l] eqn:E.
  - exfalso. apply H. apply wf_nil_attrs; assumption.
  - cbn [map fst snd]. apply compact_length. rewrite umask_length. unfold nverts. rewrite E. reflexivity.
Qed.

Theorem remove_unref_with_order : forall b m, wf m -> indices m <> [] ->
  rows (remove_unref_with b m) = compact (umask m) (rows m).
Proof.
  intros b m W H. unfold rows. rewrite compact_map, remove_unref_with_nverts by assumption.
  assert (Lc : length (compact (umask m) (seq 0 (nverts m))) = count_true (umask m)).
  { apply compact_length. rewrite umask_length, seq_length. reflexivity. }
  apply (nth_ext _ _ [] []); rewrite !map_length, seq_length; [symmetry; exact Lc|].
  intros j Hj. destruct (rank_surj (umask m) j Hj) as [i [Hi [Hu Hr]]]. rewrite umask_length in Hi.
  rewrite (nth_map_lt _ _ _ _ _ _ 0) by (rewrite seq_length; assumption).
  rewrite (nth_map_lt _ _ _ _ _ _ 0) by (rewrite Lc; assumption).
  rewrite seq_nth by assumption. cbn [Nat.add]. subst j.
  rewrite compact_nth; [|rewrite umask_length, seq_length; reflexivity|rewrite umask_length; assumption|assumption].
  rewrite seq_nth by assumption. cbn [Nat.add].
  apply remove_unref_with_row; try assumption. right; assumption.
Qed.

(* kept vertices keep their relative order and their full rows *)
Theorem remove_unref_order : forall m, wf m -> indices m <> [] ->
  rows (remove_unref m) = compact (used_mask (nverts m) (indices m)) (rows m).
Proof. intros m. apply remove_unref_with_order. Qed.

Theorem remove_unref_with_keys : forall b m, wf m -> (b = false \/ indices m <> []) ->
  keys (remove_unref_with b m) = keys m.
Proof.
  intros b m W H. unfold keys. rewrite remove_unref_with_attrs by assumption.
  apply (map_snd_keys (fun a => compact (umask m) (snd a))).
Qed.

(* an attribute is dropped only when no vertex survives *)
Theorem remove_unref_keys : forall m, wf m -> indices m <> [] -> keys (remove_unref m) = keys m.
Proof. intros m W H. apply remove_unref_with_keys; [assumption|right; assumption]. Qed.

Theorem remove_unref_empty : forall m, wf m -> indices m = [] ->
  attrs (remove_unref m) = [] /\ indices (remove_unref m) = [].
Proof.
  intros m W H. split.
  - unfold remove_unref, remove_unref_with. cbn [attrs]. rewrite H.
    assert (G : forall (l : list attr), filter (fun a : attr => negb (true && is_nil (snd a)))
              (map (fun a : attr => (fst a, compact (used_mask (nverts m) []) (snd a))) l) = []).
    { induction l as [|a l IH]; [reflexivity|]. cbn [map filter snd].
      assert (C : compact (used_mask (nverts m) []) (snd a) = []).
      { apply compact_none. unfold used_mask. rewrite Forall_forall. intros x Hx.
        apply in_map_iff in Hx. destruct Hx as [v [Ev _]]. subst x. reflexivity. }
      rewrite C. cbn [is_nil andb negb]. exact IH. }
    apply G.
  - unfold remove_unref. rewrite remove_unref_with_indices, H. reflexivity.
Qed.

Lemma shift_by_all_true : forall u, Forall (fun b => b = true) u -> forall i, shift_by u i = 0.
Proof.
  intros u F. unfold shift_by. induction F as [|b u Hb F IH]; intros i; [reflexivity|].
  subst b. cbn [firstn filter negb]. destruct i; [reflexivity|]. apply IH.
Qed.

(* a mesh without unreferenced vertices and without empty attributes is a fixed point *)
Theorem remove_unref_fixed : forall r, wf r ->
  (forall v, v < nverts r -> In v (indices r)) ->
  Forall (fun a : attr => snd a <> []) (attrs r) ->
  remove_unref r = r.
Proof.
  intros r W R NN. unfold remove_unref, remove_unref_with. fold (umask r).
  assert (U : Forall (fun b => b = true) (umask r)).
  { unfold umask, used_mask. rewrite Forall_forall. intros x Hx. apply in_map_iff in Hx.
    destruct Hx as [v [E Hv]]. subst x. apply in_seq in Hv. apply existsb_eqb_In. apply R. lia. }
  rewrite <- (wf_mesh_eta r) at 5. f_equal.
  - rewrite <- (map_id (indices r)) at 2. apply map_ext. intros i.
    rewrite shift_by_all_true by assumption. lia.
  - assert (E : map (fun a : attr => (fst a, compact (umask r) (snd a))) (attrs r) = attrs r).
    { rewrite <- (map_id (attrs r)) at 2. apply map_ext_in. intros [k d] Ha. cbn [fst snd]. f_equal.
      apply compact_all_true; [|assumption]. rewrite umask_length. symmetry.
      destruct W as [WA _]. rewrite Forall_forall in WA. apply (WA (k, d) Ha). }
    match goal with |- filter _ ?X = _ => replace X with (attrs r) by (symmetry; exact E) end.
    apply filter_all. intros a Ha. rewrite Forall_forall in NN. specialize (NN a Ha).
    destruct (snd a); [contradiction|reflexivity].
Qed.

Theorem remove_unref_idem : forall m, wf m -> remove_unref (remove_unref m) = remove_unref m.
Proof.
  intros m W. apply remove_unref_fixed.
  - apply remove_unref_wf, W.
  - apply remove_unref_all_referenced, W.
  - unfold remove_unref, remove_unref_with. cbn [attrs]. rewrite Forall_forall. intros a Ha.
    apply filter_In in Ha. destruct Ha as [_ Ha]. cbn [andb] in Ha.
    destruct (snd a); [discriminate|discriminate].
Qed.

(* ================================================================ 7. FilterFloatN / RemoveNullFaces3D / Crop *)
(* keep a sub-list of whole units and drop the unreferenced vertices *)
Lemma keep_units_spec : forall m g, wf m ->
  let kept := concat (filter g (units (topology m) (indices m))) in
  let r := remove_unref (set_indices m kept) in
  wf (set_indices m kept)
  /\ corners r = map (row m) kept
  /\ prims r = map (map (row m)) (filter g (units (topology m) (indices m)))
  /\ (forall v, v < nverts r -> In v (indices r))
  /\ topology r = topology m /\ materials r = materials m
  /\ (kept <> [] -> keys r = keys m).
Proof.
  intros m g W kept r.
  assert (W' : wf (set_indices m kept)).
  { apply set_indices_wf; [assumption| |].
    - apply units_filter_Forall, W.
    - apply units_filter_count_ok. }
  assert (C : corners r = map (row m) kept).
  { unfold r. rewrite remove_unref_corners by assumption. reflexivity. }
  split; [exact W'|]. split; [exact C|]. split; [|split; [|split; [reflexivity|split; [reflexivity|]]]].
  - unfold prims. rewrite C. change (topology r) with (topology m).
    rewrite units_map. unfold kept. rewrite units_concat_filter. reflexivity.
  - apply remove_unref_all_referenced, W'.
  - intros N. unfold r. rewrite remove_unref_keys; [reflexivity|assumption|exact N].
Qed.

(* surviving primitives are exactly those all of whose vertices pass, in order, content unchanged,
   and nothing unreferenced is left *)
Theorem filter_spec : forall k pred m d, wf m -> lookup k (attrs m) = Some d ->
  exists r, filter_attr k pred m = Ok [r]
    /\ prims r = map (map (row m))
                     (filter (forallb (fun i => pred (nth i d []))) (units (topology m) (indices m)))
    /\ corners r = map (row m)
                     (concat (filter (forallb (fun i => pred (nth i d []))) (units (topology m) (indices m))))
    /\ (forall v, v < nverts r -> In v (indices r))
    /\ topology r = topology m /\ materials r = materials m
    /\ (indices r <> [] -> keys r = keys m).
Proof.
  intros k pred m d W L. unfold filter_attr. rewrite L. eexists. split; [reflexivity|].
  unfold filter_idx.
  destruct (keep_units_spec m (forallb (fun i => pred (nth i d []))) W) as [_ [C [P [R [T [M K]]]]]].
  repeat split; try assumption.
  intros N. apply K. intros E. apply N. unfold remove_unref. rewrite remove_unref_with_indices.
  cbn [set_indices indices] in *. rewrite E. reflexivity.
Qed.

Theorem filter_declared : forall k pred m, lookup k (attrs m) = None -> filter_attr k pred m = Declared.
Proof. intros k pred m L. unfold filter_attr. rewrite L. reflexivity. Qed.

Theorem remove_null_spec : forall a keep m d, wf m -> topology m = Triangle ->
  lookup (3%N, a) (attrs m) = Some d ->
  exists r, remove_null a keep m = Ok [r]
    /\ prims r = map (map (row m)) (filter (fun t => keep (gather t d)) (chunk3 (indices m)))
    /\ corners r = map (row m) (concat (filter (fun t => keep (gather t d)) (chunk3 (indices m))))
    /\ topology r = topology m /\ materials r = materials m
    /\ (r = m \/ forall v, v < nverts r -> In v (indices r)).
Proof.
  intros a keep m d W T L. unfold remove_null. rewrite T, L.
  pose proof (keep_units_spec m (fun t => keep (gather t d)) W) as H. rewrite T in H. cbn [units] in H.
  cbv zeta in H. destruct H as [_ [C [P [R [T' [M K]]]]]].
  match goal with |- context [if ?c then _ else _] => destruct c eqn:E end.
  - exists m. split; [reflexivity|]. apply Nat.eqb_eq in E.
    assert (Q : length (indices m) mod 3 = 0).
    { destruct W as [_ [_ [WC _]]]. rewrite T in WC. apply Nat.eqb_eq, WC. }
    assert (F : filter (fun t => keep (gather t d)) (chunk3 (indices m)) = chunk3 (indices m)).
    { apply filter_length_eq. rewrite chunk3_filter_length in E.
      rewrite <- (concat_chunk3 _ (indices m) Q) in E at 2.
      rewrite (concat_length_const _ 3) in E by apply chunk3_lengths. lia. }
    rewrite F, concat_chunk3 by assumption. unfold prims. rewrite T. cbn [units]. unfold corners.
    rewrite chunk3_map. repeat split; try reflexivity. left; reflexivity.
  - eexists. split; [reflexivity|]. repeat split; try assumption. right. assumption.
Qed.

Theorem remove_null_declared : forall a keep m,
  topology m <> Triangle \/ lookup (3%N, a) (attrs m) = None -> remove_null a keep m = Declared.
Proof.
  intros a keep m [H|H]; unfold remove_null.
  - destruct (topology m); try reflexivity. contradiction.
  - rewrite H. destruct (topology m); reflexivity.
Qed.

(* CropFloat3Attribute: the points inside the box, in order, each with its full row *)
Theorem crop_spec : forall a lo hi m d, wf m -> topology m = Point ->
  lookup (3%N, a) (attrs m) = Some d ->
  let kept := filter (fun i => inside lo hi (nth i d [])) (indices m) in
  exists r, crop a lo hi m = Ok [r]
    /\ corners r = map (row m) kept
    /\ indices r = seq 0 (length kept)
    /\ topology r = Point /\ materials r = materials m
    /\ (kept <> [] -> keys r = keys m /\ nverts r = length kept)
    /\ (kept = [] -> attrs r = []).
Proof.
  intros a lo hi m d W T L kept. unfold crop. rewrite T, L. fold kept. eexists. split; [reflexivity|].
  cbn [indices topology materials attrs].
  assert (Hne : kept <> [] ->
     filter (fun x : key * list vec => negb (is_nil (snd x))) (map (fun x : key * list vec => (fst x, gather kept (snd x))) (attrs m))
     = map (fun x : key * list vec => (fst x, gather kept (snd x))) (attrs m)).
  { intros N. apply filter_all. intros x Hx. apply in_map_iff in Hx. destruct Hx as [y [E _]]. subst x.
    cbn [snd]. unfold gather. destruct kept; [contradiction|reflexivity]. }
  assert (Hnil : kept = [] ->
     filter (fun x : key * list vec => negb (is_nil (snd x))) (map (fun x : key * list vec => (fst x, gather kept (snd x))) (attrs m)) = []).
  { intros N. rewrite N. generalize (attrs m). clear. induction l as [|x l IH]; [reflexivity|].
    cbn [map filter snd is_nil negb]. unfold gather at 1. cbn [map is_nil negb]. exact IH. }
  repeat split.
  - unfold corners, row. cbn [indices attrs]. destruct kept as [|i0 k0] eqn:EK; [reflexivity|].
    rewrite Hne by discriminate. apply gather_rows.
  - unfold keys. cbn [attrs]. rewrite Hne by assumption.
    apply (map_snd_keys (fun x => gather kept (snd x))).
  - unfold nverts. cbn [attrs]. rewrite Hne by assumption.
    destruct (attrs m) as [|[k0 d0] l] eqn:EA.
    + exfalso. destruct kept as [|i0 k0] eqn:EK; [contradiction|].
      assert (I : In i0 (indices m)).
      { assert (I' : In i0 kept) by (rewrite EK; left; reflexivity). apply filter_In in I'. apply I'. }
      rewrite (wf_nil_attrs m W EA) in I. contradiction.
    + cbn [map fst snd]. unfold gather. apply map_length.
  - exact Hnil.
Qed.

Theorem crop_declared : forall a lo hi m,
  topology m <> Point \/ lookup (3%N, a) (attrs m) = None -> crop a lo hi m = Declared.
Proof.
  intros a lo hi m [H|H]; unfold crop.
  - destruct (topology m); try reflexivity. contradiction.
  - rewrite H. destruct (topology m); reflexivity.
Qed.

(* ================================================================ 8. WeldByFloat3Attribute *)
Section WeldLaws.
  Context {K : Type} (keq : K -> K -> bool) (keyf : vec -> K).
  Hypothesis keq_eq : forall a b, keq a b = true <-> a = b.

  Lemma keq_refl' : forall k, keq k k = true.
  Proof. intros k. apply keq_eq. reflexivity. Qed.

  Lemma first_idx_nth : forall (ks : list K) k k0, In k ks -> nth (first_idx keq k ks) ks k0 = k.
  Proof.
    induction ks as [|x ks IH]; intros k k0 H; [contradiction|].
    cbn [first_idx]. destruct (keq k x) eqn:E.
    - apply keq_eq in E. subst. reflexivity.
    - cbn [nth]. destruct H as [H|H].
      + subst x. rewrite keq_refl' in E. discriminate.
      + apply IH, H.
  Qed.

  (* the representative lies in the same key class ... *)
  Lemma rep_key : forall d i, i < length d ->
    keyf (nth (rep keq keyf d i) d []) = keyf (nth i d []).
  Proof.
    intros d i H. rewrite <- (map_nth keyf d []). unfold rep. apply first_idx_nth.
    apply in_map, nth_In, H.
  Qed.

  (* ... and depends only on the key *)
  Lemma rep_same_key : forall d i j, keyf (nth i d []) = keyf (nth j d []) ->
    rep keq keyf d i = rep keq keyf d j.
  Proof. intros d i j H. unfold rep. f_equal. exact H. Qed.

  Lemma rep_idem : forall d i, i < length d -> rep keq keyf d (rep keq keyf d i) = rep keq keyf d i.
  Proof. intros d i H. apply rep_same_key, rep_key, H. Qed.

  Lemma rep_first : forall d i, i < length d ->
    keyf (nth (rep keq keyf d i) d []) = keyf (nth i d []) /\ rep keq keyf d i <= i.
  Proof. intros d i H. split; [apply rep_key, H|apply rep_le; [apply keq_refl'|exact H]]. Qed.

  Lemma compact_keys_NoDup : forall (u : list bool) (d : list vec),
    length u = length d ->
    (forall i j, i < length d -> j < length d -> nth i u false = true -> nth j u false = true ->
                 keyf (nth i d []) = keyf (nth j d []) -> i = j) ->
    NoDup (map keyf (compact u d)).
  Proof.
    intros u d L H. apply (NoDup_nth _ (keyf [])). rewrite map_length, compact_length by assumption.
    intros p q Hp Hq E.
    destruct (rank_surj u p Hp) as [i [Hi [Ui Ri]]]. destruct (rank_surj u q Hq) as [j [Hj [Uj Rj]]].
    rewrite !map_nth in E. subst p q. rewrite !compact_nth in E by assumption.
    f_equal. apply H; try assumption; rewrite <- L; assumption.
  Qed.

  Theorem weld_spec : forall a m d, wf m -> topology m = Triangle ->
    lookup (3%N, a) (attrs m) = Some d ->
    let surv := concat (filter (distinct3 keq keyf d) (chunk3 (indices m))) in
    exists r, weld keq keyf a m = Ok [r]
      /\ corners r = map (fun i => row m (rep keq keyf d i)) surv
      /\ (forall i, i < length d ->
            keyf (nth (rep keq keyf d i) d []) = keyf (nth i d []) /\ rep keq keyf d i <= i)
      /\ (forall v, v < nverts r -> In v (indices r))
      /\ keys r = keys m
      /\ materials r = [] /\ topology r = Triangle
      /\ NoDup (map keyf (data_or_nil (3%N, a) r)).
  Proof.
    intros a m d W T L surv. unfold weld. rewrite L, T. eexists. split; [reflexivity|].
    set (m' := set_materials (set_indices m (weld_idx keq keyf d (indices m))) []).
    assert (Ld : length d = nverts m) by (eapply wf_lookup_length; eassumption).
    assert (W' : wf m').
    { apply set_materials_wf. apply set_indices_wf; [assumption| |].
      - apply weld_idx_range; [apply keq_refl'|assumption|apply W].
      - rewrite T. cbn [count_okb]. apply Nat.eqb_eq, weld_idx_mod. }
    split; [|split; [|split; [|split; [|split; [|split]]]]].
    - rewrite remove_unref_with_corners by assumption. unfold corners, m'. cbn [indices set_materials set_indices].
      unfold weld_idx. fold surv. rewrite map_map. reflexivity.
    - apply rep_first.
    - apply remove_unref_with_all_referenced, W'.
    - rewrite remove_unref_with_keys; [reflexivity|assumption|left; reflexivity].
    - reflexivity.
    - cbn [remove_unref_with topology]. exact T.
    - unfold data_or_nil. rewrite remove_unref_with_attrs by (try assumption; left; reflexivity).
      rewrite (lookup_map_snd (compact (umask m'))). change (attrs m') with (attrs m). rewrite L.
      cbn [option_map]. apply compact_keys_NoDup.
      + rewrite umask_length. symmetry. exact Ld.
      + intros i j Hi Hj Ui Uj E.
        assert (Fix : forall v, nth v (umask m') false = true -> rep keq keyf d v = v).
        { intros v Uv. unfold umask in Uv. apply used_mask_nth_iff in Uv. destruct Uv as [_ Uv].
          change (indices m') with (weld_idx keq keyf d (indices m)) in Uv. unfold weld_idx in Uv.
          apply in_map_iff in Uv. destruct Uv as [v0 [Ev Hv0]]. subst v. apply rep_idem.
          rewrite Ld. assert (WI : Forall (fun i => i < nverts m) (indices m)) by apply W.
          pose proof (chunk3_filter_Forall _ _ (distinct3 keq keyf d) (indices m) WI) as F.
          rewrite Forall_forall in F. apply F. assumption. }
        rewrite <- (Fix i Ui), <- (Fix j Uj). apply rep_same_key, E.
  Qed.

  Theorem weld_declared : forall a m,
    topology m <> Triangle \/ lookup (3%N, a) (attrs m) = None -> weld keq keyf a m = Declared.
  Proof.
    intros a m [H|H]; unfold weld.
    - destruct (lookup (3%N, a) (attrs m)); [|reflexivity]. destruct (topology m); try reflexivity. contradiction.
    - rewrite H. reflexivity.
  Qed.
End WeldLaws.

(* ================================================================ 9. SplitOnUniqueMaterials *)
Lemma existsb_Neqb_In : forall x l, existsb (N.eqb x) l = true <-> In x l.
Proof.
  intros x l. rewrite existsb_exists. split.
  - intros [y [Hy E]]. apply N.eqb_eq in E. subst. assumption.
  - intros H. exists x. split; [assumption|apply N.eqb_refl].
Qed.

Lemma nodup_first_In : forall l seen x, In x (nodup_first seen l) <-> In x l /\ ~ In x seen.
Proof.
  induction l as [|y l IH]; intros seen x; cbn [nodup_first].
  - simpl. tauto.
  - destruct (existsb (N.eqb y) seen) eqn:E.
    + apply existsb_Neqb_In in E. rewrite IH. simpl. split.
      * intros [H1 H2]. tauto.
      * intros [[H1|H1] H2]; [subst; contradiction|tauto].
    + assert (N : ~ In y seen).
      { intros C. apply existsb_Neqb_In in C. congruence. }
      cbn [In]. rewrite IH. cbn [In]. split.
      * intros [H|[H1 H2]]; [subst; tauto|tauto].
      * intros [[H|H] H2]; [left; assumption|].
        destruct (N.eq_dec y x) as [D|D]; [left; assumption|right]. tauto.
Qed.

Lemma nodup_first_NoDup : forall l seen, NoDup (nodup_first seen l).
Proof.
  induction l as [|y l IH]; intros seen; cbn [nodup_first]; [constructor|].
  destruct (existsb (N.eqb y) seen); [apply IH|]. constructor; [|apply IH].
  rewrite nodup_first_In. simpl. tauto.
Qed.

Lemma Forall2_map_r : forall (A B : Type) (P : A -> B -> Prop) (f : A -> B) (l : list A),
  (forall x, In x l -> P x (f x)) -> Forall2 P l (map f l).
Proof.
  intros A B P f l. induction l as [|a l IH]; intros H; cbn [map]; constructor.
  - apply H. left; reflexivity.
  - apply IH. intros x Hx. apply H. right; assumption.
Qed.

Lemma map_fst_combine : forall (A B : Type) (l : list A) (l' : list B),
  length l <= length l' -> map fst (combine l l') = l.
Proof.
  intros A B. induction l as [|a l IH]; intros [|b l'] H; simpl in H; try reflexivity; try lia.
  cbn [combine map fst]. f_equal. apply IH. lia.
Qed.

(* grouping a list by a key drawn from a duplicate-free key list covering it is a permutation *)
Lemma group_by_perm : forall (A : Type) (g : A -> N) (xs : list N) (l : list A),
  NoDup xs -> (forall p, In p l -> In (g p) xs) ->
  Permutation (concat (map (fun x => filter (fun p => N.eqb (g p) x) l) xs)) l.
Proof.
  intros A g xs l ND. induction l as [|p l IH]; intros H.
  - clear. induction xs as [|x xs IH]; [constructor|exact IH].
  - set (F := fun x => filter (fun p0 => N.eqb (g p0) x) l).
    set (G := fun x => filter (fun p0 => N.eqb (g p0) x) (p :: l)).
    assert (GE : forall y, G y = if N.eqb (g p) y then p :: F y else F y) by reflexivity.
    assert (Out : forall ys, ~ In (g p) ys -> concat (map G ys) = concat (map F ys)).
    { induction ys as [|y ys IHy]; intros Hn; [reflexivity|]. cbn [map concat]. rewrite GE.
      destruct (N.eqb (g p) y) eqn:E.
      - apply N.eqb_eq in E. exfalso. apply Hn. left. symmetry; assumption.
      - rewrite IHy; [reflexivity|]. intros C. apply Hn. right; assumption. }
    assert (Inn : forall ys, NoDup ys -> In (g p) ys ->
              Permutation (concat (map G ys)) (p :: concat (map F ys))).
    { induction ys as [|y ys IHy]; intros NDy Hy; [contradiction|]. inversion NDy; subst.
      cbn [map concat]. rewrite GE. destruct (N.eqb (g p) y) eqn:E.
      - apply N.eqb_eq in E. subst y. rewrite Out by assumption. apply Permutation_refl.
      - destruct Hy as [Hy|Hy]; [subst y; rewrite N.eqb_refl in E; discriminate|].
        eapply Permutation_trans; [apply Permutation_app_head, IHy; assumption|].
        apply Permutation_sym, Permutation_middle. }
    eapply Permutation_trans; [apply Inn; [assumption|apply H; left; reflexivity]|].
    apply perm_skip. apply IH. intros q Hq. apply H. right; assumption.
Qed.

Lemma tris_of_mat_partition : forall (ts : list (list nat)) (tm xs : list N),
  length ts <= length tm -> NoDup xs -> (forall x, In x tm -> In x xs) ->
  Permutation (concat (map (tris_of_mat ts tm) xs)) ts.
Proof.
  intros ts tm xs L ND H.
  assert (E : concat (map (tris_of_mat ts tm) xs) =
              map fst (concat (map (fun x => filter (fun p : list nat * N => N.eqb (snd p) x) (combine ts tm)) xs))).
  { rewrite concat_map, map_map. reflexivity. }
  rewrite E. apply Permutation_trans with (map fst (combine ts tm));
    [|rewrite (map_fst_combine _ _ ts tm L); apply Permutation_refl].
  apply Permutation_map. apply (group_by_perm _ snd); [assumption|].
  intros [t x] Hp. cbn [snd]. apply H. eapply in_combine_r; eassumption.
Qed.

Theorem split_partition : forall m c0 mat0 p2 rest, wf m -> topology m = Triangle ->
  materials m = (c0, mat0) :: p2 :: rest ->
  length (chunk3 (indices m)) <= length (tri_mats (materials m)) ->
  let ts := chunk3 (indices m) in
  let tm := firstn (length ts) (tri_mats (materials m)) in
  exists parts xs, split m = Ok parts
    /\ NoDup xs /\ (forall x, In x xs <-> x = mat0 \/ In x tm)
    /\ Forall2 (fun x p =>
         materials p = [(length (indices p) / 3, x)]
         /\ corners p = map (row m) (concat (tris_of_mat ts tm x))
         /\ prims p = map (map (row m)) (tris_of_mat ts tm x)
         /\ topology p = Triangle
         /\ (forall v, v < nverts p -> In v (indices p))
         /\ (indices p <> [] -> keys p = keys m)) xs parts
    /\ Permutation (concat (map prims parts)) (prims m).
Proof.
  intros m c0 mat0 p2 rest W T M Hlen ts tm.
  assert (Ltm : length tm = length ts).
  { unfold tm. rewrite firstn_length. fold ts in Hlen. lia. }
  unfold split. rewrite M, T. rewrite <- M. fold ts. fold tm.
  assert (Lt : (length tm <? length ts) = false) by (apply Nat.ltb_ge; lia). rewrite Lt.
  set (xs := nodup_first [] (mat0 :: tm)).
  set (mk := fun mat => remove_unref (set_material (set_indices m (concat (tris_of_mat ts tm mat))) mat)).
  exists (map mk xs), xs. split; [reflexivity|].
  assert (Hxs : forall x, In x xs <-> x = mat0 \/ In x tm).
  { intros x. unfold xs. rewrite nodup_first_In. simpl. split; [intros [[H|H] _]; auto|intros [H|H]; auto]. }
  assert (Sub : forall x c, In c (tris_of_mat ts tm x) -> In c (chunk3 (indices m))).
  { intros x c Hc. eapply tris_of_mat_sub; eassumption. }
  assert (L3 : forall x, Forall (fun c : list nat => length c = 3) (tris_of_mat ts tm x)).
  { intros x. rewrite Forall_forall. intros c Hc. pose proof (chunk3_lengths _ (indices m)) as F.
    rewrite Forall_forall in F. apply F. eapply Sub; eassumption. }
  assert (Wx : forall x, wf (set_material (set_indices m (concat (tris_of_mat ts tm x))) x)).
  { intros x. apply set_material_wf, set_indices_wf; [assumption| |].
    - apply chunk3_sub_Forall with (l := indices m); [apply Sub|apply W].
    - rewrite T. cbn [count_okb]. apply Nat.eqb_eq. apply chunk3_sub_mod with (l := indices m). apply Sub. }
  assert (Cx : forall x, corners (mk x) = map (row m) (concat (tris_of_mat ts tm x))).
  { intros x. unfold mk. rewrite remove_unref_corners by apply Wx. reflexivity. }
  assert (Px : forall x, prims (mk x) = map (map (row m)) (tris_of_mat ts tm x)).
  { intros x. unfold prims. rewrite Cx. change (topology (mk x)) with (topology m). rewrite T. cbn [units].
    rewrite chunk3_map. f_equal. apply (units_concat _ Triangle). apply L3. }
  split; [apply nodup_first_NoDup|]. split; [exact Hxs|]. split.
  - apply Forall2_map_r. intros x _.
    split; [|split; [apply Cx|split; [apply Px|split; [exact T|split]]]].
    + unfold mk. destruct (remove_unref_shell (set_material (set_indices m (concat (tris_of_mat ts tm x))) x)) as [_ [Mx Lx]].
      rewrite Mx, Lx. unfold set_material. cbn [set_materials set_indices materials indices topology].
      rewrite T. reflexivity.
    + apply remove_unref_all_referenced, Wx.
    + intros N. unfold mk. rewrite remove_unref_keys; [reflexivity|apply Wx|].
      intros E. apply N. unfold mk, remove_unref. rewrite remove_unref_with_indices, E. reflexivity.
  - rewrite map_map. rewrite (map_ext _ _ Px).
    rewrite <- (map_map (tris_of_mat ts tm) (map (map (row m)))), <- concat_map.
    unfold prims, corners. rewrite T. cbn [units]. rewrite chunk3_map. apply Permutation_map.
    apply tris_of_mat_partition; [rewrite Ltm; apply le_n|apply nodup_first_NoDup|]. intros x Hx. apply Hxs. right; assumption.
Qed.

(* a mesh with at most one material range is returned unchanged *)
Theorem split_single : forall m, length (materials m) <= 1 -> split m = Ok [m].
Proof.
  intros m H. unfold split. revert H. destruct (materials m) as [|[c a] [|b r]]; intros H; try reflexivity.
  simpl in H. lia.
Qed.

(* ================================================================ 10. repeat.Mesh *)
Lemma sorted_keys_ext : forall l1 l2 : list key,
  ssortedb l1 = true -> ssortedb l2 = true -> (forall k, In k l1 <-> In k l2) -> l1 = l2.
Proof.
  induction l1 as [|a1 r1 IH]; intros [|a2 r2] S1 S2 H.
  - reflexivity.
  - exfalso. apply (H a2). left; reflexivity.
  - exfalso. apply (H a1). left; reflexivity.
  - apply ssortedb_cons in S1. apply ssortedb_cons in S2. destruct S1 as [A1 S1]. destruct S2 as [A2 S2].
    assert (E : a1 = a2).
    { destruct (proj1 (H a1) (or_introl eq_refl)) as [E|I1]; [symmetry; assumption|].
      destruct (proj2 (H a2) (or_introl eq_refl)) as [E|I2]; [assumption|].
      apply A2 in I1. apply A1 in I2. rewrite (key_ltb_asym _ _ I1) in I2. discriminate. }
    subst a2. f_equal. apply IH; try assumption. intros k. split; intros Hk.
    + destruct (proj1 (H k) (or_intror Hk)) as [E|I]; [|assumption].
      subst k. apply A1 in Hk. rewrite key_ltb_irrefl in Hk. discriminate.
    + destruct (proj2 (H k) (or_intror Hk)) as [E|I]; [|assumption].
      subst k. apply A2 in Hk. rewrite key_ltb_irrefl in Hk. discriminate.
Qed.

Lemma append_nverts : forall a b r, wf a -> wf b -> append a b = Ok [r] -> keys r <> [] ->
  nverts r = nverts a + nverts b.
Proof.
  intros a b r Wa Wb E N.
  assert (T : topology a = topology b).
  { unfold append in E. destruct (topo_eqb (topology a) (topology b)) eqn:T; [|discriminate].
    apply topo_eqb_eq, T. }
  destruct (append_spec a b Wa Wb T) as [r' [E' [_ [_ [_ [_ [Lk _]]]]]]].
  rewrite E in E'. inversion E'; subst r'. clear E'.
  unfold nverts at 1. unfold keys in N. destruct (attrs r) as [|[k d] l] eqn:Ar; [contradiction|].
  rewrite (Lk k d) by (cbn [lookup]; rewrite key_eqb_refl; reflexivity).
  rewrite app_length, !part_length by assumption. reflexivity.
Qed.

Section RepeatLaws.
  Variable pos : N.
  Variable m : mesh.
  Variable d : list vec.
  Hypothesis Wm : wf m.
  Hypothesis Lpos : lookup (3%N, pos) (attrs m) = Some d.
  Hypothesis Dne : d <> [].

  (* attribute k of the result: the position attribute is the concatenation of the transformed
     copies, every other attribute the concatenation of unchanged copies *)
  Definition rdata (k : key) (dk : list vec) (ts : list (vec * vec * vec)) : list vec :=
    if key_eqb k (3%N, pos) then concat (map (fun t => map (trs_v t) dk) ts)
    else concat (map (fun _ => dk) ts).
  Definition ridx (j : nat) : list nat :=
    concat (map (fun j => map (fun i => i + j * nverts m) (indices m)) (seq 0 j)).

  Definition rinv (acc : mesh) (done : list (vec * vec * vec)) : Prop :=
    wf acc /\ topology acc = topology m /\ nverts acc = length done * nverts m
    /\ indices acc = ridx (length done)
    /\ materials acc = concat (map (fun _ => materials m) done)
    /\ (done = [] -> attrs acc = [])
    /\ (done <> [] -> forall k, lookup k (attrs acc) =
                                option_map (fun dk => rdata k dk done) (lookup k (attrs m))).

  Lemma rdata_snoc : forall k dk done t,
    rdata k dk (done ++ [t]) =
    rdata k dk done ++ (if key_eqb k (3%N, pos) then map (trs_v t) dk else dk).
  Proof.
    intros k dk done t. unfold rdata. destruct (key_eqb k (3%N, pos));
      rewrite map_app, concat_app; cbn [map concat]; rewrite app_nil_r; reflexivity.
  Qed.

  Lemma ridx_S : forall j, ridx (S j) = ridx j ++ map (fun i => i + j * nverts m) (indices m).
  Proof.
    intros j. unfold ridx. rewrite seq_S, map_app, concat_app. cbn [map concat Nat.add].
    rewrite app_nil_r. reflexivity.
  Qed.

  Lemma repeat_copy : forall t, exists c, apply_trs pos t m = Ok [c]
    /\ wf c /\ topology c = topology m /\ indices c = indices m /\ materials c = materials m
    /\ nverts c = nverts m
    /\ (forall k, lookup k (attrs c) =
                  if key_eqb k (3%N, pos) then Some (map (trs_v t) d) else lookup k (attrs m)).
  Proof.
    intros t.
    destruct (modify_attr_frame (3%N, pos) (map (trs_v t)) m d Lpos) as [c [E [T [I [M [Lc [Fc _]]]]]]].
    { destruct d; [contradiction|discriminate]. }
    fold (apply_trs pos t m) in E. exists c. split; [exact E|].
    assert (Wc : wf c).
    { pose proof (apply_trs_wf pos t m Wm) as H. rewrite E in H. inversion H; assumption. }
    repeat split; try assumption; try apply Wc.
    - rewrite <- (wf_lookup_length c _ _ Wc Lc), map_length. eapply wf_lookup_length; eassumption.
    - intros k. destruct (key_eqb k (3%N, pos)) eqn:Ek.
      + apply key_eqb_eq in Ek. subst k. exact Lc.
      + apply Fc. apply key_eqb_neq. assumption.
  Qed.

  Lemma repeat_from_inv : forall ts done acc, rinv acc done ->
    exists r, repeat_from pos acc m ts = Ok [r] /\ rinv r (done ++ ts).
  Proof.
    induction ts as [|t ts IH]; intros done acc Inv.
    - exists acc. rewrite app_nil_r. split; [reflexivity|assumption].
    - cbn [repeat_from]. destruct (repeat_copy t) as [c [Ec [Wc [Tc [Ic [Mc [Nc Lc]]]]]]]. rewrite Ec.
      destruct Inv as [Wa [Ta [Na [Ia [Ma [A0 A1]]]]]].
      assert (Tac : topology acc = topology c) by congruence.
      destruct (append_spec acc c Wa Wc Tac) as [r [Er [Tr [Ir [Mr [Kr _]]]]]]. rewrite Er.
      replace (done ++ t :: ts) with ((done ++ [t]) ++ ts) by (rewrite <- app_assoc; reflexivity).
      apply IH.
      assert (Wr : wf r).
      { pose proof (append_wf acc c Wa Wc) as H. rewrite Er in H. inversion H; assumption. }
      assert (Lr : forall k, lookup k (attrs r) =
                             option_map (fun dk => rdata k dk (done ++ [t])) (lookup k (attrs m))).
      { intros k. assert (Er' := Er). unfold append in Er'. rewrite Tac, topo_eqb_refl in Er'.
        inversion Er' as [Er'']. cbn [attrs]. rewrite append_attrs_lookup by apply Wc.
        rewrite Lc. destruct done as [|t0 done'].
        - rewrite (A0 eq_refl). cbn [lookup app]. unfold rdata. destruct (key_eqb k (3%N, pos)) eqn:Ek.
          + apply key_eqb_eq in Ek. subst k. rewrite Lpos. cbn [option_map map concat].
            rewrite Na. cbn [length Nat.mul]. unfold zeros. cbn [repeat app]. rewrite app_nil_r. reflexivity.
          + destruct (lookup k (attrs m)) as [dk|]; [|reflexivity]. cbn [option_map map concat].
            rewrite Na. cbn [length Nat.mul]. unfold zeros. cbn [repeat app]. rewrite app_nil_r. reflexivity.
        - rewrite A1 by discriminate. destruct (lookup k (attrs m)) as [dk|] eqn:Lk.
          + cbn [option_map]. rewrite rdata_snoc. destruct (key_eqb k (3%N, pos)) eqn:Ek; [|reflexivity].
            apply key_eqb_eq in Ek. subst k. rewrite Lpos in Lk. inversion Lk. reflexivity.
          + cbn [option_map]. destruct (key_eqb k (3%N, pos)) eqn:Ek; [|reflexivity].
            apply key_eqb_eq in Ek. subst k. rewrite Lpos in Lk. discriminate. }
      assert (Kne : keys r <> []).
      { intros C. assert (I : In (3%N, pos) (keys r)).
        { apply In_keys_lookup. rewrite Lr, Lpos. discriminate. }
        rewrite C in I. contradiction. }
      unfold rinv. split; [exact Wr|]. split; [congruence|]. split; [|split; [|split; [|split]]].
      + rewrite (append_nverts acc c r Wa Wc Er Kne), Na, Nc, app_length. cbn [length]. lia.
      + rewrite Ir, Ia, Ic, Na, app_length. cbn [length]. rewrite Nat.add_1_r, ridx_S. reflexivity.
      + rewrite Mr, Ma, Mc, map_app, concat_app. cbn [map concat]. rewrite app_nil_r. reflexivity.
      + intros C. destruct done; discriminate.
      + intros _. exact Lr.
  Qed.

  Theorem repeat_spec : forall ts, ts <> [] ->
    exists r, repeat_mesh pos m ts = Ok [r]
      /\ wf r /\ topology r = topology m
      /\ indices r = concat (map (fun j => map (fun i => i + j * nverts m) (indices m)) (seq 0 (length ts)))
      /\ materials r = concat (map (fun _ => materials m) ts)
      /\ keys r = keys m
      /\ nverts r = length ts * nverts m
      /\ (forall k dk, lookup k (attrs m) = Some dk ->
            lookup k (attrs r) =
            Some (if key_eqb k (3%N, pos) then concat (map (fun t => map (trs_v t) dk) ts)
                  else concat (map (fun _ => dk) ts))).
  Proof.
    intros ts Hts. unfold repeat_mesh.
    destruct (repeat_from_inv ts [] (empty_mesh (topology m))) as [r [E Inv]].
    { unfold rinv. split; [apply empty_mesh_wf|]. repeat split; try reflexivity. intros C; contradiction. }
    cbn [app] in Inv. exists r. split; [exact E|].
    destruct Inv as [Wr [Tr [Nr [Ir [Mr [_ Lr]]]]]]. specialize (Lr Hts).
    repeat split; try assumption; try apply Wr.
    - apply sorted_keys_ext; [apply Wr|apply Wm|]. intros k. unfold keys.
      rewrite !In_keys_lookup, Lr. destruct (lookup k (attrs m)); cbn [option_map]; split; congruence.
    - intros k dk Lk. rewrite Lr, Lk. reflexivity.
  Qed.
End RepeatLaws.

Theorem repeat_nil : forall pos m, repeat_mesh pos m [] = Ok [empty_mesh (topology m)].
Proof. reflexivity. Qed.

Theorem repeat_declared : forall pos m t ts, lookup (3%N, pos) (attrs m) = None ->
  repeat_mesh pos m (t :: ts) = Declared.
Proof.
  intros pos m t ts L. unfold repeat_mesh. cbn [repeat_from]. unfold apply_trs, modify_attr. rewrite L. reflexivity.
Qed.

(* ================================================================ 11. the model satisfies the boolean oracle *)
Lemma rows_eqb_refl : forall x, rows_eqb x x = true.
Proof. intros x. apply list_eqb_refl. intros y. apply list_eqb_refl. apply vec_eqb_refl. Qed.
Lemma idx_eqb_refl : forall x, idx_eqb x x = true.
Proof. intros x. apply list_eqb_refl. apply Nat.eqb_refl. Qed.
Lemma mat_eqb_refl : forall x, mat_eqb x x = true.
Proof. intros [c x]. unfold mat_eqb. cbn [fst snd]. rewrite Nat.eqb_refl, N.eqb_refl. reflexivity. Qed.
Lemma mats_eqb_refl : forall x, mats_eqb x x = true.
Proof. intros x. apply list_eqb_refl. apply mat_eqb_refl. Qed.
Lemma attr_eqb_refl : forall x, attr_eqb x x = true.
Proof.
  intros [k d]. unfold attr_eqb. cbn [fst snd]. rewrite key_eqb_refl. apply list_eqb_refl. apply vec_eqb_refl.
Qed.
Lemma attrs_eqb_refl : forall x, attrs_eqb x x = true.
Proof. intros x. apply list_eqb_refl. apply attr_eqb_refl. Qed.
Lemma keys_eqb_refl : forall x, keys_eqb x x = true.
Proof. intros x. apply list_eqb_refl. apply key_eqb_refl. Qed.
Lemma mesh_eqb_refl : forall x, mesh_eqb x x = true.
Proof.
  intros x. unfold mesh_eqb. rewrite topo_eqb_refl. fold (idx_eqb (indices x) (indices x)).
  fold (mats_eqb (materials x) (materials x)). fold (attrs_eqb (attrs x) (attrs x)).
  rewrite idx_eqb_refl, mats_eqb_refl, attrs_eqb_refl. reflexivity.
Qed.

Lemma same_shell_intro : forall m r, topology r = topology m -> materials r = materials m -> same_shell m r = true.
Proof. intros m r T M. unfold same_shell. rewrite T, M, topo_eqb_refl, mats_eqb_refl. reflexivity. Qed.

Lemma all_referenced_intro : forall r, (forall v, v < nverts r -> In v (indices r)) -> all_referenced r = true.
Proof.
  intros r H. unfold all_referenced. apply forallb_forall. intros v Hv. apply in_seq in Hv.
  apply existsb_eqb_In. apply H. lia.
Qed.

Lemma inputs_ok_1 : forall o m, inputs_ok o [m] = true -> wf m /\ op_pre o [m] = true.
Proof.
  intros o m H. unfold inputs_ok in H. apply andb_true_iff in H. destruct H as [H1 H2].
  cbn [forallb] in H1. rewrite andb_true_r in H1. split; [apply wfb_wf, H1|exact H2].
Qed.

Lemma contract_unweld : forall m, contract OUnweld [m] (step OUnweld [m]) = true.
Proof.
  intros m. cbn [contract step]. destruct (unweld_corners m) as [C [I [T [M K]]]].
  rewrite C, I, K, rows_eqb_refl, idx_eqb_refl, keys_eqb_refl, same_shell_intro by assumption.
  cbn [andb]. destruct (attrs m) as [|x l] eqn:E; [reflexivity|].
  cbn [is_nil orb]. apply Nat.eqb_eq. apply unweld_nverts. rewrite E. discriminate.
Qed.

Lemma contract_flip : forall m, contract OFlip [m] (step OFlip [m]) = true.
Proof.
  intros m. cbn [contract step]. unfold is_tri. destruct (topology m) eqn:T; cbn [topo_eqb];
    try (unfold flip; rewrite T; reflexivity).
  destruct (flip_spec m T) as [r [E [C [I [A [M Tr]]]]]]. rewrite E.
  rewrite C, I, A, rows_eqb_refl, idx_eqb_refl, attrs_eqb_refl, same_shell_intro by assumption. reflexivity.
Qed.

Lemma contract_to_points : forall m, contract OToPoints [m] (step OToPoints [m]) = true.
Proof.
  intros m. cbn [contract step]. destruct (to_points_spec m) as [A [M [T [P I]]]].
  rewrite T, A, M, mats_eqb_refl, attrs_eqb_refl. cbn [topo_eqb andb].
  destruct (topology m) eqn:Tm; cbn [topo_eqb];
    try (rewrite I by discriminate; apply idx_eqb_refl).
  rewrite (P eq_refl). apply idx_eqb_refl.
Qed.

Lemma contract_set_indices : forall idx m, contract (OSetIndices idx) [m] (step (OSetIndices idx) [m]) = true.
Proof.
  intros idx m. cbn [contract step]. unfold set_indices. cbn [indices attrs].
  rewrite same_shell_intro, attrs_eqb_refl, idx_eqb_refl by reflexivity. reflexivity.
Qed.

Lemma contract_set_materials : forall ms m, contract (OSetMaterials ms) [m] (step (OSetMaterials ms) [m]) = true.
Proof.
  intros ms m. cbn [contract step]. unfold set_materials. cbn [topology indices attrs materials].
  rewrite topo_eqb_refl, attrs_eqb_refl, idx_eqb_refl, mats_eqb_refl. reflexivity.
Qed.

Lemma remove_key_insert : forall k d' (l : list attr), ssortedb (map fst l) = true ->
  remove_key k (insert k d' l) = remove_key k l.
Proof.
  intros k d'. induction l as [|[k' d0] l IH]; intros S'; cbn [insert].
  - unfold remove_key. cbn [filter fst]. rewrite key_eqb_refl. reflexivity.
  - cbn [map fst] in S'. apply ssortedb_cons in S'. destruct S' as [S1 S2].
    destruct (key_eqb k k') eqn:E1.
    + unfold remove_key. cbn [filter fst]. rewrite key_eqb_refl, E1. reflexivity.
    + destruct (key_ltb k k').
      * unfold remove_key. cbn [filter fst]. rewrite key_eqb_refl, E1. reflexivity.
      * unfold remove_key in *. cbn [filter fst]. rewrite E1. cbn [negb]. f_equal. apply IH, S2.
Qed.

Lemma remove_key_idem : forall k (l : list attr), remove_key k (remove_key k l) = remove_key k l.
Proof. intros k l. unfold remove_key. apply filter_idem. Qed.

(* SetFloatNAttribute touches exactly attribute k *)
Lemma set_attr_contract : forall k d m, wf m ->
  let r := set_attr k d m in
  same_shell m r && idx_eqb (indices m) (indices r)
  && attrs_eqb (remove_key k (attrs m)) (remove_key k (attrs r))
  && match d, lookup k (attrs r) with
     | [], None => true
     | _ :: _, Some dr => list_eqb vec_eqb d dr
     | _, _ => false
     end = true.
Proof.
  intros k d m W r. unfold r, set_attr. cbn [indices attrs].
  rewrite same_shell_intro, idx_eqb_refl by reflexivity. cbn [andb].
  destruct d as [|x d'].
  - rewrite remove_key_idem, attrs_eqb_refl, lookup_remove_same. reflexivity.
  - rewrite remove_key_insert by apply W. rewrite attrs_eqb_refl, lookup_insert_same. cbn [andb].
    apply list_eqb_refl. apply vec_eqb_refl.
Qed.

Lemma contract_set_attr : forall k d m, wf m -> contract (OSetAttr k d) [m] (step (OSetAttr k d) [m]) = true.
Proof. intros k d m W. cbn [contract step]. apply set_attr_contract, W. Qed.

Lemma only_attr_changesb_modify : forall k f m, wf m -> only_attr_changesb k f m (modify_attr k f m) = true.
Proof.
  intros k f m W. unfold only_attr_changesb, modify_attr. destruct (lookup k (attrs m)) as [d|]; [|reflexivity].
  pose proof (set_attr_contract k (f d) m W) as H. cbv zeta in H.
  destruct (f d) as [|x fd]; exact H.
Qed.

Lemma contract_remove_unref : forall m, wf m -> contract ORemoveUnref [m] (step ORemoveUnref [m]) = true.
Proof.
  intros m W. cbn [contract step]. destruct (remove_unref_shell m) as [T [M _]].
  rewrite same_shell_intro by assumption.
  rewrite all_referenced_intro by (apply remove_unref_all_referenced, W). cbn [andb].
  destruct (indices m) as [|i0 l0] eqn:EI.
  - destruct (remove_unref_empty m W EI) as [A I]. rewrite A, I. cbn [is_nil andb]. rewrite andb_true_r.
    unfold rows at 1. unfold nverts. rewrite A. cbn [seq map].
    rewrite compact_none; [reflexivity|].
    unfold used_mask. rewrite Forall_forall. intros x Hx. apply in_map_iff in Hx.
    destruct Hx as [v [Ev _]]. subst x. reflexivity.
  - rewrite <- EI. assert (N : indices m <> []) by (rewrite EI; discriminate).
    rewrite remove_unref_order, remove_unref_keys, remove_unref_corners by assumption.
    rewrite rows_eqb_refl, keys_eqb_refl, rows_eqb_refl. rewrite EI. reflexivity.
Qed.

Lemma kept_all : forall (f : list nat -> bool) (idx : list nat), length idx mod 3 = 0 ->
  length (concat (filter f (chunk3 idx))) = length idx -> concat (filter f (chunk3 idx)) = idx.
Proof.
  intros f idx Q E.
  assert (F : filter f (chunk3 idx) = chunk3 idx).
  { apply filter_length_eq. rewrite chunk3_filter_length in E.
    pose proof (concat_length_const _ 3 (chunk3 idx) (chunk3_lengths _ idx)) as C.
    rewrite (concat_chunk3 _ idx Q) in C. lia. }
  rewrite F. apply concat_chunk3, Q.
Qed.

Lemma contract_remove_null : forall a keep m, wf m ->
  contract (ORemoveNull a keep) [m] (step (ORemoveNull a keep) [m]) = true.
Proof.
  intros a keep m W. cbn [contract step]. unfold remove_null.
  destruct (topology m) eqn:T; try reflexivity; try (destruct (lookup (3%N, a) (attrs m)); reflexivity).
  destruct (lookup (3%N, a) (attrs m)) as [d|] eqn:L; [|reflexivity].
  pose proof (keep_units_spec m (fun t => keep (gather t d)) W) as H. rewrite T in H. cbn [units] in H.
  cbv zeta in H. destruct H as [_ [C [_ [R [T' [M _]]]]]].
  destruct (length (concat (filter (fun t => keep (gather t d)) (chunk3 (indices m)))) =? length (indices m)) eqn:E.
  - apply Nat.eqb_eq in E. rewrite kept_all; [|destruct W as [_ [_ [WC _]]]; rewrite T in WC; apply Nat.eqb_eq, WC|exact E].
    rewrite same_shell_intro by reflexivity. fold (corners m). rewrite rows_eqb_refl, mesh_eqb_refl. reflexivity.
  - rewrite same_shell_intro by (try rewrite T; assumption). rewrite C, rows_eqb_refl.
    rewrite all_referenced_intro by exact R. reflexivity.
Qed.

Lemma contract_filter : forall k p m, wf m -> contract (OFilter k p) [m] (step (OFilter k p) [m]) = true.
Proof.
  intros k p m W. cbn [contract step]. unfold filter_attr, filter_idx.
  destruct (lookup k (attrs m)) as [d|] eqn:L; [|reflexivity].
  destruct (keep_units_spec m (forallb (fun i => p (nth i d []))) W) as [_ [C [_ [R [T [M K]]]]]].
  rewrite same_shell_intro by assumption. rewrite all_referenced_intro by exact R. rewrite C, rows_eqb_refl.
  cbn [andb]. destruct (concat (filter (forallb (fun i => p (nth i d []))) (units (topology m) (indices m)))) eqn:EK;
    [reflexivity|]. rewrite K by discriminate. rewrite keys_eqb_refl. reflexivity.
Qed.

Lemma contract_crop : forall a lo hi m, wf m -> contract (OCrop a lo hi) [m] (step (OCrop a lo hi) [m]) = true.
Proof.
  intros a lo hi m W. cbn [contract step].
  destruct (topology m) eqn:T; try (unfold crop; rewrite T; reflexivity).
  destruct (lookup (3%N, a) (attrs m)) as [d|] eqn:L; [|unfold crop; rewrite T, L; reflexivity].
  destruct (crop_spec a lo hi m d W T L) as [r [E [C [I [Tr [M [K Kn]]]]]]]. rewrite E.
  rewrite same_shell_intro by (try rewrite T; assumption). rewrite I, C, idx_eqb_refl, rows_eqb_refl. cbn [andb].
  destruct (filter (fun i => inside lo hi (nth i d [])) (indices m)) as [|i0 l0] eqn:EK.
  - rewrite (Kn eq_refl). reflexivity.
  - cbn [is_nil]. destruct K as [K1 K2]; [discriminate|]. rewrite K1, K2, keys_eqb_refl, Nat.eqb_refl. reflexivity.
Qed.

Lemma mem_key_In : forall k ks, mem_key k ks = true <-> In k ks.
Proof.
  intros k ks. unfold mem_key. rewrite existsb_exists. split.
  - intros [x [Hx E]]. apply key_eqb_eq in E. subst. assumption.
  - intros H. exists k. split; [assumption|apply key_eqb_refl].
Qed.

Lemma contract_append : forall a b, wf a -> wf b -> contract OAppend [a; b] (step OAppend [a; b]) = true.
Proof.
  intros a b Wa Wb. cbn [contract step].
  destruct (topo_eqb (topology a) (topology b)) eqn:T; [|unfold append; rewrite T; reflexivity].
  apply topo_eqb_eq in T. destruct (append_spec a b Wa Wb T) as [r [E [Tr [I [M [K _]]]]]]. rewrite E.
  rewrite Tr, topo_eqb_refl, M, mats_eqb_refl, I, idx_eqb_refl.
  rewrite (append_corners a b r Wa Wb E), rows_eqb_refl.
  assert (F1 : forallb (fun k => mem_key k (keys r)) (keys a ++ keys b) = true).
  { apply forallb_forall. intros k Hk. apply mem_key_In, K. apply in_app_or in Hk. exact Hk. }
  assert (F2 : forallb (fun k => mem_key k (keys a ++ keys b)) (keys r) = true).
  { apply forallb_forall. intros k Hk. apply mem_key_In. apply in_or_app. apply K. exact Hk. }
  rewrite F1, F2. cbn [andb]. rewrite andb_true_r.
  destruct (keys r) as [|k0 l0] eqn:EK; [reflexivity|]. rewrite <- EK. cbn [is_nil orb].
  rewrite (append_all_rows a b r Wa Wb E) by (rewrite EK; discriminate). rewrite rows_eqb_refl.
  apply orb_true_r.
Qed.

Lemma nodupb_vec_intro : forall l, NoDup l -> nodupb_vec l = true.
Proof.
  intros l ND. induction ND as [|x l Hx ND IH]; [reflexivity|]. cbn [nodupb_vec]. rewrite IH, andb_true_r.
  destruct (existsb (vec_eqb x) l) eqn:E; [|reflexivity]. exfalso. apply Hx.
  apply existsb_exists in E. destruct E as [y [Hy Ey]]. apply vec_eqb_eq in Ey. subst. assumption.
Qed.

Lemma nodupb_N_intro : forall l, NoDup l -> nodupb_N l = true.
Proof.
  intros l ND. induction ND as [|x l Hx ND IH]; [reflexivity|]. cbn [nodupb_N]. rewrite IH, andb_true_r.
  destruct (existsb (N.eqb x) l) eqn:E; [|reflexivity]. exfalso. apply Hx. apply existsb_Neqb_In, E.
Qed.

Lemma contract_weld : forall a kf m, wf m -> contract (OWeld a kf) [m] (step (OWeld a kf) [m]) = true.
Proof.
  intros a kf m W. cbn [contract step].
  destruct (lookup (3%N, a) (attrs m)) as [d|] eqn:L; [|unfold weld; rewrite L; reflexivity].
  destruct (topology m) eqn:T; try (unfold weld; rewrite L, T; reflexivity).
  destruct (weld_spec vec_eqb kf vec_eqb_eq a m d W T L) as [r [E [C [F [R [K [M [Tr ND]]]]]]]].
  rewrite E. unfold is_tri. rewrite Tr, M, K, C. cbn [topo_eqb is_nil andb].
  rewrite keys_eqb_refl, rows_eqb_refl, all_referenced_intro, nodupb_vec_intro by assumption. cbn [andb].
  apply forallb_forall. intros i Hi.
  assert (Hd : i < length d).
  { rewrite (wf_lookup_length m _ _ W L).
    assert (WI : Forall (fun i => i < nverts m) (indices m)) by apply W.
    pose proof (chunk3_filter_Forall _ _ (distinct3 vec_eqb kf d) (indices m) WI) as G.
    rewrite Forall_forall in G. apply G, Hi. }
  destruct (F i Hd) as [F1 F2]. rewrite F1, vec_eqb_refl. cbn [andb]. apply Nat.leb_le, F2.
Qed.

Lemma contract_split : forall m, wf m -> contract OSplit [m] (step OSplit [m]) = true.
Proof.
  intros m W. cbn [contract step].
  destruct (materials m) as [|[c0 mat0] [|p2 rest]] eqn:M.
  - unfold split. rewrite M. apply mesh_eqb_refl.
  - unfold split. rewrite M. apply mesh_eqb_refl.
  - unfold is_tri. destruct (topology m) eqn:T; cbn [topo_eqb]; try (unfold split; rewrite M, T; reflexivity).
    rewrite <- M.
    destruct (length (firstn (length (chunk3 (indices m))) (tri_mats (materials m))) <? length (chunk3 (indices m))) eqn:Lt.
    + unfold split. rewrite M, T. rewrite <- M, Lt. reflexivity.
    + apply Nat.ltb_ge in Lt. rewrite firstn_length in Lt.
      assert (Hlen : length (chunk3 (indices m)) <= length (tri_mats (materials m))) by lia.
      destruct (split_partition m c0 mat0 p2 rest W T M Hlen) as [parts [xs [E [ND [Hxs [F2 _]]]]]].
      cbv zeta in F2. rewrite E.
      set (ts := chunk3 (indices m)) in *. set (tm := firstn (length ts) (tri_mats (materials m))) in *.
      assert (PM : map (fun p => match materials p with [(_, x)] => x | _ => 0%N end) parts = xs).
      { clear -F2. induction F2 as [|x p xs parts [H _] _ IH]; [reflexivity|]. cbn [map]. rewrite H, IH. reflexivity. }
      rewrite PM. rewrite nodupb_N_intro by assumption. cbn [andb].
      assert (A1 : forallb (fun x => existsb (N.eqb x) (mat0 :: tm)) xs = true).
      { apply forallb_forall. intros x Hx. apply existsb_Neqb_In. apply Hxs in Hx. simpl. destruct Hx; auto. }
      assert (A2 : forallb (fun x => existsb (N.eqb x) xs) tm = true).
      { apply forallb_forall. intros x Hx. apply existsb_Neqb_In. apply Hxs. right; assumption. }
      rewrite A1, A2. cbn [andb].
      clear -F2. induction F2 as [|x p xs parts [H1 [H2 [_ [H4 [H5 H6]]]]] _ IH]; [reflexivity|].
      cbn [forallb]. rewrite IH, andb_true_r. rewrite H1. unfold is_tri. rewrite H4. cbn [topo_eqb andb].
      rewrite all_referenced_intro by assumption. rewrite Nat.eqb_refl, H2, rows_eqb_refl. cbn [andb].
      destruct (indices p) as [|i0 l0] eqn:EI; [reflexivity|]. cbn [is_nil orb].
      rewrite H6 by discriminate. apply keys_eqb_refl.
Qed.

Lemma repeat_from_nil_idx : forall pos m d, lookup (3%N, pos) (attrs m) = Some d -> indices m = [] ->
  forall ts acc, topology acc = topology m -> indices acc = [] ->
  exists r, repeat_from pos acc m ts = Ok [r] /\ indices r = [].
Proof.
  intros pos m d L I. induction ts as [|t ts IH]; intros acc Ta Ia; cbn [repeat_from].
  - exists acc. split; [reflexivity|assumption].
  - unfold apply_trs, modify_attr. rewrite L. unfold append.
    unfold set_attr at 1. cbn [topology]. rewrite Ta, topo_eqb_refl. apply IH.
    + reflexivity.
    + cbn [indices set_attr]. rewrite Ia, I. reflexivity.
Qed.

Lemma contract_repeat : forall pos ts m, wf m ->
  contract (ORepeat pos ts) [m] (step (ORepeat pos ts) [m]) = true.
Proof.
  intros pos ts m W. cbn [contract step]. destruct ts as [|t ts'].
  - rewrite repeat_nil. apply mesh_eqb_refl.
  - destruct (lookup (3%N, pos) (attrs m)) as [d|] eqn:L; [|rewrite repeat_declared by assumption; reflexivity].
    destruct (nverts m =? 0) eqn:N0.
    + apply Nat.eqb_eq in N0.
      destruct (repeat_from_nil_idx pos m d L (wf_nverts_0 m W N0) (t :: ts') (empty_mesh (topology m)))
        as [r [E I]]; try reflexivity.
      unfold repeat_mesh. rewrite E, I. reflexivity.
    + apply Nat.eqb_neq in N0.
      assert (Dne : d <> []).
      { intros C. apply N0. rewrite <- (wf_lookup_length m _ _ W L), C. reflexivity. }
      destruct (repeat_spec pos m d W L Dne (t :: ts')) as [r [E [Wr [T [I [M [K [_ Lr]]]]]]]]; [discriminate|].
      rewrite E, T, M, K, I, topo_eqb_refl, mats_eqb_refl, keys_eqb_refl, idx_eqb_refl. cbn [andb].
      apply forallb_forall. intros [k dk] Hx. cbn [fst snd]. unfold data_or_nil.
      rewrite (Lr k dk) by (apply In_lookup; [assumption|apply W]).
      apply list_eqb_refl. apply vec_eqb_refl.
Qed.

(* ------------------------------------------------------------------ all operations *)
(* [contract] answers false when the number of inputs does not fit the operation (its last match
   arm), so the arity is a hypothesis; the harness always supplies the right number of meshes *)
Lemma kept_okb_intro : forall m g, wf m ->
  kept_okb m (concat (filter g (units (topology m) (indices m))))
           (remove_unref (set_indices m (concat (filter g (units (topology m) (indices m)))))) = true.
Proof.
  intros m g W. unfold kept_okb.
  destruct (keep_units_spec m g W) as [_ [C [_ [R [T [M K]]]]]].
  rewrite same_shell_intro by assumption. rewrite all_referenced_intro by exact R. rewrite C, rows_eqb_refl.
  cbn [andb]. destruct (concat (filter g (units (topology m) (indices m)))) eqn:EK; [reflexivity|].
  rewrite K by discriminate. rewrite keys_eqb_refl. reflexivity.
Qed.

Lemma contract_slice : forall a clip m, wf m -> contract (OSlice a clip) [m] (step (OSlice a clip) [m]) = true.
Proof.
  intros a clip m W. cbn [contract step]. unfold slice, filter_idx.
  destruct (topology m) eqn:T; try reflexivity; try (destruct (lookup (3%N, a) (attrs m)); reflexivity).
  destruct (lookup (3%N, a) (attrs m)) as [d|] eqn:L; [|reflexivity].
  pose proof (kept_okb_intro m (forallb (fun i => clip (nth i d []))) W) as H1.
  pose proof (kept_okb_intro m (forallb (fun i => negb (clip (nth i d [])))) W) as H2.
  rewrite T in H1, H2. cbn [units] in H1, H2 |- *. rewrite H1, H2. reflexivity.
Qed.

Lemma contract_scale_along_normal : forall a nrm amt m, wf m ->
  contract (OScaleAlongNormal a nrm amt) [m] (step (OScaleAlongNormal a nrm amt) [m]) = true.
Proof.
  intros a nrm amt m W. cbn [contract step]. unfold scale_along_normal.
  destruct (lookup (3%N, nrm) (attrs m)) as [dn|]; [|reflexivity].
  apply only_attr_changesb_modify, W.
Qed.

(* SliceByPlaneWithAttribute, any side test: each half holds exactly the triangles wholly on its side, in
   order, with unchanged corner content and no unreferenced vertex; a triangle is in at most one half, and
   in neither iff the plane separates its corners *)
Theorem slice_spec : forall a clip m d, wf m -> topology m = Triangle -> lookup (3%N, a) (attrs m) = Some d ->
  let above := filter (forallb (fun i => clip (nth i d []))) (chunk3 (indices m)) in
  let below := filter (forallb (fun i => negb (clip (nth i d [])))) (chunk3 (indices m)) in
  exists ra rb, slice a clip m = Ok [ra; rb]
    /\ prims ra = map (map (row m)) above /\ prims rb = map (map (row m)) below
    /\ corners ra = map (row m) (concat above) /\ corners rb = map (row m) (concat below)
    /\ (forall v, v < nverts ra -> In v (indices ra)) /\ (forall v, v < nverts rb -> In v (indices rb))
    /\ topology ra = Triangle /\ topology rb = Triangle
    /\ materials ra = materials m /\ materials rb = materials m
    /\ (forall t, In t above -> In t below -> t = []).
Proof.
  intros a clip m d W T L above below. unfold slice, filter_idx. rewrite T, L.
  pose proof (keep_units_spec m (forallb (fun i => clip (nth i d []))) W) as H1.
  pose proof (keep_units_spec m (forallb (fun i => negb (clip (nth i d [])))) W) as H2.
  rewrite T in H1, H2. cbn [units] in H1, H2 |- *. cbv zeta in H1, H2.
  destruct H1 as [_ [C1 [P1 [R1 [T1 [M1 _]]]]]]. destruct H2 as [_ [C2 [P2 [R2 [T2 [M2 _]]]]]].
  eexists. eexists. split; [reflexivity|].
  repeat split; try assumption.
  intros t Ha Hb. unfold above in Ha. unfold below in Hb.
  apply filter_In in Ha. apply filter_In in Hb. destruct Ha as [_ Ha]. destruct Hb as [_ Hb].
  destruct t as [|i t']; [reflexivity|]. cbn [forallb] in Ha, Hb.
  apply andb_true_iff in Ha. apply andb_true_iff in Hb. destruct Ha as [Ha _]. destruct Hb as [Hb _].
  rewrite Ha in Hb. discriminate.
Qed.

Theorem slice_declared : forall a clip m,
  topology m <> Triangle \/ lookup (3%N, a) (attrs m) = None -> slice a clip m = Declared.
Proof.
  intros a clip m [H|H]; unfold slice.
  - destruct (topology m); try reflexivity. exfalso. apply H. reflexivity.
  - rewrite H. destruct (topology m); reflexivity.
Qed.

(* ScaleAttributeAlongNormal: exactly attribute a changes, value i becomes v_i + amount * n_i *)
Theorem scale_along_normal_spec : forall a nrm amt m d dn, wf m ->
  lookup (3%N, a) (attrs m) = Some d -> lookup (3%N, nrm) (attrs m) = Some dn -> d <> [] ->
  exists r d', scale_along_normal a nrm amt m = Ok [r]
    /\ topology r = topology m /\ indices r = indices m /\ materials r = materials m
    /\ lookup (3%N, a) (attrs r) = Some d' /\ length d' = length d
    /\ (forall i, i < length d -> nth i d' [] = vzip Z.add (nth i d []) (map (Z.mul amt) (nth i dn [])))
    /\ (forall k', k' <> (3%N, a) -> lookup k' (attrs r) = lookup k' (attrs m))
    /\ keys r = keys m.
Proof.
  intros a nrm amt m d dn W L Ln D. unfold scale_along_normal. rewrite Ln.
  assert (LN : along_normal amt dn d <> []).
  { intros E. apply D. apply length_zero_iff_nil. rewrite <- (along_normal_length amt dn d), E. reflexivity. }
  destruct (modify_attr_frame (3%N, a) (along_normal amt dn) m d L LN) as [r [E [T [I [M [Lr [Fr Kr]]]]]]].
  exists r, (along_normal amt dn d). split; [exact E|]. split; [exact T|]. split; [exact I|]. split; [exact M|].
  split; [exact Lr|]. split; [apply along_normal_length|]. split; [|split; [exact Fr|apply Kr, W]].
  intros i Hi. unfold along_normal.
  rewrite (nth_map_lt _ _ _ _ _ _ (0%nat, @nil Z)) by (rewrite combine_length, seq_length, Nat.min_id; exact Hi).
  rewrite combine_nth by apply seq_length. cbn [fst snd]. rewrite seq_nth by exact Hi. reflexivity.
Qed.

Definition op_arity (o : op) : nat := match o with OAppend => 2 | _ => 1 end.

Theorem contract_sound : forall o ins, length ins = op_arity o ->
  inputs_ok o ins = true -> contract o ins (step o ins) = true.
Proof.
  intros o ins A H.
  destruct ins as [|m1 [|m2 [|m3 rest]]].
  - destruct o; discriminate.
  - destruct (inputs_ok_1 o m1 H) as [W P].
    destruct o.
    + discriminate.
    + apply contract_unweld.
    + apply contract_remove_unref, W.
    + apply contract_remove_null, W.
    + apply contract_flip.
    + apply contract_to_points.
    + apply contract_filter, W.
    + apply contract_crop, W.
    + apply contract_split, W.
    + apply contract_weld, W.
    + apply contract_set_indices.
    + apply contract_set_attr, W.
    + apply contract_set_materials.
    + apply contract_repeat, W.
    + cbn [contract step]. apply only_attr_changesb_modify, W.
    + cbn [contract step]. apply only_attr_changesb_modify, W.
    + cbn [contract step]. apply only_attr_changesb_modify, W.
    + cbn [contract step]. apply only_attr_changesb_modify, W.
    + cbn [contract step]. apply only_attr_changesb_modify, W.
    + cbn [contract step]. apply only_attr_changesb_modify, W.
    + apply contract_slice, W.
    + apply contract_scale_along_normal, W.
  - unfold inputs_ok in H. apply andb_true_iff in H. destruct H as [H _].
    cbn [forallb] in H. rewrite andb_true_r in H. apply andb_true_iff in H. destruct H as [H1 H2].
    apply wfb_wf in H1. apply wfb_wf in H2.
    destruct o; try discriminate. apply contract_append; assumption.
  - destruct o; discriminate.
Qed.

(* the property evaluator of Check/C03 accepts every observation the model itself would produce *)
Corollary prop_c03_model : forall o ins, length ins = op_arity o -> prop_c03 (COp o ins (step o ins)) = true.
Proof.
  intros o ins A. cbn [prop_c03]. destruct (inputs_ok o ins) eqn:E; [|reflexivity].
  cbn [negb orb]. apply contract_sound; assumption.
Qed.

(* ================================================================ weld (unweld m) vs weld m *)
Fixpoint kidx (k : key) (ks : list key) : nat :=
  match ks with [] => 0 | x :: r => if key_eqb k x then 0 else S (kidx k r) end.

(* component k of a vertex row *)
Lemma row_proj : forall k (r : mesh) dr i, lookup k (attrs r) = Some dr ->
  nth (kidx k (keys r)) (row r i) [] = nth i dr [].
Proof.
  intros k r dr i. unfold row, keys. induction (attrs r) as [|[k' d'] l IH]; cbn [lookup map fst snd kidx]; [discriminate|].
  destruct (key_eqb k k'); [intros E; inversion E; reflexivity|]. cbn [nth]. exact IH.
Qed.

Lemma corner_positions : forall k r dr, lookup k (attrs r) = Some dr ->
  gather (indices r) dr = map (fun rw => nth (kidx k (keys r)) rw []) (corners r).
Proof.
  intros k r dr L. unfold gather, corners. rewrite map_map. apply map_ext. intros i. symmetry.
  apply row_proj, L.
Qed.

Lemma filter_map_comm : forall (A B : Type) (p : B -> bool) (f : A -> B) (l : list A),
  filter p (map f l) = map f (filter (fun x => p (f x)) l).
Proof.
  intros A B p f. induction l as [|a l IH]; [reflexivity|]. cbn [map filter].
  destruct (p (f a)); cbn [map]; rewrite IH; reflexivity.
Qed.

Section WeldUnweld.
  Context {K : Type} (keq : K -> K -> bool) (keyf : vec -> K).
  Hypothesis keq_eq : forall a b, keq a b = true <-> a = b.

  Lemma surv_unweld : forall d idx,
    map (fun j => nth j idx 0)
        (concat (filter (distinct3 keq keyf (gather idx d)) (chunk3 (seq 0 (length idx)))))
    = concat (filter (distinct3 keq keyf d) (chunk3 idx)).
  Proof.
    intros d idx. rewrite concat_map. f_equal.
    assert (E : chunk3 idx = map (map (fun j => nth j idx 0)) (chunk3 (seq 0 (length idx)))).
    { rewrite <- chunk3_map, map_nth_seq_id. reflexivity. }
    rewrite E, filter_map_comm. f_equal. apply filter_ext_in. intros t Ht.
    pose proof (chunk3_lengths _ (seq 0 (length idx))) as F. rewrite Forall_forall in F.
    specialize (F t Ht). destruct t as [|x [|y [|z [|w t]]]]; try discriminate.
    assert (R : forall v, In v [x; y; z] -> nth v (gather idx d) [] = nth (nth v idx 0) d []).
    { intros v Hv. unfold gather. apply (nth_map_lt _ _ (fun i => nth i d [])).
      pose proof (chunk3_In _ _ _ _ Ht Hv) as I. apply in_seq in I. lia. }
    cbn [map distinct3]. rewrite !R by (simpl; auto). reflexivity.
  Qed.

  Theorem weld_unweld : forall a m d, wf m -> topology m = Triangle ->
    lookup (3%N, a) (attrs m) = Some d ->
    exists r1 r2, weld keq keyf a m = Ok [r1] /\ weld keq keyf a (unweld m) = Ok [r2]
      /\ map keyf (gather (indices r1) (data_or_nil (3%N, a) r1))
         = map keyf (gather (indices r2) (data_or_nil (3%N, a) r2)).
  Proof.
    intros a m d W T L.
    assert (Ld : length d = nverts m) by (eapply wf_lookup_length; eassumption).
    assert (WI : Forall (fun i => i < nverts m) (indices m)) by apply W.
    destruct (weld_spec keq keyf keq_eq a m d W T L) as [r1 [E1 [C1 [_ [_ [K1 _]]]]]].
    assert (W2 : wf (unweld m)) by (apply unweld_wf, W).
    assert (L2 : lookup (3%N, a) (attrs (unweld m)) = Some (gather (indices m) d)).
    { unfold unweld. cbn [attrs]. rewrite (lookup_map_snd (gather (indices m))), L. reflexivity. }
    destruct (weld_spec keq keyf keq_eq a (unweld m) _ W2 T L2) as [r2 [E2 [C2 [_ [_ [K2 _]]]]]].
    cbv zeta in C1, C2. exists r1, r2. split; [exact E1|]. split; [exact E2|].
    assert (Kin : In (3%N, a) (keys m)) by (eapply lookup_Some_key; eassumption).
    destruct (unweld_corners m) as [_ [_ [_ [_ Ku]]]].
    unfold data_or_nil.
    destruct (lookup (3%N, a) (attrs r1)) as [dr1|] eqn:Lr1;
      [|exfalso; apply (proj1 (In_keys_lookup (3%N, a) (attrs r1))); [fold (keys r1); rewrite K1; exact Kin|exact Lr1]].
    destruct (lookup (3%N, a) (attrs r2)) as [dr2|] eqn:Lr2;
      [|exfalso; apply (proj1 (In_keys_lookup (3%N, a) (attrs r2))); [fold (keys r2); rewrite K2, Ku; exact Kin|exact Lr2]].
    rewrite (corner_positions _ _ _ Lr1), (corner_positions _ _ _ Lr2), K1, K2, C1, C2, !map_map.
    change (indices (unweld m)) with (seq 0 (length (indices m))).
    rewrite <- surv_unweld, map_map.
    apply map_ext_in. intros j Hj.
    assert (Hjl : j < length (indices m)).
    { assert (S : Forall (fun i => i < length (indices m)) (seq 0 (length (indices m)))).
      { rewrite Forall_forall. intros x Hx. apply in_seq in Hx. lia. }
      pose proof (chunk3_filter_Forall _ _ (distinct3 keq keyf (gather (indices m) d)) _ S) as G.
      rewrite Forall_forall in G. apply G, Hj. }
    assert (Hi : nth j (indices m) 0 < length d).
    { rewrite Ld. rewrite Forall_forall in WI. apply WI, nth_In, Hjl. }
    rewrite (row_proj _ m d _ L), (row_proj _ (unweld m) _ _ L2).
    rewrite (rep_key keq keyf keq_eq) by assumption.
    rewrite (rep_key keq keyf keq_eq) by (unfold gather; rewrite map_length; assumption).
    f_equal. unfold gather. symmetry. apply (nth_map_lt _ _ (fun i => nth i d [])). assumption.
  Qed.
End WeldUnweld.

(* ================================================================ the laws of Case.law_ok on the model *)
Theorem unweld_idem : forall m, unweld (unweld m) = unweld m.
Proof.
  intros m. unfold unweld. cbn [topology indices materials attrs]. rewrite seq_length. f_equal.
  rewrite map_map. apply map_ext. intros x. cbn [fst snd]. f_equal.
  unfold gather at 1.
  replace (length (indices m)) with (length (gather (indices m) (snd x))) by (unfold gather; apply map_length).
  apply map_nth_seq_id.
Qed.

Theorem law_eq_model : forall m, wf m ->
  law_ok LEq [unweld (unweld m); unweld m] = true
  /\ law_ok LEq [remove_unref (remove_unref m); remove_unref m] = true
  /\ (topology m = Triangle -> exists r, flip m = Ok [r] /\ exists r', flip r = Ok [r'] /\ law_ok LEq [r'; m] = true).
Proof.
  intros m W. cbn [law_ok]. split; [|split].
  - rewrite unweld_idem. apply mesh_eqb_refl.
  - rewrite remove_unref_idem by assumption. apply mesh_eqb_refl.
  - intros T. destruct (flip_flip m W T) as [r [E1 E2]]. exists r. split; [exact E1|].
    exists m. split; [exact E2|apply mesh_eqb_refl].
Qed.

(* WeldByFloat3Attribute as the harness runs it: keys are rounded positions compared exactly *)
Theorem weld_spec_vec : forall kf a m d, wf m -> topology m = Triangle ->
  lookup (3%N, a) (attrs m) = Some d ->
  let surv := concat (filter (distinct3 vec_eqb kf d) (chunk3 (indices m))) in
  exists r, weld vec_eqb kf a m = Ok [r]
    /\ corners r = map (fun i => row m (rep vec_eqb kf d i)) surv
    /\ (forall i, i < length d ->
          kf (nth (rep vec_eqb kf d i) d []) = kf (nth i d []) /\ rep vec_eqb kf d i <= i)
    /\ (forall v, v < nverts r -> In v (indices r))
    /\ keys r = keys m
    /\ materials r = [] /\ topology r = Triangle
    /\ NoDup (map kf (data_or_nil (3%N, a) r)).
Proof. intros kf. apply (weld_spec vec_eqb kf vec_eqb_eq). Qed.

Theorem law_weld_unweld_model : forall a dv m d, wf m -> topology m = Triangle ->
  lookup (3%N, a) (attrs m) = Some d ->
  exists r1 r2, weld vec_eqb (round_key dv) a m = Ok [r1]
    /\ weld vec_eqb (round_key dv) a (unweld m) = Ok [r2]
    /\ law_ok (LWeldUnweld a dv) [r1; r2] = true.
Proof.
  intros a dv m d W T L.
  destruct (weld_unweld vec_eqb (round_key dv) vec_eqb_eq a m d W T L) as [r1 [r2 [E1 [E2 E]]]].
  exists r1, r2. split; [exact E1|]. split; [exact E2|]. cbn [law_ok]. rewrite E.
  apply list_eqb_refl. apply vec_eqb_refl.
Qed.
