(* C01 <-> C02/C03, continued: the indices and materials part of Mesh.Append (heap_refines_pure, partial).
   store_list / go_append / add_range as list functions; the repaired Append writes a's cells then b's cells into one
   new array and renumbers the second part in place — in an array nobody else can see. *)
From Coq Require Import List NArith ZArith Bool Arith Lia.
From PF Require Import Mesh.Heap Mesh.HeapProofs Mesh.HeapRefine.
From PF Require Mesh.Pure.
Import ListNotations.

Lemma upd_eq {A} (l : list A) i v : i < length l -> upd l i v = firstn i l ++ v :: skipn (S i) l.
Proof. revert i; induction l as [|a l IH]; intros [|i] H; simpl in *; try lia; auto. f_equal. apply IH. lia. Qed.

Lemma skipn_skipn' {A} x : forall y (l : list A), skipn x (skipn y l) = skipn (y + x) l.
Proof. induction y as [|y IH]; intros [|a l]; cbn [skipn Nat.add]; rewrite ?skipn_nil; auto. Qed.

Lemma arr_store_same h p i v : p < length h -> arr (store h p i v) p = upd (arr h p) i v.
Proof.
  unfold store, arr. intros Hp. rewrite upd_eq by auto.
  rewrite app_nth2; rewrite firstn_length_le by lia; [|lia]. rewrite Nat.sub_diag. reflexivity.
Qed.

Lemma store_list_arr xs : forall h p i, p < length h -> i + length xs <= length (arr h p) ->
  arr (store_list h p i xs) p = firstn i (arr h p) ++ xs ++ skipn (i + length xs) (arr h p).
Proof.
  induction xs as [|x r IH]; intros h p i Hp Hl; cbn [store_list length] in *.
  - rewrite Nat.add_0_r. cbn [app]. symmetry; apply firstn_skipn.
  - rewrite IH.
    + rewrite arr_store_same by auto. rewrite upd_eq by lia.
      set (a := arr h p) in *.
      assert (Li : length (firstn i a) = i) by (apply firstn_length_le; lia).
      rewrite firstn_app, Li. replace (S i - i) with 1 by lia. rewrite firstn_all2 by lia. cbn [firstn].
      rewrite skipn_app, Li. rewrite (skipn_all2 (firstn i a)) by lia.
      replace (S i + length r - i) with (S (length r)) by lia. cbn [app]. rewrite skipn_cons.
      rewrite skipn_skipn'. rewrite <- app_assoc. cbn [app].
      replace (S i + length r) with (i + S (length r)) by lia. reflexivity.
    + rewrite store_length; auto.
    + rewrite arr_store_same, upd_length by auto. lia.
Qed.

Lemma store_list_other xs : forall h p i q, q <> p -> arr (store_list h p i xs) q = arr h q.
Proof.
  induction xs as [|x r IH]; intros h p i q Hq; cbn [store_list]; auto.
  rewrite IH by auto. unfold store, arr. apply upd_nth_other. auto.
Qed.

Lemma read_le h s : length (read h s) <= len s.
Proof. unfold read. apply firstn_le_length. Qed.

Lemma map_range_firstn {A} (f : A -> A) : forall l from to, from <= to -> to <= length l ->
  firstn to (map_range f from to l) = firstn from l ++ map f (firstn (to - from) (skipn from l)).
Proof.
  induction l as [|x t IH]; intros from to Hf Ht; cbn [length] in Ht.
  - assert (to = 0) by lia. assert (from = 0) by lia. subst. reflexivity.
  - destruct to as [|to'].
    + assert (from = 0) by lia. subst. reflexivity.
    + destruct from as [|from']; cbn [map_range firstn skipn Nat.sub app map].
      * rewrite IH by lia. cbn [firstn skipn app]. rewrite Nat.sub_0_r. reflexivity.
      * rewrite IH by lia. reflexivity.
Qed.

Lemma read_upd_same h p X s : ptr s = p -> p < length h -> read (upd h p X) s = firstn (len s) X.
Proof.
  intros <- Hp. unfold read, arr. rewrite upd_eq by auto.
  rewrite app_nth2; rewrite firstn_length_le by lia; [|lia]. rewrite Nat.sub_diag. reflexivity.
Qed.

Lemma read_upd_other h p X s : ptr s <> p -> read (upd h p X) s = read h s.
Proof. intros Hp. unfold read, arr. rewrite upd_nth_other by auto. reflexivity. Qed.

Lemma add_range_read h s from d : ptr s < length h -> from <= len s -> swf h s ->
  read (add_range h s from d) s = firstn from (read h s) ++ map (cell_add d) (skipn from (read h s)).
Proof.
  intros Hp Hf Hw. unfold add_range. rewrite read_upd_same by auto.
  unfold swf in Hw. rewrite map_range_firstn by auto.
  unfold read. rewrite firstn_firstn, Nat.min_l by lia.
  rewrite firstn_skipn_comm. replace (from + (len s - from)) with (len s) by lia. reflexivity.
Qed.

#[local] Arguments read : simpl never.

Section A.
Variable grow : nat -> nat -> nat.

(* finalTris / finalMaterials of the repaired Append: one new array holding a's cells followed by b's *)
Lemma append_slices_read h a b h' s :
  append_slices grow true h a b = (h', s) -> ptr a < length h -> ptr b < length h ->
  read h' s = read h a ++ read h b /\ ptr s = length h /\ len s = length (read h a) + length (read h b) /\
  length h' = S (length h) /\ frame (length h) h h'.
Proof.
  unfold append_slices, new_slice. cbn [app length Nat.add].
  set (k := len a + len b). set (h0 := h ++ [repeat [] k]).
  intros H Ha Hb. change (h ++ [repeat [] k]) with h0 in H.
  assert (F0 : frame (length h) h h0) by (apply frame_app; lia).
  assert (L0 : length h0 = S (length h)) by (unfold h0; rewrite app_length; simpl; lia).
  assert (A0 : arr h0 (length h) = repeat [] k).
  { unfold arr, h0. rewrite app_nth2 by lia. rewrite Nat.sub_diag. reflexivity. }
  rewrite (frame_read _ _ _ _ F0 Ha) in H.
  pose proof (read_le h a) as La. pose proof (read_le h b) as Lb.
  destruct (go_append grow h0 {| ptr := length h; len := 0; cap := k |} (read h a)) as [h1' s1] eqn:E1.
  unfold go_append in E1. cbn [len cap ptr Nat.add] in E1.
  replace (length (read h a) <=? k) with true in E1 by (symmetry; apply Nat.leb_le; unfold k; lia).
  injection E1 as <- <-.
  set (h1 := store_list h0 (length h) 0 (read h a)) in *.
  assert (L1 : length h1 = length h0) by (apply store_list_length).
  assert (F1 : frame (length h) h0 h1) by (apply store_list_frame; lia).
  assert (A1 : arr h1 (length h) = read h a ++ skipn (length (read h a)) (repeat [] k)).
  { unfold h1. rewrite store_list_arr; rewrite ?A0, ?repeat_length; try lia. reflexivity. }
  rewrite (frame_read _ _ _ _ (frame_trans _ _ _ _ F0 F1) Hb) in H.
  unfold go_append in H. cbn [len cap ptr] in H.
  replace (length (read h a) + length (read h b) <=? k) with true in H by (symmetry; apply Nat.leb_le; unfold k; lia).
  injection H as <- <-. cbn [ptr len].
  assert (F2 : frame (length h) h1 (store_list h1 (length h) (length (read h a)) (read h b))) by (apply store_list_frame; lia).
  split; [|split; [reflexivity|split; [reflexivity|split]]].
  - unfold read at 1. cbn [ptr len]. rewrite store_list_arr.
    + rewrite A1.
      assert (X : forall (A S : list cell), firstn (length A) (A ++ S) = A).
      { intros A S. rewrite firstn_app, firstn_all, Nat.sub_diag. cbn [firstn]. apply app_nil_r. }
      rewrite X. rewrite app_assoc. rewrite <- app_length. apply X.
    + lia.
    + rewrite A1, app_length, skipn_length, repeat_length. unfold k. lia.
  - rewrite store_list_length. lia.
  - eapply frame_trans; [exact F0|]. eapply frame_trans; [exact F1|exact F2].
Qed.

#[local] Arguments append_data : simpl never.
#[local] Arguments append_slices : simpl never.
#[local] Arguments add_range : simpl never.

(* indices and materials of the repaired Append, as list functions of what the operands report *)
Lemma mesh_append_shape h m o h' r :
  mesh_append grow true h m o = (h', r) -> 0 < length h ->
  mesh_ok (length h) m -> mesh_ok (length h) o -> swf h (idx m) ->
  topo r = topo m /\
  read h' (idx r) = read h (idx m) ++ map (cell_add (Z.of_nat (attr_length m))) (read h (idx o)) /\
  read h' (mats r) = read h (mats m) ++ read h (mats o).
Proof.
  unfold mesh_append; intros H H0 Hm Ho Hw.
  destruct (append_data grow true K1 h (v1 m) (v1 o) (attr_length m) (attr_length o)) as [h1 f1] eqn:E1.
  destruct (append_data grow true K2 h1 (v2 m) (v2 o) (attr_length m) (attr_length o)) as [h2 f2] eqn:E2.
  destruct (append_data grow true K3 h2 (v3 m) (v3 o) (attr_length m) (attr_length o)) as [h3 f3] eqn:E3.
  destruct (append_data grow true K4 h3 (v4 m) (v4 o) (attr_length m) (attr_length o)) as [h4 f4] eqn:E4.
  destruct (append_slices grow true h4 (idx m) (idx o)) as [h5 tris] eqn:E5.
  destruct (append_slices grow true h5 (mats m) (mats o)) as [h6 ms] eqn:E6.
  injection H as <- <-. cbn [topo idx mats].
  destruct (append_data_ok grow (length h) _ _ _ _ _ _ _ _ E1 H0 (le_n _)) as (F1 & L1 & _).
  destruct (append_data_ok grow (length h) _ _ _ _ _ _ _ _ E2 H0 ltac:(lia)) as (F2 & L2 & _).
  destruct (append_data_ok grow (length h) _ _ _ _ _ _ _ _ E3 H0 ltac:(lia)) as (F3 & L3 & _).
  destruct (append_data_ok grow (length h) _ _ _ _ _ _ _ _ E4 H0 ltac:(lia)) as (F4 & L4 & _).
  assert (F : frame (length h) h h4).
  { eapply frame_trans; [exact F1|]. eapply frame_trans; [exact F2|]. eapply frame_trans; [exact F3|exact F4]. }
  destruct Hm as (Im & Mm & _). destruct Ho as (Io & Mo & _). unfold sl_ok in *.
  destruct (append_slices_read _ _ _ _ _ E5 ltac:(lia) ltac:(lia)) as (R5 & P5 & N5 & L5 & F5).
  destruct (append_slices_read _ _ _ _ _ E6 ltac:(lia) ltac:(lia)) as (R6 & P6 & N6 & L6 & F6).
  rewrite !(frame_read _ _ _ _ F) in R5, N5 by auto.
  assert (F' : frame (length h) h h5) by (eapply frame_trans; [exact F|]; destruct F5 as [A B]; split; [lia|]; intros q Hq; apply B; lia).
  rewrite !(frame_read _ _ _ _ F') in R6 by auto.
  assert (T6 : read h6 tris = read h5 tris) by (apply (frame_read _ _ _ _ F6); lia).
  pose proof (read_length h (idx m) Hw) as LA.
  assert (W6 : swf h6 tris).
  { unfold swf. assert (X : length (read h6 tris) = len tris) by (rewrite T6, R5, app_length; lia).
    unfold read in X. rewrite firstn_length in X. lia. }
  split; [reflexivity|]. split.
  - rewrite add_range_read; auto; try lia.
    rewrite T6, R5, <- LA.
    assert (X : forall (A S : list cell), firstn (length A) (A ++ S) = A).
    { intros A S. rewrite firstn_app, firstn_all, Nat.sub_diag. cbn [firstn]. apply app_nil_r. }
    rewrite X. rewrite skipn_app, skipn_all, Nat.sub_diag. reflexivity.
  - unfold add_range. rewrite read_upd_other by lia. exact R6.
Qed.

Definition idx_nonneg (h : heap) (s : slice) : Prop :=
  Forall (fun c => exists z r, c = z :: r /\ (0 <= z)%Z) (read h s).

Lemma cell_nat_add d cs : Forall (fun c => exists z r, c = z :: r /\ (0 <= z)%Z) cs ->
  map cell_nat (map (cell_add (Z.of_nat d)) cs) = map (fun i => i + d) (map cell_nat cs).
Proof.
  induction 1 as [|c cs (z & r & -> & Hz) _ IH]; cbn [map]; auto.
  rewrite IH. f_equal. unfold cell_nat, cell_add. rewrite Z2Nat.inj_add by lia. rewrite Nat2Z.id. reflexivity.
Qed.

(* Append, partial: topology, indices (the renumbering of the appended part included) and materials of the mesh the
   heap operation creates are those of Pure.append on the operands' values *)
Theorem append_refines_pure_partial_proof : forall h p i j m o,
  0 < length h -> pool_ok (length h) p -> Forall (mesh_wf h) p ->
  nth_error p i = Some m -> nth_error p j = Some o -> idx_nonneg h (idx o) ->
  match exec grow true h p (OAppend i j), Pure.step Pure.OAppend [abs h m; abs h o] with
  | RNew h' r, Pure.Ok [pm] =>
      Pure.topology (abs h' r) = Pure.topology pm /\ Pure.indices (abs h' r) = Pure.indices pm /\
      Pure.materials (abs h' r) = Pure.materials pm
  | RErr Declared, Pure.Declared => True
  | _, _ => False
  end.
Proof.
  intros h p i j m o H0 Hp Hw Gi Gj Hnn. cbn [exec Pure.step]. rewrite Gi, Gj.
  unfold Pure.append.
  replace (Pure.topology (abs h m)) with (abs_topo (topo m)) by (destruct m; reflexivity).
  replace (Pure.topology (abs h o)) with (abs_topo (topo o)) by (destruct o; reflexivity).
  rewrite topo_eqb_abs. destruct (topo_eqb (topo m) (topo o)); [|exact I].
  destruct (mesh_append grow true h m o) as [h1 r] eqn:E.
  assert (Hm : mesh_ok (length h) m) by (eapply pool_get; eauto).
  assert (Ho : mesh_ok (length h) o) by (eapply pool_get; eauto).
  assert (Wm : mesh_wf h m) by (eapply Forall_forall; [exact Hw|]; eapply nth_error_In; eauto).
  destruct (mesh_append_shape _ _ _ _ _ E H0 Hm Ho ltac:(destruct Wm; auto)) as (T & RI & RM).
  rewrite (abs_eta h1 r), abs_mk. cbn [Pure.topology Pure.indices Pure.materials].
  rewrite (nverts_abs h m Wm).
  split; [rewrite T; reflexivity|]. split.
  - rewrite RI, map_app, cell_nat_add by exact Hnn.
    rewrite (abs_eta h m), (abs_eta h o), !abs_mk. reflexivity.
  - rewrite RM, map_app. rewrite (abs_eta h m), (abs_eta h o), !abs_mk. reflexivity.
Qed.

End A.

Definition idx_nonnegb (h : heap) (s : slice) : bool :=
  forallb (fun c => match c with z :: _ => (0 <=? z)%Z | [] => false end) (read h s).
Lemma idx_nonnegb_spec h s : idx_nonnegb h s = true -> idx_nonneg h s.
Proof.
  unfold idx_nonnegb, idx_nonneg. rewrite forallb_forall. intros H. apply Forall_forall. intros c Hc.
  specialize (H c Hc). destruct c as [|z r]; [discriminate|]. exists z, r. split; auto. apply Z.leb_le; auto.
Qed.

(* non-vacuity: member 3 of refine_ops (two triangles over four vertices, two material ranges) appended to itself *)
Lemma append_refine_example :
  let st := run grow_double true refine_ops 4 in
  let p := map (load (maps_of st)) (pool st) in
  (exists m, nth_error p 3 = Some m /\ idx_nonneg (heap_of st) (idx m)) /\
  match Pure.step Pure.OAppend (map (abs (heap_of st)) [nth 3 p (load [] nilg); nth 3 p (load [] nilg)]) with
  | Pure.Ok [pm] => Pure.indices pm = [0; 1; 2; 2; 1; 3; 4; 5; 6; 6; 5; 7] /\
                    Pure.materials pm = [(1, 7%N); (1, 8%N); (1, 7%N); (1, 8%N)]
  | _ => False
  end /\
  match exec grow_double true (heap_of st) p (OAppend 3 3) with
  | RNew h' r => Pure.indices (abs h' r) = [0; 1; 2; 2; 1; 3; 4; 5; 6; 6; 5; 7]
  | _ => False
  end.
Proof.
  cbv zeta. split; [|split; vm_compute; auto].
  eexists. split; [vm_compute; reflexivity|].
  apply idx_nonnegb_spec. vm_compute. reflexivity.
Qed.
