(* C03, value maps that are (integer vector) / sqrt(integer): NormalizeAttribute3D/2D, SmoothNormals,
   SmoothNormalsImplicitWeld, FlatNormals on integer coordinates.  The numerator vector and the squared
   length are computed here, in Z, from the mesh; the implementation's float output o (an exact dyadic
   rational) is accepted iff it lies within delta of numerator / sqrt(len2) - decided in Q by squaring:

       sign o = sign n   and   (|o| - delta)+^2 * len2 <= n^2 <= (|o| + delta)^2 * len2.

   Executable definitions only; lemmas in Mesh/NormalsProofs.v. *)
From Coq Require Import List NArith ZArith Bool Arith QArith Qabs.
From PF Require Import Mesh.Pure.
Import ListNotations.
Close Scope Q_scope.

Definition vsub (a b : vec) : vec := vzip Z.sub a b.
Definition vadd (a b : vec) : vec := vzip Z.add a b.
Definition zero3 : vec := [0; 0; 0]%Z.
Definition norm2 (v : vec) : Z := dot v v.

(* (p_b - p_a) x (p_c - p_a) for the triangle t = [a; b; c] *)
Definition face_cross (d : list vec) (t : list nat) : vec :=
  match t with
  | [a; b; c] => cross (vsub (nth b d []) (nth a d [])) (vsub (nth c d []) (nth a d []))
  | _ => zero3
  end.

(* SmoothNormals: every corner adds its face's cross product to its vertex (a vertex that occurs twice in a
   triangle receives it twice) *)
Definition smooth_sum (d : list vec) (idx : list nat) (v : nat) : vec :=
  fold_left (fun acc t => fold_left (fun acc' i => if Nat.eqb i v then vadd acc' (face_cross d t) else acc') t acc)
            (chunk3 idx) zero3.

(* SmoothNormalsImplicitWeld (distance below the lattice spacing): vertices at the same position share the sum *)
Definition implicit_sum (d : list vec) (idx : list nat) (v : nat) : vec :=
  fold_left (fun acc w => if vec_eqb (nth w d []) (nth v d []) then vadd acc (smooth_sum d idx w) else acc)
            (seq 0 (length d)) zero3.

(* FlatNormals: the cross product of the LAST face that uses the vertex; (1,1,1) for a vertex no face uses *)
Definition flat_vec (d : list vec) (idx : list nat) (v : nat) : vec :=
  fold_left (fun acc t => if existsb (Nat.eqb v) t then face_cross d t else acc) (chunk3 idx) [1; 1; 1]%Z.

Inductive nkind := NSmooth | NImplicit | NFlat | NNormalize.

(* numerator vector and squared denominator of vertex v *)
Definition unit_num (k : nkind) (d : list vec) (idx : list nat) (v : nat) : vec :=
  match k with
  | NSmooth => smooth_sum d idx v
  | NImplicit => implicit_sum d idx v
  | NFlat => flat_vec d idx v
  | NNormalize => nth v d []
  end.
Definition unit_den2 (k : nkind) (d : list vec) (idx : list nat) (v : nat) : Z :=
  match k with
  | NNormalize => fold_left (fun m w => Z.max m (norm2 w)) d 0%Z    (* the longest vector of the attribute *)
  | _ => norm2 (unit_num k d idx v)
  end.

(* ------------------------------------------------------------------ the test in Q *)
Definition delta : Q := Qmake 2 1000000000.
Definition qsq (x : Q) : Q := Qmult x x.
Definition qpos (x : Q) : Q := if Qle_bool 0 x then x else 0%Q.
(* o within delta of n / sqrt(len2)  (len2 > 0) *)
Definition close_unit (o : Q) (n len2 : Z) : bool :=
  Qle_bool 0 (Qmult o (inject_Z n))
  && Qle_bool (Qmult (qsq (qpos (Qminus (Qabs o) delta))) (inject_Z len2)) (inject_Z (n * n))
  && Qle_bool (inject_Z (n * n)) (Qmult (qsq (Qplus (Qabs o) delta)) (inject_Z len2)).

Definition dyq (p : Z * Z) : Q :=
  let (m, e) := p in
  if (0 <=? e)%Z then inject_Z (m * 2 ^ e) else Qmake m (Z.to_pos (2 ^ (- e))).

(* one vertex: a zero denominator means the zero vector is expected (smooth / implicit sums that cancel) *)
Definition unit_vertex_ok (n : vec) (len2 : Z) (o : list (Z * Z)) : bool :=
  (length o =? length n)
  && forallb (fun p => if (len2 =? 0)%Z then Qle_bool (Qabs (dyq (fst p))) delta
                       else close_unit (dyq (fst p)) (snd p) len2) (combine o n).

Definition units_ok (k : nkind) (idx : list nat) (d : list vec) (out : list (list (Z * Z))) : bool :=
  (length out =? length d)
  && forallb (fun p => unit_vertex_ok (unit_num k d idx (fst p)) (unit_den2 k d idx (fst p)) (snd p))
             (combine (seq 0 (length d)) out).
