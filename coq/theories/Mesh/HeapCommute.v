(* C01 — derivations commute up to renaming of heap addresses.
   Arrays hold data only (no addresses), addresses occur only in slices.  Inserting a block [e] of arrays at position n
   of the heap and shifting every address >= n by |e| is therefore a symmetry of EVERY function of the model: each
   primitive (read, new_slice, go_append, store, add_range) commutes with it unconditionally, hence so does every
   operation (for both Append variants).  Running o2 first only inserts the arrays o2 allocates; so what o1 produces
   afterwards is what it would have produced before, at shifted addresses — the same observation. *)
From Coq Require Import List NArith ZArith Bool Arith Lia.
From PF Require Import Mesh.Heap Mesh.HeapProofs.
Import ListNotations.

Section Shift.
Variable e : heap.       (* the inserted arrays *)
Variable n : nat.        (* where: every old address is < n or gets shifted *)
Let d := length e.

Definition ins (H : heap) : heap := firstn n H ++ e ++ skipn n H.
Definition shp (p : nat) : nat := if p <? n then p else p + d.
Definition shs (s : slice) : slice := mkSlice (shp (ptr s)) (len s) (cap s).
Definition sha (a : amap) : amap := map (fun x => (fst x, shs (snd x))) a.
Definition shm (m : mesh) : mesh :=
  mkMesh (topo m) (shs (idx m)) (shs (mats m)) (sha (v1 m)) (sha (v2 m)) (sha (v3 m)) (sha (v4 m)).
Definition shr (r : result) : result :=
  match r with
  | RNew h m => RNew (ins h) (shm m)
  | RMany h ms => RMany (ins h) (map shm ms)
  | RSame h => RSame (ins h)
  | RErr c => RErr c
  end.

(* ---------------------------------------------------------------- lists *)
Lemma upd_app1 {A} (l1 l2 : list A) i v : i < length l1 -> upd (l1 ++ l2) i v = upd l1 i v ++ l2.
Proof. revert i; induction l1; intros i H; simpl in *; [lia|]. destruct i; simpl; auto. rewrite IHl1; auto; lia. Qed.
Lemma upd_app2 {A} (l1 l2 : list A) i v : length l1 <= i -> upd (l1 ++ l2) i v = l1 ++ upd l2 (i - length l1) v.
Proof.
  revert i; induction l1; intros i H; simpl in *; [rewrite Nat.sub_0_r; auto|].
  destruct i; [lia|]. simpl. rewrite IHl1; auto; lia.
Qed.

Lemma split_at (H : heap) : n <= length H -> exists F S, H = F ++ S /\ length F = n.
Proof. intros L. exists (firstn n H), (skipn n H). split; [symmetry; apply firstn_skipn | apply firstn_length_le; auto]. Qed.

Lemma ins_app F S : length F = n -> ins (F ++ S) = F ++ e ++ S.
Proof.
  intros L. unfold ins. rewrite firstn_app, skipn_app, L, Nat.sub_diag. simpl.
  rewrite firstn_all2 by lia. rewrite skipn_all2 by lia. rewrite app_nil_r. reflexivity.
Qed.

Lemma ins_length H : n <= length H -> length (ins H) = length H + d.
Proof. intros L. destruct (split_at H L) as (F & S & -> & LF). rewrite ins_app; auto. rewrite !app_length. unfold d; lia. Qed.

Lemma ins_snoc H x : n <= length H -> ins (H ++ [x]) = ins H ++ [x].
Proof.
  intros L. destruct (split_at H L) as (F & S & -> & LF).
  rewrite <- app_assoc. rewrite !ins_app; auto. rewrite <- !app_assoc. reflexivity.
Qed.

Lemma ins_nth H p : n <= length H -> nth (shp p) (ins H) [] = nth p H [].
Proof.
  intros L. destruct (split_at H L) as (F & S & -> & LF). rewrite ins_app; auto. unfold shp.
  destruct (p <? n) eqn:E.
  - apply Nat.ltb_lt in E. rewrite !app_nth1; auto; lia.
  - apply Nat.ltb_ge in E. rewrite (app_nth2 F (e ++ S)) by lia. rewrite app_nth2 by (unfold d; lia).
    rewrite (app_nth2 F S) by lia. f_equal. unfold d; lia.
Qed.

Lemma ins_upd H p v : n <= length H -> upd (ins H) (shp p) v = ins (upd H p v).
Proof.
  intros L. destruct (split_at H L) as (F & S & -> & LF). rewrite ins_app; auto. unfold shp.
  destruct (p <? n) eqn:E.
  - apply Nat.ltb_lt in E. rewrite !upd_app1 by lia. rewrite ins_app; auto. rewrite upd_length; auto.
  - apply Nat.ltb_ge in E. rewrite (upd_app2 F (e ++ S)) by lia. rewrite upd_app2 by (unfold d; lia).
    rewrite (upd_app2 F S) by lia. rewrite ins_app; auto. do 3 f_equal. unfold d; lia.
Qed.

(* ---------------------------------------------------------------- primitives *)
Lemma arr_ins H p : n <= length H -> arr (ins H) (shp p) = arr H p.
Proof. apply ins_nth. Qed.

Lemma read_ins H s : n <= length H -> read (ins H) (shs s) = read H s.
Proof. intros L. unfold read. simpl. rewrite arr_ins; auto. Qed.

Lemma store_ins H p i v : n <= length H -> store (ins H) (shp p) i v = ins (store H p i v).
Proof. intros L. unfold store. rewrite arr_ins; auto. apply ins_upd; auto. Qed.

Lemma store_list_ins xs : forall H p i, n <= length H ->
  store_list (ins H) (shp p) i xs = ins (store_list H p i xs).
Proof.
  induction xs; simpl; intros; auto. rewrite store_ins; auto. apply IHxs. rewrite store_length; auto.
Qed.

Lemma add_range_ins H s from z : n <= length H -> add_range (ins H) (shs s) from z = ins (add_range H s from z).
Proof. intros L. unfold add_range. simpl. rewrite arr_ins; auto. apply ins_upd; auto. Qed.

Lemma add_range_length H s from z : length (add_range H s from z) = length H.
Proof. unfold add_range. apply upd_length. Qed.

Lemma shp_top H : n <= length H -> shp (length H) = length (ins H).
Proof. intros L. rewrite ins_length; auto. unfold shp. destruct (length H <? n) eqn:E; auto. apply Nat.ltb_lt in E; lia. Qed.

Lemma new_slice_ins H xs sp h' s : new_slice H xs sp = (h', s) -> n <= length H ->
  new_slice (ins H) xs sp = (ins h', shs s) /\ n <= length h'.
Proof.
  unfold new_slice. intros [= <- <-] L. split; [|rewrite app_length; lia].
  rewrite ins_snoc; auto. unfold shs; simpl. rewrite shp_top; auto.
Qed.

Section G.
Variable grow : nat -> nat -> nat.

Ltac use L := let Q := fresh "Q" in let Ln := fresh "Ln" in destruct L as [Q Ln]; rewrite Q; clear Q; cbv beta iota.

Lemma go_append_ins H s xs h' s' : go_append grow H s xs = (h', s') -> n <= length H ->
  go_append grow (ins H) (shs s) xs = (ins h', shs s') /\ n <= length h'.
Proof.
  unfold go_append. cbn [len cap ptr shs]. intros E L.
  destruct (len s + length xs <=? cap s); injection E as <- <-.
  - split; [|rewrite store_list_length; auto]. rewrite store_list_ins; auto.
  - split; [|rewrite app_length; lia].
    rewrite read_ins, ins_snoc; auto. unfold shs; simpl. rewrite shp_top; auto.
Qed.

Lemma append_chunks_ins cs : forall H s h' s', append_chunks grow H s cs = (h', s') -> n <= length H ->
  append_chunks grow (ins H) (shs s) cs = (ins h', shs s') /\ n <= length h'.
Proof.
  induction cs as [|c r IH]; cbn [append_chunks]; intros H s h' s' E L.
  - injection E as <- <-. auto.
  - destruct (go_append grow H s c) as [h1 s1] eqn:E1.
    use (go_append_ins _ _ _ _ _ E1 L). eapply IH; eauto.
Qed.

Lemma append_n_ins H s x k h' s' : append_n grow H s x k = (h', s') -> n <= length H ->
  append_n grow (ins H) (shs s) x k = (ins h', shs s') /\ n <= length h'.
Proof. unfold append_n, append_each. apply append_chunks_ins. Qed.

Lemma append_each_ins H s xs h' s' : append_each grow H s xs = (h', s') -> n <= length H ->
  append_each grow (ins H) (shs s) xs = (ins h', shs s') /\ n <= length h'.
Proof. unfold append_each. apply append_chunks_ins. Qed.

(* ---------------------------------------------------------------- attribute maps *)
Lemma sha_get a k : amap_get (sha a) k = option_map shs (amap_get a k).
Proof. induction a as [|[k' s] t IH]; simpl; auto. destruct (N.eqb k k'); auto. Qed.
Lemma sha_mem a k : amap_mem (sha a) k = amap_mem a k.
Proof. unfold amap_mem. rewrite sha_get. destruct (amap_get a k); auto. Qed.
Lemma sha_set a k s : amap_set (sha a) k (shs s) = sha (amap_set a k s).
Proof.
  induction a as [|[k' s'] t IH]; simpl; auto.
  destruct (N.eqb k k'); simpl; auto. destruct (N.ltb k k'); simpl; auto. rewrite IH; auto.
Qed.
Lemma sha_del a k : amap_del (sha a) k = sha (amap_del a k).
Proof. induction a as [|[k' s'] t IH]; simpl; auto. destruct (N.eqb k k'); simpl; auto. rewrite IH; auto. Qed.

Hypothesis n1 : 1 < n.
Lemma shs_nil : shs nil_slice = nil_slice.
Proof. unfold shs, shp; simpl. destruct n; auto; lia. Qed.
Lemma shs_cube : shs cube_slice = cube_slice.
Proof. unfold shs, shp; simpl. destruct n as [|[|k]]; auto; lia. Qed.

Lemma read_map_ins H a : n <= length H -> read_map (ins H) (sha a) = read_map H a.
Proof.
  intros L. unfold read_map, sha. rewrite map_map. apply map_ext. intros [k s]; simpl. rewrite read_ins; auto.
Qed.

Lemma observe_ins H m : n <= length H -> observe (ins H) (shm m) = observe H m.
Proof. intros L. unfold observe, shm; simpl. rewrite !read_ins, !read_map_ins; auto. Qed.

Lemma vget_shm m k : vget (shm m) k = sha (vget m k).
Proof. destruct k; reflexivity. Qed.
Lemma vset_shm m k a : vset (shm m) k (sha a) = shm (vset m k a).
Proof. destruct k; reflexivity. Qed.
Lemma set_attr_shm m k name s : set_attr (shm m) k name (shs s) = shm (set_attr m k name s).
Proof.
  unfold set_attr. rewrite vget_shm. simpl. destruct (len s =? 0).
  - rewrite sha_del. apply vset_shm.
  - rewrite sha_set. apply vset_shm.
Qed.
Lemma attr_length_shm m : attr_length (shm m) = attr_length m.
Proof.
  unfold attr_length, shm; simpl.
  destruct (v4 m) as [|[? ?] ?]; simpl; auto. destruct (v3 m) as [|[? ?] ?]; simpl; auto.
  destruct (v2 m) as [|[? ?] ?]; simpl; auto. destruct (v1 m) as [|[? ?] ?]; simpl; auto.
Qed.
Lemma idx_nats_ins H m : n <= length H -> idx_nats (ins H) (shm m) = idx_nats H m.
Proof. intros L. unfold idx_nats. simpl. rewrite read_ins; auto. Qed.
Lemma forallb_sha (f : N * slice -> bool) a :
  (forall x, f (fst x, shs (snd x)) = f x) -> forallb f (sha a) = forallb f a.
Proof. intros E. induction a as [|x t IH]; simpl; auto. rewrite E, IH; auto. Qed.
Lemma maps_in_range_ins H m is : maps_in_range (ins H) (shm m) is = maps_in_range H m is.
Proof.
  unfold maps_in_range, kinds. cbn [forallb]. rewrite !vget_shm.
  rewrite !forallb_sha; auto; intros [? ?]; reflexivity.
Qed.
Lemma gather_map_ins H a is : n <= length H -> gather_map (ins H) (sha a) is = gather_map H a is.
Proof.
  intros L. unfold gather_map, sha. rewrite map_map. apply map_ext. intros [k s]; simpl. rewrite read_ins; auto.
Qed.
Lemma with_idx_shm m s : with_idx (shm m) (shs s) = shm (with_idx m s).
Proof. reflexivity. Qed.
Lemma with_mats_shm m s : with_mats (shm m) (shs s) = shm (with_mats m s).
Proof. reflexivity. Qed.
Lemma sha_cons name data r : sha ((name, data) :: r) = (name, shs data) :: sha r.
Proof. reflexivity. Qed.

(* ---------------------------------------------------------------- builders *)
Lemma build_map_ins drop cont : forall H h' a, build_map grow H cont drop = (h', a) -> n <= length H ->
  build_map grow (ins H) cont drop = (ins h', sha a) /\ n <= length h'.
Proof.
  induction cont as [|[name chunks] r IH]; cbn [build_map]; intros H h' a E L.
  - injection E as <- <-. auto.
  - destruct (append_chunks grow H nil_slice chunks) as [h1 s] eqn:E1.
    destruct (build_map grow h1 r drop) as [h2 a2] eqn:E2. injection E as <- <-.
    rewrite <- shs_nil at 1. use (append_chunks_ins _ _ _ _ _ E1 L).
    use (IH _ _ _ E2 Ln). split; auto.
    f_equal. cbn [len shs]. destruct (drop && (len s =? 0)); auto. apply sha_set.
Qed.

Lemma alloc_map_ins cont : forall H h' a, alloc_map H cont = (h', a) -> n <= length H ->
  alloc_map (ins H) cont = (ins h', sha a) /\ n <= length h'.
Proof.
  induction cont as [|[name xs] r IH]; cbn [alloc_map]; intros H h' a E L.
  - injection E as <- <-. auto.
  - destruct (new_slice H xs 0) as [h1 s] eqn:E1.
    destruct (alloc_map h1 r) as [h2 a2] eqn:E2. injection E as <- <-.
    use (new_slice_ins _ _ _ _ _ E1 L). use (IH _ _ _ E2 Ln). split; auto. f_equal. apply sha_set.
Qed.

Lemma copy_map_ins H a h' c : copy_map grow H a = (h', c) -> n <= length H ->
  copy_map grow (ins H) (sha a) = (ins h', sha c) /\ n <= length h'.
Proof.
  intros E L. unfold copy_map in *.
  replace (map (fun x => (fst x, map (fun x0 => [x0]) (read (ins H) (snd x)))) (sha a))
    with (map (fun x => (fst x, map (fun x0 : cell => [x0]) (read H (snd x)))) a).
  - eapply build_map_ins; eauto.
  - unfold sha. rewrite map_map. apply map_ext. intros [k s]; simpl. rewrite read_ins; auto.
Qed.

(* ---------------------------------------------------------------- Append *)
Lemma append_data1_ins fixed k b aLen bLen a : forall H h' fd,
  append_data1 grow fixed k H a b aLen bLen = (h', fd) -> n <= length H ->
  append_data1 grow fixed k (ins H) (sha a) (sha b) aLen bLen = (ins h', sha fd) /\ n <= length h'.
Proof.
  induction a as [|[name data] r IH]; intros H h' fd E L.
  - cbn in *. injection E as <- <-. auto.
  - rewrite sha_cons. cbn [append_data1] in *.
    destruct (if fixed then let (h0, s0) := new_slice H [] (aLen + bLen) in go_append grow h0 s0 (read h0 data) else (H, data))
      as [h1 s1] eqn:E1.
    destruct (if amap_mem b name then (h1, s1) else append_n grow h1 s1 (zero_of k) bLen) as [h2 s2] eqn:E2.
    destruct (append_data1 grow fixed k h2 r b aLen bLen) as [h3 fd3] eqn:E3. injection E as <- <-.
    assert (X : (if fixed then let (h0, s0) := new_slice (ins H) [] (aLen + bLen) in go_append grow h0 s0 (read h0 (shs data))
                 else (ins H, shs data)) = (ins h1, shs s1) /\ n <= length h1).
    { destruct fixed.
      - destruct (new_slice H [] (aLen + bLen)) as [h0 s0] eqn:E0.
        use (new_slice_ins _ _ _ _ _ E0 L). rewrite read_ins; auto. eapply go_append_ins; eauto.
      - injection E1 as <- <-. auto. }
    use X. rewrite sha_mem.
    assert (Y : (if amap_mem b name then (ins h1, shs s1) else append_n grow (ins h1) (shs s1) (zero_of k) bLen) =
                (ins h2, shs s2) /\ n <= length h2).
    { destruct (amap_mem b name).
      - injection E2 as <- <-. auto.
      - eapply append_n_ins; eauto. }
    use Y. use (IH _ _ _ E3 Ln0). split; auto. f_equal. apply sha_set.
Qed.

Lemma append_data2_ins k aLen b : forall H fd h' fd',
  append_data2 grow k H fd b aLen = (h', fd') -> n <= length H ->
  append_data2 grow k (ins H) (sha fd) (sha b) aLen = (ins h', sha fd') /\ n <= length h'.
Proof.
  induction b as [|[name data] r IH]; intros H fd h' fd' E L.
  - cbn in *. injection E as <- <-. auto.
  - rewrite sha_cons. cbn [append_data2] in *.
    destruct (match amap_get fd name with Some s => (H, s) | None => append_n grow H nil_slice (zero_of k) aLen end)
      as [h1 s1] eqn:E1.
    destruct (go_append grow h1 s1 (read h1 data)) as [h2 s2] eqn:E2.
    rewrite sha_get.
    assert (X : match option_map shs (amap_get fd name) with
                | Some s => (ins H, s)
                | None => append_n grow (ins H) nil_slice (zero_of k) aLen
                end = (ins h1, shs s1) /\ n <= length h1).
    { destruct (amap_get fd name); cbn [option_map].
      - injection E1 as <- <-. auto.
      - rewrite <- shs_nil at 1. eapply append_n_ins; eauto. }
    use X. rewrite read_ins; auto.
    use (go_append_ins _ _ _ _ _ E2 Ln). rewrite sha_set. eapply IH; eauto.
Qed.

Lemma append_data_ins fixed k H a b aLen bLen h' fd :
  append_data grow fixed k H a b aLen bLen = (h', fd) -> n <= length H ->
  append_data grow fixed k (ins H) (sha a) (sha b) aLen bLen = (ins h', sha fd) /\ n <= length h'.
Proof.
  intros E L. unfold append_data in *.
  destruct (append_data1 grow fixed k H a b aLen bLen) as [h1 fd1] eqn:E1.
  use (append_data1_ins _ _ _ _ _ _ _ _ _ E1 L). eapply append_data2_ins; eauto.
Qed.

Lemma append_slices_ins fixed H a b h' s :
  append_slices grow fixed H a b = (h', s) -> n <= length H ->
  append_slices grow fixed (ins H) (shs a) (shs b) = (ins h', shs s) /\ n <= length h'.
Proof.
  intros E L. unfold append_slices in *. destruct fixed.
  - cbn [len shs].
    destruct (new_slice H [] (len a + len b)) as [h0 s0] eqn:E0.
    destruct (go_append grow h0 s0 (read h0 a)) as [h1 s1] eqn:E1.
    use (new_slice_ins _ _ _ _ _ E0 L). rewrite read_ins; auto.
    use (go_append_ins _ _ _ _ _ E1 Ln). rewrite read_ins; auto. eapply go_append_ins; eauto.
  - rewrite read_ins; auto. eapply go_append_ins; eauto.
Qed.

Lemma mesh_append_ins fixed H m o h' r :
  mesh_append grow fixed H m o = (h', r) -> n <= length H ->
  mesh_append grow fixed (ins H) (shm m) (shm o) = (ins h', shm r) /\ n <= length h'.
Proof.
  intros E L. unfold mesh_append in *. rewrite !attr_length_shm. cbn [v1 v2 v3 v4 idx mats shm topo].
  destruct (append_data grow fixed K1 H (v1 m) (v1 o) (attr_length m) (attr_length o)) as [h1 f1] eqn:E1.
  destruct (append_data grow fixed K2 h1 (v2 m) (v2 o) (attr_length m) (attr_length o)) as [h2 f2] eqn:E2.
  destruct (append_data grow fixed K3 h2 (v3 m) (v3 o) (attr_length m) (attr_length o)) as [h3 f3] eqn:E3.
  destruct (append_data grow fixed K4 h3 (v4 m) (v4 o) (attr_length m) (attr_length o)) as [h4 f4] eqn:E4.
  destruct (append_slices grow fixed h4 (idx m) (idx o)) as [h5 tris] eqn:E5.
  destruct (append_slices grow fixed h5 (mats m) (mats o)) as [h6 ms] eqn:E6.
  injection E as <- <-.
  use (append_data_ins _ _ _ _ _ _ _ _ _ E1 L).
  use (append_data_ins _ _ _ _ _ _ _ _ _ E2 Ln).
  use (append_data_ins _ _ _ _ _ _ _ _ _ E3 Ln0).
  use (append_data_ins _ _ _ _ _ _ _ _ _ E4 Ln1).
  use (append_slices_ins _ _ _ _ _ _ E5 Ln2).
  use (append_slices_ins _ _ _ _ _ _ E6 Ln3).
  cbn [len shs]. rewrite add_range_ins; auto. split; [reflexivity|]. rewrite add_range_length; auto.
Qed.

(* ---------------------------------------------------------------- rebuild, remove_unref, loops *)
Lemma rebuild_ins H m is drop t ix ms h' r :
  rebuild grow H m is drop t ix ms = (h', r) -> n <= length H ->
  rebuild grow (ins H) (shm m) is drop t (shs ix) (shs ms) = (ins h', shm r) /\ n <= length h'.
Proof.
  intros E L. unfold rebuild in *. cbn [v1 v2 v3 v4 shm]. rewrite !gather_map_ins; auto.
  destruct (build_map grow H (gather_map H (v4 m) is) drop) as [h1 f4] eqn:E1.
  destruct (build_map grow h1 (gather_map H (v3 m) is) drop) as [h2 f3] eqn:E2.
  destruct (build_map grow h2 (gather_map H (v2 m) is) drop) as [h3 f2] eqn:E3.
  destruct (build_map grow h3 (gather_map H (v1 m) is) drop) as [h4 f1] eqn:E4.
  injection E as <- <-.
  use (build_map_ins _ _ _ _ _ E1 L). use (build_map_ins _ _ _ _ _ E2 Ln).
  use (build_map_ins _ _ _ _ _ E3 Ln0). use (build_map_ins _ _ _ _ _ E4 Ln1).
  split; auto.
Qed.

Definition sho (x : option (heap * mesh)) : option (heap * mesh) :=
  match x with Some (h, m) => Some (ins h, shm m) | None => None end.

Lemma remove_unref_ins H m : n <= length H ->
  remove_unref grow (ins H) (shm m) = sho (remove_unref grow H m) /\
  match remove_unref grow H m with Some (h, _) => n <= length h | None => True end.
Proof.
  intros L. unfold remove_unref. rewrite idx_nats_ins, attr_length_shm; auto.
  destruct (all_below (idx_nats H m) (attr_length m)); [|simpl; auto].
  cbn [topo mats shm].
  destruct (rebuild grow H m (kept_vertices (used_flags (idx_nats H m) (attr_length m))) true (topo m) nil_slice (mats m))
    as [h1 r] eqn:E1.
  destruct (new_slice h1 (map (fun i => nat_cell (i - shift_of (used_flags (idx_nats H m) (attr_length m)) i)) (idx_nats H m)) 0)
    as [h2 s] eqn:E2.
  rewrite <- shs_nil at 1.
  use (rebuild_ins _ _ _ _ _ _ _ _ _ E1 L). use (new_slice_ins _ _ _ _ _ E2 Ln).
  simpl. split; auto.
Qed.

Definition shl (x : option (heap * list mesh)) : option (heap * list mesh) :=
  match x with Some (h, ms) => Some (ins h, map shm ms) | None => None end.

Lemma multi_loop_ins m parts : forall H, n <= length H ->
  multi_loop grow (ins H) (shm m) parts = shl (multi_loop grow H m parts) /\
  match multi_loop grow H m parts with Some (h, _) => n <= length h | None => True end.
Proof.
  induction parts as [|[ix omat] r IH]; cbn [multi_loop]; intros H L; [simpl; auto|].
  destruct (append_chunks grow H nil_slice (triples ix)) as [h1 s] eqn:E1.
  rewrite <- shs_nil at 1. use (append_chunks_ins _ _ _ _ _ E1 L).
  change (mats (shm m)) with (shs (mats m)). change (topo (shm m)) with (topo m). change (len (shs s)) with (len s).
  destruct (match omat with Some mat => new_slice h1 [[Z.of_nat (len s / index_size (topo m)); mat]] 0 | None => (h1, mats m) end)
    as [h2 ms] eqn:E2.
  assert (X : match omat with
              | Some mat => new_slice (ins h1) [[Z.of_nat (len s / index_size (topo m)); mat]] 0
              | None => (ins h1, shs (mats m))
              end = (ins h2, shs ms) /\ n <= length h2).
  { destruct omat; [eapply new_slice_ins; eauto | injection E2 as <- <-; auto]. }
  use X. rewrite with_idx_shm, with_mats_shm.
  destruct (remove_unref_ins h2 (with_mats (with_idx m s) ms) Ln0) as [Q L3]. rewrite Q. clear Q.
  destruct (remove_unref grow h2 (with_mats (with_idx m s) ms)) as [[h3 x]|]; [|simpl; auto]. cbn [sho].
  destruct (IH h3 L3) as [Q L4]. rewrite Q. clear Q.
  destruct (multi_loop grow h3 m r) as [[h4 xs]|]; simpl; auto.
Qed.

Lemma repeat_loop_ins fixed src pid vals : forall H acc h' r,
  repeat_loop grow fixed H src acc pid vals = (h', r) -> n <= length H ->
  repeat_loop grow fixed (ins H) (shm src) (shm acc) pid vals = (ins h', shm r) /\ n <= length h'.
Proof.
  induction vals as [|v rest IH]; cbn [repeat_loop]; intros H acc h' r E L.
  - injection E as <- <-. auto.
  - cbn [v3 shm]. rewrite sha_get.
    replace (match option_map shs (amap_get (v3 src) pid) with Some s => len s | None => 0 end)
      with (match amap_get (v3 src) pid with Some s => len s | None => 0 end) by (destruct (amap_get (v3 src) pid); auto).
    set (k := match amap_get (v3 src) pid with Some s => len s | None => 0 end) in *.
    destruct (new_slice H (apply_fn (FConst v) (repeat [] k)) 0) as [h1 s] eqn:E1.
    destruct (mesh_append grow fixed h1 acc (set_attr src K3 pid s)) as [h2 acc'] eqn:E2.
    use (new_slice_ins _ _ _ _ _ E1 L).
    change (mkMesh (topo src) (shs (idx src)) (shs (mats src)) (sha (v1 src)) (sha (v2 src)) (sha (v3 src)) (sha (v4 src)))
      with (shm src).
    rewrite set_attr_shm.
    use (mesh_append_ins _ _ _ _ _ _ E2 Ln). eapply IH; eauto.
Qed.

(* ---------------------------------------------------------------- every operation *)
Lemma nth_error_shm p i : nth_error (map shm p) i = option_map shm (nth_error p i).
Proof. apply nth_error_map. Qed.

Ltac getm p i m G :=
  rewrite ?(nth_error_shm p i); destruct (nth_error p i) as [m|] eqn:G; cbn [option_map]; [|reflexivity].

Theorem exec_ins fixed H p o : n <= length H ->
  exec grow fixed (ins H) (map shm p) o = shr (exec grow fixed H p o).
Proof.
  intros L. destruct o; cbn [exec].
  - (* ONew *)
    destruct (new_slice H ix spare) as [h1 s] eqn:E. use (new_slice_ins _ _ _ _ _ E L).
    unfold shr, shm. cbn [topo idx mats v1 v2 v3 v4 sha map]. rewrite shs_nil. reflexivity.
  - unfold shr, shm. cbn [topo idx mats v1 v2 v3 v4 sha map]. rewrite shs_nil. reflexivity.
  - (* OCube *)
    destruct (new_slice H pos 0) as [h1 sp] eqn:E1. destruct (new_slice h1 nrm 0) as [h2 sn] eqn:E2.
    use (new_slice_ins _ _ _ _ _ E1 L). use (new_slice_ins _ _ _ _ _ E2 Ln).
    unfold shr, shm. cbn [topo idx mats v1 v2 v3 v4]. rewrite shs_nil, shs_cube. rewrite <- !sha_set. reflexivity.
  - (* OAppend *)
    getm p i m Gi. rewrite (nth_error_shm p j). destruct (nth_error p j) as [o|] eqn:Gj; cbn [option_map]; [|reflexivity].
    change (topo (shm m)) with (topo m). change (topo (shm o)) with (topo o).
    destruct (topo_eqb (topo m) (topo o)); [|reflexivity].
    destruct (mesh_append grow fixed H m o) as [h1 r] eqn:E. use (mesh_append_ins _ _ _ _ _ _ E L). reflexivity.
  - (* OSetAttr *)
    getm p i m Gi. destruct (new_slice H data spare) as [h1 s] eqn:E. use (new_slice_ins _ _ _ _ _ E L).
    rewrite set_attr_shm. reflexivity.
  - (* OCopyAttr *)
    getm p i m Gi. rewrite (nth_error_shm p j). destruct (nth_error p j) as [src|] eqn:Gj; cbn [option_map]; [|reflexivity].
    rewrite vget_shm, sha_get. cbn [shr]. rewrite <- set_attr_shm. do 2 f_equal.
    destruct (amap_get (vget src k) name); cbn [option_map]; auto. rewrite shs_nil; auto.
  - (* OSetIndices *)
    getm p i m Gi. destruct (new_slice H ix spare) as [h1 s] eqn:E. use (new_slice_ins _ _ _ _ _ E L). reflexivity.
  - (* OSetMaterial *)
    getm p i m Gi. change (len (idx (shm m))) with (len (idx m)). change (topo (shm m)) with (topo m).
    destruct (new_slice H [[Z.of_nat (len (idx m) / index_size (topo m)); mat]] 0) as [h1 s] eqn:E.
    use (new_slice_ins _ _ _ _ _ E L). reflexivity.
  - (* OSetMaterials *)
    getm p i m Gi. destruct (new_slice H ms spare) as [h1 s] eqn:E. use (new_slice_ins _ _ _ _ _ E L). reflexivity.
  - (* OClearAttrs *)
    getm p i m Gi. reflexivity.
  - (* OMap *)
    getm p i m Gi. change (topo (shm m)) with (topo m). destruct (has_topo req (topo m)); [|reflexivity].
    rewrite vget_shm, sha_get. destruct (amap_get (vget m k) src) as [old|]; cbn [option_map]; [|reflexivity].
    change (len (idx (shm m))) with (len (idx m)). change (len (shs old)) with (len old). rewrite idx_nats_ins; auto.
    destruct (negb tris || _); [|reflexivity].
    rewrite read_ins; auto.
    destruct (new_slice H (apply_fn f (read H old)) 0) as [h1 s] eqn:E. use (new_slice_ins _ _ _ _ _ E L).
    rewrite set_attr_shm. reflexivity.
  - (* OToPoints *)
    getm p i m Gi. change (topo (shm m)) with (topo m). rewrite attr_length_shm.
    destruct (topo m); try reflexivity;
      (destruct (new_slice H (map nat_cell (seq 0 (attr_length m))) 0) as [h1 s] eqn:E;
       use (new_slice_ins _ _ _ _ _ E L); reflexivity).
  - (* OFlip *)
    getm p i m Gi. change (topo (shm m)) with (topo m). destruct (topo_eqb (topo m) Triangle); [|reflexivity].
    change (len (idx (shm m))) with (len (idx m)). destruct (len (idx m) mod 3 =? 0); [|reflexivity].
    change (idx (shm m)) with (shs (idx m)). rewrite read_ins; auto.
    destruct (new_slice H (flip3 (read H (idx m))) 0) as [h1 s] eqn:E. use (new_slice_ins _ _ _ _ _ E L). reflexivity.
  - (* OUnweld *)
    getm p i m Gi. rewrite idx_nats_ins, maps_in_range_ins; auto.
    destruct (maps_in_range H m (idx_nats H m)); [|reflexivity].
    destruct (new_slice H (map nat_cell (seq 0 (length (idx_nats H m)))) 0) as [h1 s] eqn:E1.
    use (new_slice_ins _ _ _ _ _ E1 L).
    change (topo (shm m)) with (topo m). change (mats (shm m)) with (shs (mats m)).
    destruct (rebuild grow h1 m (idx_nats H m) false (topo m) s (mats m)) as [h2 r] eqn:E2.
    use (rebuild_ins _ _ _ _ _ _ _ _ _ E2 Ln). reflexivity.
  - (* ORemoveUnref *)
    getm p i m Gi. destruct (remove_unref_ins H m L) as [Q _]. rewrite Q.
    destruct (remove_unref grow H m) as [[h1 r]|]; reflexivity.
  - (* OWeld *)
    getm p i m Gi. change (v3 (shm m)) with (sha (v3 m)). rewrite sha_get.
    destruct (amap_get (v3 m) name) as [data|]; cbn [option_map]; [|reflexivity].
    change (topo (shm m)) with (topo m). destruct (topo_eqb (topo m) Triangle); [|reflexivity].
    change (len (idx (shm m))) with (len (idx m)). change (len (shs data)) with (len data). rewrite idx_nats_ins; auto.
    destruct ((len (idx m) mod 3 =? 0) && _); [|reflexivity].
    destruct (append_chunks grow H nil_slice (triples newidx)) as [h1 s] eqn:E1.
    rewrite <- shs_nil at 1. use (append_chunks_ins _ _ _ _ _ E1 L).
    destruct (rebuild grow h1 m keep false (topo m) s nil_slice) as [h2 r] eqn:E2.
    rewrite <- shs_nil at 1. use (rebuild_ins _ _ _ _ _ _ _ _ _ E2 Ln). reflexivity.
  - (* ORepeat *)
    getm p i m Gi. change (v3 (shm m)) with (sha (v3 m)). rewrite sha_get. change (topo (shm m)) with (topo m).
    assert (X : forall h1 r, repeat_loop grow fixed H m (mkMesh (topo m) nil_slice nil_slice [] [] [] []) pid vals = (h1, r) ->
                repeat_loop grow fixed (ins H) (shm m) (mkMesh (topo m) nil_slice nil_slice [] [] [] []) pid vals = (ins h1, shm r)).
    { intros h1 r E.
      replace (mkMesh (topo m) nil_slice nil_slice [] [] [] []) with (shm (mkMesh (topo m) nil_slice nil_slice [] [] [] [])) at 1
        by (unfold shm; cbn [topo idx mats v1 v2 v3 v4 sha map]; rewrite shs_nil; reflexivity).
      eapply repeat_loop_ins; eauto. }
    destruct vals as [|v vs].
    + destruct (repeat_loop grow fixed H m _ pid []) as [h1 r] eqn:E. rewrite (X _ _ eq_refl).
      destruct (amap_get (v3 m) pid); reflexivity.
    + destruct (amap_get (v3 m) pid); cbn [option_map]; [|reflexivity].
      destruct (repeat_loop grow fixed H m _ pid (v :: vs)) as [h1 r] eqn:E. rewrite (X _ _ eq_refl). reflexivity.
  - (* OExport *)
    getm p i m Gi. reflexivity.
  - (* OSetData *)
    getm p i m Gi. destruct (alloc_map H cont) as [h1 a] eqn:E. use (alloc_map_ins _ _ _ _ E L).
    rewrite vset_shm. reflexivity.
  - (* OIdent *)
    getm p i m Gi. reflexivity.
  - (* OFilter *)
    getm p i m Gi. change (topo (shm m)) with (topo m). destruct (has_topo req (topo m)); [|reflexivity].
    rewrite vget_shm, sha_get. destruct (amap_get (vget m k) name) as [old|]; cbn [option_map]; [|reflexivity].
    destruct (append_each grow H nil_slice keepidx) as [h1 s] eqn:E1.
    rewrite <- shs_nil at 1. use (append_each_ins _ _ _ _ _ E1 L).
    rewrite with_idx_shm. destruct (remove_unref_ins h1 (with_idx m s) Ln) as [Q _]. rewrite Q.
    destruct (remove_unref grow h1 (with_idx m s)) as [[h2 r]|]; reflexivity.
  - (* OCrop *)
    getm p i m Gi. change (topo (shm m)) with (topo m). destruct (topo_eqb (topo m) Point); [|reflexivity].
    change (v3 (shm m)) with (sha (v3 m)). rewrite sha_get.
    destruct (amap_get (v3 m) name) as [old|]; cbn [option_map]; [|reflexivity].
    change (mats (shm m)) with (shs (mats m)).
    destruct (rebuild grow H m keep true Point nil_slice (mats m)) as [h1 r] eqn:E1.
    rewrite <- shs_nil at 1. use (rebuild_ins _ _ _ _ _ _ _ _ _ E1 L).
    rewrite attr_length_shm.
    destruct (new_slice h1 (map nat_cell (seq 0 (attr_length r))) 0) as [h2 s] eqn:E2.
    use (new_slice_ins _ _ _ _ _ E2 Ln). reflexivity.
  - (* OMulti *)
    getm p i m Gi. change (topo (shm m)) with (topo m). change (v3 (shm m)) with (sha (v3 m)).
    replace (match name with Some nm => amap_mem (sha (v3 m)) nm | None => true end)
      with (match name with Some nm => amap_mem (v3 m) nm | None => true end)
      by (destruct name; auto; rewrite sha_mem; auto).
    destruct (has_topo req (topo m) && _); [|reflexivity].
    change (v4 (shm m)) with (sha (v4 m)). change (v2 (shm m)) with (sha (v2 m)). change (v1 (shm m)) with (sha (v1 m)).
    change (idx (shm m)) with (shs (idx m)). change (mats (shm m)) with (shs (mats m)).
    destruct (copy_map grow H (v4 m)) as [h1 c4] eqn:E1. use (copy_map_ins _ _ _ _ E1 L).
    destruct (copy_map grow h1 (v3 m)) as [h2 c3] eqn:E2. use (copy_map_ins _ _ _ _ E2 Ln).
    destruct (copy_map grow h2 (v2 m)) as [h3 c2] eqn:E3. use (copy_map_ins _ _ _ _ E3 Ln0).
    destruct (copy_map grow h3 (v1 m)) as [h4 c1] eqn:E4. use (copy_map_ins _ _ _ _ E4 Ln1).
    change (mkMesh (topo m) (shs (idx m)) (shs (mats m)) (sha c1) (sha c2) (sha c3) (sha c4))
      with (shm (mkMesh (topo m) (idx m) (mats m) c1 c2 c3 c4)).
    destruct (multi_loop_ins (mkMesh (topo m) (idx m) (mats m) c1 c2 c3 c4) parts h4 Ln2) as [Q _]. rewrite Q.
    destruct (multi_loop grow h4 _ parts) as [[h5 rs]|]; reflexivity.
  - (* OBuild *)
    destruct (new_slice H ix 0) as [h1 s] eqn:E1. use (new_slice_ins _ _ _ _ _ E1 L).
    destruct (new_slice h1 ms 0) as [h2 sm] eqn:E2. use (new_slice_ins _ _ _ _ _ E2 Ln).
    destruct (alloc_map h2 c4) as [h3 a4] eqn:E3. use (alloc_map_ins _ _ _ _ E3 Ln0).
    destruct (alloc_map h3 c3) as [h4 a3] eqn:E4. use (alloc_map_ins _ _ _ _ E4 Ln1).
    destruct (alloc_map h4 c2) as [h5 a2] eqn:E5. use (alloc_map_ins _ _ _ _ E5 Ln2).
    destruct (alloc_map h5 c1) as [h6 a1] eqn:E6. use (alloc_map_ins _ _ _ _ E6 Ln3).
    reflexivity.
  - (* OShareMats *)
    getm p i m Gi. rewrite (nth_error_shm p j). destruct (nth_error p j) as [src|] eqn:Gj; cbn [option_map]; [|reflexivity].
    reflexivity.
Qed.

End G.
End Shift.

(* ================================================================ derivations commute *)
Section Commute.
Variable grow : nat -> nat -> nat.

(* every pool index the operation mentions is below n (and its receiver exists) *)
Definition refs_below (n : nat) (o : op) : Prop :=
  operand o < n /\ match o with OAppend _ j | OCopyAttr _ _ j _ | OShareMats _ j => j < n | _ => True end.

(* what an operation adds to a state: the error class and the observations of the members it creates *)
Definition added (st : state) (o : op) : status * list obs :=
  let st' := fst (step grow true st o) in
  (snd (step grow true st o),
   map (fun g => observe (heap_of st') (load (maps_of st') g)) (skipn (length (pool st)) (pool st'))).

Lemma exec_pool_ext fixed h p q o : refs_below (length p) o -> exec grow fixed h (p ++ q) o = exec grow fixed h p o.
Proof.
  intros [Hi Hj]. destruct o; cbn [exec operand] in *; rewrite ?nth_error_app1 by lia; reflexivity.
Qed.

Lemma prefix_of_frame {A} (d : A) : forall h h' : list A,
  length h <= length h' -> (forall p, p < length h -> nth p h' d = nth p h d) -> exists e, h' = h ++ e.
Proof.
  induction h as [|x t IH]; intros h' L F; [exists h'; auto|].
  destruct h' as [|x' t']; [simpl in L; lia|].
  pose proof (F 0 ltac:(simpl; lia)) as F0. simpl in F0. subst x'.
  destruct (IH t' ltac:(simpl in L; lia)) as [e ->].
  { intros p Hp. apply (F (S p)). simpl; lia. }
  exists e; auto.
Qed.

Lemma shs_id e n s : ptr s < n -> shs e n s = s.
Proof. intros H. unfold shs, shp. apply Nat.ltb_lt in H. rewrite H. destruct s; reflexivity. Qed.
Lemma sha_id e n a : amap_ok n a -> sha e n a = a.
Proof.
  intros H. induction H as [|[k s] t Hs Ht IH]; [reflexivity|].
  change (sha e n ((k, s) :: t)) with ((k, shs e n s) :: sha e n t). rewrite IH, shs_id; auto.
Qed.
Lemma shm_id e n m : mesh_ok n m -> shm e n m = m.
Proof.
  intros (A & B & C & D & E & F). unfold shm. rewrite !shs_id, !sha_id; auto. destruct m; reflexivity.
Qed.

Lemma ins_top e (H : heap) : ins e (length H) H = H ++ e.
Proof. unfold ins. rewrite firstn_all, skipn_all. rewrite app_nil_r. reflexivity. Qed.

(* which map a committed member ends up with, per dimension *)
Definition pick (mh : mheap) (o : op) (g0 : gmesh) (m : mesh) (k : kind) : amap :=
  match map_plan o k with MShare => mget mh (gid g0 k) | MNil => mget mh 0 | MFresh => vget m k end.

Lemma place_get mh pl sh a mh1 id : place mh pl sh a = (mh1, id) -> sh < length mh -> 0 < length mh ->
  (exists l, mh1 = mh ++ l) /\
  forall ml, mget (mh1 ++ ml) id = match pl with MShare => mget mh sh | MNil => mget mh 0 | MFresh => a end.
Proof.
  intros E Hs H0. destruct pl; injection E as <- <-; unfold mget.
  - split; [exists []; rewrite app_nil_r; auto|]. intros ml. rewrite app_nth1; auto.
  - split; [exists [a]; auto|]. intros ml. rewrite <- app_assoc. rewrite app_nth2 by lia. rewrite Nat.sub_diag. reflexivity.
  - split; [exists []; rewrite app_nil_r; auto|]. intros ml. rewrite app_nth1; auto.
Qed.

Lemma commit_load mh o g0 m mh' g : commit mh o g0 m = (mh', g) -> 0 < length mh -> (forall k, gid g0 k < length mh) ->
  (exists l, mh' = mh ++ l) /\
  forall ml, load (mh' ++ ml) g = mkMesh (topo m) (idx m) (mats m) (pick mh o g0 m K1) (pick mh o g0 m K2) (pick mh o g0 m K3) (pick mh o g0 m K4).
Proof.
  unfold commit. intros E H0 G.
  destruct (place mh (map_plan o K1) (g_v1 g0) (v1 m)) as [mh1 i1] eqn:E1.
  destruct (place mh1 (map_plan o K2) (g_v2 g0) (v2 m)) as [mh2 i2] eqn:E2.
  destruct (place mh2 (map_plan o K3) (g_v3 g0) (v3 m)) as [mh3 i3] eqn:E3.
  destruct (place mh3 (map_plan o K4) (g_v4 g0) (v4 m)) as [mh4 i4] eqn:E4.
  injection E as <- <-.
  destruct (place_get _ _ _ _ _ _ E1 (G K1) H0) as ((l1 & ->) & P1).
  destruct (place_get _ _ _ _ _ _ E2 ltac:(rewrite app_length; pose proof (G K2); simpl in *; lia) ltac:(rewrite app_length; lia)) as ((l2 & ->) & P2).
  destruct (place_get _ _ _ _ _ _ E3 ltac:(rewrite !app_length; pose proof (G K3); simpl in *; lia) ltac:(rewrite !app_length; lia)) as ((l3 & ->) & P3).
  destruct (place_get _ _ _ _ _ _ E4 ltac:(rewrite !app_length; pose proof (G K4); simpl in *; lia) ltac:(rewrite !app_length; lia)) as ((l4 & ->) & P4).
  split; [exists (l1 ++ l2 ++ l3 ++ l4); rewrite <- !app_assoc; reflexivity|].
  intros ml. unfold load; cbn [g_topo g_idx g_mats g_v1 g_v2 g_v3 g_v4]. unfold pick.
  cbn [gid vget].
  pose proof (G K1) as G1. pose proof (G K2) as G2. pose proof (G K3) as G3. pose proof (G K4) as G4. cbn [gid] in *.
  f_equal.
  - replace (((((mh ++ l1) ++ l2) ++ l3) ++ l4) ++ ml) with ((mh ++ l1) ++ (l2 ++ l3 ++ l4 ++ ml))
      by (rewrite <- !app_assoc; reflexivity).
    rewrite P1. reflexivity.
  - replace (((((mh ++ l1) ++ l2) ++ l3) ++ l4) ++ ml) with (((mh ++ l1) ++ l2) ++ (l3 ++ l4 ++ ml))
      by (rewrite <- !app_assoc; reflexivity).
    rewrite P2. destruct (map_plan o K2); unfold mget; rewrite ?app_nth1 by lia; reflexivity.
  - replace (((((mh ++ l1) ++ l2) ++ l3) ++ l4) ++ ml) with ((((mh ++ l1) ++ l2) ++ l3) ++ (l4 ++ ml))
      by (rewrite <- !app_assoc; reflexivity).
    rewrite P3. destruct (map_plan o K3); unfold mget; rewrite ?app_nth1 by (rewrite ?app_length; lia); reflexivity.
  - rewrite P4. destruct (map_plan o K4); unfold mget; rewrite ?app_nth1 by (rewrite ?app_length; lia); reflexivity.
Qed.

Section Pair.
Variables (e : heap) (n : nat).
Hypothesis n1 : 1 < n.

(* the same result committed in two tables of maps that agree on the ids the receiver can share *)
Lemma commit_pair A B o g0 m N0 A' g B' g' :
  commit A o g0 m = (A', g) -> commit B o g0 (shm e n m) = (B', g') ->
  0 < N0 -> N0 <= length A -> N0 <= length B -> (forall k, gid g0 k < N0) ->
  (forall id, id < N0 -> mget B id = mget A id) -> (forall id, id < N0 -> amap_ok n (mget A id)) ->
  (exists la, A' = A ++ la) /\ (exists lb, B' = B ++ lb) /\
  forall h' ma mb, n <= length h' ->
    observe (ins e n h') (load (B' ++ mb) g') = observe h' (load (A' ++ ma) g).
Proof.
  intros EA EB H0 LA LB G Agree Ok.
  destruct (commit_load _ _ _ _ _ _ EA ltac:(lia) ltac:(intros k; specialize (G k); lia)) as (PA & QA).
  destruct (commit_load _ _ _ _ _ _ EB ltac:(lia) ltac:(intros k; specialize (G k); lia)) as (PB & QB).
  split; auto. split; auto. intros h' ma mb L.
  rewrite QA, QB.
  assert (P : forall k, pick B o g0 (shm e n m) k = sha e n (pick A o g0 m k)).
  { intros k. unfold pick. destruct (map_plan o k).
    - rewrite Agree by apply G. symmetry. apply sha_id. apply Ok. apply G.
    - apply vget_shm.
    - rewrite Agree by lia. symmetry. apply sha_id. apply Ok. lia. }
  rewrite !P.
  change (mkMesh (topo (shm e n m)) (idx (shm e n m)) (mats (shm e n m)) (sha e n (pick A o g0 m K1))
            (sha e n (pick A o g0 m K2)) (sha e n (pick A o g0 m K3)) (sha e n (pick A o g0 m K4)))
    with (shm e n (mkMesh (topo m) (idx m) (mats m) (pick A o g0 m K1) (pick A o g0 m K2) (pick A o g0 m K3) (pick A o g0 m K4))).
  apply observe_ins; auto.
Qed.

Lemma commit_all_pair o g0 N0 ms : forall A B A' gs B' gs',
  commit_all A o g0 ms = (A', gs) -> commit_all B o g0 (map (shm e n) ms) = (B', gs') ->
  0 < N0 -> N0 <= length A -> N0 <= length B -> (forall k, gid g0 k < N0) ->
  (forall id, id < N0 -> mget B id = mget A id) -> (forall id, id < N0 -> amap_ok n (mget A id)) ->
  (exists la, A' = A ++ la) /\ (exists lb, B' = B ++ lb) /\
  forall h' ma mb, n <= length h' ->
    map (fun x => observe (ins e n h') (load (B' ++ mb) x)) gs' = map (fun x => observe h' (load (A' ++ ma) x)) gs.
Proof.
  induction ms as [|m r IH]; cbn [commit_all map]; intros A B A' gs B' gs' EA EB H0 LA LB G Agree Ok.
  - injection EA as <- <-. injection EB as <- <-.
    split; [exists []; rewrite app_nil_r; auto|]. split; [exists []; rewrite app_nil_r; auto|]. reflexivity.
  - destruct (commit A o g0 m) as [A1 g] eqn:E1. destruct (commit_all A1 o g0 r) as [A2 gr] eqn:E2.
    destruct (commit B o g0 (shm e n m)) as [B1 g'] eqn:F1. destruct (commit_all B1 o g0 (map (shm e n) r)) as [B2 gr'] eqn:F2.
    injection EA as <- <-. injection EB as <- <-.
    destruct (commit_pair _ _ _ _ _ _ _ _ _ _ E1 F1 H0 LA LB G Agree Ok) as ((la & ->) & (lb & ->) & O1).
    destruct (IH _ _ _ _ _ _ E2 F2 H0 ltac:(rewrite app_length; lia) ltac:(rewrite app_length; lia) G) as ((la2 & ->) & (lb2 & ->) & O2).
    { intros id Hid. unfold mget. rewrite !app_nth1 by lia. apply Agree; auto. }
    { intros id Hid. unfold mget. rewrite app_nth1 by lia. apply Ok; auto. }
    split; [exists (la ++ la2); rewrite app_assoc; auto|]. split; [exists (lb ++ lb2); rewrite app_assoc; auto|].
    intros h' ma mb L. cbn [map]. f_equal.
    + rewrite <- (app_assoc (B ++ lb)), <- (app_assoc (A ++ la)). apply O1; auto.
    + apply O2; auto.
Qed.
End Pair.

(* HEADLINE: what o1 adds (error class, observations of the meshes it creates) is the same whether or not another
   operation o2 ran first *)
Theorem added_after_step st o2 o1 :
  inv st -> refs_below (length (pool st)) o1 ->
  added (fst (step grow true st o2)) o1 = added st o1.
Proof.
  intros Hi Hr.
  destruct (step_facts grow st o2 Hi) as (Hi2 & F & (ml & Hml) & l & Hl).
  set (s2 := fst (step grow true st o2)) in *.
  destruct Hi as (H1 & H0 & Hm & Hp). destruct F as [FL FN].
  destruct (prefix_of_frame [] _ _ FL FN) as [e He].
  set (n := length (heap_of st)) in *.
  set (pl := map (load (maps_of st)) (pool st)).
  assert (Hpl : pool_ok n pl).
  { unfold pool_ok, pl. rewrite Forall_map. eapply Forall_impl; [|exact Hp]. intros g Hg. eapply load_ok; eauto. }
  assert (X : exec grow true (heap_of s2) (map (load (maps_of s2)) (pool s2)) o1 = shr e n (exec grow true (heap_of st) pl o1)).
  { rewrite Hl, map_app. rewrite exec_pool_ext by (rewrite map_length; exact Hr).
    replace (map (load (maps_of s2)) (pool st)) with (map (shm e n) pl).
    - rewrite He. rewrite <- (ins_top e (heap_of st)). apply exec_ins; auto; unfold n; lia.
    - unfold pl. rewrite map_map. apply map_ext_in. intros g Hg.
      eapply Forall_forall in Hp; eauto. rewrite Hml. rewrite (load_app _ _ _ _ _ Hp (le_n _)).
      apply shm_id. eapply load_ok; eauto. }
  destruct Hr as [Hop _].
  assert (G0 : nth (operand o1) (pool s2) nilg = nth (operand o1) (pool st) nilg) by (rewrite Hl; apply app_nth1; auto).
  set (g0 := nth (operand o1) (pool st) nilg) in *.
  assert (Gok : gmesh_ok n (length (maps_of st)) g0).
  { unfold g0. eapply Forall_forall; [exact Hp|]. apply nth_In; auto. }
  assert (Gid : forall k, gid g0 k < length (maps_of st)).
  { destruct Gok as (_ & _ & A & B & C & D). intros []; simpl; auto. }
  assert (Agree : forall id, id < length (maps_of st) -> mget (maps_of s2) id = mget (maps_of st) id).
  { intros id Hid. rewrite Hml. unfold mget. apply app_nth1; auto. }
  assert (Okm : forall id, id < length (maps_of st) -> amap_ok n (mget (maps_of st) id)).
  { intros id _. apply mget_ok; auto. }
  pose proof (exec_ok grow (heap_of st) pl o1 H1 Hpl) as EX.
  unfold added, step. rewrite X, G0. fold pl. fold g0.
  destruct (exec grow true (heap_of st) pl o1) as [h' m|h' ms|h'|c]; cbn [shr fst snd heap_of maps_of pool].
  - destruct EX as (_ & Lh & _).
    destruct (commit (maps_of st) o1 g0 m) as [A' g] eqn:EA.
    destruct (commit (maps_of s2) o1 g0 (shm e n m)) as [B' g'] eqn:EB. cbn [fst snd heap_of maps_of pool].
    rewrite !skipn_app, !skipn_all, !Nat.sub_diag. cbn [skipn app map]. f_equal. f_equal.
    destruct (commit_pair e n ltac:(unfold n; lia) _ _ _ _ _ (length (maps_of st)) _ _ _ _ EA EB H0 (le_n _)
                ltac:(rewrite Hml, app_length; lia) Gid Agree Okm) as (_ & _ & O).
    specialize (O h' [] [] Lh). rewrite !app_nil_r in O. exact O.
  - destruct EX as (_ & Lh & _).
    destruct (commit_all (maps_of st) o1 g0 ms) as [A' gs] eqn:EA.
    destruct (commit_all (maps_of s2) o1 g0 (map (shm e n) ms)) as [B' gs'] eqn:EB. cbn [fst snd heap_of maps_of pool].
    rewrite !skipn_app, !skipn_all, !Nat.sub_diag. cbn [skipn app]. f_equal.
    destruct (commit_all_pair e n ltac:(unfold n; lia) _ _ (length (maps_of st)) _ _ _ _ _ _ _ EA EB H0 (le_n _)
                ltac:(rewrite Hml, app_length; lia) Gid Agree Okm) as (_ & _ & O).
    specialize (O h' [] [] Lh). rewrite !app_nil_r in O. exact O.
  - rewrite !skipn_all. reflexivity.
  - rewrite !skipn_all. reflexivity.
Qed.

End Commute.
