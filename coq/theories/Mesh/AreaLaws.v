(* C03: RemoveNullFaces3D with the exact area predicate.  For integer (or dyadic, see Desc.Exp of the
   harness) coordinates the squared area of a triangle is |cross (p2-p1) (p3-p1)|^2 / 4, an integer
   over 4; "area > MinArea" (MinArea >= 0) is therefore  4 * MinArea^2 < |cross|^2,  decided in Z. *)
From Coq Require Import List NArith ZArith Bool Arith Lia.
From PF Require Import Mesh.Pure Mesh.PureLemmas Mesh.PureProofs Mesh.Case Mesh.PureLaws.
Import ListNotations.

(* |cross (p2 - p1) (p3 - p1)|^2 = 4 * area^2 of the triangle p1 p2 p3 *)
Definition cross_sq (p1 p2 p3 : vec) : Z :=
  let c := cross (vzip Z.sub p2 p1) (vzip Z.sub p3 p1) in dot c c.

(* in coordinates *)
Lemma cross_sq_coords : forall x1 y1 z1 x2 y2 z2 x3 y3 z3,
  cross_sq [x1; y1; z1] [x2; y2; z2] [x3; y3; z3] =
  (let ux := x2 - x1 in let uy := y2 - y1 in let uz := z2 - z1 in
   let vx := x3 - x1 in let vy := y3 - y1 in let vz := z3 - z1 in
   (uy * vz - uz * vy) * (uy * vz - uz * vy) + (uz * vx - ux * vz) * (uz * vx - ux * vz)
   + (ux * vy - uy * vx) * (ux * vy - uy * vx))%Z.
Proof. intros. unfold cross_sq, cross, dot, vzip. cbn. ring. Qed.

(* a triangle of zero area (two equal corners, or three corners in line) has cross_sq = 0 *)
Lemma cross_sq_repeated : forall x1 y1 z1 x3 y3 z3,
  cross_sq [x1; y1; z1] [x1; y1; z1] [x3; y3; z3] = 0%Z.
Proof. intros. rewrite cross_sq_coords. cbn zeta. ring. Qed.

Lemma cross_sq_nonneg : forall x1 y1 z1 x2 y2 z2 x3 y3 z3,
  (0 <= cross_sq [x1; y1; z1] [x2; y2; z2] [x3; y3; z3])%Z.
Proof.
  intros. rewrite cross_sq_coords. cbn zeta.
  repeat apply Z.add_nonneg_nonneg; apply Z.square_nonneg.
Qed.

(* the test the model (and, by the correspondence, the implementation) applies: min4 = 4 * MinArea^2 *)
Lemma area_keep_spec : forall min4 p1 p2 p3,
  area_keep min4 [p1; p2; p3] = true <-> (min4 < cross_sq p1 p2 p3)%Z.
Proof. intros. unfold area_keep, cross_sq. apply Z.ltb_lt. Qed.

(* the same on an index triple *)
Definition tri_cross_sq (d : list vec) (t : list nat) : Z :=
  match t with [a; b; c] => cross_sq (nth a d []) (nth b d []) (nth c d []) | _ => 0%Z end.

Lemma area_keep_gather : forall min4 d t, length t = 3 ->
  area_keep min4 (gather t d) = (min4 <? tri_cross_sq d t)%Z.
Proof.
  intros min4 d t H. destruct t as [|a [|b [|c [|? ?]]]]; try discriminate. reflexivity.
Qed.

(* RemoveNullFaces3D(m, a, MinArea): the surviving triangles are EXACTLY those whose true area exceeds
   MinArea (4 MinArea^2 < |cross|^2), in order, with their corner content unchanged; nothing else changes *)
Theorem remove_null_area_spec : forall a min4 m d, wf m -> topology m = Triangle ->
  lookup (3%N, a) (attrs m) = Some d ->
  exists r, remove_null a (area_keep min4) m = Ok [r]
    /\ prims r = map (map (row m)) (filter (fun t => (min4 <? tri_cross_sq d t)%Z) (chunk3 (indices m)))
    /\ corners r = map (row m) (concat (filter (fun t => (min4 <? tri_cross_sq d t)%Z) (chunk3 (indices m))))
    /\ topology r = topology m /\ materials r = materials m
    /\ (r = m \/ forall v, v < nverts r -> In v (indices r)).
Proof.
  intros a min4 m d W T L.
  destruct (remove_null_spec a (area_keep min4) m d W T L) as [r [E [P [C R]]]].
  assert (F : filter (fun t => area_keep min4 (gather t d)) (chunk3 (indices m))
              = filter (fun t => (min4 <? tri_cross_sq d t)%Z) (chunk3 (indices m))).
  { apply filter_ext_in. intros t Ht. apply area_keep_gather.
    pose proof (chunk3_lengths nat (indices m)) as Len. rewrite Forall_forall in Len. apply Len, Ht. }
  exists r. rewrite <- F. split; [exact E|]. split; [exact P|]. split; [exact C|exact R].
Qed.

(* MinArea = 0: exactly the triangles of non-zero area survive *)
Corollary remove_null_zero : forall a m d, wf m -> topology m = Triangle ->
  lookup (3%N, a) (attrs m) = Some d ->
  exists r, remove_null a (area_keep 0) m = Ok [r]
    /\ prims r = map (map (row m)) (filter (fun t => (0 <? tri_cross_sq d t)%Z) (chunk3 (indices m))).
Proof.
  intros a m d W T L. destruct (remove_null_area_spec a 0%Z m d W T L) as [r [E [P _]]].
  exists r. split; assumption.
Qed.

(* a needle: long edge 2^30 along x, apex one unit off the axis - area 2^29, far from degenerate *)
Example needle_kept : area_keep 0 [[0; 0; 0]; [1073741824; 0; 0]; [536870912; 1; 0]]%Z = true
  /\ cross_sq [0; 0; 0]%Z [1073741824; 0; 0]%Z [536870912; 1; 0]%Z = (1073741824 * 1073741824)%Z.
Proof. split; vm_compute; reflexivity. Qed.
