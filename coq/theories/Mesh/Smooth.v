(* Pure functional model of modeling.Mesh.VertexNeighborTable, meshops.LaplacianSmooth and
   meshops.CenterFloat3Attribute (property C03), ONE coordinate at a time, over the canonical
   rationals Qc (Leibniz equality; the three coordinates of a vector3 evolve independently).
   Executable definitions only - every lemma lives in Mesh/SmoothProofs.v.

   Go reference (modeling/mesh.go, modeling/vertex_lut.go, modeling/meshops/laplacian_smoothing.go):
     VertexNeighborTable: Triangle  : per index triple (p1,p2,p3): Link p1 p2, Link p2 p3, Link p1 p3
                          LineStrip : Link idx[i-1] idx[i]   for i = 1,2,3,...
                          Line      : Link idx[i-1] idx[i]   for i = 1,3,5,...
                          LineLoop  : as LineStrip, plus Link idx[0] idx[last] when idx is non-empty
                          Point/Quad: unsupported (panic)            - modelled by "no links"
     Link a b stores b in the SET of a and a in the SET of b (a vertex can be its own neighbour).
     LaplacianSmooth: on a copy of the attribute array, `iterations` times, for vi = 0..n-1 in order:
        count(vi) = 0 -> skip;  v[vi] <- v[vi] + (sum_{vn in N(vi)} v[vn] / count(vi) - v[vi]) * factor
     i.e. an IN-PLACE (Gauss-Seidel) sweep: vertex vi sees the updated values of the vertices before it. *)
From Coq Require Import List Arith Bool Lia QArith Qcanon.
From PF Require Import Mesh.Pure.
Import ListNotations.
Open Scope Qc_scope.

(* ---------------------------------------------------------------- the neighbour table *)
Fixpoint tri_links (l : list nat) : list (nat * nat) :=
  match l with
  | a :: b :: c :: r => (a, b) :: (b, c) :: (a, c) :: tri_links r
  | _ => []
  end.

Fixpoint strip_links (l : list nat) : list (nat * nat) :=
  match l with
  | a :: r => match r with b :: _ => (a, b) :: strip_links r | [] => [] end
  | [] => []
  end.

Fixpoint line_links (l : list nat) : list (nat * nat) :=
  match l with
  | a :: b :: r => (a, b) :: line_links r
  | _ => []
  end.

Definition loop_links (l : list nat) : list (nat * nat) :=
  strip_links l ++ match l with [] => [] | a :: _ => [(a, last l a)] end.

(* the Link calls of VertexNeighborTable, in program order *)
Definition links (t : topo) (idx : list nat) : list (nat * nat) :=
  match t with
  | Triangle => tri_links idx
  | LineStrip => strip_links idx
  | Line => line_links idx
  | LineLoop => loop_links idx
  | Point | Quad => []
  end.

(* what one link contributes to the neighbour set of v *)
Definition link_of (v : nat) (p : nat * nat) : list nat :=
  (if fst p =? v then [snd p] else []) ++ (if snd p =? v then [fst p] else []).

(* lut.Lookup(v) as a duplicate-free list; lut.Count(v) is its length *)
Definition neighbours (t : topo) (idx : list nat) (v : nat) : list nat :=
  nodup Nat.eq_dec (flat_map (link_of v) (links t idx)).

(* ---------------------------------------------------------------- Laplacian smoothing *)
Definition nat2Qc (n : nat) : Qc := Q2Qc (inject_Z (Z.of_nat n)).

Definition qsum (l : list Qc) : Qc := fold_right Qcplus 0 l.

(* sum / count; 0 for the empty list (x / 0 = 0 in Qc) *)
Definition mean (l : list Qc) : Qc := qsum l / nat2Qc (length l).

Fixpoint set_nth {A} (n : nat) (x : A) (l : list A) : list A :=
  match l with
  | [] => []
  | a :: r => match n with O => x :: r | S n' => a :: set_nth n' x r end
  end.

(* the body of the inner loop for vertex v *)
Definition lap_vertex (nb : nat -> list nat) (f : Qc) (d : list Qc) (v : nat) : list Qc :=
  match nb v with
  | [] => d
  | ns => let x := nth v d 0 in
          set_nth v (x + (mean (map (fun j => nth j d 0) ns) - x) * f) d
  end.

(* one iteration: the in-place sweep over vi = 0..n-1 *)
Definition lap_sweep (nb : nat -> list nat) (f : Qc) (d : list Qc) : list Qc :=
  fold_left (lap_vertex nb f) (seq 0 (length d)) d.

Fixpoint laplacian (nb : nat -> list nat) (f : Qc) (k : nat) (d : list Qc) : list Qc :=
  match k with
  | O => d
  | S k' => lap_sweep nb f (laplacian nb f k' d)
  end.

(* LaplacianSmooth on one coordinate of a mesh attribute *)
Definition laplacian_mesh (t : topo) (idx : list nat) (f : Qc) (k : nat) (d : list Qc) : list Qc :=
  laplacian (neighbours t idx) f k d.

(* ---------------------------------------------------------------- CenterFloat3Attribute, one coordinate *)
Definition Qcmin (a b : Qc) : Qc := if Qclt_le_dec a b then a else b.
Definition Qcmax (a b : Qc) : Qc := if Qclt_le_dec a b then b else a.

Definition lmin (d : list Qc) : Qc :=
  match d with [] => 0 | x :: r => fold_left Qcmin r x end.
Definition lmax (d : list Qc) : Qc :=
  match d with [] => 0 | x :: r => fold_left Qcmax r x end.

Definition two : Qc := Q2Qc (2 # 1).

(* subtract the midpoint of the bounds *)
Definition centre (d : list Qc) : list Qc :=
  match d with
  | [] => []
  | _ => map (fun x => x - (lmin d + lmax d) / two) d
  end.
