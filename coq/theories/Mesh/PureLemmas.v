(* Shared core list lemmas for the mesh model (properties C02, C03): rank/compact/shift_by,
   used_mask, chunk3/chunk4/flip3, sorted attribute maps (lookup/insert/remove_key). *)
From Coq Require Import List NArith ZArith Bool Arith Lia.
From PF Require Import Mesh.Pure.
Import ListNotations.

(* ================================================================ small generic facts *)
Lemma mod3_step : forall n, S (S (S n)) mod 3 = n mod 3.
Proof. intros n. replace (S (S (S n))) with (n + 1 * 3) by lia. apply Nat.mod_add. lia. Qed.

Lemma mod4_step : forall n, S (S (S (S n))) mod 4 = n mod 4.
Proof. intros n. replace (S (S (S (S n)))) with (n + 1 * 4) by lia. apply Nat.mod_add. lia. Qed.

Lemma list_ind3 : forall (A : Type) (P : list A -> Prop),
  P [] -> (forall a, P [a]) -> (forall a b, P [a; b]) ->
  (forall a b c r, P r -> P (a :: b :: c :: r)) -> forall l, P l.
Proof. intros A P H0 H1 H2 H3. fix IH 1. intros [|a [|b [|c r]]]; [apply H0|apply H1|apply H2|apply H3, IH]. Qed.

Lemma list_ind4 : forall (A : Type) (P : list A -> Prop),
  P [] -> (forall a, P [a]) -> (forall a b, P [a; b]) -> (forall a b c, P [a; b; c]) ->
  (forall a b c d r, P r -> P (a :: b :: c :: d :: r)) -> forall l, P l.
Proof. intros A P H0 H1 H2 H3 H4. fix IH 1. intros [|a [|b [|c [|d r]]]]; [apply H0|apply H1|apply H2|apply H3|apply H4, IH]. Qed.

Lemma nth_map_lt : forall (A B : Type) (f : A -> B) (l : list A) i d d',
  i < length l -> nth i (map f l) d = f (nth i l d').
Proof.
  intros A B f l. induction l as [|a l IH]; intros i d d' H; simpl in H; [lia|].
  destruct i; simpl; [reflexivity|]. apply IH. lia.
Qed.

Lemma Forall_filter : forall (A : Type) (P : A -> Prop) f (l : list A),
  Forall P l -> Forall P (filter f l).
Proof.
  intros A P f l H. rewrite Forall_forall in *. intros x Hx. apply filter_In in Hx. apply H, Hx.
Qed.

Lemma Forall_concat : forall (A : Type) (P : A -> Prop) (ll : list (list A)),
  Forall (Forall P) ll -> Forall P (concat ll).
Proof.
  intros A P ll H. induction H; simpl; [constructor|]. apply Forall_app. split; assumption.
Qed.

Lemma concat_length_const : forall (A : Type) k (ll : list (list A)),
  Forall (fun c => length c = k) ll -> length (concat ll) = length ll * k.
Proof.
  intros A k ll H. induction H; simpl; [reflexivity|]. rewrite app_length. lia.
Qed.

Lemma forallb_incl : forall (A : Type) (f : A -> bool) (l l' : list A),
  (forall x, In x l' -> In x l) -> forallb f l = true -> forallb f l' = true.
Proof.
  intros A f l l' H Hl. rewrite forallb_forall in *. intros x Hx. apply Hl, H, Hx.
Qed.

(* ================================================================ rank / count_true / compact *)
Definition count_true (u : list bool) : nat := length (filter (fun b => b) u).
(* number of kept entries strictly before position i *)
Definition rank (u : list bool) (i : nat) : nat := length (filter (fun b => b) (firstn i u)).

Lemma rank_0 : forall u, rank u 0 = 0.
Proof. reflexivity. Qed.

Lemma rank_nil : forall i, rank [] i = 0.
Proof. destruct i; reflexivity. Qed.

Lemma rank_cons : forall b u i, rank (b :: u) (S i) = (if b then 1 else 0) + rank u i.
Proof. intros b u i. unfold rank. cbn [firstn filter]. destruct b; reflexivity. Qed.

Lemma count_true_cons : forall b u, count_true (b :: u) = (if b then 1 else 0) + count_true u.
Proof. intros b u. unfold count_true. cbn [filter]. destruct b; reflexivity. Qed.

Lemma count_true_nil : count_true [] = 0.
Proof. reflexivity. Qed.

Lemma rank_S : forall u i, i < length u ->
  rank u (S i) = rank u i + (if nth i u false then 1 else 0).
Proof.
  induction u as [|a u IH]; intros i H; simpl in H; [lia|].
  destruct i.
  - rewrite rank_cons, !rank_0. cbn [nth]. destruct a; lia.
  - rewrite !rank_cons, IH by lia. cbn [nth]. lia.
Qed.

Lemma rank_le : forall u i j, i <= j -> rank u i <= rank u j.
Proof.
  induction u as [|a u IH]; intros i j H.
  - rewrite !rank_nil. lia.
  - destruct i; [rewrite rank_0; lia|]. destruct j; [lia|].
    rewrite !rank_cons. specialize (IH i j). lia.
Qed.

Lemma rank_le_count : forall u i, rank u i <= count_true u.
Proof.
  induction u as [|a u IH]; intros i.
  - rewrite rank_nil. lia.
  - destruct i; [rewrite rank_0; lia|]. rewrite rank_cons, count_true_cons. specialize (IH i). lia.
Qed.

Lemma rank_all : forall u i, length u <= i -> rank u i = count_true u.
Proof.
  intros u i H. unfold rank, count_true. rewrite firstn_all2 by assumption. reflexivity.
Qed.

Lemma rank_lt : forall u i, i < length u -> nth i u false = true -> rank u i < count_true u.
Proof.
  intros u i H Hn. pose proof (rank_S u i H) as R. rewrite Hn in R.
  pose proof (rank_le_count u (S i)). lia.
Qed.

Lemma rank_mono : forall u i j, i < j -> j < length u -> nth i u false = true ->
  rank u i < rank u j.
Proof.
  intros u i j Hij Hj Hn. assert (Hi : i < length u) by lia.
  pose proof (rank_S u i Hi) as R. rewrite Hn in R.
  pose proof (rank_le u (S i) j). lia.
Qed.

Lemma rank_inj : forall u i j, i < length u -> j < length u ->
  nth i u false = true -> nth j u false = true -> rank u i = rank u j -> i = j.
Proof.
  intros u i j Hi Hj Ni Nj E.
  destruct (Nat.lt_trichotomy i j) as [L|[L|L]]; [|assumption|].
  - pose proof (rank_mono u i j L Hj Ni). lia.
  - pose proof (rank_mono u j i L Hi Nj). lia.
Qed.

Lemma rank_surj : forall u r, r < count_true u ->
  exists i, i < length u /\ nth i u false = true /\ rank u i = r.
Proof.
  induction u as [|a u IH]; intros r H.
  - rewrite count_true_nil in H. lia.
  - rewrite count_true_cons in H. destruct a.
    + destruct r as [|r].
      * exists 0. simpl. repeat split; lia.
      * destruct (IH r) as [i [Hi [Hn Hr]]]; [lia|]. exists (S i).
        rewrite rank_cons. simpl. repeat split; [lia|assumption|lia].
    + destruct (IH r) as [i [Hi [Hn Hr]]]; [lia|]. exists (S i).
      rewrite rank_cons. simpl. repeat split; [lia|assumption|lia].
Qed.

Lemma filter_negb_length : forall l : list bool,
  length (filter negb l) + length (filter (fun b => b) l) = length l.
Proof. induction l as [|a l IH]; simpl; [reflexivity|]. destruct a; simpl; lia. Qed.

Lemma shift_rank : forall u i, i < length u -> nth i u false = true ->
  i - shift_by u i = rank u i.
Proof.
  intros u i H Hn. pose proof (rank_S u i H) as R. rewrite Hn in R.
  pose proof (filter_negb_length (firstn (S i) u)) as F. rewrite firstn_length in F.
  unfold shift_by, rank in *. lia.
Qed.

Lemma shift_by_le : forall u i, i < length u -> nth i u false = true -> shift_by u i <= i.
Proof.
  intros u i H Hn. pose proof (rank_S u i H) as R. rewrite Hn in R.
  pose proof (filter_negb_length (firstn (S i) u)) as F. rewrite firstn_length in F.
  unfold shift_by, rank in *. lia.
Qed.

Lemma compact_length : forall (A : Type) (u : list bool) (d : list A),
  length u = length d -> length (compact u d) = count_true u.
Proof.
  intros A. induction u as [|b u IH]; intros d H; destruct d as [|x d]; simpl in H; try lia.
  - reflexivity.
  - rewrite count_true_cons. cbn [compact]. destruct b; cbn [length]; rewrite IH by lia; lia.
Qed.

Lemma compact_nth : forall (A : Type) (u : list bool) (d : list A) dflt i,
  length u = length d -> i < length u -> nth i u false = true ->
  nth (rank u i) (compact u d) dflt = nth i d dflt.
Proof.
  intros A. induction u as [|b u IH]; intros d dflt i H Hi Hn; destruct d as [|x d]; simpl in H, Hi; try lia.
  destruct i.
  - cbn [nth] in Hn. subst b. rewrite rank_0. reflexivity.
  - cbn [nth] in Hn. rewrite rank_cons. cbn [compact nth]. destruct b.
    + cbn [Nat.add nth]. apply IH; [lia|lia|assumption].
    + cbn [Nat.add]. apply IH; [lia|lia|assumption].
Qed.

Lemma compact_In : forall (A : Type) (u : list bool) (d : list A) x,
  In x (compact u d) -> In x d.
Proof.
  intros A. induction u as [|b u IH]; intros d x H; destruct d as [|y d]; simpl in H; try contradiction.
  destruct b.
  - destruct H as [H|H]; [left; assumption|right; apply IH; assumption].
  - right. apply IH; assumption.
Qed.

Lemma compact_Forall : forall (A : Type) (P : A -> Prop) (u : list bool) (d : list A),
  Forall P d -> Forall P (compact u d).
Proof.
  intros A P u d H. rewrite Forall_forall in *. intros x Hx. apply H. eapply compact_In; eassumption.
Qed.

Lemma compact_all_true : forall (A : Type) (u : list bool) (d : list A),
  length u = length d -> Forall (fun b => b = true) u -> compact u d = d.
Proof.
  intros A. induction u as [|b u IH]; intros d H F; destruct d as [|x d]; simpl in H; try lia.
  - reflexivity.
  - inversion F; subst. cbn [compact]. f_equal. apply IH; [lia|assumption].
Qed.

(* ================================================================ used_mask *)
Lemma used_mask_length : forall n idx, length (used_mask n idx) = n.
Proof. intros n idx. unfold used_mask. rewrite map_length, seq_length. reflexivity. Qed.

Lemma used_mask_nth_eq : forall n idx v, v < n ->
  nth v (used_mask n idx) false = existsb (Nat.eqb v) idx.
Proof.
  intros n idx v H. unfold used_mask.
  rewrite (nth_map_lt _ _ _ _ _ _ 0) by (rewrite seq_length; assumption).
  rewrite seq_nth by assumption. reflexivity.
Qed.

Lemma existsb_eqb_In : forall v idx, existsb (Nat.eqb v) idx = true <-> In v idx.
Proof.
  intros v idx. rewrite existsb_exists. split.
  - intros [x [Hx E]]. apply Nat.eqb_eq in E. subst. assumption.
  - intros H. exists v. split; [assumption|apply Nat.eqb_refl].
Qed.

Lemma used_mask_nth : forall n idx v, v < n ->
  (nth v (used_mask n idx) false = true <-> In v idx).
Proof. intros n idx v H. rewrite used_mask_nth_eq by assumption. apply existsb_eqb_In. Qed.

Lemma used_mask_nth_iff : forall n idx v,
  nth v (used_mask n idx) false = true <-> v < n /\ In v idx.
Proof.
  intros n idx v. destruct (Nat.lt_ge_cases v n) as [H|H].
  - rewrite used_mask_nth by assumption. tauto.
  - rewrite nth_overflow by (rewrite used_mask_length; assumption). split; [discriminate|lia].
Qed.

Lemma used_mask_In : forall n idx i, In i idx -> i < n -> nth i (used_mask n idx) false = true.
Proof. intros n idx i Hi Hn. apply used_mask_nth; assumption. Qed.

Lemma used_mask_count_0 : forall n idx,
  count_true (used_mask n idx) = 0 -> Forall (fun i => i < n) idx -> idx = [].
Proof.
  intros n idx H F. destruct idx as [|i r]; [reflexivity|]. exfalso.
  inversion F; subst.
  pose proof (rank_lt (used_mask n (i :: r)) i) as R.
  rewrite used_mask_length in R. specialize (R H2).
  rewrite used_mask_nth in R by assumption. specialize (R (or_introl eq_refl)). lia.
Qed.

(* every index of a well-ranged index list moves to its rank, which is in range *)
Lemma shift_in_range : forall n idx i, In i idx -> i < n ->
  i - shift_by (used_mask n idx) i < count_true (used_mask n idx).
Proof.
  intros n idx i Hi Hn.
  rewrite shift_rank; [apply rank_lt| |]; try (rewrite used_mask_length; assumption);
    apply used_mask_In; assumption.
Qed.

(* ================================================================ chunk3 / chunk4 / units / flip3 *)
Lemma chunk3_lengths : forall (A : Type) (l : list A), Forall (fun c => length c = 3) (chunk3 l).
Proof.
  intros A. induction l using list_ind3; cbn [chunk3]; constructor; [reflexivity|assumption].
Qed.

Lemma chunk4_lengths : forall (A : Type) (l : list A), Forall (fun c => length c = 4) (chunk4 l).
Proof.
  intros A. induction l using list_ind4; cbn [chunk4]; constructor; [reflexivity|assumption].
Qed.

Lemma chunk3_In : forall (A : Type) (l : list A) c x, In c (chunk3 l) -> In x c -> In x l.
Proof.
  intros A. induction l using list_ind3; cbn [chunk3]; intros ch x Hc Hx; try contradiction.
  destruct Hc as [Hc|Hc].
  - subst ch. simpl in Hx. simpl. tauto.
  - right; right; right. eapply IHl; eassumption.
Qed.

Lemma chunk4_In : forall (A : Type) (l : list A) c x, In c (chunk4 l) -> In x c -> In x l.
Proof.
  intros A. induction l using list_ind4; cbn [chunk4]; intros ch x Hc Hx; try contradiction.
  destruct Hc as [Hc|Hc].
  - subst ch. simpl in Hx. simpl. tauto.
  - right; right; right; right. eapply IHl; eassumption.
Qed.

Lemma units_In : forall (A : Type) t (l : list A) c x, In c (units t l) -> In x c -> In x l.
Proof.
  intros A t l c x Hc Hx. destruct t; cbn [units] in Hc;
    try (eapply chunk3_In; eassumption); try (eapply chunk4_In; eassumption);
    apply in_map_iff in Hc; destruct Hc as [y [E Hy]]; subst c; simpl in Hx;
    destruct Hx as [Hx|[]]; subst; assumption.
Qed.

Lemma chunk3_filter_length : forall (A : Type) f (l : list A),
  length (concat (filter f (chunk3 l))) = length (filter f (chunk3 l)) * 3.
Proof. intros A f l. apply concat_length_const, Forall_filter, chunk3_lengths. Qed.

Lemma chunk4_filter_length : forall (A : Type) f (l : list A),
  length (concat (filter f (chunk4 l))) = length (filter f (chunk4 l)) * 4.
Proof. intros A f l. apply concat_length_const, Forall_filter, chunk4_lengths. Qed.

Lemma chunk3_filter_mod : forall (A : Type) f (l : list A),
  length (concat (filter f (chunk3 l))) mod 3 = 0.
Proof. intros A f l. rewrite chunk3_filter_length. apply Nat.mod_mul. lia. Qed.

Lemma chunk4_filter_mod : forall (A : Type) f (l : list A),
  length (concat (filter f (chunk4 l))) mod 4 = 0.
Proof. intros A f l. rewrite chunk4_filter_length. apply Nat.mod_mul. lia. Qed.

(* any sub-list of the chunk list concatenates to a multiple of three *)
Lemma chunk3_sub_mod : forall (A : Type) (l : list A) (ll : list (list A)),
  (forall c, In c ll -> In c (chunk3 l)) -> length (concat ll) mod 3 = 0.
Proof.
  intros A l ll H. rewrite (concat_length_const _ 3).
  - apply Nat.mod_mul. lia.
  - rewrite Forall_forall. intros c Hc. pose proof (chunk3_lengths A l) as F.
    rewrite Forall_forall in F. apply F, H, Hc.
Qed.

Lemma chunk3_sub_Forall : forall (A : Type) (P : A -> Prop) (l : list A) (ll : list (list A)),
  (forall c, In c ll -> In c (chunk3 l)) -> Forall P l -> Forall P (concat ll).
Proof.
  intros A P l ll H F. rewrite Forall_forall in *. intros x Hx.
  apply in_concat in Hx. destruct Hx as [c [Hc Hxc]]. apply F. eapply chunk3_In; [apply H|]; eassumption.
Qed.

Lemma chunk3_filter_Forall : forall (A : Type) (P : A -> Prop) f (l : list A),
  Forall P l -> Forall P (concat (filter f (chunk3 l))).
Proof.
  intros A P f l. apply chunk3_sub_Forall. intros c Hc. apply filter_In in Hc. apply Hc.
Qed.

Lemma chunk4_filter_Forall : forall (A : Type) (P : A -> Prop) f (l : list A),
  Forall P l -> Forall P (concat (filter f (chunk4 l))).
Proof.
  intros A P f l F. rewrite Forall_forall in *. intros x Hx.
  apply in_concat in Hx. destruct Hx as [c [Hc Hxc]]. apply filter_In in Hc.
  apply F. eapply chunk4_In; [apply Hc|assumption].
Qed.

Lemma units_filter_Forall : forall (A : Type) (P : A -> Prop) t f (l : list A),
  Forall P l -> Forall P (concat (filter f (units t l))).
Proof.
  intros A P t f l F. rewrite Forall_forall in *. intros x Hx.
  apply in_concat in Hx. destruct Hx as [c [Hc Hxc]]. apply filter_In in Hc.
  apply F. eapply units_In; [apply Hc|assumption].
Qed.

Lemma units_filter_count_ok : forall (A : Type) t f (l : list A),
  count_okb t (length (concat (filter f (units t l)))) = true.
Proof.
  intros A t f l. destruct t; cbn [count_okb units]; try reflexivity; apply Nat.eqb_eq.
  - apply chunk3_filter_mod.
  - apply chunk4_filter_mod.
Qed.

Lemma concat_chunk3 : forall (A : Type) (l : list A), length l mod 3 = 0 -> concat (chunk3 l) = l.
Proof.
  intros A. induction l using list_ind3; intros H; try reflexivity; try (simpl in H; discriminate).
  cbn [length] in H. rewrite mod3_step in H. cbn [chunk3 concat app]. rewrite IHl by assumption. reflexivity.
Qed.

Lemma concat_chunk4 : forall (A : Type) (l : list A), length l mod 4 = 0 -> concat (chunk4 l) = l.
Proof.
  intros A. induction l using list_ind4; intros H; try reflexivity; try (simpl in H; discriminate).
  cbn [length] in H. rewrite mod4_step in H. cbn [chunk4 concat app]. rewrite IHl by assumption. reflexivity.
Qed.

Lemma chunk3_length : forall (A : Type) (l : list A), length (chunk3 l) = length l / 3.
Proof.
  intros A. induction l using list_ind3; try reflexivity.
  cbn [chunk3 length]. rewrite IHl.
  replace (S (S (S (length l)))) with (1 * 3 + length l) by lia.
  rewrite Nat.div_add_l by lia. lia.
Qed.

Lemma flip3_length : forall (A : Type) (l : list A), length l mod 3 = 0 -> length (flip3 l) = length l.
Proof.
  intros A. induction l using list_ind3; intros H; try reflexivity; try (simpl in H; discriminate).
  cbn [length] in H. rewrite mod3_step in H. cbn [flip3 length]. rewrite IHl by assumption. reflexivity.
Qed.

Lemma flip3_In : forall (A : Type) (l : list A) x, In x (flip3 l) -> In x l.
Proof.
  intros A. induction l using list_ind3; intros x H; try (simpl in H; contradiction).
  cbn [flip3] in H. simpl in H. simpl. destruct H as [H|[H|[H|H]]]; auto.
Qed.

Lemma flip3_Forall : forall (A : Type) (P : A -> Prop) (l : list A), Forall P l -> Forall P (flip3 l).
Proof.
  intros A P l F. rewrite Forall_forall in *. intros x Hx. apply F, flip3_In, Hx.
Qed.

Lemma flip3_invol : forall (A : Type) (l : list A), length l mod 3 = 0 -> flip3 (flip3 l) = l.
Proof.
  intros A. induction l using list_ind3; intros H; try reflexivity; try (simpl in H; discriminate).
  cbn [length] in H. rewrite mod3_step in H. cbn [flip3]. rewrite IHl by assumption. reflexivity.
Qed.

Lemma flip3_chunk3 : forall (A : Type) (l : list A),
  chunk3 (flip3 l) = map (fun t => match t with [a; b; c] => [b; a; c] | _ => t end) (chunk3 l).
Proof.
  intros A. induction l using list_ind3; try reflexivity.
  cbn [flip3 chunk3 map]. rewrite IHl. reflexivity.
Qed.

(* ================================================================ keys *)
Lemma key_eqb_eq : forall a b : key, key_eqb a b = true <-> a = b.
Proof.
  intros [a1 a2] [b1 b2]. unfold key_eqb. cbn [fst snd].
  rewrite andb_true_iff, !N.eqb_eq. split.
  - intros [-> ->]. reflexivity.
  - intros E. inversion E. split; reflexivity.
Qed.

Lemma key_eqb_refl : forall a : key, key_eqb a a = true.
Proof. intros a. apply key_eqb_eq. reflexivity. Qed.

Lemma key_eqb_sym : forall a b : key, key_eqb a b = key_eqb b a.
Proof.
  intros a b. destruct (key_eqb a b) eqn:E.
  - apply key_eqb_eq in E. subst. symmetry. apply key_eqb_refl.
  - destruct (key_eqb b a) eqn:E'; [|reflexivity]. apply key_eqb_eq in E'. subst.
    rewrite key_eqb_refl in E. discriminate.
Qed.

Lemma key_eqb_neq : forall a b : key, key_eqb a b = false <-> a <> b.
Proof.
  intros a b. split.
  - intros E H. apply key_eqb_eq in H. congruence.
  - intros H. destruct (key_eqb a b) eqn:E; [|reflexivity]. apply key_eqb_eq in E. contradiction.
Qed.

Lemma key_ltb_spec : forall a b : key,
  key_ltb a b = true <-> (fst b < fst a \/ (fst a = fst b /\ snd a < snd b))%N.
Proof.
  intros a b. unfold key_ltb. rewrite orb_true_iff, andb_true_iff, !N.ltb_lt, N.eqb_eq. reflexivity.
Qed.

Lemma key_ltb_irrefl : forall a : key, key_ltb a a = false.
Proof.
  intros a. destruct (key_ltb a a) eqn:E; [|reflexivity]. apply key_ltb_spec in E. lia.
Qed.

Lemma key_ltb_trans : forall a b c : key,
  key_ltb a b = true -> key_ltb b c = true -> key_ltb a c = true.
Proof. intros a b c H1 H2. rewrite key_ltb_spec in *. lia. Qed.

Lemma key_ltb_asym : forall a b : key, key_ltb a b = true -> key_ltb b a = false.
Proof.
  intros a b H. destruct (key_ltb b a) eqn:E; [|reflexivity]. rewrite key_ltb_spec in *. lia.
Qed.

Lemma key_ltb_trich : forall a b : key,
  key_ltb a b = false -> key_eqb a b = false -> key_ltb b a = true.
Proof.
  intros [a1 a2] [b1 b2] H1 H2. apply key_ltb_spec. cbn [fst snd].
  assert (N1 : ~ (b1 < a1 \/ (a1 = b1 /\ a2 < b2))%N).
  { intros C. apply (key_ltb_spec (a1, a2) (b1, b2)) in C. congruence. }
  assert (N2 : (a1, a2) <> (b1, b2)) by (apply key_eqb_neq; assumption).
  destruct (N.eq_dec a1 b1) as [E1|E1]; [|lia].
  destruct (N.eq_dec a2 b2) as [E2|E2]; [subst; congruence|lia].
Qed.

Lemma key_ltb_neq : forall a b : key, key_ltb a b = true -> key_eqb a b = false.
Proof.
  intros a b H. apply key_eqb_neq. intros E. subst. rewrite key_ltb_irrefl in H. discriminate.
Qed.

(* ================================================================ lookup / insert / remove_key *)
Lemma lookup_insert_same : forall k d l, lookup k (insert k d l) = Some d.
Proof.
  intros k d. induction l as [|[k' d'] l IH]; cbn [insert lookup].
  - rewrite key_eqb_refl. reflexivity.
  - destruct (key_eqb k k') eqn:E.
    + cbn [lookup]. rewrite key_eqb_refl. reflexivity.
    + destruct (key_ltb k k'); cbn [lookup].
      * rewrite key_eqb_refl. reflexivity.
      * rewrite E. assumption.
Qed.

Lemma lookup_insert_other : forall k k' d l, key_eqb k' k = false ->
  lookup k' (insert k d l) = lookup k' l.
Proof.
  intros k k' d. induction l as [|[k2 d2] l IH]; intros H; cbn [insert lookup].
  - rewrite H. reflexivity.
  - destruct (key_eqb k k2) eqn:E.
    + apply key_eqb_eq in E. subst k2. cbn [lookup]. rewrite H. reflexivity.
    + destruct (key_ltb k k2); cbn [lookup].
      * rewrite H. reflexivity.
      * rewrite IH by assumption. reflexivity.
Qed.

Lemma lookup_remove_same : forall k l, lookup k (remove_key k l) = None.
Proof.
  intros k. induction l as [|[k' d'] l IH]; [reflexivity|].
  unfold remove_key in *. cbn [filter fst]. destruct (key_eqb k k') eqn:E; cbn [negb]; [assumption|].
  cbn [lookup]. rewrite E. assumption.
Qed.

Lemma lookup_remove_other : forall k k' l, key_eqb k' k = false ->
  lookup k' (remove_key k l) = lookup k' l.
Proof.
  intros k k'. induction l as [|[k2 d2] l IH]; intros H; [reflexivity|].
  unfold remove_key in *. cbn [filter fst]. destruct (key_eqb k k2) eqn:E; cbn [negb lookup].
  - apply key_eqb_eq in E. subst k2. rewrite H. apply IH; assumption.
  - rewrite IH by assumption. reflexivity.
Qed.

Lemma lookup_In : forall k d l, lookup k l = Some d -> In (k, d) l.
Proof.
  intros k d. induction l as [|[k' d'] l IH]; cbn [lookup]; intros H; [discriminate|].
  destruct (key_eqb k k') eqn:E.
  - apply key_eqb_eq in E. subst. inversion H; subst. left; reflexivity.
  - right. apply IH; assumption.
Qed.

Lemma lookup_None : forall k l, lookup k l = None <-> ~ In k (map fst l).
Proof.
  intros k. induction l as [|[k' d'] l IH]; cbn [lookup map fst].
  - split; [intros _ []|reflexivity].
  - destruct (key_eqb k k') eqn:E.
    + apply key_eqb_eq in E. subst. split; [discriminate|]. intros H. exfalso. apply H. left; reflexivity.
    + rewrite IH. apply key_eqb_neq in E. split.
      * intros H [C|C]; [congruence|contradiction].
      * intros H C. apply H. right; assumption.
Qed.

Lemma lookup_Some_key : forall k d l, lookup k l = Some d -> In k (map fst l).
Proof.
  intros k d l H. apply lookup_In in H. apply in_map_iff. exists (k, d). split; [reflexivity|assumption].
Qed.

Lemma ssortedb_cons : forall a r, ssortedb (a :: r) = true <->
  (forall x, In x r -> key_ltb a x = true) /\ ssortedb r = true.
Proof. intros a r. cbn [ssortedb]. rewrite andb_true_iff, forallb_forall. reflexivity. Qed.

Lemma In_lookup : forall k d l, In (k, d) l -> ssortedb (map fst l) = true -> lookup k l = Some d.
Proof.
  intros k d. induction l as [|[k' d'] l IH]; intros H S; [contradiction|].
  cbn [map fst] in S. apply ssortedb_cons in S. destruct S as [S1 S2]. cbn [lookup].
  destruct H as [H|H].
  - inversion H; subst. rewrite key_eqb_refl. reflexivity.
  - assert (L : key_ltb k' k = true).
    { apply S1. apply in_map_iff. exists (k, d). split; [reflexivity|assumption]. }
    apply key_ltb_neq in L. rewrite key_eqb_sym, L. apply IH; assumption.
Qed.

Lemma insert_keys_In : forall k d l x,
  In x (map fst (insert k d l)) -> x = k \/ In x (map fst l).
Proof.
  intros k d. induction l as [|[k' d'] l IH]; intros x H; cbn [insert] in H.
  - simpl in H. destruct H as [H|[]]. left; congruence.
  - destruct (key_eqb k k') eqn:E.
    + cbn [map fst In] in *. destruct H as [H|H]; [left; congruence|right; right; assumption].
    + destruct (key_ltb k k').
      * cbn [map fst In] in *. destruct H as [H|H]; [left; congruence|right; assumption].
      * cbn [map fst In] in *. destruct H as [H|H]; [right; left; assumption|].
        apply IH in H. destruct H; [left; assumption|right; right; assumption].
Qed.

Lemma insert_In : forall k d l a, In a (insert k d l) -> a = (k, d) \/ In a l.
Proof.
  intros k d. induction l as [|[k' d'] l IH]; intros a H; cbn [insert] in H.
  - simpl in H. destruct H as [H|[]]. left; congruence.
  - destruct (key_eqb k k').
    + destruct H as [H|H]; [left; congruence|right; right; assumption].
    + destruct (key_ltb k k').
      * destruct H as [H|H]; [left; congruence|right; assumption].
      * destruct H as [H|H]; [right; left; assumption|].
        apply IH in H. destruct H; [left; assumption|right; right; assumption].
Qed.

Lemma insert_sorted : forall k d l,
  ssortedb (map fst l) = true -> ssortedb (map fst (insert k d l)) = true.
Proof.
  intros k d. induction l as [|[k' d'] l IH]; intros S; cbn [insert].
  - reflexivity.
  - cbn [map fst] in S. pose proof S as S0. apply ssortedb_cons in S. destruct S as [S1 S2].
    destruct (key_eqb k k') eqn:E.
    + apply key_eqb_eq in E. subst k'. exact S0.
    + destruct (key_ltb k k') eqn:L.
      * cbn [map fst]. apply ssortedb_cons. split; [|exact S0].
        intros x [Hx|Hx]; [subst; assumption|]. eapply key_ltb_trans; [eassumption|]. apply S1, Hx.
      * cbn [map fst]. apply ssortedb_cons. split; [|apply IH, S2].
        intros x Hx. apply insert_keys_In in Hx. destruct Hx as [Hx|Hx].
        -- subst x. apply key_ltb_trich; assumption.
        -- apply S1, Hx.
Qed.

Lemma filter_sorted : forall (f : attr -> bool) l,
  ssortedb (map fst l) = true -> ssortedb (map fst (filter f l)) = true.
Proof.
  intros f. induction l as [|a l IH]; intros S; [reflexivity|].
  cbn [map] in S. apply ssortedb_cons in S. destruct S as [S1 S2]. cbn [filter].
  destruct (f a); [|apply IH, S2]. cbn [map]. apply ssortedb_cons. split; [|apply IH, S2].
  intros x Hx. apply S1. apply in_map_iff in Hx. destruct Hx as [y [E Hy]]. apply filter_In in Hy.
  apply in_map_iff. exists y. split; [assumption|apply Hy].
Qed.

Lemma remove_key_sorted : forall k l,
  ssortedb (map fst l) = true -> ssortedb (map fst (remove_key k l)) = true.
Proof. intros k l. apply filter_sorted. Qed.

Lemma map_snd_keys : forall (g : attr -> list vec) (l : list attr),
  map fst (map (fun a => (fst a, g a)) l) = map fst l.
Proof. intros g l. rewrite map_map. apply map_ext. reflexivity. Qed.

Lemma map_snd_sorted : forall (g : attr -> list vec) (l : list attr),
  ssortedb (map fst l) = true -> ssortedb (map fst (map (fun a => (fst a, g a)) l)) = true.
Proof. intros g l H. rewrite map_snd_keys. assumption. Qed.

Lemma lookup_map_snd : forall (g : list vec -> list vec) k l,
  lookup k (map (fun a => (fst a, g (snd a))) l) = option_map g (lookup k l).
Proof.
  intros g k. induction l as [|[k' d'] l IH]; [reflexivity|].
  cbn [map lookup fst snd]. destruct (key_eqb k k'); [reflexivity|assumption].
Qed.

Lemma insert_Forall : forall (P : attr -> Prop) k d l,
  P (k, d) -> Forall P l -> Forall P (insert k d l).
Proof.
  intros P k d l Hk F. rewrite Forall_forall in *. intros a Ha. apply insert_In in Ha.
  destruct Ha as [Ha|Ha]; [subst; assumption|apply F, Ha].
Qed.

Lemma insert_Forall_length : forall n k d l,
  Forall (fun a : attr => length (snd a) = n) l -> length d = n ->
  Forall (fun a : attr => length (snd a) = n) (insert k d l).
Proof. intros n k d l F H. apply insert_Forall; assumption. Qed.

Lemma remove_key_Forall : forall (P : attr -> Prop) k l, Forall P l -> Forall P (remove_key k l).
Proof. intros P k l. apply Forall_filter. Qed.

Lemma insert_not_nil : forall k d l, insert k d l <> [].
Proof.
  intros k d l. destruct l as [|[k' d'] l]; cbn [insert]; [discriminate|].
  destruct (key_eqb k k'); [discriminate|]. destruct (key_ltb k k'); discriminate.
Qed.

(* the head of a sorted map after an insertion holds either the new data or the old head's *)
Lemma insert_head : forall k d l,
  exists k0 d0 r, insert k d l = (k0, d0) :: r /\
    (d0 = d \/ exists k1 r1, l = (k1, d0) :: r1).
Proof.
  intros k d l. destruct l as [|[k' d'] l]; cbn [insert].
  - exists k, d, []. split; [reflexivity|left; reflexivity].
  - destruct (key_eqb k k').
    + exists k, d, l. split; [reflexivity|left; reflexivity].
    + destruct (key_ltb k k').
      * exists k, d, ((k', d') :: l). split; [reflexivity|left; reflexivity].
      * exists k', d', (insert k d l). split; [reflexivity|right]. exists k', l. reflexivity.
Qed.

(* ================================================================ vec_eqb *)
Lemma list_eqb_refl : forall (A : Type) (eqb : A -> A -> bool),
  (forall x, eqb x x = true) -> forall l, list_eqb eqb l l = true.
Proof.
  intros A eqb H. induction l as [|a l IH]; [reflexivity|]. cbn [list_eqb]. rewrite H, IH. reflexivity.
Qed.

Lemma list_eqb_eq : forall (A : Type) (eqb : A -> A -> bool),
  (forall x y, eqb x y = true <-> x = y) -> forall a b, list_eqb eqb a b = true <-> a = b.
Proof.
  intros A eqb H. induction a as [|x a IH]; intros [|y b]; cbn [list_eqb];
    try (split; [reflexivity|reflexivity]); try (split; discriminate).
  rewrite andb_true_iff, H, IH. split; [intros [-> ->]; reflexivity|intros E; inversion E; split; reflexivity].
Qed.

Lemma vec_eqb_refl : forall v, vec_eqb v v = true.
Proof. intros v. apply list_eqb_refl. apply Z.eqb_refl. Qed.

Lemma vec_eqb_eq : forall a b, vec_eqb a b = true <-> a = b.
Proof. apply list_eqb_eq. apply Z.eqb_eq. Qed.
