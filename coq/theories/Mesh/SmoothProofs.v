(* Laws of the Laplacian-smoothing / neighbour-table / centring model of Mesh/Smooth.v (property C03).
   Everything is proved for an ARBITRARY neighbour function nb, factor f, data d and iteration
   count k (unbounded inductions); the `neighbours` section then discharges the side conditions
   for the neighbour table of a well-formed mesh. *)
From Coq Require Import List Arith Bool Lia QArith Qcanon.
From PF Require Import Mesh.Pure Mesh.Smooth.
Import ListNotations.
Open Scope Qc_scope.

(* ---------------------------------------------------------------- examples (executable model) *)
Definition qv (l : list Qc) : list Q := map (fun x => Qred (this x)) l.

(* open fan 0-1-2, 0-2-3: the neighbour SET of the hub and of a rim vertex *)
Example neighbours_fan_hub : neighbours Triangle [0;1;2;0;2;3]%nat 0 = [1;2;3]%nat.
Proof. vm_compute. reflexivity. Qed.
Example neighbours_fan_rim : neighbours Triangle [0;1;2;0;2;3]%nat 3 = [2;0]%nat.
Proof. vm_compute. reflexivity. Qed.
(* a degenerate triangle links a vertex to itself *)
Example neighbours_self : neighbours Triangle [5;5;7]%nat 5 = [5;7]%nat.
Proof. vm_compute. reflexivity. Qed.
Example neighbours_line : neighbours Line [0;1;2;3;4]%nat 2 = [3]%nat.
Proof. vm_compute. reflexivity. Qed.
Example neighbours_loop : neighbours LineLoop [0;1;2;3]%nat 0 = [1;3]%nat.
Proof. vm_compute. reflexivity. Qed.

(* one sweep on the strip 0-1-2 with data [0;0;4], factor 1/2: vertex 2 sees the UPDATED vertex 1
   (Gauss-Seidel: 4 + (1 - 4)/2 = 5/2; a Jacobi sweep would give 2) *)
Example sweep_strip :
  qv (laplacian (neighbours LineStrip [0;1;2]%nat) (Q2Qc (1#2)) 1
        [Q2Qc 0; Q2Qc 0; Q2Qc (4#1)]) = [0; 1; 5#2]%Q.
Proof. vm_compute. reflexivity. Qed.

Example centre_ex : qv (centre [Q2Qc (1#1); Q2Qc (4#1); Q2Qc (2#1)]) = [-3#2; 3#2; -1#2]%Q.
Proof. vm_compute. reflexivity. Qed.

(* ---------------------------------------------------------------- set_nth *)
Lemma set_nth_length {A} (l : list A) : forall n x, length (set_nth n x l) = length l.
Proof. induction l as [|a r IH]; intros [|n] x; simpl; auto. Qed.

Lemma nth_set_nth_eq {A} (l : list A) : forall n x def, (n < length l)%nat -> nth n (set_nth n x l) def = x.
Proof. induction l as [|a r IH]; intros [|n] x def H; simpl in *; try lia; auto. apply IH; lia. Qed.

Lemma nth_set_nth_neq {A} (l : list A) : forall n w x def, w <> n -> nth w (set_nth n x l) def = nth w l def.
Proof.
  induction l as [|a r IH]; intros [|n] [|w] x def H; simpl in *; auto; try lia.
Qed.

Lemma set_nth_same {A} (l : list A) : forall n def, set_nth n (nth n l def) l = l.
Proof. induction l as [|a r IH]; intros [|n] def; simpl; auto. f_equal; apply IH. Qed.

Lemma set_nth_ge {A} (l : list A) : forall n x, (length l <= n)%nat -> set_nth n x l = l.
Proof. induction l as [|a r IH]; intros [|n] x H; simpl in *; auto; try lia. f_equal; apply IH; lia. Qed.

Lemma map_set_nth {A B} (g : A -> B) (l : list A) : forall n x, map g (set_nth n x l) = set_nth n (g x) (map g l).
Proof. induction l as [|a r IH]; intros [|n] x; simpl; auto. f_equal; apply IH. Qed.

(* ---------------------------------------------------------------- 1. lengths *)
Lemma lap_vertex_length nb f d v : length (lap_vertex nb f d v) = length d.
Proof. unfold lap_vertex. destruct (nb v); auto. apply set_nth_length. Qed.

Lemma fold_lap_vertex_length nb f l : forall d, length (fold_left (lap_vertex nb f) l d) = length d.
Proof. induction l as [|v l IH]; intros d; simpl; auto. rewrite IH. apply lap_vertex_length. Qed.

Lemma lap_sweep_length nb f d : length (lap_sweep nb f d) = length d.
Proof. apply fold_lap_vertex_length. Qed.

Theorem lap_length nb f k d : length (laplacian nb f k d) = length d.
Proof. induction k; simpl; auto. rewrite lap_sweep_length; auto. Qed.

(* ---------------------------------------------------------------- 2. specification of the update *)
Theorem lap_vertex_spec_self nb f d v :
  (v < length d)%nat -> nb v <> [] ->
  nth v (lap_vertex nb f d v) 0 =
  nth v d 0 + (mean (map (fun j => nth j d 0) (nb v)) - nth v d 0) * f.
Proof.
  intros Hv Hn. unfold lap_vertex. destruct (nb v) as [|a ns] eqn:E; [congruence|].
  cbv zeta. apply nth_set_nth_eq; auto.
Qed.

Theorem lap_vertex_spec_other nb f d v w :
  w <> v -> nth w (lap_vertex nb f d v) 0 = nth w d 0.
Proof.
  intros H. unfold lap_vertex. destruct (nb v); auto. cbv zeta. apply nth_set_nth_neq; auto.
Qed.

Theorem lap_vertex_spec_isolated nb f d v : nb v = [] -> lap_vertex nb f d v = d.
Proof. intros H. unfold lap_vertex. rewrite H. reflexivity. Qed.

(* out-of-range vertices are not touched (the Go loop never visits them) *)
Lemma lap_vertex_ge nb f d v : (length d <= v)%nat -> lap_vertex nb f d v = d.
Proof. intros H. unfold lap_vertex. destruct (nb v); auto. cbv zeta. apply set_nth_ge; auto. Qed.

Theorem lap_sweep_unfold nb f d :
  lap_sweep nb f d = fold_left (lap_vertex nb f) (seq 0 (length d)) d.
Proof. reflexivity. Qed.

Theorem laplacian_0 nb f d : laplacian nb f 0 d = d.
Proof. reflexivity. Qed.

Theorem laplacian_S nb f k d : laplacian nb f (S k) d = lap_sweep nb f (laplacian nb f k d).
Proof. reflexivity. Qed.

(* the other association: the sweeps compose *)
Theorem laplacian_S' nb f k d : laplacian nb f (S k) d = laplacian nb f k (lap_sweep nb f d).
Proof. induction k; auto. rewrite laplacian_S, IHk. reflexivity. Qed.

Theorem laplacian_add nb f j k d : laplacian nb f (j + k) d = laplacian nb f j (laplacian nb f k d).
Proof. induction j; simpl; auto. rewrite IHj; auto. Qed.

(* the combined statement asked for by the C03 blueprint *)
Theorem laplacian_spec nb f d v :
  ((v < length d)%nat -> nb v <> [] ->
     nth v (lap_vertex nb f d v) 0 =
     nth v d 0 + (mean (map (fun j => nth j d 0) (nb v)) - nth v d 0) * f) /\
  (forall w, w <> v -> nth w (lap_vertex nb f d v) 0 = nth w d 0) /\
  (nb v = [] -> lap_vertex nb f d v = d) /\
  length (lap_vertex nb f d v) = length d.
Proof.
  repeat split.
  - apply lap_vertex_spec_self.
  - intros; apply lap_vertex_spec_other; auto.
  - apply lap_vertex_spec_isolated.
  - apply lap_vertex_length.
Qed.

(* ---------------------------------------------------------------- 3. isolated vertices never move *)
Lemma lap_vertex_isolated_nth nb f d v w : nb v = [] -> nth v (lap_vertex nb f d w) 0 = nth v d 0.
Proof.
  intros H. destruct (Nat.eq_dec v w) as [->|N].
  - rewrite lap_vertex_spec_isolated; auto.
  - apply lap_vertex_spec_other; auto.
Qed.

Lemma fold_lap_vertex_isolated nb f v l :
  nb v = [] -> forall d, nth v (fold_left (lap_vertex nb f) l d) 0 = nth v d 0.
Proof.
  intros H. induction l as [|w l IH]; intros d; simpl; auto.
  rewrite IH. apply lap_vertex_isolated_nth; auto.
Qed.

Theorem laplacian_isolated nb f k d v : nb v = [] -> nth v (laplacian nb f k d) 0 = nth v d 0.
Proof.
  intros H. induction k; simpl; auto.
  unfold lap_sweep. rewrite fold_lap_vertex_isolated; auto.
Qed.

(* no neighbours at all: nothing moves *)
Theorem laplacian_no_links nb f k d : (forall v, nb v = []) -> laplacian nb f k d = d.
Proof.
  intros H. apply nth_ext with (d := 0) (d' := 0).
  - apply lap_length.
  - intros n _. apply laplacian_isolated; auto.
Qed.

(* ---------------------------------------------------------------- 4. factor 0 *)
Lemma lap_vertex_factor_0 nb d v : lap_vertex nb 0 d v = d.
Proof.
  unfold lap_vertex. destruct (nb v) as [|a ns]; auto. cbv zeta.
  replace (nth v d 0 + (mean (map (fun j => nth j d 0) (a :: ns)) - nth v d 0) * 0) with (nth v d 0) by ring.
  apply set_nth_same.
Qed.

Lemma fold_lap_vertex_factor_0 nb l : forall d, fold_left (lap_vertex nb 0) l d = d.
Proof. induction l as [|v l IH]; intros d; simpl; auto. rewrite lap_vertex_factor_0; auto. Qed.

Theorem laplacian_factor_0 nb k d : laplacian nb 0 k d = d.
Proof.
  induction k; simpl; auto. rewrite IHk. apply fold_lap_vertex_factor_0.
Qed.

(* ---------------------------------------------------------------- arithmetic of mean *)
Lemma Q2Qc_plus a b : Q2Qc a + Q2Qc b = Q2Qc (a + b).
Proof.
  unfold Qcplus. apply Q2Qc_eq_iff. unfold Q2Qc. cbn [this]. rewrite !Qred_correct. reflexivity.
Qed.

Lemma nat2Qc_S n : nat2Qc (S n) = nat2Qc n + 1.
Proof.
  unfold nat2Qc. change 1 with (Q2Qc 1). rewrite Q2Qc_plus. apply Q2Qc_eq_iff.
  rewrite Nat2Z.inj_succ, <- Z.add_1_r, inject_Z_plus. reflexivity.
Qed.

Lemma nat2Qc_0 : nat2Qc 0 = 0.
Proof. reflexivity. Qed.

Lemma nat2Qc_S_neq_0 n : nat2Qc (S n) <> 0.
Proof.
  unfold nat2Qc. intros H. apply Q2Qc_eq_iff in H.
  unfold Qeq in H. simpl in H. lia.
Qed.

Lemma qsum_scale c l : qsum (map (Qcmult c) l) = c * qsum l.
Proof. induction l as [|a l IH]; simpl; [ring|]. rewrite IH. ring. Qed.

Lemma qsum_shift t l : qsum (map (fun x => x + t) l) = qsum l + nat2Qc (length l) * t.
Proof.
  induction l as [|a l IH].
  - cbn [map qsum fold_right length]. rewrite nat2Qc_0. ring.
  - cbn [map qsum fold_right length]. fold (qsum (map (fun x => x + t) l)). fold (qsum l).
    rewrite IH, nat2Qc_S. ring.
Qed.

Lemma mean_scale c l : mean (map (Qcmult c) l) = c * mean l.
Proof.
  unfold mean. rewrite qsum_scale, map_length. unfold Qcdiv. ring.
Qed.

Lemma mean_shift t l : l <> [] -> mean (map (fun x => x + t) l) = mean l + t.
Proof.
  intros H. unfold mean. rewrite qsum_shift, map_length.
  destruct l as [|a l]; [congruence|]. cbn [length].
  field. apply nat2Qc_S_neq_0.
Qed.

Lemma mean_const c n : mean (repeat c (S n)) = c.
Proof.
  assert (E : forall m, qsum (repeat c m) = nat2Qc m * c).
  { induction m.
    - cbn [repeat qsum fold_right]. rewrite nat2Qc_0. ring.
    - cbn [repeat qsum fold_right]. fold (qsum (repeat c m)). rewrite IHm, nat2Qc_S. ring. }
  unfold mean. rewrite E, repeat_length. field. apply nat2Qc_S_neq_0.
Qed.

(* ---------------------------------------------------------------- lifting a commutation through fold / iteration *)
Lemma fold_commute {A B} (F : A -> B -> A) (g : A -> A) (P : A -> Prop) :
  (forall d v, P d -> P (F d v)) ->
  (forall d v, P d -> F (g d) v = g (F d v)) ->
  forall l d, P d -> fold_left F l (g d) = g (fold_left F l d).
Proof.
  intros HP HF. induction l as [|v l IH]; intros d Hd; simpl; auto.
  rewrite HF; auto.
Qed.

(* ---------------------------------------------------------------- 5. scale linearity *)
Lemma nth_map_scale c d j : nth j (map (Qcmult c) d) 0 = c * nth j d 0.
Proof.
  replace 0 with (c * 0) at 1 by ring. apply map_nth.
Qed.

Lemma lap_vertex_scale nb f c d v :
  lap_vertex nb f (map (Qcmult c) d) v = map (Qcmult c) (lap_vertex nb f d v).
Proof.
  unfold lap_vertex. destruct (nb v) as [|a ns]; auto. cbv zeta.
  rewrite map_set_nth. f_equal.
  rewrite (map_ext (fun j => nth j (map (Qcmult c) d) 0) (fun j => c * nth j d 0))
    by (intros; apply nth_map_scale).
  rewrite <- (map_map (fun j => nth j d 0) (Qcmult c)), mean_scale, nth_map_scale. ring.
Qed.

Lemma lap_sweep_scale nb f c d :
  lap_sweep nb f (map (Qcmult c) d) = map (Qcmult c) (lap_sweep nb f d).
Proof.
  unfold lap_sweep. rewrite map_length.
  apply (fold_commute (lap_vertex nb f) (map (Qcmult c)) (fun _ => True)); auto.
  intros; apply lap_vertex_scale.
Qed.

Theorem laplacian_scale nb f k c d :
  laplacian nb f k (map (Qcmult c) d) = map (Qcmult c) (laplacian nb f k d).
Proof.
  induction k; simpl; auto. rewrite IHk. apply lap_sweep_scale.
Qed.

(* ---------------------------------------------------------------- 6. translation equivariance *)
Definition nb_in_range (nb : nat -> list nat) (n : nat) : Prop :=
  forall v, Forall (fun j => (j < n)%nat) (nb v).

Lemma nth_map_shift t d j : (j < length d)%nat -> nth j (map (fun x => x + t) d) 0 = nth j d 0 + t.
Proof.
  intros H. rewrite (nth_indep _ 0 (0 + t)) by (rewrite map_length; auto).
  apply (map_nth (fun x => x + t)).
Qed.

Lemma lap_vertex_shift nb f t d v :
  nb_in_range nb (length d) ->
  lap_vertex nb f (map (fun x => x + t) d) v = map (fun x => x + t) (lap_vertex nb f d v).
Proof.
  intros R. destruct (le_lt_dec (length d) v) as [Hge|Hlt].
  { rewrite !lap_vertex_ge; auto. rewrite map_length; auto. }
  unfold lap_vertex. specialize (R v). destruct (nb v) as [|a ns] eqn:E; auto. cbv zeta.
  rewrite map_set_nth. f_equal.
  rewrite (map_ext_in (fun j => nth j (map (fun x => x + t) d) 0) (fun j => nth j d 0 + t)).
  2:{ intros j Hj. apply nth_map_shift. rewrite Forall_forall in R. apply R; auto. }
  rewrite <- (map_map (fun j => nth j d 0) (fun x => x + t)), mean_shift by discriminate.
  rewrite nth_map_shift by auto. ring.
Qed.

Lemma lap_sweep_shift nb f t d :
  nb_in_range nb (length d) ->
  lap_sweep nb f (map (fun x => x + t) d) = map (fun x => x + t) (lap_sweep nb f d).
Proof.
  intros R. unfold lap_sweep. rewrite map_length.
  apply (fold_commute (lap_vertex nb f) (map (fun x => x + t)) (fun e => length e = length d)); auto.
  - intros e v He. rewrite lap_vertex_length; auto.
  - intros e v He. apply lap_vertex_shift. rewrite He; auto.
Qed.

Theorem laplacian_shift nb f k t d :
  nb_in_range nb (length d) ->
  laplacian nb f k (map (fun x => x + t) d) = map (fun x => x + t) (laplacian nb f k d).
Proof.
  intros R. induction k; simpl; auto. rewrite IHk. apply lap_sweep_shift.
  rewrite lap_length; auto.
Qed.

(* affine maps x |-> c*x + t commute with smoothing *)
Corollary laplacian_affine nb f k c t d :
  nb_in_range nb (length d) ->
  laplacian nb f k (map (fun x => c * x + t) d) = map (fun x => c * x + t) (laplacian nb f k d).
Proof.
  intros R.
  rewrite <- (map_map (Qcmult c) (fun x => x + t)), laplacian_shift by (rewrite map_length; auto).
  rewrite laplacian_scale, map_map. reflexivity.
Qed.

(* ---------------------------------------------------------------- 7. constant fields are fixed points *)
Lemma const_list_repeat (c : Qc) d : (forall x, In x d -> x = c) -> d = repeat c (length d).
Proof.
  induction d as [|a d IH]; intros H; simpl; auto.
  rewrite (H a) by (left; auto). f_equal. apply IH. intros; apply H; right; auto.
Qed.

Lemma affine_0_repeat (c : Qc) l : map (fun x => 0 * x + c) l = repeat c (length l).
Proof. induction l as [|a l IH]; simpl; auto. rewrite IH. f_equal. ring. Qed.

Theorem laplacian_const nb f k c d :
  (forall x, In x d -> x = c) -> nb_in_range nb (length d) -> laplacian nb f k d = d.
Proof.
  intros H R.
  assert (E : d = map (fun x => 0 * x + c) d).
  { rewrite affine_0_repeat. apply const_list_repeat; auto. }
  rewrite E at 1. rewrite laplacian_affine by auto.
  rewrite affine_0_repeat, lap_length. symmetry. apply const_list_repeat; auto.
Qed.

(* ---------------------------------------------------------------- 8. the neighbour table *)
Theorem neighbours_NoDup t idx v : NoDup (neighbours t idx v).
Proof. apply NoDup_nodup. Qed.

(* membership: w is a neighbour of v iff some Link call joined them (in either order) *)
Lemma in_link_of v w p : In w (link_of v p) <-> (fst p = v /\ snd p = w) \/ (snd p = v /\ fst p = w).
Proof.
  unfold link_of. rewrite in_app_iff.
  destruct (Nat.eqb_spec (fst p) v), (Nat.eqb_spec (snd p) v); simpl; intuition congruence.
Qed.

Theorem neighbours_iff t idx v w :
  In w (neighbours t idx v) <->
  exists a b, In (a, b) (links t idx) /\ ((a = v /\ b = w) \/ (b = v /\ a = w)).
Proof.
  unfold neighbours. rewrite nodup_In, in_flat_map. split.
  - intros [[a b] [Hin H]]. apply in_link_of in H. exists a, b. auto.
  - intros (a & b & Hin & H). exists (a, b). split; auto. apply in_link_of. auto.
Qed.

Theorem neighbours_sym t idx v w : In w (neighbours t idx v) <-> In v (neighbours t idx w).
Proof.
  rewrite !neighbours_iff. split; intros (a & b & Hin & H); exists a, b; intuition.
Qed.

(* lut.Count(v) = 0 iff no link mentions v *)
Theorem neighbours_nil_iff t idx v :
  neighbours t idx v = [] <-> forall a b, In (a, b) (links t idx) -> a <> v /\ b <> v.
Proof.
  split.
  - intros E a b Hin. split; intros ->.
    + assert (H : In b (neighbours t idx v)) by (apply neighbours_iff; exists v, b; auto).
      rewrite E in H. destruct H.
    + assert (H : In a (neighbours t idx v)) by (apply neighbours_iff; exists a, v; auto).
      rewrite E in H. destruct H.
  - intros H. destruct (neighbours t idx v) as [|w r] eqn:E; auto.
    assert (Hw : In w (neighbours t idx v)) by (rewrite E; left; auto).
    apply neighbours_iff in Hw. destruct Hw as (a & b & Hin & [[-> _]|[-> _]]);
      destruct (H _ _ Hin); congruence.
Qed.

(* every link joins two entries of the index list *)
Lemma tri_links_in : forall n l a b, (length l <= n)%nat -> In (a, b) (tri_links l) -> In a l /\ In b l.
Proof.
  induction n; intros l a b Hn H.
  - destruct l; simpl in *; [tauto|lia].
  - destruct l as [|x [|y [|z r]]]; simpl in H; try tauto.
    destruct H as [H|[H|[H|H]]]; try (inversion H; subst; simpl; tauto).
    apply IHn in H; [|simpl in Hn; lia]. simpl; tauto.
Qed.

Lemma line_links_in : forall n l a b, (length l <= n)%nat -> In (a, b) (line_links l) -> In a l /\ In b l.
Proof.
  induction n; intros l a b Hn H.
  - destruct l; simpl in *; [tauto|lia].
  - destruct l as [|x [|y r]]; simpl in H; try tauto.
    destruct H as [H|H]; try (inversion H; subst; simpl; tauto).
    apply IHn in H; [|simpl in Hn; lia]. simpl; tauto.
Qed.

Lemma strip_links_in l : forall a b, In (a, b) (strip_links l) -> In a l /\ In b l.
Proof.
  induction l as [|x r IH]; intros a b H; [simpl in H; tauto|].
  destruct r as [|y r']; [simpl in H; tauto|].
  change (strip_links (x :: y :: r')) with ((x, y) :: strip_links (y :: r')) in H.
  destruct H as [H|H].
  - inversion H; subst. simpl; tauto.
  - apply IH in H. destruct H. split; right; auto.
Qed.

Lemma last_in (l : list nat) : forall d, l <> [] -> In (last l d) l.
Proof.
  induction l as [|x r IH]; intros d H; [congruence|].
  destruct r as [|y r']; [left; reflexivity|].
  right. change (last (x :: y :: r') d) with (last (y :: r') d). apply IH. discriminate.
Qed.

Lemma loop_links_in l a b : In (a, b) (loop_links l) -> In a l /\ In b l.
Proof.
  unfold loop_links. rewrite in_app_iff. intros [H|H].
  - apply strip_links_in; auto.
  - destruct l as [|x r]; [destruct H|]. destruct H as [H|[]]. injection H as <- <-. split.
    + left; auto.
    + apply (last_in (x :: r) x). discriminate.
Qed.

Theorem links_in t idx a b : In (a, b) (links t idx) -> In a idx /\ In b idx.
Proof.
  destruct t; simpl; try tauto.
  - apply (tri_links_in (length idx)); auto.
  - apply (line_links_in (length idx)); auto.
  - apply strip_links_in.
  - apply loop_links_in.
Qed.

(* neighbours are entries of the index list, hence in range for a well-formed mesh (all topologies) *)
Theorem neighbours_in_idx t idx v w : In w (neighbours t idx v) -> In w idx /\ In v idx.
Proof.
  rewrite neighbours_iff. intros (a & b & Hin & H). apply links_in in Hin.
  destruct H as [[-> ->]|[-> ->]]; tauto.
Qed.

Theorem neighbours_range t idx n v :
  Forall (fun i => (i < n)%nat) idx -> Forall (fun j => (j < n)%nat) (neighbours t idx v).
Proof.
  intros H. rewrite Forall_forall in *. intros w Hw. apply H.
  apply neighbours_in_idx in Hw. tauto.
Qed.

Corollary neighbours_nb_in_range t idx n :
  Forall (fun i => (i < n)%nat) idx -> nb_in_range (neighbours t idx) n.
Proof. intros H v. apply neighbours_range; auto. Qed.

(* a vertex that no primitive references has no neighbours *)
Theorem neighbours_unreferenced t idx v : ~ In v idx -> neighbours t idx v = [].
Proof.
  intros H. apply neighbours_nil_iff. intros a b Hin. apply links_in in Hin.
  split; intros ->; tauto.
Qed.

(* tri_links is the per-triangle reading of chunk3 *)
Lemma tri_links_chunk3 : forall n l, (length l <= n)%nat ->
  tri_links l = flat_map (fun c => match c with [a; b; c] => [(a, b); (b, c); (a, c)] | _ => [] end) (chunk3 l).
Proof.
  induction n; intros l Hn.
  - destruct l; simpl in *; [auto|lia].
  - destruct l as [|x [|y [|z r]]]; simpl; auto.
    rewrite (IHn r) by (simpl in Hn; lia). reflexivity.
Qed.

(* ---------------------------------------------------------------- the mesh-level corollaries *)
Section MeshLevel.
  Variables (t : topo) (idx : list nat) (f : Qc) (k : nat) (d : list Qc).
  Hypothesis WF : Forall (fun i => (i < length d)%nat) idx.

  Theorem laplacian_mesh_length : length (laplacian_mesh t idx f k d) = length d.
  Proof. apply lap_length. Qed.

  Theorem laplacian_mesh_unreferenced v :
    ~ In v idx -> nth v (laplacian_mesh t idx f k d) 0 = nth v d 0.
  Proof. intros H. apply laplacian_isolated. apply neighbours_unreferenced; auto. Qed.

  Theorem laplacian_mesh_scale c :
    laplacian_mesh t idx f k (map (Qcmult c) d) = map (Qcmult c) (laplacian_mesh t idx f k d).
  Proof. apply laplacian_scale. Qed.

  Theorem laplacian_mesh_shift s :
    laplacian_mesh t idx f k (map (fun x => x + s) d) = map (fun x => x + s) (laplacian_mesh t idx f k d).
  Proof. apply laplacian_shift. apply neighbours_nb_in_range; auto. Qed.

  Theorem laplacian_mesh_const c :
    (forall x, In x d -> x = c) -> laplacian_mesh t idx f k d = d.
  Proof. intros H. apply (laplacian_const _ _ _ c); auto. apply neighbours_nb_in_range; auto. Qed.
End MeshLevel.

(* ---------------------------------------------------------------- 9. centring *)
Theorem centre_length d : length (centre d) = length d.
Proof. destruct d; simpl; auto. rewrite map_length; auto. Qed.

Lemma Qcle_shift_r a b t : a <= b -> a + t <= b + t.
Proof. intros H. apply Qcplus_le_compat; auto. apply Qcle_refl. Qed.

Lemma Qcle_unshift_r a b t : a + t <= b + t -> a <= b.
Proof.
  intros H. apply (Qcle_shift_r _ _ (- t)) in H.
  replace (a + t + - t) with a in H by ring. replace (b + t + - t) with b in H by ring. auto.
Qed.

Lemma Qcmin_shift a b t : Qcmin (a + t) (b + t) = Qcmin a b + t.
Proof.
  unfold Qcmin. destruct (Qclt_le_dec (a + t) (b + t)) as [H|H], (Qclt_le_dec a b) as [H'|H']; auto.
  - apply Qcle_shift_r with (t := t) in H'. exfalso. apply (Qcle_not_lt _ _ H'); auto.
  - apply Qcle_unshift_r in H. exfalso. apply (Qcle_not_lt _ _ H); auto.
Qed.

Lemma Qcmax_shift a b t : Qcmax (a + t) (b + t) = Qcmax a b + t.
Proof.
  unfold Qcmax. destruct (Qclt_le_dec (a + t) (b + t)) as [H|H], (Qclt_le_dec a b) as [H'|H']; auto.
  - apply Qcle_shift_r with (t := t) in H'. exfalso. apply (Qcle_not_lt _ _ H'); auto.
  - apply Qcle_unshift_r in H. exfalso. apply (Qcle_not_lt _ _ H); auto.
Qed.

Lemma fold_shift (op : Qc -> Qc -> Qc) t :
  (forall a b, op (a + t) (b + t) = op a b + t) ->
  forall r x, fold_left op (map (fun y => y + t) r) (x + t) = fold_left op r x + t.
Proof.
  intros H. induction r as [|y r IH]; intros x; simpl; auto. rewrite H. apply IH.
Qed.

Theorem lmin_shift t d : d <> [] -> lmin (map (fun x => x + t) d) = lmin d + t.
Proof. destruct d as [|x r]; [congruence|intros _]. simpl. apply fold_shift. intros; apply Qcmin_shift. Qed.

Theorem lmax_shift t d : d <> [] -> lmax (map (fun x => x + t) d) = lmax d + t.
Proof. destruct d as [|x r]; [congruence|intros _]. simpl. apply fold_shift. intros; apply Qcmax_shift. Qed.

Lemma two_neq_0 : two <> 0.
Proof. unfold two. intros H. apply Q2Qc_eq_iff in H. discriminate H. Qed.

Lemma two_eq : two = 1 + 1.
Proof. apply Qc_is_canon. reflexivity. Qed.

Lemma one_one_neq_0 : 1 + 1 <> 0.
Proof. rewrite <- two_eq. apply two_neq_0. Qed.

(* centre is "subtract the midpoint" *)
Lemma centre_cons x r :
  centre (x :: r) = map (fun y => y + - ((lmin (x :: r) + lmax (x :: r)) / two)) (x :: r).
Proof. unfold centre. apply map_ext. intros; ring. Qed.

(* translation invariance: CenterFloat3Attribute forgets where the mesh was *)
Theorem centre_shift t d : centre (map (fun x => x + t) d) = centre d.
Proof.
  destruct d as [|x r]; auto.
  change (map (fun x0 => x0 + t) (x :: r)) with (x + t :: map (fun x0 => x0 + t) r).
  unfold centre.
  change (x + t :: map (fun x0 => x0 + t) r) with (map (fun x0 => x0 + t) (x :: r)).
  rewrite lmin_shift, lmax_shift by discriminate. rewrite map_map. apply map_ext.
  intros a. cbv beta. rewrite two_eq. field. try apply one_one_neq_0.
Qed.

(* the centred bounds are symmetric around 0 *)
Theorem centre_symmetric d : d <> [] -> lmin (centre d) + lmax (centre d) = 0.
Proof.
  destruct d as [|x r]; [congruence|intros _].
  rewrite centre_cons, lmin_shift, lmax_shift by discriminate.
  rewrite two_eq. field. try apply one_one_neq_0.
Qed.

Corollary centre_idempotent d : centre (centre d) = centre d.
Proof.
  destruct d as [|x r]; auto.
  assert (S := centre_symmetric (x :: r) ltac:(discriminate)).
  destruct (centre (x :: r)) as [|y s] eqn:E; auto.
  unfold centre at 1. rewrite S. rewrite <- (map_id (y :: s)) at 2. apply map_ext.
  intros a. unfold Qcdiv. ring.
Qed.

(* smoothing commutes with re-centring BY A GIVEN OFFSET; and smoothing then centring does not depend
   on a prior translation of the input *)
Corollary centre_laplacian_shift nb f k t d :
  nb_in_range nb (length d) ->
  centre (laplacian nb f k (map (fun x => x + t) d)) = centre (laplacian nb f k d).
Proof. intros R. rewrite laplacian_shift by auto. apply centre_shift. Qed.

(* non-negative scaling *)
Lemma Qcmin_scale c a b : 0 <= c -> Qcmin (c * a) (c * b) = c * Qcmin a b.
Proof.
  intros Hc. unfold Qcmin.
  destruct (Qclt_le_dec (c * a) (c * b)) as [H|H], (Qclt_le_dec a b) as [H'|H']; auto.
  - apply (Qcmult_le_compat_r _ _ c) in H'; auto. rewrite !(Qcmult_comm _ c) in H'.
    exfalso. apply (Qcle_not_lt _ _ H'); auto.
  - apply Qclt_le_weak in H'. apply (Qcmult_le_compat_r _ _ c) in H'; auto.
    rewrite !(Qcmult_comm _ c) in H'. apply Qcle_antisym; auto.
Qed.

Lemma Qcmax_scale c a b : 0 <= c -> Qcmax (c * a) (c * b) = c * Qcmax a b.
Proof.
  intros Hc. unfold Qcmax.
  destruct (Qclt_le_dec (c * a) (c * b)) as [H|H], (Qclt_le_dec a b) as [H'|H']; auto.
  - apply (Qcmult_le_compat_r _ _ c) in H'; auto. rewrite !(Qcmult_comm _ c) in H'.
    exfalso. apply (Qcle_not_lt _ _ H'); auto.
  - apply Qclt_le_weak in H'. apply (Qcmult_le_compat_r _ _ c) in H'; auto.
    rewrite !(Qcmult_comm _ c) in H'. apply Qcle_antisym; auto.
Qed.

Lemma fold_scale (op : Qc -> Qc -> Qc) c :
  (forall a b, op (c * a) (c * b) = c * op a b) ->
  forall r x, fold_left op (map (Qcmult c) r) (c * x) = c * fold_left op r x.
Proof.
  intros H. induction r as [|y r IH]; intros x; simpl; auto. rewrite H. apply IH.
Qed.

Theorem lmin_scale c d : 0 <= c -> lmin (map (Qcmult c) d) = c * lmin d.
Proof.
  intros Hc. destruct d as [|x r]; simpl; [ring|]. apply fold_scale. intros; apply Qcmin_scale; auto.
Qed.

Theorem lmax_scale c d : 0 <= c -> lmax (map (Qcmult c) d) = c * lmax d.
Proof.
  intros Hc. destruct d as [|x r]; simpl; [ring|]. apply fold_scale. intros; apply Qcmax_scale; auto.
Qed.

Theorem centre_scale c d : 0 <= c -> centre (map (Qcmult c) d) = map (Qcmult c) (centre d).
Proof.
  intros Hc. destruct d as [|x r]; auto.
  change (map (Qcmult c) (x :: r)) with (c * x :: map (Qcmult c) r).
  unfold centre.
  change (c * x :: map (Qcmult c) r) with (map (Qcmult c) (x :: r)).
  rewrite lmin_scale, lmax_scale by auto. rewrite !map_map. apply map_ext.
  intros a. cbv beta. rewrite two_eq. field. try apply one_one_neq_0.
Qed.

(* the bounds really bound *)
Lemma fold_min_le r : forall x, fold_left Qcmin r x <= x /\ forall y, In y r -> fold_left Qcmin r x <= y.
Proof.
  induction r as [|z r IH]; intros x; simpl.
  - split; [apply Qcle_refl|tauto].
  - destruct (IH (Qcmin x z)) as [H1 H2].
    assert (Hx : Qcmin x z <= x /\ Qcmin x z <= z).
    { unfold Qcmin. destruct (Qclt_le_dec x z) as [H|H]; split;
        auto using Qcle_refl, Qclt_le_weak. }
    destruct Hx as [Hx Hz]. split.
    + eapply Qcle_trans; eauto.
    + intros y [<-|Hy]; auto. eapply Qcle_trans; eauto.
Qed.

Lemma fold_max_ge r : forall x, x <= fold_left Qcmax r x /\ forall y, In y r -> y <= fold_left Qcmax r x.
Proof.
  induction r as [|z r IH]; intros x; simpl.
  - split; [apply Qcle_refl|tauto].
  - destruct (IH (Qcmax x z)) as [H1 H2].
    assert (Hx : x <= Qcmax x z /\ z <= Qcmax x z).
    { unfold Qcmax. destruct (Qclt_le_dec x z) as [H|H]; split;
        auto using Qcle_refl, Qclt_le_weak. }
    destruct Hx as [Hx Hz]. split.
    + eapply Qcle_trans; eauto.
    + intros y [<-|Hy]; auto. eapply Qcle_trans; eauto.
Qed.

Theorem lmin_le d x : In x d -> lmin d <= x.
Proof.
  destruct d as [|a r]; [intros []|]. simpl. destruct (fold_min_le r a) as [H1 H2]. intros [<-|H]; auto.
Qed.

Theorem lmax_ge d x : In x d -> x <= lmax d.
Proof.
  destruct d as [|a r]; [intros []|]. simpl. destruct (fold_max_ge r a) as [H1 H2]. intros [<-|H]; auto.
Qed.

(* ---------------------------------------------------------------- the sweep is Gauss-Seidel *)
Lemma fold_lap_vertex_untouched nb f v l :
  ~ In v l -> forall d, nth v (fold_left (lap_vertex nb f) l d) 0 = nth v d 0.
Proof.
  induction l as [|w l IH]; intros H d; simpl; auto.
  rewrite IH by (intros H'; apply H; right; auto).
  apply lap_vertex_spec_other. intros ->. apply H; left; auto.
Qed.

(* the state when the loop reaches vertex v *)
Definition sweep_prefix nb f (d : list Qc) (v : nat) : list Qc :=
  fold_left (lap_vertex nb f) (seq 0 v) d.

Lemma sweep_prefix_length nb f d v : length (sweep_prefix nb f d v) = length d.
Proof. apply fold_lap_vertex_length. Qed.

(* ... positions from v on are still the original ones *)
Lemma sweep_prefix_old nb f d v j : (v <= j)%nat -> nth j (sweep_prefix nb f d v) 0 = nth j d 0.
Proof.
  intros H. apply fold_lap_vertex_untouched. rewrite in_seq. lia.
Qed.

Lemma lap_sweep_split nb f d v : (v <= length d)%nat ->
  lap_sweep nb f d = fold_left (lap_vertex nb f) (seq v (length d - v)) (sweep_prefix nb f d v).
Proof.
  intros H. unfold lap_sweep, sweep_prefix. rewrite <- fold_left_app.
  replace (length d) with (v + (length d - v))%nat at 1 by lia.
  rewrite seq_app. reflexivity.
Qed.

(* ... positions before v are already the final ones *)
Lemma sweep_prefix_new nb f d v j : (j < v)%nat -> (v <= length d)%nat ->
  nth j (sweep_prefix nb f d v) 0 = nth j (lap_sweep nb f d) 0.
Proof.
  intros H Hv. rewrite (lap_sweep_split nb f d v) by auto. symmetry.
  apply fold_lap_vertex_untouched. rewrite in_seq. lia.
Qed.

Lemma lap_sweep_nth nb f d v : (v < length d)%nat ->
  nth v (lap_sweep nb f d) 0 = nth v (lap_vertex nb f (sweep_prefix nb f d v) v) 0.
Proof.
  intros H. rewrite (lap_sweep_split nb f d v) by lia.
  replace (length d - v)%nat with (S (length d - S v)) by lia. cbn [seq fold_left].
  apply fold_lap_vertex_untouched. rewrite in_seq. lia.
Qed.

(* Gauss-Seidel characterisation of one iteration: vertex v is averaged with the NEW values of the
   neighbours before it and the OLD values of the others (itself included, when self-linked) *)
Theorem lap_sweep_gauss_seidel nb f d v :
  (v < length d)%nat -> nb v <> [] ->
  nth v (lap_sweep nb f d) 0 =
  nth v d 0 +
  (mean (map (fun j => if j <? v then nth j (lap_sweep nb f d) 0 else nth j d 0) (nb v)) - nth v d 0) * f.
Proof.
  intros Hv Hn. rewrite lap_sweep_nth by auto.
  rewrite lap_vertex_spec_self by (rewrite ?sweep_prefix_length; auto).
  rewrite sweep_prefix_old by auto.
  rewrite (map_ext (fun j => nth j (sweep_prefix nb f d v) 0)
                   (fun j => if j <? v then nth j (lap_sweep nb f d) 0 else nth j d 0)); auto.
  intros j. destruct (Nat.ltb_spec j v).
  - apply sweep_prefix_new; lia.
  - apply sweep_prefix_old; auto.
Qed.

Theorem lap_sweep_isolated nb f d v : nb v = [] -> nth v (lap_sweep nb f d) 0 = nth v d 0.
Proof. intros H. apply (laplacian_isolated nb f 1 d v H). Qed.

(* ---------------------------------------------------------------- maximum principle (0 <= f <= 1) *)
Lemma nat2Qc_S_pos n : 0 < nat2Qc (S n).
Proof.
  unfold nat2Qc, Qclt, Q2Qc. cbn [this]. rewrite !Qred_correct.
  unfold Qlt. simpl. lia.
Qed.

Lemma qsum_ge lo l : (forall x, In x l -> lo <= x) -> nat2Qc (length l) * lo <= qsum l.
Proof.
  induction l as [|a l IH]; intros H.
  - cbn [length qsum fold_right]. rewrite nat2Qc_0. replace (0 * lo) with 0 by ring. apply Qcle_refl.
  - cbn [length qsum fold_right]. fold (qsum l). rewrite nat2Qc_S.
    replace ((nat2Qc (length l) + 1) * lo) with (lo + nat2Qc (length l) * lo) by ring.
    apply Qcplus_le_compat.
    + apply H; left; auto.
    + apply IH. intros; apply H; right; auto.
Qed.

Lemma qsum_le hi l : (forall x, In x l -> x <= hi) -> qsum l <= nat2Qc (length l) * hi.
Proof.
  induction l as [|a l IH]; intros H.
  - cbn [length qsum fold_right]. rewrite nat2Qc_0. replace (0 * hi) with 0 by ring. apply Qcle_refl.
  - cbn [length qsum fold_right]. fold (qsum l). rewrite nat2Qc_S.
    replace ((nat2Qc (length l) + 1) * hi) with (hi + nat2Qc (length l) * hi) by ring.
    apply Qcplus_le_compat.
    + apply H; left; auto.
    + apply IH. intros; apply H; right; auto.
Qed.

Lemma mean_times_length l : l <> [] -> mean l * nat2Qc (length l) = qsum l.
Proof.
  intros H. destruct l as [|a l]; [congruence|]. unfold mean. cbn [length].
  field. apply nat2Qc_S_neq_0.
Qed.

(* the mean of a non-empty list lies between any bounds of its elements *)
Lemma mean_ge lo l : l <> [] -> (forall x, In x l -> lo <= x) -> lo <= mean l.
Proof.
  intros Hn H. apply (Qcmult_lt_0_le_reg_r _ _ (nat2Qc (length l))).
  - destruct l; [congruence|apply nat2Qc_S_pos].
  - rewrite mean_times_length by auto. rewrite Qcmult_comm. apply qsum_ge; auto.
Qed.

Lemma mean_le hi l : l <> [] -> (forall x, In x l -> x <= hi) -> mean l <= hi.
Proof.
  intros Hn H. apply (Qcmult_lt_0_le_reg_r _ _ (nat2Qc (length l))).
  - destruct l; [congruence|apply nat2Qc_S_pos].
  - rewrite mean_times_length by auto. rewrite (Qcmult_comm hi). apply qsum_le; auto.
Qed.

Definition within (lo hi x : Qc) : Prop := lo <= x /\ x <= hi.

(* the update is a convex combination of the old value and the neighbour mean *)
Lemma convex_within lo hi f x m :
  0 <= f -> f <= 1 -> within lo hi x -> within lo hi m -> within lo hi (x + (m - x) * f).
Proof.
  intros H0 H1 [Hx1 Hx2] [Hm1 Hm2].
  assert (H1' : 0 <= 1 - f) by (apply Qcle_minus_iff in H1; exact H1).
  replace (x + (m - x) * f) with (x * (1 - f) + m * f) by ring. split.
  - replace lo with (lo * (1 - f) + lo * f) by ring.
    apply Qcplus_le_compat; apply Qcmult_le_compat_r; auto.
  - replace hi with (hi * (1 - f) + hi * f) by ring.
    apply Qcplus_le_compat; apply Qcmult_le_compat_r; auto.
Qed.

Lemma Forall_set_nth {A} (P : A -> Prop) (l : list A) :
  forall n x, Forall P l -> P x -> Forall P (set_nth n x l).
Proof.
  induction l as [|a r IH]; intros [|n] x H Hx; simpl; auto; inversion H; subst; constructor; auto.
Qed.

Lemma lap_vertex_within nb f lo hi d v :
  0 <= f -> f <= 1 -> nb_in_range nb (length d) ->
  Forall (within lo hi) d -> Forall (within lo hi) (lap_vertex nb f d v).
Proof.
  intros H0 H1 R H. destruct (le_lt_dec (length d) v) as [Hge|Hlt].
  { rewrite lap_vertex_ge; auto. }
  unfold lap_vertex. specialize (R v). destruct (nb v) as [|a ns] eqn:E; auto. cbv zeta.
  assert (N : forall j, (j < length d)%nat -> within lo hi (nth j d 0)).
  { intros j Hj. apply Forall_nth; auto. }
  assert (M : forall y, In y (map (fun j => nth j d 0) (a :: ns)) -> within lo hi y).
  { intros y Hy. apply in_map_iff in Hy. destruct Hy as (j & <- & Hj). apply N.
    rewrite Forall_forall in R. apply R; auto. }
  apply Forall_set_nth; auto. apply convex_within; auto. split.
  - apply mean_ge; [discriminate|]. intros y Hy. apply M; auto.
  - apply mean_le; [discriminate|]. intros y Hy. apply M; auto.
Qed.

Lemma fold_lap_vertex_within nb f lo hi n l :
  0 <= f -> f <= 1 -> nb_in_range nb n ->
  forall d, length d = n -> Forall (within lo hi) d ->
  Forall (within lo hi) (fold_left (lap_vertex nb f) l d).
Proof.
  intros H0 H1 R. induction l as [|v l IH]; intros d Hd H; simpl; auto.
  apply IH.
  - rewrite lap_vertex_length; auto.
  - apply lap_vertex_within; auto. rewrite Hd; auto.
Qed.

(* smoothing with a factor in [0,1] never leaves the interval spanned by the data: it cannot
   overshoot, for any number of iterations *)
Theorem laplacian_within nb f k lo hi d :
  0 <= f -> f <= 1 -> nb_in_range nb (length d) ->
  Forall (within lo hi) d -> Forall (within lo hi) (laplacian nb f k d).
Proof.
  intros H0 H1 R H. induction k; simpl; auto.
  apply (fold_lap_vertex_within nb f lo hi (length d)); auto. apply lap_length.
Qed.

Corollary laplacian_within_bounds nb f k d x :
  0 <= f -> f <= 1 -> nb_in_range nb (length d) ->
  In x (laplacian nb f k d) -> lmin d <= x /\ x <= lmax d.
Proof.
  intros H0 H1 R Hx.
  assert (H : Forall (within (lmin d) (lmax d)) d).
  { apply Forall_forall. intros y Hy. split; [apply lmin_le|apply lmax_ge]; auto. }
  apply (laplacian_within nb f k) in H; auto.
  rewrite Forall_forall in H. apply H; auto.
Qed.

Corollary laplacian_mesh_within_bounds t idx f k d x :
  0 <= f -> f <= 1 -> Forall (fun i => (i < length d)%nat) idx ->
  In x (laplacian_mesh t idx f k d) -> lmin d <= x /\ x <= lmax d.
Proof.
  intros H0 H1 WF. apply laplacian_within_bounds; auto. apply neighbours_nb_in_range; auto.
Qed.
