(* Proofs about the fan / tube generator index models of Mesh/GenIdx.v (property C02). *)
From Coq Require Import List Arith Bool Lia NArith.
From PF Require Import Mesh.Pure Mesh.PureLemmas Mesh.PureProofs Mesh.GenIdx.
Import ListNotations.

Lemma wf_idx_natb_iff : forall nv idx, wf_idx_natb nv idx = true <-> wf_idx_nat nv idx.
Proof.
  intros nv idx. unfold wf_idx_natb, wf_idx_nat.
  rewrite andb_true_iff, Nat.eqb_eq, forallb_forall, Forall_forall.
  split; intros [H1 H2]; split; try exact H1; intros x Hx.
  - apply Nat.ltb_lt, H2, Hx.
  - apply Nat.ltb_lt, H2, Hx.
Qed.

Lemma flat_map_length_const : forall (A B : Type) (f : A -> list B) k (l : list A),
  (forall x, In x l -> length (f x) = k) -> length (flat_map f l) = length l * k.
Proof.
  intros A B f k. induction l as [|x l IH]; intros H; [reflexivity|].
  cbn [flat_map length]. rewrite app_length, IH, (H x (or_introl eq_refl)); [lia|].
  intros y Hy. apply H. right. exact Hy.
Qed.

Lemma mod3_mul : forall n, (n * 3) mod 3 = 0.
Proof. intros n. apply Nat.mod_mul. discriminate. Qed.

(* ---------------------------------------------------------------- fan *)
Lemma fan_length : forall n, 1 <= n -> length (fan_idx n) = n * 3.
Proof.
  intros n Hn. unfold fan_idx. rewrite app_length.
  rewrite (flat_map_length_const _ _ _ 3); [|intros; reflexivity].
  rewrite seq_length. cbn [length]. lia.
Qed.

Theorem fan_wf : forall n, 1 <= n -> wf_idx_nat (fan_nverts n) (fan_idx n).
Proof.
  intros n Hn. split.
  - rewrite fan_length by exact Hn. apply mod3_mul.
  - unfold fan_idx, fan_nverts. apply Forall_app. split.
    + rewrite Forall_forall. intros x Hx. apply in_flat_map in Hx. destruct Hx as [i [Hi Hx]].
      apply in_seq in Hi. cbn [In] in Hx. destruct Hx as [<-|[<-|[<-|[]]]]; lia.
    + repeat constructor; lia.
Qed.

(* ---------------------------------------------------------------- tube *)
Lemma tube_quad_length : forall flip sides j i, length (tube_quad flip sides j i) = 6.
Proof. intros. unfold tube_quad. destruct (flip j i); reflexivity. Qed.

Lemma tube_length : forall flip sides points,
  length (tube_idx flip sides points) = ((points - 1) * (sides * 2)) * 3.
Proof.
  intros flip sides points. unfold tube_idx.
  rewrite (flat_map_length_const _ _ _ (sides * 6)).
  - rewrite seq_length. lia.
  - intros j _. rewrite (flat_map_length_const _ _ _ 6).
    + rewrite seq_length. reflexivity.
    + intros i _. apply tube_quad_length.
Qed.

Lemma tube_quad_bound : forall flip sides points j i, j < points - 1 -> i < sides ->
  Forall (fun x => x < tube_nverts sides points) (tube_quad flip sides j i).
Proof.
  intros flip sides points j i Hj Hi. unfold tube_nverts.
  set (a := S sides).
  assert (E1 : S j * a = j * a + a) by (rewrite Nat.mul_succ_l; reflexivity).
  assert (E2 : S (S j) * a = S j * a + a) by (rewrite Nat.mul_succ_l; reflexivity).
  assert (L : S (S j) * a <= points * a) by (apply Nat.mul_le_mono_r; lia).
  assert (A : a = S sides) by reflexivity.
  unfold tube_quad. fold a. destruct (flip j i); repeat constructor; lia.
Qed.

Theorem tube_wf : forall flip sides points,
  wf_idx_nat (tube_nverts sides points) (tube_idx flip sides points).
Proof.
  intros flip sides points. split.
  - rewrite tube_length. apply mod3_mul.
  - unfold tube_idx. rewrite Forall_forall. intros x Hx.
    apply in_flat_map in Hx. destruct Hx as [j [Hj Hx]]. apply in_seq in Hj.
    apply in_flat_map in Hx. destruct Hx as [i [Hi Hx]]. apply in_seq in Hi.
    pose proof (tube_quad_bound flip sides points j i ltac:(lia) ltac:(lia)) as F.
    rewrite Forall_forall in F. apply F, Hx.
Qed.

(* ---------------------------------------------------------------- quad *)
Theorem quad_wf : wf_idx_nat quad_nverts quad_idx.
Proof. apply wf_idx_natb_iff. reflexivity. Qed.

(* ---------------------------------------------------------------- ribbon (extrude.Line) *)
Lemma ribbon_length : forall points, length (ribbon_idx points) = ((points - 1) * 4) * 3.
Proof.
  intros points. unfold ribbon_idx. rewrite (flat_map_length_const _ _ _ 12); [|intros; reflexivity].
  rewrite seq_length. lia.
Qed.

Theorem ribbon_wf : forall points, wf_idx_nat (ribbon_nverts points) (ribbon_idx points).
Proof.
  intros points. split.
  - rewrite ribbon_length. apply mod3_mul.
  - unfold ribbon_idx, ribbon_nverts. rewrite Forall_forall. intros x Hx.
    apply in_flat_map in Hx. destruct Hx as [i [Hi Hx]]. apply in_seq in Hi.
    unfold ribbon_seg in Hx. cbn [In] in Hx.
    repeat (destruct Hx as [<-|Hx]; [lia|]). destruct Hx.
Qed.

(* ---------------------------------------------------------------- shape (extrude.makeShape) *)
Lemma shape_quad_length : forall sides bottom top i, length (shape_quad sides bottom top i) = 6.
Proof. reflexivity. Qed.

Lemma shape_length : forall sides points closed,
  length (shape_idx sides points closed) = (((points - 1) * sides + (if closed then sides else 0)) * 2) * 3.
Proof.
  intros sides points closed. unfold shape_idx. rewrite app_length.
  rewrite (flat_map_length_const _ _ _ (sides * 6)).
  - rewrite seq_length. destruct closed.
    + rewrite (flat_map_length_const _ _ _ 6); [rewrite seq_length; lia|intros; apply shape_quad_length].
    + cbn [length]. lia.
  - intros j _. rewrite (flat_map_length_const _ _ _ 6); [rewrite seq_length; reflexivity|].
    intros; apply shape_quad_length.
Qed.

Lemma shape_quad_bound : forall sides bottom top i n, i < sides ->
  bottom + sides <= n -> top + sides <= n ->
  Forall (fun x => x < n) (shape_quad sides bottom top i).
Proof.
  intros sides bottom top i n Hi Hb Ht. unfold shape_quad.
  destruct i as [|i]; repeat constructor; lia.
Qed.

Theorem shape_wf : forall sides points closed, 1 <= points ->
  wf_idx_nat (shape_nverts sides points) (shape_idx sides points closed).
Proof.
  intros sides points closed Hp. split.
  - rewrite shape_length. apply mod3_mul.
  - unfold shape_idx, shape_nverts. apply Forall_app. split.
    + rewrite Forall_forall. intros x Hx.
      apply in_flat_map in Hx. destruct Hx as [j [Hj Hx]]. apply in_seq in Hj.
      apply in_flat_map in Hx. destruct Hx as [i [Hi Hx]]. apply in_seq in Hi.
      assert (L : S (S j) * sides <= points * sides) by (apply Nat.mul_le_mono_r; lia).
      assert (E1 : S j * sides = j * sides + sides) by (rewrite Nat.mul_succ_l; lia).
      assert (E2 : S (S j) * sides = S j * sides + sides) by (rewrite Nat.mul_succ_l; lia).
      pose proof (shape_quad_bound sides (j * sides) (S j * sides) i (points * sides) ltac:(lia) ltac:(lia) ltac:(lia)) as F.
      rewrite Forall_forall in F. apply F, Hx.
    + destruct closed; [|constructor].
      rewrite Forall_forall. intros x Hx.
      apply in_flat_map in Hx. destruct Hx as [i [Hi Hx]]. apply in_seq in Hi.
      destruct points as [|p]; [lia|].
      assert (E : S p * sides = p * sides + sides) by (rewrite Nat.mul_succ_l; lia).
      replace (S p - 1) with p in Hx by lia.
      pose proof (shape_quad_bound sides (p * sides) 0 i (S p * sides) ltac:(lia) ltac:(lia) ltac:(lia)) as F.
      rewrite Forall_forall in F. apply F, Hx.
Qed.


Definition gen_mesh_nat (nv : nat) (idx : list nat) (ks : list Pure.key) (mats : list (nat * N))
  (vals : Pure.key -> nat -> Pure.vec) : Pure.mesh :=
  Mesh Triangle idx mats (map (fun k => ((k, map (vals k) (seq 0 nv)) : Pure.attr)) ks).

Lemma gen_mesh_nat_wf : forall nv idx ks mats vals,
  wf_idx_nat nv idx -> ssortedb ks = true -> ks <> [] -> wf (gen_mesh_nat nv idx ks mats vals).
Proof.
  intros nv idx ks mats vals [Hm Hr] Hs Hk. unfold gen_mesh_nat.
  apply wf_build with (n := nv).
  - rewrite Forall_forall. intros a Ha. apply in_map_iff in Ha. destruct Ha as [k [<- _]].
    cbn [snd]. rewrite map_length, seq_length. reflexivity.
  - intros E. destruct ks; [congruence|discriminate].
  - exact Hr.
  - cbn [count_okb]. apply Nat.eqb_eq. exact Hm.
  - rewrite map_map. cbn [fst]. rewrite map_id. exact Hs.
Qed.

Theorem fan_mesh_wf : forall n ks mats vals, 1 <= n -> ssortedb ks = true -> ks <> [] ->
  wf (gen_mesh_nat (fan_nverts n) (fan_idx n) ks mats vals).
Proof. intros. apply gen_mesh_nat_wf; auto. apply fan_wf; assumption. Qed.

Theorem tube_mesh_wf : forall flip sides points ks mats vals, ssortedb ks = true -> ks <> [] ->
  wf (gen_mesh_nat (tube_nverts sides points) (tube_idx flip sides points) ks mats vals).
Proof. intros. apply gen_mesh_nat_wf; auto. apply tube_wf. Qed.

Theorem quad_mesh_wf : forall ks mats vals, ssortedb ks = true -> ks <> [] ->
  wf (gen_mesh_nat quad_nverts quad_idx ks mats vals).
Proof. intros. apply gen_mesh_nat_wf; auto. apply quad_wf. Qed.

Theorem ribbon_mesh_wf : forall points ks mats vals, ssortedb ks = true -> ks <> [] ->
  wf (gen_mesh_nat (ribbon_nverts points) (ribbon_idx points) ks mats vals).
Proof. intros. apply gen_mesh_nat_wf; auto. apply ribbon_wf. Qed.

Theorem shape_mesh_wf : forall sides points closed ks mats vals, 1 <= points -> ssortedb ks = true -> ks <> [] ->
  wf (gen_mesh_nat (shape_nverts sides points) (shape_idx sides points closed) ks mats vals).
Proof. intros. apply gen_mesh_nat_wf; auto. apply shape_wf; assumption. Qed.

Example ribbon_2 : ribbon_idx 2 = [3;0;1; 3;1;4; 3;5;0; 5;2;0].
Proof. reflexivity. Qed.
Example shape_3_2 : shape_idx 3 2 true = [2;5;3;2;3;0; 0;3;4;0;4;1; 1;4;5;1;5;2;  5;2;0;5;0;3; 3;0;1;3;1;4; 4;1;2;4;2;5].
Proof. reflexivity. Qed.

Example fan_4 : fan_idx 4 = [0;4;1; 1;4;2; 2;4;3; 3;4;0].
Proof. reflexivity. Qed.
Example tube_3_2 : tube_idx (fun _ _ => false) 3 2 = [1;5;4;1;4;0; 2;6;5;2;5;1; 3;7;6;3;6;2].
Proof. reflexivity. Qed.
