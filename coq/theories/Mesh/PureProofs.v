(* C02: well-formedness (wf) is closed under every modelled mesh operation. *)
From Coq Require Import List NArith ZArith Bool Arith Lia.
From PF Require Import Mesh.Pure Mesh.PureLemmas.
Import ListNotations.

(* ================================================================ wfb <-> wf *)
Lemma wfb_wf : forall m, wfb m = true <-> wf m.
Proof.
  intros m. unfold wfb, wf. rewrite !andb_true_iff, !forallb_forall, !Forall_forall. split.
  - intros [[[A B] C] D]. repeat split; try assumption.
    + intros x Hx. apply Nat.eqb_eq, A, Hx.
    + intros x Hx. apply Nat.ltb_lt, B, Hx.
  - intros [A [B [C D]]]. repeat split; try assumption.
    + intros x Hx. apply Nat.eqb_eq, A, Hx.
    + intros x Hx. apply Nat.ltb_lt, B, Hx.
Qed.

(* ================================================================ building blocks *)
Lemma wf_build : forall t idx ms (l : list attr) n,
  Forall (fun a : attr => length (snd a) = n) l ->
  (l = [] -> idx = []) ->
  Forall (fun i => i < n) idx ->
  count_okb t (length idx) = true ->
  ssortedb (map fst l) = true ->
  wf (Mesh t idx ms l).
Proof.
  intros t idx ms l n FL Hnil FI C S. unfold wf. cbn [attrs indices topology].
  destruct l as [|[k d] r].
  - rewrite (Hnil eq_refl) in *. repeat split; auto.
  - assert (E : length d = n) by (inversion FL; subst; reflexivity).
    subst n. unfold nverts. cbn [attrs]. repeat split; assumption.
Qed.

Lemma wf_nil_attrs : forall m, wf m -> attrs m = [] -> indices m = [].
Proof.
  intros m [_ [WI _]] E. unfold nverts in WI. rewrite E in WI.
  destruct (indices m) as [|i r]; [reflexivity|]. inversion WI; subst. lia.
Qed.

Lemma wf_nverts_0 : forall m, wf m -> nverts m = 0 -> indices m = [].
Proof.
  intros m [_ [WI _]] E. rewrite E in WI.
  destruct (indices m) as [|i r]; [reflexivity|]. inversion WI; subst. lia.
Qed.

Lemma nverts_nil_attrs : forall m, attrs m = [] -> nverts m = 0.
Proof. intros m E. unfold nverts. rewrite E. reflexivity. Qed.

Lemma wf_lookup_length : forall m k d, wf m -> lookup k (attrs m) = Some d -> length d = nverts m.
Proof.
  intros m k d [WA _] H. apply lookup_In in H. rewrite Forall_forall in WA. apply (WA (k, d) H).
Qed.

Lemma wf_mesh_eta : forall m, Mesh (topology m) (indices m) (materials m) (attrs m) = m.
Proof. destruct m; reflexivity. Qed.

Lemma topo_eqb_eq : forall a b, topo_eqb a b = true -> a = b.
Proof. intros [] []; simpl; intros H; try reflexivity; discriminate. Qed.

Lemma empty_mesh_wf : forall t, wf (empty_mesh t).
Proof.
  intros t. unfold empty_mesh. apply wf_build with (n := 0); try constructor; try reflexivity.
  destruct t; reflexivity.
Qed.

Theorem wf_accessors_in_range : forall m, wf m ->
  forall i a, In i (indices m) -> In a (attrs m) -> i < length (snd a).
Proof.
  intros m [WA [WI _]] i a Hi Ha. rewrite Forall_forall in *. rewrite (WA a Ha). apply WI, Hi.
Qed.

(* ================================================================ setters *)
Lemma set_indices_wf : forall m idx, wf m ->
  Forall (fun i => i < nverts m) idx -> count_okb (topology m) (length idx) = true ->
  wf (set_indices m idx).
Proof.
  intros m idx [WA [WI [WC WS]]] F C. unfold wf, set_indices.
  change (nverts (Mesh (topology m) idx (materials m) (attrs m))) with (nverts m).
  cbn [attrs indices topology]. repeat split; assumption.
Qed.

Lemma set_materials_wf : forall m ms, wf m -> wf (set_materials m ms).
Proof. intros m ms W. exact W. Qed.

Lemma set_material_wf : forall m mat, wf m -> wf (set_material m mat).
Proof. intros m mat W. exact W. Qed.

Lemma set_attr_wf : forall k d m, wf m -> op_pre (OSetAttr k d) [m] = true -> wf (set_attr k d m).
Proof.
  intros k d m W P. pose proof W as [WA [WI [WC WS]]]. unfold set_attr. cbn [op_pre] in P.
  destruct d as [|x d'].
  - assert (E : indices m = []) by (destruct (indices m); [reflexivity|discriminate]).
    rewrite E in *. apply wf_build with (n := nverts m).
    + apply remove_key_Forall, WA.
    + reflexivity.
    + constructor.
    + assumption.
    + apply remove_key_sorted, WS.
  - apply orb_true_iff in P. destruct P as [P|P].
    + apply Nat.eqb_eq in P. apply wf_build with (n := nverts m).
      * apply insert_Forall_length; assumption.
      * intros C. apply insert_not_nil in C. contradiction.
      * assumption.
      * assumption.
      * apply insert_sorted, WS.
    + apply andb_true_iff in P. destruct P as [P1 P2].
      assert (E1 : attrs m = []) by (destruct (attrs m); [reflexivity|discriminate]).
      assert (E2 : indices m = []) by (destruct (indices m); [reflexivity|discriminate]).
      rewrite E1, E2 in *. cbn [insert]. apply wf_build with (n := length (x :: d')).
      * repeat constructor.
      * reflexivity.
      * constructor.
      * assumption.
      * reflexivity.
Qed.

Lemma set_attr_pre_of_len : forall k d m, wf m -> length d = nverts m ->
  op_pre (OSetAttr k d) [m] = true.
Proof.
  intros k d m W L. cbn [op_pre]. destruct d as [|x d'].
  - rewrite (wf_nverts_0 m W); [reflexivity|]. simpl in L. lia.
  - apply orb_true_iff. left. apply Nat.eqb_eq. assumption.
Qed.

Lemma set_attr_len_wf : forall k d m, wf m -> length d = nverts m -> wf (set_attr k d m).
Proof. intros k d m W L. apply set_attr_wf; [assumption|apply set_attr_pre_of_len; assumption]. Qed.

(* ================================================================ ToPointCloud / Unweld / Flip *)
Lemma to_points_wf : forall m, wf m -> wf (to_points m).
Proof.
  intros m W. pose proof W as [WA [WI [WC WS]]]. unfold to_points.
  assert (G : wf (Mesh Point (seq 0 (nverts m)) (materials m) (attrs m))).
  { apply wf_build with (n := nverts m); try assumption.
    - intros E. rewrite (nverts_nil_attrs m E). reflexivity.
    - rewrite Forall_forall. intros x Hx. apply in_seq in Hx. lia.
    - reflexivity. }
  destruct (topology m); assumption.
Qed.

Lemma unweld_wf : forall m, wf m -> wf (unweld m).
Proof.
  intros m W. pose proof W as [WA [WI [WC WS]]]. unfold unweld.
  apply wf_build with (n := length (indices m)).
  - rewrite Forall_forall. intros x Hx. apply in_map_iff in Hx. destruct Hx as [a [E Ha]]. subst x.
    cbn [snd]. unfold gather. apply map_length.
  - intros E. apply map_eq_nil in E. rewrite (wf_nil_attrs m W E). reflexivity.
  - rewrite Forall_forall. intros x Hx. apply in_seq in Hx. lia.
  - rewrite seq_length. assumption.
  - apply (map_snd_sorted (fun a => gather (indices m) (snd a))). assumption.
Qed.

Lemma flip_wf : forall m, wf m ->
  match flip m with Ok ms => Forall wf ms | Declared => True | Crash => False end.
Proof.
  intros m W. pose proof W as [WA [WI [WC WS]]]. unfold flip.
  destruct (topology m) eqn:T; try exact I. constructor; [|constructor].
  cbn [count_okb] in WC. apply Nat.eqb_eq in WC.
  apply set_indices_wf; [assumption| |].
  - apply flip3_Forall, WI.
  - rewrite T. cbn [count_okb]. apply Nat.eqb_eq. rewrite flip3_length; assumption.
Qed.

(* ================================================================ RemovedUnreferencedVertices *)
Lemma remove_unref_aux : forall b t idx ms (l : list attr) u n,
  length u = n ->
  Forall (fun a : attr => length (snd a) = n) l ->
  (l = [] -> idx = []) ->
  Forall (fun i => i < n /\ nth i u false = true) idx ->
  count_okb t (length idx) = true ->
  ssortedb (map fst l) = true ->
  wf (Mesh t (map (fun i => i - shift_by u i) idx) ms
           (filter (fun a => negb (b && is_nil (snd a)))
                   (map (fun a => (fst a, compact u (snd a))) l))).
Proof.
  intros b t idx ms l u n Lu FL Hnil FI C S.
  apply wf_build with (n := count_true u).
  - apply Forall_filter. rewrite Forall_forall in *. intros x Hx. apply in_map_iff in Hx.
    destruct Hx as [a [E Ha]]. subst x. cbn [snd]. apply compact_length. rewrite Lu. symmetry. apply FL, Ha.
  - intros E. destruct idx as [|i r]; [reflexivity|]. exfalso.
    inversion FI as [|? ? [Hi Hn] _]; subst.
    pose proof (rank_lt u i Hi Hn) as R.
    destruct l as [|[k d] r']; [specialize (Hnil eq_refl); discriminate|].
    cbn [map filter fst snd] in E.
    assert (Lc : length (compact u d) = count_true u).
    { apply compact_length. inversion FL; subst. cbn [snd] in *. congruence. }
    destruct (compact u d) as [|y c]; [simpl in Lc; lia|].
    cbn [is_nil] in E. rewrite andb_false_r in E. cbn [negb] in E. discriminate.
  - rewrite Forall_forall in *. intros x Hx. apply in_map_iff in Hx. destruct Hx as [i [E Hi]]. subst x.
    destruct (FI i Hi) as [H1 H2]. rewrite shift_rank by (try rewrite Lu; assumption).
    apply rank_lt; [rewrite Lu|]; assumption.
  - rewrite map_length. assumption.
  - apply filter_sorted. apply (map_snd_sorted (fun a => compact u (snd a))). assumption.
Qed.

Lemma remove_unref_with_wf : forall b m, wf m -> wf (remove_unref_with b m).
Proof.
  intros b m W. pose proof W as [WA [WI [WC WS]]]. unfold remove_unref_with.
  apply remove_unref_aux with (n := nverts m); try assumption.
  - apply used_mask_length.
  - apply wf_nil_attrs, W.
  - rewrite Forall_forall in *. intros i Hi. split; [apply WI, Hi|].
    apply used_mask_In; [assumption|apply WI, Hi].
Qed.

Lemma remove_unref_wf : forall m, wf m -> wf (remove_unref m).
Proof. intros m. apply remove_unref_with_wf. Qed.

(* ================================================================ FilterFloatN / RemoveNullFaces / Crop *)
Lemma filter_attr_wf : forall k pred m, wf m ->
  match filter_attr k pred m with Ok ms => Forall wf ms | Declared => True | Crash => False end.
Proof.
  intros k pred m W. pose proof W as [WA [WI [WC WS]]]. unfold filter_attr.
  destruct (lookup k (attrs m)) as [d|]; [|exact I]. constructor; [|constructor].
  apply remove_unref_wf, set_indices_wf; [assumption| |].
  - unfold filter_idx. apply units_filter_Forall, WI.
  - unfold filter_idx. apply units_filter_count_ok.
Qed.

Lemma remove_null_wf : forall a keep m, wf m ->
  match remove_null a keep m with Ok ms => Forall wf ms | Declared => True | Crash => False end.
Proof.
  intros a keep m W. pose proof W as [WA [WI [WC WS]]]. unfold remove_null.
  destruct (topology m) eqn:T; try exact I.
  destruct (lookup (3%N, a) (attrs m)) as [d|]; [|exact I].
  match goal with |- context [if ?c then _ else _] => destruct c end.
  - constructor; [assumption|constructor].
  - constructor; [|constructor]. apply remove_unref_wf, set_indices_wf; [assumption| |].
    + apply chunk3_filter_Forall, WI.
    + rewrite T. cbn [count_okb]. apply Nat.eqb_eq, chunk3_filter_mod.
Qed.

Lemma crop_wf : forall a lo hi m, wf m ->
  match crop a lo hi m with Ok ms => Forall wf ms | Declared => True | Crash => False end.
Proof.
  intros a lo hi m W. pose proof W as [WA [WI [WC WS]]]. unfold crop.
  destruct (topology m) eqn:T; try exact I.
  destruct (lookup (3%N, a) (attrs m)) as [d|]; [|exact I].
  constructor; [|constructor].
  set (idx := filter (fun i => inside lo hi (nth i d [])) (indices m)).
  assert (Hsub : forall i, In i idx -> In i (indices m)).
  { intros i Hi. apply filter_In in Hi. apply Hi. }
  apply wf_build with (n := length idx).
  - apply Forall_filter. rewrite Forall_forall. intros x Hx. apply in_map_iff in Hx.
    destruct Hx as [y [E Hy]]. subst x. cbn [snd]. unfold gather. apply map_length.
  - intros E. destruct idx as [|i r] eqn:EI; [reflexivity|]. exfalso.
    destruct (attrs m) as [|[k0 d0] r0] eqn:EA.
    + pose proof (wf_nil_attrs m W EA) as N. specialize (Hsub i (or_introl eq_refl)).
      rewrite N in Hsub. contradiction.
    + cbn [map filter fst snd gather is_nil negb] in E. discriminate.
  - rewrite Forall_forall. intros x Hx. apply in_seq in Hx. lia.
  - reflexivity.
  - apply filter_sorted. apply (map_snd_sorted (fun x => gather idx (snd x))). assumption.
Qed.

(* ================================================================ single-attribute transforms *)
Lemma modify_attr_wf : forall k f m, (forall d, length (f d) = length d) -> wf m ->
  match modify_attr k f m with Ok ms => Forall wf ms | Declared => True | Crash => False end.
Proof.
  intros k f m Hf W. unfold modify_attr. destruct (lookup k (attrs m)) as [d|] eqn:E; [|exact I].
  constructor; [|constructor]. apply set_attr_len_wf; [assumption|].
  rewrite Hf. eapply wf_lookup_length; eassumption.
Qed.

Lemma modify_attr_shape : forall k f m,
  (exists c, modify_attr k f m = Ok [c]) \/ modify_attr k f m = Declared.
Proof.
  intros k f m. unfold modify_attr. destruct (lookup k (attrs m)); [left; eexists; reflexivity|right; reflexivity].
Qed.

Lemma translate_wf : forall a v m, wf m ->
  match translate a v m with Ok ms => Forall wf ms | Declared => True | Crash => False end.
Proof. intros a v m W. apply modify_attr_wf; [intros d; apply map_length|assumption]. Qed.

Lemma scale3_wf : forall a o s m, wf m ->
  match scale3 a o s m with Ok ms => Forall wf ms | Declared => True | Crash => False end.
Proof. intros a o s m W. apply modify_attr_wf; [intros d; apply map_length|assumption]. Qed.

Lemma scale2_wf : forall a o s m, wf m ->
  match scale2 a o s m with Ok ms => Forall wf ms | Declared => True | Crash => False end.
Proof. intros a o s m W. apply modify_attr_wf; [intros d; apply map_length|assumption]. Qed.

Lemma rotate_wf : forall a q m, wf m ->
  match rotate a q m with Ok ms => Forall wf ms | Declared => True | Crash => False end.
Proof. intros a q m W. apply modify_attr_wf; [intros d; apply map_length|assumption]. Qed.

Lemma apply_trs_wf : forall pos t m, wf m ->
  match apply_trs pos t m with Ok ms => Forall wf ms | Declared => True | Crash => False end.
Proof. intros pos t m W. apply modify_attr_wf; [intros d; apply map_length|assumption]. Qed.

Lemma center_data_length : forall d, length (center_data d) = length d.
Proof. intros [|v0 r]; [reflexivity|]. unfold center_data. apply map_length. Qed.

Lemma center_wf : forall a m, wf m ->
  match center a m with Ok ms => Forall wf ms | Declared => True | Crash => False end.
Proof. intros a m W. apply modify_attr_wf; [apply center_data_length|assumption]. Qed.

(* ================================================================ ScaleAttributeAlongNormal, SliceByPlane *)
Lemma along_normal_length : forall amt dn d, length (along_normal amt dn d) = length d.
Proof.
  intros amt dn d. unfold along_normal. rewrite map_length, combine_length, seq_length. apply Nat.min_id.
Qed.

Lemma scale_along_normal_wf : forall a nrm amt m, wf m ->
  match scale_along_normal a nrm amt m with Ok ms => Forall wf ms | Declared => True | Crash => False end.
Proof.
  intros a nrm amt m W. unfold scale_along_normal. destruct (lookup (3%N, nrm) (attrs m)) as [dn|]; [|exact I].
  apply modify_attr_wf; [intros d; apply along_normal_length|assumption].
Qed.

Lemma slice_side_wf : forall m p, wf m -> topology m = Triangle ->
  wf (remove_unref (set_indices m (filter_idx Triangle p (indices m)))).
Proof.
  intros m p W T. pose proof W as [WA [WI [WC WS]]].
  apply remove_unref_wf, set_indices_wf; [assumption| |].
  - unfold filter_idx. apply units_filter_Forall, WI.
  - rewrite T. unfold filter_idx. apply units_filter_count_ok.
Qed.

Lemma slice_wf : forall a clip m, wf m ->
  match slice a clip m with Ok ms => Forall wf ms | Declared => True | Crash => False end.
Proof.
  intros a clip m W. unfold slice. destruct (topology m) eqn:T; try exact I.
  destruct (lookup (3%N, a) (attrs m)) as [d|]; [|exact I].
  constructor; [apply slice_side_wf; assumption|]. constructor; [apply slice_side_wf; assumption|constructor].
Qed.

(* ================================================================ Mesh.Append *)
Lemma zeros_length : forall k n, length (zeros k n) = n.
Proof. intros k n. unfold zeros. apply repeat_length. Qed.

Definition append_step (a : list attr) (la : nat) (acc : list attr) (kb : attr) : list attr :=
  match lookup (fst kb) a with
  | Some _ => acc
  | None => insert (fst kb) (zeros (fst kb) la ++ snd kb) acc
  end.

Lemma append_fold_inv : forall (a : list attr) la lb (b acc : list attr),
  Forall (fun x : attr => length (snd x) = lb) b ->
  Forall (fun x : attr => length (snd x) = la + lb) acc ->
  ssortedb (map fst acc) = true ->
  Forall (fun x : attr => length (snd x) = la + lb) (fold_left (append_step a la) b acc)
  /\ ssortedb (map fst (fold_left (append_step a la) b acc)) = true.
Proof.
  intros a la lb. induction b as [|kb b IH]; intros acc Fb Fa S; cbn [fold_left].
  - split; assumption.
  - inversion Fb; subst. apply IH; [assumption| |]; unfold append_step; destruct (lookup (fst kb) a).
    + assumption.
    + apply insert_Forall_length; [assumption|]. rewrite app_length, zeros_length. lia.
    + assumption.
    + apply insert_sorted, S.
Qed.

Lemma append_fold_nonnil : forall (a : list attr) la (b acc : list attr),
  acc <> [] -> fold_left (append_step a la) b acc <> [].
Proof.
  intros a la. induction b as [|kb b IH]; intros acc H; cbn [fold_left]; [assumption|].
  apply IH. unfold append_step. destruct (lookup (fst kb) a); [assumption|apply insert_not_nil].
Qed.

Lemma append_attrs_unfold : forall a b la lb,
  append_attrs a b la lb =
  fold_left (append_step a la) b
    (map (fun ka : attr => (fst ka, snd ka ++ match lookup (fst ka) b with
                                              | Some db => db
                                              | None => zeros (fst ka) lb
                                              end)) a).
Proof. reflexivity. Qed.

Lemma append_attrs_nil : forall a b la lb, append_attrs a b la lb = [] -> a = [] /\ b = [].
Proof.
  intros a b la lb H. rewrite append_attrs_unfold in H.
  destruct a as [|ka a].
  - split; [reflexivity|]. destruct b as [|kb b]; [reflexivity|]. exfalso.
    cbn [map fold_left] in H. revert H. apply append_fold_nonnil.
    unfold append_step. cbn [lookup]. apply insert_not_nil.
  - exfalso. revert H. apply append_fold_nonnil. cbn [map]. discriminate.
Qed.

Lemma add_mod_0 : forall a b n, n <> 0 -> a mod n = 0 -> b mod n = 0 -> (a + b) mod n = 0.
Proof.
  intros a b n Hn Ha Hb. rewrite Nat.add_mod by assumption. rewrite Ha, Hb. cbn [Nat.add].
  apply Nat.mod_0_l. assumption.
Qed.

Lemma count_okb_add : forall t a b,
  count_okb t a = true -> count_okb t b = true -> count_okb t (a + b) = true.
Proof.
  intros t a b Ha Hb. destruct t; cbn [count_okb] in *; try reflexivity;
    apply Nat.eqb_eq in Ha; apply Nat.eqb_eq in Hb; apply Nat.eqb_eq; apply add_mod_0; try assumption; discriminate.
Qed.

Lemma append_wf : forall a b, wf a -> wf b ->
  match append a b with Ok ms => Forall wf ms | Declared => True | Crash => False end.
Proof.
  intros a b Wa Wb. pose proof Wa as [AA [AI [AC AS]]]. pose proof Wb as [BA [BI [BC BS]]].
  unfold append. destruct (topo_eqb (topology a) (topology b)) eqn:T; [|exact I].
  apply topo_eqb_eq in T. constructor; [|constructor].
  apply wf_build with (n := nverts a + nverts b).
  - rewrite append_attrs_unfold. apply append_fold_inv; [assumption| |].
    + rewrite Forall_forall in *. intros x Hx. apply in_map_iff in Hx. destruct Hx as [ka [E Hka]].
      subst x. cbn [snd fst]. rewrite app_length, (AA ka Hka). f_equal.
      destruct (lookup (fst ka) (attrs b)) as [db|] eqn:L.
      * apply lookup_In in L. apply (BA _ L).
      * apply zeros_length.
    + apply (map_snd_sorted (fun ka => snd ka ++ match lookup (fst ka) (attrs b) with
                                                 | Some db => db
                                                 | None => zeros (fst ka) (nverts b)
                                                 end)). assumption.
  - intros E. apply append_attrs_nil in E. destruct E as [E1 E2].
    rewrite (wf_nil_attrs a Wa E1), (wf_nil_attrs b Wb E2). reflexivity.
  - apply Forall_app. split.
    + rewrite Forall_forall in *. intros i Hi. specialize (AI i Hi). lia.
    + rewrite Forall_forall in *. intros x Hx. apply in_map_iff in Hx. destruct Hx as [i [E Hi]].
      subst x. specialize (BI i Hi). lia.
  - rewrite app_length, map_length. apply count_okb_add; [assumption|]. rewrite T. assumption.
  - rewrite append_attrs_unfold. apply (append_fold_inv (attrs a) (nverts a) (nverts b)); [assumption| |].
    + rewrite Forall_forall in *. intros x Hx. apply in_map_iff in Hx. destruct Hx as [ka [E Hka]].
      subst x. cbn [snd fst]. rewrite app_length, (AA ka Hka). f_equal.
      destruct (lookup (fst ka) (attrs b)) as [db|] eqn:L.
      * apply lookup_In in L. apply (BA _ L).
      * apply zeros_length.
    + apply (map_snd_sorted (fun ka => snd ka ++ match lookup (fst ka) (attrs b) with
                                                 | Some db => db
                                                 | None => zeros (fst ka) (nverts b)
                                                 end)). assumption.
Qed.

Lemma append_shape : forall a b, (exists c, append a b = Ok [c]) \/ append a b = Declared.
Proof.
  intros a b. unfold append. destruct (topo_eqb (topology a) (topology b));
    [left; eexists; reflexivity|right; reflexivity].
Qed.

(* ================================================================ WeldByFloat3Attribute *)
Section WeldWf.
  Context {K : Type} (keq : K -> K -> bool) (keyf : vec -> K).
  Hypothesis keq_refl : forall k, keq k k = true.

  Lemma first_idx_le : forall (ks : list K) v k k0,
    v < length ks -> keq k (nth v ks k0) = true -> first_idx keq k ks <= v.
  Proof.
    induction ks as [|x ks IH]; intros v k k0 Hv E; simpl in Hv; [lia|].
    cbn [first_idx]. destruct v.
    - cbn [nth] in E. rewrite E. lia.
    - destruct (keq k x); [lia|]. cbn [nth] in E. assert (Hv' : v < length ks) by lia. specialize (IH v k k0 Hv' E). lia.
  Qed.

  Lemma rep_le : forall d v, v < length d -> rep keq keyf d v <= v.
  Proof.
    intros d v H. unfold rep. apply first_idx_le with (k0 := keyf []).
    - rewrite map_length. assumption.
    - rewrite map_nth. apply keq_refl.
  Qed.

  Lemma rep_lt : forall d v, v < length d -> rep keq keyf d v < length d.
  Proof. intros d v H. pose proof (rep_le d v H). lia. Qed.

  Lemma weld_idx_range : forall d idx n, length d = n -> Forall (fun i => i < n) idx ->
    Forall (fun i => i < n) (weld_idx keq keyf d idx).
  Proof.
    intros d idx n L F. unfold weld_idx.
    pose proof (chunk3_filter_Forall _ _ (distinct3 keq keyf d) idx F) as G.
    rewrite Forall_forall in *. intros x Hx. apply in_map_iff in Hx. destruct Hx as [i [E Hi]].
    subst x n. apply rep_lt, G, Hi.
  Qed.

  Lemma weld_idx_mod : forall d idx, length (weld_idx keq keyf d idx) mod 3 = 0.
  Proof. intros d idx. unfold weld_idx. rewrite map_length. apply chunk3_filter_mod. Qed.

  Lemma weld_wf_gen : forall a m, wf m ->
    match weld keq keyf a m with Ok ms => Forall wf ms | Declared => True | Crash => False end.
  Proof.
    intros a m W. unfold weld. destruct (lookup (3%N, a) (attrs m)) as [d|] eqn:L; [|exact I].
    destruct (topology m) eqn:T; try exact I. constructor; [|constructor].
    apply remove_unref_with_wf. apply set_materials_wf. apply set_indices_wf; [assumption| |].
    - apply weld_idx_range; [eapply wf_lookup_length; eassumption|apply W].
    - rewrite T. cbn [count_okb]. apply Nat.eqb_eq, weld_idx_mod.
  Qed.
End WeldWf.

Lemma weld_wf : forall keyf a m, wf m ->
  match weld vec_eqb keyf a m with Ok ms => Forall wf ms | Declared => True | Crash => False end.
Proof. intros keyf a m W. apply weld_wf_gen; [apply vec_eqb_refl|assumption]. Qed.

(* ================================================================ SplitOnUniqueMaterials *)
Lemma tris_of_mat_sub : forall (ts : list (list nat)) tm mat c,
  In c (tris_of_mat ts tm mat) -> In c ts.
Proof.
  intros ts tm mat c H. unfold tris_of_mat in H. apply in_map_iff in H.
  destruct H as [[c' x] [E H]]. cbn [fst] in E. subst c'. apply filter_In in H.
  destruct H as [H _]. eapply in_combine_l; eassumption.
Qed.

Lemma split_wf : forall m, wf m ->
  match split m with Ok ms => Forall wf ms | Declared => True | Crash => False end.
Proof.
  intros m W. pose proof W as [WA [WI [WC WS]]]. unfold split.
  destruct (materials m) as [|[c0 mat0] [|p2 r]].
  - constructor; [assumption|constructor].
  - constructor; [assumption|constructor].
  - destruct (topology m) eqn:T; try exact I.
    match goal with |- context [if ?c then _ else _] => destruct c end; [exact I|].
    rewrite Forall_forall. intros x Hx. apply in_map_iff in Hx. destruct Hx as [mat [E _]]. subst x.
    apply remove_unref_wf. apply set_material_wf. apply set_indices_wf; [assumption| |].
    + apply chunk3_sub_Forall with (l := indices m); [|assumption].
      intros c Hc. eapply tris_of_mat_sub; eassumption.
    + rewrite T. cbn [count_okb]. apply Nat.eqb_eq. apply chunk3_sub_mod with (l := indices m).
      intros c Hc. eapply tris_of_mat_sub; eassumption.
Qed.

(* ================================================================ repeat.Mesh *)
Lemma repeat_from_wf : forall pos m ts acc, wf acc -> wf m ->
  match repeat_from pos acc m ts with Ok ms => Forall wf ms | Declared => True | Crash => False end.
Proof.
  intros pos m. induction ts as [|t ts IH]; intros acc Wa Wm; cbn [repeat_from].
  - constructor; [assumption|constructor].
  - pose proof (apply_trs_wf pos t m Wm) as H1.
    destruct (modify_attr_shape (3%N, pos) (map (trs_v t)) m) as [[c E]|E];
      fold (apply_trs pos t m) in E; rewrite E in *; [|exact I].
    inversion H1; subst.
    pose proof (append_wf acc c Wa H2) as H4.
    destruct (append_shape acc c) as [[c' E']|E']; rewrite E' in *; [|exact I].
    inversion H4; subst. apply IH; assumption.
Qed.

Lemma repeat_mesh_wf : forall pos m ts, wf m ->
  match repeat_mesh pos m ts with Ok ms => Forall wf ms | Declared => True | Crash => False end.
Proof. intros pos m ts W. unfold repeat_mesh. apply repeat_from_wf; [apply empty_mesh_wf|assumption]. Qed.

(* ================================================================ headline theorems *)
Lemma set_indices_pre_wf : forall idx m, wf m -> op_pre (OSetIndices idx) [m] = true ->
  wf (set_indices m idx).
Proof.
  intros idx m W P. cbn [op_pre] in P. apply andb_true_iff in P. destruct P as [P1 P2].
  apply set_indices_wf; [assumption| |assumption].
  rewrite forallb_forall in P1. rewrite Forall_forall. intros i Hi. apply Nat.ltb_lt, P1, Hi.
Qed.

Theorem step_wf : forall o ins, Forall wf ins -> op_pre o ins = true ->
  match step o ins with Ok ms => Forall wf ms | Declared => True | Crash => False end.
Proof.
  intros o ins F P.
  destruct ins as [|m1 [|m2 [|m3 r]]].
  - destruct o; exact I.
  - inversion F as [|? ? W1 _]; subst.
    destruct o; cbn [step]; try exact I.
    + constructor; [apply unweld_wf, W1|constructor].
    + constructor; [apply remove_unref_wf, W1|constructor].
    + apply remove_null_wf, W1.
    + apply flip_wf, W1.
    + constructor; [apply to_points_wf, W1|constructor].
    + apply filter_attr_wf, W1.
    + apply crop_wf, W1.
    + apply split_wf, W1.
    + apply weld_wf, W1.
    + constructor; [apply set_indices_pre_wf; assumption|constructor].
    + constructor; [apply set_attr_wf; assumption|constructor].
    + constructor; [apply set_materials_wf, W1|constructor].
    + apply repeat_mesh_wf, W1.
    + apply translate_wf, W1.
    + apply scale3_wf, W1.
    + apply scale2_wf, W1.
    + apply rotate_wf, W1.
    + apply apply_trs_wf, W1.
    + apply center_wf, W1.
    + apply slice_wf, W1.
    + apply scale_along_normal_wf, W1.
  - inversion F as [|? ? W1 F2]; subst. inversion F2 as [|? ? W2 _]; subst.
    destruct o; cbn [step]; try exact I. apply append_wf; assumption.
  - destruct o; exact I.
Qed.

Lemma pick_wf : forall pool args ins, Forall wf pool -> pick pool args = Some ins -> Forall wf ins.
Proof.
  intros pool. induction args as [|i r IH]; intros ins F H; cbn [pick] in H.
  - inversion H; subst. constructor.
  - destruct (nth_error pool i) as [m|] eqn:E; [|discriminate].
    destruct (pick pool r) as [ms|] eqn:E2; [|discriminate].
    inversion H; subst. constructor.
    + rewrite Forall_forall in F. apply F. eapply nth_error_In; eassumption.
    + apply IH; [assumption|reflexivity].
Qed.

Theorem run_wf : forall h pool, Forall wf pool -> Forall wf (run h pool).
Proof.
  induction h as [|[o args] h IH]; intros pool F; cbn [run]; [assumption|].
  destruct (pick pool args) as [ins|] eqn:E; [|apply IH, F].
  destruct (op_pre o ins) eqn:P; [|apply IH, F].
  pose proof (step_wf o ins (pick_wf _ _ _ F E) P) as S.
  destruct (step o ins) as [ms| |]; [|apply IH, F|apply IH, F].
  apply IH. apply Forall_app. split; assumption.
Qed.

(* results are values: a later operation never changes an earlier result - the pool only grows *)
Theorem run_extends : forall h pool, exists ext, run h pool = pool ++ ext.
Proof.
  induction h as [|[o args] h IH]; intros pool; cbn [run].
  - exists []. rewrite app_nil_r. reflexivity.
  - destruct (pick pool args) as [ins|]; [|apply IH].
    destruct (op_pre o ins); [|apply IH].
    destruct (step o ins) as [ms| |]; [|apply IH|apply IH].
    destruct (IH (pool ++ ms)) as [ext E]. exists (ms ++ ext). rewrite E, app_assoc. reflexivity.
Qed.

Corollary run_keeps : forall h pool i m, nth_error pool i = Some m -> nth_error (run h pool) i = Some m.
Proof.
  intros h pool i m H. destruct (run_extends h pool) as [ext E]. rewrite E.
  rewrite nth_error_app1; [exact H|]. apply nth_error_Some. rewrite H. discriminate.
Qed.

(* ... so a result that was well-formed when it was returned is well-formed after any continuation of the
   history, and it is the same mesh *)
Corollary run_keeps_wf : forall h1 h2 pool i m, Forall wf pool ->
  nth_error (run h1 pool) i = Some m -> nth_error (run h2 (run h1 pool)) i = Some m /\ wf m.
Proof.
  intros h1 h2 pool i m F H. split; [apply run_keeps, H|].
  pose proof (run_wf h1 pool F) as W. rewrite Forall_forall in W. apply W. eapply nth_error_In, H.
Qed.

Lemma run_app : forall h1 h2 pool, run (h1 ++ h2) pool = run h2 (run h1 pool).
Proof.
  induction h1 as [|[o args] h1 IH]; intros h2 pool; cbn [run app]; [reflexivity|].
  destruct (pick pool args) as [ins|]; [|apply IH].
  destruct (op_pre o ins); [|apply IH].
  destruct (step o ins); apply IH.
Qed.

(* ================================================================ corollaries *)
Lemma forallb_wfb_Forall : forall ms, forallb wfb ms = true <-> Forall wf ms.
Proof.
  intros ms. rewrite forallb_forall, Forall_forall. split; intros H x Hx; apply wfb_wf, H, Hx.
Qed.

Corollary step_wfb : forall o ins, forallb wfb ins = true -> op_pre o ins = true ->
  match step o ins with Ok ms => forallb wfb ms = true | Declared => True | Crash => False end.
Proof.
  intros o ins F P. apply forallb_wfb_Forall in F. pose proof (step_wf o ins F P) as S.
  destruct (step o ins); [apply forallb_wfb_Forall, S|exact I|exact S].
Qed.

Corollary step_no_crash : forall o ins, Forall wf ins -> op_pre o ins = true -> step o ins <> Crash.
Proof.
  intros o ins F P E. pose proof (step_wf o ins F P) as S. rewrite E in S. exact S.
Qed.

Corollary run_wfb : forall h pool, forallb wfb pool = true -> forallb wfb (run h pool) = true.
Proof. intros h pool F. apply forallb_wfb_Forall, run_wf, forallb_wfb_Forall, F. Qed.
