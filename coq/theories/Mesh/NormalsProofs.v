(* Lemmas about Mesh/Normals.v: what the squared test in Q means, and the laws of the numerator vectors. *)
From Coq Require Import List NArith ZArith Bool Arith QArith Qabs Lqa Lia.
From PF Require Import Mesh.Pure Mesh.PureLemmas Mesh.Normals.
Import ListNotations.
Close Scope Q_scope.

(* ------------------------------------------------------------------ the test *)
Lemma qpos_spec : forall x : Q, (0 <= qpos x)%Q /\ (x <= qpos x)%Q.
Proof.
  intros x. unfold qpos. destruct (Qle_bool 0 x) eqn:E.
  - apply Qle_bool_iff in E. split; [exact E|apply Qle_refl].
  - split; [apply Qle_refl|]. destruct (Qlt_le_dec x 0) as [H|H]; [apply Qlt_le_weak, H|].
    apply Qle_bool_iff in H. rewrite H in E. discriminate.
Qed.

Lemma sq_le_le : forall a b : Q, (0 <= a)%Q -> (0 <= b)%Q -> (a * a <= b * b)%Q -> (a <= b)%Q.
Proof.
  intros a b Ha Hb H. destruct (Qlt_le_dec b a) as [L|L]; [|exact L]. exfalso. nra.
Qed.

(* whenever the exact value n / sqrt(len2) is a rational r (r >= 0, r^2 len2 = n^2), an accepted output o has
   the sign of n and |o| lies within delta of r.  (For irrational roots the test is the same comparison of
   squares; it cannot be STATED in Q.) *)
Theorem close_unit_sound : forall (o : Q) (n len2 : Z) (r : Q),
  close_unit o n len2 = true -> (0 < len2)%Z -> (0 <= r)%Q ->
  (r * r * inject_Z len2 == inject_Z (n * n))%Q ->
  (0 <= o * inject_Z n)%Q /\ (Qabs o - delta <= r)%Q /\ (r <= Qabs o + delta)%Q.
Proof.
  intros o n len2 r H L R E. unfold close_unit in H.
  apply andb_true_iff in H. destruct H as [H H3]. apply andb_true_iff in H. destruct H as [H1 H2].
  apply Qle_bool_iff in H1. apply Qle_bool_iff in H2. apply Qle_bool_iff in H3.
  assert (LQ : (0 < inject_Z len2)%Q) by (change 0%Q with (inject_Z 0); rewrite <- Zlt_Qlt; exact L).
  split; [exact H1|].
  destruct (qpos_spec (Qabs o - delta)) as [P0 P1].
  assert (D : (0 <= delta)%Q) by (unfold delta; discriminate).
  pose proof (Qabs_nonneg o) as A.
  unfold qsq in *. rewrite <- E in H2, H3.
  split.
  - apply Qle_trans with (qpos (Qabs o - delta)); [exact P1|]. apply sq_le_le; [exact P0|exact R|].
    set (p := qpos (Qabs o - delta)) in *. set (l := inject_Z len2) in *. nra.
  - apply sq_le_le; [exact R| |].
    + set (a := Qabs o) in *. lra.
    + set (a := Qabs o) in *. set (l := inject_Z len2) in *. nra.
Qed.

(* ------------------------------------------------------------------ the numerators *)
Local Open Scope Z_scope.
(* a face's cross product does not move with the mesh and scales with the square of a uniform scale *)
Lemma cross_diff_translate : forall ax ay az bx by_ bz cx cy cz tx ty tz : Z,
  cross (vsub [bx + tx; by_ + ty; bz + tz] [ax + tx; ay + ty; az + tz])
        (vsub [cx + tx; cy + ty; cz + tz] [ax + tx; ay + ty; az + tz])%Z
  = cross (vsub [bx; by_; bz] [ax; ay; az]) (vsub [cx; cy; cz] [ax; ay; az]).
Proof.
  intros. unfold vsub, vzip, cross. cbn [combine map fst snd]. f_equal; [ring|]. f_equal; [ring|]. f_equal. ring.
Qed.

Lemma cross_diff_scale : forall k ax ay az bx by_ bz cx cy cz : Z,
  cross (vsub [k * bx; k * by_; k * bz] [k * ax; k * ay; k * az])
        (vsub [k * cx; k * cy; k * cz] [k * ax; k * ay; k * az])%Z
  = map (Z.mul (k * k)) (cross (vsub [bx; by_; bz] [ax; ay; az]) (vsub [cx; cy; cz] [ax; ay; az])).
Proof.
  intros. unfold vsub, vzip, cross. cbn [combine map fst snd]. f_equal; [ring|]. f_equal; [ring|]. f_equal. ring.
Qed.

(* a repeated corner gives the zero vector (a degenerate face contributes nothing) *)
Lemma cross_diff_degenerate : forall ax ay az cx cy cz : Z,
  cross (vsub [ax; ay; az] [ax; ay; az]) (vsub [cx; cy; cz] [ax; ay; az]) = zero3.
Proof.
  intros. unfold vsub, vzip, cross, zero3. cbn [combine map fst snd]. f_equal; [ring|]. f_equal; [ring|]. f_equal. ring.
Qed.

(* a vertex no triangle uses: the smooth sum is zero (the implementation leaves the zero normal),
   the flat normal is the (1,1,1) default *)
Lemma inner_fold_skip : forall (d : list vec) (t t' : list nat) (v : nat) acc, ~ In v t' ->
  fold_left (fun acc' i => if Nat.eqb i v then vadd acc' (face_cross d t) else acc') t' acc = acc.
Proof.
  intros d t t' v. induction t' as [|i r IH]; intros acc N; cbn [fold_left]; [reflexivity|].
  destruct (Nat.eqb i v) eqn:E.
  - apply Nat.eqb_eq in E. subst. exfalso. apply N. left. reflexivity.
  - apply IH. intros H. apply N. right. exact H.
Qed.

Theorem smooth_sum_unreferenced : forall d idx v, ~ In v idx -> smooth_sum d idx v = zero3.
Proof.
  intros d idx v N. unfold smooth_sum.
  assert (G : forall ts acc, (forall t, In t ts -> ~ In v t) ->
    fold_left (fun acc t => fold_left (fun acc' i => if Nat.eqb i v then vadd acc' (face_cross d t) else acc') t acc) ts acc = acc).
  { induction ts as [|t r IH]; intros acc H; cbn [fold_left]; [reflexivity|].
    rewrite inner_fold_skip by (apply H; left; reflexivity). apply IH. intros t' Ht. apply H. right. exact Ht. }
  apply G. intros t Ht Hv. apply N. eapply chunk3_In; eassumption.
Qed.

Theorem flat_vec_unreferenced : forall d idx v, ~ In v idx -> flat_vec d idx v = [1; 1; 1]%Z.
Proof.
  intros d idx v N. unfold flat_vec.
  assert (G : forall ts acc, (forall t, In t ts -> ~ In v t) ->
    fold_left (fun acc t => if existsb (Nat.eqb v) t then face_cross d t else acc) ts acc = acc).
  { induction ts as [|t r IH]; intros acc H; cbn [fold_left]; [reflexivity|].
    assert (E : existsb (Nat.eqb v) t = false).
    { destruct (existsb (Nat.eqb v) t) eqn:E; [|reflexivity]. apply existsb_exists in E.
      destruct E as [x [Hx Ex]]. apply Nat.eqb_eq in Ex. subst x. exfalso. apply (H t); [left; reflexivity|exact Hx]. }
    rewrite E. apply IH. intros t' Ht. apply H. right. exact Ht. }
  apply G. intros t Ht Hv. apply N. eapply chunk3_In; eassumption.
Qed.

(* normalise: the divisor is the largest squared length, so no output is longer than 1 *)
Lemma max_fold_ge : forall (d : list vec) m0 w, In w d -> (norm2 w <= fold_left (fun m x => Z.max m (norm2 x)) d m0)%Z.
Proof.
  induction d as [|x r IH]; intros m0 w H; [contradiction|]. cbn [fold_left]. destruct H as [H|H].
  - subst. clear IH. generalize (Z.max m0 (norm2 w)) (Z.le_max_r m0 (norm2 w)). intros m Hm.
    revert m Hm. induction r as [|y r IH]; intros m Hm; cbn [fold_left]; [exact Hm|].
    apply IH. lia.
  - apply IH, H.
Qed.

Theorem normalize_divisor_is_max : forall d idx v w, In w d ->
  (norm2 w <= unit_den2 NNormalize d idx v)%Z.
Proof. intros d idx v w H. unfold unit_den2. apply max_fold_ge, H. Qed.
