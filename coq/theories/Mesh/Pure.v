(* Pure functional model of modeling.Mesh and of the operations in modeling/mesh.go,
   modeling/meshops/*.go and modeling/repeat/repeat.go (properties C02, C03).
   Executable definitions only - every lemma lives in Mesh/PureProofs.v.

   Value domain (DESIGN 3.1/3.2): an attribute value is a tuple of integers (the harness uses
   integer-valued float64s, for which Go's + - * comparisons and math.Round are exact).
   The four Go maps v4Data/v3Data/v2Data/v1Data are ONE association list keyed by (arity, name id),
   kept strictly sorted: arity descending (the order AttributeLength consults the maps), then name
   ascending (the order Float<N>Attributes() reports). *)
From Coq Require Import List NArith ZArith Bool Arith.
Import ListNotations.

Inductive topo := Triangle | Point | Quad | Line | LineStrip | LineLoop.

Definition topo_eqb (a b : topo) : bool :=
  match a, b with
  | Triangle, Triangle | Point, Point | Quad, Quad | Line, Line
  | LineStrip, LineStrip | LineLoop, LineLoop => true
  | _, _ => false
  end.

(* Topology.IndexSize *)
Definition index_size (t : topo) : nat :=
  match t with Triangle => 3 | Point => 1 | Quad => 4 | _ => 2 end.

Definition key := (N * N)%type.              (* (arity 1..4, name id) *)
Definition vec := list Z.
Definition attr := (key * list vec)%type.

Definition key_eqb (a b : key) : bool := N.eqb (fst a) (fst b) && N.eqb (snd a) (snd b).
Definition key_ltb (a b : key) : bool :=
  N.ltb (fst b) (fst a) || (N.eqb (fst a) (fst b) && N.ltb (snd a) (snd b)).

Record mesh := Mesh {
  topology : topo;
  indices : list nat;
  materials : list (nat * N);              (* (PrimitiveCount, material identity) *)
  attrs : list attr
}.

(* ---------------------------------------------------------------- generic list helpers *)
Fixpoint list_eqb {A} (eqb : A -> A -> bool) (a b : list A) : bool :=
  match a, b with
  | [], [] => true
  | x :: a', y :: b' => eqb x y && list_eqb eqb a' b'
  | _, _ => false
  end.

Definition vec_eqb : vec -> vec -> bool := list_eqb Z.eqb.

Fixpoint chunk3 {A} (l : list A) : list (list A) :=
  match l with a :: b :: c :: r => [a; b; c] :: chunk3 r | _ => [] end.
Fixpoint chunk4 {A} (l : list A) : list (list A) :=
  match l with a :: b :: c :: d :: r => [a; b; c; d] :: chunk4 r | _ => [] end.

(* the units an index list is cut into: whole triangles / quads, single indices otherwise *)
Definition units {A} (t : topo) (l : list A) : list (list A) :=
  match t with
  | Triangle => chunk3 l
  | Quad => chunk4 l
  | _ => map (fun x => [x]) l
  end.

(* strictly sorted, all pairs *)
Fixpoint ssortedb (ks : list key) : bool :=
  match ks with [] => true | a :: r => forallb (key_ltb a) r && ssortedb r end.

(* ---------------------------------------------------------------- attribute maps *)
Fixpoint lookup (k : key) (l : list attr) : option (list vec) :=
  match l with
  | [] => None
  | (k', d) :: r => if key_eqb k k' then Some d else lookup k r
  end.

Fixpoint insert (k : key) (d : list vec) (l : list attr) : list attr :=
  match l with
  | [] => [(k, d)]
  | (k', d') :: r =>
      if key_eqb k k' then (k, d) :: r
      else if key_ltb k k' then (k, d) :: l
      else (k', d') :: insert k d r
  end.

Definition remove_key (k : key) (l : list attr) : list attr :=
  filter (fun a => negb (key_eqb k (fst a))) l.

(* Mesh.AttributeLength: the length of the first attribute in map order v4,v3,v2,v1 *)
Definition nverts (m : mesh) : nat :=
  match attrs m with [] => 0 | (_, d) :: _ => length d end.

(* ---------------------------------------------------------------- well-formedness (C02) *)
Definition count_okb (t : topo) (n : nat) : bool :=
  match t with Triangle => n mod 3 =? 0 | Quad => n mod 4 =? 0 | _ => true end.

Definition wfb (m : mesh) : bool :=
  forallb (fun a => length (snd a) =? nverts m) (attrs m)
  && forallb (fun i => i <? nverts m) (indices m)
  && count_okb (topology m) (length (indices m))
  && ssortedb (map fst (attrs m)).

Definition wf (m : mesh) : Prop :=
  Forall (fun a => length (snd a) = nverts m) (attrs m)
  /\ Forall (fun i => i < nverts m) (indices m)
  /\ count_okb (topology m) (length (indices m)) = true
  /\ ssortedb (map fst (attrs m)) = true.

(* ---------------------------------------------------------------- per-corner content (C03) *)
Definition gather (idx : list nat) (d : list vec) : list vec := map (fun i => nth i d []) idx.
(* all attribute values of vertex i, in key order *)
Definition row (m : mesh) (i : nat) : list vec := map (fun a => nth i (snd a) []) (attrs m).
Definition corners (m : mesh) : list (list vec) := map (row m) (indices m).
Definition prims (m : mesh) : list (list (list vec)) := units (topology m) (corners m).
Definition keys (m : mesh) : list key := map fst (attrs m).

(* ---------------------------------------------------------------- constructors / setters *)
Definition empty_mesh (t : topo) : mesh := Mesh t [] [] [].
Definition set_indices (m : mesh) (idx : list nat) : mesh :=
  Mesh (topology m) idx (materials m) (attrs m).
Definition set_materials (m : mesh) (ms : list (nat * N)) : mesh :=
  Mesh (topology m) (indices m) ms (attrs m).
(* Mesh.SetMaterial: one range covering len(indices)/IndexSize primitives *)
Definition set_material (m : mesh) (mat : N) : mesh :=
  set_materials m [(length (indices m) / index_size (topology m), mat)].
(* Mesh.SetFloatNAttribute: empty data deletes the key *)
Definition set_attr (k : key) (d : list vec) (m : mesh) : mesh :=
  Mesh (topology m) (indices m) (materials m)
       (match d with [] => remove_key k (attrs m) | _ => insert k d (attrs m) end).

(* ---------------------------------------------------------------- results *)
Inductive res := Ok (ms : list mesh) | Declared | Crash.

(* ---------------------------------------------------------------- ToPointCloud *)
Definition to_points (m : mesh) : mesh :=
  match topology m with
  | Point => m
  | _ => Mesh Point (seq 0 (nverts m)) (materials m) (attrs m)
  end.

(* ---------------------------------------------------------------- meshops.Unweld *)
Definition unweld (m : mesh) : mesh :=
  Mesh (topology m) (seq 0 (length (indices m))) (materials m)
       (map (fun a => (fst a, gather (indices m) (snd a))) (attrs m)).

(* ---------------------------------------------------------------- meshops.RemovedUnreferencedVertices *)
Definition used_mask (n : nat) (idx : list nat) : list bool :=
  map (fun v => existsb (Nat.eqb v) idx) (seq 0 n).

Fixpoint compact {A} (u : list bool) (d : list A) : list A :=
  match u, d with
  | b :: u', x :: d' => if b then x :: compact u' d' else compact u' d'
  | _, _ => []
  end.

(* shiftBy[i]: number of unused vertices among 0..i *)
Definition shift_by (u : list bool) (i : nat) : nat := length (filter negb (firstn (S i) u)).

Definition is_nil {A} (l : list A) : bool := match l with [] => true | _ => false end.

(* drop_empty = true: RemovedUnreferencedVertices (an attribute with no surviving value loses its key);
   drop_empty = false: the tail of WeldByFloat3Attribute (keys are kept) *)
Definition remove_unref_with (drop_empty : bool) (m : mesh) : mesh :=
  let u := used_mask (nverts m) (indices m) in
  Mesh (topology m) (map (fun i => i - shift_by u i) (indices m)) (materials m)
       (filter (fun a => negb (drop_empty && is_nil (snd a)))
               (map (fun a => (fst a, compact u (snd a))) (attrs m))).

Definition remove_unref : mesh -> mesh := remove_unref_with true.

(* ---------------------------------------------------------------- meshops.RemoveNullFaces3D *)
(* [keep] abstracts "!IsNaN(area) && area > minArea" on the three corner values of attribute a *)
Definition remove_null (a : N) (keep : list vec -> bool) (m : mesh) : res :=
  match topology m, lookup (3%N, a) (attrs m) with
  | Triangle, Some d =>
      let kept := concat (filter (fun t => keep (gather t d)) (chunk3 (indices m))) in
      if length kept =? length (indices m) then Ok [m]
      else Ok [remove_unref (set_indices m kept)]
  | _, _ => Declared
  end.

Definition vzip (f : Z -> Z -> Z) (a b : vec) : vec := map (fun p => f (fst p) (snd p)) (combine a b).
Definition cross (a b : vec) : vec :=
  match a, b with
  | [ax; ay; az], [bx; by_; bz] => [ay * bz - az * by_; az * bx - ax * bz; ax * by_ - ay * bx]%Z
  | _, _ => []
  end.
Definition dot (a b : vec) : Z := fold_right Z.add 0%Z (vzip Z.mul a b).
(* Tri.Area3D(attr) > minArea  <=>  |cross|^2 > 4*minArea^2 =: min4 (minArea >= 0) *)
Definition area_keep (min4 : Z) (t : list vec) : bool :=
  match t with
  | [p1; p2; p3] => let c := cross (vzip Z.sub p2 p1) (vzip Z.sub p3 p1) in (min4 <? dot c c)%Z
  | _ => false
  end.

(* ---------------------------------------------------------------- meshops.FlipTriangleWinding *)
Fixpoint flip3 {A} (l : list A) : list A :=
  match l with a :: b :: c :: r => b :: a :: c :: flip3 r | _ => [] end.
Definition flip (m : mesh) : res :=
  match topology m with Triangle => Ok [set_indices m (flip3 (indices m))] | _ => Declared end.

(* ---------------------------------------------------------------- meshops.FilterFloatN *)
(* after the repair: a whole primitive survives iff every one of its vertices passes (triangle and
   quad meshes); single indices on the other topologies *)
Definition filter_idx (t : topo) (p : nat -> bool) (idx : list nat) : list nat :=
  concat (filter (forallb p) (units t idx)).
Definition filter_attr (k : key) (pred : vec -> bool) (m : mesh) : res :=
  match lookup k (attrs m) with
  | Some d => Ok [remove_unref (set_indices m (filter_idx (topology m) (fun i => pred (nth i d [])) (indices m)))]
  | None => Declared
  end.

(* ---------------------------------------------------------------- meshops.CropFloat3Attribute *)
Definition inside (lo hi v : vec) : bool :=
  forallb (fun p => (fst p <=? snd p)%Z) (combine lo v) && forallb (fun p => (fst p <=? snd p)%Z) (combine v hi).
(* after the repair: points are walked through the index list (one output point per surviving
   input point); NewPointCloud strips empty attributes and creates identity indices *)
Definition crop (a : N) (lo hi : vec) (m : mesh) : res :=
  match topology m with
  | Point =>
      match lookup (3%N, a) (attrs m) with
      | Some d =>
          let idx := filter (fun i => inside lo hi (nth i d [])) (indices m) in
          Ok [Mesh Point (seq 0 (length idx)) (materials m)
                   (filter (fun x => negb (is_nil (snd x)))
                           (map (fun x => (fst x, gather idx (snd x))) (attrs m)))]
      | None => Declared
      end
  | _ => Declared
  end.

(* ---------------------------------------------------------------- Mesh.Append *)
Definition zeros (k : key) (n : nat) : list vec := repeat (repeat 0%Z (N.to_nat (fst k))) n.
Definition append_attrs (a b : list attr) (la lb : nat) : list attr :=
  fold_left
    (fun acc kb => match lookup (fst kb) a with
                   | Some _ => acc
                   | None => insert (fst kb) (zeros (fst kb) la ++ snd kb) acc
                   end)
    b
    (map (fun ka => (fst ka, snd ka ++ match lookup (fst ka) b with
                                       | Some db => db
                                       | None => zeros (fst ka) lb
                                       end)) a).
Definition append (a b : mesh) : res :=
  if topo_eqb (topology a) (topology b) then
    Ok [Mesh (topology a) (indices a ++ map (fun i => i + nverts a) (indices b))
             (materials a ++ materials b)
             (append_attrs (attrs a) (attrs b) (nverts a) (nverts b))]
  else Declared.

(* ---------------------------------------------------------------- meshops.SplitOnUniqueMaterials *)
Definition tri_mats (mats : list (nat * N)) : list N := flat_map (fun cm => repeat (snd cm) (fst cm)) mats.
Fixpoint nodup_first (seen : list N) (l : list N) : list N :=
  match l with
  | [] => []
  | x :: r => if existsb (N.eqb x) seen then nodup_first seen r else x :: nodup_first (x :: seen) r
  end.
Definition tris_of_mat (ts : list (list nat)) (tm : list N) (mat : N) : list (list nat) :=
  map fst (filter (fun p => N.eqb (snd p) mat) (combine ts tm)).
(* after the repair (empty ranges are skipped; counts that do not cover the triangles are a declared
   failure instead of an index past the material list) *)
Definition split (m : mesh) : res :=
  match materials m with
  | [] | [_] => Ok [m]
  | (_, mat0) :: _ =>
      match topology m with
      | Triangle =>
          let ts := chunk3 (indices m) in
          let tm := firstn (length ts) (tri_mats (materials m)) in
          if length tm <? length ts then Declared
          else Ok (map (fun mat => remove_unref (set_material (set_indices m (concat (tris_of_mat ts tm mat))) mat))
                       (nodup_first [] (mat0 :: tm)))
      | _ => Declared
      end
  end.

(* ---------------------------------------------------------------- Mesh.WeldByFloat3Attribute *)
Section Weld.
  Context {K : Type} (keq : K -> K -> bool) (keyf : vec -> K).
  Fixpoint first_idx (k : K) (ks : list K) : nat :=
    match ks with [] => 0 | x :: r => if keq k x then 0 else S (first_idx k r) end.
  (* first vertex (in array order) whose key equals the key of vertex v *)
  Definition rep (d : list vec) (v : nat) : nat := first_idx (keyf (nth v d [])) (map keyf d).
  Definition distinct3 (d : list vec) (t : list nat) : bool :=
    match t with
    | [a; b; c] =>
        let ka := keyf (nth a d []) in let kb := keyf (nth b d []) in let kc := keyf (nth c d []) in
        negb (keq ka kb) && negb (keq ka kc) && negb (keq kb kc)
    | _ => false
    end.
  Definition weld_idx (d : list vec) (idx : list nat) : list nat :=
    map (rep d) (concat (filter (distinct3 d) (chunk3 idx))).
  Definition weld (a : N) (m : mesh) : res :=
    match lookup (3%N, a) (attrs m), topology m with
    | Some d, Triangle =>
        Ok [remove_unref_with false (set_materials (set_indices m (weld_idx d (indices m))) [])]
    | _, _ => Declared
    end.
End Weld.

(* modeling.Vector3ToInt for integer coordinates: decimalPlace >= 0 is injective (dv = 1),
   decimalPlace = -k rounds x / 10^k half away from zero (dv = 10^k) *)
Definition round_div (dv x : Z) : Z :=
  if (dv =? 1)%Z then x else (Z.sgn x * ((2 * Z.abs x + dv) / (2 * dv)))%Z.
Definition round_key (dv : Z) (v : vec) : vec := map (round_div dv) v.

(* ---------------------------------------------------------------- single-attribute transforms *)
Definition modify_attr (k : key) (f : list vec -> list vec) (m : mesh) : res :=
  match lookup k (attrs m) with
  | Some d => Ok [set_attr k (f d) m]
  | None => Declared
  end.

Definition translate_v (amount v : vec) : vec := vzip Z.add v amount.
Definition scale_v (origin amount v : vec) : vec :=
  vzip Z.add origin (vzip Z.mul (vzip Z.sub v origin) amount).
(* quaternion.Rotate: v' = qv*(2 qv.v) + v*(w^2 - qv.qv) + (qv x v)*(2w)  (polynomial, no normalisation) *)
Definition rotate_v (q v : vec) : vec :=
  match q with
  | [qx; qy; qz; qw] =>
      let qv := [qx; qy; qz] in
      let s1 := (2 * dot qv v)%Z in
      let s2 := (qw * qw - dot qv qv)%Z in
      let s3 := (2 * qw)%Z in
      vzip Z.add (vzip Z.add (map (Z.mul s1) qv) (map (Z.mul s2) v)) (map (Z.mul s3) (cross qv v))
  | _ => v
  end.
(* trs.TRS.Transform: rotation.Rotate(scale * v) + position *)
Definition trs_v (t : vec * vec * vec) (v : vec) : vec :=
  let '(p, s, q) := t in vzip Z.add (rotate_v q (vzip Z.mul s v)) p.
(* CenterFloat3Attribute: subtract the midpoint of the bounding box (exact for even coordinates) *)
Definition center_data (d : list vec) : list vec :=
  match d with
  | [] => []
  | v0 :: r =>
      let mn := fold_left (vzip Z.min) r v0 in
      let mx := fold_left (vzip Z.max) r v0 in
      let mid := map (fun x => (x / 2)%Z) (vzip Z.add mn mx) in
      map (fun v => vzip Z.sub v mid) d
  end.

Definition translate (a : N) (amount : vec) := modify_attr (3%N, a) (map (translate_v amount)).
Definition scale3 (a : N) (origin amount : vec) := modify_attr (3%N, a) (map (scale_v origin amount)).
Definition scale2 (a : N) (origin amount : vec) := modify_attr (2%N, a) (map (scale_v origin amount)).
Definition rotate (a : N) (q : vec) := modify_attr (3%N, a) (map (rotate_v q)).
Definition apply_trs (pos : N) (t : vec * vec * vec) := modify_attr (3%N, pos) (map (trs_v t)).
Definition center (a : N) := modify_attr (3%N, a) center_data.

(* ---------------------------------------------------------------- meshops.ScaleAttributeAlongNormal *)
(* v_i := v_i + n_i * amount, n = the values of a second 3-component attribute (polynomial: exact on
   integers, so this operation is in the exact language, not among the float-valued frame operations) *)
Definition along_normal (amt : Z) (dn d : list vec) : list vec :=
  map (fun p => vzip Z.add (snd p) (map (Z.mul amt) (nth (fst p) dn []))) (combine (seq 0 (length d)) d).
Definition scale_along_normal (a nrm : N) (amt : Z) (m : mesh) : res :=
  match lookup (3%N, nrm) (attrs m) with
  | Some dn => modify_attr (3%N, a) (along_normal amt dn) m
  | None => Declared
  end.

(* ---------------------------------------------------------------- meshops.SliceByPlaneWithAttribute *)
(* [clip] abstracts "plane.Normal().Dot(v - plane.Origin()) < 0".  First result ("above"): the triangles
   all three corners of which are clipped; second ("below"): those none of whose corners is; triangles the
   plane passes through belong to neither.  Both keep the material list and drop unreferenced vertices.
   After the repair fixes/C02-slice-requires-triangles: other topologies and a missing attribute are a
   declared failure (the pinned code walks ANY index list in threes and keeps the topology). *)
Definition slice (a : N) (clip : vec -> bool) (m : mesh) : res :=
  match topology m, lookup (3%N, a) (attrs m) with
  | Triangle, Some d =>
      Ok [remove_unref (set_indices m (filter_idx Triangle (fun i => clip (nth i d [])) (indices m)));
          remove_unref (set_indices m (filter_idx Triangle (fun i => negb (clip (nth i d []))) (indices m)))]
  | _, _ => Declared
  end.
(* the plane test on integer coordinates: the plane through point [o] with (unnormalised) normal [n];
   sign (n . (v - o)) = sign of the Go expression, whose normal is n / |n| and whose origin is the foot point *)
Definition plane_clip (n o v : vec) : bool := (dot n (vzip Z.sub v o) <? 0)%Z.

(* ---------------------------------------------------------------- repeat.Mesh *)
Fixpoint repeat_from (pos : N) (acc m : mesh) (ts : list (vec * vec * vec)) : res :=
  match ts with
  | [] => Ok [acc]
  | t :: ts' =>
      match apply_trs pos t m with
      | Ok [c] => match append acc c with
                  | Ok [acc'] => repeat_from pos acc' m ts'
                  | r => r
                  end
      | r => r
      end
  end.
Definition repeat_mesh (pos : N) (m : mesh) (ts : list (vec * vec * vec)) : res :=
  repeat_from pos (empty_mesh (topology m)) m ts.

(* ---------------------------------------------------------------- operation language *)
Inductive op :=
| OAppend                                   (* two inputs *)
| OUnweld
| ORemoveUnref
| ORemoveNull (a : N) (keep : list vec -> bool)
| OFlip
| OToPoints
| OFilter (k : key) (pred : vec -> bool)
| OCrop (a : N) (lo hi : vec)
| OSplit
| OWeld (a : N) (keyf : vec -> vec)
| OSetIndices (idx : list nat)
| OSetAttr (k : key) (d : list vec)
| OSetMaterials (ms : list (nat * N))
| ORepeat (pos : N) (ts : list (vec * vec * vec))
| OTranslate (a : N) (v : vec)
| OScale3 (a : N) (origin amount : vec)
| OScale2 (a : N) (origin amount : vec)
| ORotate (a : N) (q : vec)
| OApplyTRS (pos : N) (t : vec * vec * vec)
| OCenter (a : N)
| OSlice (a : N) (clip : vec -> bool)
| OScaleAlongNormal (a nrm : N) (amt : Z).

Definition step (o : op) (ins : list mesh) : res :=
  match o, ins with
  | OAppend, [a; b] => append a b
  | OUnweld, [m] => Ok [unweld m]
  | ORemoveUnref, [m] => Ok [remove_unref m]
  | ORemoveNull a keep, [m] => remove_null a keep m
  | OFlip, [m] => flip m
  | OToPoints, [m] => Ok [to_points m]
  | OFilter k p, [m] => filter_attr k p m
  | OCrop a lo hi, [m] => crop a lo hi m
  | OSplit, [m] => split m
  | OWeld a kf, [m] => weld vec_eqb kf a m
  | OSetIndices idx, [m] => Ok [set_indices m idx]
  | OSetAttr k d, [m] => Ok [set_attr k d m]
  | OSetMaterials ms, [m] => Ok [set_materials m ms]
  | ORepeat pos ts, [m] => repeat_mesh pos m ts
  | OTranslate a v, [m] => translate a v m
  | OScale3 a o' s, [m] => scale3 a o' s m
  | OScale2 a o' s, [m] => scale2 a o' s m
  | ORotate a q, [m] => rotate a q m
  | OApplyTRS pos t, [m] => apply_trs pos t m
  | OCenter a, [m] => center a m
  | OSlice a clip, [m] => slice a clip m
  | OScaleAlongNormal a nrm amt, [m] => scale_along_normal a nrm amt m
  | _, _ => Declared
  end.

(* the raw setters take caller data: these are the side conditions under which the caller's data
   fits the mesh (everything else needs only well-formed inputs) *)
Definition op_pre (o : op) (ins : list mesh) : bool :=
  match o, ins with
  | OSetIndices idx, [m] => forallb (fun i => i <? nverts m) idx && count_okb (topology m) (length idx)
  | OSetAttr k d, [m] =>
      match d with
      | [] => is_nil (indices m)                 (* deletion: nothing may reference the vertices *)
      | _ => (length d =? nverts m) || (is_nil (attrs m) && is_nil (indices m))
      end
  | _, _ => true
  end.

(* histories: every op names its arguments by position in the pool and appends its results *)
Fixpoint pick (pool : list mesh) (args : list nat) : option (list mesh) :=
  match args with
  | [] => Some []
  | i :: r => match nth_error pool i, pick pool r with
              | Some m, Some ms => Some (m :: ms)
              | _, _ => None
              end
  end.
Fixpoint run (h : list (op * list nat)) (pool : list mesh) : list mesh :=
  match h with
  | [] => pool
  | (o, args) :: h' =>
      match pick pool args with
      | Some ins => if op_pre o ins
                    then match step o ins with Ok ms => run h' (pool ++ ms) | _ => run h' pool end
                    else run h' pool
      | None => run h' pool
      end
  end.

(* ---------------------------------------------------------------- equality (correspondence) *)
Definition attr_eqb (a b : attr) : bool := key_eqb (fst a) (fst b) && list_eqb vec_eqb (snd a) (snd b).
Definition mat_eqb (a b : nat * N) : bool := Nat.eqb (fst a) (fst b) && N.eqb (snd a) (snd b).
Definition mesh_eqb (a b : mesh) : bool :=
  topo_eqb (topology a) (topology b) && list_eqb Nat.eqb (indices a) (indices b)
  && list_eqb mat_eqb (materials a) (materials b) && list_eqb attr_eqb (attrs a) (attrs b).
Definition res_eqb (a b : res) : bool :=
  match a, b with
  | Ok x, Ok y => list_eqb mesh_eqb x y
  | Declared, Declared => true
  | Crash, Crash => true
  | _, _ => false
  end.
