(* C01 — heap model of modeling.Mesh: Go slices into an append-only table of backing arrays.
   Every mesh operation is modelled at the level of WHICH ARRAYS IT READS, ALLOCATES, SHARES AND
   WRITES, read off /repo/modeling/mesh.go, modeling/meshops/*.go, modeling/repeat/repeat.go and
   modeling/primitives/cube.go line by line.  No proofs in this file (see HeapProofs.v).

   cell    one Go element: an int index [i], a float64 [x], a vectorN [x;y;..], a MeshMaterial
           [PrimitiveCount; material id].  Payloads are opaque integers (the harness encodes float64
           values injectively into Z; integer-valued floats are themselves).
   heap    list of backing arrays; an address is a position in the list; allocation appends at the end,
           nothing is ever freed.  Address 0 is Go's zerobase (what make([]T,0) points to), address 1 is
           the package-level array primitives.cubeVertIndices.
   slice   {ptr; len; cap}: the first len cells of array ptr, which has cap cells.  (No operation of the
           modelled API re-slices, so the offset into the array is always 0 and is left out.)
   grow    the runtime's growth policy for append: a Section variable, nothing is assumed about it here.
   maps    Go maps are REFERENCES: a mesh as Go holds it (gmesh) names its four attribute maps by ids into a table
           of maps (mheap; id 0 = the nil map).  [map_plan] says, per operation and attribute dimension, whether the
           result shares the receiver's map, gets a freshly made one, or nil.  No operation of the repaired tree writes
           an existing map; the defect class "an operation stores into a map another mesh shares" is [step_pad]. *)
From Coq Require Import List NArith ZArith Bool Arith Lia.
Import ListNotations.

Definition cell := list Z.
Definition heap := list (list cell).
Record slice := mkSlice { ptr : nat; len : nat; cap : nat }.
Definition nil_slice := mkSlice 0 0 0.            (* nil, and make([]T,0): no cells *)

Definition arr (h : heap) (p : nat) : list cell := nth p h [].
Definition read (h : heap) (s : slice) : list cell := firstn (len s) (arr h (ptr s)).

Fixpoint upd {A} (l : list A) (i : nat) (v : A) : list A :=
  match l, i with
  | [], _ => []
  | _ :: t, O => v :: t
  | x :: t, S i' => x :: upd t i' v
  end.

(* a[i] = v on backing array p *)
Definition store (h : heap) (p i : nat) (v : cell) : heap := upd h p (upd (arr h p) i v).
Fixpoint store_list (h : heap) (p i : nat) (xs : list cell) : heap :=
  match xs with [] => h | x :: r => store_list (store h p i x) p (S i) r end.

Fixpoint map_range {A} (f : A -> A) (from to : nat) (l : list A) : list A :=
  match l with
  | [] => []
  | x :: t =>
      match to with
      | O => l
      | S to' => match from with
                 | O => f x :: map_range f O to' t
                 | S from' => x :: map_range f from' to' t
                 end
      end
  end.

Definition cell_add (d : Z) (c : cell) : cell :=
  match c with x :: r => (x + d)%Z :: r | [] => [] end.
Definition cell_nat (c : cell) : nat := match c with x :: _ => Z.to_nat x | [] => O end.
Definition nat_cell (n : nat) : cell := [Z.of_nat n].

Inductive topology := Triangle | Point | Quad | Line | LineStrip | LineLoop.
Definition topo_eqb (a b : topology) : bool :=
  match a, b with
  | Triangle, Triangle | Point, Point | Quad, Quad | Line, Line | LineStrip, LineStrip | LineLoop, LineLoop => true
  | _, _ => false
  end.
Definition index_size (t : topology) : nat :=
  match t with Triangle => 3 | Point => 1 | Quad => 4 | _ => 2 end.

(* attribute maps: name id -> slice, kept sorted by name (the order Float3Attributes() reports).  Go maps are
   modelled as values: no function of the modelled API writes into a map it did not create itself. *)
Definition amap := list (N * slice).
Fixpoint amap_get (a : amap) (k : N) : option slice :=
  match a with [] => None | (k', s) :: t => if N.eqb k k' then Some s else amap_get t k end.
Fixpoint amap_set (a : amap) (k : N) (s : slice) : amap :=
  match a with
  | [] => [(k, s)]
  | (k', s') :: t => if N.eqb k k' then (k, s) :: t
                     else if N.ltb k k' then (k, s) :: a else (k', s') :: amap_set t k s
  end.
Fixpoint amap_del (a : amap) (k : N) : amap :=
  match a with [] => [] | (k', s) :: t => if N.eqb k k' then t else (k', s) :: amap_del t k end.
Definition amap_mem (a : amap) (k : N) : bool := match amap_get a k with Some _ => true | None => false end.

Inductive kind := K1 | K2 | K3 | K4.
Definition kinds := [K4; K3; K2; K1].
Definition kdim (k : kind) : nat := match k with K1 => 1 | K2 => 2 | K3 => 3 | K4 => 4 end.
Definition zero_of (k : kind) : cell := repeat 0%Z (kdim k).

Record mesh := mkMesh { topo : topology; idx : slice; mats : slice; v1 : amap; v2 : amap; v3 : amap; v4 : amap }.
Definition vget (m : mesh) (k : kind) : amap :=
  match k with K1 => v1 m | K2 => v2 m | K3 => v3 m | K4 => v4 m end.
Definition vset (m : mesh) (k : kind) (a : amap) : mesh :=
  match k with
  | K1 => mkMesh (topo m) (idx m) (mats m) a (v2 m) (v3 m) (v4 m)
  | K2 => mkMesh (topo m) (idx m) (mats m) (v1 m) a (v3 m) (v4 m)
  | K3 => mkMesh (topo m) (idx m) (mats m) (v1 m) (v2 m) a (v4 m)
  | K4 => mkMesh (topo m) (idx m) (mats m) (v1 m) (v2 m) (v3 m) a
  end.

(* Mesh.AttributeLength: the first attribute found, looking at v4, v3, v2, v1 in that order *)
Definition attr_length (m : mesh) : nat :=
  match v4 m, v3 m, v2 m, v1 m with
  | (_, s) :: _, _, _, _ => len s
  | [], (_, s) :: _, _, _ => len s
  | [], [], (_, s) :: _, _ => len s
  | [], [], [], (_, s) :: _ => len s
  | [], [], [], [] => O
  end.

(* what a caller can see of a mesh: Topology, Indices, Materials, FloatNAttributes + FloatNAttribute *)
Record obs := mkObs { o_topo : topology; o_idx : list cell; o_mats : list cell;
                      o_v1 : list (N * list cell); o_v2 : list (N * list cell);
                      o_v3 : list (N * list cell); o_v4 : list (N * list cell) }.
Definition read_map (h : heap) (a : amap) : list (N * list cell) := map (fun e => (fst e, read h (snd e))) a.
Definition observe (h : heap) (m : mesh) : obs :=
  mkObs (topo m) (read h (idx m)) (read h (mats m))
        (read_map h (v1 m)) (read_map h (v2 m)) (read_map h (v3 m)) (read_map h (v4 m)).

Inductive status := Ok | Declared | Crash.
Inductive result := RNew (h : heap) (m : mesh) | RMany (h : heap) (ms : list mesh) | RSame (h : heap) | RErr (c : status).

(* contents of the fresh array of Modify / Translate / Scale / Rotate / ApplyTRS / meshops attribute transformers /
   normals: exact integer arithmetic where the harness keeps Go's float arithmetic exact, otherwise the values
   the implementation produced (C01 is about sharing, not about values) *)
Inductive mapfn := FAdd (d : list Z) | FMul (d : list Z) | FConst (vals : list cell).
Fixpoint zip_with (f : Z -> Z -> Z) (a b : list Z) : list Z :=
  match a, b with x :: a', y :: b' => f x y :: zip_with f a' b' | _, _ => a end.
Definition apply_fn (f : mapfn) (old : list cell) : list cell :=
  match f with
  | FAdd d => map (fun c => zip_with Z.add c d) old
  | FMul d => map (fun c => zip_with Z.mul c d) old
  | FConst vals => firstn (length old) vals ++ repeat [] (length old - length vals)
  end.

Inductive op :=
| ONew (t : topology) (ix : list cell) (spare : nat)             (* modeling.NewMesh(t, caller's slice) *)
| OEmpty (t : topology)                                          (* modeling.EmptyMesh(t) *)
| OCube (pid nid : N) (pos nrm : list cell)                      (* primitives.Cube{..}.Welded(): indices = the package-level array *)
| OAppend (i j : nat)                                            (* pool[i].Append(pool[j]) *)
| OSetAttr (k : kind) (i : nat) (name : N) (data : list cell) (spare : nat)   (* SetFloatKAttribute(name, caller's slice) *)
| OCopyAttr (k : kind) (i j : nat) (name : N)                    (* pool[i].CopyFloatKAttribute(pool[j], name) *)
| OSetIndices (i : nat) (ix : list cell) (spare : nat)
| OSetMaterial (i : nat) (mat : Z)
| OSetMaterials (i : nat) (ms : list cell) (spare : nat)
| OClearAttrs (i : nat)                                          (* ClearAttributeData *)
| OMap (k : kind) (i : nat) (src dst : N) (req : list topology) (tris : bool) (f : mapfn)
      (* Modify* / Translate / Scale / Rotate / ApplyTRS / meshops attribute transformers / normals / smoothing:
         needs attribute src (and a topology of req; tris: walks the index list three at a time), writes a fresh
         array of len(src) cells, stores it under dst *)
| OToPoints (i : nat)
| OFlip (i : nat)
| OUnweld (i : nat)
| ORemoveUnref (i : nat)
| OWeld (i : nat) (name : N) (newidx : list cell) (keep : list nat)
| ORepeat (i : nat) (pid : N) (vals : list (list cell))          (* repeat.Mesh: one transformed Position array per TRS *)
| OExport (fmt : nat) (i : nat)                                  (* ply / obj / gltf / stl writers: read only *)
| OSetData (k : kind) (i : nat) (cont : list (N * list cell))   (* SetFloatKData(caller's map of caller's slices): the whole map is replaced *)
| OIdent (i : nat)
      (* operations that hand back their receiver: Scan*Attribute*, ScanPrimitives*, Transform() without transformers,
         RemoveNullFaces3D when nothing is removed, SplitOnUniqueMaterials with fewer than two materials, a
         VertexColorSpaceTransformer that skips a missing attribute *)
| OFilter (k : kind) (i : nat) (name : N) (req : list topology) (keepidx : list cell)
      (* meshops.FilterFloatK / RemoveNullFaces3D: needs attribute name (and a topology of req);
         RemovedUnreferencedVertices(m.SetIndices(the kept indices, appended one by one)) *)
| OCrop (i : nat) (name : N) (keep : list nat)                   (* meshops.CropFloat3Attribute: the vertices kept, NewPointCloud *)
| OMulti (i : nat) (name : option N) (req : list topology) (parts : list (list cell * option Z))
      (* meshops.SliceByPlaneWithAttribute (two parts, materials shared) and SplitOnUniqueMaterials (one part per
         material, own material entry): attribute data copied once (readAllFloatNData), per part an index list
         appended three at a time, then RemovedUnreferencedVertices *)
| OBuild (t : topology) (ix : list cell) (ms : list cell) (c1 c2 c3 c4 : list (N * list cell))
      (* a mesh assembled from data the caller (or a generator function) made for it: modeling.NewPointCloud /
         NewLineStripMesh (caller's maps of caller's slices; empty arrays dropped, identity indices), the primitives
         (Quad, Circle, Cone, Cylinder, UVSphere, Hemisphere, Cube.UnweldedQuads), extrude.*, triangulation.*: every
         array of the result is new *)
| OShareMats (i j : nat).
      (* pool[i].SetMaterials(pool[j].Materials()): Materials() hands out the mesh's own slice, so the result shares
         j's material array (spare capacity included) *)

(* a mesh value as Go holds it: slices by value, maps by reference *)
Record gmesh := mkG { g_topo : topology; g_idx : slice; g_mats : slice; g_v1 : nat; g_v2 : nat; g_v3 : nat; g_v4 : nat }.
Definition mheap := list amap.
Definition mget (mh : mheap) (id : nat) : amap := nth id mh [].
Definition gid (g : gmesh) (k : kind) : nat :=
  match k with K1 => g_v1 g | K2 => g_v2 g | K3 => g_v3 g | K4 => g_v4 g end.
(* dereference the maps: the mesh the operations of this file compute with *)
Definition load (mh : mheap) (g : gmesh) : mesh :=
  mkMesh (g_topo g) (g_idx g) (g_mats g) (mget mh (g_v1 g)) (mget mh (g_v2 g)) (mget mh (g_v3 g)) (mget mh (g_v4 g)).
Definition nilg : gmesh := mkG Triangle (mkSlice 0 0 0) (mkSlice 0 0 0) 0 0 0 0.

Record state := mkState { heap_of : heap; maps_of : mheap; pool : list gmesh }.

Definition cube_indices : list cell :=
  map nat_cell [0;2;6; 0;6;4; 1;3;2; 1;2;0; 4;6;7; 4;7;5; 2;3;7; 2;7;6; 1;0;4; 1;4;5; 5;7;3; 5;3;1].
Definition cube_slice := mkSlice 1 36 36.
Definition init : state := mkState [[]; cube_indices] [[]] [].

(* ---- which attribute maps a result shares with its receiver (read off the code) ------------------------------
   MShare: the struct field is copied (value receiver returning Mesh{v3Data: m.v3Data, ...});
   MFresh: make(map...) filled by this operation (SetFloatNAttribute copies the entries into a new map; SetFloatNData
           stores the caller's new map; Append, Unweld, Weld, ... build every map anew);
   MNil:   ClearAttributeData. *)
Inductive mapsrc := MShare | MFresh | MNil.
Definition kind_eqb (a b : kind) : bool :=
  match a, b with K1, K1 | K2, K2 | K3, K3 | K4, K4 => true | _, _ => false end.
Definition map_plan (o : op) (k : kind) : mapsrc :=
  match o with
  | OSetAttr k' _ _ _ _ | OCopyAttr k' _ _ _ | OMap k' _ _ _ _ _ _ | OSetData k' _ _ => if kind_eqb k k' then MFresh else MShare
  | OSetIndices _ _ _ | OSetMaterial _ _ | OSetMaterials _ _ _ | OToPoints _ | OFlip _ | OIdent _ | OExport _ _
  | OShareMats _ _ => MShare
  | OClearAttrs _ => MNil
  | _ => MFresh
  end.
(* the receiver *)
Definition operand (o : op) : nat :=
  match o with
  | ONew _ _ _ | OEmpty _ | OCube _ _ _ _ | OBuild _ _ _ _ _ _ _ => 0
  | OAppend i _ | OSetAttr _ i _ _ _ | OCopyAttr _ i _ _ | OSetIndices i _ _ | OSetMaterial i _ | OSetMaterials i _ _
  | OClearAttrs i | OMap _ i _ _ _ _ _ | OToPoints i | OFlip i | OUnweld i | ORemoveUnref i | OWeld i _ _ _
  | ORepeat i _ _ | OExport _ i | OSetData _ i _ | OIdent i | OFilter _ i _ _ _ | OCrop i _ _ | OMulti i _ _ _
  | OShareMats i _ => i
  end.

Definition place (mh : mheap) (pl : mapsrc) (shared : nat) (a : amap) : mheap * nat :=
  match pl with
  | MShare => (mh, shared)
  | MNil => (mh, 0)
  | MFresh => (mh ++ [a], length mh)
  end.
(* the result [m] of an operation becomes a pool member: its maps are shared, made, or nil as the plan says *)
Definition commit (mh : mheap) (o : op) (g0 : gmesh) (m : mesh) : mheap * gmesh :=
  let (mh1, i1) := place mh (map_plan o K1) (g_v1 g0) (v1 m) in
  let (mh2, i2) := place mh1 (map_plan o K2) (g_v2 g0) (v2 m) in
  let (mh3, i3) := place mh2 (map_plan o K3) (g_v3 g0) (v3 m) in
  let (mh4, i4) := place mh3 (map_plan o K4) (g_v4 g0) (v4 m) in
  (mh4, mkG (topo m) (idx m) (mats m) i1 i2 i3 i4).
Fixpoint commit_all (mh : mheap) (o : op) (g0 : gmesh) (ms : list mesh) : mheap * list gmesh :=
  match ms with
  | [] => (mh, [])
  | m :: r => let (mh1, g) := commit mh o g0 m in
              let (mh2, gs) := commit_all mh1 o g0 r in (mh2, g :: gs)
  end.

Section Model.
Variable grow : nat -> nat -> nat.      (* new capacity when cap c does not hold n elements *)

(* make([]T, |xs|, |xs|+spare) filled with xs — by the caller or by the operation itself *)
Definition new_slice (h : heap) (xs : list cell) (spare : nat) : heap * slice :=
  (h ++ [xs ++ repeat [] spare], mkSlice (length h) (length xs) (length xs + spare)).

(* Go's append(s, xs...): in place when the capacity suffices, otherwise a new array of grow cap n cells *)
Definition go_append (h : heap) (s : slice) (xs : list cell) : heap * slice :=
  let n := len s + length xs in
  if n <=? cap s then (store_list h (ptr s) (len s) xs, mkSlice (ptr s) n (cap s))
  else let c := grow (cap s) n in
       (h ++ [read h s ++ xs ++ repeat [] (c - n)], mkSlice (length h) n c).

Fixpoint append_chunks (h : heap) (s : slice) (cs : list (list cell)) : heap * slice :=
  match cs with
  | [] => (h, s)
  | c :: r => let (h', s') := go_append h s c in append_chunks h' s' r
  end.
(* s = append(s, x) once per element *)
Definition append_each (h : heap) (s : slice) (xs : list cell) : heap * slice :=
  append_chunks h s (map (fun x => [x]) xs).
Definition append_n (h : heap) (s : slice) (x : cell) (n : nat) : heap * slice := append_each h s (repeat x n).

(* for i := from; i < len(s); i++ { s[i] += d } *)
Definition add_range (h : heap) (s : slice) (from : nat) (d : Z) : heap :=
  upd h (ptr s) (map_range (cell_add d) from (len s) (arr h (ptr s))).

(* one attribute map built from scratch: per key, make([]T,0) and one append per chunk *)
Fixpoint build_map (h : heap) (cont : list (N * list (list cell))) (drop_empty : bool) : heap * amap :=
  match cont with
  | [] => (h, [])
  | (name, chunks) :: r =>
      let (h1, s) := append_chunks h nil_slice chunks in
      let (h2, a) := build_map h1 r drop_empty in
      (h2, if drop_empty && (len s =? 0) then a else amap_set a name s)
  end.

(* a map handed in by the caller: one caller-allocated array per entry *)
Fixpoint alloc_map (h : heap) (cont : list (N * list cell)) : heap * amap :=
  match cont with
  | [] => (h, [])
  | (name, xs) :: r =>
      let (h1, s) := new_slice h xs 0 in
      let (h2, a) := alloc_map h1 r in
      (h2, amap_set a name s)
  end.

(* readAllFloatNData: per attribute iter.ReadFull = make([]T,0) and one append per element *)
Definition copy_map (h : heap) (a : amap) : heap * amap :=
  build_map h (map (fun e => (fst e, map (fun x => [x]) (read h (snd e)))) a) false.

(* ---- Mesh.Append ------------------------------------------------------------------------------------- *)
(* appendData, first loop (over the receiver's attributes).
   fixed  (HEAD, after 8f84317): finalData[atr] = append(make([]T, 0, aLen+bLen), data...)
   pinned (ea40ecc):             finalData[atr] = data                       — an alias of the receiver's slice *)
Fixpoint append_data1 (fixed : bool) (k : kind) (h : heap) (a b : amap) (aLen bLen : nat) : heap * amap :=
  match a with
  | [] => (h, [])
  | (name, data) :: r =>
      let (h1, s1) := if fixed then (let (h0, s0) := new_slice h [] (aLen + bLen) in go_append h0 s0 (read h0 data))
                      else (h, data) in
      let (h2, s2) := if amap_mem b name then (h1, s1) else append_n h1 s1 (zero_of k) bLen in
      let (h3, fd) := append_data1 fixed k h2 r b aLen bLen in
      (h3, amap_set fd name s2)
  end.
(* second loop (over the argument's attributes); same code on both trees *)
Fixpoint append_data2 (k : kind) (h : heap) (fd : amap) (b : amap) (aLen : nat) : heap * amap :=
  match b with
  | [] => (h, fd)
  | (name, data) :: r =>
      let (h1, s1) := match amap_get fd name with
                      | Some s => (h, s)
                      | None => append_n h nil_slice (zero_of k) aLen
                      end in
      let (h2, s2) := go_append h1 s1 (read h1 data) in
      append_data2 k h2 (amap_set fd name s2) r aLen
  end.
Definition append_data (fixed : bool) (k : kind) (h : heap) (a b : amap) (aLen bLen : nat) : heap * amap :=
  let (h1, fd) := append_data1 fixed k h a b aLen bLen in append_data2 k h1 fd b aLen.

(* finalTris / finalMaterials.  fixed: make([]T, 0, la+lb), append a, append b.  pinned: append(a, b...) *)
Definition append_slices (fixed : bool) (h : heap) (a b : slice) : heap * slice :=
  if fixed then
    let (h0, s0) := new_slice h [] (len a + len b) in
    let (h1, s1) := go_append h0 s0 (read h0 a) in
    go_append h1 s1 (read h1 b)
  else go_append h a (read h b).

Definition mesh_append (fixed : bool) (h : heap) (m o : mesh) : heap * mesh :=
  let mLen := attr_length m in
  let oLen := attr_length o in
  let (h1, f1) := append_data fixed K1 h (v1 m) (v1 o) mLen oLen in
  let (h2, f2) := append_data fixed K2 h1 (v2 m) (v2 o) mLen oLen in
  let (h3, f3) := append_data fixed K3 h2 (v3 m) (v3 o) mLen oLen in
  let (h4, f4) := append_data fixed K4 h3 (v4 m) (v4 o) mLen oLen in
  let (h5, tris) := append_slices fixed h4 (idx m) (idx o) in
  let (h6, ms) := append_slices fixed h5 (mats m) (mats o) in
  let h7 := add_range h6 tris (len (idx m)) (Z.of_nat mLen) in
  (h7, mkMesh (topo m) tris ms f1 f2 f3 f4).

(* ---- SetFloatNAttribute: a new map, the untouched maps and slices are shared, the given slice is stored -- *)
Definition set_attr (m : mesh) (k : kind) (name : N) (s : slice) : mesh :=
  vset m k (if len s =? 0 then amap_del (vget m k) name else amap_set (vget m k) name s).

(* ---- gathers (contents of the rebuilt arrays) -------------------------------------------------------- *)
Definition idx_nats (h : heap) (m : mesh) : list nat := map cell_nat (read h (idx m)).
Definition gather (vals : list cell) (is : list nat) : list cell := map (fun i => nth i vals []) is.
Definition all_below (is : list nat) (n : nat) : bool := forallb (fun i => i <? n) is.
Definition maps_in_range (h : heap) (m : mesh) (is : list nat) : bool :=
  forallb (fun k => forallb (fun e => all_below is (len (snd e))) (vget m k)) kinds.

Definition singles (xs : list cell) : list (list cell) := map (fun x => [x]) xs.
Fixpoint triples (xs : list cell) : list (list cell) :=
  match xs with a :: b :: c :: r => [a; b; c] :: triples r | _ => [] end.

Definition gather_map (h : heap) (a : amap) (is : list nat) : list (N * list (list cell)) :=
  map (fun e => (fst e, singles (gather (read h (snd e)) is))) a.

(* four maps rebuilt; everything else supplied by the caller *)
Definition rebuild (h : heap) (m : mesh) (is : list nat) (drop_empty : bool) (t : topology) (ix ms : slice) : heap * mesh :=
  let (h1, f4) := build_map h (gather_map h (v4 m) is) drop_empty in
  let (h2, f3) := build_map h1 (gather_map h (v3 m) is) drop_empty in
  let (h3, f2) := build_map h2 (gather_map h (v2 m) is) drop_empty in
  let (h4, f1) := build_map h3 (gather_map h (v1 m) is) drop_empty in
  (h4, mkMesh t ix ms f1 f2 f3 f4).

(* meshops.RemovedUnreferencedVertices *)
Definition used_flags (is : list nat) (n : nat) : list bool := map (fun v => existsb (Nat.eqb v) is) (seq 0 n).
Definition kept_vertices (used : list bool) : list nat :=
  map fst (filter (fun p => snd p) (combine (seq 0 (length used)) used)).
Definition shift_of (used : list bool) (i : nat) : nat := length (filter negb (firstn (S i) used)).

Fixpoint flip3 (xs : list cell) : list cell :=
  match xs with a :: b :: c :: r => b :: a :: c :: flip3 r | _ => [] end.

Definition with_idx (m : mesh) (s : slice) : mesh := mkMesh (topo m) s (mats m) (v1 m) (v2 m) (v3 m) (v4 m).
Definition with_mats (m : mesh) (s : slice) : mesh := mkMesh (topo m) (idx m) s (v1 m) (v2 m) (v3 m) (v4 m).

(* meshops.RemovedUnreferencedVertices; None = index out of range (runtime panic) *)
Definition remove_unref (h : heap) (m : mesh) : option (heap * mesh) :=
  let is := idx_nats h m in
  let n := attr_length m in
  if all_below is n then
    let used := used_flags is n in
    let (h1, r) := rebuild h m (kept_vertices used) true (topo m) nil_slice (mats m) in
    let (h2, s) := new_slice h1 (map (fun i => nat_cell (i - shift_of used i)) is) 0 in
    Some (h2, with_idx r s)
  else None.

(* SliceByPlane / SplitOnUniqueMaterials: one result per part *)
Fixpoint multi_loop (h : heap) (m : mesh) (parts : list (list cell * option Z)) : option (heap * list mesh) :=
  match parts with
  | [] => Some (h, [])
  | (ix, omat) :: r =>
      let (h1, s) := append_chunks h nil_slice (triples ix) in
      let (h2, ms) := match omat with
                      | None => (h1, mats m)
                      | Some mat => new_slice h1 [[Z.of_nat (len s / index_size (topo m)); mat]] 0
                      end in
      match remove_unref h2 (with_mats (with_idx m s) ms) with
      | Some (h3, x) =>
          match multi_loop h3 m r with
          | Some (h4, xs) => Some (h4, x :: xs)
          | None => None
          end
      | None => None
      end
  end.

Definition has_topo (req : list topology) (t : topology) : bool :=
  match req with [] => true | _ => existsb (topo_eqb t) req end.

(* repeat.Mesh: result := EmptyMesh; for each TRS: result = result.Append(mesh.ApplyTRS(trs)) *)
Fixpoint repeat_loop (fixed : bool) (h : heap) (src acc : mesh) (pid : N) (vals : list (list cell)) : heap * mesh :=
  match vals with
  | [] => (h, acc)
  | v :: r =>
      let n := match amap_get (v3 src) pid with Some s => len s | None => O end in
      let (h1, s) := new_slice h (apply_fn (FConst v) (repeat [] n)) 0 in
      let (h2, acc') := mesh_append fixed h1 acc (set_attr src K3 pid s) in
      repeat_loop fixed h2 src acc' pid r
  end.

Definition exec (fixed : bool) (h : heap) (p : list mesh) (o : op) : result :=
  let get i := nth_error p i in
  match o with
  | ONew t ix spare =>
      let (h1, s) := new_slice h ix spare in RNew h1 (mkMesh t s nil_slice [] [] [] [])
  | OEmpty t => RNew h (mkMesh t nil_slice nil_slice [] [] [] [])
  | OCube pid nid pos nrm =>
      let (h1, sp) := new_slice h pos 0 in
      let (h2, sn) := new_slice h1 nrm 0 in
      RNew h2 (mkMesh Triangle cube_slice nil_slice [] [] (amap_set (amap_set [] pid sp) nid sn) [])
  | OAppend i j =>
      match get i, get j with
      | Some m, Some o =>
          if topo_eqb (topo m) (topo o) then let (h1, r) := mesh_append fixed h m o in RNew h1 r
          else RErr Declared
      | _, _ => RErr Declared
      end
  | OSetAttr k i name data spare =>
      match get i with
      | Some m => let (h1, s) := new_slice h data spare in RNew h1 (set_attr m k name s)
      | None => RErr Declared
      end
  | OCopyAttr k i j name =>
      match get i, get j with
      | Some m, Some src =>
          RNew h (set_attr m k name (match amap_get (vget src k) name with Some s => s | None => nil_slice end))
      | _, _ => RErr Declared
      end
  | OSetIndices i ix spare =>
      match get i with
      | Some m => let (h1, s) := new_slice h ix spare in
                  RNew h1 (mkMesh (topo m) s (mats m) (v1 m) (v2 m) (v3 m) (v4 m))
      | None => RErr Declared
      end
  | OSetMaterial i mat =>
      match get i with
      | Some m => let (h1, s) := new_slice h [[Z.of_nat (len (idx m) / index_size (topo m)); mat]] 0 in
                  RNew h1 (mkMesh (topo m) (idx m) s (v1 m) (v2 m) (v3 m) (v4 m))
      | None => RErr Declared
      end
  | OSetMaterials i ms spare =>
      match get i with
      | Some m => let (h1, s) := new_slice h ms spare in
                  RNew h1 (mkMesh (topo m) (idx m) s (v1 m) (v2 m) (v3 m) (v4 m))
      | None => RErr Declared
      end
  | OClearAttrs i =>
      match get i with
      | Some m => RNew h (mkMesh (topo m) (idx m) (mats m) [] [] [] [])
      | None => RErr Declared
      end
  | OMap k i src dst req tris f =>
      match get i with
      | Some m =>
          if has_topo req (topo m) then
            match amap_get (vget m k) src with
            | Some old =>
                if negb tris || ((len (idx m) mod 3 =? 0) && all_below (idx_nats h m) (len old)) then
                  let (h1, s) := new_slice h (apply_fn f (read h old)) 0 in RNew h1 (set_attr m k dst s)
                else RErr Crash
            | None => RErr Declared
            end
          else RErr Declared
      | None => RErr Declared
      end
  | OToPoints i =>
      match get i with
      | Some m =>
          match topo m with
          | Point => RNew h m
          | _ => let (h1, s) := new_slice h (map nat_cell (seq 0 (attr_length m))) 0 in
                 RNew h1 (mkMesh Point s (mats m) (v1 m) (v2 m) (v3 m) (v4 m))
          end
      | None => RErr Declared
      end
  | OFlip i =>
      match get i with
      | Some m =>
          if topo_eqb (topo m) Triangle then
            if len (idx m) mod 3 =? 0 then
              let (h1, s) := new_slice h (flip3 (read h (idx m))) 0 in
              RNew h1 (mkMesh (topo m) s (mats m) (v1 m) (v2 m) (v3 m) (v4 m))
            else RErr Crash
          else RErr Declared
      | None => RErr Declared
      end
  | OUnweld i =>
      match get i with
      | Some m =>
          let is := idx_nats h m in
          if maps_in_range h m is then
            let (h1, s) := new_slice h (map nat_cell (seq 0 (length is))) 0 in
            let (h2, r) := rebuild h1 m is false (topo m) s (mats m) in RNew h2 r
          else RErr Crash
      | None => RErr Declared
      end
  | ORemoveUnref i =>
      match get i with
      | Some m => match remove_unref h m with Some (h1, r) => RNew h1 r | None => RErr Crash end
      | None => RErr Declared
      end
  | OWeld i name newidx keep =>
      match get i with
      | Some m =>
          match amap_get (v3 m) name with
          | Some data =>
              if topo_eqb (topo m) Triangle then
                if (len (idx m) mod 3 =? 0) && all_below (idx_nats h m) (len data) then
                  let (h1, s) := append_chunks h nil_slice (triples newidx) in
                  let (h2, r) := rebuild h1 m keep false (topo m) s nil_slice in RNew h2 r
                else RErr Crash
              else RErr Declared
          | None => RErr Declared
          end
      | None => RErr Declared
      end
  | ORepeat i pid vals =>
      match get i with
      | Some m =>
          match vals, amap_get (v3 m) pid with
          | _ :: _, None => RErr Declared
          | _, _ => let (h1, r) := repeat_loop fixed h m (mkMesh (topo m) nil_slice nil_slice [] [] [] []) pid vals in
                    RNew h1 r
          end
      | None => RErr Declared
      end
  | OExport _ i => match get i with Some _ => RSame h | None => RErr Declared end
  | OSetData k i cont =>
      match get i with
      | Some m => let (h1, a) := alloc_map h cont in RNew h1 (vset m k a)
      | None => RErr Declared
      end
  | OIdent i => match get i with Some m => RNew h m | None => RErr Declared end
  | OFilter k i name req keepidx =>
      match get i with
      | Some m =>
          if has_topo req (topo m) then
            match amap_get (vget m k) name with
            | Some _ =>
                let (h1, s) := append_each h nil_slice keepidx in
                match remove_unref h1 (with_idx m s) with Some (h2, r) => RNew h2 r | None => RErr Crash end
            | None => RErr Declared
            end
          else RErr Declared
      | None => RErr Declared
      end
  | OCrop i name keep =>
      match get i with
      | Some m =>
          if topo_eqb (topo m) Point then
            match amap_get (v3 m) name with
            | Some _ =>
                let (h1, r) := rebuild h m keep true Point nil_slice (mats m) in
                let (h2, s) := new_slice h1 (map nat_cell (seq 0 (attr_length r))) 0 in
                RNew h2 (with_idx r s)
            | None => RErr Declared
            end
          else RErr Declared
      | None => RErr Declared
      end
  | OMulti i name req parts =>
      match get i with
      | Some m =>
          if has_topo req (topo m) && match name with Some nm => amap_mem (v3 m) nm | None => true end then
              let (h1, c4) := copy_map h (v4 m) in
              let (h2, c3) := copy_map h1 (v3 m) in
              let (h3, c2) := copy_map h2 (v2 m) in
              let (h4, c1) := copy_map h3 (v1 m) in
              match multi_loop h4 (mkMesh (topo m) (idx m) (mats m) c1 c2 c3 c4) parts with
              | Some (h5, rs) => RMany h5 rs
              | None => RErr Crash
              end
          else RErr Declared
      | None => RErr Declared
      end
  | OBuild t ix ms c1 c2 c3 c4 =>
      let (h1, s) := new_slice h ix 0 in
      let (h2, sm) := new_slice h1 ms 0 in
      let (h3, a4) := alloc_map h2 c4 in
      let (h4, a3) := alloc_map h3 c3 in
      let (h5, a2) := alloc_map h4 c2 in
      let (h6, a1) := alloc_map h5 c1 in
      RNew h6 (mkMesh t s sm a1 a2 a3 a4)
  | OShareMats i j =>
      match get i, get j with
      | Some m, Some src => RNew h (with_mats m (mats src))
      | _, _ => RErr Declared
      end
  end.

Definition step (fixed : bool) (st : state) (o : op) : state * status :=
  let mh := maps_of st in
  let g0 := nth (operand o) (pool st) nilg in
  match exec fixed (heap_of st) (map (load mh) (pool st)) o with
  | RNew h m => let (mh', g) := commit mh o g0 m in (mkState h mh' (pool st ++ [g]), Ok)
  | RMany h ms => let (mh', gs) := commit_all mh o g0 ms in (mkState h mh' (pool st ++ gs), Ok)
  | RSame h => (mkState h mh (pool st), Ok)
  | RErr c => (st, c)
  end.

Definition run_from (fixed : bool) (st : state) (ops : list op) : state :=
  fold_left (fun s o => fst (step fixed s o)) ops st.
(* the state after the first t operations of the history *)
Definition run (fixed : bool) (ops : list op) (t : nat) : state := run_from fixed init (firstn t ops).

(* what pool member k reports in a state *)
Definition observe_member (st : state) (k : nat) : option obs :=
  option_map (fun g => observe (heap_of st) (load (maps_of st) g)) (nth_error (pool st) k).

Fixpoint trace (fixed : bool) (st : state) (ops : list op) : list (state * status) :=
  match ops with
  | [] => []
  | o :: r => let (st', c) := step fixed st o in (st', c) :: trace fixed st' r
  end.

(* ---- the defect class "an operation writes a map that other meshes share" ---------------------------------------
   An Append that first aligns the attribute sets of its operands by storing zero-filled arrays INTO THE OPERANDS' OWN
   MAPS (a[atr] = nilData(aLen) for every attribute only b carries, and vice versa) and then concatenates.  *)
Fixpoint pad_into (h : heap) (a b : amap) (n : nat) (k : kind) : heap * amap :=
  match b with
  | [] => (h, a)
  | (name, _) :: r =>
      if amap_mem a name then pad_into h a r n k
      else let (h1, s) := new_slice h (repeat (zero_of k) n) 0 in pad_into h1 (amap_set a name s) r n k
  end.
Definition pad_kind (gi gj : gmesh) (ni nj : nat) (hm : heap * mheap) (k : kind) : heap * mheap :=
  let (h, mh) := hm in
  let (h1, a') := pad_into h (mget mh (gid gi k)) (mget mh (gid gj k)) ni k in
  let mh1 := upd mh (gid gi k) a' in                         (* map write *)
  let (h2, b') := pad_into h1 (mget mh1 (gid gj k)) a' nj k in
  (h2, upd mh1 (gid gj k) b').                               (* map write *)
Definition step_pad (st : state) (o : op) : state * status :=
  match o with
  | OAppend i j =>
      match nth_error (pool st) i, nth_error (pool st) j with
      | Some gi, Some gj =>
          let ni := attr_length (load (maps_of st) gi) in
          let nj := attr_length (load (maps_of st) gj) in
          let (h, mh) := fold_left (pad_kind gi gj ni nj) [K1; K2; K3; K4] (heap_of st, maps_of st) in
          step true (mkState h mh (pool st)) o
      | _, _ => step true st o
      end
  | _ => step true st o
  end.
Definition run_pad (ops : list op) (t : nat) : state :=
  fold_left (fun s o => fst (step_pad s o)) (firstn t ops) init.

(* ---- the defect class "an operation tidies up a slice it was handed — and the slice is another mesh's" ---------------
   Materials() hands out the mesh's own slice.  A SetMaterials that drops the ranges without primitives IN PLACE (the
   in-place filter idiom kept := mat[:0]; kept = append(kept, ...) on its argument) writes, in
   x.SetMaterials(y.Materials()), into the array y and everything sharing y's materials report from. *)
Definition compact_mats (h : heap) (s : slice) : heap * slice :=
  let kept := filter (fun c => negb (Z.eqb (nth 0 c 0%Z) 0)) (read h s) in
  (store_list h (ptr s) 0 kept, mkSlice (ptr s) (length kept) (cap s)).
Definition step_tidy (st : state) (o : op) : state * status :=
  match o with
  | OShareMats i j =>
      match nth_error (pool st) i, nth_error (pool st) j with
      | Some gi, Some gj =>
          let (h1, s) := compact_mats (heap_of st) (g_mats gj) in
          (mkState h1 (maps_of st)
                   (pool st ++ [mkG (g_topo gi) (g_idx gi) s (g_v1 gi) (g_v2 gi) (g_v3 gi) (g_v4 gi)]), Ok)
      | _, _ => (st, Declared)
      end
  | _ => step true st o
  end.
Definition run_tidy (ops : list op) (t : nat) : state :=
  fold_left (fun s o => fst (step_tidy s o)) (firstn t ops) init.

End Model.

(* the growth policy used for the refutation of the pinned Append: double, or exactly n if that is more *)
Definition grow_double (c n : nat) : nat := Nat.max n (2 * c).

(* ---- boolean equality of observations (used by the correspondence check) ---- *)
Fixpoint list_eqb {A} (e : A -> A -> bool) (a b : list A) : bool :=
  match a, b with
  | [], [] => true
  | x :: a', y :: b' => e x y && list_eqb e a' b'
  | _, _ => false
  end.
Definition cell_eqb : cell -> cell -> bool := list_eqb Z.eqb.
Definition cells_eqb : list cell -> list cell -> bool := list_eqb cell_eqb.
Definition attr_eqb (a b : N * list cell) : bool := N.eqb (fst a) (fst b) && cells_eqb (snd a) (snd b).
Definition obs_eqb (a b : obs) : bool :=
  topo_eqb (o_topo a) (o_topo b) && cells_eqb (o_idx a) (o_idx b) && cells_eqb (o_mats a) (o_mats b) &&
  list_eqb attr_eqb (o_v1 a) (o_v1 b) && list_eqb attr_eqb (o_v2 a) (o_v2 b) &&
  list_eqb attr_eqb (o_v3 a) (o_v3 b) && list_eqb attr_eqb (o_v4 a) (o_v4 b).
Definition status_eqb (a b : status) : bool :=
  match a, b with Ok, Ok | Declared, Declared | Crash, Crash => true | _, _ => false end.

(* ---- the direct oracle: the run-length encoded snapshot sequence of every pool member is one run ---- *)
Definition immutableb {A} (segs : list (list A)) : bool :=
  forallb (fun sg => match sg with [_] => true | _ => false end) segs.
