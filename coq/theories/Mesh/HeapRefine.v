(* C01 <-> C02/C03 — heap_refines_pure (DESIGN §3.3), partial.
   The heap model (Mesh/Heap.v: slices into backing arrays, who shares what) and the pure model (Mesh/Pure.v, owned by
   the C02/C03 builder, imported read-only: meshes as values) describe the same operations.  [abs] forgets addresses:
   it reads a heap mesh through its slices — exactly what [observe] reports — and packs the result as a Pure.mesh.
   For the operations listed in [covered] the mesh the heap operation creates, read back through [abs], IS the mesh the
   pure operation computes from the operands read back through [abs].  Together with immutable_history (an
   observation never changes once made) this means: along a history, each member's value in the pure model is well
   defined, and the covered heap operations compute the pure operations on those values.
   Not covered (so the theorem is _partial): the operations that rebuild attribute arrays (Append's attribute part,
   Unweld, RemovedUnreferencedVertices, Weld, filters, Crop, Slice/Split, repeat) and the attribute setters. *)
From Coq Require Import List NArith ZArith Bool Arith Lia.
From PF Require Import Mesh.Heap Mesh.HeapProofs.
From PF Require Mesh.Pure.
Import ListNotations.

Definition abs_topo (t : topology) : Pure.topo :=
  match t with
  | Triangle => Pure.Triangle | Point => Pure.Point | Quad => Pure.Quad
  | Line => Pure.Line | LineStrip => Pure.LineStrip | LineLoop => Pure.LineLoop
  end.
(* a MeshMaterial cell [PrimitiveCount; material id] *)
Definition abs_mat (c : cell) : nat * N := (Z.to_nat (nth 0 c 0%Z), Z.to_N (nth 1 c 0%Z)).
Definition tag (k : N) (a : list (N * list cell)) : list Pure.attr := map (fun e => ((k, fst e), snd e)) a.
(* Pure keeps one list keyed by (arity, name): arity descending, then name ascending *)
Definition abs_obs (o : obs) : Pure.mesh :=
  Pure.Mesh (abs_topo (o_topo o)) (map cell_nat (o_idx o)) (map abs_mat (o_mats o))
            (tag 4 (o_v4 o) ++ tag 3 (o_v3 o) ++ tag 2 (o_v2 o) ++ tag 1 (o_v1 o)).
Definition abs (h : heap) (m : mesh) : Pure.mesh := abs_obs (observe h m).

(* a slice lies within its backing array (Go guarantees it; every slice the model creates satisfies it) *)
Definition swf (h : heap) (s : slice) : Prop := len s <= length (arr h (ptr s)).
Definition amap_wf (h : heap) (a : amap) : Prop := Forall (fun e => swf h (snd e)) a.
Definition mesh_wf (h : heap) (m : mesh) : Prop :=
  swf h (idx m) /\ swf h (mats m) /\ amap_wf h (v1 m) /\ amap_wf h (v2 m) /\ amap_wf h (v3 m) /\ amap_wf h (v4 m).
Definition swfb (h : heap) (s : slice) : bool := len s <=? length (arr h (ptr s)).
Definition mesh_wfb (h : heap) (m : mesh) : bool :=
  swfb h (idx m) && swfb h (mats m) &&
  forallb (fun k => forallb (fun e => swfb h (snd e)) (vget m k)) kinds.

(* the operations covered, and what the pure model computes for them *)
Definition covered (o : op) : bool :=
  match o with
  | ONew _ _ _ | OEmpty _ | OSetIndices _ _ _ | OSetMaterials _ _ _ | OSetMaterial _ _ | OShareMats _ _
  | OToPoints _ | OFlip _ | OIdent _ | OClearAttrs _ => true
  | _ => false
  end.

Definition pure_exec (o : op) (p : list Pure.mesh) : Pure.res :=
  let get i := nth_error p i in
  let on i (f : Pure.mesh -> Pure.res) := match get i with Some m => f m | None => Pure.Declared end in
  match o with
  | ONew t ix _ => Pure.Ok [Pure.set_indices (Pure.empty_mesh (abs_topo t)) (map cell_nat ix)]
  | OEmpty t => Pure.Ok [Pure.empty_mesh (abs_topo t)]
  | OSetIndices i ix _ => on i (fun m => Pure.step (Pure.OSetIndices (map cell_nat ix)) [m])
  | OSetMaterials i ms _ => on i (fun m => Pure.step (Pure.OSetMaterials (map abs_mat ms)) [m])
  | OSetMaterial i mat => on i (fun m => Pure.Ok [Pure.set_material m (Z.to_N mat)])
  | OShareMats i j => on i (fun m => on j (fun s => Pure.step (Pure.OSetMaterials (Pure.materials s)) [m]))
  | OToPoints i => on i (fun m => Pure.step Pure.OToPoints [m])
  | OFlip i => on i (fun m => Pure.step Pure.OFlip [m])
  | OIdent i => on i (fun m => Pure.Ok [m])
  | OClearAttrs i => on i (fun m => Pure.Ok [Pure.Mesh (Pure.topology m) (Pure.indices m) (Pure.materials m) []])
  | _ => Pure.Declared
  end.

(* heap result vs pure result.  The pure model has no runtime panics (C02 excludes them by well-formedness): a heap
   Crash (FlipTriangleWinding on an index count that is not a multiple of 3) is outside the comparison. *)
Definition agrees (r : result) (pr : Pure.res) : Prop :=
  match r with
  | RNew h' m' => pr = Pure.Ok [abs h' m']
  | RErr Declared => pr = Pure.Declared
  | RErr Crash => True
  | _ => False
  end.

(* ---------------------------------------------------------------- lemmas *)
Lemma swfb_spec h s : swfb h s = true <-> swf h s.
Proof. unfold swfb, swf. apply Nat.leb_le. Qed.

Lemma mesh_wfb_spec h m : mesh_wfb h m = true -> mesh_wf h m.
Proof.
  unfold mesh_wfb, mesh_wf, kinds. cbn [forallb vget]. rewrite !andb_true_iff, !forallb_forall.
  intros [[A B] (C4 & C3 & C2 & C1 & _)].
  repeat split; try (apply swfb_spec; assumption);
    apply Forall_forall; intros e He; apply swfb_spec; auto.
Qed.

Lemma read_length h s : swf h s -> length (read h s) = len s.
Proof. unfold swf, read. intros. apply firstn_length_le; auto. Qed.

Lemma read_new_slice h xs sp h1 s : new_slice h xs sp = (h1, s) -> read h1 s = xs.
Proof.
  unfold new_slice. intros [= <- <-]. unfold read, arr; cbn [ptr len].
  rewrite app_nth2 by lia. rewrite Nat.sub_diag. cbn [nth].
  rewrite firstn_app, Nat.sub_diag, firstn_all. cbn [firstn]. apply app_nil_r.
Qed.

Lemma new_slice_frame h xs sp h1 s : new_slice h xs sp = (h1, s) -> frame (length h) h h1.
Proof. unfold new_slice. intros [= <- <-]. apply frame_app. lia. Qed.

Lemma read_map_frame n h h' a : frame n h h' -> amap_ok n a -> read_map h' a = read_map h a.
Proof.
  intros F Ha. unfold read_map. apply map_ext_in. intros e He.
  rewrite (frame_read n h h'); auto. eapply Forall_forall in Ha; eauto.
Qed.

Lemma abs_mk h t s sm a1 a2 a3 a4 :
  abs h (mkMesh t s sm a1 a2 a3 a4) =
  Pure.Mesh (abs_topo t) (map cell_nat (read h s)) (map abs_mat (read h sm))
            (tag 4 (read_map h a4) ++ tag 3 (read_map h a3) ++ tag 2 (read_map h a2) ++ tag 1 (read_map h a1)).
Proof. reflexivity. Qed.

Lemma abs_eta h m : abs h m = abs h (mkMesh (topo m) (idx m) (mats m) (v1 m) (v2 m) (v3 m) (v4 m)).
Proof. destruct m; reflexivity. Qed.

Lemma index_size_abs t : Pure.index_size (abs_topo t) = index_size t.
Proof. destruct t; reflexivity. Qed.

Lemma nverts_abs h m : mesh_wf h m -> Pure.nverts (abs h m) = attr_length m.
Proof.
  intros (_ & _ & W1 & W2 & W3 & W4).
  unfold Pure.nverts, abs, abs_obs, observe, attr_length. cbn [Pure.attrs o_v1 o_v2 o_v3 o_v4].
  destruct (v4 m) as [|[n4 s4] r4]; cbn [read_map map tag app fst snd].
  2:{ apply read_length. inversion W4; auto. }
  destruct (v3 m) as [|[n3 s3] r3]; cbn [read_map map tag app fst snd].
  2:{ apply read_length. inversion W3; auto. }
  destruct (v2 m) as [|[n2 s2] r2]; cbn [read_map map tag app fst snd].
  2:{ apply read_length. inversion W2; auto. }
  destruct (v1 m) as [|[n1 s1] r1]; cbn [read_map map tag app fst snd]; auto.
  apply read_length. inversion W1; auto.
Qed.

Lemma cell_nat_nat_cell l : map cell_nat (map nat_cell l) = l.
Proof.
  induction l as [|x r IH]; cbn [map]; auto. rewrite IH. f_equal.
  unfold cell_nat, nat_cell. apply Nat2Z.id.
Qed.

Lemma flip3_map (l : list cell) : map cell_nat (flip3 l) = Pure.flip3 (map cell_nat l).
Proof.
  revert l. fix IH 1. intros [|a [|b [|c r]]]; try reflexivity.
  cbn [flip3 Pure.flip3 map]. rewrite IH. reflexivity.
Qed.

Lemma topo_eqb_abs a b : Pure.topo_eqb (abs_topo a) (abs_topo b) = topo_eqb a b.
Proof. destruct a, b; reflexivity. Qed.

(* ---------------------------------------------------------------- the theorem *)
#[local] Arguments new_slice : simpl never.
#[local] Arguments read : simpl never.
Section Refine.
Variable grow : nat -> nat -> nat.

Ltac old_reads F Hm :=
  let A := fresh in let B := fresh in let C1 := fresh in let C2 := fresh in let C3 := fresh in let C4 := fresh in
  destruct Hm as (A & B & C1 & C2 & C3 & C4);
  rewrite ?(frame_read _ _ _ _ F A), ?(frame_read _ _ _ _ F B),
          ?(read_map_frame _ _ _ _ F C1), ?(read_map_frame _ _ _ _ F C2),
          ?(read_map_frame _ _ _ _ F C3), ?(read_map_frame _ _ _ _ F C4).

Theorem heap_refines_pure_partial_proof : forall h p o,
  pool_ok (length h) p -> Forall (mesh_wf h) p -> covered o = true ->
  agrees (exec grow true h p o) (pure_exec o (map (abs h) p)).
Proof.
  intros h p o Hp Hw Hc.
  assert (Hget : forall i m, nth_error p i = Some m -> mesh_ok (length h) m /\ mesh_wf h m).
  { intros i m G. split.
    - eapply pool_get; eauto.
    - eapply Forall_forall; [exact Hw|]. eapply nth_error_In; eauto. }
  destruct o; try discriminate Hc; cbn [exec pure_exec agrees]; rewrite ?nth_error_map.
  - (* ONew *)
    destruct (new_slice h ix spare) as [h1 s] eqn:E. cbn [agrees].
    rewrite abs_mk. rewrite (read_new_slice _ _ _ _ _ E).
    unfold nil_slice, read, arr; cbn [ptr len]. rewrite firstn_O. reflexivity.
  - (* OEmpty *)
    rewrite abs_mk. unfold nil_slice, read; cbn [len]. rewrite firstn_O. reflexivity.
  - (* OSetIndices *)
    destruct (nth_error p i) as [m|] eqn:G; cbn [option_map agrees]; [|reflexivity].
    destruct (new_slice h ix spare) as [h1 s] eqn:E. cbn [agrees Pure.step].
    destruct (Hget _ _ G) as [Hm _].
    pose proof (new_slice_frame _ _ _ _ _ E) as F.
    rewrite abs_mk, (read_new_slice _ _ _ _ _ E). rewrite (abs_eta h m), abs_mk.
    old_reads F Hm. reflexivity.
  - (* OSetMaterial *)
    destruct (nth_error p i) as [m|] eqn:G; cbn [option_map agrees]; [|reflexivity].
    destruct (new_slice h _ 0) as [h1 s] eqn:E. cbn [agrees].
    destruct (Hget _ _ G) as [Hm Hwf].
    pose proof (new_slice_frame _ _ _ _ _ E) as F.
    rewrite abs_mk, (read_new_slice _ _ _ _ _ E). rewrite (abs_eta h m), abs_mk.
    unfold Pure.set_material, Pure.set_materials. cbn [Pure.topology Pure.indices Pure.materials Pure.attrs map].
    rewrite map_length, index_size_abs, (read_length h (idx m)) by (destruct Hwf; auto).
    old_reads F Hm.
    unfold abs_mat. cbn [nth]. rewrite Nat2Z.id. reflexivity.
  - (* OSetMaterials *)
    destruct (nth_error p i) as [m|] eqn:G; cbn [option_map agrees]; [|reflexivity].
    destruct (new_slice h ms spare) as [h1 s] eqn:E. cbn [agrees Pure.step].
    destruct (Hget _ _ G) as [Hm _].
    pose proof (new_slice_frame _ _ _ _ _ E) as F.
    rewrite abs_mk, (read_new_slice _ _ _ _ _ E). rewrite (abs_eta h m), abs_mk.
    old_reads F Hm. reflexivity.
  - (* OClearAttrs *)
    destruct (nth_error p i) as [m|] eqn:G; cbn [option_map agrees]; [|reflexivity].
    rewrite abs_mk. rewrite (abs_eta h m), abs_mk. reflexivity.
  - (* OToPoints *)
    destruct (nth_error p i) as [m|] eqn:G; cbn [option_map agrees Pure.step]; [|reflexivity].
    destruct (Hget _ _ G) as [Hm Hwf].
    unfold Pure.to_points. rewrite (nverts_abs h m Hwf).
    assert (X : forall h1 s, new_slice h (map nat_cell (seq 0 (attr_length m))) 0 = (h1, s) ->
              Pure.Ok [Pure.Mesh Pure.Point (seq 0 (attr_length m)) (Pure.materials (abs h m)) (Pure.attrs (abs h m))] =
              Pure.Ok [abs h1 (mkMesh Point s (mats m) (v1 m) (v2 m) (v3 m) (v4 m))]).
    { intros h1 s E. pose proof (new_slice_frame _ _ _ _ _ E) as F.
      rewrite abs_mk, (read_new_slice _ _ _ _ _ E), cell_nat_nat_cell. rewrite (abs_eta h m), abs_mk.
      old_reads F Hm. reflexivity. }
    replace (Pure.topology (abs h m)) with (abs_topo (topo m)) by (destruct m; reflexivity).
    destruct (new_slice h (map nat_cell (seq 0 (attr_length m))) 0) as [h1 s] eqn:E.
    specialize (X _ _ eq_refl).
    destruct (topo m); cbn [abs_topo agrees]; try exact X.
    reflexivity.
  - (* OFlip *)
    destruct (nth_error p i) as [m|] eqn:G; cbn [option_map agrees Pure.step]; [|reflexivity].
    destruct (Hget _ _ G) as [Hm Hwf].
    unfold Pure.flip.
    replace (Pure.topology (abs h m)) with (abs_topo (topo m)) by (destruct m; reflexivity).
    destruct (topo m) eqn:T; cbn [topo_eqb abs_topo agrees]; try reflexivity.
    destruct (len (idx m) mod 3 =? 0); cbn [agrees]; [|exact I].
    destruct (new_slice h _ 0) as [h1 s] eqn:E. cbn [agrees].
    pose proof (new_slice_frame _ _ _ _ _ E) as F.
    rewrite abs_mk, (read_new_slice _ _ _ _ _ E), flip3_map. rewrite (abs_eta h m), abs_mk, T.
    old_reads F Hm. reflexivity.
  - (* OIdent *)
    destruct (nth_error p i) as [m|] eqn:G; cbn [option_map agrees]; reflexivity.
  - (* OShareMats *)
    destruct (nth_error p i) as [m|] eqn:G; cbn [option_map agrees]; [|reflexivity].
    destruct (nth_error p j) as [src|] eqn:Gj; cbn [option_map agrees Pure.step]; [|reflexivity].
    unfold with_mats. rewrite abs_mk. rewrite (abs_eta h m), (abs_eta h src), !abs_mk. reflexivity.
Qed.

(* along a history: the side condition "slices reference existing arrays" is a consequence of reachability *)
Theorem heap_refines_pure_history_proof : forall ops t o,
  let st := run grow true ops t in
  let p := map (load (maps_of st)) (pool st) in
  Forall (mesh_wf (heap_of st)) p -> covered o = true ->
  agrees (exec grow true (heap_of st) p o) (pure_exec o (map (abs (heap_of st)) p)).
Proof.
  intros ops t o st p Hw Hc. apply heap_refines_pure_partial_proof; auto.
  destruct (run_inv grow ops t) as (_ & _ & Hm & Hpool). fold st in Hm, Hpool.
  unfold pool_ok, p. apply Forall_forall. intros m Hin. apply in_map_iff in Hin. destruct Hin as (g & <- & Hg).
  eapply load_ok; eauto. eapply Forall_forall in Hpool; eauto.
Qed.

(* the value a pool member has in the pure model is the abstraction of what it reports, and it never changes *)
Definition pure_value (st : state) (k : nat) : option Pure.mesh := option_map abs_obs (observe_member st k).

Theorem pure_value_stable_proof : forall ops k t t',
  t <= t' -> k < length (pool (run grow true ops t)) ->
  pure_value (run grow true ops t') k = pure_value (run grow true ops t) k.
Proof. intros. unfold pure_value. f_equal. apply immutable_history_proof; auto. Qed.

Lemma pure_value_load st k g :
  nth_error (pool st) k = Some g -> pure_value st k = Some (abs (heap_of st) (load (maps_of st) g)).
Proof. intros G. unfold pure_value, observe_member. rewrite G. reflexivity. Qed.

End Refine.

(* ---------------------------------------------------------------- non-vacuity *)
(* a history of covered operations on a mesh with attributes (made by uncovered ones): the hypotheses hold in the state
   reached, and the refinement equation is a computation *)
Definition refine_ops : list op :=
  [ONew Triangle [[0]; [1]; [2]; [2]; [1]; [3]]%Z 2;
   OSetAttr K3 0 6%N [[0;0;0]; [4;0;0]; [0;4;0]; [4;4;0]]%Z 3;
   OSetAttr K2 1 8%N [[0;0]; [1;0]; [0;1]; [1;1]]%Z 0;
   OSetMaterials 2 [[1; 7]; [1; 8]]%Z 1].

Lemma refine_example :
  let st := run grow_double true refine_ops 4 in
  let p := map (load (maps_of st)) (pool st) in
  forallb (mesh_wfb (heap_of st)) p = true /\
  length p = 4 /\
  pure_exec (OFlip 3) (map (abs (heap_of st)) p) =
    Pure.Ok [Pure.Mesh Pure.Triangle [1; 0; 2; 1; 2; 3] [(1, 7%N); (1, 8%N)]
               [((3%N, 6%N), [[0;0;0]; [4;0;0]; [0;4;0]; [4;4;0]]%Z); ((2%N, 8%N), [[0;0]; [1;0]; [0;1]; [1;1]]%Z)]] /\
  agrees (exec grow_double true (heap_of st) p (OFlip 3)) (pure_exec (OFlip 3) (map (abs (heap_of st)) p)) /\
  agrees (exec grow_double true (heap_of st) p (OToPoints 3)) (pure_exec (OToPoints 3) (map (abs (heap_of st)) p)) /\
  agrees (exec grow_double true (heap_of st) p (OShareMats 1 3)) (pure_exec (OShareMats 1 3) (map (abs (heap_of st)) p)).
Proof. vm_compute. repeat split; reflexivity. Qed.
