(* C01 — proofs about Mesh/Heap.v.
   Invariant (for the repaired Append): an operation started on a heap of n0 arrays
     - leaves the arrays 0..n0-1 exactly as they were (frame n0), because every in-place write targets a slice
       that is either OWNED (its array was allocated by this very operation: n0 <= ptr) or FULL (cap <= len, so
       append can only write zero cells in place);
     - returns a mesh all of whose slices point below the new heap length.
   Pool members therefore reference only arrays that existed when they were created, and those never change. *)
From Coq Require Import List NArith ZArith Bool Arith Lia.
From PF Require Import Mesh.Heap.
Import ListNotations.

(* ---------------------------------------------------------------- lists *)
Lemma upd_length {A} (l : list A) i v : length (upd l i v) = length l.
Proof. revert i; induction l; destruct i; simpl; auto. Qed.

Lemma upd_nth_other {A} (l : list A) i j v d : i <> j -> nth j (upd l i v) d = nth j l d.
Proof.
  revert i j; induction l; intros i j H; destruct i, j; simpl; auto; try congruence.
Qed.

(* ---------------------------------------------------------------- frames *)
Definition frame (n : nat) (h h' : heap) : Prop :=
  length h <= length h' /\ forall p, p < n -> nth p h' [] = nth p h [].

Lemma frame_refl n h : frame n h h.
Proof. split; auto. Qed.

#[local] Hint Resolve frame_refl : core.

Lemma frame_trans n h1 h2 h3 : frame n h1 h2 -> frame n h2 h3 -> frame n h1 h3.
Proof. intros [L1 F1] [L2 F2]; split; [lia|]. intros p Hp. rewrite F2, F1; auto. Qed.

Lemma frame_read n h h' s : frame n h h' -> ptr s < n -> read h' s = read h s.
Proof. intros [_ F] Hs. unfold read, arr. rewrite F; auto. Qed.

Lemma frame_app n h x : n <= length h -> frame n h (h ++ x).
Proof.
  intros Hn; split; [rewrite app_length; lia|].
  intros p Hp. apply app_nth1. lia.
Qed.

Lemma store_frame n h p i v : n <= p -> frame n h (store h p i v).
Proof.
  intros Hp; unfold store; split; [rewrite upd_length; lia|].
  intros q Hq. apply upd_nth_other. lia.
Qed.

Lemma store_length h p i v : length (store h p i v) = length h.
Proof. unfold store. apply upd_length. Qed.

Lemma store_list_length xs : forall h p i, length (store_list h p i xs) = length h.
Proof. induction xs; simpl; intros; auto. rewrite IHxs, store_length; auto. Qed.

Lemma store_list_frame n xs : forall h p i, n <= p -> frame n h (store_list h p i xs).
Proof.
  induction xs; simpl; intros; [apply frame_refl|].
  eapply frame_trans; [apply store_frame; eassumption | apply IHxs; assumption].
Qed.

(* ---------------------------------------------------------------- slices *)
Definition owned (n0 : nat) (s : slice) : Prop := n0 <= ptr s.
(* the only slices an operation appends to: its own, or full ones (append then allocates, or writes nothing) *)
Definition wr_ok (n0 : nat) (s : slice) : Prop := n0 <= ptr s \/ cap s <= len s.
Definition sl_ok (n : nat) (s : slice) : Prop := ptr s < n.
Definition amap_ok (n : nat) (a : amap) : Prop := Forall (fun e => sl_ok n (snd e)) a.
Definition mesh_ok (n : nat) (m : mesh) : Prop :=
  sl_ok n (idx m) /\ sl_ok n (mats m) /\ amap_ok n (v1 m) /\ amap_ok n (v2 m) /\ amap_ok n (v3 m) /\ amap_ok n (v4 m).

Ltac splits := repeat match goal with |- _ /\ _ => split | |- mesh_ok _ _ => first [assumption | unfold mesh_ok] end.

Lemma sl_ok_mono n n' s : n <= n' -> sl_ok n s -> sl_ok n' s.
Proof. unfold sl_ok; lia. Qed.
Lemma amap_ok_mono n n' a : n <= n' -> amap_ok n a -> amap_ok n' a.
Proof. intros H; apply Forall_impl; intros e; apply sl_ok_mono; auto. Qed.
Lemma mesh_ok_mono n n' m : n <= n' -> mesh_ok n m -> mesh_ok n' m.
Proof.
  intros H (A & B & C & D & E & F).
  splits; eauto using sl_ok_mono, amap_ok_mono.
Qed.

Lemma nil_ok n : 0 < n -> sl_ok n nil_slice.
Proof. unfold sl_ok; simpl; lia. Qed.
Lemma nil_wr n0 : wr_ok n0 nil_slice.
Proof. right; simpl; lia. Qed.

(* ---------------------------------------------------------------- attribute maps *)
Lemma amap_set_Forall (P : N * slice -> Prop) a k s : Forall P a -> P (k, s) -> Forall P (amap_set a k s).
Proof.
  intros Ha Hs; induction Ha as [|[k' s'] t Hx Ht IH]; simpl; [constructor; auto|].
  destruct (N.eqb k k'); [constructor; auto|].
  destruct (N.ltb k k'); constructor; auto.
Qed.

Lemma amap_del_Forall (P : N * slice -> Prop) a k : Forall P a -> Forall P (amap_del a k).
Proof.
  intros Ha; induction Ha as [|[k' s'] t Hx Ht IH]; simpl; [constructor|].
  destruct (N.eqb k k'); auto.
Qed.

Lemma amap_get_Forall (P : N * slice -> Prop) a k s : Forall P a -> amap_get a k = Some s -> exists k', P (k', s).
Proof.
  intros Ha; induction Ha as [|[k' s'] t Hx Ht IH]; simpl; [discriminate|].
  destruct (N.eqb k k'); [intros [= <-]; eauto | auto].
Qed.

Lemma amap_get_ok n a k s : amap_ok n a -> amap_get a k = Some s -> sl_ok n s.
Proof. intros Ha Hg. destruct (amap_get_Forall _ _ _ _ Ha Hg) as [k' H]. exact H. Qed.

Lemma vget_ok n m k : mesh_ok n m -> amap_ok n (vget m k).
Proof. intros (A & B & C & D & E & F); destruct k; simpl; auto. Qed.

Lemma vset_ok n m k a : mesh_ok n m -> amap_ok n a -> mesh_ok n (vset m k a).
Proof. intros (A & B & C & D & E & F) Ha; destruct k; simpl; splits; auto. Qed.

Lemma set_attr_ok n m k name s : mesh_ok n m -> sl_ok n s -> mesh_ok n (set_attr m k name s).
Proof.
  intros Hm Hs. unfold set_attr. apply vset_ok; auto.
  destruct (len s =? 0).
  - apply amap_del_Forall. apply vget_ok; auto.
  - apply amap_set_Forall; [apply vget_ok; auto | exact Hs].
Qed.

#[local] Arguments new_slice : simpl never.
#[local] Arguments go_append : simpl never.
#[local] Arguments append_n : simpl never.
#[local] Arguments append_each : simpl never.
#[local] Arguments add_range : simpl never.
#[local] Arguments read : simpl never.
#[local] Arguments append_data : simpl never.
#[local] Arguments append_slices : simpl never.
#[local] Arguments mesh_append : simpl never.
#[local] Arguments rebuild : simpl never.
#[local] Arguments set_attr : simpl never.
#[local] Arguments apply_fn : simpl never.
#[local] Arguments gather_map : simpl never.
#[local] Arguments idx_nats : simpl never.
#[local] Arguments remove_unref : simpl never.
#[local] Arguments copy_map : simpl never.

Section Proofs.
Variable grow : nat -> nat -> nat.

(* ---------------------------------------------------------------- the heap primitives *)
Lemma new_slice_ok n0 h xs sp h' s :
  new_slice h xs sp = (h', s) -> n0 <= length h ->
  frame n0 h h' /\ length h' = S (length h) /\ ptr s = length h.
Proof.
  unfold new_slice; intros [= <- <-] Hn; simpl. splits.
  - apply frame_app; auto.
  - rewrite app_length; simpl; lia.
  - reflexivity.
Qed.

Lemma go_append_ok n0 h s xs h' s' :
  go_append grow h s xs = (h', s') -> n0 <= length h -> wr_ok n0 s ->
  frame n0 h h' /\ length h <= length h' /\ wr_ok n0 s' /\
  (owned n0 s -> owned n0 s') /\ (ptr s < length h -> ptr s' < length h').
Proof.
  unfold go_append, owned. intros H Hn Hw.
  destruct (len s + length xs <=? cap s) eqn:E.
  - injection H as <- <-. apply Nat.leb_le in E. simpl.
    rewrite store_list_length.
    destruct Hw as [Hw|Hw].
    + splits; auto; try lia. apply store_list_frame; auto. left; simpl; auto.
    + assert (xs = []) by (destruct xs; simpl in *; auto; lia). subst xs; simpl.
      splits; auto; try lia. right; simpl; lia.
  - injection H as <- <-. simpl. rewrite app_length; simpl.
    splits; try lia.
    + apply frame_app; auto.
    + left; simpl; lia.
Qed.

Lemma append_chunks_ok n0 cs : forall h s h' s',
  append_chunks grow h s cs = (h', s') -> n0 <= length h -> wr_ok n0 s ->
  frame n0 h h' /\ length h <= length h' /\ wr_ok n0 s' /\
  (owned n0 s -> owned n0 s') /\ (ptr s < length h -> ptr s' < length h').
Proof.
  induction cs as [|c r IH]; cbn [append_chunks]; intros h s h' s' H Hn Hw.
  - injection H as <- <-. splits; auto.
  - destruct (go_append grow h s c) as [h1 s1] eqn:E.
    destruct (go_append_ok _ _ _ _ _ _ E Hn Hw) as (F1 & L1 & W1 & O1 & B1).
    destruct (IH _ _ _ _ H ltac:(lia) W1) as (F2 & L2 & W2 & O2 & B2).
    splits; auto; try lia. eapply frame_trans; eauto.
Qed.

Lemma append_n_ok n0 h s x n h' s' :
  append_n grow h s x n = (h', s') -> n0 <= length h -> wr_ok n0 s ->
  frame n0 h h' /\ length h <= length h' /\ wr_ok n0 s' /\
  (owned n0 s -> owned n0 s') /\ (ptr s < length h -> ptr s' < length h').
Proof. unfold append_n, append_each. apply append_chunks_ok. Qed.

Lemma add_range_ok n0 h s from d :
  owned n0 s -> frame n0 h (add_range h s from d) /\ length (add_range h s from d) = length h.
Proof.
  unfold add_range, owned; intros Ho; split; [split|]; try rewrite upd_length; auto.
  intros p Hp. apply upd_nth_other; lia.
Qed.

Lemma build_map_ok n0 drop cont : forall h h' a,
  build_map grow h cont drop = (h', a) -> 0 < n0 -> n0 <= length h ->
  frame n0 h h' /\ length h <= length h' /\ amap_ok (length h') a.
Proof.
  induction cont as [|[name chunks] r IH]; cbn [build_map]; intros h h' a H H0 Hn.
  - injection H as <- <-. splits; auto. constructor.
  - destruct (append_chunks grow h nil_slice chunks) as [h1 s] eqn:E1.
    destruct (build_map grow h1 r drop) as [h2 a2] eqn:E2.
    injection H as <- <-.
    destruct (append_chunks_ok n0 _ _ _ _ _ E1 Hn (nil_wr n0)) as (F1 & L1 & _ & _ & B1).
    destruct (IH _ _ _ E2 H0 ltac:(lia)) as (F2 & L2 & A2).
    splits; try lia; [eapply frame_trans; eauto|].
    destruct (drop && (len s =? 0)); auto.
    apply amap_set_Forall; auto. simpl.
    eapply sl_ok_mono; [exact L2|]. apply B1. simpl; lia.
Qed.

(* ---------------------------------------------------------------- Append (repaired) *)
Definition fd_ok (n0 n : nat) (fd : amap) : Prop := Forall (fun e => wr_ok n0 (snd e) /\ sl_ok n (snd e)) fd.

Lemma fd_ok_mono n0 n n' fd : n <= n' -> fd_ok n0 n fd -> fd_ok n0 n' fd.
Proof. intros H; apply Forall_impl; intros e [A B]; split; auto. eapply sl_ok_mono; eauto. Qed.

Lemma append_data1_ok n0 k b aLen bLen a : forall h h' fd,
  append_data1 grow true k h a b aLen bLen = (h', fd) -> n0 <= length h ->
  frame n0 h h' /\ length h <= length h' /\ fd_ok n0 (length h') fd.
Proof.
  induction a as [|[name data] r IH]; cbn [append_data1]; intros h h' fd H Hn.
  - injection H as <- <-. splits; auto. constructor.
  - destruct (new_slice h [] (aLen + bLen)) as [h0 s0] eqn:E0.
    destruct (go_append grow h0 s0 (read h0 data)) as [h1 s1] eqn:E1.
    destruct (new_slice_ok n0 _ _ _ _ _ E0 Hn) as (F0 & L0 & P0).
    assert (W0 : wr_ok n0 s0) by (left; lia).
    destruct (go_append_ok n0 _ _ _ _ _ E1 ltac:(lia) W0) as (F1 & L1 & W1 & _ & B1).
    assert (B1' : ptr s1 < length h1) by (apply B1; lia).
    destruct (if amap_mem b name then (h1, s1) else append_n grow h1 s1 (zero_of k) bLen) as [h2 s2] eqn:E2.
    assert (X : frame n0 h1 h2 /\ length h1 <= length h2 /\ wr_ok n0 s2 /\ ptr s2 < length h2).
    { destruct (amap_mem b name).
      - injection E2 as <- <-. splits; auto.
      - destruct (append_n_ok n0 _ _ _ _ _ _ E2 ltac:(lia) W1) as (F2 & L2 & W2 & _ & B2).
        splits; auto. }
    destruct X as (F2 & L2 & W2 & B2).
    destruct (append_data1 grow true k h2 r b aLen bLen) as [h3 fd3] eqn:E3.
    injection H as <- <-.
    destruct (IH _ _ _ E3 ltac:(lia)) as (F3 & L3 & A3).
    splits; try lia.
    + eapply frame_trans; [exact F0|]. eapply frame_trans; [exact F1|]. eapply frame_trans; eauto.
    + apply amap_set_Forall; auto. simpl; split; auto. unfold sl_ok; lia.
Qed.

Lemma append_data2_ok n0 k aLen b : forall h fd h' fd',
  append_data2 grow k h fd b aLen = (h', fd') -> 0 < n0 -> n0 <= length h -> fd_ok n0 (length h) fd ->
  frame n0 h h' /\ length h <= length h' /\ fd_ok n0 (length h') fd'.
Proof.
  induction b as [|[name data] r IH]; cbn [append_data2]; intros h fd h' fd' H H0 Hn Hfd.
  - injection H as <- <-. splits; auto.
  - destruct (match amap_get fd name with Some s => (h, s) | None => append_n grow h nil_slice (zero_of k) aLen end)
      as [h1 s1] eqn:E1.
    assert (X : frame n0 h h1 /\ length h <= length h1 /\ wr_ok n0 s1 /\ ptr s1 < length h1).
    { destruct (amap_get fd name) as [s|] eqn:G.
      - injection E1 as <- <-. destruct (amap_get_Forall _ _ _ _ Hfd G) as [k' [A B]].
        splits; auto.
      - destruct (append_n_ok n0 _ _ _ _ _ _ E1 Hn (nil_wr n0)) as (F1 & L1 & W1 & _ & B1).
        splits; auto. apply B1; simpl; lia. }
    destruct X as (F1 & L1 & W1 & B1).
    destruct (go_append grow h1 s1 (read h1 data)) as [h2 s2] eqn:E2.
    destruct (go_append_ok n0 _ _ _ _ _ E2 ltac:(lia) W1) as (F2 & L2 & W2 & _ & B2).
    assert (Hfd2 : fd_ok n0 (length h2) (amap_set fd name s2)).
    { apply amap_set_Forall.
      - eapply fd_ok_mono; [|exact Hfd]. lia.
      - simpl; split; auto. unfold sl_ok; auto. }
    destruct (IH _ _ _ _ H H0 ltac:(lia) Hfd2) as (F3 & L3 & A3).
    splits; auto; try lia.
    eapply frame_trans; [exact F1|]. eapply frame_trans; eauto.
Qed.

Lemma append_data_ok n0 k h a b aLen bLen h' fd :
  append_data grow true k h a b aLen bLen = (h', fd) -> 0 < n0 -> n0 <= length h ->
  frame n0 h h' /\ length h <= length h' /\ amap_ok (length h') fd.
Proof.
  unfold append_data; intros H H0 Hn.
  destruct (append_data1 grow true k h a b aLen bLen) as [h1 fd1] eqn:E1.
  destruct (append_data1_ok n0 _ _ _ _ _ _ _ _ E1 Hn) as (F1 & L1 & A1).
  destruct (append_data2_ok n0 _ _ _ _ _ _ _ H H0 ltac:(lia) A1) as (F2 & L2 & A2).
  splits; try lia; [eapply frame_trans; eauto|].
  eapply Forall_impl; [|exact A2]. intros e [_ B]; exact B.
Qed.

Lemma append_slices_ok n0 h a b h' s :
  append_slices grow true h a b = (h', s) -> n0 <= length h ->
  frame n0 h h' /\ length h <= length h' /\ owned n0 s /\ ptr s < length h'.
Proof.
  unfold append_slices; intros H Hn.
  destruct (new_slice h [] (len a + len b)) as [h0 s0] eqn:E0.
  destruct (go_append grow h0 s0 (read h0 a)) as [h1 s1] eqn:E1.
  destruct (new_slice_ok n0 _ _ _ _ _ E0 Hn) as (F0 & L0 & P0).
  assert (O0 : owned n0 s0) by (unfold owned; lia).
  destruct (go_append_ok n0 _ _ _ _ _ E1 ltac:(lia) (or_introl O0)) as (F1 & L1 & W1 & O1 & B1).
  destruct (go_append_ok n0 _ _ _ _ _ H ltac:(lia) W1) as (F2 & L2 & W2 & O2 & B2).
  splits; auto; try lia; try (apply B2, B1; lia).
  eapply frame_trans; [exact F0|]. eapply frame_trans; eauto.
Qed.

Lemma mesh_append_ok n0 h m o h' r :
  mesh_append grow true h m o = (h', r) -> 0 < n0 -> n0 <= length h ->
  frame n0 h h' /\ length h <= length h' /\ mesh_ok (length h') r.
Proof.
  unfold mesh_append; intros H H0 Hn.
  destruct (append_data grow true K1 h (v1 m) (v1 o) (attr_length m) (attr_length o)) as [h1 f1] eqn:E1.
  destruct (append_data grow true K2 h1 (v2 m) (v2 o) (attr_length m) (attr_length o)) as [h2 f2] eqn:E2.
  destruct (append_data grow true K3 h2 (v3 m) (v3 o) (attr_length m) (attr_length o)) as [h3 f3] eqn:E3.
  destruct (append_data grow true K4 h3 (v4 m) (v4 o) (attr_length m) (attr_length o)) as [h4 f4] eqn:E4.
  destruct (append_slices grow true h4 (idx m) (idx o)) as [h5 tris] eqn:E5.
  destruct (append_slices grow true h5 (mats m) (mats o)) as [h6 ms] eqn:E6.
  injection H as <- <-.
  destruct (append_data_ok n0 _ _ _ _ _ _ _ _ E1 H0 Hn) as (F1 & L1 & A1).
  destruct (append_data_ok n0 _ _ _ _ _ _ _ _ E2 H0 ltac:(lia)) as (F2 & L2 & A2).
  destruct (append_data_ok n0 _ _ _ _ _ _ _ _ E3 H0 ltac:(lia)) as (F3 & L3 & A3).
  destruct (append_data_ok n0 _ _ _ _ _ _ _ _ E4 H0 ltac:(lia)) as (F4 & L4 & A4).
  destruct (append_slices_ok n0 _ _ _ _ _ E5 ltac:(lia)) as (F5 & L5 & O5 & B5).
  destruct (append_slices_ok n0 _ _ _ _ _ E6 ltac:(lia)) as (F6 & L6 & O6 & B6).
  destruct (add_range_ok n0 h6 tris (len (idx m)) (Z.of_nat (attr_length m)) O5) as (F7 & L7).
  rewrite L7.
  splits; simpl; try lia.
  - eapply frame_trans; [exact F1|]. eapply frame_trans; [exact F2|]. eapply frame_trans; [exact F3|].
    eapply frame_trans; [exact F4|]. eapply frame_trans; [exact F5|]. eapply frame_trans; eauto.
  - unfold sl_ok; lia.
  - exact B6.
  - eapply amap_ok_mono; [|exact A1]; lia.
  - eapply amap_ok_mono; [|exact A2]; lia.
  - eapply amap_ok_mono; [|exact A3]; lia.
  - eapply amap_ok_mono; [|exact A4]; lia.
Qed.

(* ---------------------------------------------------------------- rebuild, repeat *)
Lemma rebuild_ok n0 h m is drop t ix ms h' r :
  rebuild grow h m is drop t ix ms = (h', r) -> 0 < n0 -> n0 <= length h ->
  sl_ok (length h) ix -> sl_ok (length h) ms ->
  frame n0 h h' /\ length h <= length h' /\ mesh_ok (length h') r.
Proof.
  unfold rebuild; intros H H0 Hn Hix Hms.
  destruct (build_map grow h (gather_map h (v4 m) is) drop) as [h1 f4] eqn:E1.
  destruct (build_map grow h1 (gather_map h (v3 m) is) drop) as [h2 f3] eqn:E2.
  destruct (build_map grow h2 (gather_map h (v2 m) is) drop) as [h3 f2] eqn:E3.
  destruct (build_map grow h3 (gather_map h (v1 m) is) drop) as [h4 f1] eqn:E4.
  injection H as <- <-.
  destruct (build_map_ok n0 _ _ _ _ _ E1 H0 Hn) as (F1 & L1 & A1).
  destruct (build_map_ok n0 _ _ _ _ _ E2 H0 ltac:(lia)) as (F2 & L2 & A2).
  destruct (build_map_ok n0 _ _ _ _ _ E3 H0 ltac:(lia)) as (F3 & L3 & A3).
  destruct (build_map_ok n0 _ _ _ _ _ E4 H0 ltac:(lia)) as (F4 & L4 & A4).
  splits; simpl; try lia.
  - eapply frame_trans; [exact F1|]. eapply frame_trans; [exact F2|]. eapply frame_trans; eauto.
  - eapply sl_ok_mono; [|exact Hix]; lia.
  - eapply sl_ok_mono; [|exact Hms]; lia.
  - exact A4.
  - eapply amap_ok_mono; [|exact A3]; lia.
  - eapply amap_ok_mono; [|exact A2]; lia.
  - eapply amap_ok_mono; [|exact A1]; lia.
Qed.

Lemma alloc_map_ok n0 cont : forall h h' a,
  alloc_map h cont = (h', a) -> n0 <= length h ->
  frame n0 h h' /\ length h <= length h' /\ amap_ok (length h') a.
Proof.
  induction cont as [|[name xs] r IH]; cbn [alloc_map]; intros h h' a H Hn.
  - injection H as <- <-. splits; auto. constructor.
  - destruct (new_slice h xs 0) as [h1 s] eqn:E1.
    destruct (alloc_map h1 r) as [h2 a2] eqn:E2.
    injection H as <- <-.
    destruct (new_slice_ok n0 _ _ _ _ _ E1 Hn) as (F1 & L1 & P1).
    destruct (IH _ _ _ E2 ltac:(lia)) as (F2 & L2 & A2).
    splits; try lia; [eapply frame_trans; eauto|].
    apply amap_set_Forall; auto. unfold sl_ok; simpl; lia.
Qed.

Lemma copy_map_ok n0 h a h' c :
  copy_map grow h a = (h', c) -> 0 < n0 -> n0 <= length h ->
  frame n0 h h' /\ length h <= length h' /\ amap_ok (length h') c.
Proof. unfold copy_map. apply build_map_ok. Qed.

Lemma with_idx_ok n m s : mesh_ok n m -> sl_ok n s -> mesh_ok n (with_idx m s).
Proof. intros (A & B & C & D & E & F) Hs. unfold with_idx. splits; cbn [idx mats v1 v2 v3 v4]; auto. Qed.
Lemma with_mats_ok n m s : mesh_ok n m -> sl_ok n s -> mesh_ok n (with_mats m s).
Proof. intros (A & B & C & D & E & F) Hs. unfold with_mats. splits; cbn [idx mats v1 v2 v3 v4]; auto. Qed.

Lemma remove_unref_ok n0 h m h' r :
  remove_unref grow h m = Some (h', r) -> 0 < n0 -> n0 <= length h -> mesh_ok (length h) m ->
  frame n0 h h' /\ length h <= length h' /\ mesh_ok (length h') r.
Proof.
  unfold remove_unref; intros H H0 Hn Hm.
  destruct (all_below (idx_nats h m) (attr_length m)); [|discriminate].
  destruct (rebuild grow h m _ true (topo m) nil_slice (mats m)) as [h1 x] eqn:E1.
  destruct (new_slice h1 _ 0) as [h2 s] eqn:E2.
  injection H as <- <-.
  destruct Hm as (A & B & _).
  destruct (rebuild_ok n0 _ _ _ _ _ _ _ _ _ E1 H0 Hn) as (F1 & L1 & A1); auto.
  { apply nil_ok; lia. }
  destruct (new_slice_ok n0 _ _ _ _ _ E2 ltac:(lia)) as (F2 & L2 & P2).
  split; [eapply frame_trans; eauto|]. split; [lia|].
  apply with_idx_ok; [eapply mesh_ok_mono; [|exact A1]; lia | unfold sl_ok; lia].
Qed.

Lemma multi_loop_ok n0 m parts : forall h h' rs,
  multi_loop grow h m parts = Some (h', rs) -> 0 < n0 -> n0 <= length h -> mesh_ok (length h) m ->
  frame n0 h h' /\ length h <= length h' /\ Forall (mesh_ok (length h')) rs.
Proof.
  induction parts as [|[ix omat] r IH]; cbn [multi_loop]; intros h h' rs H H0 Hn Hm.
  - injection H as <- <-. splits; auto.
  - destruct (append_chunks grow h nil_slice (triples ix)) as [h1 s] eqn:E1.
    destruct (append_chunks_ok n0 _ _ _ _ _ E1 Hn (nil_wr n0)) as (F1 & L1 & _ & _ & B1).
    assert (Hs : ptr s < length h1) by (apply B1; simpl; lia).
    destruct (match omat with None => (h1, mats m) | Some mat => new_slice h1 _ 0 end) as [h2 ms] eqn:E2.
    assert (X : frame n0 h1 h2 /\ length h1 <= length h2 /\ sl_ok (length h2) ms).
    { destruct omat.
      - destruct (new_slice_ok n0 _ _ _ _ _ E2 ltac:(lia)) as (F2 & L2 & P2). splits; auto; try lia. unfold sl_ok; lia.
      - injection E2 as <- <-. splits; auto. destruct Hm as (_ & B & _). eapply sl_ok_mono; [|exact B]; lia. }
    destruct X as (F2 & L2 & M2).
    destruct (remove_unref grow h2 _) as [[h3 x]|] eqn:E3; [|discriminate].
    destruct (multi_loop grow h3 m r) as [[h4 xs]|] eqn:E4; [|discriminate].
    injection H as <- <-.
    assert (Hm2 : mesh_ok (length h2) m) by (eapply mesh_ok_mono; [|exact Hm]; lia).
    destruct (remove_unref_ok n0 _ _ _ _ E3 H0 ltac:(lia)) as (F3 & L3 & A3).
    { apply with_mats_ok; auto. apply with_idx_ok; auto. unfold sl_ok; lia. }
    destruct (IH _ _ _ E4 H0 ltac:(lia)) as (F4 & L4 & A4).
    { eapply mesh_ok_mono; [|exact Hm2]; lia. }
    splits; try lia.
    + eapply frame_trans; [exact F1|]. eapply frame_trans; [exact F2|]. eapply frame_trans; eauto.
    + constructor; auto. eapply mesh_ok_mono; [|exact A3]; lia.
Qed.

Lemma repeat_loop_ok n0 src pid vals : forall h acc h' r,
  repeat_loop grow true h src acc pid vals = (h', r) -> 0 < n0 -> n0 <= length h ->
  mesh_ok (length h) src -> mesh_ok (length h) acc ->
  frame n0 h h' /\ length h <= length h' /\ mesh_ok (length h') r.
Proof.
  induction vals as [|v rest IH]; cbn [repeat_loop]; intros h acc h' r H H0 Hn Hsrc Hacc.
  - injection H as <- <-. splits; auto.
  - set (n := match amap_get (v3 src) pid with Some s => len s | None => 0 end) in *.
    destruct (new_slice h (apply_fn (FConst v) (repeat [] n)) 0) as [h1 s] eqn:E1.
    destruct (mesh_append grow true h1 acc (set_attr src K3 pid s)) as [h2 acc'] eqn:E2.
    destruct (new_slice_ok n0 _ _ _ _ _ E1 Hn) as (F1 & L1 & P1).
    destruct (mesh_append_ok n0 _ _ _ _ _ E2 H0 ltac:(lia)) as (F2 & L2 & A2).
    destruct (IH _ _ _ _ H H0 ltac:(lia)) as (F3 & L3 & A3); auto.
    { eapply mesh_ok_mono; [|exact Hsrc]; lia. }
    splits; auto; try lia.
    eapply frame_trans; [exact F1|]. eapply frame_trans; eauto.
Qed.

(* ---------------------------------------------------------------- one operation *)
Definition pool_ok (n : nat) (p : list mesh) : Prop := Forall (mesh_ok n) p.

Lemma pool_get n p i m : pool_ok n p -> nth_error p i = Some m -> mesh_ok n m.
Proof. intros Hp H. eapply Forall_forall; [exact Hp|]. eapply nth_error_In; eauto. Qed.

Ltac new1 E n0 Hn :=
  match type of E with new_slice ?h ?xs ?sp = (?h1, ?s) =>
    let F := fresh "F" in let L := fresh "L" in let P := fresh "P" in
    destruct (new_slice_ok n0 _ _ _ _ _ E Hn) as (F & L & P)
  end.

Ltac leaf :=
  try solve [ auto | lia | apply Forall_nil | unfold sl_ok, cube_slice in *; simpl in *; lia
            | match goal with H : forall n, _ -> sl_ok n nil_slice |- _ => apply H; lia end
            | eapply frame_trans; eauto ].

(* every operation of the repaired tree: old arrays untouched, result references existing arrays only *)
Lemma exec_ok h p o :
  1 < length h -> pool_ok (length h) p ->
  match exec grow true h p o with
  | RNew h' m => frame (length h) h h' /\ length h <= length h' /\ mesh_ok (length h') m
  | RMany h' ms => frame (length h) h h' /\ length h <= length h' /\ Forall (mesh_ok (length h')) ms
  | RSame h' => h' = h
  | RErr _ => True
  end.
Proof.
  intros H1 Hp. assert (H0 : 0 < length h) by lia.
  assert (Hn : length h <= length h) by lia.
  assert (Hnil : forall n, (length h) <= n -> sl_ok n nil_slice) by (intros; apply nil_ok; lia).
  assert (Hget : forall i m n, nth_error p i = Some m -> length h <= n -> mesh_ok n m).
  { intros i m n G L. eapply mesh_ok_mono; [exact L|]. eapply pool_get; eauto. }
  destruct o; cbn [exec].
  - (* ONew *)
    destruct (new_slice h ix spare) as [h1 s] eqn:E. new1 E (length h) Hn.
    splits; cbn [idx mats v1 v2 v3 v4]; leaf.
  - (* OEmpty *)
    splits; cbn [idx mats v1 v2 v3 v4]; leaf.
  - (* OCube *)
    destruct (new_slice h pos 0) as [h1 sp] eqn:E1. destruct (new_slice h1 nrm 0) as [h2 sn] eqn:E2.
    new1 E1 (length h) Hn. assert (Hn1 : (length h) <= length h1) by lia. new1 E2 (length h) Hn1.
    splits; cbn [idx mats v1 v2 v3 v4]; leaf.
    apply amap_set_Forall; [apply amap_set_Forall; [constructor|]|]; unfold sl_ok; simpl; lia.
  - (* OAppend *)
    destruct (nth_error p i) as [m|] eqn:Gi; auto. destruct (nth_error p j) as [o|] eqn:Gj; auto.
    destruct (topo_eqb (topo m) (topo o)); auto.
    destruct (mesh_append grow true h m o) as [h1 r] eqn:E.
    exact (mesh_append_ok (length h) _ _ _ _ _ E H0 Hn).
  - (* OSetAttr *)
    destruct (nth_error p i) as [m|] eqn:Gi; auto.
    destruct (new_slice h data spare) as [h1 s] eqn:E. new1 E (length h) Hn.
    split; [auto|]. split; [lia|]. apply set_attr_ok; [|unfold sl_ok; lia].
    eapply Hget; eauto; lia.
  - (* OCopyAttr *)
    destruct (nth_error p i) as [m|] eqn:Gi; auto. destruct (nth_error p j) as [src|] eqn:Gj; auto.
    split; [auto|]. split; [lia|].
    apply set_attr_ok; [eapply Hget; eauto|].
    destruct (amap_get (vget src k) name) as [s|] eqn:G; [|apply Hnil; auto].
    eapply amap_get_ok; [|exact G]. apply vget_ok. eapply Hget; eauto.
  - (* OSetIndices *)
    destruct (nth_error p i) as [m|] eqn:Gi; auto.
    destruct (new_slice h ix spare) as [h1 s] eqn:E. new1 E (length h) Hn.
    assert (Hm : mesh_ok (length h1) m) by (eapply Hget; eauto; lia).
    destruct Hm as (A & B & C & D & E' & G).
    splits; cbn [idx mats v1 v2 v3 v4]; leaf.
  - (* OSetMaterial *)
    destruct (nth_error p i) as [m|] eqn:Gi; auto.
    destruct (new_slice h _ 0) as [h1 s] eqn:E. new1 E (length h) Hn.
    assert (Hm : mesh_ok (length h1) m) by (eapply Hget; eauto; lia).
    destruct Hm as (A & B & C & D & E' & G).
    splits; cbn [idx mats v1 v2 v3 v4]; leaf.
  - (* OSetMaterials *)
    destruct (nth_error p i) as [m|] eqn:Gi; auto.
    destruct (new_slice h ms spare) as [h1 s] eqn:E. new1 E (length h) Hn.
    assert (Hm : mesh_ok (length h1) m) by (eapply Hget; eauto; lia).
    destruct Hm as (A & B & C & D & E' & G).
    splits; cbn [idx mats v1 v2 v3 v4]; leaf.
  - (* OClearAttrs *)
    destruct (nth_error p i) as [m|] eqn:Gi; auto.
    destruct (Hget _ _ _ Gi (le_n _)) as (A & B & _).
    splits; cbn [idx mats v1 v2 v3 v4]; leaf.
  - (* OMap *)
    destruct (nth_error p i) as [m|] eqn:Gi; auto.
    destruct (has_topo req (topo m)); auto.
    destruct (amap_get (vget m k) src) as [old|]; auto.
    destruct (negb tris || _); auto.
    destruct (new_slice h _ 0) as [h1 s] eqn:E. new1 E (length h) Hn.
    split; [auto|]. split; [lia|]. apply set_attr_ok; [|unfold sl_ok; lia].
    eapply Hget; eauto; lia.
  - (* OToPoints *)
    destruct (nth_error p i) as [m|] eqn:Gi; auto.
    assert (X : forall h1 s, new_slice h (map nat_cell (seq 0 (attr_length m))) 0 = (h1, s) ->
                frame (length h) h h1 /\ length h <= length h1 /\
                mesh_ok (length h1) (mkMesh Point s (mats m) (v1 m) (v2 m) (v3 m) (v4 m))).
    { intros h1 s E. new1 E (length h) Hn.
      assert (Hm : mesh_ok (length h1) m) by (eapply Hget; eauto; lia).
      destruct Hm as (A & B & C & D & E' & G).
      splits; cbn [idx mats v1 v2 v3 v4]; leaf. }
    destruct (topo m); try (destruct (new_slice h _ 0) as [h1 s] eqn:E; apply X; reflexivity).
    split; [auto|]. split; [lia|]. eapply Hget; eauto.
  - (* OFlip *)
    destruct (nth_error p i) as [m|] eqn:Gi; auto.
    destruct (topo_eqb (topo m) Triangle); auto. destruct (len (idx m) mod 3 =? 0); auto.
    destruct (new_slice h _ 0) as [h1 s] eqn:E. new1 E (length h) Hn.
    assert (Hm : mesh_ok (length h1) m) by (eapply Hget; eauto; lia).
    destruct Hm as (A & B & C & D & E' & G).
    splits; cbn [idx mats v1 v2 v3 v4]; leaf.
  - (* OUnweld *)
    destruct (nth_error p i) as [m|] eqn:Gi; auto.
    destruct (maps_in_range h m (idx_nats h m)); auto.
    destruct (new_slice h _ 0) as [h1 s] eqn:E. new1 E (length h) Hn.
    destruct (rebuild grow h1 m (idx_nats h m) false (topo m) s (mats m)) as [h2 r] eqn:E2.
    assert (Hm : mesh_ok (length h1) m) by (eapply Hget; eauto; lia).
    destruct Hm as (A & B & _).
    destruct (rebuild_ok (length h) _ _ _ _ _ _ _ _ _ E2 H0 ltac:(lia)) as (F2 & L2 & A2); auto; try (unfold sl_ok; lia).
    splits; leaf.
  - (* ORemoveUnref *)
    destruct (nth_error p i) as [m|] eqn:Gi; auto.
    destruct (remove_unref grow h m) as [[h1 r]|] eqn:E; auto.
    apply (remove_unref_ok (length h) _ _ _ _ E H0 Hn). eapply Hget; eauto.
  - (* OWeld *)
    destruct (nth_error p i) as [m|] eqn:Gi; auto.
    destruct (amap_get (v3 m) name) as [data|]; auto.
    destruct (topo_eqb (topo m) Triangle); auto.
    destruct ((len (idx m) mod 3 =? 0) && _); auto.
    destruct (append_chunks grow h nil_slice (triples newidx)) as [h1 s] eqn:E1.
    destruct (rebuild grow h1 m keep false (topo m) s nil_slice) as [h2 r] eqn:E2.
    destruct (append_chunks_ok (length h) _ _ _ _ _ E1 Hn (nil_wr (length h))) as (F1 & L1 & _ & _ & B1).
    destruct (rebuild_ok (length h) _ _ _ _ _ _ _ _ _ E2 H0 ltac:(lia)) as (F2 & L2 & A2); auto;
      try (apply B1; simpl; lia); try (apply Hnil; lia).
    splits; leaf.
  - (* ORepeat *)
    destruct (nth_error p i) as [m|] eqn:Gi; auto.
    assert (X : forall h1 r,
      repeat_loop grow true h m (mkMesh (topo m) nil_slice nil_slice [] [] [] []) pid vals = (h1, r) ->
      frame (length h) h h1 /\ length h <= length h1 /\ mesh_ok (length h1) r).
    { intros h1 r E. apply (repeat_loop_ok (length h) _ _ _ _ _ _ _ E H0 Hn).
      - eapply Hget; eauto.
      - splits; cbn [idx mats v1 v2 v3 v4]; leaf. }
    destruct vals as [|v vs].
    + destruct (repeat_loop grow true h m _ pid []) as [h1 r] eqn:E. apply X; reflexivity.
    + destruct (amap_get (v3 m) pid); auto.
      destruct (repeat_loop grow true h m _ pid (v :: vs)) as [h1 r] eqn:E. apply X; reflexivity.
  - (* OExport *)
    destruct (nth_error p i); auto.
  - (* OSetData *)
    destruct (nth_error p i) as [m|] eqn:Gi; auto.
    destruct (alloc_map h cont) as [h1 a] eqn:E.
    destruct (alloc_map_ok (length h) _ _ _ _ E Hn) as (F1 & L1 & A1).
    split; [auto|]. split; [lia|]. apply vset_ok; auto. eapply Hget; eauto.
  - (* OIdent *)
    destruct (nth_error p i) as [m|] eqn:Gi; auto.
    split; [auto|]. split; [lia|]. eapply Hget; eauto.
  - (* OFilter *)
    destruct (nth_error p i) as [m|] eqn:Gi; auto.
    destruct (has_topo req (topo m)); auto.
    destruct (amap_get (vget m k) name) as [old|]; auto.
    destruct (append_each grow h nil_slice keepidx) as [h1 s] eqn:E1.
    destruct (append_chunks_ok (length h) _ _ _ _ _ E1 Hn (nil_wr (length h))) as (F1 & L1 & _ & _ & B1).
    destruct (remove_unref grow h1 (with_idx m s)) as [[h2 r]|] eqn:E2; auto.
    destruct (remove_unref_ok (length h) _ _ _ _ E2 H0 ltac:(lia)) as (F2 & L2 & A2).
    { apply with_idx_ok; [eapply Hget; eauto | apply B1; simpl; lia]. }
    splits; leaf.
  - (* OCrop *)
    destruct (nth_error p i) as [m|] eqn:Gi; auto.
    destruct (topo_eqb (topo m) Point); auto.
    destruct (amap_get (v3 m) name) as [old|]; auto.
    destruct (rebuild grow h m keep true Point nil_slice (mats m)) as [h1 r] eqn:E1.
    destruct (new_slice h1 _ 0) as [h2 s'] eqn:E2.
    destruct (Hget _ _ _ Gi (le_n _)) as (A & B & _).
    destruct (rebuild_ok (length h) _ _ _ _ _ _ _ _ _ E1 H0 Hn) as (F1 & L1 & A1); auto.
    assert (Hn1 : (length h) <= length h1) by lia. new1 E2 (length h) Hn1.
    split; [eapply frame_trans; eauto|]. split; [lia|].
    apply with_idx_ok; [eapply mesh_ok_mono; [|exact A1]; lia | unfold sl_ok; lia].
  - (* OMulti *)
    destruct (nth_error p i) as [m|] eqn:Gi; auto.
    destruct (has_topo req (topo m) && _); auto.
    destruct (copy_map grow h (v4 m)) as [h1 c4] eqn:E1.
    destruct (copy_map grow h1 (v3 m)) as [h2 c3] eqn:E2.
    destruct (copy_map grow h2 (v2 m)) as [h3 c2] eqn:E3.
    destruct (copy_map grow h3 (v1 m)) as [h4 c1] eqn:E4.
    destruct (copy_map_ok (length h) _ _ _ _ E1 H0 Hn) as (F1 & L1 & A1).
    destruct (copy_map_ok (length h) _ _ _ _ E2 H0 ltac:(lia)) as (F2 & L2 & A2).
    destruct (copy_map_ok (length h) _ _ _ _ E3 H0 ltac:(lia)) as (F3 & L3 & A3).
    destruct (copy_map_ok (length h) _ _ _ _ E4 H0 ltac:(lia)) as (F4 & L4 & A4).
    destruct (multi_loop grow h4 _ parts) as [[h5 rs]|] eqn:E5; auto.
    destruct (Hget _ _ (length h4) Gi ltac:(lia)) as (A & B & _).
    destruct (multi_loop_ok (length h) _ _ _ _ _ E5 H0 ltac:(lia)) as (F5 & L5 & A5).
    { splits; cbn [idx mats v1 v2 v3 v4]; auto.
      - eapply amap_ok_mono; [|exact A3]; lia.
      - eapply amap_ok_mono; [|exact A2]; lia.
      - eapply amap_ok_mono; [|exact A1]; lia. }
    splits; auto; try lia.
    eapply frame_trans; [exact F1|]. eapply frame_trans; [exact F2|]. eapply frame_trans; [exact F3|].
    eapply frame_trans; [exact F4|]. exact F5.
  - (* OBuild *)
    destruct (new_slice h ix 0) as [h1 s] eqn:E1. destruct (new_slice h1 ms 0) as [h2 sm] eqn:E2.
    destruct (alloc_map h2 c4) as [h3 a4] eqn:E3. destruct (alloc_map h3 c3) as [h4 a3] eqn:E4.
    destruct (alloc_map h4 c2) as [h5 a2] eqn:E5. destruct (alloc_map h5 c1) as [h6 a1] eqn:E6.
    new1 E1 (length h) Hn. assert (Hn1 : length h <= length h1) by lia. new1 E2 (length h) Hn1.
    destruct (alloc_map_ok (length h) _ _ _ _ E3 ltac:(lia)) as (F3 & L3 & A3).
    destruct (alloc_map_ok (length h) _ _ _ _ E4 ltac:(lia)) as (F4 & L4 & A4).
    destruct (alloc_map_ok (length h) _ _ _ _ E5 ltac:(lia)) as (F5 & L5 & A5).
    destruct (alloc_map_ok (length h) _ _ _ _ E6 ltac:(lia)) as (F6 & L6 & A6).
    splits; cbn [idx mats v1 v2 v3 v4]; try lia.
    + eapply frame_trans; [exact F|]. eapply frame_trans; [exact F0|]. eapply frame_trans; [exact F3|].
      eapply frame_trans; [exact F4|]. eapply frame_trans; [exact F5|]. exact F6.
    + unfold sl_ok; lia.
    + unfold sl_ok; lia.
    + exact A6.
    + eapply amap_ok_mono; [|exact A5]; lia.
    + eapply amap_ok_mono; [|exact A4]; lia.
    + eapply amap_ok_mono; [|exact A3]; lia.
  - (* OShareMats *)
    destruct (nth_error p i) as [m|] eqn:Gi; auto. destruct (nth_error p j) as [src|] eqn:Gj; auto.
    split; [auto|]. split; [lia|].
    apply with_mats_ok; [eapply Hget; eauto|].
    destruct (Hget _ _ _ Gj (le_n _)) as (_ & B & _). exact B.
Qed.

(* ---------------------------------------------------------------- states and histories *)
(* maps are heap objects: a pool member names its maps by ids; the table of maps only ever grows at its end *)
Definition gmesh_ok (n nm : nat) (g : gmesh) : Prop :=
  sl_ok n (g_idx g) /\ sl_ok n (g_mats g) /\ g_v1 g < nm /\ g_v2 g < nm /\ g_v3 g < nm /\ g_v4 g < nm.
Definition maps_ok (n : nat) (mh : mheap) : Prop := Forall (amap_ok n) mh.
Definition inv (st : state) : Prop :=
  1 < length (heap_of st) /\ 0 < length (maps_of st) /\ maps_ok (length (heap_of st)) (maps_of st) /\
  Forall (gmesh_ok (length (heap_of st)) (length (maps_of st))) (pool st).

Lemma init_inv : inv init.
Proof. unfold inv; simpl. repeat split; try lia; repeat constructor. Qed.

Lemma mget_ok n mh id : maps_ok n mh -> amap_ok n (mget mh id).
Proof.
  intros Hm. unfold mget. destruct (nth_in_or_default id mh []) as [Hin | ->]; [|constructor].
  eapply Forall_forall in Hm; eauto.
Qed.

Lemma load_ok n nm mh g : maps_ok n mh -> gmesh_ok n nm g -> mesh_ok n (load mh g).
Proof.
  intros Hm (A & B & _). unfold load. splits; cbn [idx mats v1 v2 v3 v4]; auto using mget_ok.
Qed.

Lemma maps_ok_mono n n' mh : n <= n' -> maps_ok n mh -> maps_ok n' mh.
Proof. intros L. apply Forall_impl. intros a. apply amap_ok_mono; auto. Qed.

Lemma gmesh_ok_mono n n' nm nm' g : n <= n' -> nm <= nm' -> gmesh_ok n nm g -> gmesh_ok n' nm' g.
Proof. intros L L' (A & B & C & D & E & F). unfold gmesh_ok, sl_ok in *. repeat split; lia. Qed.

(* a member whose map ids exist sees the same maps after the table grew at its end *)
Lemma load_app mh ml g nm n : gmesh_ok n nm g -> nm <= length mh -> load (mh ++ ml) g = load mh g.
Proof.
  intros (_ & _ & C & D & E & F) L. unfold load, mget. rewrite !app_nth1 by lia. reflexivity.
Qed.

Lemma place_ok n mh pl shared a mh' id :
  place mh pl shared a = (mh', id) -> 0 < length mh -> shared < length mh -> maps_ok n mh -> amap_ok n a ->
  (exists ml, mh' = mh ++ ml) /\ length mh <= length mh' /\ maps_ok n mh' /\ id < length mh'.
Proof.
  intros E H0 Hs Hm Ha. destruct pl; injection E as <- <-.
  - split; [exists []; rewrite app_nil_r; auto|]. auto.
  - split; [exists [a]; auto|]. rewrite app_length; simpl. split; [lia|]. split; [|lia].
    apply Forall_app; split; auto.
  - split; [exists []; rewrite app_nil_r; auto|]. auto.
Qed.

Lemma commit_ok n mh o g0 m mh' g :
  commit mh o g0 m = (mh', g) -> 0 < length mh -> gmesh_ok n (length mh) g0 -> maps_ok n mh -> mesh_ok n m ->
  (exists ml, mh' = mh ++ ml) /\ length mh <= length mh' /\ maps_ok n mh' /\ gmesh_ok n (length mh') g.
Proof.
  unfold commit. intros E H0 (_ & _ & G1 & G2 & G3 & G4) Hm (A & B & C1 & C2 & C3 & C4).
  destruct (place mh (map_plan o K1) (g_v1 g0) (v1 m)) as [mh1 i1] eqn:E1.
  destruct (place mh1 (map_plan o K2) (g_v2 g0) (v2 m)) as [mh2 i2] eqn:E2.
  destruct (place mh2 (map_plan o K3) (g_v3 g0) (v3 m)) as [mh3 i3] eqn:E3.
  destruct (place mh3 (map_plan o K4) (g_v4 g0) (v4 m)) as [mh4 i4] eqn:E4.
  injection E as <- <-.
  destruct (place_ok n _ _ _ _ _ _ E1 H0 G1 Hm C1) as ((l1 & P1) & L1 & M1 & I1).
  destruct (place_ok n _ _ _ _ _ _ E2 ltac:(lia) ltac:(lia) M1 C2) as ((l2 & P2) & L2 & M2 & I2).
  destruct (place_ok n _ _ _ _ _ _ E3 ltac:(lia) ltac:(lia) M2 C3) as ((l3 & P3) & L3 & M3 & I3).
  destruct (place_ok n _ _ _ _ _ _ E4 ltac:(lia) ltac:(lia) M3 C4) as ((l4 & P4) & L4 & M4 & I4).
  split; [exists (l1 ++ l2 ++ l3 ++ l4); subst; rewrite <- !app_assoc; reflexivity|].
  split; [lia|]. split; [exact M4|].
  unfold gmesh_ok; cbn [g_idx g_mats g_v1 g_v2 g_v3 g_v4]. repeat split; auto; lia.
Qed.

Lemma commit_all_ok n o g0 ms : forall mh mh' gs,
  commit_all mh o g0 ms = (mh', gs) -> 0 < length mh -> gmesh_ok n (length mh) g0 -> maps_ok n mh ->
  Forall (mesh_ok n) ms ->
  (exists ml, mh' = mh ++ ml) /\ length mh <= length mh' /\ maps_ok n mh' /\ Forall (gmesh_ok n (length mh')) gs.
Proof.
  induction ms as [|m r IH]; cbn [commit_all]; intros mh mh' gs E H0 G Hm Hms.
  - injection E as <- <-. split; [exists []; rewrite app_nil_r; auto|]. auto.
  - destruct (commit mh o g0 m) as [mh1 g] eqn:E1. destruct (commit_all mh1 o g0 r) as [mh2 gs2] eqn:E2.
    injection E as <- <-. inversion Hms as [|? ? Hm1 Hr]; subst.
    destruct (commit_ok n _ _ _ _ _ _ E1 H0 G Hm Hm1) as ((l1 & P1) & L1 & M1 & G1).
    destruct (IH _ _ _ E2 ltac:(lia) ltac:(eapply gmesh_ok_mono; [| |exact G]; lia) M1 Hr) as ((l2 & P2) & L2 & M2 & G2).
    split; [exists (l1 ++ l2); subst; rewrite <- app_assoc; reflexivity|].
    split; [lia|]. split; auto. constructor; auto. eapply gmesh_ok_mono; [| |exact G1]; lia.
Qed.

Lemma nilg_ok n nm : 0 < n -> 0 < nm -> gmesh_ok n nm nilg.
Proof. intros. unfold gmesh_ok, nilg, sl_ok; simpl. repeat split; lia. Qed.

Lemma step_facts st o :
  inv st ->
  let st' := fst (step grow true st o) in
  inv st' /\ frame (length (heap_of st)) (heap_of st) (heap_of st') /\
  (exists ml, maps_of st' = maps_of st ++ ml) /\
  exists l, pool st' = pool st ++ l.
Proof.
  intros (H1 & H0 & Hm & Hp). unfold step.
  set (h := heap_of st) in *. set (mh := maps_of st) in *. set (p := pool st) in *.
  assert (Hlp : pool_ok (length h) (map (load mh) p)).
  { unfold pool_ok. rewrite Forall_map. eapply Forall_impl; [|exact Hp]. intros g Hg. eapply load_ok; eauto. }
  assert (G0 : gmesh_ok (length h) (length mh) (nth (operand o) p nilg)).
  { destruct (nth_in_or_default (operand o) p nilg) as [Hin | ->]; [|apply nilg_ok; lia].
    eapply Forall_forall in Hp; eauto. }
  pose proof (exec_ok h (map (load mh) p) o H1 Hlp) as X.
  destruct (exec grow true h (map (load mh) p) o) as [h' m|h' ms|h'|c]; cbn [fst].
  - destruct X as (F & L & M).
    destruct (commit mh o (nth (operand o) p nilg) m) as [mh' g] eqn:E. cbn [fst heap_of maps_of pool].
    destruct (commit_ok (length h') _ _ _ _ _ _ E H0 ltac:(eapply gmesh_ok_mono; [| |exact G0]; lia)
                ltac:(eapply maps_ok_mono; [|exact Hm]; lia) M) as ((ml & P) & Lm & Mm & Gm).
    split; [|split; [exact F | split; [exists ml; exact P | exists [g]; reflexivity]]].
    unfold inv; cbn [heap_of maps_of pool]. repeat split; try lia; auto.
    apply Forall_app; split; [|constructor; [exact Gm|constructor]].
    eapply Forall_impl; [|exact Hp]. intros a; apply gmesh_ok_mono; lia.
  - destruct X as (F & L & M).
    destruct (commit_all mh o (nth (operand o) p nilg) ms) as [mh' gs] eqn:E. cbn [fst heap_of maps_of pool].
    destruct (commit_all_ok (length h') _ _ _ _ _ _ E H0 ltac:(eapply gmesh_ok_mono; [| |exact G0]; lia)
                ltac:(eapply maps_ok_mono; [|exact Hm]; lia) M) as ((ml & P) & Lm & Mm & Gm).
    split; [|split; [exact F | split; [exists ml; exact P | exists gs; reflexivity]]].
    unfold inv; cbn [heap_of maps_of pool]. repeat split; try lia; auto.
    apply Forall_app; split; [|exact Gm].
    eapply Forall_impl; [|exact Hp]. intros a; apply gmesh_ok_mono; lia.
  - subst h'. cbn [heap_of maps_of pool]. split; [unfold inv; cbn [heap_of maps_of pool]; auto|].
    split; [apply frame_refl|]. split; [exists []; rewrite app_nil_r; auto | exists []; rewrite app_nil_r; auto].
  - split; [unfold inv; auto|]. split; [apply frame_refl|].
    split; [exists []; rewrite app_nil_r; auto | exists []; rewrite app_nil_r; auto].
Qed.

Lemma observe_frame n h h' m : frame n h h' -> mesh_ok n m -> observe h' m = observe h m.
Proof.
  intros F (A & B & C & D & E & G). unfold observe.
  assert (R : forall a, amap_ok n a -> read_map h' a = read_map h a).
  { intros a Ha. unfold read_map. apply map_ext_in. intros e He.
    rewrite (frame_read n h h'); auto. eapply Forall_forall in Ha; eauto. }
  rewrite !(frame_read n h h'); auto. rewrite !R; auto.
Qed.

(* one step never changes what an existing pool member reports: the arrays it references are untouched (frame) and
   the maps it references are still the same objects with the same entries (the table of maps only grew) *)
Lemma step_preserves st o k :
  inv st -> k < length (pool st) ->
  observe_member (fst (step grow true st o)) k = observe_member st k.
Proof.
  intros Hi Hk. destruct (step_facts st o Hi) as (_ & F & (ml & Hml) & l & Hl).
  unfold observe_member. rewrite Hl, nth_error_app1; auto.
  destruct (nth_error (pool st) k) as [g|] eqn:G; simpl; auto.
  destruct Hi as (_ & _ & Hm & Hp).
  assert (Hg : gmesh_ok (length (heap_of st)) (length (maps_of st)) g).
  { eapply Forall_forall; [exact Hp|]. eapply nth_error_In; eauto. }
  f_equal. rewrite Hml. rewrite (load_app _ _ _ _ _ Hg (le_n _)).
  eapply observe_frame; [exact F|]. eapply load_ok; eauto.
Qed.

Lemma run_from_inv ops : forall st, inv st -> inv (run_from grow true st ops).
Proof.
  induction ops as [|o r IH]; simpl; intros st Hi; auto.
  apply IH. apply (step_facts st o Hi).
Qed.

Lemma run_from_pool ops : forall st, inv st -> length (pool st) <= length (pool (run_from grow true st ops)).
Proof.
  induction ops as [|o r IH]; simpl; intros st Hi; auto.
  destruct (step_facts st o Hi) as (Hi' & _ & _ & l & Hl).
  specialize (IH _ Hi'). unfold run_from in *. rewrite Hl, app_length in IH. lia.
Qed.

Lemma run_from_preserves ops : forall st k,
  inv st -> k < length (pool st) ->
  observe_member (run_from grow true st ops) k = observe_member st k.
Proof.
  induction ops as [|o r IH]; simpl; intros st k Hi Hk; auto.
  destruct (step_facts st o Hi) as (Hi' & _ & _ & l & Hl).
  unfold run_from in *. rewrite IH; auto.
  - apply step_preserves; auto.
  - rewrite Hl, app_length; lia.
Qed.

Lemma firstn_split {A} (l : list A) t t' : t <= t' -> firstn t' l = firstn t l ++ firstn (t' - t) (skipn t l).
Proof.
  revert t t'; induction l as [|x l IH]; intros t t' H.
  - rewrite !firstn_nil, skipn_nil, firstn_nil; auto.
  - destruct t; [rewrite Nat.sub_0_r; auto|].
    destruct t'; [lia|]. simpl. f_equal. apply IH. lia.
Qed.

Lemma run_split ops t t' : t <= t' ->
  run grow true ops t' = run_from grow true (run grow true ops t) (firstn (t' - t) (skipn t ops)).
Proof.
  intros H. unfold run, run_from. rewrite (firstn_split ops t t' H), fold_left_app. reflexivity.
Qed.

Lemma run_inv ops t : inv (run grow true ops t).
Proof. apply run_from_inv, init_inv. Qed.

(* the table of maps is append-only along every history: no operation stores into an existing map *)
Lemma run_from_maps ops : forall st, inv st -> exists ml, maps_of (run_from grow true st ops) = maps_of st ++ ml.
Proof.
  induction ops as [|o r IH]; simpl; intros st Hi; [exists []; rewrite app_nil_r; auto|].
  destruct (step_facts st o Hi) as (Hi' & _ & (m1 & Hm1) & _).
  destruct (IH _ Hi') as (m2 & Hm2). unfold run_from in *. exists (m1 ++ m2). rewrite Hm2, Hm1, app_assoc. reflexivity.
Qed.

Theorem maps_append_only_proof : forall ops t t', t <= t' ->
  exists ml, maps_of (run grow true ops t') = maps_of (run grow true ops t) ++ ml.
Proof. intros ops t t' Ht. rewrite (run_split ops t t' Ht). apply run_from_maps, run_inv. Qed.

(* HEADLINE *)
Theorem immutable_history_proof : forall ops k t t',
  t <= t' -> k < length (pool (run grow true ops t)) ->
  observe_member (run grow true ops t') k = observe_member (run grow true ops t) k.
Proof.
  intros ops k t t' Ht Hk. rewrite (run_split ops t t' Ht).
  apply run_from_preserves; auto. apply run_inv.
Qed.

(* a member that exists at time t still exists later *)
Lemma pool_monotone ops t t' : t <= t' ->
  length (pool (run grow true ops t)) <= length (pool (run grow true ops t')).
Proof. intros Ht. rewrite (run_split ops t t' Ht). apply run_from_pool, run_inv. Qed.

(* two derivations o1, o2 from a reachable state (typically from the same base), in either order: the mesh made
   first is not changed by making the second, and no older member is changed by either *)
Theorem siblings_independent_proof : forall ops t o1 o2,
  let st := run grow true ops t in
  let n := length (pool st) in
  let s1 := fst (step grow true st o1) in
  let s2 := fst (step grow true st o2) in
  (n < length (pool s1) -> observe_member (fst (step grow true s1 o2)) n = observe_member s1 n) /\
  (n < length (pool s2) -> observe_member (fst (step grow true s2 o1)) n = observe_member s2 n) /\
  (forall k, k < n ->
     observe_member (fst (step grow true s1 o2)) k = observe_member st k /\
     observe_member (fst (step grow true s2 o1)) k = observe_member st k).
Proof.
  intros ops t o1 o2 st n s1 s2.
  assert (Hi : inv st) by apply run_inv.
  destruct (step_facts st o1 Hi) as (Hi1 & _ & _ & l1 & Hl1).
  destruct (step_facts st o2 Hi) as (Hi2 & _ & _ & l2 & Hl2).
  fold s1 in Hi1, Hl1. fold s2 in Hi2, Hl2.
  split; [intros H; apply step_preserves; auto|].
  split; [intros H; apply step_preserves; auto|].
  intros k Hk. split.
  - rewrite step_preserves; auto. apply step_preserves; auto.
    rewrite Hl1, app_length; unfold n in Hk; lia.
  - rewrite step_preserves; auto. apply step_preserves; auto.
    rewrite Hl2, app_length; unfold n in Hk; lia.
Qed.

End Proofs.

(* ---------------------------------------------------------------- the pinned Append is refuted *)
(* base := (t.Append t).Append t;  x := base.Append u;  y := base.Append w.  With the pinned Append and a doubling
   growth policy base's Position array has 9 of 12 cells in use, so x and y are both written into cells 9..11 of the
   same array: creating y changes what x reports. *)
Definition refute_ops : list op :=
  [ ONew Triangle [[0]; [1]; [2]]%Z 0; OSetAttr K3 0 2%N [[0;0;0]; [1;0;0]; [2;0;0]]%Z 0;      (* 1: t *)
    OAppend 1 1; OAppend 2 1;                                                                  (* 3: base *)
    ONew Triangle [[0]; [1]; [2]]%Z 0; OSetAttr K3 4 2%N [[10;0;0]; [11;0;0]; [12;0;0]]%Z 0;   (* 5: u *)
    ONew Triangle [[0]; [1]; [2]]%Z 0; OSetAttr K3 6 2%N [[20;0;0]; [21;0;0]; [22;0;0]]%Z 0;   (* 7: w *)
    OAppend 3 5;                                                                               (* 8: x *)
    OAppend 3 7 ].                                                                             (* 9: y *)

Lemma append_inplace_refuted_proof :
  exists ops k t t', t <= t' /\ k < length (pool (run grow_double false ops t)) /\
    observe_member (run grow_double false ops t') k <> observe_member (run grow_double false ops t) k.
Proof.
  exists refute_ops, 8, 9, 10. split; [lia|]. split; [vm_compute; lia|].
  vm_compute. discriminate.
Qed.

(* the same history on the repaired Append, same growth policy: x is unchanged (instance of the theorem, by computation) *)
Lemma refute_ops_fixed_ok :
  observe_member (run grow_double true refute_ops 10) 8 = observe_member (run grow_double true refute_ops 9) 8.
Proof. vm_compute. reflexivity. Qed.

(* ---------------------------------------------------------------- a map write is refuted *)
(* t: Position only (members 0, 1 share the empty v2 map made by NewMesh); u := t + TexCoord.  t.Append(u) with the
   padding-into-the-operands'-maps Append stores a zero TexCoord array into that shared v2 map: members 0 and 1 report
   an attribute they never had. *)
Definition pad_ops : list op :=
  [ ONew Triangle [[0]; [1]; [2]]%Z 0; OSetAttr K3 0 6%N [[0;0;0]; [1;0;0]; [2;0;0]]%Z 0;
    OSetAttr K2 1 7%N [[0;0]; [1;0]; [0;1]]%Z 0; OAppend 1 2 ].

Lemma map_write_refuted_proof :
  exists ops k t t', t <= t' /\ k < length (pool (run_pad grow_double ops t)) /\
    observe_member (run_pad grow_double ops t') k <> observe_member (run_pad grow_double ops t) k.
Proof.
  exists pad_ops, 0, 3, 4. split; [lia|]. split; [vm_compute; lia|].
  vm_compute. discriminate.
Qed.

(* the same history on the repaired tree: member 0 unchanged *)
Lemma pad_ops_fixed_ok :
  observe_member (run grow_double true pad_ops 4) 0 = observe_member (run grow_double true pad_ops 3) 0.
Proof. vm_compute. reflexivity. Qed.

(* ---------------------------------------------------------------- the direct oracle *)
(* the defect class "SetMaterials tidies the slice it is handed in place, and the slice is another mesh's Materials()" *)
Definition tidy_ops : list op :=
  [ONew Triangle [[0]; [1]; [2]]%Z 0; OSetMaterials 0 [[0; 7]; [1; 8]]%Z 0; OShareMats 0 1].

Lemma accessor_write_refuted_proof :
  exists ops k t t', t <= t' /\ k < length (pool (run_tidy grow_double ops t)) /\
    observe_member (run_tidy grow_double ops t') k <> observe_member (run_tidy grow_double ops t) k.
Proof.
  exists tidy_ops, 1, 2, 3. split; [lia|]. split; [vm_compute; lia|].
  vm_compute. discriminate.
Qed.

(* ... and on the repaired model the same history leaves member 1 alone *)
Lemma tidy_ops_fixed_ok :
  observe_member (run grow_double true tidy_ops 3) 1 = observe_member (run grow_double true tidy_ops 2) 1.
Proof. vm_compute. reflexivity. Qed.

Lemma immutableb_spec {A} (segs : list (list A)) :
  immutableb segs = true <-> forall sg, In sg segs -> exists x, sg = [x].
Proof.
  unfold immutableb. rewrite forallb_forall. split; intros H sg Hin; specialize (H sg Hin).
  - destruct sg as [|x [|y r]]; try discriminate. eauto.
  - destruct H as [x ->]. reflexivity.
Qed.
