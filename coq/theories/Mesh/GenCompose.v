(* C02, composed generators: meshes assembled from parts with Mesh.Append (Cube.UnweldedQuads = six
   quads; Cylinder = strip + two circles; anything built by folding Append over parts) and with
   repeat.Mesh over ANY transform list (repeat.Circle / Line / LineExclusive / Spline / FibonacciSphere
   only compute the list) are well-formed whenever the parts are. *)
From Coq Require Import List NArith ZArith Bool Arith Lia.
From PF Require Import Mesh.Pure Mesh.PureLemmas Mesh.PureProofs.
Import ListNotations.

(* acc.Append(m1).Append(m2)... *)
Fixpoint append_all (acc : mesh) (ms : list mesh) : res :=
  match ms with
  | [] => Ok [acc]
  | m :: r => match append acc m with Ok [a] => append_all a r | Ok _ => Crash | x => x end
  end.

Theorem append_all_wf : forall ms acc, wf acc -> Forall wf ms ->
  match append_all acc ms with Ok rs => Forall wf rs | Declared => True | Crash => False end.
Proof.
  induction ms as [|m r IH]; intros acc Wa F; cbn [append_all].
  - constructor; [exact Wa|constructor].
  - inversion F as [|? ? Wm Fr]; subst.
    pose proof (append_wf acc m Wa Wm) as H.
    destruct (append_shape acc m) as [[c E]|E]; rewrite E in *; [|exact I].
    inversion H as [|? ? Wc _]; subst. apply IH; assumption.
Qed.

(* parts of one topology never fail *)
Theorem append_all_ok : forall ms acc, wf acc -> Forall wf ms ->
  Forall (fun m => topology m = topology acc) ms ->
  exists r, append_all acc ms = Ok [r] /\ wf r /\ topology r = topology acc.
Proof.
  induction ms as [|m r IH]; intros acc Wa F T; cbn [append_all].
  - exists acc. split; [reflexivity|split; [exact Wa|reflexivity]].
  - inversion F as [|? ? Wm Fr]; subst. inversion T as [|? ? Tm Tr]; subst.
    pose proof (append_wf acc m Wa Wm) as H. unfold append in *.
    rewrite Tm in *. assert (TE : topo_eqb (topology acc) (topology acc) = true) by (destruct (topology acc); reflexivity).
    rewrite TE in *. inversion H as [|? ? Wc _]; subst.
    match goal with |- context [append_all ?c r] => destruct (IH c Wc Fr) as [x [E [Wx Tx]]] end.
    + cbn [topology]. exact Tr.
    + exists x. split; [exact E|split; [exact Wx|]]. rewrite Tx. reflexivity.
Qed.

(* repeat.Mesh(base, transforms) for any transform list: Mesh/PureProofs.repeat_mesh_wf *)
Theorem repeat_any_transforms_wf : forall pos base ts, wf base ->
  match repeat_mesh pos base ts with Ok ms => Forall wf ms | Declared => True | Crash => False end.
Proof. exact repeat_mesh_wf. Qed.
