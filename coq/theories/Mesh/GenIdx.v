(* C02, generators whose vertex and index counters are simple enough to model here (the UV spheres,
   hemisphere, cylinder and cube are modelled by C18 in Gen/*.v): the triangle fan of
   primitives.Circle / primitives.Cone and the tube of extrude.polygon (extrude.Polygon,
   extrude.Circle{}.Extrude, CircleAlongSpline).  Definitions only; proofs in Mesh/GenIdxProofs.v. *)
From Coq Require Import List Arith Bool.
Import ListNotations.

(* primitives.Circle{Sides: n}.ToMesh() (n >= 1) and primitives.Cone{Sides: n}.ToMesh() (n >= 3):
   n rim vertices 0..n-1 and the centre / apex n; triangles (i, n, i+1), the last one closing on 0 *)
Definition fan_nverts (n : nat) : nat := S n.
Definition fan_idx (n : nat) : list nat :=
  flat_map (fun i => [i; n; S i]) (seq 0 (n - 1)) ++ [n - 1; n; 0].

(* extrude.polygon(sides, points, closed=false): one ring of sides+1 vertices per path point; between
   ring j (bottom) and ring j+1 (top) every side i gives two triangles; their winding is flipped when
   the geometric normal points towards the path ([flip j i], decided by float geometry: an input of
   the index model) *)
Definition tube_nverts (sides points : nat) : nat := points * S sides.
Definition tube_quad (flip : nat -> nat -> bool) (sides j i : nat) : list nat :=
  let bottom := j * S sides in
  let top := S j * S sides in
  let tr := top + i in
  let br := bottom + i in
  let tl := S tr in
  let bl := S br in
  if flip j i then [bl; tr; tl; bl; br; tr] else [bl; tl; tr; bl; tr; br].
Definition tube_idx (flip : nat -> nat -> bool) (sides points : nat) : list nat :=
  flat_map (fun j => flat_map (tube_quad flip sides j) (seq 0 sides)) (seq 0 (points - 1)).

(* primitives.Quad.ToMesh: four corners, two triangles (Cube.UnweldedQuads appends six of them) *)
Definition quad_nverts : nat := 4.
Definition quad_idx : list nat := [0; 1; 2; 2; 3; 0].

(* extrude.Line(points) (points >= 2): three vertices (middle, right, left) per line point; between
   point i-1 (back) and point i (front) two triangles on the right and two on the left *)
Definition ribbon_nverts (points : nat) : nat := points * 3.
Definition ribbon_seg (i : nat) : list nat :=
  let f := S i * 3 in
  let b := i * 3 in
  [f; b; S b; f; S b; S f; f; S (S f); b; S (S f); S (S b); b].
Definition ribbon_idx (points : nat) : list nat := flat_map ribbon_seg (seq 0 (points - 1)).

(* extrude.makeShape(shape, path, close) (extrude.Shape / ClosedShape): one ring of |shape| = sides
   vertices per path point - for EVERY path point, also one in line with or equal to its neighbours;
   side i of the segment from ring j (bottom) to ring j+1 (top; ring 0 when the path is closed and j is
   the last ring) joins corner i to corner i-1 (cyclically) *)
Definition shape_nverts (sides points : nat) : nat := points * sides.
Definition shape_quad (sides bottom top i : nat) : list nat :=
  let tr := top + i in
  let br := bottom + i in
  let tl := match i with 0 => top + sides - 1 | _ => tr - 1 end in
  let bl := match i with 0 => bottom + sides - 1 | _ => br - 1 end in
  [bl; tl; tr; bl; tr; br].
Definition shape_idx (sides points : nat) (closed : bool) : list nat :=
  flat_map (fun j => flat_map (shape_quad sides (j * sides) (S j * sides)) (seq 0 sides)) (seq 0 (points - 1))
  ++ (if closed then flat_map (shape_quad sides ((points - 1) * sides) 0) (seq 0 sides) else []).

(* the flip table is handed over as one boolean per quad, in emission order *)
Definition flip_of (fl : list bool) (sides : nat) (j i : nat) : bool := nth (j * sides + i) fl false.

(* index lists in range of the vertex count and a multiple of three long *)
Definition wf_idx_nat (nv : nat) (idx : list nat) : Prop :=
  length idx mod 3 = 0 /\ Forall (fun i => i < nv) idx.
Definition wf_idx_natb (nv : nat) (idx : list nat) : bool :=
  (length idx mod 3 =? 0) && forallb (fun i => i <? nv) idx.
