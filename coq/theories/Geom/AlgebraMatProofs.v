(* C17 — Matrix4x4 laws of the translated code (coq/gen/Mat.v) over an arbitrary commutative ring
   (entry-wise Add, row-by-column Multiply, associativity, identity, Determinant = Laplace expansion,
   MulPosition) — axiom-free.  The inverse laws are in AlgebraMatInvProofs.v. *)
From Coq Require Import ZArith List Bool Lia Ring.
From PF Require Import Geom.Vec Geom.AlgebraSpec.
From PFGen Require Mat.
Local Open Scope nat_scope.
Local Open Scope carrier_scope.

Ltac mat_destruct m := destruct m as [? ? ? ? ? ? ? ? ? ? ? ? ? ? ? ?].
Ltac mat_cbn :=
  cbn [Mat.Matrix4x4_X00 Mat.Matrix4x4_X01 Mat.Matrix4x4_X02 Mat.Matrix4x4_X03
       Mat.Matrix4x4_X10 Mat.Matrix4x4_X11 Mat.Matrix4x4_X12 Mat.Matrix4x4_X13
       Mat.Matrix4x4_X20 Mat.Matrix4x4_X21 Mat.Matrix4x4_X22 Mat.Matrix4x4_X23
       Mat.Matrix4x4_X30 Mat.Matrix4x4_X31 Mat.Matrix4x4_X32 Mat.Matrix4x4_X33
       v3x v3y v3z] in *.
Ltac idx4 i H := destruct i as [|[|[|[|i]]]]; [ | | | | exfalso; clear - H; lia ].

Lemma mk_eq {F : Type} (a0 a1 a2 a3 a4 a5 a6 a7 a8 a9 a10 a11 a12 a13 a14 a15
                        b0 b1 b2 b3 b4 b5 b6 b7 b8 b9 b10 b11 b12 b13 b14 b15 : F) :
  a0 = b0 -> a1 = b1 -> a2 = b2 -> a3 = b3 -> a4 = b4 -> a5 = b5 -> a6 = b6 -> a7 = b7 ->
  a8 = b8 -> a9 = b9 -> a10 = b10 -> a11 = b11 -> a12 = b12 -> a13 = b13 -> a14 = b14 -> a15 = b15 ->
  Mat.mkMatrix4x4 a0 a1 a2 a3 a4 a5 a6 a7 a8 a9 a10 a11 a12 a13 a14 a15 =
  Mat.mkMatrix4x4 b0 b1 b2 b3 b4 b5 b6 b7 b8 b9 b10 b11 b12 b13 b14 b15.
Proof. intros; subst; reflexivity. Qed.
Lemma v3_eq {F : Type} (a0 a1 a2 b0 b1 b2 : F) : a0 = b0 -> a1 = b1 -> a2 = b2 -> mkV3 a0 a1 a2 = mkV3 b0 b1 b2.
Proof. intros; subst; reflexivity. Qed.

Section MatRing.
Context {F : Type} {FO : Carrier F} (RC : ring_carrier FO).
Add Ring Fring : (rc_ring RC).

Ltac lits := rewrite ?(rc_ofZ RC); cbn [zinj pinj].
Ltac cring := lits; ring.

(* NB: every proof goes through [ring] on the unfolded entries (never [reflexivity] against the shape of the
   Go expression), so that a behaviour-preserving rewrite of the Go code (reordered commutative terms,
   temporaries) regenerates to something these scripts still prove. *)
Lemma get_mat_of f i j : i < 4 -> j < 4 -> get (mat_of f) i j = f i j.
Proof. intros Hi Hj. idx4 i Hi; idx4 j Hj; reflexivity. Qed.

Lemma mat_ext (a b : Mat.Matrix4x4 F) :
  (forall i j, i < 4 -> j < 4 -> get a i j = get b i j) -> a = b.
Proof.
  intros H. mat_destruct a; mat_destruct b.
  pose proof (H 0 0) as H00; pose proof (H 0 1) as H01; pose proof (H 0 2) as H02; pose proof (H 0 3) as H03.
  pose proof (H 1 0) as H10; pose proof (H 1 1) as H11; pose proof (H 1 2) as H12; pose proof (H 1 3) as H13.
  pose proof (H 2 0) as H20; pose proof (H 2 1) as H21; pose proof (H 2 2) as H22; pose proof (H 2 3) as H23.
  pose proof (H 3 0) as H30; pose proof (H 3 1) as H31; pose proof (H 3 2) as H32; pose proof (H 3 3) as H33.
  cbn in *.
  rewrite H00, H01, H02, H03, H10, H11, H12, H13, H20, H21, H22, H23, H30, H31, H32, H33 by lia.
  reflexivity.
Qed.

(* ---- the translated operations coincide with the entry-by-entry specifications ---- *)
Lemma add_is_spec a b : Mat.Matrix4x4_Add a b = add_spec a b.
Proof.
  mat_destruct a; mat_destruct b. gen_full.
  apply mk_eq; ring.
Qed.

Lemma mul_is_spec a b : Mat.Matrix4x4_Multiply a b = mul_spec a b.
Proof.
  mat_destruct a; mat_destruct b. gen_full.
  apply mk_eq; ring.
Qed.

(* 4x4 addition is entry-wise *)
Theorem add_entrywise a b i j : i < 4 -> j < 4 ->
  get (Mat.Matrix4x4_Add a b) i j = get a i j + get b i j.
Proof. intros Hi Hj. rewrite add_is_spec. unfold add_spec. now rewrite get_mat_of. Qed.

(* multiplication is row-by-column *)
Theorem mul_row_col a b i j : i < 4 -> j < 4 ->
  get (Mat.Matrix4x4_Multiply a b) i j = sum4 (fun k => get a i k * get b k j).
Proof. intros Hi Hj. rewrite mul_is_spec. unfold mul_spec. now rewrite get_mat_of. Qed.

Lemma identity_is_spec : Mat.Identity = id_spec (F := F).
Proof.
  gen_full. apply mk_eq; cring.
Qed.

Theorem identity_entries i j : i < 4 -> j < 4 -> get (F := F) Mat.Identity i j = delta i j.
Proof. intros. rewrite identity_is_spec. unfold id_spec. now rewrite get_mat_of. Qed.

Theorem add_comm a b : Mat.Matrix4x4_Add a b = Mat.Matrix4x4_Add b a.
Proof. mat_destruct a; mat_destruct b. gen_full. apply mk_eq; ring. Qed.

Theorem add_assoc a b c :
  Mat.Matrix4x4_Add (Mat.Matrix4x4_Add a b) c = Mat.Matrix4x4_Add a (Mat.Matrix4x4_Add b c).
Proof. mat_destruct a; mat_destruct b; mat_destruct c. gen_full. apply mk_eq; ring. Qed.

Theorem mul_assoc a b c :
  Mat.Matrix4x4_Multiply (Mat.Matrix4x4_Multiply a b) c = Mat.Matrix4x4_Multiply a (Mat.Matrix4x4_Multiply b c).
Proof.
  mat_destruct a; mat_destruct b; mat_destruct c. gen_full. apply mk_eq; ring.
Qed.

Theorem mul_id_l a : Mat.Matrix4x4_Multiply Mat.Identity a = a.
Proof. mat_destruct a. gen_full. apply mk_eq; cring. Qed.

Theorem mul_id_r a : Mat.Matrix4x4_Multiply a Mat.Identity = a.
Proof. mat_destruct a. gen_full. apply mk_eq; cring. Qed.

Theorem mul_add_distr_l a b c :
  Mat.Matrix4x4_Multiply a (Mat.Matrix4x4_Add b c) =
  Mat.Matrix4x4_Add (Mat.Matrix4x4_Multiply a b) (Mat.Matrix4x4_Multiply a c).
Proof.
  mat_destruct a; mat_destruct b; mat_destruct c.
  gen_full. apply mk_eq; ring.
Qed.

Theorem mul_add_distr_r a b c :
  Mat.Matrix4x4_Multiply (Mat.Matrix4x4_Add a b) c =
  Mat.Matrix4x4_Add (Mat.Matrix4x4_Multiply a c) (Mat.Matrix4x4_Multiply b c).
Proof.
  mat_destruct a; mat_destruct b; mat_destruct c.
  gen_full. apply mk_eq; ring.
Qed.

(* the 24-term expression of Determinant is the Laplace expansion along the first row *)
Theorem determinant_laplace a : Mat.Matrix4x4_Determinant a = det_spec a.
Proof.
  mat_destruct a. gen_full. ring.
Qed.

Theorem determinant_identity : Mat.Matrix4x4_Determinant (F := F) Mat.Identity = c1.
Proof. gen_full. cring. Qed.

(* MulPosition = rows 0..2 of M (x,y,z,1)^T *)
Theorem mulposition_affine a v : Mat.Matrix4x4_MulPosition a v = mulpos_spec a v.
Proof.
  mat_destruct a; destruct v. gen_full.
  apply v3_eq; ring.
Qed.

Theorem mulposition_identity v : Mat.Matrix4x4_MulPosition Mat.Identity v = v.
Proof.
  destruct v. gen_full. apply v3_eq; cring.
Qed.

(* for affine b (last row 0 0 0 1) the product acts as the composition *)
Theorem mulposition_compose a b v : affine b ->
  Mat.Matrix4x4_MulPosition (Mat.Matrix4x4_Multiply a b) v =
  Mat.Matrix4x4_MulPosition a (Mat.Matrix4x4_MulPosition b v).
Proof.
  intros (H0 & H1 & H2 & H3). mat_destruct a; mat_destruct b; destruct v. cbn in H0, H1, H2, H3. subst.
  gen_full. apply v3_eq; ring.
Qed.

(* MulPosition is additive in the matrix up to the translation column being added as well *)
Theorem mulposition_linear a u v (s : F) :
  Mat.Matrix4x4_MulPosition a (v3_add (v3_scale u s) v) =
  v3_add (v3_scale (v3_sub (Mat.Matrix4x4_MulPosition a u) (Mat.Matrix4x4_MulPosition a v3_zero)) s)
         (Mat.Matrix4x4_MulPosition a v).
Proof.
  mat_destruct a; destruct u, v.
  gen_full. apply v3_eq; cring.
Qed.
(* the determinant is multiplicative *)
Theorem determinant_mul a b :
  Mat.Matrix4x4_Determinant (Mat.Matrix4x4_Multiply a b) = Mat.Matrix4x4_Determinant a * Mat.Matrix4x4_Determinant b.
Proof.
  mat_destruct a; mat_destruct b. gen_full.
  ring.
Qed.
End MatRing.
