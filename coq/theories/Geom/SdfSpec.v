(* C19 — specification side: points of R^3, Euclidean distance, nearest-point witnesses, the shapes as point
   sets, and what "signed distance function" means.  No proofs here (SdfProofs.v); nothing in this file
   mentions the generated code (coq/gen/Sdf.v). *)
From Coq Require Import Reals List.
From PF Require Import Geom.Vec.
Import ListNotations.
Local Open Scope R_scope.

Definition pt := vec3 R.
Definition P3 (x y z : R) : pt := mkV3 x y z.

Definition dot (u v : pt) : R := v3x u * v3x v + v3y u * v3y v + v3z u * v3z v.
Definition norm (u : pt) : R := sqrt (dot u u).
Definition padd (p q : pt) : pt := mkV3 (v3x p + v3x q) (v3y p + v3y q) (v3z p + v3z q).
Definition psub (p q : pt) : pt := mkV3 (v3x p - v3x q) (v3y p - v3y q) (v3z p - v3z q).
Definition smul (t : R) (u : pt) : pt := mkV3 (t * v3x u) (t * v3y u) (t * v3z u).
Definition dist (p q : pt) : R := norm (psub p q).

(* c is a point of S nearest to p.  "The distance from p to S is d" is stated through such a witness
   (no infimum machinery): [dist_to S p d]. *)
Definition nearest (S : pt -> Prop) (c p : pt) : Prop := S c /\ forall s, S s -> dist p c <= dist p s.
Definition dist_to (S : pt -> Prop) (p : pt) (d : R) : Prop := exists c, nearest S c p /\ d = dist p c.

(* |f p - f q| <= |p - q| *)
Definition lipschitz1 (f : pt -> R) : Prop := forall p q, Rabs (f p - f q) <= dist p q.

(* f is a signed distance function of the solid with interior [Int] and surface [Surf]:
   negative exactly inside, zero exactly on the surface *)
Definition sdf_sign (f : pt -> R) (Int Surf : pt -> Prop) : Prop :=
  forall p, (f p < 0 <-> Int p) /\ (f p = 0 <-> Surf p).
(* ... and |f p| is the Euclidean distance from p to the surface *)
Definition sdf_exact (f : pt -> R) (Surf : pt -> Prop) : Prop := forall p, dist_to Surf p (Rabs (f p)).

(* ---- sphere *)
Definition ball_int (c : pt) (r : R) (p : pt) : Prop := dist p c < r.
Definition sphere_surf (c : pt) (r : R) (p : pt) : Prop := dist p c = r.

(* ---- half space below the plane  (p - pos).n + h = 0,  |n| = 1 *)
Definition plane_fn (pos n : pt) (h : R) (p : pt) : R := dot (psub p pos) n + h.
Definition halfspace_int (pos n : pt) (h : R) (p : pt) : Prop := plane_fn pos n h p < 0.
Definition plane_surf (pos n : pt) (h : R) (p : pt) : Prop := plane_fn pos n h p = 0.

(* ---- segment and capsule (all points closer than r to the segment) *)
Definition segment (a b : pt) (s : pt) : Prop := exists t, 0 <= t <= 1 /\ s = padd a (smul t (psub b a)).
Definition capsule_int (a b : pt) (r : R) (p : pt) : Prop := exists s, segment a b s /\ dist p s < r.
(* surface: the distance from p to the segment is exactly r *)
Definition capsule_surf (a b : pt) (r : R) (p : pt) : Prop := dist_to (segment a b) p r.

(* ---- axis-aligned box with centre c and full extents b *)
Definition box_int (c b : pt) (p : pt) : Prop :=
  Rabs (v3x p - v3x c) < v3x b / 2 /\ Rabs (v3y p - v3y c) < v3y b / 2 /\ Rabs (v3z p - v3z c) < v3z b / 2.
Definition box_solid (c b : pt) (p : pt) : Prop :=
  Rabs (v3x p - v3x c) <= v3x b / 2 /\ Rabs (v3y p - v3y c) <= v3y b / 2 /\ Rabs (v3z p - v3z c) <= v3z b / 2.
Definition box_surf (c b : pt) (p : pt) : Prop := box_solid c b p /\ ~ box_int c b p.
Definition box_outside (c b : pt) (p : pt) : Prop := ~ box_solid c b p.
(* rounded box: all points closer than r to the box *)
Definition rounded_box_int (c b : pt) (r : R) (p : pt) : Prop := exists s, box_solid c b s /\ dist p s < r.

(* ---- rounded cylinder (Quilez sdRoundedCylinder): the core cylinder
        { (x - px)^2 + (z - pz)^2 <= (2 R - th)^2 , |y - py| <= bh }   dilated by th *)
Definition rcyl_core (pos : pt) (rad th bh : R) (s : pt) : Prop :=
  sqrt ((v3x s - v3x pos) * (v3x s - v3x pos) + (v3z s - v3z pos) * (v3z s - v3z pos)) <= 2 * rad - th
  /\ Rabs (v3y s - v3y pos) <= bh.
Definition rcyl_int (pos : pt) (rad th bh : R) (p : pt) : Prop :=
  exists s, rcyl_core pos rad th bh s /\ dist p s < th.

(* ---- rounded cone: the union of the balls centred on the segment a b whose radius goes linearly from r1 to r2 *)
Definition rcone_centre (a b : pt) (s : R) : pt := padd a (smul s (psub b a)).
Definition rcone_radius (r1 r2 s : R) : R := r1 + s * (r2 - r1).
Definition rcone_int (a b : pt) (r1 r2 : R) (p : pt) : Prop :=
  exists s, 0 <= s <= 1 /\ dist p (rcone_centre a b s) < rcone_radius r1 r2 s.
(* the swept-sphere distance: d is the least value of |p - c(s)| - r(s) over s in [0,1] *)
Definition rcone_min (a b : pt) (r1 r2 : R) (p : pt) (d : R) : Prop :=
  (exists s, 0 <= s <= 1 /\ d = dist p (rcone_centre a b s) - rcone_radius r1 r2 s) /\
  (forall s, 0 <= s <= 1 -> d <= dist p (rcone_centre a b s) - rcone_radius r1 r2 s).

(* ---- set algebra of the operators, on arbitrary fields: "inside" = negative *)
Definition neg_set (f : pt -> R) (p : pt) : Prop := f p < 0.
Definition pos_set (f : pt -> R) (p : pt) : Prop := 0 < f p.
