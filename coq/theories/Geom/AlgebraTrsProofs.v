(* C17 — TRS of the translated code (coq/gen/Trs.v) over an arbitrary commutative ring: Transform applies
   scale, then rotation, then translation; the single-purpose constructors and Translate.  Axiom-free. *)
From Coq Require Import ZArith List Bool Lia Ring.
From PF Require Import Geom.Vec Geom.AlgebraSpec Geom.AlgebraQuatProofs.
From PFGen Require Quat Trs.
Local Open Scope nat_scope.
Local Open Scope carrier_scope.

Ltac trs_unfold := idtac.

Section TrsRing.
Context {F : Type} {FO : Carrier F} (RC : ring_carrier FO).
Add Ring Fring : (rc_ring RC).
Ltac lits := rewrite ?(rc_ofZ RC); cbn [zinj pinj].
Ltac cring := lits; ring.

(* Transform t v = R (S * v) + T, with the translated Rotate *)
Theorem trs_order p r s v :
  Trs.TRS_Transform (Trs.New p r s) v = v3_add (Quat.Quaternion_Rotate r (v3_mult_by_vector s v)) p.
Proof.
  destruct p as [p1 p2 p3], s as [s1 s2 s3], v as [v1 v2 v3]; quat_destruct r.
  trs_unfold. quat_unfold. apply v3_eq'; cring.
Qed.

(* ... and against the hand-written sandwich-product specification *)
Theorem trs_order_spec p r s v : Trs.TRS_Transform (Trs.New p r s) v = trs_spec p s r v.
Proof. rewrite trs_order. unfold trs_spec. now rewrite (rotate_sandwich RC). Qed.

(* the accessors return what New stored: every TRS is New (Position t) (Rotation t) (Scale t) *)
Theorem trs_eta (t : Trs.TRS F) : t = Trs.New (Trs.TRS_Position t) (Trs.TRS_Rotation t) (Trs.TRS_Scale t).
Proof. destruct t. reflexivity. Qed.

Theorem trs_position_only p v : Trs.TRS_Transform (Trs.Position p) v = v3_add v p.
Proof. destruct p as [p1 p2 p3], v as [v1 v2 v3]. trs_unfold. quat_unfold. apply v3_eq'; cring. Qed.

Theorem trs_scale_only s v : Trs.TRS_Transform (Trs.Scale s) v = v3_mult_by_vector s v.
Proof. destruct s as [s1 s2 s3], v as [v1 v2 v3]. trs_unfold. quat_unfold. apply v3_eq'; cring. Qed.

Theorem trs_rotation_only r v : Trs.TRS_Transform (Trs.Rotation r) v = Quat.Quaternion_Rotate r v.
Proof. quat_destruct r; destruct v as [v1 v2 v3]. trs_unfold. quat_unfold. apply v3_eq'; cring. Qed.

Theorem trs_translate t d v :
  Trs.TRS_Transform (Trs.TRS_Translate t d) v = v3_add (Trs.TRS_Transform t v) d.
Proof.
  destruct t as [[p1 p2 p3] [s1 s2 s3] r]; quat_destruct r; destruct d as [d1 d2 d3], v as [v1 v2 v3].
  trs_unfold. quat_unfold. apply v3_eq'; cring.
Qed.
End TrsRing.
