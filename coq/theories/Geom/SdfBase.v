(* C19 — Euclidean geometry of R^3 used by the SDF proofs: Cauchy-Schwarz, triangle inequality,
   distance-to-a-set is 1-Lipschitz, min/max/negation of 1-Lipschitz functions. *)
From Coq Require Import Reals Lra Lia Psatz List.
From PF Require Import Geom.Vec Geom.SdfSpec.
Import ListNotations.
Local Open Scope R_scope.

Lemma Rabs_le_elim a b : Rabs a <= b -> - b <= a <= b.
Proof. unfold Rabs. destruct (Rcase_abs a); lra. Qed.

Lemma dot_self_nonneg u : 0 <= dot u u.
Proof. unfold dot. nra. Qed.

Lemma norm_nonneg u : 0 <= norm u.
Proof. apply sqrt_pos. Qed.

Lemma norm_sq u : norm u * norm u = dot u u.
Proof. apply sqrt_sqrt, dot_self_nonneg. Qed.

Lemma dist_nonneg p q : 0 <= dist p q.
Proof. apply norm_nonneg. Qed.

Lemma sq_le_le a b : 0 <= b -> a * a <= b * b -> a <= b.
Proof. intros. nra. Qed.

Lemma sq_lt_lt a b : 0 <= b -> a * a < b * b -> a < b.
Proof. intros. nra. Qed.

Lemma le_norm_of_sq a u : a * a <= dot u u -> a <= norm u.
Proof. intros H. apply sq_le_le. apply norm_nonneg. rewrite norm_sq. exact H. Qed.

Lemma norm_le_of_sq a u : 0 <= a -> dot u u <= a * a -> norm u <= a.
Proof. intros Ha H. apply sq_le_le; auto. rewrite norm_sq. exact H. Qed.

Lemma norm_eq_of_sq a u : 0 <= a -> dot u u = a * a -> norm u = a.
Proof.
  intros Ha H. unfold norm. rewrite H. apply sqrt_square. exact Ha.
Qed.

Lemma cauchy_schwarz_sq u v : dot u v * dot u v <= dot u u * dot v v.
Proof.
  destruct u as [a b c], v as [d e f]. unfold dot; cbn [v3x v3y v3z].
  assert (H : (a*a+b*b+c*c)*(d*d+e*e+f*f) - (a*d+b*e+c*f)*(a*d+b*e+c*f)
              = (a*e-b*d)*(a*e-b*d) + (a*f-c*d)*(a*f-c*d) + (b*f-c*e)*(b*f-c*e)) by ring.
  assert (H1 := Rle_0_sqr (a*e-b*d)). assert (H2 := Rle_0_sqr (a*f-c*d)). assert (H3 := Rle_0_sqr (b*f-c*e)).
  unfold Rsqr in *. lra.
Qed.

Lemma cauchy_schwarz u v : dot u v <= norm u * norm v.
Proof.
  apply sq_le_le.
  - apply Rmult_le_pos; apply norm_nonneg.
  - replace (norm u * norm v * (norm u * norm v)) with ((norm u * norm u) * (norm v * norm v)) by ring.
    rewrite !norm_sq. apply cauchy_schwarz_sq.
Qed.

Lemma cauchy_schwarz_abs u v : Rabs (dot u v) <= norm u * norm v.
Proof.
  apply Rabs_le. split.
  - assert (H := cauchy_schwarz (smul (-1) u) v).
    assert (E1 : dot (smul (-1) u) v = - dot u v) by (unfold dot, smul; cbn; ring).
    assert (E2 : norm (smul (-1) u) = norm u).
    { unfold norm. f_equal. unfold dot, smul; cbn; ring. }
    rewrite E1, E2 in H. lra.
  - apply cauchy_schwarz.
Qed.

Lemma norm_triangle u v : norm (padd u v) <= norm u + norm v.
Proof.
  apply sq_le_le.
  - assert (H1 := norm_nonneg u). assert (H2 := norm_nonneg v). lra.
  - rewrite norm_sq.
    assert (E : dot (padd u v) (padd u v) = dot u u + 2 * dot u v + dot v v)
      by (unfold dot, padd; cbn; ring).
    rewrite E. assert (H := cauchy_schwarz u v).
    assert (Hu := norm_sq u). assert (Hv := norm_sq v). nra.
Qed.

Lemma norm_psub_sym p q : norm (psub p q) = norm (psub q p).
Proof. unfold norm. f_equal. unfold dot, psub; cbn; ring. Qed.

Lemma dist_sym p q : dist p q = dist q p.
Proof. apply norm_psub_sym. Qed.

Lemma dist_triangle p q r : dist p r <= dist p q + dist q r.
Proof.
  unfold dist.
  assert (E : psub p r = padd (psub p q) (psub q r)).
  { unfold psub, padd; cbn. f_equal; ring. }
  rewrite E. apply norm_triangle.
Qed.

Lemma dist_refl p : dist p p = 0.
Proof.
  unfold dist, norm.
  replace (dot (psub p p) (psub p p)) with 0 by (unfold dot, psub; cbn; ring).
  apply sqrt_0.
Qed.

Lemma norm_zero_iff u : norm u = 0 <-> u = mkV3 0 0 0.
Proof.
  split.
  - intros H. assert (H2 := norm_sq u). rewrite H in H2.
    destruct u as [a b c]. unfold dot in H2; cbn in H2.
    assert (a = 0) by nra. assert (b = 0) by nra. assert (c = 0) by nra. subst. reflexivity.
  - intros ->. unfold norm, dot; cbn. replace (0*0+0*0+0*0) with 0 by ring. apply sqrt_0.
Qed.

Lemma dist_zero_iff p q : dist p q = 0 <-> p = q.
Proof.
  unfold dist. rewrite norm_zero_iff. destruct p as [a b c], q as [d e f]. unfold psub; cbn.
  split.
  - intros H. injection H as H1 H2 H3. f_equal; lra.
  - intros H. injection H as -> -> ->. f_equal; ring.
Qed.

(* reverse triangle inequality *)
Lemma dist_rev_triangle p q c : Rabs (dist p c - dist q c) <= dist p q.
Proof.
  apply Rabs_le. split.
  - assert (H := dist_triangle q p c). rewrite (dist_sym q p) in H. lra.
  - assert (H := dist_triangle p q c). lra.
Qed.

Lemma norm_smul t u : norm (smul t u) = Rabs t * norm u.
Proof.
  apply norm_eq_of_sq.
  - apply Rmult_le_pos. apply Rabs_pos. apply norm_nonneg.
  - replace (Rabs t * norm u * (Rabs t * norm u)) with ((Rabs t * Rabs t) * (norm u * norm u)) by ring.
    rewrite norm_sq. replace (Rabs t * Rabs t) with (t * t).
    + unfold dot, smul; cbn; ring.
    + unfold Rabs. destruct (Rcase_abs t); ring.
Qed.

(* ---- the distance to a set, given through nearest-point witnesses, is 1-Lipschitz *)
Theorem lipschitz_of_nearest (S : pt -> Prop) (c : pt -> pt) :
  (forall p, nearest S (c p) p) ->
  forall p q, Rabs (dist p (c p) - dist q (c q)) <= dist p q.
Proof.
  intros Hn p q. destruct (Hn p) as [Sp Np]. destruct (Hn q) as [Sq Nq].
  apply Rabs_le. split.
  - (* dist q (c q) <= dist q (c p) <= dist q p + dist p (c p) *)
    assert (H1 := Nq _ Sp). assert (H2 := dist_triangle q p (c p)). rewrite (dist_sym q p) in H2. lra.
  - assert (H1 := Np _ Sq). assert (H2 := dist_triangle p q (c q)). lra.
Qed.

(* the same for any "minimum over a family of 1-Lipschitz functions" given by witnesses *)
Lemma lipschitz_of_min_family {I : Type} (phi : I -> pt -> R) (ok : I -> Prop) (f : pt -> R) :
  (forall i, ok i -> lipschitz1 (phi i)) ->
  (forall p, (exists i, ok i /\ f p = phi i p) /\ forall i, ok i -> f p <= phi i p) ->
  lipschitz1 f.
Proof.
  intros HL Hmin p q.
  destruct (Hmin p) as [[ip [okp Ep]] Lp]. destruct (Hmin q) as [[iq [okq Eq]] Lq].
  apply Rabs_le. split.
  - assert (H1 := Lq _ okp). assert (H2 := HL _ okp p q). apply Rabs_le_elim in H2. lra.
  - assert (H1 := Lp _ okq). assert (H2 := HL _ okq p q). apply Rabs_le_elim in H2. lra.
Qed.

(* ---- closure of 1-Lipschitz functions *)
Lemma lipschitz1_min f g : lipschitz1 f -> lipschitz1 g -> lipschitz1 (fun p => Rmin (f p) (g p)).
Proof.
  intros Hf Hg p q. specialize (Hf p q). specialize (Hg p q).
  apply Rabs_le_elim in Hf. apply Rabs_le_elim in Hg. apply Rabs_le.
  unfold Rmin. destruct (Rle_dec (f p) (g p)), (Rle_dec (f q) (g q)); lra.
Qed.

Lemma lipschitz1_max f g : lipschitz1 f -> lipschitz1 g -> lipschitz1 (fun p => Rmax (f p) (g p)).
Proof.
  intros Hf Hg p q. specialize (Hf p q). specialize (Hg p q).
  apply Rabs_le_elim in Hf. apply Rabs_le_elim in Hg. apply Rabs_le.
  unfold Rmax. destruct (Rle_dec (f p) (g p)), (Rle_dec (f q) (g q)); lra.
Qed.

Lemma lipschitz1_opp f : lipschitz1 f -> lipschitz1 (fun p => - f p).
Proof.
  intros Hf p q. specialize (Hf p q). apply Rabs_le_elim in Hf. apply Rabs_le. lra.
Qed.

Lemma lipschitz1_shift f k : lipschitz1 f -> lipschitz1 (fun p => f p - k).
Proof.
  intros Hf p q. specialize (Hf p q). replace (f p - k - (f q - k)) with (f p - f q) by ring. exact Hf.
Qed.

Lemma lipschitz1_ext f g : (forall p, f p = g p) -> lipschitz1 f -> lipschitz1 g.
Proof. intros E Hf p q. rewrite <- !E. apply Hf. Qed.

Lemma lipschitz1_translate f t : lipschitz1 f -> lipschitz1 (fun p => f (psub p t)).
Proof.
  intros Hf p q. eapply Rle_trans. apply Hf.
  unfold dist. right. f_equal. unfold psub; cbn. f_equal; ring.
Qed.
