(* C17, round 4 — further laws of the translated code (coq/gen/{Mat,Quat,Trs,Aabb}.v), mostly COMPOSITIONS of the
   layer lemmas of the other Algebra*Proofs files:
     matrices   : the inverse is unique, involutive, anti-multiplicative; det (Inverse a) * det a = 1; an affine
                  matrix and its Inverse undo each other on points; Multiply is bilinear over Add (what makes the
                  sweep over the 16 x 16 pairs of basis matrices decisive); MatFromDirs is an affine frame;
     quaternions: Multiply is an associative product with unit Identity and multiplicative norm; the conjugate undoes
                  a rotation; Normalize yields unit quaternions; RotationTo returns a unit quaternion in every branch,
                  hence preserves the length of every vector it rotates;
     arrays     : the array-level entry points distribute over concatenation (any chunking gives the same array);
     boxes      : Intersects <-> a common point exists; Expand, Size, Volume; a box is unchanged by encapsulating a
                  point it contains; NewAABBFromPoints (hand-written fold, see AlgebraSpec.box_from_points) contains
                  every point and is tight.
   Same conventions as the other files: generated code is only ever computed through (gen_full / gen_unfold),
   never matched syntactically. *)
From Coq Require Import ZArith Reals Lra List Bool Lia Ring Field.
From PF Require Import Geom.Vec Geom.AlgebraSpec Geom.AlgebraInst Geom.AlgebraMatProofs Geom.AlgebraMatInvProofs
  Geom.AlgebraQuatProofs Geom.AlgebraQuatRProofs Geom.AlgebraTrsProofs Geom.AlgebraArrayProofs Geom.AlgebraAabbProofs.
From PFGen Require Mat Quat Trs Aabb.
Import ListNotations.
Local Open Scope nat_scope.
Local Open Scope carrier_scope.

(* ======================================================================== over every commutative ring *)
Section MoreRing.
Context {F : Type} {FO : Carrier F} (RC : ring_carrier FO).
Add Ring Fring : (rc_ring RC).
Ltac lits := rewrite ?(rc_ofZ RC); cbn [zinj pinj].
Ltac cring := lits; ring.

(* Multiply is additive in each argument ... *)
Theorem mul_bilinear a b c :
  Mat.Matrix4x4_Multiply a (Mat.Matrix4x4_Add b c) =
    Mat.Matrix4x4_Add (Mat.Matrix4x4_Multiply a b) (Mat.Matrix4x4_Multiply a c) /\
  Mat.Matrix4x4_Multiply (Mat.Matrix4x4_Add a b) c =
    Mat.Matrix4x4_Add (Mat.Matrix4x4_Multiply a c) (Mat.Matrix4x4_Multiply b c).
Proof. split; [apply (mul_add_distr_l RC) | apply (mul_add_distr_r RC)]. Qed.

(* ... and homogeneous: scaling one factor entry-wise scales the product *)
Definition mat_scale (s : F) (a : Mat.Matrix4x4 F) : Mat.Matrix4x4 F := mat_of (fun i j => s * get a i j).
Theorem mul_homogeneous s a b :
  Mat.Matrix4x4_Multiply (mat_scale s a) b = mat_scale s (Mat.Matrix4x4_Multiply a b) /\
  Mat.Matrix4x4_Multiply a (mat_scale s b) = mat_scale s (Mat.Matrix4x4_Multiply a b).
Proof. mat_destruct a; mat_destruct b. split; gen_full; apply mk_eq; ring. Qed.

(* MatFromDirs builds an affine frame: last row (0,0,0,1), the origin goes to [offset], the y axis to offset + up *)
Theorem matfromdirs_frame (up fwd off : vec3 F) :
  let m := Mat.MatFromDirs up fwd off in
  affine m /\
  Mat.Matrix4x4_MulPosition m v3_zero = off /\
  Mat.Matrix4x4_MulPosition m v3_up = v3_add off up.
Proof.
  destruct up as [u1 u2 u3], fwd as [f1 f2 f3], off as [o1 o2 o3]. cbv zeta. split; [|split].
  - unfold affine. gen_full. repeat split; cring.
  - gen_full. apply v3_eq; cring.
  - gen_full. apply v3_eq; cring.
Qed.

(* the conjugate undoes a rotation up to the factor (|q|^2)^2 — exactly for unit quaternions *)
Theorem rot_conj_inverse (q : Quat.Quaternion F) v :
  Quat.Quaternion_Rotate (qconj q) (Quat.Quaternion_Rotate q v) = v3_scale v (qnorm2 q * qnorm2 q).
Proof. quat_destruct q; destruct v. gen_full. apply v3_eq'; cring. Qed.

Corollary rot_conj_inverse_unit (q : Quat.Quaternion F) v : qnorm2 q = c1 ->
  Quat.Quaternion_Rotate (qconj q) (Quat.Quaternion_Rotate q v) = v.
Proof. intros H. rewrite rot_conj_inverse, H. destruct v. gen_full. apply v3_eq'; ring. Qed.

(* quaternions under Multiply: associative, Identity is the unit, the squared norm is multiplicative, and the
   identity quaternion rotates nothing *)
Theorem quat_monoid (p q r : Quat.Quaternion F) v :
  Quat.Quaternion_Multiply (Quat.Quaternion_Multiply p q) r = Quat.Quaternion_Multiply p (Quat.Quaternion_Multiply q r) /\
  Quat.Quaternion_Multiply Quat.Identity q = q /\ Quat.Quaternion_Multiply q Quat.Identity = q /\
  qnorm2 (Quat.Quaternion_Multiply p q) = qnorm2 p * qnorm2 q /\
  Quat.Quaternion_Rotate Quat.Identity v = v.
Proof.
  repeat split; [apply (multiply_assoc RC) | apply (multiply_id_l RC) | apply (multiply_id_r RC) |
                 apply (multiply_norm RC) | apply (rot_identity RC)].
Qed.

(* a TRS built from the accessors of another is the same TRS; the identity TRS moves nothing *)
Theorem trs_identity v :
  Trs.TRS_Transform (Trs.New v3_zero Quat.Identity v3_one) v = v.
Proof. destruct v. gen_full. apply v3_eq'; cring. Qed.

(* array level: the entry points distribute over concatenation, so processing an array in chunks (of any sizes) and
   concatenating the results is the same as processing it at once *)
Theorem array_chunks (t : Trs.TRS F) (q : Quat.Quaternion F) (xs ys : list (vec3 F)) :
  Trs.TRS_TransformArray t (xs ++ ys) = Trs.TRS_TransformArray t xs ++ Trs.TRS_TransformArray t ys /\
  Trs.TRS_TransformInPlace t (xs ++ ys) = Trs.TRS_TransformInPlace t xs ++ Trs.TRS_TransformInPlace t ys /\
  Quat.Quaternion_RotateArray q (xs ++ ys) = Quat.Quaternion_RotateArray q xs ++ Quat.Quaternion_RotateArray q ys.
Proof.
  split; [|split].
  - rewrite !(transform_array_pointwise RC). apply map_app.
  - rewrite !(transform_in_place_pointwise RC). apply map_app.
  - rewrite !(rotate_array_pointwise RC). apply map_app.
Qed.
End MoreRing.

(* ======================================================================== over every field *)
Section MoreField.
Context {F : Type} {FO : Carrier F} (FC : field_carrier FO).
Let RC := fc_ring FC.
Add Ring Fring3 : (rc_ring RC).

(* a field has no zero divisors *)
Lemma field_integral (x y : F) : x * y = c0 -> x <> c0 -> y = c0.
Proof.
  intros H Hx.
  assert (E : y = ((c1 / x) * x) * y) by (rewrite (Finv_l (fc_field FC) x Hx); ring).
  rewrite E. transitivity ((c1 / x) * (x * y)); [ring|]. rewrite H. ring.
Qed.

Lemma det_mul_nonzero a b :
  Mat.Matrix4x4_Determinant a <> c0 -> Mat.Matrix4x4_Determinant b <> c0 ->
  Mat.Matrix4x4_Determinant (Mat.Matrix4x4_Multiply a b) <> c0.
Proof.
  intros Ha Hb. rewrite (determinant_mul RC). intro E. apply Hb. exact (field_integral _ _ E Ha).
Qed.

(* det (Inverse a) * det a = 1 *)
Theorem determinant_inverse a : Mat.Matrix4x4_Determinant a <> c0 ->
  Mat.Matrix4x4_Determinant (Mat.Matrix4x4_Inverse a) * Mat.Matrix4x4_Determinant a = c1.
Proof.
  intros H. rewrite <- (determinant_mul RC), (inverse_l FC a H). apply (determinant_identity RC).
Qed.

Lemma det_inverse_nonzero a : Mat.Matrix4x4_Determinant a <> c0 ->
  Mat.Matrix4x4_Determinant (Mat.Matrix4x4_Inverse a) <> c0.
Proof.
  intros H E. pose proof (determinant_inverse a H) as D. rewrite E in D.
  apply (F_1_neq_0 (fc_field FC)). rewrite <- D. ring.
Qed.

(* the inverse of the inverse is the matrix itself *)
Theorem inverse_involutive a : Mat.Matrix4x4_Determinant a <> c0 ->
  Mat.Matrix4x4_Inverse (Mat.Matrix4x4_Inverse a) = a.
Proof.
  intros H. symmetry. apply (inverse_unique FC); [apply det_inverse_nonzero; exact H | apply (inverse_r FC a H)].
Qed.

(* (a b)^-1 = b^-1 a^-1 *)
Theorem inverse_mul a b : Mat.Matrix4x4_Determinant a <> c0 -> Mat.Matrix4x4_Determinant b <> c0 ->
  Mat.Matrix4x4_Inverse (Mat.Matrix4x4_Multiply a b) =
  Mat.Matrix4x4_Multiply (Mat.Matrix4x4_Inverse b) (Mat.Matrix4x4_Inverse a).
Proof.
  intros Ha Hb. symmetry. apply (inverse_unique FC); [apply det_mul_nonzero; assumption|].
  rewrite (mul_assoc RC), <- (mul_assoc RC (Mat.Matrix4x4_Inverse a) a b), (inverse_l FC a Ha), (mul_id_l RC).
  apply (inverse_l FC b Hb).
Qed.

(* an invertible affine matrix and its Inverse undo each other on points (bytes of the composition: MulPosition of a
   product is the composition, Inverse a * a = Identity, MulPosition Identity = id) *)
Theorem mulposition_inverse a v : affine a -> Mat.Matrix4x4_Determinant a <> c0 ->
  Mat.Matrix4x4_MulPosition (Mat.Matrix4x4_Inverse a) (Mat.Matrix4x4_MulPosition a v) = v.
Proof.
  intros Ha H. rewrite <- (mulposition_compose RC (Mat.Matrix4x4_Inverse a) a v Ha), (inverse_l FC a H).
  apply (mulposition_identity RC).
Qed.
End MoreField.

(* ======================================================================== over R *)
Local Open Scope R_scope.

(* Normalize yields a unit quaternion (any non-zero quaternion) *)
Theorem normalize_unit (q : Quat.Quaternion R) : 0 < qnorm2 q -> qnorm2 (Quat.Quaternion_Normalize q) = 1.
Proof.
  intros H. quat_destruct q. gen_full_in H. gen_full. carrier_R.
  match goal with |- context [sqrt ?s] => set (S := s) in *; set (l := sqrt S) end.
  assert (HS : 0 < S) by (unfold S; lra).
  assert (Hl : l * l = S) by (apply sqrt_sqrt; lra).
  assert (l <> 0) by (intro E; rewrite E in Hl; lra).
  transitivity (S / (l * l)); [unfold S; field; assumption|]. rewrite Hl. field. lra.
Qed.

(* RotationTo returns a unit quaternion in every branch (unit directions) ... *)
Theorem rotation_to_unit (a b : vec3 R) : v3_dot a a = 1 -> v3_dot b b = 1 -> qnorm2 (Quat.RotationTo a b) = 1.
Proof.
  intros Ha Hb. gen_unfold_keep.
  destruct (v3_dot a b <? cofQ (-999999) 1000000)%C eqn:E1.
  - (* antiparallel: FromTheta pi (normalised axis) *)
    assert (K : forall c : vec3 R, 0 < v3_dot c c -> qnorm2 (Quat.FromTheta cpi (v3_normalized c)) = 1).
    { intros c Hc. apply from_theta_unit. rewrite (normalized_dot c Hc). lra. }
    destruct (v3_length (v3_cross v3_right a) <? cofQ 1 1000000)%C eqn:E.
    + apply Rltb_true in E. apply K.
      destruct a as [x y z]. vu.
      set (s := (0 * z - 0 * y) * (0 * z - 0 * y) + (0 * x - 1 * z) * (0 * x - 1 * z) + (1 * y - 0 * x) * (1 * y - 0 * x)) in E.
      assert (Hs : 0 <= s) by (unfold s; nra).
      pose proof (sqrt_sqrt s Hs) as Hss. pose proof (sqrt_pos s) as Hp.
      assert (s < 1 / 1000000) by nra.
      unfold s in *. nra.
    + apply Rltb_false in E. apply K.
      unfold v3_length in E. carrier_R.
      assert (H : 0 < sqrt (v3_length_squared (v3_cross v3_right a))) by lra.
      apply sqrt_pos_arg in H. exact H.
  - destruct (cofQ 999999 1000000 <? v3_dot a b)%C eqn:E2.
    + gen_full. carrier_R. ring.
    + apply Rltb_false in E1. apply Rltb_false in E2. carrier_R.
      (* generic branch: Normalize (a x b, 1 + a.b), whose squared norm 2(1 + a.b) is positive *)
      change (qnorm2 (Quat.Quaternion_Normalize (Quat.mkQuaternion (v3_cross a b) (1 + v3_dot a b))) = 1).
      apply normalize_unit.
      pose proof (rotation_to_norm R_ring_carrier a b) as N. cbv zeta in N. carrier_R. rewrite N, Ha, Hb.
      assert (-1 < v3_dot a b) by lra. nra.
Qed.

(* ... hence Rotate (RotationTo a b) preserves the length of EVERY vector, not only of a (end to end:
   rotation_to_unit + rot_length) *)
Theorem rotation_to_isometry (a b v : vec3 R) : v3_dot a a = 1 -> v3_dot b b = 1 ->
  v3_length (Quat.Quaternion_Rotate (Quat.RotationTo a b) v) = v3_length v.
Proof. intros Ha Hb. apply rot_length. now apply rotation_to_unit. Qed.

(* FromTheta + Rotate: a rotation about an axis preserves every length (from_theta_unit + rot_length) *)
Theorem from_theta_isometry (theta : R) (axis v : vec3 R) : 0 < v3_dot axis axis ->
  v3_length (Quat.Quaternion_Rotate (Quat.FromTheta theta axis) v) = v3_length v.
Proof. intros H. apply rot_length. now apply from_theta_unit. Qed.

(* ------------------------------------------------------------------------ boxes *)
Definition nonneg_box (b : Aabb.AABB R) : Prop :=
  0 <= v3x (Aabb.AABB_extents b) /\ 0 <= v3y (Aabb.AABB_extents b) /\ 0 <= v3z (Aabb.AABB_extents b).

(* Intersects says exactly whether the two (closed, non-empty) boxes have a common point *)
Theorem intersects_iff (a b : Aabb.AABB R) : nonneg_box a -> nonneg_box b ->
  (Aabb.AABB_Intersects a b = true <->
   exists p, Aabb.AABB_Contains a p = true /\ Aabb.AABB_Contains b p = true).
Proof.
  intros (A1 & A2 & A3) (B1 & B2 & B3). split.
  - intros H.
    exists (v3_max (box_lo a) (box_lo b)).
    split; apply contains_iff; box_destruct a; destruct b as [[dx dy dz] [fx fy fz]]; aabb_unfold;
      repeat match type of H with context [Rleb ?x ?y] =>
        let E := fresh "E" in destruct (Rleb x y) eqn:E; [apply Rleb_true in E | apply Rleb_false in E]; cbv iota in H end;
      try discriminate H; split_minmax; lra.
  - intros (p & Hp & Hq). apply contains_iff in Hp. apply contains_iff in Hq.
    box_destruct a; destruct b as [[dx dy dz] [fx fy fz]]; destruct p as [x y z]. aabb_unfold.
    repeat match goal with |- context [Rleb ?x ?y] =>
      let E := fresh "E" in destruct (Rleb x y) eqn:E; [| apply Rleb_false in E; exfalso; lra] end.
    reflexivity.
Qed.

(* Expand moves every face outwards by amount/2: the box keeps its centre and (for amount >= 0) its points *)
Theorem expand_contains (b : Aabb.AABB R) (amount : R) (q : vec3 R) : 0 <= amount ->
  Aabb.AABB_center (Aabb.AABB_Expand b amount) = Aabb.AABB_center b /\
  box_hi (Aabb.AABB_Expand b amount) = v3_add (box_hi b) (mkV3 (amount / 2) (amount / 2) (amount / 2)) /\
  (Aabb.AABB_Contains b q = true -> Aabb.AABB_Contains (Aabb.AABB_Expand b amount) q = true).
Proof.
  intros Hm. split; [|split].
  - box_destruct b. reflexivity.
  - box_destruct b. aabb_unfold. apply v3_eqR; lra.
  - intros H. apply contains_iff. apply contains_iff in H.
    box_destruct b; destruct q as [x y z]. aabb_unfold. lra.
Qed.

(* Size = Max - Min, Volume = product of the sizes *)
Theorem size_volume (b : Aabb.AABB R) :
  Aabb.AABB_Size b = v3_sub (Aabb.AABB_Max b) (Aabb.AABB_Min b) /\
  Aabb.AABB_Min b = box_lo b /\ Aabb.AABB_Max b = box_hi b /\ Aabb.AABB_Center b = Aabb.AABB_center b /\
  Aabb.AABB_Volume b = v3x (Aabb.AABB_Size b) * v3y (Aabb.AABB_Size b) * v3z (Aabb.AABB_Size b).
Proof.
  box_destruct b. repeat split; aabb_unfold; try reflexivity; try (apply v3_eqR; lra); lra.
Qed.

(* a box is not changed by encapsulating a point it already contains (so an early return for contained points is
   behaviour-preserving, and one with a tolerance is not) *)
Theorem encapsulate_inside (b : Aabb.AABB R) (p : vec3 R) : Aabb.AABB_Contains b p = true ->
  box_lo (Aabb.AABB_EncapsulatePoint b p) = box_lo b /\ box_hi (Aabb.AABB_EncapsulatePoint b p) = box_hi b.
Proof.
  intros H. apply contains_iff in H. destruct (encapsulate_point_bounds b p) as [-> ->].
  box_destruct b; destruct p as [x y z]. aabb_unfold. split; apply v3_eqR; split_minmax; lra.
Qed.

(* NewAABBFromPoints: the Go loop (fold of componentwise min / max, outside the translator's subset) is modelled by
   AlgebraSpec.box_from_points, which ends in the TRANSLATED NewAABB; every point is in the box and every face of the
   box touches a point *)
Lemma fold_min_le (f : vec3 R -> R) (pts : list (vec3 R)) (m0 : R) :
  let m := fold_left (fun acc p => Rmin (f p) acc) pts m0 in
  m <= m0 /\ (forall p, In p pts -> m <= f p) /\ (m = m0 \/ exists p, In p pts /\ m = f p).
Proof.
  revert m0. induction pts as [|x pts IH]; intros m0; cbn [fold_left].
  - cbv zeta. split; [lra|]. split; [intros p []|]. now left.
  - specialize (IH (Rmin (f x) m0)). cbv zeta in *. destruct IH as (I1 & I2 & I3).
    pose proof (Rmin_l (f x) m0). pose proof (Rmin_r (f x) m0).
    split; [lra|]. split.
    + intros p [<- | Hp]; [lra | now apply I2].
    + destruct I3 as [E | (p & Hp & E)].
      * destruct (Rle_dec (f x) m0) as [L|L].
        -- right. exists x. split; [now left|]. rewrite E. apply Rmin_left. exact L.
        -- left. rewrite E. apply Rmin_right. lra.
      * right. exists p. split; [now right | exact E].
Qed.

Lemma fold_max_ge (f : vec3 R -> R) (pts : list (vec3 R)) (m0 : R) :
  let m := fold_left (fun acc p => Rmax (f p) acc) pts m0 in
  m0 <= m /\ (forall p, In p pts -> f p <= m) /\ (m = m0 \/ exists p, In p pts /\ m = f p).
Proof.
  revert m0. induction pts as [|x pts IH]; intros m0; cbn [fold_left].
  - cbv zeta. split; [lra|]. split; [intros p []|]. now left.
  - specialize (IH (Rmax (f x) m0)). cbv zeta in *. destruct IH as (I1 & I2 & I3).
    pose proof (Rmax_l (f x) m0). pose proof (Rmax_r (f x) m0).
    split; [lra|]. split.
    + intros p [<- | Hp]; [lra | now apply I2].
    + destruct I3 as [E | (p & Hp & E)].
      * destruct (Rle_dec (f x) m0) as [L|L].
        -- left. rewrite E. apply Rmax_right. exact L.
        -- right. exists x. split; [now left|]. rewrite E. apply Rmax_left. lra.
      * right. exists p. split; [now right | exact E].
Qed.

Lemma newaabb_bounds (lo hi : vec3 R) :
  let b := Aabb.NewAABB (v3_add (v3_scale (v3_sub hi lo) (cofQ 1 2)) lo) (v3_sub hi lo) in
  box_lo b = lo /\ box_hi b = hi.
Proof. destruct lo as [l1 l2 l3], hi as [h1 h2 h3]. cbv zeta. aabb_unfold. split; apply v3_eqR; lra. Qed.

Theorem box_from_points_contains (p0 : vec3 R) (pts : list (vec3 R)) :
  let b := box_from_points p0 pts in
  (forall p, In p (p0 :: pts) -> Aabb.AABB_Contains b p = true) /\
  (exists p, In p (p0 :: pts) /\ v3x p = v3x (box_lo b)) /\ (exists p, In p (p0 :: pts) /\ v3x p = v3x (box_hi b)) /\
  (exists p, In p (p0 :: pts) /\ v3y p = v3y (box_lo b)) /\ (exists p, In p (p0 :: pts) /\ v3y p = v3y (box_hi b)) /\
  (exists p, In p (p0 :: pts) /\ v3z p = v3z (box_lo b)) /\ (exists p, In p (p0 :: pts) /\ v3z p = v3z (box_hi b)).
Proof.
  cbv zeta. unfold box_from_points. cbv zeta.
  destruct (newaabb_bounds (pts_lo p0 pts) (pts_hi p0 pts)) as [LO HI].
  set (b := Aabb.NewAABB _ _) in *. clearbody b.
  pose proof (fold_min_le v3x pts (v3x p0)) as (X1a & X1b & X1c). pose proof (fold_max_ge v3x pts (v3x p0)) as (X2a & X2b & X2c).
  pose proof (fold_min_le v3y pts (v3y p0)) as (Y1a & Y1b & Y1c). pose proof (fold_max_ge v3y pts (v3y p0)) as (Y2a & Y2b & Y2c).
  pose proof (fold_min_le v3z pts (v3z p0)) as (Z1a & Z1b & Z1c). pose proof (fold_max_ge v3z pts (v3z p0)) as (Z2a & Z2b & Z2c).
  assert (W : forall (f : vec3 R -> R) m, (m = f p0 \/ exists p, In p pts /\ m = f p) -> exists p, In p (p0 :: pts) /\ f p = m).
  { intros f m [E | (p & Hp & E)]; [exists p0; split; [now left | now symmetry] | exists p; split; [now right | now symmetry]]. }
  rewrite LO, HI. unfold pts_lo, pts_hi. cbn [v3x v3y v3z]. carrier_R.
  split.
  - intros p Hp. apply contains_iff. rewrite LO, HI. unfold in_box, pts_lo, pts_hi. cbn [v3x v3y v3z]. carrier_R.
    destruct Hp as [<- | Hp].
    + lra.
    + pose proof (X1b p Hp); pose proof (X2b p Hp); pose proof (Y1b p Hp); pose proof (Y2b p Hp);
      pose proof (Z1b p Hp); pose proof (Z2b p Hp). lra.
  - repeat split; apply W; assumption.
Qed.
