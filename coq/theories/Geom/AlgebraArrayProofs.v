(* C17 — array-level entry points of the translated code (coq/gen/Trs.v, Quat.v): TRS.TransformArray,
   TRS.TransformInPlace and Quaternion.RotateArray apply the scalar entry point to every element, in order, nothing
   added or dropped — over an arbitrary commutative ring, axiom-free.  The Go loops are translated by tools/go2coq
   (element-wise loops become List.map; a loop of any other shape — chunking, goroutines, partial ranges — is
   rejected by the translator, which the check reports as a broken obligation).
   Shape-independent: the proofs compute both sides down to  map (fun v => <carrier expression>) xs  and compare
   the element functions with ring, so a different but equal per-element formula is still accepted. *)
From Coq Require Import ZArith List Bool Lia Ring.
From PF Require Import Geom.Vec Geom.AlgebraSpec Geom.AlgebraQuatProofs.
From PFGen Require Quat Trs.
Import ListNotations.
Local Open Scope nat_scope.
Local Open Scope carrier_scope.

Section ArrayRing.
Context {F : Type} {FO : Carrier F} (RC : ring_carrier FO).
Add Ring Fring : (rc_ring RC).
Ltac lits := rewrite ?(rc_ofZ RC); cbn [zinj pinj].
Ltac cring := lits; ring.
(* both sides are (nested) maps over the same list: compare the element functions *)
Ltac pointwise :=
  gen_full_keep_map; rewrite ?map_map;
  apply map_ext; intros [v1 v2 v3]; gen_full; apply v3_eq'; cring.

Theorem transform_array_pointwise (t : Trs.TRS F) (xs : list (vec3 F)) :
  Trs.TRS_TransformArray t xs = map (Trs.TRS_Transform t) xs.
Proof. destruct t as [[p1 p2 p3] [s1 s2 s3] r]; quat_destruct r. pointwise. Qed.

Theorem transform_in_place_pointwise (t : Trs.TRS F) (xs : list (vec3 F)) :
  Trs.TRS_TransformInPlace t xs = map (Trs.TRS_Transform t) xs.
Proof. destruct t as [[p1 p2 p3] [s1 s2 s3] r]; quat_destruct r. pointwise. Qed.

Theorem rotate_array_pointwise (q : Quat.Quaternion F) (xs : list (vec3 F)) :
  Quat.Quaternion_RotateArray q xs = map (Quat.Quaternion_Rotate q) xs.
Proof. quat_destruct q. pointwise. Qed.

(* element i of the result is the transform of element i; the length is preserved *)
Corollary transform_array_nth t xs d i :
  length (Trs.TRS_TransformArray t xs) = length xs /\
  nth i (Trs.TRS_TransformArray t xs) (Trs.TRS_Transform t d) = Trs.TRS_Transform t (nth i xs d).
Proof. rewrite transform_array_pointwise. split; [apply map_length | apply map_nth]. Qed.

Corollary transform_in_place_nth t xs d i :
  length (Trs.TRS_TransformInPlace t xs) = length xs /\
  nth i (Trs.TRS_TransformInPlace t xs) (Trs.TRS_Transform t d) = Trs.TRS_Transform t (nth i xs d).
Proof. rewrite transform_in_place_pointwise. split; [apply map_length | apply map_nth]. Qed.

Corollary rotate_array_nth q xs d i :
  length (Quat.Quaternion_RotateArray q xs) = length xs /\
  nth i (Quat.Quaternion_RotateArray q xs) (Quat.Quaternion_Rotate q d) = Quat.Quaternion_Rotate q (nth i xs d).
Proof. rewrite rotate_array_pointwise. split; [apply map_length | apply map_nth]. Qed.

(* the two array entry points of TRS agree *)
Corollary transform_array_in_place t xs : Trs.TRS_TransformArray t xs = Trs.TRS_TransformInPlace t xs.
Proof. now rewrite transform_array_pointwise, transform_in_place_pointwise. Qed.
End ArrayRing.
