(* C19 — capsule: geometry.Line3D.ClosestPointOnLine is the nearest point of the segment (a <> b), hence
   sdf.Line is the exact signed distance of the capsule. *)
From Coq Require Import Reals Lra Lia Psatz List ZArith.
From PF Require Import Geom.Vec Geom.SdfSpec Geom.SdfBase Geom.SdfProofs.
From PFGen Require Import Sdf SdfGeo.
Local Open Scope R_scope.

Definition cp (a b p : pt) : pt := Line3D_ClosestPointOnLine (NewLine3D a b) p.

Lemma Line_eq a b r p : Line a b r p = dist p (cp a b p) - r.
Proof. unfold Line. rewrite gen_distance. reflexivity. Qed.

Lemma neq_dot_pos (a b : pt) : a <> b -> 0 < dot (psub b a) (psub b a).
Proof.
  intros Hab. assert (H := dot_self_nonneg (psub b a)).
  destruct (Req_dec (dot (psub b a) (psub b a)) 0) as [E|E]; [|lra].
  exfalso. apply Hab. symmetry. apply dist_zero_iff. unfold dist, norm. rewrite E. apply sqrt_0.
Qed.

(* the clamped projection parameter *)
Definition tproj (a b p : pt) : R := dot (psub p a) (psub b a) / dot (psub b a) (psub b a).

Lemma cp_cases a b p : a <> b ->
  exists tau, 0 <= tau <= 1 /\ cp a b p = padd a (smul tau (psub b a)) /\
    ((1 <= tproj a b p /\ tau = 1) \/ (tproj a b p <= 0 /\ tau = 0) \/ tau = tproj a b p).
Proof.
  intros Hab. assert (HL := neq_dot_pos a b Hab).
  unfold cp, Line3D_ClosestPointOnLine, NewLine3D. cbn [Line3D_p1 Line3D_p2].
  set (m := v3_length (v3_sub b a)).
  assert (Hm : m * m = dot (psub b a) (psub b a)) by (unfold m; rewrite gen_length, gen_sub; apply norm_sq).
  assert (Hmpos : 0 < m).
  { assert (H := norm_nonneg (psub b a)). unfold m. rewrite gen_length, gen_sub.
    destruct (Req_dec (norm (psub b a)) 0) as [E|E]; [|lra].
    unfold m in Hm. rewrite gen_length, gen_sub, E in Hm. lra. }
  assert (Et : (v3_dot (v3_sub p a) (v3_normalized (v3_sub b a)) / m)%C = tproj a b p).
  { unfold tproj. rewrite <- Hm. unfold v3_normalized. fold m.
    unfold v3_dot, v3_div_by_constant, v3_sub, dot, psub. carrier_R. cbn [v3x v3y v3z].
    field. lra. }
  rewrite Et. carrier_R.
  (* a guard `if |b-a| == 0 { return p1 }` (proposed fix for zero-length segments) is not taken when a <> b *)
  try match goal with |- context [Reqb ?x ?y] =>
    destruct (Reqb x y) eqn:E0; [apply Reqb_true in E0; exfalso; lra|] end.
  destruct (Rleb 1 (tproj a b p)) eqn:E1.
  - apply Rleb_true in E1. exists 1. split; [lra|]. split; [|left; split; auto].
    destruct a, b. unfold padd, smul, psub; cbn. f_equal; ring.
  - apply Rleb_false in E1. destruct (Rleb (tproj a b p) 0) eqn:E2.
    + apply Rleb_true in E2. exists 0. split; [lra|]. split; [|right; left; split; auto].
      destruct a, b. unfold padd, smul, psub; cbn. f_equal; ring.
    + apply Rleb_false in E2. exists (tproj a b p). split; [lra|]. split; [|right; right; auto].
      rewrite gen_add, gen_scale, gen_sub. reflexivity.
Qed.

Lemma cp_in_segment a b p : a <> b -> segment a b (cp a b p).
Proof. intros Hab. destruct (cp_cases a b p Hab) as [tau [Ht [E _]]]. exists tau. auto. Qed.

(* variational inequality: the segment lies in the half space behind the closest point *)
Lemma cp_variational a b p s : a <> b -> segment a b s ->
  dot (psub p (cp a b p)) (psub s (cp a b p)) <= 0.
Proof.
  intros Hab [sg [Hsg ->]]. assert (HL := neq_dot_pos a b Hab).
  destruct (cp_cases a b p Hab) as [tau [Ht [-> Hc]]].
  set (L2 := dot (psub b a) (psub b a)) in *. set (t0 := tproj a b p) in *.
  assert (Ewd : dot (psub p a) (psub b a) = t0 * L2) by (unfold t0, tproj; fold L2; field; lra).
  assert (E : dot (psub p (padd a (smul tau (psub b a)))) (psub (padd a (smul sg (psub b a))) (padd a (smul tau (psub b a))))
              = (sg - tau) * (dot (psub p a) (psub b a) - tau * L2)).
  { unfold L2, dot, psub, padd, smul; cbn. ring. }
  rewrite E, Ewd.
  replace ((sg - tau) * (t0 * L2 - tau * L2)) with (((sg - tau) * (t0 - tau)) * L2) by ring.
  assert (H : (sg - tau) * (t0 - tau) <= 0).
  { destruct Hc as [[H1 ->] | [[H1 ->] | ->]]; nra. }
  nra.
Qed.

Lemma nearest_of_variational (S : pt -> Prop) c p :
  S c -> (forall s, S s -> dot (psub p c) (psub s c) <= 0) -> nearest S c p.
Proof.
  intros Sc Hv. split; auto. intros s Ss. unfold dist.
  apply le_norm_of_sq. rewrite norm_sq.
  assert (E : dot (psub p s) (psub p s) = dot (psub p c) (psub p c) - 2 * dot (psub p c) (psub s c) + dot (psub s c) (psub s c)).
  { unfold dot, psub; cbn. ring. }
  rewrite E. assert (H1 := Hv s Ss). assert (H2 := dot_self_nonneg (psub s c)). lra.
Qed.

Theorem capsule_nearest a b p : a <> b -> nearest (segment a b) (cp a b p) p.
Proof.
  intros Hab. apply nearest_of_variational. apply cp_in_segment; auto.
  intros s Hs. apply cp_variational; auto.
Qed.

Theorem capsule_lipschitz a b r : a <> b -> lipschitz1 (Line a b r).
Proof.
  intros Hab p q. rewrite !Line_eq.
  replace (dist p (cp a b p) - r - (dist q (cp a b q) - r)) with (dist p (cp a b p) - dist q (cp a b q)) by ring.
  apply (lipschitz_of_nearest (segment a b) (cp a b)). intros x. apply capsule_nearest; auto.
Qed.

Theorem capsule_sign a b r : a <> b -> sdf_sign (Line a b r) (capsule_int a b r) (capsule_surf a b r).
Proof.
  intros Hab p. rewrite Line_eq. destruct (capsule_nearest a b p Hab) as [Hin Hn].
  split; split.
  - intros H. exists (cp a b p). split; auto. lra.
  - intros [s [Hs Hd]]. assert (H := Hn s Hs). lra.
  - intros H. exists (cp a b p). split; [split; auto | lra].
  - intros [c [[Hc Hnc] ->]]. assert (H1 := Hn c Hc). assert (H2 := Hnc _ Hin). lra.
Qed.

(* points further along the ray from the closest point keep the same closest point *)
Lemma ray_keeps_nearest (S : pt -> Prop) c p k :
  S c -> (forall s, S s -> dot (psub p c) (psub s c) <= 0) -> 0 <= k ->
  nearest S c (padd c (smul k (psub p c))).
Proof.
  intros Sc Hv Hk. apply nearest_of_variational; auto. intros s Ss.
  replace (dot (psub (padd c (smul k (psub p c))) c) (psub s c)) with (k * dot (psub p c) (psub s c)).
  - assert (H := Hv s Ss). nra.
  - unfold dot, psub, padd, smul; cbn. ring.
Qed.

(* a unit vector orthogonal to a non-zero vector *)
Lemma exists_perp_unit (d : pt) : 0 < dot d d -> exists u, dot u u = 1 /\ dot u d = 0.
Proof.
  destruct d as [dx dy dz]. unfold dot; cbn [v3x v3y v3z]. intros Hd.
  destruct (Req_dec (dx * dx + dy * dy) 0) as [E|E].
  - exists (P3 1 0 0). cbn. assert (dx = 0) by nra. subst. split; ring.
  - set (n := sqrt (dx * dx + dy * dy)).
    assert (Hn : n * n = dx * dx + dy * dy) by (apply sqrt_sqrt; nra).
    assert (Hn0 : n <> 0) by (intros Z; rewrite Z in Hn; lra).
    exists (P3 (- dy / n) (dx / n) 0). cbn. split.
    + replace (- dy / n * (- dy / n) + dx / n * (dx / n) + 0 * 0) with ((dx * dx + dy * dy) / (n * n)) by (field; auto).
      rewrite Hn. field. lra.
    + field. auto.
Qed.

Theorem capsule_exact a b r : a <> b -> 0 <= r -> sdf_exact (Line a b r) (capsule_surf a b r).
Proof.
  intros Hab Hr p. rewrite Line_eq.
  assert (HN := capsule_nearest a b p Hab). destruct HN as [Hin Hn].
  assert (HV := fun s Hs => cp_variational a b p s Hab Hs).
  set (c := cp a b p) in *. set (D := dist p c).
  (* lower bound: the distance to the segment is 1-Lipschitz *)
  assert (LB : forall s, capsule_surf a b r s -> Rabs (D - r) <= dist p s).
  { intros s [cs [[Hcs Hncs] Er]]. rewrite Er. unfold D. apply Rabs_le. split.
    - assert (H1 := Hncs _ Hin). assert (H2 := dist_triangle s p c). rewrite (dist_sym s p) in H2. lra.
    - assert (H1 := Hn _ Hcs). assert (H2 := dist_triangle p s cs). lra. }
  assert (HD := dist_nonneg p c). fold D in HD.
  destruct (Req_dec D 0) as [Hz | Hnz].
  - (* p on the segment: leave it orthogonally *)
    assert (Epc : p = c) by (apply dist_zero_iff; exact Hz).
    destruct (exists_perp_unit (psub b a) (neq_dot_pos a b Hab)) as [u [Hu1 Hu0]].
    exists (padd p (smul r u)).
    assert (Ed : dist p (padd p (smul r u)) = r).
    { unfold dist. apply norm_eq_of_sq; auto.
      replace (dot (psub p (padd p (smul r u))) (psub p (padd p (smul r u)))) with (r * r * dot u u)
        by (unfold dot, psub, padd, smul; cbn; ring).
      rewrite Hu1. ring. }
    assert (Hsurf : capsule_surf a b r (padd p (smul r u))).
    { exists p. split; [|rewrite dist_sym; auto].
      apply nearest_of_variational. rewrite Epc. exact Hin.
      intros s [sg [_ ->]].
      destruct (cp_cases a b p Hab) as [tau [_ [Ec _]]]. fold c in Ec.
      assert (Ep' : p = padd a (smul tau (psub b a))) by (rewrite <- Ec; exact Epc).
      assert (E2 : dot u (psub (padd a (smul sg (psub b a))) p) = (sg - tau) * dot u (psub b a)).
      { rewrite Ep'. unfold dot, psub, padd, smul; cbn. ring. }
      replace (dot (psub (padd p (smul r u)) p) (psub (padd a (smul sg (psub b a))) p))
        with (r * dot u (psub (padd a (smul sg (psub b a))) p)) by (unfold dot, psub, padd, smul; cbn; ring).
      rewrite E2, Hu0. lra. }
    rewrite Hz. replace (0 - r) with (- r) by ring. rewrite Rabs_Ropp, Rabs_right by lra.
    split; [split|]; auto. intros s Hs. rewrite Ed. specialize (LB s Hs). rewrite Hz in LB.
    replace (0 - r) with (- r) in LB by ring. rewrite Rabs_Ropp, Rabs_right in LB by lra. exact LB.
  - assert (HDpos : 0 < D) by lra.
    exists (padd c (smul (r / D) (psub p c))).
    assert (Hk : 0 <= r / D) by (apply Rmult_le_pos; [lra | left; apply Rinv_0_lt_compat; lra]).
    assert (Es : dist (padd c (smul (r / D) (psub p c))) c = r).
    { rewrite dist_along_c. fold D. rewrite Rabs_right by lra. field. lra. }
    assert (Ep : dist p (padd c (smul (r / D) (psub p c))) = Rabs (D - r)).
    { rewrite dist_along. fold D. rewrite <- (Rabs_right D) at 2 by lra. rewrite <- Rabs_mult.
      f_equal. field. lra. }
    split; [split|]; auto.
    + exists c. split; [|auto]. apply ray_keeps_nearest; auto.
    + intros s Hs. rewrite Ep. apply LB. exact Hs.
Qed.
