(* C17 — hand-written specifications the translated transform code (coq/gen/{Mat,Quat,Trs,Aabb}.v) is
   proved against.  Everything is generic in the scalar carrier (Geom.Vec.Carrier), like the generated
   definitions, so the same specification is used over an abstract commutative ring / field (axiom-free
   theorems), over R (theorems with sqrt / order) and over Q (executable, used by Check/C17.v as the
   direct oracle on the implementation's outputs).

   No proofs here (the file must still build when a proof breaks).  Nothing in this file mentions a
   translated *function*: only the translated record types are used, so that the entry accessor, the
   Hamilton product etc. are independent of what the Go code computes. *)
From Coq Require Import ZArith QArith Reals List Bool.
From PF Require Import Geom.Vec.
From PFGen Require Mat Quat Trs Aabb.
Import ListNotations.
Local Open Scope nat_scope.
Local Open Scope carrier_scope.

Section Spec.
Context {F : Type} {FO : Carrier F}.

(* ---------------------------------------------------------------- 4x4 matrices *)
(* entry accessor: row i, column j (0-based); outside 0..3 the value is 0 *)
Definition get (m : Mat.Matrix4x4 F) (i j : nat) : F :=
  match i, j with
  | 0, 0 => Mat.Matrix4x4_X00 m | 0, 1 => Mat.Matrix4x4_X01 m | 0, 2 => Mat.Matrix4x4_X02 m | 0, 3 => Mat.Matrix4x4_X03 m
  | 1, 0 => Mat.Matrix4x4_X10 m | 1, 1 => Mat.Matrix4x4_X11 m | 1, 2 => Mat.Matrix4x4_X12 m | 1, 3 => Mat.Matrix4x4_X13 m
  | 2, 0 => Mat.Matrix4x4_X20 m | 2, 1 => Mat.Matrix4x4_X21 m | 2, 2 => Mat.Matrix4x4_X22 m | 2, 3 => Mat.Matrix4x4_X23 m
  | 3, 0 => Mat.Matrix4x4_X30 m | 3, 1 => Mat.Matrix4x4_X31 m | 3, 2 => Mat.Matrix4x4_X32 m | 3, 3 => Mat.Matrix4x4_X33 m
  | _, _ => c0
  end.

(* the matrix whose (i,j) entry is f i j *)
Definition mat_of (f : nat -> nat -> F) : Mat.Matrix4x4 F :=
  Mat.mkMatrix4x4 (f 0 0) (f 0 1) (f 0 2) (f 0 3) (f 1 0) (f 1 1) (f 1 2) (f 1 3)
                  (f 2 0) (f 2 1) (f 2 2) (f 2 3) (f 3 0) (f 3 1) (f 3 2) (f 3 3).

Definition sum4 (f : nat -> F) : F := ((f 0 + f 1) + f 2) + f 3.
Definition delta (i j : nat) : F := if Nat.eqb i j then c1 else c0.

(* the specification of the four matrix operations, entry by entry *)
Definition add_spec (a b : Mat.Matrix4x4 F) := mat_of (fun i j => get a i j + get b i j).
Definition mul_spec (a b : Mat.Matrix4x4 F) := mat_of (fun i j => sum4 (fun k => get a i k * get b k j)).
Definition id_spec : Mat.Matrix4x4 F := mat_of delta.

(* Laplace / Leibniz determinant, written independently of the Go expression:
   3x3 minors by the rule of Sarrus, 4x4 by expansion along row 0 *)
Definition det3 (a b c d e f g h i : F) : F :=
  ((a * ((e * i) - (f * h))) - (b * ((d * i) - (f * g)))) + (c * ((d * h) - (e * g))).
(* minor of m with row r and column c removed *)
Definition skip (r k : nat) : nat := if Nat.ltb k r then k else S k.
Definition minor (m : Mat.Matrix4x4 F) (r c : nat) : F :=
  let g i j := get m (skip r i) (skip c j) in
  det3 (g 0 0) (g 0 1) (g 0 2) (g 1 0) (g 1 1) (g 1 2) (g 2 0) (g 2 1) (g 2 2).
Definition det_spec (m : Mat.Matrix4x4 F) : F :=
  (((get m 0 0 * minor m 0 0) - (get m 0 1 * minor m 0 1)) + (get m 0 2 * minor m 0 2)) - (get m 0 3 * minor m 0 3).
Definition sgn (i j : nat) (x : F) : F := if Nat.even (i + j) then x else - x.
(* adjugate: transpose of the cofactor matrix *)
Definition adj_spec (m : Mat.Matrix4x4 F) : Mat.Matrix4x4 F := mat_of (fun i j => sgn i j (minor m j i)).

(* rows 0..2 of  M * (x,y,z,1)^T  — what MulPosition is specified to return *)
Definition mulpos_spec (m : Mat.Matrix4x4 F) (v : vec3 F) : vec3 F :=
  let row i := (((get m i 0 * v3x v) + (get m i 1 * v3y v)) + (get m i 2 * v3z v)) + get m i 3 in
  mkV3 (row 0) (row 1) (row 2).
(* last row (0,0,0,1): the matrix is an affine map *)
Definition affine (m : Mat.Matrix4x4 F) : Prop :=
  get m 3 0 = c0 /\ get m 3 1 = c0 /\ get m 3 2 = c0 /\ get m 3 3 = c1.

(* ---------------------------------------------------------------- quaternions *)
(* Hamilton product  (pw + pv)(qw + qv) = pw qw - pv.qv + pw qv + qw pv + pv x qv *)
Definition hamilton (p q : Quat.Quaternion F) : Quat.Quaternion F :=
  let pv := Quat.Quaternion_v p in let pw := Quat.Quaternion_w p in
  let qv := Quat.Quaternion_v q in let qw := Quat.Quaternion_w q in
  Quat.mkQuaternion
    (v3_add (v3_add (v3_scale qv pw) (v3_scale pv qw)) (v3_cross pv qv))
    ((pw * qw) - v3_dot pv qv).
Definition qconj (q : Quat.Quaternion F) : Quat.Quaternion F :=
  Quat.mkQuaternion (mkV3 (- v3x (Quat.Quaternion_v q)) (- v3y (Quat.Quaternion_v q)) (- v3z (Quat.Quaternion_v q)))
                    (Quat.Quaternion_w q).
Definition qpure (v : vec3 F) : Quat.Quaternion F := Quat.mkQuaternion v c0.
Definition qnorm2 (q : Quat.Quaternion F) : F :=
  (Quat.Quaternion_w q * Quat.Quaternion_w q) + v3_length_squared (Quat.Quaternion_v q).
(* rotation by the sandwich product q (0,v) q*  (for a unit q the usual q v q^-1) *)
Definition rotate_spec (q : Quat.Quaternion F) (v : vec3 F) : vec3 F :=
  Quat.Quaternion_v (hamilton (hamilton q (qpure v)) (qconj q)).
Definition v3_neg (v : vec3 F) : vec3 F := mkV3 (- v3x v) (- v3y v) (- v3z v).

(* ---------------------------------------------------------------- TRS *)
(* scale, then rotate (by the sandwich product), then translate *)
Definition trs_spec (p s : vec3 F) (r : Quat.Quaternion F) (v : vec3 F) : vec3 F :=
  v3_add (rotate_spec r (v3_mult_by_vector s v)) p.

(* ---------------------------------------------------------------- boxes (boolean, executable) *)
Definition in_boxb (lo hi p : vec3 F) : bool :=
  (v3x lo <=? v3x p) && (v3x p <=? v3x hi) && (v3y lo <=? v3y p) && (v3y p <=? v3y hi) &&
  (v3z lo <=? v3z p) && (v3z p <=? v3z hi).
End Spec.

(* ---------------------------------------------------------------- mesh level (hand-written model, binding H)
   modeling.Mesh.Rotate / Translate / Scale / ApplyTRS rebuild the Position attribute by applying one point
   function to every entry; everything else of the mesh is shared.  The model of the Position array: *)
Definition mesh_map {F : Type} (f : vec3 F -> vec3 F) (positions : list (vec3 F)) : list (vec3 F) := map f positions.

(* geometry.NewAABBFromPoints(points...) (hand-written model, binding H: a variadic fold with math.Inf sentinels is
   outside the translator's subset).  The Go loop folds componentwise min / max over all points starting from
   (+Inf, -Inf), i.e. from the first point over the rest; then  area = max - min,  center = area/2 + min  and the
   TRANSLATED constructor NewAABB(center, area).  [p0] is the first point, [pts] the remaining ones. *)
Section BoxFromPoints.
Context {F : Type} {FO : Carrier F}.
Definition pts_lo (p0 : vec3 F) (pts : list (vec3 F)) : vec3 F :=
  mkV3 (fold_left (fun acc p => cmin (v3x p) acc) pts (v3x p0)) (fold_left (fun acc p => cmin (v3y p) acc) pts (v3y p0))
       (fold_left (fun acc p => cmin (v3z p) acc) pts (v3z p0)).
Definition pts_hi (p0 : vec3 F) (pts : list (vec3 F)) : vec3 F :=
  mkV3 (fold_left (fun acc p => cmax (v3x p) acc) pts (v3x p0)) (fold_left (fun acc p => cmax (v3y p) acc) pts (v3y p0))
       (fold_left (fun acc p => cmax (v3z p) acc) pts (v3z p0)).
Definition box_from_points (p0 : vec3 F) (pts : list (vec3 F)) : Aabb.AABB F :=
  let lo := pts_lo p0 pts in let hi := pts_hi p0 pts in
  let area := v3_sub hi lo in
  Aabb.NewAABB (v3_add (v3_scale area (cofQ 1 2)) lo) area.
End BoxFromPoints.

(* boxes over R: the closed box [lo,hi] *)
Definition in_box (lo hi p : vec3 R) : Prop :=
  (v3x lo <= v3x p <= v3x hi /\ v3y lo <= v3y p <= v3y hi /\ v3z lo <= v3z p <= v3z hi)%R.
Definition box_lo (b : Aabb.AABB R) : vec3 R := v3_sub (Aabb.AABB_center b) (Aabb.AABB_extents b).
Definition box_hi (b : Aabb.AABB R) : vec3 R := v3_add (Aabb.AABB_center b) (Aabb.AABB_extents b).
Definition dist2 (a b : vec3 R) : R :=
  ((v3x a - v3x b) * (v3x a - v3x b) + (v3y a - v3y b) * (v3y a - v3y b) + (v3z a - v3z b) * (v3z a - v3z b))%R.

(* ---------------------------------------------------------------- shape-independent unfolding of generated code
   The proofs must not depend on HOW the Go code is written (helper functions, temporaries, tuple-returning
   helpers, named constants ...), so they never name a generated definition in [unfold]:
   [gen_full]   computes everything down to the carrier operations (used after destructing the records: both
                sides become constructor terms over + * - / literals, closed by ring / field);
   [gen_unfold] unfolds every definition EXCEPT the carrier operations, the vector prelude of Geom.Vec and the
                real-number relations, i.e. exactly the generated code and the specifications of this file, and
                then reduces vector projections of constructors — the structure in terms of v3_dot, v3_cross,
                v4_length ... stays visible for the proofs over R. *)
Ltac gen_full :=
  cbv beta iota zeta delta -[c0 c1 cadd cmul csub copp cdiv csqrt cabs cmax cmin csin ccos cpi cltb cleb ceqb cofZ cofQ
    Rle Rlt Rge Rgt Rminus Rdiv Rmin Rmax Rabs Rsqr IZR sqrt R_carrier Q_carrier].
(* the same, but List.map stays folded: element-wise array functions become  map (fun v => ...) xs *)
Ltac gen_full_keep_map :=
  cbv beta iota zeta delta -[c0 c1 cadd cmul csub copp cdiv csqrt cabs cmax cmin csin ccos cpi cltb cleb ceqb cofZ cofQ
    Rle Rlt Rge Rgt Rminus Rdiv Rmin Rmax Rabs Rsqr IZR sqrt map R_carrier Q_carrier].
Ltac gen_full_in H :=
  cbv beta iota zeta delta -[c0 c1 cadd cmul csub copp cdiv csqrt cabs cmax cmin csin ccos cpi cltb cleb ceqb cofZ cofQ
    Rle Rlt Rge Rgt Rminus Rdiv Rmin Rmax Rabs Rsqr IZR sqrt R_carrier Q_carrier] in H.
Ltac gen_unfold :=
  cbv beta iota zeta delta -[c0 c1 cadd cmul csub copp cdiv csqrt cabs cmax cmin csin ccos cpi cltb cleb ceqb cofZ cofQ
    Rle Rlt Rge Rgt Rminus Rdiv Rmin Rmax Rabs Rsqr IZR sqrt
    v2x v2y v3x v3y v3z v4x v4y v4z v4w
    czero cone chalf cclamp v3_new v3_fill v3_zero v3_one v3_right v3_left v3_up v3_down v3_forward v3_backwards
    v3_set_x v3_set_y v3_set_z v3_add v3_sub v3_scale v3_div_by_constant v3_mult_by_vector v3_dot v3_cross
    v3_length_squared v3_length v3_normalized v3_distance_squared v3_distance v3_abs v3_min v3_max v3_min_component
    v3_max_component v3_clamp v3_flip v3_midpoint v3_reflect v3_xy v3_xz v3_yz v3_yx v3_zx v3_zy
    v2_new v2_fill v2_zero v2_one v2_up v2_down v2_left v2_right v2_set_x v2_set_y v2_add v2_sub v2_scale
    v2_div_by_constant v2_mult_by_vector v2_dot v2_length_squared v2_length v2_normalized v2_distance_squared
    v2_distance v2_abs v2_min v2_max v2_min_component v2_max_component v2_clamp v2_flip v2_perpendicular v2_midpoint v2_yx
    v4_new v4_fill v4_zero v4_one v4_set_x v4_set_y v4_set_z v4_set_w v4_add v4_sub v4_scale v4_div_by_constant
    v4_mult_by_vector v4_dot v4_length_squared v4_length v4_normalized v4_abs v4_min v4_max v4_min_component
    v4_max_component v4_xyz v4_xy R_carrier Q_carrier];
  cbn [v2x v2y v3x v3y v3z v4x v4y v4z v4w].
