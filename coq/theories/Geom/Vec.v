(* Hand-written prelude for code translated by tools/go2coq (binding T).

   * [Carrier F]: the scalar operations Go's float64 code uses ( + - * / unary - comparisons,
     math.Sqrt/Abs/Max/Min/Sin/Cos/Pi, numeric literals).  Generated files are ONE definition per Go
     function, generic in the carrier; the same constant is then used
       - over [R]  ([R_carrier])  by the theorems,
       - over [Q]  ([Q_carrier])  by vm_compute in the correspondence check (exact on the polynomial /
         rational functions; sqrt/sin/cos are high-precision rational approximations there),
       - over any commutative ring / field ([ring_carrier] / [field_carrier] hypotheses) by the
         axiom-free versions of the polynomial theorems.
   * vec2/vec3/vec4: the methods of github.com/EliCDavis/vector v1.8.0 (vector2/vector3/vector4) that
     translated code calls, transcribed line by line from that library (operation order included,
     e.g. vector2.DivByConstant is Scale(1/t) while vector3/4.DivByConstant divide each component).

   No proofs about geometry live here (AlgebraProofs.v); only the definitions, the instances and the
   small tactics that expose the instance operations to ring/field/lra. *)
From Coq Require Import ZArith QArith Qabs Reals List Bool.
Import ListNotations.

Class Carrier (F : Type) := {
  c0 : F; c1 : F;
  cadd : F -> F -> F; cmul : F -> F -> F; csub : F -> F -> F; copp : F -> F;
  cdiv : F -> F -> F;
  csqrt : F -> F; cabs : F -> F; cmax : F -> F -> F; cmin : F -> F -> F;
  csin : F -> F; ccos : F -> F; cpi : F;
  cltb : F -> F -> bool; cleb : F -> F -> bool; ceqb : F -> F -> bool;
  cofZ : Z -> F;                      (* integer literal *)
  cofQ : Z -> positive -> F           (* literal n/d, e.g. 0.999999 = cofQ 999999 1000000 *)
}.

Declare Scope carrier_scope.
Delimit Scope carrier_scope with C.
Infix "+" := cadd : carrier_scope.
Infix "*" := cmul : carrier_scope.
Infix "-" := csub : carrier_scope.
Infix "/" := cdiv : carrier_scope.
Notation "- x" := (copp x) : carrier_scope.
Infix "<?" := cltb : carrier_scope.
Infix "<=?" := cleb : carrier_scope.
Infix "=?" := ceqb : carrier_scope.
Notation "x >? y" := (cltb y x) (only parsing) : carrier_scope.
Notation "x >=? y" := (cleb y x) (only parsing) : carrier_scope.

Record vec2 (F : Type) := mkV2 { v2x : F; v2y : F }.
Record vec3 (F : Type) := mkV3 { v3x : F; v3y : F; v3z : F }.
Record vec4 (F : Type) := mkV4 { v4x : F; v4y : F; v4z : F; v4w : F }.
Arguments mkV2 {F}. Arguments v2x {F}. Arguments v2y {F}.
Arguments mkV3 {F}. Arguments v3x {F}. Arguments v3y {F}. Arguments v3z {F}.
Arguments mkV4 {F}. Arguments v4x {F}. Arguments v4y {F}. Arguments v4z {F}. Arguments v4w {F}.

Section Vectors.
Context {F : Type} {FO : Carrier F}.
Local Open Scope carrier_scope.

Definition czero : F := cofZ 0.
Definition cone : F := cofZ 1.
Definition chalf : F := cofQ 1 2.
(* vector.Clamp(f, min, max) = math.Max(math.Min(f, max), min) *)
Definition cclamp (f lo hi : F) : F := cmax (cmin f hi) lo.

(* ---- vector3 ---- *)
Definition v3_new (x y z : F) : vec3 F := mkV3 x y z.
Definition v3_fill (v : F) : vec3 F := mkV3 v v v.
Definition v3_zero : vec3 F := mkV3 (cofZ 0) (cofZ 0) (cofZ 0).
Definition v3_one : vec3 F := mkV3 (cofZ 1) (cofZ 1) (cofZ 1).
Definition v3_right : vec3 F := mkV3 (cofZ 1) (cofZ 0) (cofZ 0).
Definition v3_left : vec3 F := mkV3 (cofZ (-1)) (cofZ 0) (cofZ 0).
Definition v3_up : vec3 F := mkV3 (cofZ 0) (cofZ 1) (cofZ 0).
Definition v3_down : vec3 F := mkV3 (cofZ 0) (cofZ (-1)) (cofZ 0).
Definition v3_forward : vec3 F := mkV3 (cofZ 0) (cofZ 0) (cofZ 1).
Definition v3_backwards : vec3 F := mkV3 (cofZ 0) (cofZ 0) (cofZ (-1)).
Definition v3_set_x (v : vec3 F) (x : F) := mkV3 x (v3y v) (v3z v).
Definition v3_set_y (v : vec3 F) (y : F) := mkV3 (v3x v) y (v3z v).
Definition v3_set_z (v : vec3 F) (z : F) := mkV3 (v3x v) (v3y v) z.
Definition v3_add (a b : vec3 F) := mkV3 (v3x a + v3x b) (v3y a + v3y b) (v3z a + v3z b).
Definition v3_sub (a b : vec3 F) := mkV3 (v3x a - v3x b) (v3y a - v3y b) (v3z a - v3z b).
Definition v3_scale (a : vec3 F) (t : F) := mkV3 (v3x a * t) (v3y a * t) (v3z a * t).
Definition v3_div_by_constant (a : vec3 F) (t : F) := mkV3 (v3x a / t) (v3y a / t) (v3z a / t).
Definition v3_mult_by_vector (a b : vec3 F) := mkV3 (v3x a * v3x b) (v3y a * v3y b) (v3z a * v3z b).
Definition v3_dot (a b : vec3 F) : F := ((v3x a * v3x b) + (v3y a * v3y b)) + (v3z a * v3z b).
Definition v3_cross (a b : vec3 F) :=
  mkV3 ((v3y a * v3z b) - (v3z a * v3y b)) ((v3z a * v3x b) - (v3x a * v3z b)) ((v3x a * v3y b) - (v3y a * v3x b)).
Definition v3_length_squared (a : vec3 F) : F := ((v3x a * v3x a) + (v3y a * v3y a)) + (v3z a * v3z a).
Definition v3_length (a : vec3 F) : F := csqrt (v3_length_squared a).
Definition v3_normalized (a : vec3 F) := v3_div_by_constant a (v3_length a).
Definition v3_distance_squared (v other : vec3 F) : F :=
  let xd := v3x other - v3x v in let yd := v3y other - v3y v in let zd := v3z other - v3z v in
  ((xd * xd) + (yd * yd)) + (zd * zd).
Definition v3_distance (v other : vec3 F) : F := csqrt (v3_distance_squared v other).
Definition v3_abs (a : vec3 F) := mkV3 (cabs (v3x a)) (cabs (v3y a)) (cabs (v3z a)).
Definition v3_min (a b : vec3 F) := mkV3 (cmin (v3x a) (v3x b)) (cmin (v3y a) (v3y b)) (cmin (v3z a) (v3z b)).
Definition v3_max (a b : vec3 F) := mkV3 (cmax (v3x a) (v3x b)) (cmax (v3y a) (v3y b)) (cmax (v3z a) (v3z b)).
Definition v3_min_component (a : vec3 F) : F := cmin (v3x a) (cmin (v3y a) (v3z a)).
Definition v3_max_component (a : vec3 F) : F := cmax (v3x a) (cmax (v3y a) (v3z a)).
Definition v3_clamp (a : vec3 F) (lo hi : F) := mkV3 (cclamp (v3x a) lo hi) (cclamp (v3y a) lo hi) (cclamp (v3z a) lo hi).
Definition v3_flip (a : vec3 F) := mkV3 (v3x a * cofZ (-1)) (v3y a * cofZ (-1)) (v3z a * cofZ (-1)).
Definition v3_midpoint (v o : vec3 F) :=
  mkV3 ((v3x o + v3x v) * chalf) ((v3y o + v3y v) * chalf) ((v3z o + v3z v) * chalf).
Definition v3_reflect (v n : vec3 F) := v3_sub v (v3_scale n (cofZ 2 * v3_dot v n)).
Definition v3_xy (a : vec3 F) := mkV2 (v3x a) (v3y a).
Definition v3_xz (a : vec3 F) := mkV2 (v3x a) (v3z a).
Definition v3_yz (a : vec3 F) := mkV2 (v3y a) (v3z a).
Definition v3_yx (a : vec3 F) := mkV2 (v3y a) (v3x a).
Definition v3_zx (a : vec3 F) := mkV2 (v3z a) (v3x a).
Definition v3_zy (a : vec3 F) := mkV2 (v3z a) (v3y a).

(* ---- vector2 ---- *)
Definition v2_new (x y : F) : vec2 F := mkV2 x y.
Definition v2_fill (v : F) : vec2 F := mkV2 v v.
Definition v2_zero : vec2 F := mkV2 (cofZ 0) (cofZ 0).
Definition v2_one : vec2 F := mkV2 (cofZ 1) (cofZ 1).
Definition v2_up : vec2 F := mkV2 (cofZ 0) (cofZ 1).
Definition v2_down : vec2 F := mkV2 (cofZ 0) (cofZ (-1)).
Definition v2_left : vec2 F := mkV2 (cofZ (-1)) (cofZ 0).
Definition v2_right : vec2 F := mkV2 (cofZ 1) (cofZ 0).
Definition v2_set_x (v : vec2 F) (x : F) := mkV2 x (v2y v).
Definition v2_set_y (v : vec2 F) (y : F) := mkV2 (v2x v) y.
Definition v2_add (a b : vec2 F) := mkV2 (v2x a + v2x b) (v2y a + v2y b).
Definition v2_sub (a b : vec2 F) := mkV2 (v2x a - v2x b) (v2y a - v2y b).
Definition v2_scale (a : vec2 F) (t : F) := mkV2 (v2x a * t) (v2y a * t).
Definition v2_div_by_constant (a : vec2 F) (t : F) := v2_scale a (cofZ 1 / t).
Definition v2_mult_by_vector (a b : vec2 F) := mkV2 (v2x a * v2x b) (v2y a * v2y b).
Definition v2_dot (a b : vec2 F) : F := (v2x a * v2x b) + (v2y a * v2y b).
Definition v2_length_squared (a : vec2 F) : F := (v2x a * v2x a) + (v2y a * v2y a).
Definition v2_length (a : vec2 F) : F := csqrt ((v2x a * v2x a) + (v2y a * v2y a)).
Definition v2_normalized (a : vec2 F) := v2_div_by_constant a (v2_length a).
Definition v2_distance_squared (v other : vec2 F) : F :=
  let xd := v2x other - v2x v in let yd := v2y other - v2y v in (xd * xd) + (yd * yd).
Definition v2_distance (v other : vec2 F) : F := csqrt (v2_distance_squared v other).
Definition v2_abs (a : vec2 F) := mkV2 (cabs (v2x a)) (cabs (v2y a)).
Definition v2_min (a b : vec2 F) := mkV2 (cmin (v2x a) (v2x b)) (cmin (v2y a) (v2y b)).
Definition v2_max (a b : vec2 F) := mkV2 (cmax (v2x a) (v2x b)) (cmax (v2y a) (v2y b)).
Definition v2_min_component (a : vec2 F) : F := cmin (v2x a) (v2y a).
Definition v2_max_component (a : vec2 F) : F := cmax (v2x a) (v2y a).
Definition v2_clamp (a : vec2 F) (lo hi : F) := mkV2 (cclamp (v2x a) lo hi) (cclamp (v2y a) lo hi).
Definition v2_flip (a : vec2 F) := mkV2 (v2x a * cofZ (-1)) (v2y a * cofZ (-1)).
Definition v2_perpendicular (a : vec2 F) := mkV2 (v2y a) (- v2x a).
Definition v2_midpoint (v o : vec2 F) := v2_scale (v2_add o v) chalf.
Definition v2_yx (a : vec2 F) := mkV2 (v2y a) (v2x a).

(* ---- vector4 ---- *)
Definition v4_new (x y z w : F) : vec4 F := mkV4 x y z w.
Definition v4_fill (v : F) : vec4 F := mkV4 v v v v.
Definition v4_zero : vec4 F := mkV4 (cofZ 0) (cofZ 0) (cofZ 0) (cofZ 0).
Definition v4_one : vec4 F := mkV4 (cofZ 1) (cofZ 1) (cofZ 1) (cofZ 1).
Definition v4_set_x (v : vec4 F) (x : F) := mkV4 x (v4y v) (v4z v) (v4w v).
Definition v4_set_y (v : vec4 F) (y : F) := mkV4 (v4x v) y (v4z v) (v4w v).
Definition v4_set_z (v : vec4 F) (z : F) := mkV4 (v4x v) (v4y v) z (v4w v).
Definition v4_set_w (v : vec4 F) (w : F) := mkV4 (v4x v) (v4y v) (v4z v) w.
Definition v4_add (a b : vec4 F) := mkV4 (v4x a + v4x b) (v4y a + v4y b) (v4z a + v4z b) (v4w a + v4w b).
Definition v4_sub (a b : vec4 F) := mkV4 (v4x a - v4x b) (v4y a - v4y b) (v4z a - v4z b) (v4w a - v4w b).
Definition v4_scale (a : vec4 F) (t : F) := mkV4 (v4x a * t) (v4y a * t) (v4z a * t) (v4w a * t).
Definition v4_div_by_constant (a : vec4 F) (t : F) := mkV4 (v4x a / t) (v4y a / t) (v4z a / t) (v4w a / t).
Definition v4_mult_by_vector (a b : vec4 F) :=
  mkV4 (v4x a * v4x b) (v4y a * v4y b) (v4z a * v4z b) (v4w a * v4w b).
Definition v4_dot (a b : vec4 F) : F :=
  (((v4x a * v4x b) + (v4y a * v4y b)) + (v4z a * v4z b)) + (v4w a * v4w b).
Definition v4_length_squared (a : vec4 F) : F :=
  (((v4x a * v4x a) + (v4y a * v4y a)) + (v4z a * v4z a)) + (v4w a * v4w a).
Definition v4_length (a : vec4 F) : F := csqrt (v4_length_squared a).
Definition v4_normalized (a : vec4 F) := v4_div_by_constant a (v4_length a).
Definition v4_abs (a : vec4 F) := mkV4 (cabs (v4x a)) (cabs (v4y a)) (cabs (v4z a)) (cabs (v4w a)).
Definition v4_min (a b : vec4 F) :=
  mkV4 (cmin (v4x a) (v4x b)) (cmin (v4y a) (v4y b)) (cmin (v4z a) (v4z b)) (cmin (v4w a) (v4w b)).
Definition v4_max (a b : vec4 F) :=
  mkV4 (cmax (v4x a) (v4x b)) (cmax (v4y a) (v4y b)) (cmax (v4z a) (v4z b)) (cmax (v4w a) (v4w b)).
Definition v4_min_component (a : vec4 F) : F := cmin (cmin (v4x a) (v4y a)) (cmin (v4z a) (v4w a)).
Definition v4_max_component (a : vec4 F) : F := cmax (cmax (v4x a) (v4y a)) (cmax (v4z a) (v4w a)).
Definition v4_xyz (a : vec4 F) := mkV3 (v4x a) (v4y a) (v4z a).
Definition v4_xy (a : vec4 F) := mkV2 (v4x a) (v4y a).
End Vectors.

(* ------------------------------------------------------------------ R instance *)
Definition Rltb (a b : R) : bool := if Rlt_dec a b then true else false.
Definition Rleb (a b : R) : bool := if Rle_dec a b then true else false.
Definition Reqb (a b : R) : bool := if Req_EM_T a b then true else false.

Global Instance R_carrier : Carrier R := {|
  c0 := 0%R; c1 := 1%R;
  cadd := Rplus; cmul := Rmult; csub := Rminus; copp := Ropp; cdiv := Rdiv;
  csqrt := sqrt; cabs := Rabs; cmax := Rmax; cmin := Rmin;
  csin := sin; ccos := cos; cpi := PI;
  cltb := Rltb; cleb := Rleb; ceqb := Reqb;
  cofZ := IZR;
  cofQ := fun n d => (IZR n / IZR (Zpos d))%R
|}.

Lemma Rltb_true a b : Rltb a b = true <-> (a < b)%R.
Proof. unfold Rltb. destruct (Rlt_dec a b); split; intros; auto; discriminate. Qed.
Lemma Rltb_false a b : Rltb a b = false <-> (b <= a)%R.
Proof.
  unfold Rltb. destruct (Rlt_dec a b); split; intros; auto; try discriminate.
  - exfalso. apply (Rlt_irrefl a). eapply Rlt_le_trans; eauto.
  - apply Rnot_lt_le. assumption.
Qed.
Lemma Rleb_true a b : Rleb a b = true <-> (a <= b)%R.
Proof. unfold Rleb. destruct (Rle_dec a b); split; intros; auto; discriminate. Qed.
Lemma Rleb_false a b : Rleb a b = false <-> (b < a)%R.
Proof.
  unfold Rleb. destruct (Rle_dec a b); split; intros; auto; try discriminate.
  - exfalso. apply (Rlt_irrefl a). eapply Rle_lt_trans; eauto.
  - apply Rnot_le_lt. assumption.
Qed.
Lemma Reqb_true a b : Reqb a b = true <-> a = b.
Proof. unfold Reqb. destruct (Req_EM_T a b); split; intros; auto; discriminate. Qed.

(* expose the R operations hidden behind the class projections (then ring / field / lra / nra apply) *)
Ltac carrier_R :=
  cbn [c0 c1 cadd cmul csub copp cdiv csqrt cabs cmax cmin csin ccos cpi cltb cleb ceqb cofZ cofQ R_carrier] in *.
Ltac vec_unfold :=
  unfold v3_new, v3_fill, v3_zero, v3_one, v3_right, v3_left, v3_up, v3_down, v3_forward, v3_backwards,
    v3_set_x, v3_set_y, v3_set_z, v3_add, v3_sub, v3_scale, v3_div_by_constant, v3_mult_by_vector, v3_dot,
    v3_cross, v3_normalized, v3_length, v3_length_squared, v3_distance, v3_distance_squared, v3_abs,
    v3_min, v3_max, v3_min_component, v3_max_component, v3_flip,
    v2_new, v2_add, v2_sub, v2_scale, v2_dot, v2_length, v2_length_squared,
    v4_new, v4_add, v4_sub, v4_scale, v4_div_by_constant, v4_dot, v4_normalized, v4_length,
    v4_length_squared, czero, cone, chalf, cclamp in *;
  cbn [v2x v2y v3x v3y v3z v4x v4y v4z v4w] in *.

(* ------------------------------------------------------------------ Q instance (executable) *)
(* sqrt on Q: floor(sqrt(q * 4^k)) / 2^k with k = 160: exact on squares of dyadic rationals with a short
   expansion, otherwise a lower approximation with absolute error below 2^-160.  sin/cos: Taylor
   polynomials (40 terms) — only used on tolerance cases. *)
Definition Qsqrt_bits : positive := 160.
Definition Qsqrt (q : Q) : Q :=
  let q := Qred q in
  if (Qnum q <=? 0)%Z then 0%Q
  else Qred (Z.sqrt ((Qnum q * 2 ^ (2 * Zpos Qsqrt_bits)) / Zpos (Qden q)) # (2 ^ Qsqrt_bits)).

Fixpoint Qtaylor (fuel : nat) (x2 term : Q) (k : Z) (acc : Q) : Q :=
  match fuel with
  | O => acc
  | S f =>
      (* next term = - term * x^2 / ((k+1)(k+2)) *)
      let t := Qred (- term * x2 / inject_Z ((k + 1) * (k + 2))) in
      Qtaylor f x2 t (k + 2) (Qred (acc + t))
  end.
(* truncate to ~200 bits so iterated products stay small *)
Definition Qtrunc (q : Q) : Q := Qred ((Qnum q * 2 ^ 200 / Zpos (Qden q)) # (2 ^ 200)).
Definition Qcos (x : Q) : Q := let x := Qtrunc x in Qtrunc (Qtaylor 40 (Qred (x * x)) 1 0 1).
Definition Qsin (x : Q) : Q := let x := Qtrunc x in Qtrunc (Qtaylor 40 (Qred (x * x)) x 1 x).
Definition Qpi : Q :=
  (31415926535897932384626433832795028841971693993751058209749445923 #
   10000000000000000000000000000000000000000000000000000000000000000).

Definition Qltb (a b : Q) : bool := negb (Qle_bool b a).
Definition Qmaxb (a b : Q) : Q := if Qle_bool a b then b else a.
Definition Qminb (a b : Q) : Q := if Qle_bool a b then a else b.

Global Instance Q_carrier : Carrier Q := {|
  c0 := 0%Q; c1 := 1%Q;
  cadd := Qplus; cmul := Qmult; csub := Qminus; copp := Qopp; cdiv := Qdiv;
  csqrt := Qsqrt; cabs := Qabs; cmax := Qmaxb; cmin := Qminb;
  csin := Qsin; ccos := Qcos; cpi := Qpi;
  cltb := Qltb; cleb := Qle_bool; ceqb := Qeq_bool;
  cofZ := inject_Z;
  cofQ := fun n d => Qmake n d
|}.

(* ------------------------------------------------------------------ abstract ring / field carriers *)
Section Abstract.
Context {F : Type} {FO : Carrier F}.
Local Open Scope carrier_scope.

Fixpoint pinj (p : positive) : F :=
  match p with
  | xH => c1
  | xO p => let x := pinj p in x + x
  | xI p => let x := pinj p in c1 + (x + x)
  end.
Definition zinj (z : Z) : F :=
  match z with Z0 => c0 | Zpos p => pinj p | Zneg p => - pinj p end.

(* a carrier whose + * - satisfy the commutative-ring laws and whose integer literals are the
   canonical images of the integers; nothing is assumed about / sqrt abs max min sin cos comparisons *)
Record ring_carrier : Prop := {
  rc_ring : ring_theory c0 c1 cadd cmul csub copp (@eq F);
  rc_ofZ : forall z, cofZ z = zinj z
}.
(* additionally x / y = x * (1 / y) and (1 / x) * x = 1 for x <> 0, 1 <> 0 *)
Record field_carrier : Prop := {
  fc_ring : ring_carrier;
  fc_field : field_theory c0 c1 cadd cmul csub copp cdiv (fun x => c1 / x) (@eq F)
}.
End Abstract.
Arguments ring_carrier {F} FO.
Arguments field_carrier {F} FO.
