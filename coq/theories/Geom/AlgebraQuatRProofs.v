(* C17 — quaternion theorems of the translated code over R (order, sqrt, sin/cos): RotationTo maps the first
   direction onto the second (generic branch exactly; antiparallel branch, including the x axis, exactly onto
   -a; near-parallel branch returns the identity), FromTheta yields unit quaternions, unit quaternions preserve
   length.  Uses the stdlib real-number axioms (Print Assumptions in Properties/C17.v). *)
From Coq Require Import ZArith Reals Lra List Bool Ring Field.
From PF Require Import Geom.Vec Geom.AlgebraSpec Geom.AlgebraInst Geom.AlgebraQuatProofs.
From PFGen Require Quat.
Local Open Scope R_scope.
Ltac vu := vec_unfold; vec_unfold; carrier_R.
(* unfold the generated code of the goal (whatever helpers / temporaries it is written with) but keep the
   anchored entry points Rotate and FromTheta folded, so that the lemmas about them still apply *)
Ltac gen_unfold_keep :=
  let ROT := fresh "ROT" in let HROT := fresh "HROT" in
  let FT := fresh "FT" in let HFT := fresh "HFT" in
  remember (@Quat.Quaternion_Rotate R R_carrier) as ROT eqn:HROT;
  remember (@Quat.FromTheta R R_carrier) as FT eqn:HFT;
  gen_unfold; subst ROT; subst FT.
Ltac gen_unfold_keep_rot :=
  let ROT := fresh "ROT" in let HROT := fresh "HROT" in
  remember (@Quat.Quaternion_Rotate R R_carrier) as ROT eqn:HROT;
  gen_unfold; subst ROT.
Lemma sqrt_pos_arg x : 0 < sqrt x -> 0 < x.
Proof.
  intros H. destruct (Rle_dec x 0) as [Hx|Hx]; [|lra].
  rewrite (sqrt_neg_0 x Hx) in H. lra.
Qed.

Lemma normalized_dot (c : vec3 R) : 0 < v3_dot c c -> v3_dot (v3_normalized c) (v3_normalized c) = 1.
Proof.
  intros H. destruct c as [x y z]. vu.
  set (l := sqrt _). assert (Hl : l * l = x * x + y * y + z * z) by (apply sqrt_sqrt; lra).
  assert (l <> 0) by (intro E; rewrite E in Hl; lra).
  transitivity ((x * x + y * y + z * z) / (l * l)); [field; assumption|]. rewrite Hl. field. lra.
Qed.

Lemma normalized_of_unit (n : vec3 R) : v3_dot n n = 1 -> v3_normalized n = n.
Proof.
  intros H. destruct n as [x y z]. vu. rewrite H, sqrt_1. apply v3_eq'; field.
Qed.

Lemma normalized_perp (c a : vec3 R) : v3_dot c a = 0 -> v3_dot (v3_normalized c) a = 0.
Proof.
  intros H. destruct c as [x y z], a as [a1 a2 a3]. vu.
  set (l := sqrt _). unfold Rdiv.
  transitivity ((x * a1 + y * a2 + z * a3) * / l); [ring|]. rewrite H. ring.
Qed.

(* a half turn about any axis c perpendicular to a maps a to -a *)
Lemma from_theta_pi_flips (c a : vec3 R) : 0 < v3_dot c c -> v3_dot c a = 0 ->
  Quat.Quaternion_Rotate (Quat.FromTheta cpi (v3_normalized c)) a = v3_neg a.
Proof.
  intros Hc Hp. gen_unfold_keep_rot. carrier_R.
  replace (PI / 2) with (PI / 2) by reflexivity.
  change (IZR 2) with 2. rewrite sin_PI2, cos_PI2.
  rewrite (normalized_of_unit _ (normalized_dot c Hc)).
  pose proof (normalized_dot c Hc) as Hn. pose proof (normalized_perp c a Hp) as Hq.
  set (n := v3_normalized c) in *.
  replace (v3_scale n 1) with n by (destruct n as [n1 n2 n3]; unfold v3_scale; cbn [v3x v3y v3z]; carrier_R; apply v3_eq'; ring).
  pose proof (half_turn R_ring_carrier n a Hq) as HT. carrier_R. rewrite HT, Hn.
  destruct a as [a1 a2 a3]. unfold v3_neg, v3_scale. cbn [v3x v3y v3z]. carrier_R. apply v3_eq'; ring.
Qed.

Theorem rotation_to_antiparallel (a b : vec3 R) :
  v3_dot a a = 1 -> v3_dot a b < -0.999999 ->
  Quat.Quaternion_Rotate (Quat.RotationTo a b) a = v3_neg a.
Proof.
  intros Ha Hd. gen_unfold_keep.
  assert (E1 : (v3_dot a b <? cofQ (-999999) 1000000)%C = true) by (apply Rltb_true; carrier_R; lra).
  rewrite E1. clear E1.
  destruct (v3_length (v3_cross v3_right a) <? cofQ 1 1000000)%C eqn:E.
  - apply Rltb_true in E. apply from_theta_pi_flips.
    + destruct a as [x y z]. vu.
      set (s := (0 * z - 0 * y) * (0 * z - 0 * y) + (0 * x - 1 * z) * (0 * x - 1 * z) + (1 * y - 0 * x) * (1 * y - 0 * x)) in E.
      assert (Hs : 0 <= s) by (unfold s; nra).
      pose proof (sqrt_sqrt s Hs) as Hss. pose proof (sqrt_pos s) as Hp.
      assert (s < 1 / 1000000) by nra.
      unfold s in *. nra.
    + destruct a as [x y z]. vu. ring.
  - apply Rltb_false in E. apply from_theta_pi_flips.
    + unfold v3_length in E. carrier_R.
      assert (H : 0 < sqrt (v3_length_squared (v3_cross v3_right a))) by lra.
      apply sqrt_pos_arg in H. exact H.
    + destruct a as [x y z]. vu. ring.
Qed.

Theorem rotation_to_parallel (a b : vec3 R) :
  0.999999 < v3_dot a b -> Quat.Quaternion_Rotate (Quat.RotationTo a b) a = a.
Proof.
  intros Hd. gen_unfold_keep.
  assert (E1 : (v3_dot a b <? cofQ (-999999) 1000000)%C = false) by (apply Rltb_false; carrier_R; lra).
  assert (E2 : (cofQ 999999 1000000 <? v3_dot a b)%C = true) by (apply Rltb_true; carrier_R; lra).
  rewrite E1, E2. destruct a as [x y z]. quat_unfold. carrier_R. apply v3_eq'; ring.
Qed.

Lemma lagrange (a b : vec3 R) :
  v3_length_squared (v3_cross a b) = v3_dot a a * v3_dot b b - v3_dot a b * v3_dot a b.
Proof. destruct a, b. vu. ring. Qed.

Theorem rotation_to_maps (a b : vec3 R) :
  v3_dot a a = 1 -> v3_dot b b = 1 -> -0.999999 <= v3_dot a b <= 0.999999 ->
  Quat.Quaternion_Rotate (Quat.RotationTo a b) a = b.
Proof.
  intros Ha Hb [Hlo Hhi].
  gen_unfold_keep.
  assert (E1 : (v3_dot a b <? cofQ (-999999) 1000000)%C = false) by (apply Rltb_false; carrier_R; lra).
  assert (E2 : (cofQ 999999 1000000 <? v3_dot a b)%C = false) by (apply Rltb_false; carrier_R; lra).
  rewrite E1, E2. clear E1 E2.
  unfold v4_normalized, v4_div_by_constant, v4_new, v3_new. cbn [v4x v4y v4z v4w].
  set (L := v4_length _).
  assert (HL2 : L * L = 2 * (1 + v3_dot a b)).
  { unfold L, v4_length. carrier_R.
    assert (E : v4_length_squared {| v4x := v3x (v3_cross a b); v4y := v3y (v3_cross a b); v4z := v3z (v3_cross a b);
                  v4w := 1 + v3_dot a b |} = 2 * (1 + v3_dot a b)).
    { transitivity (v3_length_squared (v3_cross a b) + (1 + v3_dot a b) * (1 + v3_dot a b)).
      - unfold v4_length_squared, v3_length_squared. cbn [v4x v4y v4z v4w]. carrier_R. ring.
      - rewrite lagrange, Ha, Hb. ring. }
    change (IZR 1) with 1. rewrite E. apply sqrt_sqrt. lra. }
  assert (HL : L <> 0) by (intro E; rewrite E in HL2; lra).
  transitivity (v3_scale (Quat.Quaternion_Rotate (Quat.mkQuaternion (v3_cross a b) (c1 + v3_dot a b)%C) a) (/ L * / L)%C).
  { exact (rot_scale_q R_ring_carrier (v3x (v3_cross a b)) (v3y (v3_cross a b)) (v3z (v3_cross a b)) (c1 + v3_dot a b)%C (/ L) a). }
  rewrite (rotation_to_core R_ring_carrier). cbv zeta. rewrite Ha, Hb.
  destruct a as [a1 a2 a3], b as [b1 b2 b3]. vu.
  replace (/ L * / L) with (/ (2 * (1 + (a1 * b1 + a2 * b2 + a3 * b3)))) by (rewrite <- HL2; field; exact HL).
  apply v3_eq'; field; lra.
Qed.

(* unit quaternions preserve length *)
Theorem rot_length (q : Quat.Quaternion R) (v : vec3 R) : qnorm2 q = 1 ->
  v3_length (Quat.Quaternion_Rotate q v) = v3_length v.
Proof.
  intros H. unfold v3_length. pose proof (rot_norm_unit R_ring_carrier q v) as E. carrier_R. now rewrite (E H).
Qed.

(* FromTheta normalises its axis: any non-zero axis and any angle give a unit quaternion ... *)
Theorem from_theta_unit (theta : R) (v : vec3 R) : 0 < v3_dot v v -> qnorm2 (Quat.FromTheta theta v) = 1.
Proof.
  intros Hv. pose proof (normalized_dot v Hv) as Hn. gen_unfold.
  cbn [Quat.Quaternion_v Quat.Quaternion_w]. set (n := v3_normalized v) in *. carrier_R.
  set (s := sin _). set (c := cos _). pose proof (sin2_cos2 (theta / IZR 2)) as T. unfold Rsqr in T. fold s c in T.
  destruct n as [n1 n2 n3]. vu.
  transitivity (c * c + (n1 * n1 + n2 * n2 + n3 * n3) * (s * s)); [ring|]. rewrite Hn. lra.
Qed.

(* ... which leaves the axis fixed *)
Theorem from_theta_fixes_axis (theta : R) (v : vec3 R) : 0 < v3_dot v v ->
  Quat.Quaternion_Rotate (Quat.FromTheta theta v) v = v.
Proof.
  intros Hv. pose proof (normalized_dot v Hv) as Hn. gen_unfold_keep_rot.
  assert (Hk : exists k, v = v3_scale (v3_normalized v) k).
  { exists (v3_length v). destruct v as [x y z]. vu. set (l := sqrt _) in *.
    assert (Hl : l * l = x * x + y * y + z * z) by (apply sqrt_sqrt; lra).
    assert (l <> 0) by (intro E; rewrite E in Hl; lra). apply v3_eq'; field; assumption. }
  destruct Hk as [k Hk]. set (n := v3_normalized v) in *. carrier_R.
  set (s := sin _). set (c := cos _). pose proof (sin2_cos2 (theta / IZR 2)) as T. unfold Rsqr in T. fold s c in T.
  rewrite Hk. clearbody n s c. destruct n as [n1 n2 n3]. quat_unfold. carrier_R. unfold v3_dot in Hn. cbn [v3x v3y v3z] in Hn. carrier_R.
  apply v3_eq'.
  - transitivity (n1 * k * ((n1 * n1 + n2 * n2 + n3 * n3) * (s * s) + c * c)); [ring|]. rewrite Hn. replace (1 * (s * s) + c * c) with 1 by lra. ring.
  - transitivity (n2 * k * ((n1 * n1 + n2 * n2 + n3 * n3) * (s * s) + c * c)); [ring|]. rewrite Hn. replace (1 * (s * s) + c * c) with 1 by lra. ring.
  - transitivity (n3 * k * ((n1 * n1 + n2 * n2 + n3 * n3) * (s * s) + c * c)); [ring|]. rewrite Hn. replace (1 * (s * s) + c * c) with 1 by lra. ring.
Qed.
