(* C17 — the abstract hypotheses [ring_carrier] / [field_carrier] of Geom.Vec are satisfiable:
   R (the carrier the order/sqrt theorems use) is a field carrier, Z is a ring carrier (axiom-free witness). *)
From Coq Require Import ZArith Reals Lra List Bool Ring Field.
From PF Require Import Geom.Vec.

Lemma pinj_R p : pinj (FO := R_carrier) p = IZR (Zpos p).
Proof.
  induction p as [p IH|p IH|]; cbn [pinj]; carrier_R.
  - rewrite IH, Pos2Z.inj_xI, plus_IZR, mult_IZR. ring.
  - rewrite IH, Pos2Z.inj_xO, mult_IZR. ring.
  - reflexivity.
Qed.

Lemma R_ring_carrier : ring_carrier R_carrier.
Proof.
  split.
  - exact RTheory.
  - intros [|p|p]; cbn [zinj cofZ R_carrier].
    + reflexivity.
    + symmetry. apply pinj_R.
    + rewrite pinj_R. cbn [copp R_carrier]. now rewrite <- opp_IZR.
Qed.

Lemma R_field_carrier : field_carrier R_carrier.
Proof.
  split; [exact R_ring_carrier|].
  constructor; cbn [c0 c1 cadd cmul csub copp cdiv R_carrier].
  - exact RTheory.
  - exact R1_neq_R0.
  - intros p q. unfold Rdiv. rewrite Rmult_1_l. reflexivity.
  - intros p Hp. unfold Rdiv. rewrite Rmult_1_l. now apply Rinv_l.
Qed.

(* an axiom-free ring carrier: the integers (division etc. are irrelevant for the ring laws) *)
Definition Z_carrier : Carrier Z := {|
  c0 := 0%Z; c1 := 1%Z; cadd := Z.add; cmul := Z.mul; csub := Z.sub; copp := Z.opp; cdiv := Z.div;
  csqrt := Z.sqrt; cabs := Z.abs; cmax := Z.max; cmin := Z.min; csin := fun _ => 0%Z; ccos := fun _ => 1%Z; cpi := 3%Z;
  cltb := Z.ltb; cleb := Z.leb; ceqb := Z.eqb; cofZ := fun z => z; cofQ := fun n d => (n / Zpos d)%Z |}.

Lemma pinj_Z p : pinj (FO := Z_carrier) p = Zpos p.
Proof.
  induction p as [p IH|p IH|]; cbn [pinj c1 cadd Z_carrier].
  - rewrite IH. rewrite Pos2Z.inj_xI. ring.
  - rewrite IH. rewrite Pos2Z.inj_xO. ring.
  - reflexivity.
Qed.

Lemma Z_ring_carrier : ring_carrier Z_carrier.
Proof.
  split.
  - exact Zth.
  - intros [|p|p]; cbn [zinj cofZ Z_carrier c0 copp]; rewrite ?pinj_Z; reflexivity.
Qed.
