(* C17 — Matrix4x4.Inverse of the translated code (coq/gen/Mat.v): over any commutative ring
   Inverse(a)·a = a·Inverse(a) = (1/det a · det a)·I  (pure ring identity, 1/det a treated as an atom),
   hence the identity matrix over any field when det a <> 0.  Also: Inverse a = (1/det a)·adj a with the
   adjugate written from 3x3 minors, and det (a·b) = det a · det b.  Axiom-free. *)
From Coq Require Import ZArith List Bool Lia Ring Field.
From PF Require Import Geom.Vec Geom.AlgebraSpec Geom.AlgebraMatProofs.
From PFGen Require Mat.
Local Open Scope nat_scope.
Local Open Scope carrier_scope.

Section MatInvRing.
Context {F : Type} {FO : Carrier F} (RC : ring_carrier FO).
Add Ring Fring : (rc_ring RC).
Ltac lits := rewrite ?(rc_ofZ RC); cbn [zinj pinj].

(* the scalar the Go code multiplies every cofactor with *)
Definition rdet (a : Mat.Matrix4x4 F) : F := cofZ 1 / Mat.Matrix4x4_Determinant a.
(* s·I *)
Definition scalar_mat (s : F) : Mat.Matrix4x4 F := mat_of (fun i j => s * delta i j).

Ltac inv_setup a :=
  mat_destruct a; gen_full;
  match goal with |- context [cofZ 1 / ?d] => set (r := cofZ 1 / d) end.

Lemma inverse_l_ring a :
  Mat.Matrix4x4_Multiply (Mat.Matrix4x4_Inverse a) a = scalar_mat (rdet a * Mat.Matrix4x4_Determinant a).
Proof. inv_setup a. apply mk_eq; lits; ring. Qed.

Lemma inverse_r_ring a :
  Mat.Matrix4x4_Multiply a (Mat.Matrix4x4_Inverse a) = scalar_mat (rdet a * Mat.Matrix4x4_Determinant a).
Proof. inv_setup a. apply mk_eq; lits; ring. Qed.

(* every entry of Inverse a is the matching cofactor (from 3x3 minors, transposed) times 1/det a *)
Lemma inverse_adjugate a i j : i < 4 -> j < 4 ->
  get (Mat.Matrix4x4_Inverse a) i j = get (adj_spec a) i j * rdet a.
Proof.
  intros Hi Hj. idx4 i Hi; idx4 j Hj; inv_setup a; lits; ring.
Qed.
End MatInvRing.

Section MatInvField.
Context {F : Type} {FO : Carrier F} (FC : field_carrier FO).
Let RC := fc_ring FC.
Add Ring Fring2 : (rc_ring RC).

Lemma rdet_det a : Mat.Matrix4x4_Determinant a <> c0 -> rdet a * Mat.Matrix4x4_Determinant a = c1.
Proof.
  intros H. unfold rdet. rewrite (rc_ofZ RC). cbn [zinj pinj].
  exact (Finv_l (fc_field FC) _ H).
Qed.

Lemma scalar_one : scalar_mat c1 = Mat.Identity (F := F).
Proof.
  rewrite (identity_is_spec RC). gen_full. apply mk_eq; ring.
Qed.

(* the inverse laws *)
Theorem inverse_l a : Mat.Matrix4x4_Determinant a <> c0 ->
  Mat.Matrix4x4_Multiply (Mat.Matrix4x4_Inverse a) a = Mat.Identity.
Proof. intros H. rewrite (inverse_l_ring RC), (rdet_det a H). apply scalar_one. Qed.

Theorem inverse_r a : Mat.Matrix4x4_Determinant a <> c0 ->
  Mat.Matrix4x4_Multiply a (Mat.Matrix4x4_Inverse a) = Mat.Identity.
Proof. intros H. rewrite (inverse_r_ring RC), (rdet_det a H). apply scalar_one. Qed.

(* the inverse is unique: any left inverse equals Inverse a *)
Theorem inverse_unique a b : Mat.Matrix4x4_Determinant a <> c0 ->
  Mat.Matrix4x4_Multiply b a = Mat.Identity -> b = Mat.Matrix4x4_Inverse a.
Proof.
  intros H Hb.
  rewrite <- (mul_id_r RC b), <- (inverse_r a H), <- (mul_assoc RC), Hb. apply (mul_id_l RC).
Qed.
End MatInvField.
