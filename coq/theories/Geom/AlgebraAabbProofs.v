(* C17 — axis-aligned boxes of the translated code (coq/gen/Aabb.v) over R: Contains is membership in
   [center-extents, center+extents]; boxes grown to encapsulate a point / a box contain it (and everything
   they contained before); ClosestPoint lies in the box and is a nearest point of it.
   Uses the stdlib real-number axioms. *)
From Coq Require Import ZArith Reals Lra List Bool.
From PF Require Import Geom.Vec Geom.AlgebraSpec.
From PFGen Require Aabb.
Local Open Scope R_scope.

(* everything (generated code with whatever helpers it uses, specifications, vector prelude) down to the carrier
   operations, in the goal and in every hypothesis; then expose the operations of R *)
Ltac aabb_unfold :=
  repeat match goal with H : _ |- _ => progress (gen_full_in H) end; gen_full; carrier_R.
Ltac box_destruct b := destruct b as [[cx cy cz] [ex ey ez]].
Ltac split_ltb :=
  repeat match goal with
  | |- context [Rltb ?a ?b] =>
      let E := fresh "E" in destruct (Rltb a b) eqn:E; [apply Rltb_true in E | apply Rltb_false in E]
  end.
(* innermost decisions first, so that no hypothesis ever contains an [if] *)
Ltac split_dec :=
  repeat match goal with
  | |- context [Rle_dec ?a ?b] =>
      lazymatch a with
      | context [Rle_dec _ _] => fail
      | _ => lazymatch b with context [Rle_dec _ _] => fail | _ => destruct (Rle_dec a b) end
      end
  end.
Ltac split_minmax := unfold Rmax, Rmin in *; split_dec.

Lemma v3_eqR (a0 a1 a2 b0 b1 b2 : R) : a0 = b0 -> a1 = b1 -> a2 = b2 -> mkV3 a0 a1 a2 = mkV3 b0 b1 b2.
Proof. intros; subst; reflexivity. Qed.

(* Contains b p  <->  center - extents <= p <= center + extents, coordinate by coordinate *)
Theorem contains_iff (b : Aabb.AABB R) (p : vec3 R) :
  Aabb.AABB_Contains b p = true <-> in_box (box_lo b) (box_hi b) p.
Proof.
  box_destruct b; destruct p as [x y z]. aabb_unfold.
  split_ltb; split; intros H; try discriminate; try reflexivity; try lra.
Qed.

(* SetMinMax lo hi is the box [lo, hi] *)
Theorem setminmax_bounds (b : Aabb.AABB R) (lo hi : vec3 R) :
  box_lo (Aabb.AABB_SetMinMax b lo hi) = lo /\ box_hi (Aabb.AABB_SetMinMax b lo hi) = hi.
Proof.
  box_destruct b; destruct lo as [l1 l2 l3], hi as [h1 h2 h3]. aabb_unfold.
  split; apply v3_eqR; lra.
Qed.

(* the grown box is exactly [min(lo,p), max(hi,p)] *)
Theorem encapsulate_point_bounds (b : Aabb.AABB R) (p : vec3 R) :
  box_lo (Aabb.AABB_EncapsulatePoint b p) = v3_min (box_lo b) p /\
  box_hi (Aabb.AABB_EncapsulatePoint b p) = v3_max (box_hi b) p.
Proof.
  box_destruct b; destruct p as [x y z]. aabb_unfold. split; apply v3_eqR; lra.
Qed.

Lemma in_box_grow (b : Aabb.AABB R) (p q : vec3 R) :
  in_box (box_lo b) (box_hi b) q ->
  in_box (box_lo (Aabb.AABB_EncapsulatePoint b p)) (box_hi (Aabb.AABB_EncapsulatePoint b p)) q.
Proof.
  destruct (encapsulate_point_bounds b p) as [-> ->].
  box_destruct b; destruct p as [x y z], q as [q1 q2 q3]. aabb_unfold. intros H.
  pose proof (Rmin_l (cx - ex) x); pose proof (Rmin_l (cy - ey) y); pose proof (Rmin_l (cz - ez) z).
  pose proof (Rmax_l (cx + ex) x); pose proof (Rmax_l (cy + ey) y); pose proof (Rmax_l (cz + ez) z).
  lra.
Qed.

Lemma in_box_self (b : Aabb.AABB R) (p : vec3 R) :
  in_box (box_lo (Aabb.AABB_EncapsulatePoint b p)) (box_hi (Aabb.AABB_EncapsulatePoint b p)) p.
Proof.
  destruct (encapsulate_point_bounds b p) as [-> ->].
  box_destruct b; destruct p as [x y z]. aabb_unfold.
  pose proof (Rmin_r (cx - ex) x); pose proof (Rmin_r (cy - ey) y); pose proof (Rmin_r (cz - ez) z).
  pose proof (Rmax_r (cx + ex) x); pose proof (Rmax_r (cy + ey) y); pose proof (Rmax_r (cz + ez) z).
  lra.
Qed.

(* a box grown to encapsulate p contains p and everything it contained before *)
Theorem encapsulate_contains (b : Aabb.AABB R) (p : vec3 R) :
  Aabb.AABB_Contains (Aabb.AABB_EncapsulatePoint b p) p = true /\
  forall q, Aabb.AABB_Contains b q = true -> Aabb.AABB_Contains (Aabb.AABB_EncapsulatePoint b p) q = true.
Proof.
  split.
  - apply contains_iff, in_box_self.
  - intros q H. apply contains_iff. apply in_box_grow. now apply contains_iff.
Qed.

Lemma in_box_convex (lo hi c1 c2 q : vec3 R) :
  in_box lo hi c1 -> in_box lo hi c2 -> in_box c1 c2 q -> in_box lo hi q.
Proof.
  destruct lo as [l1 l2 l3], hi as [h1 h2 h3], c1 as [a1 a2 a3], c2 as [b1 b2 b3], q as [q1 q2 q3].
  unfold in_box. cbn [v3x v3y v3z]. lra.
Qed.

(* a box grown to encapsulate another box contains every point of both *)
Theorem encapsulate_bounds_contains (b c : Aabb.AABB R) (q : vec3 R) :
  (Aabb.AABB_Contains c q = true -> Aabb.AABB_Contains (Aabb.AABB_EncapsulateBounds b c) q = true) /\
  (Aabb.AABB_Contains b q = true -> Aabb.AABB_Contains (Aabb.AABB_EncapsulateBounds b c) q = true).
Proof.
  split; intros H; apply contains_iff; apply contains_iff in H;
    box_destruct b; destruct c as [[dx dy dz] [fx fy fz]]; destruct q as [q1 q2 q3]; aabb_unfold;
    repeat split; split_minmax; lra.
Qed.

(* ClosestPoint lies in the box (boxes with non-negative extents, i.e. lo <= hi) *)
Theorem closest_in_box (b : Aabb.AABB R) (v : vec3 R) :
  0 <= v3x (Aabb.AABB_extents b) -> 0 <= v3y (Aabb.AABB_extents b) -> 0 <= v3z (Aabb.AABB_extents b) ->
  Aabb.AABB_Contains b (Aabb.AABB_ClosestPoint b v) = true.
Proof.
  intros Hx Hy Hz. apply contains_iff.
  box_destruct b; destruct v as [x y z]. aabb_unfold.
  split_minmax; lra.
Qed.

(* ... is v itself when v is in the box ... *)
Theorem closest_fixed (b : Aabb.AABB R) (v : vec3 R) :
  Aabb.AABB_Contains b v = true -> Aabb.AABB_ClosestPoint b v = v.
Proof.
  intros H. apply contains_iff in H.
  box_destruct b; destruct v as [x y z]. aabb_unfold.
  apply v3_eqR; split_minmax; lra.
Qed.

(* ... and no point of the box is nearer to v *)
Theorem closest_is_nearest (b : Aabb.AABB R) (v q : vec3 R) :
  Aabb.AABB_Contains b q = true -> dist2 v (Aabb.AABB_ClosestPoint b v) <= dist2 v q.
Proof.
  intros H. apply contains_iff in H.
  box_destruct b; destruct v as [x y z], q as [q1 q2 q3]. aabb_unfold.
  assert (forall lo hi t u, lo <= u <= hi -> (t - Rmin (Rmax t lo) hi) * (t - Rmin (Rmax t lo) hi) <= (t - u) * (t - u)) as K.
  { intros lo hi t u Hu. pose proof (Rle_0_sqr (t - u)) as S. unfold Rsqr in S. split_minmax; nra. }
  pose proof (K (cx - ex) (cx + ex) x q1). pose proof (K (cy - ey) (cy + ey) y q2). pose proof (K (cz - ez) (cz + ez) z q3).
  lra.
Qed.
