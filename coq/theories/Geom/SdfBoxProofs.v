(* C19 — box family on the generated code: Box, RoundedBox (= Box - r), RoundedCylinder (a 2-D box in the
   (radial, axial) half plane, minus the rounding).  Sign, exactness inside/outside, 1-Lipschitz everywhere.
   The Lipschitz proofs go through a support-function representation:
       |max(q,0)| + min(max_i q_i, 0)  =  max { u.q : u >= 0, |u| = 1 }                                   *)
From Coq Require Import Reals Lra Lia Psatz List ZArith.
From PF Require Import Geom.Vec Geom.SdfSpec Geom.SdfBase Geom.SdfProofs.
From PFGen Require Import Sdf.
Local Open Scope R_scope.

(* ---------------------------------------------------------------- small facts on max / abs *)
Lemma Rmax_lt_iff a b c : Rmax a b < c <-> a < c /\ b < c.
Proof. unfold Rmax. destruct (Rle_dec a b); lra. Qed.
Lemma Rmax_le_iff a b c : Rmax a b <= c <-> a <= c /\ b <= c.
Proof. unfold Rmax. destruct (Rle_dec a b); lra. Qed.
Lemma Rmax0_nonneg a : 0 <= Rmax a 0.
Proof. unfold Rmax. destruct (Rle_dec a 0); lra. Qed.
Lemma Rmax0_ge a : a <= Rmax a 0.
Proof. unfold Rmax. destruct (Rle_dec a 0); lra. Qed.
Lemma Rmax0_zero a : a <= 0 -> Rmax a 0 = 0.
Proof. intros. unfold Rmax. destruct (Rle_dec a 0); lra. Qed.
Lemma Rmax0_pos a : 0 <= a -> Rmax a 0 = a.
Proof. intros. unfold Rmax. destruct (Rle_dec a 0); lra. Qed.
Lemma Rmax0_self a : Rmax a 0 * a = Rmax a 0 * Rmax a 0.
Proof. unfold Rmax. destruct (Rle_dec a 0); ring. Qed.
Lemma sq_abs_le a b : Rabs a <= Rabs b -> a * a <= b * b.
Proof. unfold Rabs. destruct (Rcase_abs a), (Rcase_abs b); intros; nra. Qed.
Lemma Rabs_sq a : Rabs a * Rabs a = a * a.
Proof. unfold Rabs. destruct (Rcase_abs a); ring. Qed.

Lemma norm_mono (u v : pt) :
  Rabs (v3x u) <= Rabs (v3x v) -> Rabs (v3y u) <= Rabs (v3y v) -> Rabs (v3z u) <= Rabs (v3z v) -> norm u <= norm v.
Proof.
  intros Hx Hy Hz. apply le_norm_of_sq. rewrite norm_sq. unfold dot.
  apply sq_abs_le in Hx. apply sq_abs_le in Hy. apply sq_abs_le in Hz. lra.
Qed.

Lemma abs_x_le_dist p s : Rabs (v3x p - v3x s) <= dist p s.
Proof.
  apply sq_le_le. apply dist_nonneg. unfold dist. rewrite norm_sq, Rabs_sq. unfold dot, psub; cbn.
  assert (A := Rle_0_sqr (v3x p - v3x s)). assert (B := Rle_0_sqr (v3y p - v3y s)).
  assert (C := Rle_0_sqr (v3z p - v3z s)). unfold Rsqr in *. lra.
Qed.
Lemma abs_y_le_dist p s : Rabs (v3y p - v3y s) <= dist p s.
Proof.
  apply sq_le_le. apply dist_nonneg. unfold dist. rewrite norm_sq, Rabs_sq. unfold dot, psub; cbn.
  assert (A := Rle_0_sqr (v3x p - v3x s)). assert (B := Rle_0_sqr (v3y p - v3y s)).
  assert (C := Rle_0_sqr (v3z p - v3z s)). unfold Rsqr in *. lra.
Qed.
Lemma abs_z_le_dist p s : Rabs (v3z p - v3z s) <= dist p s.
Proof.
  apply sq_le_le. apply dist_nonneg. unfold dist. rewrite norm_sq, Rabs_sq. unfold dot, psub; cbn.
  assert (A := Rle_0_sqr (v3x p - v3x s)). assert (B := Rle_0_sqr (v3y p - v3y s)).
  assert (C := Rle_0_sqr (v3z p - v3z s)). unfold Rsqr in *. lra.
Qed.

(* ---------------------------------------------------------------- the box kernel *)
Definition pos3 (q : pt) : pt := mkV3 (Rmax (v3x q) 0) (Rmax (v3y q) 0) (Rmax (v3z q) 0).
Definition max3 (q : pt) : R := Rmax (v3x q) (Rmax (v3y q) (v3z q)).
Definition boxg (q : pt) : R := norm (pos3 q) + Rmin (max3 q) 0.
Definition boxq (c b p : pt) : pt :=
  mkV3 (Rabs (v3x p - v3x c) - v3x b / 2) (Rabs (v3y p - v3y c) - v3y b / 2) (Rabs (v3z p - v3z c) - v3z b / 2).

Lemma half_mul x : x * (1 / 2) = x / 2.
Proof. field. Qed.

Lemma Box_eq c b p : Box c b p = boxg (boxq c b p).
Proof.
  gen_coords. rewrite ?half_mul. first [reflexivity | ring].
Qed.

Theorem rounded_box_eq c b r p : RoundedBox c b r p = Box c b p - r.
Proof. first [reflexivity | gen_coords; ring]. Qed.

Lemma max3_lt q k : max3 q < k <-> v3x q < k /\ v3y q < k /\ v3z q < k.
Proof. unfold max3. rewrite !Rmax_lt_iff. tauto. Qed.
Lemma max3_le q k : max3 q <= k <-> v3x q <= k /\ v3y q <= k /\ v3z q <= k.
Proof. unfold max3. rewrite !Rmax_le_iff. tauto. Qed.
Lemma max3_attained q : max3 q = v3x q \/ max3 q = v3y q \/ max3 q = v3z q.
Proof. unfold max3, Rmax. destruct (Rle_dec (v3y q) (v3z q)), (Rle_dec (v3x q) _); auto. Qed.

Lemma pos3_zero q : max3 q <= 0 -> pos3 q = mkV3 0 0 0.
Proof. intros H. apply max3_le in H. unfold pos3. rewrite !Rmax0_zero by lra. reflexivity. Qed.

Lemma norm_pos3_zero q : max3 q <= 0 -> norm (pos3 q) = 0.
Proof. intros H. rewrite pos3_zero by auto. apply norm_zero_iff. reflexivity. Qed.

Lemma norm_pos3_pos q : 0 < max3 q -> 0 < norm (pos3 q).
Proof.
  intros H. assert (Hn := norm_nonneg (pos3 q)).
  destruct (Req_dec (norm (pos3 q)) 0) as [E|E]; [|lra].
  apply norm_zero_iff in E. unfold pos3 in E. injection E as E1 E2 E3.
  assert (G : max3 q <= 0).
  { apply max3_le. assert (A := Rmax0_ge (v3x q)). assert (B := Rmax0_ge (v3y q)). assert (C := Rmax0_ge (v3z q)). lra. }
  lra.
Qed.

Lemma boxg_inside q : max3 q <= 0 -> boxg q = max3 q.
Proof. intros H. unfold boxg. rewrite norm_pos3_zero by auto. rewrite Rmin_left by auto. ring. Qed.
Lemma boxg_outside q : 0 <= max3 q -> boxg q = norm (pos3 q).
Proof. intros H. unfold boxg. rewrite Rmin_right by auto. ring. Qed.

(* ---------------------------------------------------------------- sign *)
Lemma boxq_int c b p : box_int c b p <-> max3 (boxq c b p) < 0.
Proof. rewrite max3_lt. unfold box_int, boxq; cbn [v3x v3y v3z]. intuition lra. Qed.
Lemma boxq_solid c b p : box_solid c b p <-> max3 (boxq c b p) <= 0.
Proof. rewrite max3_le. unfold box_solid, boxq; cbn [v3x v3y v3z]. intuition lra. Qed.

Theorem box_sign c b : sdf_sign (Box c b) (box_int c b) (box_surf c b).
Proof.
  intros p. rewrite Box_eq. unfold box_surf. rewrite boxq_int, boxq_solid.
  set (q := boxq c b p).
  destruct (Rle_dec (max3 q) 0) as [Hin | Hout].
  - rewrite boxg_inside by auto. split; split; intros; try lra; try (split; lra).
  - assert (Hpos : 0 < max3 q) by lra. rewrite boxg_outside by lra.
    assert (HN := norm_pos3_pos q Hpos). split; split; intros; try lra; try (destruct H; lra).
Qed.

(* ---------------------------------------------------------------- 1-Lipschitz *)
Lemma sum_ge_one_of_unit u : 0 <= v3x u -> 0 <= v3y u -> 0 <= v3z u -> dot u u = 1 -> 1 <= v3x u + v3y u + v3z u.
Proof. unfold dot. intros. nra. Qed.

Lemma boxg_ge_support q u :
  0 <= v3x u -> 0 <= v3y u -> 0 <= v3z u -> dot u u = 1 -> dot u q <= boxg q.
Proof.
  intros Hx Hy Hz Hu.
  destruct (Rle_dec (max3 q) 0) as [Hin | Hout].
  - rewrite boxg_inside by auto. assert (HS := sum_ge_one_of_unit u Hx Hy Hz Hu).
    assert (H := Hin). set (M := max3 q) in *. assert (HM : M <= M) by lra. apply max3_le in HM. fold M in HM.
    unfold dot. destruct HM as [A [B C]].
    assert (v3x u * v3x q <= v3x u * M) by nra.
    assert (v3y u * v3y q <= v3y u * M) by nra.
    assert (v3z u * v3z q <= v3z u * M) by nra.
    nra.
  - rewrite boxg_outside by lra.
    apply Rle_trans with (dot u (pos3 q)).
    + unfold dot, pos3; cbn [v3x v3y v3z].
      assert (A := Rmax0_ge (v3x q)). assert (B := Rmax0_ge (v3y q)). assert (C := Rmax0_ge (v3z q)). nra.
    + eapply Rle_trans. apply cauchy_schwarz.
      assert (E : norm u = 1) by (apply norm_eq_of_sq; lra). rewrite E. lra.
Qed.

Lemma boxg_attained q :
  exists u, 0 <= v3x u /\ 0 <= v3y u /\ 0 <= v3z u /\ dot u u = 1 /\ dot u q = boxg q.
Proof.
  destruct (Rle_dec (max3 q) 0) as [Hin | Hout].
  - rewrite boxg_inside by auto.
    destruct (max3_attained q) as [E | [E | E]]; rewrite E.
    + exists (P3 1 0 0). unfold dot; cbn. repeat split; try lra; ring.
    + exists (P3 0 1 0). unfold dot; cbn. repeat split; try lra; ring.
    + exists (P3 0 0 1). unfold dot; cbn. repeat split; try lra; ring.
  - assert (Hpos : 0 < max3 q) by lra. rewrite boxg_outside by lra.
    assert (HN := norm_pos3_pos q Hpos). set (N := norm (pos3 q)) in *.
    assert (HNN : N * N = dot (pos3 q) (pos3 q)) by apply norm_sq.
    assert (Hi : 0 < / N) by (apply Rinv_0_lt_compat; auto).
    assert (A := Rmax0_nonneg (v3x q)). assert (B := Rmax0_nonneg (v3y q)). assert (C := Rmax0_nonneg (v3z q)).
    set (u := smul (/ N) (pos3 q)).
    assert (Euu : dot u u = 1).
    { replace (dot u u) with (dot (pos3 q) (pos3 q) / (N * N)).
      - rewrite <- HNN. field. lra.
      - unfold u, dot, smul, pos3; cbn [v3x v3y v3z]. field. lra. }
    assert (Euq : dot u q = N).
    { assert (X := Rmax0_self (v3x q)). assert (Y := Rmax0_self (v3y q)). assert (Z := Rmax0_self (v3z q)).
      replace (dot u q) with ((Rmax (v3x q) 0 * v3x q + Rmax (v3y q) 0 * v3y q + Rmax (v3z q) 0 * v3z q) / N).
      - rewrite X, Y, Z. replace (Rmax (v3x q) 0 * Rmax (v3x q) 0 + Rmax (v3y q) 0 * Rmax (v3y q) 0 + Rmax (v3z q) 0 * Rmax (v3z q) 0)
          with (N * N) by (rewrite HNN; reflexivity). field. lra.
      - unfold u, dot, smul, pos3; cbn [v3x v3y v3z]. field. lra. }
    exists u. repeat split; auto; unfold u, smul, pos3; cbn [v3x v3y v3z]; apply Rmult_le_pos; lra.
Qed.

Lemma boxg_lipschitz q q' : Rabs (boxg q - boxg q') <= norm (psub q q').
Proof.
  assert (half : forall a b, boxg a - boxg b <= norm (psub a b)).
  { intros a b. destruct (boxg_attained a) as [u [Hx [Hy [Hz [Hu Ea]]]]].
    assert (Hb := boxg_ge_support b u Hx Hy Hz Hu).
    assert (E : dot u a - dot u b = dot u (psub a b)) by (unfold dot, psub; cbn; ring).
    assert (CS := cauchy_schwarz u (psub a b)).
    assert (En : norm u = 1) by (apply norm_eq_of_sq; lra). rewrite En in CS. lra. }
  apply Rabs_le. split.
  - assert (H := half q' q). rewrite (norm_psub_sym q' q) in H. lra.
  - apply half.
Qed.

Lemma abs_shift_lip (a a' c h : R) : Rabs ((Rabs (a - c) - h) - (Rabs (a' - c) - h)) <= Rabs (a - a').
Proof.
  replace (Rabs (a - c) - h - (Rabs (a' - c) - h)) with (Rabs (a - c) - Rabs (a' - c)) by ring.
  eapply Rle_trans. apply Rabs_triang_inv2. right. f_equal. ring.
Qed.

Lemma boxq_lipschitz c b p p' : norm (psub (boxq c b p) (boxq c b p')) <= dist p p'.
Proof.
  unfold dist. apply norm_mono; unfold boxq, psub; cbn [v3x v3y v3z]; apply abs_shift_lip.
Qed.

Theorem box_lipschitz c b : lipschitz1 (Box c b).
Proof.
  intros p q. rewrite !Box_eq. eapply Rle_trans. apply boxg_lipschitz. apply boxq_lipschitz.
Qed.

Theorem rounded_box_lipschitz c b r : lipschitz1 (RoundedBox c b r).
Proof.
  apply (lipschitz1_ext (fun p => Box c b p - r)). reflexivity. apply lipschitz1_shift, box_lipschitz.
Qed.

(* ---------------------------------------------------------------- exactness *)
Definition clamp1 (x c h : R) : R := c + Rmax (Rmin (x - c) h) (- h).
Definition box_clamp (c b p : pt) : pt :=
  mkV3 (clamp1 (v3x p) (v3x c) (v3x b / 2)) (clamp1 (v3y p) (v3y c) (v3y b / 2)) (clamp1 (v3z p) (v3z c) (v3z b / 2)).

Ltac cases_abs_max :=
  unfold clamp1, Rabs, Rmax, Rmin in *;
  repeat match goal with
  | |- context [Rcase_abs ?a] => destruct (Rcase_abs a)
  | |- context [Rle_dec ?a ?b] => destruct (Rle_dec a b)
  | H : context [Rcase_abs ?a] |- _ => destruct (Rcase_abs a)
  | H : context [Rle_dec ?a ?b] |- _ => destruct (Rle_dec a b)
  end; try lra.

Lemma clamp1_in x c h : 0 <= h -> Rabs (clamp1 x c h - c) <= h.
Proof. intros. cases_abs_max. Qed.
Lemma clamp1_dist x c h : 0 <= h -> Rabs (x - clamp1 x c h) = Rmax (Rabs (x - c) - h) 0.
Proof. intros. cases_abs_max. Qed.
Lemma clamp1_best x c h s : Rabs (s - c) <= h -> Rmax (Rabs (x - c) - h) 0 <= Rabs (x - s).
Proof. intros. cases_abs_max. Qed.
Lemma clamp1_face x c h : 0 <= h -> 0 <= Rabs (x - c) - h -> Rabs (clamp1 x c h - c) = h.
Proof. intros. cases_abs_max. Qed.

Lemma norm_abs_eq (u v : pt) :
  Rabs (v3x u) = Rabs (v3x v) -> Rabs (v3y u) = Rabs (v3y v) -> Rabs (v3z u) = Rabs (v3z v) -> norm u = norm v.
Proof. intros. apply Rle_antisym; apply norm_mono; lra. Qed.

Lemma box_clamp_dist c b p : 0 <= v3x b -> 0 <= v3y b -> 0 <= v3z b ->
  dist p (box_clamp c b p) = norm (pos3 (boxq c b p)).
Proof.
  intros. unfold dist. apply norm_abs_eq; unfold psub, box_clamp, pos3, boxq; cbn [v3x v3y v3z];
    rewrite clamp1_dist by lra; symmetry; apply Rabs_right, Rle_ge, Rmax0_nonneg.
Qed.

Lemma box_clamp_solid c b p : 0 <= v3x b -> 0 <= v3y b -> 0 <= v3z b -> box_solid c b (box_clamp c b p).
Proof. intros. unfold box_solid, box_clamp; cbn [v3x v3y v3z]. repeat split; apply clamp1_in; lra. Qed.

Lemma box_clamp_nearest c b p : 0 <= v3x b -> 0 <= v3y b -> 0 <= v3z b ->
  nearest (box_solid c b) (box_clamp c b p) p.
Proof.
  intros Hx Hy Hz. split. apply box_clamp_solid; auto.
  intros s [Sx [Sy Sz]]. rewrite box_clamp_dist by auto. unfold dist.
  apply norm_mono; unfold psub, pos3, boxq; cbn [v3x v3y v3z];
    (rewrite Rabs_right by apply Rle_ge, Rmax0_nonneg); apply clamp1_best; auto.
Qed.

(* outside (or on) the box: the value is the distance to the clamped point, which lies on the surface and is
   the nearest point of the whole solid *)
Theorem box_exact_outside c b p : 0 <= v3x b -> 0 <= v3y b -> 0 <= v3z b -> ~ box_int c b p ->
  box_surf c b (box_clamp c b p) /\ nearest (box_solid c b) (box_clamp c b p) p /\
  Box c b p = dist p (box_clamp c b p).
Proof.
  intros Hx Hy Hz Hni. assert (Hq : 0 <= max3 (boxq c b p)).
  { rewrite boxq_int in Hni. lra. }
  split; [|split].
  - split. apply box_clamp_solid; auto.
    intros [Ix [Iy Iz]]. unfold box_clamp in *; cbn [v3x v3y v3z] in *.
    destruct (max3_attained (boxq c b p)) as [E | [E | E]]; rewrite E in Hq; unfold boxq in Hq; cbn [v3x v3y v3z] in Hq.
    + rewrite clamp1_face in Ix by lra. lra.
    + rewrite clamp1_face in Iy by lra. lra.
    + rewrite clamp1_face in Iz by lra. lra.
  - apply box_clamp_nearest; auto.
  - rewrite Box_eq, boxg_outside by auto. symmetry. apply box_clamp_dist; auto.
Qed.

(* inside: minus the value is the distance to the nearest face *)
Definition face1 (x c h : R) : R := if Rle_dec c x then c + h else c - h.

Lemma face1_abs x c h : Rabs (face1 x c h - c) = Rabs h.
Proof. unfold face1. destruct (Rle_dec c x). f_equal; ring. replace (c - h - c) with (- h) by ring. apply Rabs_Ropp. Qed.
Lemma face1_dist x c h : Rabs (x - c) < h -> Rabs (x - face1 x c h) = h - Rabs (x - c).
Proof. unfold face1. intros. destruct (Rle_dec c x); cases_abs_max. Qed.

Lemma dist_one_axis_x p x : dist p (mkV3 x (v3y p) (v3z p)) = Rabs (v3x p - x).
Proof.
  unfold dist. apply norm_eq_of_sq. apply Rabs_pos. rewrite Rabs_sq. unfold dot, psub; cbn. ring.
Qed.
Lemma dist_one_axis_y p y : dist p (mkV3 (v3x p) y (v3z p)) = Rabs (v3y p - y).
Proof.
  unfold dist. apply norm_eq_of_sq. apply Rabs_pos. rewrite Rabs_sq. unfold dot, psub; cbn. ring.
Qed.
Lemma dist_one_axis_z p z : dist p (mkV3 (v3x p) (v3y p) z) = Rabs (v3z p - z).
Proof.
  unfold dist. apply norm_eq_of_sq. apply Rabs_pos. rewrite Rabs_sq. unfold dot, psub; cbn. ring.
Qed.

Lemma box_surf_far c b p s : box_int c b p -> box_surf c b s -> - max3 (boxq c b p) <= dist p s.
Proof.
  intros [Ix [Iy Iz]] [[Sx [Sy Sz]] Hni].
  assert (Hq : max3 (boxq c b p) <= max3 (boxq c b p)) by lra. apply max3_le in Hq.
  unfold boxq in Hq at 1 3 5; cbn [v3x v3y v3z] in Hq. destruct Hq as [Qx [Qy Qz]].
  assert (Ax := abs_x_le_dist p s). assert (Ay := abs_y_le_dist p s). assert (Az := abs_z_le_dist p s).
  destruct (Rlt_dec (Rabs (v3x s - v3x c)) (v3x b / 2)) as [Lx|Lx];
  [destruct (Rlt_dec (Rabs (v3y s - v3y c)) (v3y b / 2)) as [Ly|Ly];
   [destruct (Rlt_dec (Rabs (v3z s - v3z c)) (v3z b / 2)) as [Lz|Lz]; [exfalso; apply Hni; repeat split; auto|]|]|].
  - assert (T := Rabs_triang (v3z s - v3z p) (v3z p - v3z c)).
    replace (v3z s - v3z p + (v3z p - v3z c)) with (v3z s - v3z c) in T by ring.
    rewrite (Rabs_minus_sym (v3z s) (v3z p)) in T. lra.
  - assert (T := Rabs_triang (v3y s - v3y p) (v3y p - v3y c)).
    replace (v3y s - v3y p + (v3y p - v3y c)) with (v3y s - v3y c) in T by ring.
    rewrite (Rabs_minus_sym (v3y s) (v3y p)) in T. lra.
  - assert (T := Rabs_triang (v3x s - v3x p) (v3x p - v3x c)).
    replace (v3x s - v3x p + (v3x p - v3x c)) with (v3x s - v3x c) in T by ring.
    rewrite (Rabs_minus_sym (v3x s) (v3x p)) in T. lra.
Qed.

Theorem box_exact_inside c b p : box_int c b p -> dist_to (box_surf c b) p (- Box c b p).
Proof.
  intros Hint. assert (Hq : max3 (boxq c b p) < 0) by (apply boxq_int; auto).
  rewrite Box_eq, boxg_inside by lra.
  destruct Hint as [Ix [Iy Iz]].
  assert (hx : 0 < v3x b / 2) by (assert (H := Rabs_pos (v3x p - v3x c)); lra).
  assert (hy : 0 < v3y b / 2) by (assert (H := Rabs_pos (v3y p - v3y c)); lra).
  assert (hz : 0 < v3z b / 2) by (assert (H := Rabs_pos (v3z p - v3z c)); lra).
  assert (Far := fun s => box_surf_far c b p s (conj Ix (conj Iy Iz))).
  destruct (max3_attained (boxq c b p)) as [E | [E | E]]; rewrite E in *; unfold boxq in *; cbn [v3x v3y v3z] in *.
  - exists (mkV3 (face1 (v3x p) (v3x c) (v3x b / 2)) (v3y p) (v3z p)).
    unfold nearest. rewrite !dist_one_axis_x, !face1_dist by auto. split; [split|ring]; [|intros s Hs; specialize (Far s Hs); lra].
    split; [repeat split; cbn [v3x v3y v3z]; try lra; rewrite face1_abs, Rabs_right; lra |].
    intros [A _]. cbn [v3x] in A. rewrite face1_abs, Rabs_right in A; lra.
  - exists (mkV3 (v3x p) (face1 (v3y p) (v3y c) (v3y b / 2)) (v3z p)).
    unfold nearest. rewrite !dist_one_axis_y, !face1_dist by auto. split; [split|ring]; [|intros s Hs; specialize (Far s Hs); lra].
    split; [repeat split; cbn [v3x v3y v3z]; try lra; rewrite face1_abs, Rabs_right; lra |].
    intros [_ [A _]]. cbn [v3y] in A. rewrite face1_abs, Rabs_right in A; lra.
  - exists (mkV3 (v3x p) (v3y p) (face1 (v3z p) (v3z c) (v3z b / 2))).
    unfold nearest. rewrite !dist_one_axis_z, !face1_dist by auto. split; [split|ring]; [|intros s Hs; specialize (Far s Hs); lra].
    split; [repeat split; cbn [v3x v3y v3z]; try lra; rewrite face1_abs, Rabs_right; lra |].
    intros [_ [_ A]]. cbn [v3z] in A. rewrite face1_abs, Rabs_right in A; lra.
Qed.

(* both together: |Box| is the Euclidean distance to the surface, everywhere *)
Theorem box_exact c b : 0 <= v3x b -> 0 <= v3y b -> 0 <= v3z b -> sdf_exact (Box c b) (box_surf c b).
Proof.
  intros Hx Hy Hz p.
  destruct (Rlt_dec (max3 (boxq c b p)) 0) as [Hin | Hout].
  - assert (Hint : box_int c b p) by (apply boxq_int; auto).
    assert (E : Rabs (Box c b p) = - Box c b p).
    { rewrite Box_eq, boxg_inside by lra. apply Rabs_left. lra. }
    rewrite E. apply box_exact_inside. auto.
  - assert (Hni : ~ box_int c b p) by (rewrite boxq_int; auto).
    destruct (box_exact_outside c b p Hx Hy Hz Hni) as [Hs [[_ Hn] Ed]].
    exists (box_clamp c b p). split; [split; auto|].
    + intros s [Ss _]. apply Hn. exact Ss.
    + rewrite Ed. apply Rabs_right, Rle_ge, dist_nonneg.
Qed.

Theorem rounded_box_sign c b r p : 0 <= v3x b -> 0 <= v3y b -> 0 <= v3z b -> 0 < r ->
  (RoundedBox c b r p < 0 <-> rounded_box_int c b r p).
Proof.
  intros Hx Hy Hz Hr. rewrite rounded_box_eq.
  destruct (Rlt_dec (max3 (boxq c b p)) 0) as [Hin | Hout].
  - assert (Hint : box_int c b p) by (apply boxq_int; auto).
    assert (E : Box c b p < 0) by (apply box_sign; auto).
    split; [intros _ | intros _; lra].
    exists p. rewrite dist_refl. split; auto. apply boxq_solid. lra.
  - assert (Hni : ~ box_int c b p) by (rewrite boxq_int; auto).
    destruct (box_exact_outside c b p Hx Hy Hz Hni) as [[Hs _] [[_ Hn] Ed]].
    split.
    + intros H. exists (box_clamp c b p). split; auto. lra.
    + intros [s [Ss Hd]]. specialize (Hn s Ss). lra.
Qed.

(* ================================================================ rounded cylinder *)
Definition rho (pos p : pt) : R :=
  sqrt ((v3x p - v3x pos) * (v3x p - v3x pos) + (v3z p - v3z pos) * (v3z p - v3z pos)).
Definition rcyl_dx (pos : pt) (rad th : R) (p : pt) : R := rho pos p - 2 * rad + th.
Definition rcyl_dy (pos : pt) (bh : R) (p : pt) : R := Rabs (v3y p - v3y pos) - bh.
Definition boxg2 (dx dy : R) : R :=
  Rmin (Rmax dx dy) 0 + sqrt (Rmax dx 0 * Rmax dx 0 + Rmax dy 0 * Rmax dy 0).

(* the 2-D reduction: a rectangle SDF in the (radial, axial) half plane minus the rounding *)
Theorem rcyl_as_rounded_rect pos rad th bh p :
  RoundedCylinder pos rad th bh p = boxg2 (rcyl_dx pos rad th p) (rcyl_dy pos bh p) - th.
Proof.
  gen_coords. first [reflexivity | ring].
Qed.

Lemma boxg2_pad dx dy m : m <= dx -> m <= dy -> m <= 0 -> boxg (mkV3 dx dy m) = boxg2 dx dy.
Proof.
  intros H1 H2 H3. unfold boxg, boxg2, max3, pos3, norm, dot; cbn [v3x v3y v3z].
  rewrite (Rmax_left dy m) by lra. rewrite (Rmax0_zero m) by lra. rewrite Rplus_comm. f_equal. f_equal. ring.
Qed.

Lemma boxg2_lipschitz dx dy dx' dy' :
  Rabs (boxg2 dx dy - boxg2 dx' dy') <= sqrt ((dx - dx') * (dx - dx') + (dy - dy') * (dy - dy')).
Proof.
  set (m := Rmin (Rmin dx dy) (Rmin (Rmin dx' dy') 0)).
  assert (Hm : m <= dx /\ m <= dy /\ m <= dx' /\ m <= dy' /\ m <= 0).
  { assert (A1 := Rmin_l (Rmin dx dy) (Rmin (Rmin dx' dy') 0)). assert (A2 := Rmin_r (Rmin dx dy) (Rmin (Rmin dx' dy') 0)).
    assert (A3 := Rmin_l dx dy). assert (A4 := Rmin_r dx dy).
    assert (A5 := Rmin_l (Rmin dx' dy') 0). assert (A6 := Rmin_r (Rmin dx' dy') 0).
    assert (A7 := Rmin_l dx' dy'). assert (A8 := Rmin_r dx' dy'). fold m in A1, A2. lra. }
  rewrite <- (boxg2_pad dx dy m), <- (boxg2_pad dx' dy' m) by lra.
  eapply Rle_trans. apply boxg_lipschitz. right. unfold norm. f_equal. unfold dot, psub; cbn. ring.
Qed.

Lemma rho_lipschitz pos p q :
  (rho pos p - rho pos q) * (rho pos p - rho pos q)
  <= (v3x p - v3x q) * (v3x p - v3x q) + (v3z p - v3z q) * (v3z p - v3z q).
Proof.
  set (u := mkV3 (v3x p - v3x pos) 0 (v3z p - v3z pos)). set (v := mkV3 (v3x q - v3x pos) 0 (v3z q - v3z pos)).
  assert (Eu : rho pos p = norm u) by (unfold rho, norm, dot, u; cbn; f_equal; ring).
  assert (Ev : rho pos q = norm v) by (unfold rho, norm, dot, v; cbn; f_equal; ring).
  assert (H := dist_rev_triangle u v (mkV3 0 0 0)).
  assert (Z : forall w, dist w (mkV3 0 0 0) = norm w).
  { intros w. unfold dist, norm. f_equal. unfold dot, psub; cbn. ring. }
  rewrite !Z in H. rewrite <- Eu, <- Ev in H.
  assert (D : dist u v * dist u v = (v3x p - v3x q) * (v3x p - v3x q) + (v3z p - v3z q) * (v3z p - v3z q)).
  { unfold dist. rewrite norm_sq. unfold dot, psub, u, v; cbn. ring. }
  rewrite <- D. assert (N := dist_nonneg u v). apply Rabs_le_elim in H. nra.
Qed.

Theorem rounded_cylinder_lipschitz pos rad th bh : lipschitz1 (RoundedCylinder pos rad th bh).
Proof.
  intros p q. rewrite !rcyl_as_rounded_rect.
  replace (boxg2 (rcyl_dx pos rad th p) (rcyl_dy pos bh p) - th - (boxg2 (rcyl_dx pos rad th q) (rcyl_dy pos bh q) - th))
    with (boxg2 (rcyl_dx pos rad th p) (rcyl_dy pos bh p) - boxg2 (rcyl_dx pos rad th q) (rcyl_dy pos bh q)) by ring.
  eapply Rle_trans. apply boxg2_lipschitz.
  unfold dist, norm. apply sqrt_le_1_alt.
  assert (A := rho_lipschitz pos p q).
  assert (B : (rcyl_dy pos bh p - rcyl_dy pos bh q) * (rcyl_dy pos bh p - rcyl_dy pos bh q) <= (v3y p - v3y q) * (v3y p - v3y q)).
  { apply sq_abs_le. unfold rcyl_dy. apply abs_shift_lip. }
  unfold rcyl_dx. unfold dot, psub; cbn [v3x v3y v3z].
  replace (rho pos p - 2 * rad + th - (rho pos q - 2 * rad + th)) with (rho pos p - rho pos q) by ring. lra.
Qed.

(* sign, in the rounded-rectangle form: p is inside iff its offset from the core cylinder
   (radial excess dx, axial excess dy, clamped at 0) is shorter than the rounding th *)
Definition rcyl_excess (pos : pt) (rad th bh : R) (p : pt) : R :=
  sqrt (Rmax (rcyl_dx pos rad th p) 0 * Rmax (rcyl_dx pos rad th p) 0 + Rmax (rcyl_dy pos bh p) 0 * Rmax (rcyl_dy pos bh p) 0).

Theorem rounded_cylinder_sign_rect pos rad th bh p : 0 < th ->
  (RoundedCylinder pos rad th bh p < 0 <-> rcyl_excess pos rad th bh p < th) /\
  (RoundedCylinder pos rad th bh p = 0 <-> rcyl_excess pos rad th bh p = th).
Proof.
  intros Hth. rewrite rcyl_as_rounded_rect. unfold boxg2, rcyl_excess.
  set (dx := rcyl_dx pos rad th p). set (dy := rcyl_dy pos bh p).
  set (E := sqrt (Rmax dx 0 * Rmax dx 0 + Rmax dy 0 * Rmax dy 0)).
  assert (HE : 0 <= E) by apply sqrt_pos.
  destruct (Rle_dec (Rmax dx dy) 0) as [Hin|Hout].
  - assert (Hin' := Hin). apply Rmax_le_iff in Hin'. destruct Hin'.
    assert (E0 : E = 0). { unfold E. rewrite !Rmax0_zero by lra. replace (0*0+0*0) with 0 by ring. apply sqrt_0. }
    rewrite Rmin_left by auto. rewrite E0. split; split; intros; lra.
  - rewrite Rmin_right by lra. split; split; intros; lra.
Qed.

(* sign as a 3-D point set: inside iff closer than th to the core cylinder *)
Lemma rho_scale pos p k s : 0 <= k ->
  v3x s = v3x pos + k * (v3x p - v3x pos) -> v3z s = v3z pos + k * (v3z p - v3z pos) -> rho pos s = k * rho pos p.
Proof.
  intros Hk Ex Ez. unfold rho. rewrite Ex, Ez.
  replace ((v3x pos + k * (v3x p - v3x pos) - v3x pos) * (v3x pos + k * (v3x p - v3x pos) - v3x pos) +
           (v3z pos + k * (v3z p - v3z pos) - v3z pos) * (v3z pos + k * (v3z p - v3z pos) - v3z pos))
    with ((k * k) * ((v3x p - v3x pos) * (v3x p - v3x pos) + (v3z p - v3z pos) * (v3z p - v3z pos))) by ring.
  assert (K2 := Rle_0_sqr k). assert (U := Rle_0_sqr (v3x p - v3x pos)). assert (W := Rle_0_sqr (v3z p - v3z pos)).
  unfold Rsqr in *.
  rewrite sqrt_mult by lra. rewrite sqrt_square by lra. reflexivity.
Qed.

Lemma rho_nonneg pos p : 0 <= rho pos p.
Proof. apply sqrt_pos. Qed.
Lemma rho_sq pos p : rho pos p * rho pos p = (v3x p - v3x pos) * (v3x p - v3x pos) + (v3z p - v3z pos) * (v3z p - v3z pos).
Proof.
  apply sqrt_sqrt. assert (U := Rle_0_sqr (v3x p - v3x pos)). assert (W := Rle_0_sqr (v3z p - v3z pos)).
  unfold Rsqr in *. lra.
Qed.

Theorem rounded_cylinder_sign pos rad th bh p : 0 < th -> 0 <= 2 * rad - th -> 0 <= bh ->
  (RoundedCylinder pos rad th bh p < 0 <-> rcyl_int pos rad th bh p).
Proof.
  intros Hth Hcore Hbh.
  destruct (rounded_cylinder_sign_rect pos rad th bh p Hth) as [Hs _]. rewrite Hs. clear Hs.
  unfold rcyl_excess, rcyl_int, rcyl_core. fold (rho pos p).
  set (dx := rcyl_dx pos rad th p). set (dy := rcyl_dy pos bh p).
  assert (Edx : dx = rho pos p - (2 * rad - th)) by (unfold dx, rcyl_dx; ring).
  assert (Hrp := rho_nonneg pos p).
  split.
  - (* construct the nearest core point *)
    intros HE.
    set (k := if Rle_dec dx 0 then 1 else (2 * rad - th) / rho pos p).
    assert (Hk : 0 <= k /\ k * rho pos p <= 2 * rad - th /\ (1 - k) * rho pos p = Rmax dx 0 /\ 0 <= 1 - k).
    { unfold k. destruct (Rle_dec dx 0) as [Hd | Hd].
      - rewrite Rmax0_zero by auto. repeat split; lra.
      - assert (Hpos : 0 < rho pos p) by lra. rewrite Rmax0_pos by lra.
        assert (Ek : (2 * rad - th) / rho pos p * rho pos p = 2 * rad - th) by (field; lra).
        repeat split.
        + apply Rmult_le_pos. lra. left. apply Rinv_0_lt_compat. lra.
        + lra.
        + replace ((1 - (2 * rad - th) / rho pos p) * rho pos p) with (rho pos p - (2 * rad - th) / rho pos p * rho pos p) by ring.
          rewrite Ek. lra.
        + apply Rmult_le_reg_r with (rho pos p). lra.
          replace ((1 - (2 * rad - th) / rho pos p) * rho pos p) with (rho pos p - (2 * rad - th) / rho pos p * rho pos p) by ring.
          rewrite Ek. lra. }
    destruct Hk as [Hk0 [Hk1 [Hk2 Hk3]]].
    exists (mkV3 (v3x pos + k * (v3x p - v3x pos)) (clamp1 (v3y p) (v3y pos) bh) (v3z pos + k * (v3z p - v3z pos))).
    split; [split|].
    + fold (rho pos (mkV3 (v3x pos + k * (v3x p - v3x pos)) (clamp1 (v3y p) (v3y pos) bh) (v3z pos + k * (v3z p - v3z pos)))).
      rewrite (rho_scale pos p k) by (auto; reflexivity). exact Hk1.
    + cbn [v3y]. apply clamp1_in. exact Hbh.
    + eapply Rle_lt_trans; [|exact HE]. right. unfold dist, norm. f_equal.
      unfold dot, psub; cbn [v3x v3y v3z].
      assert (Ey : (v3y p - clamp1 (v3y p) (v3y pos) bh) * (v3y p - clamp1 (v3y p) (v3y pos) bh) = Rmax dy 0 * Rmax dy 0).
      { rewrite <- Rabs_sq. rewrite clamp1_dist by auto. reflexivity. }
      rewrite Ey, <- Hk2.
      replace (v3x p - (v3x pos + k * (v3x p - v3x pos))) with ((1 - k) * (v3x p - v3x pos)) by ring.
      replace (v3z p - (v3z pos + k * (v3z p - v3z pos))) with ((1 - k) * (v3z p - v3z pos)) by ring.
      assert (R2 := rho_sq pos p).
      replace ((1 - k) * rho pos p * ((1 - k) * rho pos p)) with ((1 - k) * (1 - k) * (rho pos p * rho pos p)) by ring.
      rewrite R2. ring.
  - intros [s [[Hc1 Hc2] Hd]].
    fold (rho pos s) in Hc1.
    eapply Rle_lt_trans; [|exact Hd].
    unfold dist. apply le_norm_of_sq.
    rewrite sqrt_sqrt by (assert (A1 := Rle_0_sqr (Rmax dx 0)); assert (A2 := Rle_0_sqr (Rmax dy 0)); unfold Rsqr in *; lra).
    unfold dot, psub; cbn [v3x v3y v3z].
    assert (L := rho_lipschitz pos p s).
    assert (Hrs := rho_nonneg pos s).
    assert (X : Rmax dx 0 * Rmax dx 0 <= (rho pos p - rho pos s) * (rho pos p - rho pos s)).
    { destruct (Rle_dec dx 0) as [Hd0 | Hd0].
      - rewrite Rmax0_zero by auto. assert (A := Rle_0_sqr (rho pos p - rho pos s)). unfold Rsqr in A. lra.
      - rewrite Rmax0_pos by lra. assert (0 < dx) by lra. assert (dx <= rho pos p - rho pos s) by lra. nra. }
    assert (Y : Rmax dy 0 * Rmax dy 0 <= (v3y p - v3y s) * (v3y p - v3y s)).
    { rewrite <- (Rabs_sq (v3y p - v3y s)).
      assert (B := clamp1_best (v3y p) (v3y pos) bh (v3y s) Hc2). fold (rcyl_dy pos bh p) in B. fold dy in B.
      assert (B0 := Rmax0_nonneg dy). nra. }
    lra.
Qed.
