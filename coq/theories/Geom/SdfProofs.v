(* C19 — proofs about the GENERATED signed distance functions (coq/gen/Sdf.v, coq/gen/SdfGeo.v) over R:
   sphere, plane, capsule (geometry.Line3D.ClosestPointOnLine), operators, translate.
   Box family: SdfBoxProofs.v; rounded cone: SdfConeProofs.v. *)
From Coq Require Import Reals Lra Lia Psatz List ZArith.
From PF Require Import Geom.Vec Geom.SdfSpec Geom.SdfBase.
From PFGen Require Import Sdf SdfGeo.
Import ListNotations.
Local Open Scope R_scope.

(* ---- bridging the prelude operations (R instance) and the specification's plain definitions *)
Lemma gen_sub (a b : pt) : v3_sub a b = psub a b.
Proof. reflexivity. Qed.
Lemma gen_add (a b : pt) : v3_add a b = padd a b.
Proof. reflexivity. Qed.
Lemma gen_dot (a b : pt) : v3_dot a b = dot a b.
Proof. reflexivity. Qed.
Lemma gen_length (a : pt) : v3_length a = norm a.
Proof. reflexivity. Qed.
Lemma gen_distance (v o : pt) : v3_distance v o = dist v o.
Proof.
  unfold v3_distance, v3_distance_squared, dist, norm, dot, psub. carrier_R. cbn [v3x v3y v3z].
  f_equal. ring.
Qed.
Lemma gen_scale (a : pt) (t : R) : v3_scale a t = smul t a.
Proof. unfold v3_scale, smul. carrier_R. f_equal; ring. Qed.

(* ================================================================ sphere *)
(* reduce a generated term (and the specification side) to real arithmetic on coordinates: every vector helper of
   the Go source unfolds to the same coordinate arithmetic, so lemmas proved this way do not depend on which helper
   (Distance / Sub+Length / Dot / LengthSquared ...) the source uses *)
Ltac gen_coords :=
  cbv beta iota zeta delta -[Rplus Rmult Rminus Ropp Rdiv Rinv sqrt Rabs Rmax Rmin Rltb Rleb Reqb IZR Rlt Rle
                             v3x v3y v3z v2x v2y];
  cbn [v3x v3y v3z v2x v2y].

Lemma Sphere_eq c r p : Sphere c r p = dist p c - r.
Proof.
  gen_coords. f_equal. f_equal. ring.
Qed.

Theorem sphere_sign c r : sdf_sign (Sphere c r) (ball_int c r) (sphere_surf c r).
Proof.
  intros p. rewrite Sphere_eq. unfold ball_int, sphere_surf. split; split; intros; lra.
Qed.

Theorem sphere_lipschitz c r : lipschitz1 (Sphere c r).
Proof.
  intros p q. rewrite !Sphere_eq.
  replace (dist p c - r - (dist q c - r)) with (dist p c - dist q c) by ring.
  apply dist_rev_triangle.
Qed.

Lemma dist_along p c (k : R) : dist p (padd c (smul k (psub p c))) = Rabs (1 - k) * dist p c.
Proof.
  unfold dist. rewrite <- norm_smul. unfold norm. f_equal. unfold dot, psub, padd, smul; cbn. ring.
Qed.

Lemma dist_along_c p c (k : R) : dist (padd c (smul k (psub p c))) c = Rabs k * dist p c.
Proof.
  unfold dist. rewrite <- norm_smul. unfold norm. f_equal. unfold dot, psub, padd, smul; cbn. ring.
Qed.

Theorem sphere_exact c r : 0 <= r -> sdf_exact (Sphere c r) (sphere_surf c r).
Proof.
  intros Hr p. rewrite Sphere_eq. unfold dist_to, nearest, sphere_surf.
  assert (LB : forall s, dist s c = r -> Rabs (dist p c - r) <= dist p s).
  { intros s Hs. rewrite <- Hs. apply dist_rev_triangle. }
  destruct (Req_dec (dist p c) 0) as [Hz | Hnz].
  - (* p is the centre: any surface point is nearest *)
    apply dist_zero_iff in Hz. subst p.
    exists (padd c (P3 r 0 0)).
    assert (E : dist c (padd c (P3 r 0 0)) = r).
    { unfold dist. apply norm_eq_of_sq; auto. unfold dot, psub, padd, P3; cbn. ring. }
    assert (E' : dist (padd c (P3 r 0 0)) c = r) by (rewrite dist_sym; exact E).
    rewrite dist_refl. replace (0 - r) with (- r) by ring. rewrite Rabs_Ropp, (Rabs_right r) by lra.
    repeat split; auto.
    intros s Hs. rewrite E. rewrite <- Hs. rewrite dist_sym. lra.
  - set (d := dist p c) in *. assert (Hd : 0 < d) by (assert (H := dist_nonneg p c); fold d in H; lra).
    exists (padd c (smul (r / d) (psub p c))).
    assert (Es : dist (padd c (smul (r / d) (psub p c))) c = r).
    { rewrite dist_along_c. fold d. rewrite Rabs_right. field. lra.
      apply Rle_ge. apply Rmult_le_pos. lra. left. apply Rinv_0_lt_compat. exact Hd. }
    assert (Ep : dist p (padd c (smul (r / d) (psub p c))) = Rabs (d - r)).
    { rewrite dist_along. fold d. rewrite <- (Rabs_right d) at 2 by lra. rewrite <- Rabs_mult.
      f_equal. field. lra. }
    repeat split; auto.
    intros s Hs. rewrite Ep. apply LB. exact Hs.
Qed.

(* ================================================================ plane *)
Lemma Plane_eq pos n h p : Plane pos n h p = plane_fn pos n h p.
Proof.
  unfold Plane, plane_fn, v3_dot, v3_sub, dot, psub. cbv zeta. carrier_R. cbn [v3x v3y v3z]. ring.
Qed.

Theorem plane_sign pos n h : sdf_sign (Plane pos n h) (halfspace_int pos n h) (plane_surf pos n h).
Proof. intros p. rewrite Plane_eq. unfold halfspace_int, plane_surf. split; split; intros; lra. Qed.

Lemma plane_fn_diff pos n h p q : plane_fn pos n h p - plane_fn pos n h q = dot (psub p q) n.
Proof. unfold plane_fn, dot, psub; cbn. ring. Qed.

Theorem plane_lipschitz pos n h : norm n = 1 -> lipschitz1 (Plane pos n h).
Proof.
  intros Hn p q. rewrite !Plane_eq, plane_fn_diff.
  eapply Rle_trans. apply cauchy_schwarz_abs. rewrite Hn. unfold dist. lra.
Qed.

Theorem plane_exact pos n h : norm n = 1 -> sdf_exact (Plane pos n h) (plane_surf pos n h).
Proof.
  intros Hn p. rewrite Plane_eq. set (f := plane_fn pos n h).
  assert (Hnn : dot n n = 1) by (rewrite <- norm_sq, Hn; ring).
  exists (psub p (smul (f p) n)).
  assert (Es : plane_surf pos n h (psub p (smul (f p) n))).
  { unfold plane_surf. fold f.
    assert (E : f (psub p (smul (f p) n)) = f p - f p * dot n n).
    { unfold f, plane_fn, dot, psub, smul; cbn. ring. }
    rewrite E, Hnn. ring. }
  assert (Ed : dist p (psub p (smul (f p) n)) = Rabs (f p)).
  { unfold dist.
    replace (psub p (psub p (smul (f p) n))) with (smul (f p) n).
    - rewrite norm_smul, Hn. ring.
    - unfold psub, smul; cbn. f_equal; ring. }
  split; [split|]; auto.
  - intros s Hs. rewrite Ed. unfold plane_surf in Hs. fold f in Hs.
    replace (f p) with (f p - f s) by lra. unfold f. rewrite plane_fn_diff.
    eapply Rle_trans. apply cauchy_schwarz_abs. rewrite Hn. unfold dist. lra.
Qed.

(* ================================================================ operators, arbitrary operands *)
Lemma Union2_eq (f g : pt -> R) p : Union [f; g] p = Rmin (f p) (g p).
Proof. reflexivity. Qed.
Lemma Intersect2_eq (f g : pt -> R) p : Intersect [f; g] p = Rmax (f p) (g p).
Proof. reflexivity. Qed.
Lemma Subtract_eq (f g : pt -> R) p : Subtract f g p = Rmax (f p) (- g p).
Proof. reflexivity. Qed.

Theorem union_sign (f g : pt -> R) p : Union [f; g] p < 0 <-> f p < 0 \/ g p < 0.
Proof. rewrite Union2_eq. unfold Rmin. destruct (Rle_dec (f p) (g p)); split; intros; try lra. Qed.

Theorem intersect_sign (f g : pt -> R) p : Intersect [f; g] p < 0 <-> f p < 0 /\ g p < 0.
Proof. rewrite Intersect2_eq. unfold Rmax. destruct (Rle_dec (f p) (g p)); split; intros; try lra. Qed.

(* exact set: inside the base and strictly outside the closed subtrahend (on the subtrahend's surface the
   value is >= 0, not negative) *)
Theorem subtract_sign (f g : pt -> R) p : Subtract f g p < 0 <-> f p < 0 /\ 0 < g p.
Proof. rewrite Subtract_eq. unfold Rmax. destruct (Rle_dec (f p) (- g p)); split; intros; try lra. Qed.

(* n-ary: the generated Union/Intersect on a non-empty list is the running min/max *)
Lemma Union_cons (f : pt -> R) rest p :
  Union (f :: rest) p = fold_left (fun acc g => Rmin acc (g p)) rest (f p).
Proof.
  destruct rest as [|g [|h rest]]; try reflexivity.
  unfold Union.
  repeat match goal with |- context [Z.eqb ?a ?b] =>
    destruct (Z.eqb_spec a b) as [E|_]; [cbn [length] in E; lia|] end.
  reflexivity.
Qed.
Lemma Intersect_cons (f : pt -> R) rest p :
  Intersect (f :: rest) p = fold_left (fun acc g => Rmax acc (g p)) rest (f p).
Proof.
  destruct rest as [|g rest]; try reflexivity.
  unfold Intersect.
  repeat match goal with |- context [Z.eqb ?a ?b] =>
    destruct (Z.eqb_spec a b) as [E|_]; [cbn [length] in E; lia|] end.
  reflexivity.
Qed.
Lemma Union_panics_iff (fs : list (pt -> R)) : Union_panics fs = false <-> fs <> [].
Proof.
  destruct fs as [|f rest]; [cbn; split; intros; congruence|].
  split; [congruence|]. intros _. unfold Union_panics.
  match goal with |- context [Z.eqb ?a ?b] =>
    destruct (Z.eqb_spec a b) as [E|_]; [cbn [length] in E; lia|] end.
  repeat match goal with |- context [Z.eqb ?a ?b] => destruct (Z.eqb a b) end; reflexivity.
Qed.
Lemma Intersect_panics_iff (fs : list (pt -> R)) : Intersect_panics fs = false <-> fs <> [].
Proof.
  destruct fs as [|f rest]; [cbn; split; intros; congruence|].
  split; [congruence|]. intros _. unfold Intersect_panics.
  match goal with |- context [Z.eqb ?a ?b] =>
    destruct (Z.eqb_spec a b) as [E|_]; [cbn [length] in E; lia|] end.
  repeat match goal with |- context [Z.eqb ?a ?b] => destruct (Z.eqb a b) end; reflexivity.
Qed.

Lemma fold_min_neg (rest : list (pt -> R)) p : forall a,
  fold_left (fun acc g => Rmin acc (g p)) rest a < 0 <-> a < 0 \/ exists g, In g rest /\ g p < 0.
Proof.
  induction rest as [|g rest IH]; intros a; cbn [fold_left].
  - split; [auto | intros [H | [g [[] _]]]; auto].
  - rewrite IH. split.
    + intros [H | [h [Hin Hh]]].
      * unfold Rmin in H. destruct (Rle_dec a (g p)); [left; lra | right; exists g; split; [left; auto | lra]].
      * right. exists h. split; [right; auto | auto].
    + intros [H | [h [[-> | Hin] Hh]]].
      * left. unfold Rmin. destruct (Rle_dec a (g p)); lra.
      * left. unfold Rmin. destruct (Rle_dec a (h p)); lra.
      * right. exists h. auto.
Qed.

Lemma fold_max_neg (rest : list (pt -> R)) p : forall a,
  fold_left (fun acc g => Rmax acc (g p)) rest a < 0 <-> a < 0 /\ forall g, In g rest -> g p < 0.
Proof.
  induction rest as [|g rest IH]; intros a; cbn [fold_left].
  - split; [intros; split; [auto | intros g []] | intros [H _]; auto].
  - rewrite IH. split.
    + intros [H Hall]. unfold Rmax in H. destruct (Rle_dec a (g p)).
      * split; [lra |]. intros h [-> | Hin]; auto.
      * split; [lra |]. intros h [<- | Hin]; [lra | auto].
    + intros [H Hall]. split.
      * assert (Hg := Hall g (or_introl eq_refl)). unfold Rmax. destruct (Rle_dec a (g p)); lra.
      * intros h Hin. apply Hall. right. exact Hin.
Qed.

Theorem union_sign_nary (fs : list (pt -> R)) p :
  Union_panics fs = false -> (Union fs p < 0 <-> exists f, In f fs /\ f p < 0).
Proof.
  intros Hne. apply Union_panics_iff in Hne. destruct fs as [|f rest]; [congruence|].
  rewrite Union_cons, fold_min_neg. split.
  - intros [H | [g [Hin Hg]]]; [exists f | exists g]; split; auto; [left | right]; auto.
  - intros [g [[<- | Hin] Hg]]; [left; auto | right; exists g; auto].
Qed.

Theorem intersect_sign_nary (fs : list (pt -> R)) p :
  Intersect_panics fs = false -> (Intersect fs p < 0 <-> forall f, In f fs -> f p < 0).
Proof.
  intros Hne. apply Intersect_panics_iff in Hne. destruct fs as [|f rest]; [congruence|].
  rewrite Intersect_cons, fold_max_neg. split.
  - intros [H Hall] g [<- | Hin]; auto.
  - intros Hall. split; [apply Hall; left; auto | intros g Hin; apply Hall; right; auto].
Qed.

(* min / max / negation of 1-Lipschitz functions are 1-Lipschitz, hence so are the operators *)
Theorem min_max_lipschitz (f g : pt -> R) :
  lipschitz1 f -> lipschitz1 g ->
  lipschitz1 (Union [f; g]) /\ lipschitz1 (Intersect [f; g]) /\ lipschitz1 (Subtract f g).
Proof.
  intros Hf Hg. split; [|split].
  - apply (lipschitz1_ext (fun p => Rmin (f p) (g p))); [intros; symmetry; apply Union2_eq | apply lipschitz1_min; auto].
  - apply (lipschitz1_ext (fun p => Rmax (f p) (g p))); [intros; symmetry; apply Intersect2_eq | apply lipschitz1_max; auto].
  - apply (lipschitz1_ext (fun p => Rmax (f p) (- g p))); [intros; symmetry; apply Subtract_eq |].
    apply lipschitz1_max; auto. apply lipschitz1_opp; auto.
Qed.

Lemma fold_min_lipschitz (rest : list (pt -> R)) : forall a : pt -> R,
  lipschitz1 a -> (forall g, In g rest -> lipschitz1 g) ->
  lipschitz1 (fun p => fold_left (fun acc g => Rmin acc (g p)) rest (a p)).
Proof.
  induction rest as [|g rest IH]; intros a Ha Hall; cbn [fold_left]; auto.
  apply (IH (fun p => Rmin (a p) (g p))).
  - apply lipschitz1_min; auto. apply Hall. left; auto.
  - intros h Hin. apply Hall. right; auto.
Qed.
Lemma fold_max_lipschitz (rest : list (pt -> R)) : forall a : pt -> R,
  lipschitz1 a -> (forall g, In g rest -> lipschitz1 g) ->
  lipschitz1 (fun p => fold_left (fun acc g => Rmax acc (g p)) rest (a p)).
Proof.
  induction rest as [|g rest IH]; intros a Ha Hall; cbn [fold_left]; auto.
  apply (IH (fun p => Rmax (a p) (g p))).
  - apply lipschitz1_max; auto. apply Hall. left; auto.
  - intros h Hin. apply Hall. right; auto.
Qed.

Theorem union_lipschitz_nary (fs : list (pt -> R)) :
  Union_panics fs = false -> (forall f, In f fs -> lipschitz1 f) -> lipschitz1 (Union fs).
Proof.
  intros Hne Hall. apply Union_panics_iff in Hne. destruct fs as [|f rest]; [congruence|].
  eapply lipschitz1_ext. intros p. symmetry. apply Union_cons.
  apply fold_min_lipschitz. apply Hall; left; auto. intros g Hin. apply Hall; right; auto.
Qed.
Theorem intersect_lipschitz_nary (fs : list (pt -> R)) :
  Intersect_panics fs = false -> (forall f, In f fs -> lipschitz1 f) -> lipschitz1 (Intersect fs).
Proof.
  intros Hne Hall. apply Intersect_panics_iff in Hne. destruct fs as [|f rest]; [congruence|].
  eapply lipschitz1_ext. intros p. symmetry. apply Intersect_cons.
  apply fold_max_lipschitz. apply Hall; left; auto. intros g Hin. apply Hall; right; auto.
Qed.

(* ================================================================ translate *)
Theorem translate_spec (f : pt -> R) t p : Translate f t p = f (psub p t).
Proof.
  unfold Translate.
  (* the source may keep an exact-zero guard (`if translation == Zero { return field }`): when it fires every
     component of t is 0 and p - t = p *)
  repeat match goal with |- context [if ?c then _ else _] => destruct c eqn:?G end; try reflexivity.
  all: repeat match goal with H : andb _ _ = true |- _ => apply andb_prop in H; destruct H end.
  all: carrier_R; repeat match goal with H : Reqb _ _ = true |- _ => apply Reqb_true in H end.
  all: destruct p as [px py pz], t as [tx ty tz]; unfold v3_zero in *; cbn [v3x v3y v3z] in *; carrier_R; subst.
  all: f_equal; unfold psub; cbn [v3x v3y v3z]; f_equal; ring.
Qed.

(* the translated field is negative exactly on the shape moved by +t *)
Theorem translate_sign (f : pt -> R) t p : Translate f t (padd p t) < 0 <-> f p < 0.
Proof.
  rewrite translate_spec. replace (psub (padd p t) t) with p. tauto.
  destruct p, t. unfold psub, padd; cbn. f_equal; ring.
Qed.

Theorem translate_lipschitz (f : pt -> R) t : lipschitz1 f -> lipschitz1 (Translate f t).
Proof.
  intros Hf. apply (lipschitz1_ext (fun p => f (psub p t))).
  - intros p. symmetry. apply translate_spec.
  - apply (lipschitz1_translate f t Hf).
Qed.
