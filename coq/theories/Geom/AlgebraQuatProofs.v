(* C17 — quaternion laws of the translated code (coq/gen/Quat.v) over an arbitrary commutative ring:
   Multiply is the Hamilton product, Rotate is the sandwich product q (0,v) q*, it scales squared length
   by (|q|^2)^2, composes along Multiply and is linear.  Axiom-free. *)
From Coq Require Import ZArith List Bool Lia Ring.
From PF Require Import Geom.Vec Geom.AlgebraSpec.
From PFGen Require Quat.
Local Open Scope nat_scope.
Local Open Scope carrier_scope.

Lemma v3_eq' {F : Type} (a0 a1 a2 b0 b1 b2 : F) : a0 = b0 -> a1 = b1 -> a2 = b2 -> mkV3 a0 a1 a2 = mkV3 b0 b1 b2.
Proof. intros; subst; reflexivity. Qed.
Lemma quat_eq {F : Type} {FO : Carrier F} (v1 v2 : vec3 F) (w1 w2 : F) :
  v1 = v2 -> w1 = w2 -> Quat.mkQuaternion v1 w1 = Quat.mkQuaternion v2 w2.
Proof. intros; subst; reflexivity. Qed.

Ltac quat_destruct q := destruct q as [[? ? ?] ?].
(* everything (generated code, helpers it calls, specifications, vector prelude) down to the carrier operations *)
Ltac quat_unfold := gen_full.

Section QuatRing.
Context {F : Type} {FO : Carrier F} (RC : ring_carrier FO).
Add Ring Fring : (rc_ring RC).
Ltac lits := rewrite ?(rc_ofZ RC); cbn [zinj pinj].
Ltac cring := lits; ring.

(* Multiply is the Hamilton product *)
Theorem multiply_hamilton p q : Quat.Quaternion_Multiply p q = hamilton p q.
Proof. quat_destruct p; quat_destruct q. quat_unfold. apply quat_eq; [apply v3_eq'|]; cring. Qed.

Theorem multiply_assoc p q r :
  Quat.Quaternion_Multiply (Quat.Quaternion_Multiply p q) r = Quat.Quaternion_Multiply p (Quat.Quaternion_Multiply q r).
Proof. quat_destruct p; quat_destruct q; quat_destruct r. quat_unfold. apply quat_eq; [apply v3_eq'|]; cring. Qed.

Theorem multiply_id_l q : Quat.Quaternion_Multiply Quat.Identity q = q.
Proof. quat_destruct q. quat_unfold. apply quat_eq; [apply v3_eq'|]; cring. Qed.
Theorem multiply_id_r q : Quat.Quaternion_Multiply q Quat.Identity = q.
Proof. quat_destruct q. quat_unfold. apply quat_eq; [apply v3_eq'|]; cring. Qed.

(* the squared norm is multiplicative *)
Theorem multiply_norm p q : qnorm2 (Quat.Quaternion_Multiply p q) = qnorm2 p * qnorm2 q.
Proof. quat_destruct p; quat_destruct q. quat_unfold. cring. Qed.

(* Rotate is the sandwich product  q (0,v) q*  *)
Theorem rotate_sandwich q v : Quat.Quaternion_Rotate q v = rotate_spec q v.
Proof. quat_destruct q; destruct v. quat_unfold. apply v3_eq'; cring. Qed.

(* ... whose scalar part vanishes *)
Theorem rotate_sandwich_pure q v :
  Quat.Quaternion_w (hamilton (hamilton q (qpure v)) (qconj q)) = c0.
Proof. quat_destruct q; destruct v. quat_unfold. cring. Qed.

(* |Rotate q v|^2 = (|q|^2)^2 |v|^2 : length-preserving for unit q *)
Theorem rot_norm q v :
  v3_length_squared (Quat.Quaternion_Rotate q v) = (qnorm2 q * qnorm2 q) * v3_length_squared v.
Proof. quat_destruct q; destruct v. quat_unfold. cring. Qed.

Corollary rot_norm_unit q v : qnorm2 q = c1 ->
  v3_length_squared (Quat.Quaternion_Rotate q v) = v3_length_squared v.
Proof. intros H. rewrite rot_norm, H. ring. Qed.

(* dot products (angles) scale the same way *)
Theorem rot_dot q u v :
  v3_dot (Quat.Quaternion_Rotate q u) (Quat.Quaternion_Rotate q v) = (qnorm2 q * qnorm2 q) * v3_dot u v.
Proof. quat_destruct q; destruct u, v. quat_unfold. cring. Qed.

(* the product q1*q2 rotates like q2 followed by q1 *)
Theorem rot_compose q1 q2 v :
  Quat.Quaternion_Rotate (Quat.Quaternion_Multiply q1 q2) v = Quat.Quaternion_Rotate q1 (Quat.Quaternion_Rotate q2 v).
Proof. quat_destruct q1; quat_destruct q2; destruct v. quat_unfold. apply v3_eq'; cring. Qed.

Theorem rot_linear q u v (s : F) :
  Quat.Quaternion_Rotate q (v3_add (v3_scale u s) v) =
  v3_add (v3_scale (Quat.Quaternion_Rotate q u) s) (Quat.Quaternion_Rotate q v).
Proof. quat_destruct q; destruct u, v. quat_unfold. apply v3_eq'; cring. Qed.

Theorem rot_identity v : Quat.Quaternion_Rotate Quat.Identity v = v.
Proof. destruct v. quat_unfold. apply v3_eq'; cring. Qed.

(* Rotate is quadratic in q: scaling q by s scales the image by s^2 *)
Theorem rot_scale_q x y z w (s : F) v :
  Quat.Quaternion_Rotate (Quat.mkQuaternion (mkV3 (x * s) (y * s) (z * s)) (w * s)) v =
  v3_scale (Quat.Quaternion_Rotate (Quat.mkQuaternion (mkV3 x y z) w) v) (s * s).
Proof. destruct v. quat_unfold. apply v3_eq'; cring. Qed.

(* rotating a by the un-normalised quaternion (a x b, a.a*b.b... ) — the generic branch of RotationTo:
   with A = a.a, B = b.b, d = a.b:  Rotate (a x b, 1 + d) a = 2(1+d) b + (1 - A B) a + 2(1+d)(A-1) b *)
Theorem rotation_to_core a b :
  let d := v3_dot a b in let A := v3_dot a a in let B := v3_dot b b in
  let two := c1 + c1 in
  Quat.Quaternion_Rotate (Quat.mkQuaternion (v3_cross a b) (c1 + d)) a =
  v3_add (v3_add (v3_scale b (two * (c1 + d))) (v3_scale a (c1 - (A * B))))
         (v3_scale b ((two * (c1 + d)) * (A - c1))).
Proof. destruct a, b. quat_unfold. apply v3_eq'; cring. Qed.

(* |(a x b, 1+d)|^2 = (1+d)^2 + A B - d^2 *)
Theorem rotation_to_norm a b :
  let d := v3_dot a b in
  qnorm2 (Quat.mkQuaternion (v3_cross a b) (c1 + d)) = ((c1 + d) * (c1 + d)) + ((v3_dot a a * v3_dot b b) - (d * d)).
Proof. destruct a, b. quat_unfold. cring. Qed.

(* a quaternion (n, 0) with n perpendicular to a maps a to -(n.n) a : half turn *)
Theorem half_turn n a : v3_dot n a = c0 ->
  Quat.Quaternion_Rotate (Quat.mkQuaternion n c0) a = v3_scale (v3_neg a) (v3_dot n n).
Proof.
  destruct n as [n1 n2 n3], a as [a1 a2 a3]. intros H. gen_full_in H. quat_unfold. apply v3_eq'; lits.
  - transitivity (((n1 * a1 + n2 * a2 + n3 * a3) * (n1 * (c1 + c1))) + - a1 * (n1 * n1 + n2 * n2 + n3 * n3)); [ring|].
    rewrite H. ring.
  - transitivity (((n1 * a1 + n2 * a2 + n3 * a3) * (n2 * (c1 + c1))) + - a2 * (n1 * n1 + n2 * n2 + n3 * n3)); [ring|].
    rewrite H. ring.
  - transitivity (((n1 * a1 + n2 * a2 + n3 * a3) * (n3 * (c1 + c1))) + - a3 * (n1 * n1 + n2 * n2 + n3 * n3)); [ring|].
    rewrite H. ring.
Qed.
End QuatRing.
