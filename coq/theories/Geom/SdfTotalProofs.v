(* C19 — the capsule and rounded-cone theorems WITHOUT the non-degeneracy hypotheses: the guards of the fixed
   sources (`if |b-a| == 0 { return p1 }` in geometry.Line3D.ClosestPointOnLine, `if a2 <= 0 { return Sphere(..) }`
   in sdf.RoundedCone) make the statements hold for every input.
     capsule, a = b:      the segment is the single point a, ClosestPointOnLine returns it, Line a a r = Sphere a r.
     rounded cone, |b-a|^2 <= (r1-r2)^2 (one end sphere contains the other, also a = b):  the generated function
       returns the SDF of the larger end sphere, and that IS the minimum of |p - c(s)| - r(s) over s in [0,1]
       (triangle inequality: moving the centre by s|b-a| cannot gain more than the radius loses). *)
From Coq Require Import Reals Lra Lia Psatz List ZArith.
From PF Require Import Geom.Vec Geom.SdfSpec Geom.SdfBase Geom.SdfProofs Geom.SdfCapsuleProofs Geom.SdfConeProofs
  Geom.SdfScaleProofs.
From PFGen Require Import Sdf SdfGeo.
Local Open Scope R_scope.

(* equality of points is decidable (classical reals) *)
Lemma pt_eq_dec (a b : pt) : a = b \/ a <> b.
Proof.
  destruct a as [ax ay az], b as [bx b_y bz].
  destruct (Req_dec ax bx) as [-> | H]; [|right; congruence].
  destruct (Req_dec ay b_y) as [-> | H]; [|right; congruence].
  destruct (Req_dec az bz) as [-> | H]; [|right; congruence].
  left. reflexivity.
Qed.

(* ================================================================ capsule, also for a = b *)
Lemma cp_degenerate a p : cp a a p = a.
Proof.
  unfold cp, Line3D_ClosestPointOnLine, NewLine3D. cbv zeta. cbn [Line3D_p1 Line3D_p2].
  assert (E : v3_length (v3_sub a a) = 0).
  { rewrite gen_length, gen_sub. fold (dist a a). apply dist_refl. }
  rewrite E. carrier_R.
  match goal with |- context [Reqb ?x ?y] =>
    assert (E0 : Reqb x y = true) by (apply Reqb_true; reflexivity); rewrite E0 end.
  reflexivity.
Qed.

Lemma segment_degenerate a s : segment a a s <-> s = a.
Proof.
  split.
  - intros [t [_ ->]]. destruct a. unfold padd, smul, psub; cbn. f_equal; ring.
  - intros ->. exists 0. split; [lra|]. destruct a. unfold padd, smul, psub; cbn. f_equal; ring.
Qed.

Theorem capsule_nearest_total a b p : nearest (segment a b) (cp a b p) p.
Proof.
  destruct (pt_eq_dec a b) as [<- | Hab]; [|apply capsule_nearest; exact Hab].
  rewrite cp_degenerate. split.
  - apply segment_degenerate. reflexivity.
  - intros s Hs. apply segment_degenerate in Hs. subst s. lra.
Qed.

Theorem capsule_lipschitz_total a b r : lipschitz1 (Line a b r).
Proof.
  intros p q. rewrite !Line_eq.
  replace (dist p (cp a b p) - r - (dist q (cp a b q) - r)) with (dist p (cp a b p) - dist q (cp a b q)) by ring.
  apply (lipschitz_of_nearest (segment a b) (cp a b)). intros x. apply capsule_nearest_total.
Qed.

Theorem capsule_sign_total a b r : sdf_sign (Line a b r) (capsule_int a b r) (capsule_surf a b r).
Proof.
  intros p. rewrite Line_eq. destruct (capsule_nearest_total a b p) as [Hin Hn].
  split; split.
  - intros H. exists (cp a b p). split; auto. lra.
  - intros [s [Hs Hd]]. assert (H := Hn s Hs). lra.
  - intros H. exists (cp a b p). split; [split; auto | lra].
  - intros [c [[Hc Hnc] ->]]. assert (H1 := Hn c Hc). assert (H2 := Hnc _ Hin). lra.
Qed.

Lemma dist_to_ext (S S' : pt -> Prop) p d : (forall s, S s <-> S' s) -> dist_to S p d -> dist_to S' p d.
Proof.
  intros E [c [[Sc Hn] Ed]]. exists c. split; [split|]; auto.
  - apply E. exact Sc.
  - intros s Hs. apply Hn. apply E. exact Hs.
Qed.

(* the surface of the degenerate capsule is the sphere around a *)
Lemma capsule_surf_degenerate a r s : sphere_surf a r s <-> capsule_surf a a r s.
Proof.
  unfold sphere_surf, capsule_surf, dist_to. split.
  - intros H. exists a. split; [|auto]. split.
    + apply segment_degenerate. reflexivity.
    + intros s' Hs'. apply segment_degenerate in Hs'. subst s'. lra.
  - intros [c [[Hc _] ->]]. apply segment_degenerate in Hc. subst c. reflexivity.
Qed.

Theorem capsule_exact_total a b r : 0 <= r -> sdf_exact (Line a b r) (capsule_surf a b r).
Proof.
  intros Hr. destruct (pt_eq_dec a b) as [<- | Hab]; [|apply capsule_exact; auto].
  intros p. rewrite Line_eq, cp_degenerate.
  replace (dist p a - r) with (Sphere a r p) by apply Sphere_eq.
  apply (dist_to_ext (sphere_surf a r)). apply capsule_surf_degenerate. apply sphere_exact; auto.
Qed.

Theorem capsule_homogeneous_total s a b r p : 0 <= s ->
  Line (smul s a) (smul s b) (s * r) (smul s p) = s * Line a b r p.
Proof.
  intros Hs. destruct (pt_eq_dec a b) as [<- | Hab].
  - rewrite !Line_eq, !cp_degenerate, dist_smul by auto. ring.
  - destruct (Req_dec s 0) as [-> | Hs0].
    + assert (Z : forall q, smul 0 q = P3 0 0 0) by (intros q; unfold smul, P3; f_equal; ring).
      rewrite !Z, Line_eq, cp_degenerate, dist_refl. ring.
    + apply capsule_homogeneous; auto. lra.
Qed.

(* ================================================================ rounded cone, all parameters *)
Lemma rcone_centre_0 a b : rcone_centre a b 0 = a.
Proof. destruct a, b. unfold rcone_centre, padd, smul, psub; cbn. f_equal; ring. Qed.
Lemma rcone_centre_1 a b : rcone_centre a b 1 = b.
Proof. destruct a, b. unfold rcone_centre, padd, smul, psub; cbn. f_equal; ring. Qed.
Lemma dist_centre_a a b s : dist (rcone_centre a b s) a = Rabs s * dist b a.
Proof. unfold rcone_centre. apply dist_along_c. Qed.
Lemma dist_centre_b a b s : dist b (rcone_centre a b s) = Rabs (1 - s) * dist b a.
Proof. unfold rcone_centre. apply dist_along. Qed.

(* the guard of the fixed source: with nested end spheres the value is the SDF of the larger end sphere *)
Lemma RoundedCone_nested a b r1 r2 p :
  dot (psub b a) (psub b a) - (r1 - r2) * (r1 - r2) <= 0 ->
  RoundedCone a b r1 r2 p = if Rltb 0 (r1 - r2) then Sphere a r1 p else Sphere b r2 p.
Proof.
  intros H. unfold RoundedCone. cbv zeta. carrier_R.
  match goal with |- context [Rleb ?x ?y] =>
    assert (E0 : Rleb x y = true) by (apply Rleb_true; exact H); rewrite E0 end.
  reflexivity.
Qed.

(* ... and that is the minimum over the swept spheres: at s = 0 if r1 > r2, at s = 1 otherwise *)
Lemma rcone_nested_min a b r1 r2 p :
  dot (psub b a) (psub b a) - (r1 - r2) * (r1 - r2) <= 0 ->
  rcone_min a b r1 r2 p (RoundedCone a b r1 r2 p).
Proof.
  intros H. rewrite RoundedCone_nested by exact H.
  set (D := dist b a). assert (HD : 0 <= D) by apply dist_nonneg.
  assert (ED : D * D = dot (psub b a) (psub b a)) by (unfold D, dist; apply norm_sq).
  destruct (Rltb 0 (r1 - r2)) eqn:E.
  - apply Rltb_true in E. assert (HDr : D <= r1 - r2) by (apply sq_le_le; lra).
    rewrite Sphere_eq. split.
    + exists 0. split; [lra|]. rewrite rcone_centre_0. unfold rcone_radius. ring.
    + intros s Hs. unfold rcone_radius.
      assert (T := dist_triangle p (rcone_centre a b s) a). rewrite dist_centre_a in T. fold D in T.
      rewrite Rabs_right in T by lra.
      assert (s * D <= s * (r1 - r2)) by (apply Rmult_le_compat_l; lra). lra.
  - apply Rltb_false in E.
    assert (HDr : D <= r2 - r1).
    { apply sq_le_le. lra. replace ((r2 - r1) * (r2 - r1)) with ((r1 - r2) * (r1 - r2)) by ring. lra. }
    rewrite Sphere_eq. split.
    + exists 1. split; [lra|]. rewrite rcone_centre_1. unfold rcone_radius. ring.
    + intros s Hs. unfold rcone_radius.
      assert (T := dist_triangle p (rcone_centre a b s) b).
      rewrite (dist_sym (rcone_centre a b s) b), dist_centre_b in T. fold D in T.
      rewrite Rabs_right in T by lra.
      assert ((1 - s) * D <= (1 - s) * (r2 - r1)) by (apply Rmult_le_compat_l; lra). lra.
Qed.

Theorem rcone_is_min_total a b r1 r2 p : rcone_min a b r1 r2 p (RoundedCone a b r1 r2 p).
Proof.
  destruct (Rle_dec (dot (psub b a) (psub b a) - (r1 - r2) * (r1 - r2)) 0) as [H | H].
  - apply rcone_nested_min. exact H.
  - apply rcone_is_min. cbv zeta. lra.
Qed.

(* any function that is pointwise the swept-sphere minimum is 1-Lipschitz and has the sign of the swept solid *)
Lemma lipschitz_of_rcone_min (f : pt -> R) a b r1 r2 :
  (forall p, rcone_min a b r1 r2 p (f p)) -> lipschitz1 f.
Proof.
  intros M.
  apply (lipschitz_of_min_family
           (fun s p => dist p (rcone_centre a b s) - rcone_radius r1 r2 s) (fun s => 0 <= s <= 1)).
  - intros s _ p q.
    replace (dist p (rcone_centre a b s) - rcone_radius r1 r2 s - (dist q (rcone_centre a b s) - rcone_radius r1 r2 s))
      with (dist p (rcone_centre a b s) - dist q (rcone_centre a b s)) by ring.
    apply dist_rev_triangle.
  - intros p. destruct (M p) as [[s [Hs Es]] Hmin]. split.
    + exists s. auto.
    + exact Hmin.
Qed.

Lemma sign_of_rcone_min (f : pt -> R) a b r1 r2 :
  (forall p, rcone_min a b r1 r2 p (f p)) ->
  sdf_sign f (rcone_int a b r1 r2) (fun p => rcone_min a b r1 r2 p 0).
Proof.
  intros M p. destruct (M p) as [[s [Hs Es]] Hmin]. split; split.
  - intros H. exists s. split; auto. lra.
  - intros [s' [Hs' H]]. specialize (Hmin s' Hs'). lra.
  - intros E. rewrite <- E. apply M.
  - intros [[s' [Hs' Es']] Hmin']. assert (H1 := Hmin s' Hs'). assert (H2 := Hmin' s Hs). lra.
Qed.

Theorem rcone_lipschitz_total a b r1 r2 : lipschitz1 (RoundedCone a b r1 r2).
Proof. apply (lipschitz_of_rcone_min _ a b r1 r2). intros p. apply rcone_is_min_total. Qed.

Theorem rcone_sign_total a b r1 r2 :
  sdf_sign (RoundedCone a b r1 r2) (rcone_int a b r1 r2) (fun p => rcone_min a b r1 r2 p 0).
Proof. apply sign_of_rcone_min. intros p. apply rcone_is_min_total. Qed.

Theorem rcone_homogeneous_total s a b r1 r2 p : 0 <= s ->
  RoundedCone (smul s a) (smul s b) (s * r1) (s * r2) (smul s p) = s * RoundedCone a b r1 r2 p.
Proof.
  intros Hs. apply (rcone_min_unique (smul s a) (smul s b) (s * r1) (s * r2) (smul s p)).
  - apply rcone_is_min_total.
  - apply rcone_min_scale. exact Hs. apply rcone_is_min_total.
Qed.
