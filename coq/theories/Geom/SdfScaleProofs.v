(* C19 — positive homogeneity of the generated primitives: scaling every length of the shape and the sample point
   by s > 0 scales the value by s  (f_{sS}(s p) = s f_S(p)).  This is the metamorphic law the harness samples at the
   scales 2^-40 .. 2^20 (stream "scaled"). *)
From Coq Require Import Reals Lra Lia Psatz List ZArith.
From PF Require Import Geom.Vec Geom.SdfSpec Geom.SdfBase Geom.SdfProofs Geom.SdfCapsuleProofs Geom.SdfBoxProofs
  Geom.SdfConeProofs.
From PFGen Require Import Sdf SdfGeo.
Local Open Scope R_scope.

Lemma psub_smul s p q : psub (smul s p) (smul s q) = smul s (psub p q).
Proof. unfold psub, smul; cbn. f_equal; ring. Qed.
Lemma padd_smul s p q : padd (smul s p) (smul s q) = smul s (padd p q).
Proof. unfold padd, smul; cbn. f_equal; ring. Qed.
Lemma smul_smul s t p : smul s (smul t p) = smul t (smul s p).
Proof. unfold smul; cbn. f_equal; ring. Qed.
Lemma dot_smul s p q : dot (smul s p) (smul s q) = s * s * dot p q.
Proof. unfold dot, smul; cbn. ring. Qed.

Lemma dist_smul s p q : 0 <= s -> dist (smul s p) (smul s q) = s * dist p q.
Proof. intros Hs. unfold dist. rewrite psub_smul, norm_smul, Rabs_right by lra. reflexivity. Qed.

Lemma smul_inj s p q : s <> 0 -> smul s p = smul s q -> p = q.
Proof.
  intros Hs E. destruct p as [a b c], q as [d e f]. unfold smul in E; cbn in E. injection E as E1 E2 E3.
  f_equal; apply Rmult_eq_reg_l with s; auto.
Qed.

(* ---- sphere, plane *)
Theorem sphere_homogeneous s c r p : 0 <= s ->
  Sphere (smul s c) (s * r) (smul s p) = s * Sphere c r p.
Proof. intros Hs. rewrite !Sphere_eq, dist_smul by auto. ring. Qed.

Theorem plane_homogeneous s pos n h p :
  Plane (smul s pos) n (s * h) (smul s p) = s * Plane pos n h p.
Proof. rewrite !Plane_eq. unfold plane_fn, dot, psub, smul; cbn. ring. Qed.

(* ---- box family *)
Lemma Rmax0_scale s a : 0 <= s -> Rmax (s * a) 0 = s * Rmax a 0.
Proof. intros. replace 0 with (s * 0) at 1 by ring. apply RmaxRmult. auto. Qed.
Lemma Rmax_scale s a b : 0 <= s -> Rmax (s * a) (s * b) = s * Rmax a b.
Proof. intros. apply RmaxRmult. auto. Qed.
Lemma Rmin0_scale s a : 0 <= s -> Rmin (s * a) 0 = s * Rmin a 0.
Proof.
  intros Hs. unfold Rmin. destruct (Rle_dec (s * a) 0), (Rle_dec a 0); try ring; try nra.
Qed.
Lemma Rabs_scale s a : 0 <= s -> Rabs (s * a) = s * Rabs a.
Proof. intros. rewrite Rabs_mult, (Rabs_right s) by lra. reflexivity. Qed.

Lemma boxg_scale s q : 0 <= s -> boxg (smul s q) = s * boxg q.
Proof.
  intros Hs. unfold boxg.
  assert (E1 : pos3 (smul s q) = smul s (pos3 q)).
  { unfold pos3, smul; cbn [v3x v3y v3z]. rewrite !Rmax0_scale by auto. reflexivity. }
  assert (E2 : max3 (smul s q) = s * max3 q).
  { unfold max3, smul; cbn [v3x v3y v3z]. rewrite !Rmax_scale by auto. reflexivity. }
  rewrite E1, E2, norm_smul, Rabs_right, Rmin0_scale by lra. ring.
Qed.

Lemma boxq_scale s c b p : 0 <= s -> boxq (smul s c) (smul s b) (smul s p) = smul s (boxq c b p).
Proof.
  intros Hs. unfold boxq, smul; cbn [v3x v3y v3z].
  replace (s * v3x p - s * v3x c) with (s * (v3x p - v3x c)) by ring.
  replace (s * v3y p - s * v3y c) with (s * (v3y p - v3y c)) by ring.
  replace (s * v3z p - s * v3z c) with (s * (v3z p - v3z c)) by ring.
  rewrite !Rabs_scale by auto. f_equal; field.
Qed.

Theorem box_homogeneous s c b p : 0 <= s ->
  Box (smul s c) (smul s b) (smul s p) = s * Box c b p.
Proof. intros Hs. rewrite !Box_eq, boxq_scale, boxg_scale by auto. reflexivity. Qed.

Theorem rounded_box_homogeneous s c b r p : 0 <= s ->
  RoundedBox (smul s c) (smul s b) (s * r) (smul s p) = s * RoundedBox c b r p.
Proof. intros Hs. rewrite !rounded_box_eq, box_homogeneous by auto. ring. Qed.

Lemma rho_scale_all s pos p : 0 <= s -> rho (smul s pos) (smul s p) = s * rho pos p.
Proof.
  intros Hs. unfold rho, smul; cbn [v3x v3y v3z].
  replace ((s * v3x p - s * v3x pos) * (s * v3x p - s * v3x pos) + (s * v3z p - s * v3z pos) * (s * v3z p - s * v3z pos))
    with ((s * s) * ((v3x p - v3x pos) * (v3x p - v3x pos) + (v3z p - v3z pos) * (v3z p - v3z pos))) by ring.
  assert (A := Rle_0_sqr (v3x p - v3x pos)). assert (B := Rle_0_sqr (v3z p - v3z pos)). assert (C := Rle_0_sqr s).
  unfold Rsqr in *. rewrite sqrt_mult by lra. rewrite sqrt_square by lra. reflexivity.
Qed.

Lemma boxg2_scale s dx dy : 0 <= s -> boxg2 (s * dx) (s * dy) = s * boxg2 dx dy.
Proof.
  intros Hs. unfold boxg2. rewrite Rmax_scale, Rmin0_scale, !Rmax0_scale by auto.
  replace (s * Rmax dx 0 * (s * Rmax dx 0) + s * Rmax dy 0 * (s * Rmax dy 0))
    with ((s * s) * (Rmax dx 0 * Rmax dx 0 + Rmax dy 0 * Rmax dy 0)) by ring.
  assert (A := Rle_0_sqr (Rmax dx 0)). assert (B := Rle_0_sqr (Rmax dy 0)). assert (C := Rle_0_sqr s). unfold Rsqr in *.
  rewrite sqrt_mult by lra. rewrite sqrt_square by lra. ring.
Qed.

Theorem rounded_cylinder_homogeneous s pos rad th bh p : 0 <= s ->
  RoundedCylinder (smul s pos) (s * rad) (s * th) (s * bh) (smul s p) = s * RoundedCylinder pos rad th bh p.
Proof.
  intros Hs. rewrite !rcyl_as_rounded_rect.
  assert (Ex : rcyl_dx (smul s pos) (s * rad) (s * th) (smul s p) = s * rcyl_dx pos rad th p).
  { unfold rcyl_dx. rewrite rho_scale_all by auto. ring. }
  assert (Ey : rcyl_dy (smul s pos) (s * bh) (smul s p) = s * rcyl_dy pos bh p).
  { unfold rcyl_dy, smul; cbn [v3y]. replace (s * v3y p - s * v3y pos) with (s * (v3y p - v3y pos)) by ring.
    rewrite Rabs_scale by auto. ring. }
  rewrite Ex, Ey, boxg2_scale by auto. ring.
Qed.

(* ---- capsule *)
Lemma tproj_scale s a b p : s <> 0 -> a <> b -> tproj (smul s a) (smul s b) (smul s p) = tproj a b p.
Proof.
  intros Hs Hab. unfold tproj. rewrite !psub_smul, !dot_smul.
  assert (HL := neq_dot_pos a b Hab). field. split; lra.
Qed.

Lemma cp_tau a b p : a <> b ->
  cp a b p = padd a (smul (Rmax 0 (Rmin 1 (tproj a b p))) (psub b a)).
Proof.
  intros Hab. destruct (cp_cases a b p Hab) as [tau [Ht [E Hc]]]. rewrite E. f_equal. f_equal.
  destruct Hc as [[H1 ->] | [[H1 ->] | ->]].
  - rewrite Rmin_left by lra. rewrite Rmax_right by lra. reflexivity.
  - rewrite Rmin_right by lra. rewrite Rmax_left by lra. reflexivity.
  - rewrite Rmin_right by lra. rewrite Rmax_right by lra. reflexivity.
Qed.

Lemma cp_scale s a b p : 0 < s -> a <> b -> cp (smul s a) (smul s b) (smul s p) = smul s (cp a b p).
Proof.
  intros Hs Hab.
  assert (Hab' : smul s a <> smul s b) by (intros E; apply Hab; apply (smul_inj s); [lra | exact E]).
  rewrite (cp_tau _ _ _ Hab'), (cp_tau _ _ _ Hab), tproj_scale by (auto; lra).
  rewrite psub_smul, smul_smul, padd_smul. reflexivity.
Qed.

Theorem capsule_homogeneous s a b r p : 0 < s -> a <> b ->
  Line (smul s a) (smul s b) (s * r) (smul s p) = s * Line a b r p.
Proof.
  intros Hs Hab. rewrite !Line_eq, cp_scale, dist_smul by (auto; lra). ring.
Qed.

(* ---- rounded cone: through the swept-sphere minimum, which is unique *)
Lemma rcone_min_unique a b r1 r2 p d d' : rcone_min a b r1 r2 p d -> rcone_min a b r1 r2 p d' -> d = d'.
Proof.
  intros [[s [Hs Es]] Hm] [[s' [Hs' Es']] Hm'].
  assert (H1 := Hm s' Hs'). assert (H2 := Hm' s Hs). lra.
Qed.

Lemma rcone_min_scale s a b r1 r2 p d : 0 <= s ->
  rcone_min a b r1 r2 p d -> rcone_min (smul s a) (smul s b) (s * r1) (s * r2) (smul s p) (s * d).
Proof.
  intros Hs [[t [Ht Et]] Hm].
  assert (EC : forall t, rcone_centre (smul s a) (smul s b) t = smul s (rcone_centre a b t)).
  { intros u. unfold rcone_centre. rewrite psub_smul, smul_smul, padd_smul. reflexivity. }
  assert (ER : forall t, rcone_radius (s * r1) (s * r2) t = s * rcone_radius r1 r2 t).
  { intros u. unfold rcone_radius. ring. }
  split.
  - exists t. split; auto. rewrite EC, ER, dist_smul, Et by auto. ring.
  - intros u Hu. rewrite EC, ER, dist_smul by auto. specialize (Hm u Hu). nra.
Qed.

Theorem rounded_cone_homogeneous s a b r1 r2 p : 0 < s ->
  (r1 - r2) * (r1 - r2) < dot (psub b a) (psub b a) ->
  RoundedCone (smul s a) (smul s b) (s * r1) (s * r2) (smul s p) = s * RoundedCone a b r1 r2 p.
Proof.
  intros Hs Hw.
  assert (Hw' : (s * r1 - s * r2) * (s * r1 - s * r2) < dot (psub (smul s b) (smul s a)) (psub (smul s b) (smul s a))).
  { rewrite psub_smul, dot_smul. replace ((s * r1 - s * r2) * (s * r1 - s * r2)) with (s * s * ((r1 - r2) * (r1 - r2))) by ring.
    apply Rmult_lt_compat_l; [nra | exact Hw]. }
  apply (rcone_min_unique (smul s a) (smul s b) (s * r1) (s * r2) (smul s p)).
  - apply rcone_is_min. exact Hw'.
  - apply rcone_min_scale. lra. apply rcone_is_min. exact Hw.
Qed.
