(* C19 — sdf.VarryingThicknessLine (a poly-line whose thickness varies from point to point): the generated function
   is the Union of the rounded cones between consecutive points; it panics exactly on fewer than two points; it is
   negative exactly inside one of the swept solids, and 1-Lipschitz — for EVERY list of at least two points (repeated
   points, nested radii included: the rounded-cone theorems used are the total ones of SdfTotalProofs.v). *)
From Coq Require Import Reals Lra Lia List ZArith.
From PF Require Import Geom.Vec Geom.SdfSpec Geom.SdfBase Geom.SdfProofs Geom.SdfTotalProofs.
From PFGen Require Import Sdf.
Import ListNotations.
Local Open Scope R_scope.

(* ---------------------------------------------------------------- specification vocabulary *)
(* the pairs of consecutive elements of a list:  adjacent [x0; x1; x2; ...] = [(x0,x1); (x1,x2); ...] *)
Fixpoint adjacent {A : Type} (l : list A) : list (A * A) :=
  match l with
  | u :: ((w :: _) as rest) => (u, w) :: adjacent rest
  | _ => []
  end.

(* the rounded cone between two line points, and the cones of a poly-line *)
Definition vline_cone (uw : LinePoint R * LinePoint R) : pt -> R :=
  RoundedCone (LinePoint_Point (fst uw)) (LinePoint_Point (snd uw)) (LinePoint_Radius (fst uw)) (LinePoint_Radius (snd uw)).
Definition vline_cones (pts : list (LinePoint R)) : list (pt -> R) := map vline_cone (adjacent pts).

(* ---------------------------------------------------------------- lists *)
Lemma adjacent_length {A} (l : list A) : length (adjacent l) = (length l - 1)%nat.
Proof.
  induction l as [|u [|w rest] IH]; try reflexivity.
  change (adjacent (u :: w :: rest)) with ((u, w) :: adjacent (w :: rest)).
  cbn [length] in *. lia.
Qed.

(* the index form produced by the translator (nth (i-1), nth i over i = 1 .. length-1) enumerates the adjacent pairs *)
Lemma adjacent_by_index {A B} (g : A -> A -> B) (z : A) : forall l : list A,
  map (fun i : nat => g (nth (i - 1) l z) (nth i l z)) (seq 1 (length l - 1)) =
  map (fun uw => g (fst uw) (snd uw)) (adjacent l).
Proof.
  induction l as [|u [|w rest] IH]; try reflexivity.
  change (adjacent (u :: w :: rest)) with ((u, w) :: adjacent (w :: rest)).
  replace (length (u :: w :: rest) - 1)%nat with (S (length (w :: rest) - 1)) by (cbn [length]; lia).
  cbn [seq map fst snd]. f_equal.
  rewrite <- IH, <- seq_shift, map_map. apply map_ext_in.
  intros i Hi. apply in_seq in Hi. destruct i as [|j]; [lia|].
  replace (S (S j) - 1)%nat with (S j) by lia. replace (S j - 1)%nat with j by lia. reflexivity.
Qed.

Lemma adjacent_nonempty {A} (l : list A) : (2 <= length l)%nat -> adjacent l <> [].
Proof. destruct l as [|u [|w rest]]; cbn [length]; try lia. intros _. discriminate. Qed.

(* ---------------------------------------------------------------- the generated function *)
(* the list of closures built by the loop of the Go function (after cbv zeta of the generated term) *)
Lemma vline_gen_cones (pts : list (LinePoint R)) :
  map (fun i : nat =>
         RoundedCone (LinePoint_Point (nth (i - 1) pts (mkLinePoint v3_zero (cofZ 0))))
                     (LinePoint_Point (nth i pts (mkLinePoint v3_zero (cofZ 0))))
                     (LinePoint_Radius (nth (i - 1) pts (mkLinePoint v3_zero (cofZ 0))))
                     (LinePoint_Radius (nth i pts (mkLinePoint v3_zero (cofZ 0)))))
      (seq 1 (length pts - 1)) = vline_cones pts.
Proof.
  exact (adjacent_by_index
           (fun u w => RoundedCone (LinePoint_Point u) (LinePoint_Point w) (LinePoint_Radius u) (LinePoint_Radius w))
           (mkLinePoint v3_zero (cofZ 0)) pts).
Qed.

(* the other loop shape the translator knows (`prev := xs[0]; for i, x := range xs[1:] { ys[i] = E prev x; prev = x }`):
   indices i+0, i+1 over i = 0 .. length-2 *)
Lemma adjacent_by_index0 {A B} (g : A -> A -> B) (z : A) (l : list A) :
  map (fun i : nat => g (nth (i + 0) l z) (nth (i + 1) l z)) (seq 0 (length l - 1)) =
  map (fun uw => g (fst uw) (snd uw)) (adjacent l).
Proof.
  rewrite <- (adjacent_by_index g z l), <- seq_shift, map_map.
  apply map_ext. intros i. rewrite Nat.add_0_r, Nat.add_1_r.
  replace (S i - 1)%nat with i by lia. reflexivity.
Qed.

Lemma vline_gen_cones0 (pts : list (LinePoint R)) :
  map (fun i : nat =>
         RoundedCone (LinePoint_Point (nth (i + 0) pts (mkLinePoint v3_zero (cofZ 0))))
                     (LinePoint_Point (nth (i + 1) pts (mkLinePoint v3_zero (cofZ 0))))
                     (LinePoint_Radius (nth (i + 0) pts (mkLinePoint v3_zero (cofZ 0))))
                     (LinePoint_Radius (nth (i + 1) pts (mkLinePoint v3_zero (cofZ 0)))))
      (seq 0 (length pts - 1)) = vline_cones pts.
Proof.
  exact (adjacent_by_index0
           (fun u w => RoundedCone (LinePoint_Point u) (LinePoint_Point w) (LinePoint_Radius u) (LinePoint_Radius w))
           (mkLinePoint v3_zero (cofZ 0)) pts).
Qed.

Lemma vline_cones_nonempty pts : (2 <= length pts)%nat -> Union_panics (vline_cones pts) = false.
Proof.
  intros H. apply Union_panics_iff. unfold vline_cones. intros E. apply map_eq_nil in E.
  exact (adjacent_nonempty pts H E).
Qed.

Theorem vline_panics_iff (pts : list (LinePoint R)) :
  VarryingThicknessLine_panics pts = false <-> (2 <= length pts)%nat.
Proof.
  unfold VarryingThicknessLine_panics. cbv zeta.
  destruct (Z.ltb_spec (Z.of_nat (length pts)) 2) as [H | H].
  - split; [discriminate | lia].
  - first [rewrite vline_gen_cones | rewrite vline_gen_cones0]. split; [intros _; lia | apply vline_cones_nonempty].
Qed.

Theorem vline_is_union (pts : list (LinePoint R)) p : (2 <= length pts)%nat ->
  VarryingThicknessLine pts p = Union (vline_cones pts) p.
Proof.
  intros H. unfold VarryingThicknessLine. cbv zeta.
  destruct (Z.ltb_spec (Z.of_nat (length pts)) 2) as [H' | _]; [lia|].
  first [rewrite vline_gen_cones | rewrite vline_gen_cones0]. reflexivity.
Qed.

Theorem vline_sign (pts : list (LinePoint R)) p : (2 <= length pts)%nat ->
  (VarryingThicknessLine pts p < 0 <->
   exists u w, In (u, w) (adjacent pts) /\
     rcone_int (LinePoint_Point u) (LinePoint_Point w) (LinePoint_Radius u) (LinePoint_Radius w) p).
Proof.
  intros H. rewrite vline_is_union by exact H.
  rewrite union_sign_nary by (apply vline_cones_nonempty; exact H).
  unfold vline_cones. split.
  - intros [f [Hin Hf]]. apply in_map_iff in Hin. destruct Hin as [[u w] [<- Huw]].
    exists u, w. split; [exact Huw|]. unfold vline_cone in Hf. cbn [fst snd] in Hf. apply (rcone_sign_total _ _ _ _ p). exact Hf.
  - intros [u [w [Huw Hint]]]. exists (vline_cone (u, w)). split.
    + apply in_map. exact Huw.
    + unfold vline_cone. cbn [fst snd]. apply (rcone_sign_total _ _ _ _ p). exact Hint.
Qed.

Theorem vline_lipschitz (pts : list (LinePoint R)) : (2 <= length pts)%nat ->
  lipschitz1 (VarryingThicknessLine pts).
Proof.
  intros H. apply (lipschitz1_ext (Union (vline_cones pts))).
  - intros p. symmetry. apply vline_is_union. exact H.
  - apply union_lipschitz_nary. apply vline_cones_nonempty; exact H.
    intros f Hin. unfold vline_cones in Hin. apply in_map_iff in Hin. destruct Hin as [uw [<- _]].
    unfold vline_cone. apply rcone_lipschitz_total.
Qed.
