(* C19 — whole field EXPRESSIONS: every constructor of math/sdf as a node of an expression tree; the denotation of a
   tree is built from the GENERATED functions (coq/gen/Sdf.v) only.  For every well-formed tree (the constructors do not
   panic, plane normals are unit):
     tree_lipschitz : the field is 1-Lipschitz;
     tree_sign      : the set where the field is negative / positive is the set-algebra expression of the tree
                      (union = exists, intersection = forall, difference = inside the base and strictly outside the
                      subtrahend, translation = shifted set) over the primitive solids of Geom/SdfSpec.v.
   Plus the n-ary "positive side" lemmas of the operators, and two refutations of over-strong readings. *)
From Coq Require Import Reals Lra Lia List ZArith.
From PF Require Import Geom.Vec Geom.SdfSpec Geom.SdfBase Geom.SdfProofs Geom.SdfCapsuleProofs Geom.SdfBoxProofs
  Geom.SdfConeProofs Geom.SdfTotalProofs Geom.SdfVLineProofs.
From PFGen Require Import Sdf SdfGeo.
Import ListNotations.
Local Open Scope R_scope.

(* ================================================================ expressions *)
Inductive tree :=
  | TSphere (c : pt) (r : R)
  | TBox (c b : pt)
  | TRBox (c b : pt) (r : R)
  | TLine (a b : pt) (r : R)
  | TPlane (pos n : pt) (h : R)
  | TRCyl (pos : pt) (rad th bh : R)
  | TRCone (a b : pt) (r1 r2 : R)
  | TVLine (pts : list (LinePoint R))
  | TUnion (l : list tree)
  | TIntersect (l : list tree)
  | TSubtract (a b : tree)
  | TTranslate (t : tree) (off : pt).

(* "every element" / "some element" of a list, by structural recursion on the list with the predicate as a parameter
   OUTSIDE the fix (the form Coq's guard checker unfolds, like List.map), so that they can be used in fixpoints over
   the nested inductive [tree] *)
Definition all_list {A : Type} (P : A -> Prop) : list A -> Prop :=
  fix go (l : list A) : Prop := match l with [] => True | x :: r => P x /\ go r end.
Definition any_list {A : Type} (P : A -> Prop) : list A -> Prop :=
  fix go (l : list A) : Prop := match l with [] => False | x :: r => P x \/ go r end.

Lemma all_list_iff {A} (P : A -> Prop) l : all_list P l <-> forall x, In x l -> P x.
Proof.
  induction l as [|y r IH]; cbn [all_list In].
  - split; [intros _ x [] | auto].
  - rewrite IH. split.
    + intros [Hy Hr] x [<- | Hin]; auto.
    + intros H. split; [apply H; left; auto | intros x Hin; apply H; right; auto].
Qed.
Lemma any_list_iff {A} (P : A -> Prop) l : any_list P l <-> exists x, In x l /\ P x.
Proof.
  induction l as [|y r IH]; cbn [any_list In].
  - split; [intros [] | intros [x [[] _]]].
  - rewrite IH. split.
    + intros [Hy | [x [Hin Hx]]]; [exists y | exists x]; auto.
    + intros [x [[<- | Hin] Hx]]; [left; auto | right; exists x; auto].
Qed.

(* the denotation: the generated Go functions, nothing else *)
Fixpoint den (t : tree) : pt -> R :=
  match t with
  | TSphere c r => Sphere c r
  | TBox c b => Box c b
  | TRBox c b r => RoundedBox c b r
  | TLine a b r => Line a b r
  | TPlane o n h => Plane o n h
  | TRCyl o rad th bh => RoundedCylinder o rad th bh
  | TRCone a b r1 r2 => RoundedCone a b r1 r2
  | TVLine pts => VarryingThicknessLine pts
  | TUnion l => Union (map den l)
  | TIntersect l => Intersect (map den l)
  | TSubtract a b => Subtract (den a) (den b)
  | TTranslate t off => Translate (den t) off
  end.

(* well-formed for the Lipschitz theorem: no constructor panics (Union / Intersect of no field, poly-line of fewer than
   two points) and plane normals are unit vectors; no other condition on any parameter *)
Fixpoint wf (t : tree) : Prop :=
  match t with
  | TPlane _ n _ => norm n = 1
  | TVLine pts => (2 <= length pts)%nat
  | TUnion l => l <> [] /\ all_list wf l
  | TIntersect l => l <> [] /\ all_list wf l
  | TSubtract a b => wf a /\ wf b
  | TTranslate t _ => wf t
  | _ => True
  end.

(* induction principle for the nested inductive: the list cases get the predicate on every element *)
Definition tree_ind' (P : tree -> Prop)
  (HS : forall c r, P (TSphere c r))
  (HB : forall c b, P (TBox c b))
  (HRB : forall c b r, P (TRBox c b r))
  (HL : forall a b r, P (TLine a b r))
  (HP : forall o n h, P (TPlane o n h))
  (HRC : forall o rad th bh, P (TRCyl o rad th bh))
  (HCo : forall a b r1 r2, P (TRCone a b r1 r2))
  (HV : forall pts, P (TVLine pts))
  (HU : forall l, all_list P l -> P (TUnion l))
  (HI : forall l, all_list P l -> P (TIntersect l))
  (HSub : forall a b, P a -> P b -> P (TSubtract a b))
  (HT : forall t off, P t -> P (TTranslate t off)) : forall t, P t :=
  fix F (t : tree) : P t :=
    match t as t0 return P t0 with
    | TSphere c r => HS c r
    | TBox c b => HB c b
    | TRBox c b r => HRB c b r
    | TLine a b r => HL a b r
    | TPlane o n h => HP o n h
    | TRCyl o rad th bh => HRC o rad th bh
    | TRCone a b r1 r2 => HCo a b r1 r2
    | TVLine pts => HV pts
    | TUnion l =>
        HU l ((fix G (l : list tree) : all_list P l :=
                 match l as l0 return all_list P l0 with [] => I | x :: r => conj (F x) (G r) end) l)
    | TIntersect l =>
        HI l ((fix G (l : list tree) : all_list P l :=
                 match l as l0 return all_list P l0 with [] => I | x :: r => conj (F x) (G r) end) l)
    | TSubtract a b => HSub a b (F a) (F b)
    | TTranslate t off => HT t off (F t)
    end.

Lemma map_den_nonempty (l : list tree) : l <> [] -> map den l <> [].
Proof. intros H E. apply map_eq_nil in E. auto. Qed.

(* ================================================================ (1) every well-formed expression is 1-Lipschitz *)
Theorem tree_lipschitz : forall t, wf t -> lipschitz1 (den t).
Proof.
  apply (tree_ind' (fun t => wf t -> lipschitz1 (den t))).
  - intros c r _. apply sphere_lipschitz.
  - intros c b _. apply box_lipschitz.
  - intros c b r _. apply rounded_box_lipschitz.
  - intros a b r _. apply capsule_lipschitz_total.
  - intros o n h Hn. apply plane_lipschitz. exact Hn.
  - intros o rad th bh _. apply rounded_cylinder_lipschitz.
  - intros a b r1 r2 _. apply rcone_lipschitz_total.
  - intros pts H. apply vline_lipschitz. exact H.
  - intros l IH [Hne W]. change (den (TUnion l)) with (Union (map den l)).
    apply union_lipschitz_nary. apply Union_panics_iff, map_den_nonempty, Hne.
    intros f Hin. apply in_map_iff in Hin. destruct Hin as [x [<- Hx]].
    apply (proj1 (all_list_iff _ l) IH x Hx). apply (proj1 (all_list_iff _ l) W x Hx).
  - intros l IH [Hne W]. change (den (TIntersect l)) with (Intersect (map den l)).
    apply intersect_lipschitz_nary. apply Intersect_panics_iff, map_den_nonempty, Hne.
    intros f Hin. apply in_map_iff in Hin. destruct Hin as [x [<- Hx]].
    apply (proj1 (all_list_iff _ l) IH x Hx). apply (proj1 (all_list_iff _ l) W x Hx).
  - intros a b IHa IHb [Wa Wb]. change (den (TSubtract a b)) with (Subtract (den a) (den b)).
    apply min_max_lipschitz; auto.
  - intros t off IH W. change (den (TTranslate t off)) with (Translate (den t) off).
    apply translate_lipschitz. apply IH. exact W.
Qed.

(* ================================================================ the positive side of the operators, arbitrary operands *)
Lemma fold_min_pos (rest : list (pt -> R)) p : forall a,
  0 < fold_left (fun acc g => Rmin acc (g p)) rest a <-> 0 < a /\ forall g, In g rest -> 0 < g p.
Proof.
  induction rest as [|g rest IH]; intros a; cbn [fold_left].
  - split; [intros; split; [auto | intros g []] | intros [H _]; auto].
  - rewrite IH. split.
    + intros [H Hall]. unfold Rmin in H. destruct (Rle_dec a (g p)).
      * split; [lra |]. intros h [<- | Hin]; [lra | auto].
      * split; [lra |]. intros h [<- | Hin]; [lra | auto].
    + intros [H Hall]. split.
      * assert (Hg := Hall g (or_introl eq_refl)). unfold Rmin. destruct (Rle_dec a (g p)); lra.
      * intros h Hin. apply Hall. right. exact Hin.
Qed.

Lemma fold_max_pos (rest : list (pt -> R)) p : forall a,
  0 < fold_left (fun acc g => Rmax acc (g p)) rest a <-> 0 < a \/ exists g, In g rest /\ 0 < g p.
Proof.
  induction rest as [|g rest IH]; intros a; cbn [fold_left].
  - split; [auto | intros [H | [g [[] _]]]; auto].
  - rewrite IH. split.
    + intros [H | [h [Hin Hh]]].
      * unfold Rmax in H. destruct (Rle_dec a (g p)); [right; exists g; split; [left; auto | lra] | left; lra].
      * right. exists h. split; [right; auto | auto].
    + intros [H | [h [[-> | Hin] Hh]]].
      * left. unfold Rmax. destruct (Rle_dec a (g p)); lra.
      * left. unfold Rmax. destruct (Rle_dec a (h p)); lra.
      * right. exists h. auto.
Qed.

(* strictly outside a union = strictly outside every operand *)
Theorem union_pos_nary (fs : list (pt -> R)) p :
  Union_panics fs = false -> (0 < Union fs p <-> forall f, In f fs -> 0 < f p).
Proof.
  intros Hne. apply Union_panics_iff in Hne. destruct fs as [|f rest]; [congruence|].
  rewrite Union_cons, fold_min_pos. split.
  - intros [H Hall] g [<- | Hin]; auto.
  - intros Hall. split; [apply Hall; left; auto | intros g Hin; apply Hall; right; auto].
Qed.

(* strictly outside an intersection = strictly outside some operand *)
Theorem intersect_pos_nary (fs : list (pt -> R)) p :
  Intersect_panics fs = false -> (0 < Intersect fs p <-> exists f, In f fs /\ 0 < f p).
Proof.
  intros Hne. apply Intersect_panics_iff in Hne. destruct fs as [|f rest]; [congruence|].
  rewrite Intersect_cons, fold_max_pos. split.
  - intros [H | [g [Hin Hg]]]; [exists f | exists g]; split; auto; [left | right]; auto.
  - intros [g [[<- | Hin] Hg]]; [left; auto | right; exists g; auto].
Qed.

(* strictly outside a difference = strictly outside the base, or inside the subtrahend *)
Theorem subtract_pos (f g : pt -> R) p : 0 < Subtract f g p <-> 0 < f p \/ g p < 0.
Proof. rewrite Subtract_eq. unfold Rmax. destruct (Rle_dec (f p) (- g p)); split; intros; lra. Qed.

(* ================================================================ (2) sign as set algebra *)
(* strictly outside a rounded cone: outside every swept ball *)
Definition rcone_out (a b : pt) (r1 r2 : R) (p : pt) : Prop :=
  forall s, 0 <= s <= 1 -> rcone_radius r1 r2 s < dist p (rcone_centre a b s).

(* [neg t] = the interior, [pos t] = the strict exterior of the solid described by t, by structural recursion, as
   point sets of the specification (Geom/SdfSpec.v); the operator cases do not mention the fields at all.
   Primitive exteriors: sphere  r < |p - c|;  box  not in the closed box;  rounded box / capsule: farther than r from
   every point of the box / segment;  plane  plane_fn > 0;  rounded cone: outside every swept ball;  poly-line: outside
   every cone;  rounded cylinder: th < rcyl_excess (the length of the clamped (radial, axial) offset from the core
   cylinder, SdfBoxProofs.rcyl_excess — pure geometry, not the generated function, but no 3-D point-set form of the
   exterior is proved for it here). *)
Fixpoint neg (t : tree) (p : pt) {struct t} : Prop :=
  match t with
  | TSphere c r => ball_int c r p
  | TBox c b => box_int c b p
  | TRBox c b r => rounded_box_int c b r p
  | TLine a b r => capsule_int a b r p
  | TPlane o n h => halfspace_int o n h p
  | TRCyl o rad th bh => rcyl_int o rad th bh p
  | TRCone a b r1 r2 => rcone_int a b r1 r2 p
  | TVLine pts => exists u w, In (u, w) (adjacent pts) /\
      rcone_int (LinePoint_Point u) (LinePoint_Point w) (LinePoint_Radius u) (LinePoint_Radius w) p
  | TUnion l => any_list (fun x => neg x p) l
  | TIntersect l => all_list (fun x => neg x p) l
  | TSubtract a b => neg a p /\ pos b p
  | TTranslate t off => neg t (psub p off)
  end
with pos (t : tree) (p : pt) {struct t} : Prop :=
  match t with
  | TSphere c r => r < dist p c
  | TBox c b => box_outside c b p
  | TRBox c b r => forall s, box_solid c b s -> r < dist p s
  | TLine a b r => forall s, segment a b s -> r < dist p s
  | TPlane o n h => 0 < plane_fn o n h p
  | TRCyl o rad th bh => th < rcyl_excess o rad th bh p
  | TRCone a b r1 r2 => rcone_out a b r1 r2 p
  | TVLine pts => forall u w, In (u, w) (adjacent pts) ->
      rcone_out (LinePoint_Point u) (LinePoint_Point w) (LinePoint_Radius u) (LinePoint_Radius w) p
  | TUnion l => all_list (fun x => pos x p) l
  | TIntersect l => any_list (fun x => pos x p) l
  | TSubtract a b => pos a p \/ neg b p
  | TTranslate t off => pos t (psub p off)
  end.

(* the operator cases in quantifier form *)
Lemma neg_union l p : neg (TUnion l) p <-> exists x, In x l /\ neg x p.
Proof. apply (any_list_iff (fun x => neg x p)). Qed.
Lemma pos_union l p : pos (TUnion l) p <-> forall x, In x l -> pos x p.
Proof. apply (all_list_iff (fun x => pos x p)). Qed.
Lemma neg_intersect l p : neg (TIntersect l) p <-> forall x, In x l -> neg x p.
Proof. apply (all_list_iff (fun x => neg x p)). Qed.
Lemma pos_intersect l p : pos (TIntersect l) p <-> exists x, In x l /\ pos x p.
Proof. apply (any_list_iff (fun x => pos x p)). Qed.
Lemma neg_subtract a b p : neg (TSubtract a b) p <-> neg a p /\ pos b p.
Proof. reflexivity. Qed.
Lemma pos_subtract a b p : pos (TSubtract a b) p <-> pos a p \/ neg b p.
Proof. reflexivity. Qed.
Lemma neg_translate t off p : neg (TTranslate t off) p <-> neg t (psub p off).
Proof. reflexivity. Qed.
Lemma pos_translate t off p : pos (TTranslate t off) p <-> pos t (psub p off).
Proof. reflexivity. Qed.

(* the hypotheses of the primitives' sign theorems, and no panic *)
Fixpoint wf_sign (t : tree) : Prop :=
  match t with
  | TRBox _ b r => 0 <= v3x b /\ 0 <= v3y b /\ 0 <= v3z b /\ 0 < r
  | TRCyl _ rad th bh => 0 < th /\ 0 <= 2 * rad - th /\ 0 <= bh
  | TVLine pts => (2 <= length pts)%nat
  | TUnion l => l <> [] /\ all_list wf_sign l
  | TIntersect l => l <> [] /\ all_list wf_sign l
  | TSubtract a b => wf_sign a /\ wf_sign b
  | TTranslate t _ => wf_sign t
  | _ => True
  end.

(* positive = neither inside nor on the surface *)
Lemma pos_of_sign (f : pt -> R) (Int Surf : pt -> Prop) p :
  sdf_sign f Int Surf -> (0 < f p <-> ~ Int p /\ ~ Surf p).
Proof.
  intros H. destruct (H p) as [[A1 A2] [B1 B2]]. split.
  - intros Hp. split; intros X; [apply A2 in X | apply B2 in X]; lra.
  - intros [N1 N2]. destruct (Rtotal_order (f p) 0) as [L | [E | G]]; [elim N1; auto | elim N2; auto | lra].
Qed.

Lemma box_int_solid c b p : box_int c b p -> box_solid c b p.
Proof. unfold box_int, box_solid. intros [? [? ?]]. repeat split; lra. Qed.

Lemma box_pos c b p : 0 < Box c b p <-> box_outside c b p.
Proof.
  rewrite (pos_of_sign _ _ _ p (box_sign c b)). unfold box_outside, box_surf. split.
  - intros [N1 N2] S. apply N2. split; auto.
  - intros S. split; [intros I; apply S, box_int_solid, I | intros [S' _]; auto].
Qed.

Lemma rounded_box_pos c b r p : 0 <= v3x b -> 0 <= v3y b -> 0 <= v3z b -> 0 < r ->
  (0 < RoundedBox c b r p <-> forall s, box_solid c b s -> r < dist p s).
Proof.
  intros Hx Hy Hz Hr. rewrite rounded_box_eq. split.
  - intros H. assert (Hni : ~ box_int c b p).
    { intros I. apply (proj1 (box_sign c b p)) in I. lra. }
    destruct (box_exact_outside c b p Hx Hy Hz Hni) as [_ [[_ Hn] Ed]].
    intros s Ss. specialize (Hn s Ss). lra.
  - intros H. assert (Hni : ~ box_int c b p).
    { intros I. specialize (H p (box_int_solid _ _ _ I)). rewrite dist_refl in H. lra. }
    destruct (box_exact_outside c b p Hx Hy Hz Hni) as [[Hs _] [_ Ed]].
    specialize (H _ Hs). lra.
Qed.

Lemma capsule_pos a b r p : 0 < Line a b r p <-> forall s, segment a b s -> r < dist p s.
Proof.
  rewrite Line_eq. destruct (capsule_nearest_total a b p) as [Sc Hn]. split.
  - intros H s Ss. specialize (Hn s Ss). lra.
  - intros H. specialize (H _ Sc). lra.
Qed.

Lemma rcyl_pos o rad th bh p : 0 < th ->
  (0 < RoundedCylinder o rad th bh p <-> th < rcyl_excess o rad th bh p).
Proof.
  intros Hth. destruct (rounded_cylinder_sign_rect o rad th bh p Hth) as [A B]. split.
  - intros H. destruct (Rtotal_order (rcyl_excess o rad th bh p) th) as [L | [E | G]];
      [apply A in L; lra | apply B in E; lra | lra].
  - intros H. destruct (Rtotal_order (RoundedCylinder o rad th bh p) 0) as [L | [E | G]];
      [apply A in L; lra | apply B in E; lra | lra].
Qed.

Lemma rcone_pos a b r1 r2 p : 0 < RoundedCone a b r1 r2 p <-> rcone_out a b r1 r2 p.
Proof.
  destruct (rcone_is_min_total a b r1 r2 p) as [[s [Hs Es]] Hmin]. unfold rcone_out. split.
  - intros H s' Hs'. specialize (Hmin s' Hs'). lra.
  - intros H. specialize (H s Hs). lra.
Qed.

Lemma vline_pos (pts : list (LinePoint R)) p : (2 <= length pts)%nat ->
  (0 < VarryingThicknessLine pts p <->
   forall u w, In (u, w) (adjacent pts) ->
     rcone_out (LinePoint_Point u) (LinePoint_Point w) (LinePoint_Radius u) (LinePoint_Radius w) p).
Proof.
  intros H. rewrite vline_is_union by exact H.
  rewrite union_pos_nary by (apply vline_cones_nonempty; exact H).
  unfold vline_cones. split.
  - intros Hall u w Huw. apply rcone_pos.
    apply (Hall (vline_cone (u, w))). apply in_map. exact Huw.
  - intros Hall f Hin. apply in_map_iff in Hin. destruct Hin as [[u w] [<- Huw]].
    unfold vline_cone. cbn [fst snd]. apply rcone_pos. apply Hall. exact Huw.
Qed.

Theorem tree_sign : forall t, wf_sign t ->
  forall p, (den t p < 0 <-> neg t p) /\ (0 < den t p <-> pos t p).
Proof.
  apply (tree_ind' (fun t => wf_sign t -> forall p, (den t p < 0 <-> neg t p) /\ (0 < den t p <-> pos t p))).
  - intros c r _ p. cbn [den neg pos]. rewrite Sphere_eq. unfold ball_int. split; split; intros; lra.
  - intros c b _ p. cbn [den neg pos]. split; [apply (box_sign c b p) | apply box_pos].
  - intros c b r [Hx [Hy [Hz Hr]]] p. cbn [den neg pos].
    split; [apply rounded_box_sign | apply rounded_box_pos]; auto.
  - intros a b r _ p. cbn [den neg pos]. split; [apply (capsule_sign_total a b r p) | apply capsule_pos].
  - intros o n h _ p. cbn [den neg pos]. rewrite Plane_eq. unfold halfspace_int. tauto.
  - intros o rad th bh [Hth [Hc Hb]] p. cbn [den neg pos].
    split; [apply rounded_cylinder_sign | apply rcyl_pos]; auto.
  - intros a b r1 r2 _ p. cbn [den neg pos]. split; [apply (rcone_sign_total a b r1 r2 p) | apply rcone_pos].
  - intros pts H p. cbn [den neg pos]. split; [apply vline_sign | apply vline_pos]; exact H.
  - intros l IH [Hne W] p.
    assert (K : forall x, In x l -> forall q, (den x q < 0 <-> neg x q) /\ (0 < den x q <-> pos x q)).
    { intros x Hx. apply (proj1 (all_list_iff _ l) IH x Hx). apply (proj1 (all_list_iff _ l) W x Hx). }
    assert (Hp : Union_panics (map den l) = false) by (apply Union_panics_iff, map_den_nonempty, Hne).
    change (den (TUnion l)) with (Union (map den l)).
    rewrite neg_union, pos_union, (union_sign_nary _ p Hp), (union_pos_nary _ p Hp). split; split.
    + intros [f [Hin Hf]]. apply in_map_iff in Hin. destruct Hin as [x [<- Hx]].
      exists x. split; [exact Hx | apply (K x Hx p); exact Hf].
    + intros [x [Hx Hn]]. exists (den x). split; [apply in_map; exact Hx | apply (K x Hx p); exact Hn].
    + intros Hall x Hx. apply (K x Hx p). apply Hall. apply in_map. exact Hx.
    + intros Hall f Hin. apply in_map_iff in Hin. destruct Hin as [x [<- Hx]]. apply (K x Hx p). apply Hall. exact Hx.
  - intros l IH [Hne W] p.
    assert (K : forall x, In x l -> forall q, (den x q < 0 <-> neg x q) /\ (0 < den x q <-> pos x q)).
    { intros x Hx. apply (proj1 (all_list_iff _ l) IH x Hx). apply (proj1 (all_list_iff _ l) W x Hx). }
    assert (Hp : Intersect_panics (map den l) = false) by (apply Intersect_panics_iff, map_den_nonempty, Hne).
    change (den (TIntersect l)) with (Intersect (map den l)).
    rewrite neg_intersect, pos_intersect, (intersect_sign_nary _ p Hp), (intersect_pos_nary _ p Hp). split; split.
    + intros Hall x Hx. apply (K x Hx p). apply Hall. apply in_map. exact Hx.
    + intros Hall f Hin. apply in_map_iff in Hin. destruct Hin as [x [<- Hx]]. apply (K x Hx p). apply Hall. exact Hx.
    + intros [f [Hin Hf]]. apply in_map_iff in Hin. destruct Hin as [x [<- Hx]].
      exists x. split; [exact Hx | apply (K x Hx p); exact Hf].
    + intros [x [Hx Hn]]. exists (den x). split; [apply in_map; exact Hx | apply (K x Hx p); exact Hn].
  - intros a b IHa IHb [Wa Wb] p. change (den (TSubtract a b)) with (Subtract (den a) (den b)).
    rewrite neg_subtract, pos_subtract, subtract_sign, subtract_pos.
    destruct (IHa Wa p) as [A1 A2]. destruct (IHb Wb p) as [B1 B2]. tauto.
  - intros t off IH W p. change (den (TTranslate t off)) with (Translate (den t) off).
    rewrite translate_spec, neg_translate, pos_translate. exact (IH W (psub p off)).
Qed.

(* inside and strictly outside are disjoint, for every well-formed expression (a corollary: no real is < 0 and > 0) *)
Corollary tree_neg_pos_disjoint : forall t, wf_sign t -> forall p, ~ (neg t p /\ pos t p).
Proof.
  intros t W p [N P]. destruct (tree_sign t W p) as [A B]. apply A in N. apply B in P. lra.
Qed.

(* ================================================================ (3) refuted readings *)
(* "Plane returns the distance to the plane" is false for a non-unit normal: normal (0,2,0), the point (0,1,0) is at
   distance 1 from the plane y = 0, the function returns 2 *)
Theorem plane_exact_nonunit_refuted :
  exists pos n h p, ~ dist_to (plane_surf pos n h) p (Rabs (Plane pos n h p)).
Proof.
  exists (P3 0 0 0), (P3 0 2 0), 0, (P3 0 1 0). intros [c [[Sc Hn] Ed]].
  rewrite Plane_eq in Ed.
  assert (V : plane_fn (P3 0 0 0) (P3 0 2 0) 0 (P3 0 1 0) = 2)
    by (unfold plane_fn, dot, psub, P3; cbn [v3x v3y v3z]; ring).
  rewrite V in Ed. rewrite Rabs_right in Ed by lra.
  assert (S0 : plane_surf (P3 0 0 0) (P3 0 2 0) 0 (P3 0 0 0))
    by (unfold plane_surf, plane_fn, dot, psub, P3; cbn [v3x v3y v3z]; ring).
  specialize (Hn _ S0).
  assert (D : dist (P3 0 1 0) (P3 0 0 0) = 1).
  { unfold dist. apply norm_eq_of_sq; [lra|]. unfold dot, psub, P3; cbn [v3x v3y v3z]. ring. }
  lra.
Qed.

(* "the difference is negative inside the base and not inside the subtrahend" is false on the subtrahend's boundary:
   there the value is 0.  (The exact set is  f < 0 /\ 0 < g : subtract_sign.) *)
Theorem subtract_sign_closed_refuted :
  exists (f g : pt -> R) p, (f p < 0 /\ ~ g p < 0) /\ ~ Subtract f g p < 0.
Proof.
  exists (fun _ => -1), (fun _ => 0), (P3 0 0 0). split; [split; lra|].
  rewrite Subtract_eq. unfold Rmax. destruct (Rle_dec (-1) (- 0)); lra.
Qed.
