(* C19 — rounded cone.  For a <> b and |b-a|^2 > (r1-r2)^2 the generated RoundedCone is the minimum over
   s in [0,1] of |p - c(s)| - r(s)  (c(s) = a + s (b-a), r(s) = r1 + s (r2-r1)): the signed distance of the
   union of the swept balls.  Each of the three branches of the Go code is the value at s = 1, s = 0 or at the
   interior stationary point, and the branch conditions select the one that is minimal.  Sign, exactness (in
   the swept-sphere sense) and the 1-Lipschitz bound follow. *)
From Coq Require Import Reals Lra Lia Psatz List ZArith.
From PF Require Import Geom.Vec Geom.SdfSpec Geom.SdfBase Geom.SdfProofs.
From PFGen Require Import Sdf.
Local Open Scope R_scope.

(* ---------------------------------------------------------------- real-number lemmas *)
Lemma sqrt_sq_eq g t : 0 <= g -> g * g = t -> sqrt t = g.
Proof. intros Hg <-. apply sqrt_square. exact Hg. Qed.

Lemma sq_lt_of_lt a b : 0 <= a -> a < b -> a * a < b * b.
Proof. intros. nra. Qed.

(* slope of u |-> sqrt (l2 (xi^2 + u^2)) at u is u l2 / g; it dominates rr when u A > rr xi *)
Lemma key_slope A rr xi u g : 0 < A -> 0 <= xi -> 0 <= g ->
  g * g = (A * A + rr * rr) * (xi * xi + u * u) -> rr * xi < u * A -> rr * g <= u * (A * A + rr * rr).
Proof.
  intros HA Hxi Hg Eg Hc. set (l2 := A * A + rr * rr) in *.
  assert (Hl2 : 0 < l2) by (unfold l2; nra).
  destruct (Rle_dec 0 rr) as [Hrr | Hrr].
  - (* rr >= 0: then u > 0 *)
    assert (Hu : 0 < u) by nra.
    apply sq_le_le. nra.
    replace (rr * g * (rr * g)) with (rr * rr * (g * g)) by ring. rewrite Eg.
    assert (H1 : (rr * xi) * (rr * xi) < (u * A) * (u * A)) by (apply sq_lt_of_lt; nra).
    assert (H2 : rr * rr * (xi * xi + u * u) <= u * u * l2) by (unfold l2; nra).
    replace (u * l2 * (u * l2)) with (l2 * (u * u * l2)) by ring.
    replace (rr * rr * (l2 * (xi * xi + u * u))) with (l2 * (rr * rr * (xi * xi + u * u))) by ring.
    apply Rmult_le_compat_l; lra.
  - assert (Hrr' : rr < 0) by lra.
    destruct (Rle_dec 0 u) as [Hu | Hu].
    + assert (0 <= u * l2) by nra. assert (rr * g <= 0) by nra. lra.
    + assert (Hu' : u < 0) by lra.
      (* (-u) l2 <= (-rr) g *)
      assert (G : (- u) * l2 <= (- rr) * g).
      { apply sq_le_le. nra.
        replace (- rr * g * (- rr * g)) with (rr * rr * (g * g)) by ring. rewrite Eg.
        assert (H1 : ((- u) * A) * ((- u) * A) < ((- rr) * xi) * ((- rr) * xi)) by (apply sq_lt_of_lt; nra).
        assert (H2 : u * u * l2 <= rr * rr * (xi * xi + u * u)) by (unfold l2; nra).
        replace (- u * l2 * (- u * l2)) with (l2 * (u * u * l2)) by ring.
        replace (rr * rr * (l2 * (xi * xi + u * u))) with (l2 * (rr * rr * (xi * xi + u * u))) by ring.
        apply Rmult_le_compat_l; lra. }
      lra.
Qed.

Definition G (l2 X u : R) : R := sqrt (l2 * (X + u * u)).

Lemma G_sq l2 X u : 0 <= l2 -> 0 <= X -> G l2 X u * G l2 X u = l2 * (X + u * u).
Proof. intros. unfold G. apply sqrt_sqrt. nra. Qed.
Lemma G_nonneg l2 X u : 0 <= G l2 X u.
Proof. apply sqrt_pos. Qed.

(* moving by dl >= 0 in the direction in which the slope already exceeds rr gains at least dl * rr *)
Lemma tangent A rr xi u dl : 0 < A -> 0 <= xi -> rr * xi < u * A -> 0 <= dl ->
  G (A * A + rr * rr) (xi * xi) u + dl * rr <= G (A * A + rr * rr) (xi * xi) (u + dl).
Proof.
  intros HA Hxi Hc Hdl. set (l2 := A * A + rr * rr). set (X := xi * xi).
  assert (Hl2 : 0 < l2) by (unfold l2; nra). assert (HX : 0 <= X) by (unfold X; nra).
  set (g := G l2 X u). set (g' := G l2 X (u + dl)).
  assert (Hg : 0 <= g) by apply G_nonneg. assert (Hg' : 0 <= g') by apply G_nonneg.
  assert (Eg : g * g = l2 * (X + u * u)) by (apply G_sq; lra).
  assert (Eg' : g' * g' = l2 * (X + (u + dl) * (u + dl))) by (apply G_sq; lra).
  assert (K := key_slope A rr xi u g HA Hxi Hg Eg Hc). fold l2 in K.
  destruct (Rle_dec (g + dl * rr) 0) as [Hneg | Hpos]; [lra|].
  apply sq_le_le; auto.
  rewrite Eg'.
  replace ((g + dl * rr) * (g + dl * rr)) with (g * g + 2 * dl * (rr * g) + dl * dl * (rr * rr)) by ring.
  rewrite Eg.
  assert (H1 : dl * (rr * g) <= dl * (u * l2)) by (apply Rmult_le_compat_l; lra).
  assert (H2 : dl * dl * (rr * rr) <= dl * dl * l2) by (apply Rmult_le_compat_l; [nra | unfold l2; nra]).
  nra.
Qed.

(* Cauchy-Schwarz in the plane, and its equality case *)
Lemma cs2 A rr xi u : xi * A + u * rr <= G (A * A + rr * rr) (xi * xi) u.
Proof.
  set (g := G _ _ u). assert (Hg : 0 <= g) by apply G_nonneg.
  assert (Eg : g * g = (A * A + rr * rr) * (xi * xi + u * u)) by (apply G_sq; nra).
  destruct (Rle_dec (xi * A + u * rr) 0); [lra|].
  apply sq_le_le; auto. rewrite Eg.
  assert (H := Rle_0_sqr (xi * rr - u * A)). unfold Rsqr in H. nra.
Qed.
Lemma cs2_eq A rr xi u : 0 < A -> 0 <= xi -> u * A = rr * xi ->
  G (A * A + rr * rr) (xi * xi) u = xi * A + u * rr.
Proof.
  intros HA Hxi E. unfold G. apply sqrt_sq_eq.
  - (* xi A + u rr = xi (A^2 + rr^2) / A >= 0 *)
    assert (H : (xi * A + u * rr) * A = xi * (A * A + rr * rr)) by (replace ((xi * A + u * rr) * A) with (xi * A * A + (u * A) * rr) by ring; rewrite E; ring).
    assert (0 <= xi * (A * A + rr * rr)) by nra. nra.
  - assert (H : (xi * rr - u * A) = 0) by lra.
    replace ((A * A + rr * rr) * (xi * xi + u * u)) with ((xi * A + u * rr) * (xi * A + u * rr) + (xi * rr - u * A) * (xi * rr - u * A)) by ring.
    rewrite H. ring.
Qed.

(* the generated sign function *)
Lemma sign_cases (u : R) : (0 < u /\ sign u = 1) \/ (u < 0 /\ sign u = -1) \/ (u = 0 /\ sign u = 0).
Proof.
  unfold sign. carrier_R.
  destruct (Rltb 0 u) eqn:E1.
  - apply Rltb_true in E1. left. auto.
  - apply Rltb_false in E1. destruct (Rltb u 0) eqn:E2.
    + apply Rltb_true in E2. right. left. auto.
    + apply Rltb_false in E2. right. right. split; [lra | reflexivity].
Qed.

(* sign(p) P^2 > sign(q) Q^2  <->  P > Q   when sign p = sign P and (sign q = sign Q or Q = 0) *)
Definition sgn_of (s v : R) : Prop := (0 < v /\ s = 1) \/ (v < 0 /\ s = -1) \/ v = 0.

Lemma ssq_gt (sp sq P Q : R) : sgn_of sp P -> sgn_of sq Q -> (sq * (Q * Q) < sp * (P * P) <-> Q < P).
Proof.
  assert (pos : forall x, x <> 0 -> 0 < x * x) by (intros; nra).
  assert (mono : forall x y, 0 <= x -> x < y -> x * x < y * y) by (intros; nra).
  assert (anti : forall x y, 0 <= x -> 0 <= y -> x * x < y * y -> x < y) by (intros; nra).
  intros [[HP ->] | [[HP ->] | HP]] [[HQ ->] | [[HQ ->] | HQ]]; subst; split; intros H.
  - apply anti; lra.
  - assert (G := mono Q P). lra.
  - lra.
  - assert (G1 := pos Q). assert (G2 := pos P). lra.
  - lra.
  - assert (G2 := pos P). nra.
  - assert (G1 := pos Q). assert (G2 := pos P). lra.
  - lra.
  - assert (G := anti (- P) (- Q)). nra.
  - assert (G := mono (- P) (- Q)). nra.
  - assert (G2 := pos P). nra.
  - lra.
  - assert (G1 := pos Q). nra.
  - lra.
  - lra.
  - assert (G1 := pos Q). nra.
  - nra.
  - lra.
Qed.

Lemma sgn_of_mul_pos s v k : 0 <= k -> sgn_of s v -> sgn_of s (v * k).
Proof.
  intros Hk [[H ->] | [[H ->] | H]].
  - destruct (Req_dec k 0) as [-> | K]; [right; right; ring | left; split; [nra | reflexivity]].
  - destruct (Req_dec k 0) as [-> | K]; [right; right; ring | right; left; split; [nra | reflexivity]].
  - right; right. subst. ring.
Qed.

(* the branch tests of the Go code, in terms of  P = z A  and  Q = rr xi *)
Lemma cond_gt (sz sr z rr A xi l2 : R) : 0 < A -> 0 <= xi -> 0 < l2 -> sgn_of sz z -> sgn_of sr rr ->
  (sr * (rr * rr) * (l2 * (xi * xi)) < sz * (A * A) * (z * z * l2) <-> rr * xi < z * A).
Proof.
  intros HA Hxi Hl Hz Hr.
  assert (S := ssq_gt sz sr (z * A) (rr * xi) (sgn_of_mul_pos sz z A (Rlt_le _ _ HA) Hz) (sgn_of_mul_pos sr rr xi Hxi Hr)).
  rewrite <- S.
  replace (sr * (rr * rr) * (l2 * (xi * xi))) with (l2 * (sr * (rr * xi * (rr * xi)))) by ring.
  replace (sz * (A * A) * (z * z * l2)) with (l2 * (sz * (z * A * (z * A)))) by ring.
  split; intros H.
  - apply Rmult_lt_reg_l with l2; auto.
  - apply Rmult_lt_compat_l; auto.
Qed.
Lemma cond_lt (sy sr y rr A xi l2 : R) : 0 < A -> 0 <= xi -> 0 < l2 -> sgn_of sy y -> sgn_of sr rr ->
  (sy * (A * A) * (y * y * l2) < sr * (rr * rr) * (l2 * (xi * xi)) <-> y * A < rr * xi).
Proof.
  intros HA Hxi Hl Hy Hr.
  assert (S := ssq_gt sr sy (rr * xi) (y * A) (sgn_of_mul_pos sr rr xi Hxi Hr) (sgn_of_mul_pos sy y A (Rlt_le _ _ HA) Hy)).
  rewrite <- S.
  replace (sr * (rr * rr) * (l2 * (xi * xi))) with (l2 * (sr * (rr * xi * (rr * xi)))) by ring.
  replace (sy * (A * A) * (y * y * l2)) with (l2 * (sy * (y * A * (y * A)))) by ring.
  split; intros H.
  - apply Rmult_lt_reg_l with l2; auto.
  - apply Rmult_lt_compat_l; auto.
Qed.

Lemma sign_sgn_of u : sgn_of (sign u) u.
Proof.
  destruct (sign_cases u) as [[H E] | [[H E] | [H E]]]; [left | right; left | right; right]; auto.
Qed.

(* ---------------------------------------------------------------- the cone *)
Section Cone.
Variables a b : pt.
Variables r1 r2 : R.
Hypothesis Hab : a <> b.
Let d := psub b a.
Let l2 := dot d d.
Let rr := r1 - r2.
Hypothesis Hwide : rr * rr < l2.
Let a2 := l2 - rr * rr.
Let A := sqrt a2.

Lemma l2_pos : 0 < l2.
Proof. assert (H := Rle_0_sqr rr). unfold Rsqr in H. lra. Qed.
Lemma a2_pos : 0 < a2.
Proof. unfold a2. lra. Qed.
Lemma A_pos : 0 < A.
Proof. apply sqrt_lt_R0, a2_pos. Qed.
Lemma A_sq : A * A = a2.
Proof. apply sqrt_sqrt. left. apply a2_pos. Qed.
Lemma l2_split : l2 = A * A + rr * rr.
Proof. rewrite A_sq. unfold a2. ring. Qed.

Section Point.
Variable p : pt.
Let w := psub p a.
Let y := dot w d.
Let X := l2 * dot w w - y * y.
Let xi := sqrt X.

Lemma X_nonneg : 0 <= X.
Proof. unfold X, y, l2. assert (H := cauchy_schwarz_sq w d). lra. Qed.
Lemma xi_nonneg : 0 <= xi.
Proof. apply sqrt_pos. Qed.
Lemma xi_sq : xi * xi = X.
Proof. apply sqrt_sqrt, X_nonneg. Qed.

Definition phi (s : R) : R := dist p (rcone_centre a b s) - rcone_radius r1 r2 s.

Lemma dist_centre s : l2 * dist p (rcone_centre a b s) = G l2 X (y - s * l2).
Proof.
  assert (Hl := l2_pos). unfold G. symmetry. apply sqrt_sq_eq.
  - apply Rmult_le_pos. lra. apply dist_nonneg.
  - replace (l2 * dist p (rcone_centre a b s) * (l2 * dist p (rcone_centre a b s)))
      with (l2 * l2 * (dist p (rcone_centre a b s) * dist p (rcone_centre a b s))) by ring.
    unfold dist. rewrite norm_sq.
    unfold X, y, l2, w, d, rcone_centre, dot, psub, padd, smul; cbn [v3x v3y v3z]. ring.
Qed.

Lemma phi_eq s : phi s = G l2 X (y - s * l2) / l2 - r1 + s * rr.
Proof.
  assert (Hl := l2_pos). unfold phi. rewrite <- dist_centre. unfold rcone_radius, rr. field. lra.
Qed.

(* the three candidate values *)
Lemma lower_side s : (xi * A + y * rr) / l2 - r1 <= phi s.
Proof.
  assert (Hl := l2_pos). rewrite phi_eq.
  assert (H := cs2 A rr xi (y - s * l2)). rewrite <- l2_split, xi_sq in H.
  assert (E : (xi * A + y * rr) / l2 - r1 = (xi * A + (y - s * l2) * rr) / l2 - r1 + s * rr) by (field; lra).
  rewrite E. apply Rplus_le_compat_r. apply Rplus_le_compat_r.
  apply Rmult_le_compat_r. left. apply Rinv_0_lt_compat. lra. exact H.
Qed.

Lemma lower_cap_b s : rr * xi < (y - l2) * A -> 0 <= s <= 1 -> phi 1 <= phi s.
Proof.
  intros Hc Hs. assert (Hl := l2_pos). rewrite !phi_eq.
  assert (H := tangent A rr xi (y - l2) ((1 - s) * l2) A_pos xi_nonneg Hc).
  rewrite <- l2_split, xi_sq in H.
  replace (y - l2 + (1 - s) * l2) with (y - s * l2) in H by ring.
  assert (Hd : 0 <= (1 - s) * l2) by nra. specialize (H Hd).
  replace (y - 1 * l2) with (y - l2) by ring.
  assert (E : G l2 X (y - l2) / l2 - r1 + 1 * rr = (G l2 X (y - l2) + (1 - s) * l2 * rr) / l2 - r1 + s * rr) by (field; lra).
  rewrite E. apply Rplus_le_compat_r. apply Rplus_le_compat_r.
  apply Rmult_le_compat_r. left. apply Rinv_0_lt_compat. lra. exact H.
Qed.

Lemma G_even l0 X0 u : G l0 X0 (- u) = G l0 X0 u.
Proof. unfold G. f_equal. ring. Qed.

Lemma lower_cap_a s : y * A < rr * xi -> 0 <= s <= 1 -> phi 0 <= phi s.
Proof.
  intros Hc Hs. assert (Hl := l2_pos). rewrite !phi_eq.
  assert (Hc' : (- rr) * xi < (- y) * A) by lra.
  assert (H := tangent A (- rr) xi (- y) (s * l2) A_pos xi_nonneg Hc').
  replace (A * A + - rr * - rr) with l2 in H by (rewrite l2_split; ring). rewrite xi_sq in H.
  assert (Hd : 0 <= s * l2) by nra. specialize (H Hd).
  replace (- y + s * l2) with (- (y - s * l2)) in H by ring. rewrite !G_even in H.
  replace (y - 0 * l2) with y by ring.
  assert (E : G l2 X y / l2 - r1 + 0 * rr = (G l2 X y + s * l2 * - rr) / l2 - r1 + s * rr) by (field; lra).
  rewrite E. apply Rplus_le_compat_r. apply Rplus_le_compat_r.
  apply Rmult_le_compat_r. left. apply Rinv_0_lt_compat. lra. exact H.
Qed.

Lemma side_attained : (y - l2) * A <= rr * xi -> rr * xi <= y * A ->
  exists s, 0 <= s <= 1 /\ (xi * A + y * rr) / l2 - r1 = phi s.
Proof.
  intros H1 H2. assert (Hl := l2_pos). assert (HA := A_pos).
  set (u := rr * xi / A). set (s := (y - u) / l2).
  assert (Eu : u * A = rr * xi) by (unfold u; field; lra).
  assert (Es : y - s * l2 = u) by (unfold s; field; lra).
  exists s. split.
  - assert (0 <= y - u) by nra. assert (y - u <= l2) by nra.
    unfold s. split.
    + apply Rmult_le_pos. lra. left. apply Rinv_0_lt_compat. lra.
    + apply Rmult_le_reg_r with l2. lra. replace ((y - u) / l2 * l2) with (y - u) by (field; lra). lra.
  - rewrite phi_eq, Es.
    assert (E := cs2_eq A rr xi u HA xi_nonneg Eu). rewrite <- l2_split, xi_sq in E. rewrite E.
    replace y with (u + s * l2) at 1 by lra. field. lra.
Qed.

(* the generated function, branch by branch.  The generated term is first reduced to coordinates (every helper
   of the Go source — dot2, LengthSquared, Dot, Scale ... — unfolds to the same arithmetic on coordinates, so the
   proof does not depend on how the source spells |v|^2), then the coordinate forms of l2, y, x2 are folded *)
Lemma x2_eq :
  ((v3x p - v3x a) * l2 - (v3x b - v3x a) * y) * ((v3x p - v3x a) * l2 - (v3x b - v3x a) * y) +
  ((v3y p - v3y a) * l2 - (v3y b - v3y a) * y) * ((v3y p - v3y a) * l2 - (v3y b - v3y a) * y) +
  ((v3z p - v3z a) * l2 - (v3z b - v3z a) * y) * ((v3z p - v3z a) * l2 - (v3z b - v3z a) * y) = l2 * X.
Proof. unfold X, y, l2, w, d, dot, psub. cbn [v3x v3y v3z]. ring. Qed.

Theorem rcone_is_min : rcone_min a b r1 r2 p (RoundedCone a b r1 r2 p).
Proof.
  assert (Hl := l2_pos). assert (Ha2 := a2_pos). assert (HA := A_pos). assert (HX := X_nonneg).
  assert (Hxi := xi_nonneg). assert (Exi := xi_sq). assert (EA := A_sq).
  unfold rcone_min. fold (phi). change (fun s => dist p (rcone_centre a b s) - rcone_radius r1 r2 s) with phi.
  cbv beta iota zeta delta -[Rplus Rmult Rminus Ropp Rdiv Rinv sqrt Rltb Rleb Reqb sign IZR Rlt Rle phi a2 rr l2 y X xi A v3x v3y v3z].
  cbn [v3x v3y v3z].
  (* cbv also unfolded the instance argument of [sign]: restore it *)
  repeat match goal with |- context [@sign R ?I ?u] =>
    lazymatch I with R_carrier => fail | _ => change (@sign R I u) with (@sign R R_carrier u) end end.
  let L0 := eval cbv beta iota zeta delta [l2 d dot psub] in l2 in
  let L := eval cbn [v3x v3y v3z] in L0 in change L with l2.
  let Y0 := eval cbv beta iota zeta delta [y w d dot psub] in y in
  let Y := eval cbn [v3x v3y v3z] in Y0 in change Y with y.
  rewrite !x2_eq.
  change (r1 - r2) with rr. change (l2 - rr * rr) with a2.
  (* a guard `if a2 <= 0 { return Sphere(..) }` (proposed fix for nested end spheres) is not taken here *)
  try match goal with |- context [Rleb ?x ?z] =>
    destruct (Rleb x z) eqn:E0; [apply Rleb_true in E0; exfalso; lra|] end.
  set (z := y - l2).
  (* branch conditions in terms of  z A ? rr xi  and  y A ? rr xi *)
  assert (C1 : sign rr * (rr * rr) * (l2 * X) < sign z * a2 * (z * z * l2) <-> rr * xi < z * A).
  { rewrite <- Exi, <- EA. apply cond_gt; auto; apply sign_sgn_of. }
  assert (C2 : sign y * a2 * (y * y * l2) < sign rr * (rr * rr) * (l2 * X) <-> y * A < rr * xi).
  { rewrite <- Exi, <- EA. apply cond_lt; auto; apply sign_sgn_of. }
  destruct (Rltb _ (sign z * a2 * (z * z * l2))) eqn:B1.
  - (* beyond cap b: the value is phi 1 *)
    apply Rltb_true in B1. apply C1 in B1.
    assert (E : sqrt (l2 * X + z * z * l2) * (1 / l2) - r2 = phi 1).
    { rewrite phi_eq. replace (y - 1 * l2) with z by (unfold z; ring).
      replace (l2 * X + z * z * l2) with (l2 * (X + z * z)) by ring. fold (G l2 X z). unfold rr. field. lra. }
    rewrite E. split.
    + exists 1. split; [lra | reflexivity].
    + intros s Hs. apply lower_cap_b; auto.
  - apply Rltb_false in B1.
    assert (N1 : z * A <= rr * xi).
    { destruct (Rle_dec (z * A) (rr * xi)); auto. exfalso. assert (H : rr * xi < z * A) by lra. apply C1 in H. lra. }
    destruct (Rltb (sign y * a2 * (y * y * l2)) _) eqn:B2.
    + (* beyond cap a: phi 0 *)
      apply Rltb_true in B2. apply C2 in B2.
      assert (E : sqrt (l2 * X + y * y * l2) * (1 / l2) - r1 = phi 0).
      { rewrite phi_eq. replace (y - 0 * l2) with y by ring.
        replace (l2 * X + y * y * l2) with (l2 * (X + y * y)) by ring. fold (G l2 X y). field. lra. }
      rewrite E. split.
      * exists 0. split; [lra | reflexivity].
      * intros s Hs. apply lower_cap_a; auto.
    + (* the slanted side *)
      apply Rltb_false in B2.
      assert (N2 : rr * xi <= y * A).
      { destruct (Rle_dec (rr * xi) (y * A)); auto. exfalso. assert (H : y * A < rr * xi) by lra. apply C2 in H. lra. }
      assert (E : (sqrt (l2 * X * a2 * (1 / l2)) + y * rr) * (1 / l2) - r1 = (xi * A + y * rr) / l2 - r1).
      { replace (l2 * X * a2 * (1 / l2)) with (X * a2) by (field; lra).
        rewrite sqrt_mult by lra. fold xi. fold A. field. lra. }
      rewrite E. split.
      * destruct (side_attained N1 N2) as [s [Hs Es]]. exists s. auto.
      * intros s _. apply lower_side.
Qed.

End Point.

(* ---- consequences *)
Theorem rcone_lipschitz : lipschitz1 (RoundedCone a b r1 r2).
Proof.
  apply (lipschitz_of_min_family
           (fun s p => dist p (rcone_centre a b s) - rcone_radius r1 r2 s) (fun s => 0 <= s <= 1)).
  - intros s _ p q.
    replace (dist p (rcone_centre a b s) - rcone_radius r1 r2 s - (dist q (rcone_centre a b s) - rcone_radius r1 r2 s))
      with (dist p (rcone_centre a b s) - dist q (rcone_centre a b s)) by ring.
    apply dist_rev_triangle.
  - intros p. destruct (rcone_is_min p) as [[s [Hs Es]] Hmin]. split.
    + exists s. auto.
    + exact Hmin.
Qed.

Theorem rcone_sign p : RoundedCone a b r1 r2 p < 0 <-> rcone_int a b r1 r2 p.
Proof.
  destruct (rcone_is_min p) as [[s [Hs Es]] Hmin]. unfold rcone_int. split.
  - intros H. exists s. split; auto. lra.
  - intros [s' [Hs' H]]. specialize (Hmin s' Hs'). lra.
Qed.

End Cone.

Theorem rcone_sdf_sign a b r1 r2 : (r1 - r2) * (r1 - r2) < dot (psub b a) (psub b a) ->
  sdf_sign (RoundedCone a b r1 r2) (rcone_int a b r1 r2) (fun p => rcone_min a b r1 r2 p 0).
Proof.
  intros Hw p. split. apply rcone_sign; auto.
  assert (M := rcone_is_min a b r1 r2 Hw p). split.
  - intros E. rewrite <- E. exact M.
  - intros [[s [Hs Es]] Hmin]. destruct M as [[s' [Hs' Es']] Hmin'].
    assert (H1 := Hmin s' Hs'). assert (H2 := Hmin' s Hs). lra.
Qed.
