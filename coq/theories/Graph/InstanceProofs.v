(* C12: proofs about the instance model — replaying the saved dependency list rebuilds every input port
   (array ports in index order, for any number of connections), parameter records survive, the invariant
   of reachable states is preserved by every editing operation, and the headline theorems. *)
From Coq Require Import String Ascii.
From PF Require Import Base.Bytes Graph.Schema Graph.SchemaProofs Graph.Instance.
Open Scope N_scope.

(* ------------------------------------------------------------------------------------------------ *)
(* 1. replaying dependencies                                                                         *)
(* ------------------------------------------------------------------------------------------------ *)

Definition zstep (ps : list port) (st : list (list id)) (d : sdep) : list (list id) :=
  zip_upd ps st (field_of (d_name d)) (fun l => if dotted (d_name d) then l ++ [d_src d] else [d_src d]).
Definition pure_replay (ps : list port) (L : list sdep) (st : list (list id)) : list (list id) :=
  fold_left (zstep ps) L st.

(* the step function of decode_node *)
Definition dstep (T : table) (tl : list (id * nat)) (ps : list port) (ins : list (list id)) (d : sdep) :=
  if String.eqb (d_port d) "Out" then set_input T tl ps ins (d_name d) (d_src d) else None.
Definition acc (T : table) (tl : list (id * nat)) (ps : list port) (d : sdep) : bool :=
  String.eqb (d_port d) "Out" && accepts T tl ps (d_name d) (d_src d).

Lemma replay_ok T tl ps L : forall st,
  Forall (fun d => acc T tl ps d = true) L ->
  fold_opt (dstep T tl ps) L st = Some (pure_replay ps L st).
Proof.
  induction L as [|d L IH]; intros st H; cbn; [reflexivity|].
  inversion H as [|? ? Hd HL]; subst. unfold acc in Hd. apply andb_prop in Hd. destruct Hd as [Hp Ha].
  unfold dstep, set_input. rewrite Hp, Ha. apply IH, HL.
Qed.

Lemma zip_upd_comm ps : forall st f1 g1 f2 g2, f1 <> f2 ->
  zip_upd ps (zip_upd ps st f1 g1) f2 g2 = zip_upd ps (zip_upd ps st f2 g2) f1 g1.
Proof.
  induction ps as [|p ps IH]; intros st f1 g1 f2 g2 Hne; [reflexivity|].
  destruct st as [|l st]; [reflexivity|]. cbn. rewrite (IH st f1 g1 f2 g2 Hne). f_equal.
  destruct (String.eqb_spec (p_name p) f1), (String.eqb_spec (p_name p) f2); try reflexivity. congruence.
Qed.

Definition dfield (d : sdep) : string := field_of (d_name d).
Definition dless (less : string -> string -> bool) (a b : sdep) : bool := less (d_name a) (d_name b).

Lemma insert_replay less ps x : forall l st,
  (forall y, In y l -> dfield y = dfield x -> less (d_name x) (d_name y) = true) ->
  pure_replay ps (insert (dless less) x l) st = pure_replay ps (x :: l) st.
Proof.
  induction l as [|y l IH]; intros st H; [reflexivity|].
  cbn [insert]. unfold dless at 1. destruct (less (d_name x) (d_name y)) eqn:E; [reflexivity|].
  assert (Hne : dfield y <> dfield x).
  { intros Heq. rewrite (H y (or_introl eq_refl) Heq) in E. discriminate. }
  change (pure_replay ps (y :: insert (dless less) x l) st)
    with (pure_replay ps (insert (dless less) x l) (zstep ps st y)).
  rewrite IH by (intros z Hz; apply H; right; exact Hz).
  cbn. unfold zstep at 2 3 5 6. unfold dfield in Hne.
  rewrite zip_upd_comm by exact Hne. reflexivity.
Qed.

(* within each field, earlier entries are less than later ones *)
Fixpoint asc (less : string -> string -> bool) (L : list sdep) : Prop :=
  match L with
  | [] => True
  | x :: r => (forall y, In y r -> dfield y = dfield x -> less (d_name x) (d_name y) = true) /\ asc less r
  end.

Lemma sort_replay less ps : forall L st, asc less L ->
  pure_replay ps (sort_deps less L) st = pure_replay ps L st.
Proof.
  induction L as [|x L IH]; intros st H; [reflexivity|].
  destruct H as [Hx HL]. unfold sort_deps in *. cbn [isort].
  change (fun a b : sdep => less (d_name a) (d_name b)) with (dless less) in *.
  rewrite insert_replay.
  - cbn. apply IH, HL.
  - intros y Hy. apply Hx. eapply isort_In, Hy.
Qed.

Lemma asc_app less A : forall B, asc less A -> asc less B ->
  (forall x y, In x A -> In y B -> dfield y <> dfield x) -> asc less (A ++ B).
Proof.
  induction A as [|a A IH]; intros B HA HB Hx; [exact HB|].
  destruct HA as [Ha HA]. cbn. split.
  - intros y Hy Hf. apply in_app_or in Hy. destruct Hy as [Hy|Hy]; [apply Ha; auto|].
    exfalso. eapply Hx; [left; reflexivity | exact Hy | exact Hf].
  - apply IH; auto. intros x y Hx' Hy. apply Hx; [right; exact Hx' | exact Hy].
Qed.

(* ---- the enumeration ---- *)
Lemma enum_arr_In f : forall l k0 y, In y (enum_arr f k0 l) ->
  exists k, k0 <= k /\ d_name y = arr_name f k /\ d_port y = "Out"%string.
Proof.
  induction l as [|x l IH]; intros k0 y H; [destruct H|].
  cbn in H. destruct H as [H|H].
  - subst y. exists k0. cbn. split; [lia|auto].
  - apply IH in H. destruct H as (k & Hk & Hn). exists k. split; [lia|exact Hn].
Qed.

Lemma asc_enum_arr f : forall l k0, asc dep_less (enum_arr f k0 l).
Proof.
  induction l as [|x l IH]; intros k0; cbn; [exact I|]. split; [|apply IH].
  intros y Hy _. apply enum_arr_In in Hy. destruct Hy as (k & Hk & Hn & _). rewrite Hn, dep_less_arr.
  apply N.ltb_lt. lia.
Qed.

Definition pname_ok (p : port) : Prop := no_dot (p_name p) = true.

Lemma field_of_nodot f : no_dot f = true -> field_of f = f /\ dotted f = false.
Proof. intros H. unfold field_of, dotted. rewrite (lsplit_nodot f H). auto. Qed.
Lemma field_of_arr_name f k : no_dot f = true -> field_of (arr_name f k) = f /\ dotted (arr_name f k) = true.
Proof. intros H. unfold field_of, dotted. rewrite (field_of_arr f k H). auto. Qed.

Lemma enum_port_field p l y : pname_ok p -> In y (enum_port p l) ->
  dfield y = p_name p /\ dotted (d_name y) = p_array p /\ d_port y = "Out"%string /\ In (d_src y) l.
Proof.
  intros Hp H. unfold enum_port in H. unfold dfield. destruct (p_array p) eqn:E.
  - assert (Hs : forall l k0, In y (enum_arr (p_name p) k0 l) -> In (d_src y) l).
    { clear. induction l as [|x l IH]; intros k0 H; [destruct H|]. cbn in H. destruct H as [H|H].
      - subst y. left. reflexivity.
      - right. eapply IH, H. }
    pose proof (Hs _ _ H) as Hin.
    apply enum_arr_In in H. destruct H as (k & _ & Hn & Ho). rewrite Hn.
    destruct (field_of_arr_name (p_name p) k Hp) as [A B]. rewrite A, B. auto.
  - apply in_map_iff in H. destruct H as (x & Hx & Hin). subst y. cbn.
    destruct (field_of_nodot (p_name p) Hp) as [A B]. rewrite A, B. auto.
Qed.

Lemma asc_enum_port p l : pname_ok p -> (p_array p = false -> (length l <= 1)%nat) -> asc dep_less (enum_port p l).
Proof.
  intros Hp Hl. unfold enum_port. destruct (p_array p).
  - apply asc_enum_arr.
  - specialize (Hl eq_refl). destruct l as [|x [|z l]]; cbn in *; try lia; auto; try (split; [intros y []|exact I]).
Qed.

Definition port_shape (p : port) (l : list id) : Prop := p_array p = false -> (length l <= 1)%nat.

Lemma enum_deps_field : forall ps ins y, Forall pname_ok ps -> In y (enum_deps ps ins) ->
  exists p, In p ps /\ dfield y = p_name p.
Proof.
  induction ps as [|p ps IH]; intros ins y Hn H; [destruct H|].
  destruct ins as [|l ins]; [destruct H|]. cbn in H. inversion Hn; subst.
  apply in_app_or in H. destruct H as [H|H].
  - exists p. split; [left; reflexivity|]. eapply enum_port_field; eauto.
  - destruct (IH ins y H3 H) as (q & Hq & Hf). exists q. split; [right; exact Hq | exact Hf].
Qed.

Lemma asc_enum_deps : forall ps ins,
  NoDup (map p_name ps) -> Forall pname_ok ps -> Forall2 port_shape ps ins ->
  asc dep_less (enum_deps ps ins).
Proof.
  induction ps as [|p ps IH]; intros ins Hnd Hn Hs; [exact I|].
  inversion Hs as [|? l ? ins' Hpl Hs']; subst. inversion Hn; subst. inversion Hnd; subst.
  cbn. apply asc_app.
  - apply asc_enum_port; auto.
  - apply IH; auto.
  - intros x y Hx Hy Heq. destruct (enum_port_field p l x H1 Hx) as [Fx _].
    destruct (enum_deps_field ps ins' y H2 Hy) as (q & Hq & Fy).
    apply H3. rewrite <- Fx, <- Heq, Fy. apply in_map, Hq.
Qed.

(* ---- replaying the enumeration fills the ports from left to right ---- *)
Lemma zip_upd_miss : forall t rest f g, ~ In f (map p_name t) -> length rest = length t -> zip_upd t rest f g = rest.
Proof.
  induction t as [|q t IH]; intros rest f g Hn Hl; destruct rest as [|l rest]; cbn in *; try discriminate; [reflexivity|].
  destruct (String.eqb_spec (p_name q) f) as [E|E]; [exfalso; apply Hn; left; exact E|].
  f_equal. apply IH; [tauto | lia].
Qed.

Lemma zip_upd_hit : forall done insd t rest p cur g,
  length insd = length done -> ~ In (p_name p) (map p_name done) -> ~ In (p_name p) (map p_name t) ->
  length rest = length t ->
  zip_upd (done ++ p :: t) (insd ++ cur :: rest) (p_name p) g = insd ++ g cur :: rest.
Proof.
  induction done as [|q done IH]; intros insd t rest p cur g Hl Hd Ht Hr.
  - destruct insd; [|discriminate]. cbn. rewrite String.eqb_refl. f_equal. apply zip_upd_miss; auto.
  - destruct insd as [|l insd]; [discriminate|]. cbn in *.
    destruct (String.eqb_spec (p_name q) (p_name p)) as [E|E]; [exfalso; apply Hd; left; exact E|].
    f_equal. apply IH; auto.
Qed.

Lemma pure_replay_cons ps d L st : pure_replay ps (d :: L) st = pure_replay ps L (zstep ps st d).
Proof. reflexivity. Qed.

Section Fill.
  Variables (done t : list port) (p : port) (insd rest : list (list id)).
  Hypothesis Hl : length insd = length done.
  Hypothesis Hd : ~ In (p_name p) (map p_name done).
  Hypothesis Ht : ~ In (p_name p) (map p_name t).
  Hypothesis Hr : length rest = length t.
  Hypothesis Hp : pname_ok p.

  Lemma replay_enum_arr : forall l k0 cur,
    pure_replay (done ++ p :: t) (enum_arr (p_name p) k0 l) (insd ++ cur :: rest) = insd ++ (cur ++ l) :: rest.
  Proof.
    induction l as [|x l IH]; intros k0 cur.
    - cbn. rewrite app_nil_r. reflexivity.
    - cbn [enum_arr]. rewrite pure_replay_cons. unfold zstep. cbn [d_name d_src].
      destruct (field_of_arr_name (p_name p) k0 Hp) as [A B]. rewrite A, B.
      rewrite zip_upd_hit by assumption.
      rewrite IH. rewrite <- app_assoc. reflexivity.
  Qed.

  Lemma replay_enum_port l : port_shape p l ->
    pure_replay (done ++ p :: t) (enum_port p l) (insd ++ [] :: rest) = insd ++ l :: rest.
  Proof.
    intros Hs. unfold enum_port. unfold port_shape in Hs. destruct (p_array p).
    - rewrite replay_enum_arr. reflexivity.
    - specialize (Hs eq_refl). destruct l as [|x [|z l]]; cbn in Hs; try lia; [reflexivity|].
      cbn [map]. rewrite pure_replay_cons. cbn [pure_replay fold_left]. unfold zstep. cbn [d_name d_src].
      destruct (field_of_nodot (p_name p) Hp) as [A B]. rewrite A, B.
      rewrite zip_upd_hit by assumption. reflexivity.
  Qed.
End Fill.

Lemma pure_replay_app ps A B st : pure_replay ps (A ++ B) st = pure_replay ps B (pure_replay ps A st).
Proof. apply fold_left_app. Qed.

Lemma replay_enum : forall todo done insd inst,
  length insd = length done -> Forall2 port_shape todo inst ->
  NoDup (map p_name (done ++ todo)) -> Forall pname_ok todo ->
  pure_replay (done ++ todo) (enum_deps todo inst) (insd ++ map (fun _ => []) todo) = insd ++ inst.
Proof.
  induction todo as [|p t IH]; intros done insd inst Hl Hs Hnd Hn.
  - inversion Hs; subst. reflexivity.
  - inversion Hs as [|? l ? it Hpl Hs']; subst. inversion Hn; subst.
    rewrite map_app in Hnd. cbn [map] in Hnd.
    pose proof (NoDup_remove_2 _ _ _ Hnd) as Hnotin.
    assert (Hd : ~ In (p_name p) (map p_name done)) by (intros X; apply Hnotin, in_or_app; left; exact X).
    assert (Ht : ~ In (p_name p) (map p_name t)) by (intros X; apply Hnotin, in_or_app; right; exact X).
    cbn [enum_deps map]. rewrite pure_replay_app.
    rewrite replay_enum_port; auto; [|rewrite map_length; reflexivity].
    replace (done ++ p :: t) with ((done ++ [p]) ++ t) by (rewrite <- app_assoc; reflexivity).
    replace (insd ++ l :: map (fun _ : port => []) t) with ((insd ++ [l]) ++ map (fun _ : port => []) t)
      by (rewrite <- app_assoc; reflexivity).
    rewrite IH; auto.
    + rewrite <- app_assoc. reflexivity.
    + rewrite !app_length. cbn. lia.
    + rewrite <- app_assoc. cbn. rewrite map_app. cbn. exact Hnd.
Qed.

(* ---- acceptance ---- *)
Lemma find_port_In : forall ps p, NoDup (map p_name ps) -> In p ps -> find_port ps (p_name p) = Some p.
Proof.
  induction ps as [|q ps IH]; intros p Hnd Hin; [destruct Hin|].
  inversion Hnd; subst. unfold find_port. cbn.
  destruct (String.eqb_spec (p_name q) (p_name p)) as [E|E].
  - destruct Hin as [Hin|Hin]; [subst; reflexivity|].
    exfalso. apply H1. rewrite E. apply in_map, Hin.
  - destruct Hin as [Hin|Hin]; [subst; congruence|]. apply IH; auto.
Qed.

Definition srcs_ok (T : table) (tl : list (id * nat)) (p : port) (l : list id) : Prop :=
  Forall (fun src => has_src T tl src (p_vt p) = true) l.

Lemma acc_enum T tl ps : NoDup (map p_name ps) -> Forall pname_ok ps ->
  forall todo inst, (forall p, In p todo -> In p ps) -> Forall2 (srcs_ok T tl) todo inst ->
  Forall (fun d => acc T tl ps d = true) (enum_deps todo inst).
Proof.
  intros Hnd Hn. induction todo as [|p t IH]; intros inst Hsub Hs; [constructor|].
  inversion Hs as [|? l ? it Hpl Hs']; subst. cbn. apply Forall_app. split.
  - apply Forall_forall. intros d Hd.
    assert (Hp : In p ps) by (apply Hsub; left; reflexivity).
    assert (Hpn : pname_ok p) by (eapply Forall_forall in Hn; eauto).
    destruct (enum_port_field p l d Hpn Hd) as (F & D & O & S).
    unfold acc, accepts. unfold dfield in F. rewrite O, F, (find_port_In ps p Hnd Hp), D. cbn.
    rewrite Bool.eqb_reflx. cbn. unfold srcs_ok in Hpl. eapply Forall_forall in Hpl; eauto.
  - apply IH; auto. intros q Hq. apply Hsub. right. exact Hq.
Qed.

(* the dependency list a node saves, replayed on a freshly built node, rebuilds its inputs exactly *)
Theorem deps_roundtrip T tl ps ins :
  NoDup (map p_name ps) -> Forall pname_ok ps -> Forall2 port_shape ps ins -> Forall2 (srcs_ok T tl) ps ins ->
  fold_opt (dstep T tl ps) (sort_deps dep_less (enum_deps ps ins)) (map (fun _ => []) ps) = Some ins.
Proof.
  intros Hnd Hn Hs Hsrc.
  rewrite replay_ok.
  - f_equal. rewrite sort_replay by (apply asc_enum_deps; auto).
    apply (replay_enum ps [] [] ins); auto.
  - unfold sort_deps. apply isort_Forall. apply (acc_enum T tl ps Hnd Hn ps ins); auto.
Qed.
