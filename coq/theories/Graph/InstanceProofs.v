(* C12: proofs about the instance model — replaying the saved dependency list rebuilds every input port
   (array ports in index order, for any number of connections), parameter records survive, the invariant
   of reachable states is preserved by every editing operation, and the headline theorems. *)
From Coq Require Import String Ascii FinFun.
From PF Require Import Base.Bytes Graph.Schema Graph.SchemaProofs Graph.Instance.
Open Scope N_scope.

(* ------------------------------------------------------------------------------------------------ *)
(* 1. replaying dependencies                                                                         *)
(* ------------------------------------------------------------------------------------------------ *)

Definition zstep (ps : list port) (st : list (list id)) (d : sdep) : list (list id) :=
  zip_upd ps st (field_of (d_name d)) (fun l => if dotted (d_name d) then l ++ [d_src d] else [d_src d]).
Definition pure_replay (ps : list port) (L : list sdep) (st : list (list id)) : list (list id) :=
  fold_left (zstep ps) L st.

(* the step function of decode_node *)
Definition dstep (T : table) (tl : list (id * nat)) (ps : list port) (ins : list (list id)) (d : sdep) :=
  if String.eqb (d_port d) "Out" then set_input T tl ps ins (d_name d) (d_src d) else None.
Definition acc (T : table) (tl : list (id * nat)) (ps : list port) (d : sdep) : bool :=
  String.eqb (d_port d) "Out" && accepts T tl ps (d_name d) (d_src d).

Lemma replay_ok T tl ps L : forall st,
  Forall (fun d => acc T tl ps d = true) L ->
  fold_opt (dstep T tl ps) L st = Some (pure_replay ps L st).
Proof.
  induction L as [|d L IH]; intros st H; cbn; [reflexivity|].
  inversion H as [|? ? Hd HL]; subst. unfold acc in Hd. apply andb_prop in Hd. destruct Hd as [Hp Ha].
  unfold dstep, set_input. rewrite Hp, Ha. apply IH, HL.
Qed.

Lemma zip_upd_comm ps : forall st f1 g1 f2 g2, f1 <> f2 ->
  zip_upd ps (zip_upd ps st f1 g1) f2 g2 = zip_upd ps (zip_upd ps st f2 g2) f1 g1.
Proof.
  induction ps as [|p ps IH]; intros st f1 g1 f2 g2 Hne; [reflexivity|].
  destruct st as [|l st]; [reflexivity|]. cbn. rewrite (IH st f1 g1 f2 g2 Hne). f_equal.
  destruct (String.eqb_spec (p_name p) f1), (String.eqb_spec (p_name p) f2); try reflexivity. congruence.
Qed.

Definition dfield (d : sdep) : string := field_of (d_name d).
Definition dless (less : string -> string -> bool) (a b : sdep) : bool := less (d_name a) (d_name b).

Lemma insert_replay less ps x : forall l st,
  (forall y, In y l -> dfield y = dfield x -> less (d_name x) (d_name y) = true) ->
  pure_replay ps (insert (dless less) x l) st = pure_replay ps (x :: l) st.
Proof.
  induction l as [|y l IH]; intros st H; [reflexivity|].
  cbn [insert]. unfold dless at 1. destruct (less (d_name x) (d_name y)) eqn:E; [reflexivity|].
  assert (Hne : dfield y <> dfield x).
  { intros Heq. rewrite (H y (or_introl eq_refl) Heq) in E. discriminate. }
  change (pure_replay ps (y :: insert (dless less) x l) st)
    with (pure_replay ps (insert (dless less) x l) (zstep ps st y)).
  rewrite IH by (intros z Hz; apply H; right; exact Hz).
  cbn. unfold zstep at 2 3 5 6. unfold dfield in Hne.
  rewrite zip_upd_comm by exact Hne. reflexivity.
Qed.

(* within each field, earlier entries are less than later ones *)
Fixpoint asc (less : string -> string -> bool) (L : list sdep) : Prop :=
  match L with
  | [] => True
  | x :: r => (forall y, In y r -> dfield y = dfield x -> less (d_name x) (d_name y) = true) /\ asc less r
  end.

Lemma sort_replay less ps : forall L st, asc less L ->
  pure_replay ps (sort_deps less L) st = pure_replay ps L st.
Proof.
  induction L as [|x L IH]; intros st H; [reflexivity|].
  destruct H as [Hx HL]. unfold sort_deps in *. cbn [isort].
  change (fun a b : sdep => less (d_name a) (d_name b)) with (dless less) in *.
  rewrite insert_replay.
  - cbn. apply IH, HL.
  - intros y Hy. apply Hx. eapply isort_In, Hy.
Qed.

Lemma asc_app less A : forall B, asc less A -> asc less B ->
  (forall x y, In x A -> In y B -> dfield y <> dfield x) -> asc less (A ++ B).
Proof.
  induction A as [|a A IH]; intros B HA HB Hx; [exact HB|].
  destruct HA as [Ha HA]. cbn. split.
  - intros y Hy Hf. apply in_app_or in Hy. destruct Hy as [Hy|Hy]; [apply Ha; auto|].
    exfalso. eapply Hx; [left; reflexivity | exact Hy | exact Hf].
  - apply IH; auto. intros x y Hx' Hy. apply Hx; [right; exact Hx' | exact Hy].
Qed.

(* ---- the enumeration ---- *)
Lemma enum_arr_In f : forall l k0 y, In y (enum_arr f k0 l) ->
  exists k, k0 <= k /\ d_name y = arr_name f k /\ d_port y = "Out"%string.
Proof.
  induction l as [|x l IH]; intros k0 y H; [destruct H|].
  cbn in H. destruct H as [H|H].
  - subst y. exists k0. cbn. split; [lia|auto].
  - apply IH in H. destruct H as (k & Hk & Hn). exists k. split; [lia|exact Hn].
Qed.

Lemma asc_enum_arr f : forall l k0, asc dep_less (enum_arr f k0 l).
Proof.
  induction l as [|x l IH]; intros k0; cbn; [exact I|]. split; [|apply IH].
  intros y Hy _. apply enum_arr_In in Hy. destruct Hy as (k & Hk & Hn & _). rewrite Hn, dep_less_arr.
  apply N.ltb_lt. lia.
Qed.

Definition pname_ok (p : port) : Prop := no_dot (p_name p) = true.

Lemma field_of_nodot f : no_dot f = true -> field_of f = f /\ dotted f = false.
Proof. intros H. unfold field_of, dotted. rewrite (lsplit_nodot f H). auto. Qed.
Lemma field_of_arr_name f k : no_dot f = true -> field_of (arr_name f k) = f /\ dotted (arr_name f k) = true.
Proof. intros H. unfold field_of, dotted. rewrite (field_of_arr f k H). auto. Qed.

Lemma enum_port_field p l y : pname_ok p -> In y (enum_port p l) ->
  dfield y = p_name p /\ dotted (d_name y) = p_array p /\ d_port y = "Out"%string /\ In (d_src y) l.
Proof.
  intros Hp H. unfold enum_port in H. unfold dfield. destruct (p_array p) eqn:E.
  - assert (Hs : forall l k0, In y (enum_arr (p_name p) k0 l) -> In (d_src y) l).
    { clear. induction l as [|x l IH]; intros k0 H; [destruct H|]. cbn in H. destruct H as [H|H].
      - subst y. left. reflexivity.
      - right. eapply IH, H. }
    pose proof (Hs _ _ H) as Hin.
    apply enum_arr_In in H. destruct H as (k & _ & Hn & Ho). rewrite Hn.
    destruct (field_of_arr_name (p_name p) k Hp) as [A B]. rewrite A, B. auto.
  - apply in_map_iff in H. destruct H as (x & Hx & Hin). subst y. cbn.
    destruct (field_of_nodot (p_name p) Hp) as [A B]. rewrite A, B. auto.
Qed.

Lemma asc_enum_port p l : pname_ok p -> (p_array p = false -> (length l <= 1)%nat) -> asc dep_less (enum_port p l).
Proof.
  intros Hp Hl. unfold enum_port. destruct (p_array p).
  - apply asc_enum_arr.
  - specialize (Hl eq_refl). destruct l as [|x [|z l]]; cbn in *; try lia; auto; try (split; [intros y []|exact I]).
Qed.

Definition port_shape (p : port) (l : list id) : Prop := p_array p = false -> (length l <= 1)%nat.

Lemma enum_deps_field : forall ps ins y, Forall pname_ok ps -> In y (enum_deps ps ins) ->
  exists p, In p ps /\ dfield y = p_name p.
Proof.
  induction ps as [|p ps IH]; intros ins y Hn H; [destruct H|].
  destruct ins as [|l ins]; [destruct H|]. cbn in H. inversion Hn; subst.
  apply in_app_or in H. destruct H as [H|H].
  - exists p. split; [left; reflexivity|]. eapply enum_port_field; eauto.
  - destruct (IH ins y H3 H) as (q & Hq & Hf). exists q. split; [right; exact Hq | exact Hf].
Qed.

Lemma asc_enum_deps : forall ps ins,
  NoDup (map p_name ps) -> Forall pname_ok ps -> Forall2 port_shape ps ins ->
  asc dep_less (enum_deps ps ins).
Proof.
  induction ps as [|p ps IH]; intros ins Hnd Hn Hs; [exact I|].
  inversion Hs as [|? l ? ins' Hpl Hs']; subst. inversion Hn; subst. inversion Hnd; subst.
  cbn. apply asc_app.
  - apply asc_enum_port; auto.
  - apply IH; auto.
  - intros x y Hx Hy Heq. destruct (enum_port_field p l x H1 Hx) as [Fx _].
    destruct (enum_deps_field ps ins' y H2 Hy) as (q & Hq & Fy).
    apply H3. rewrite <- Fx, <- Heq, Fy. apply in_map, Hq.
Qed.

(* ---- replaying the enumeration fills the ports from left to right ---- *)
Lemma zip_upd_miss : forall t rest f g, ~ In f (map p_name t) -> length rest = length t -> zip_upd t rest f g = rest.
Proof.
  induction t as [|q t IH]; intros rest f g Hn Hl; destruct rest as [|l rest]; cbn in *; try discriminate; [reflexivity|].
  destruct (String.eqb_spec (p_name q) f) as [E|E]; [exfalso; apply Hn; left; exact E|].
  f_equal. apply IH; [tauto | lia].
Qed.

Lemma zip_upd_hit : forall done insd t rest p cur g,
  length insd = length done -> ~ In (p_name p) (map p_name done) -> ~ In (p_name p) (map p_name t) ->
  length rest = length t ->
  zip_upd (done ++ p :: t) (insd ++ cur :: rest) (p_name p) g = insd ++ g cur :: rest.
Proof.
  induction done as [|q done IH]; intros insd t rest p cur g Hl Hd Ht Hr.
  - destruct insd; [|discriminate]. cbn. rewrite String.eqb_refl. f_equal. apply zip_upd_miss; auto.
  - destruct insd as [|l insd]; [discriminate|]. cbn in *.
    destruct (String.eqb_spec (p_name q) (p_name p)) as [E|E]; [exfalso; apply Hd; left; exact E|].
    f_equal. apply IH; auto.
Qed.

Lemma pure_replay_cons ps d L st : pure_replay ps (d :: L) st = pure_replay ps L (zstep ps st d).
Proof. reflexivity. Qed.

Section Fill.
  Variables (done t : list port) (p : port) (insd rest : list (list id)).
  Hypothesis Hl : length insd = length done.
  Hypothesis Hd : ~ In (p_name p) (map p_name done).
  Hypothesis Ht : ~ In (p_name p) (map p_name t).
  Hypothesis Hr : length rest = length t.
  Hypothesis Hp : pname_ok p.

  Lemma replay_enum_arr : forall l k0 cur,
    pure_replay (done ++ p :: t) (enum_arr (p_name p) k0 l) (insd ++ cur :: rest) = insd ++ (cur ++ l) :: rest.
  Proof.
    induction l as [|x l IH]; intros k0 cur.
    - cbn. rewrite app_nil_r. reflexivity.
    - cbn [enum_arr]. rewrite pure_replay_cons. unfold zstep. cbn [d_name d_src].
      destruct (field_of_arr_name (p_name p) k0 Hp) as [A B]. rewrite A, B.
      rewrite zip_upd_hit by assumption.
      rewrite IH. rewrite <- app_assoc. reflexivity.
  Qed.

  Lemma replay_enum_port l : port_shape p l ->
    pure_replay (done ++ p :: t) (enum_port p l) (insd ++ [] :: rest) = insd ++ l :: rest.
  Proof.
    intros Hs. unfold enum_port. unfold port_shape in Hs. destruct (p_array p).
    - rewrite replay_enum_arr. reflexivity.
    - specialize (Hs eq_refl). destruct l as [|x [|z l]]; cbn in Hs; try lia; [reflexivity|].
      cbn [map]. rewrite pure_replay_cons. cbn [pure_replay fold_left]. unfold zstep. cbn [d_name d_src].
      destruct (field_of_nodot (p_name p) Hp) as [A B]. rewrite A, B.
      rewrite zip_upd_hit by assumption. reflexivity.
  Qed.
End Fill.

Lemma pure_replay_app ps A B st : pure_replay ps (A ++ B) st = pure_replay ps B (pure_replay ps A st).
Proof. apply fold_left_app. Qed.

Lemma replay_enum : forall todo done insd inst,
  length insd = length done -> Forall2 port_shape todo inst ->
  NoDup (map p_name (done ++ todo)) -> Forall pname_ok todo ->
  pure_replay (done ++ todo) (enum_deps todo inst) (insd ++ map (fun _ => []) todo) = insd ++ inst.
Proof.
  induction todo as [|p t IH]; intros done insd inst Hl Hs Hnd Hn.
  - inversion Hs; subst. reflexivity.
  - inversion Hs as [|? l ? it Hpl Hs']; subst. inversion Hn; subst.
    rewrite map_app in Hnd. cbn [map] in Hnd.
    pose proof (NoDup_remove_2 _ _ _ Hnd) as Hnotin.
    assert (Hd : ~ In (p_name p) (map p_name done)) by (intros X; apply Hnotin, in_or_app; left; exact X).
    assert (Ht : ~ In (p_name p) (map p_name t)) by (intros X; apply Hnotin, in_or_app; right; exact X).
    cbn [enum_deps map]. rewrite pure_replay_app.
    rewrite replay_enum_port; auto; [|rewrite map_length; reflexivity].
    replace (done ++ p :: t) with ((done ++ [p]) ++ t) by (rewrite <- app_assoc; reflexivity).
    replace (insd ++ l :: map (fun _ : port => []) t) with ((insd ++ [l]) ++ map (fun _ : port => []) t)
      by (rewrite <- app_assoc; reflexivity).
    rewrite IH; auto.
    + rewrite <- app_assoc. reflexivity.
    + rewrite !app_length. cbn. lia.
    + rewrite <- app_assoc. cbn. rewrite map_app. cbn. exact Hnd.
Qed.

(* ---- acceptance ---- *)
Lemma find_port_In : forall ps p, NoDup (map p_name ps) -> In p ps -> find_port ps (p_name p) = Some p.
Proof.
  induction ps as [|q ps IH]; intros p Hnd Hin; [destruct Hin|].
  inversion Hnd; subst. unfold find_port. cbn.
  destruct (String.eqb_spec (p_name q) (p_name p)) as [E|E].
  - destruct Hin as [Hin|Hin]; [subst; reflexivity|].
    exfalso. apply H1. rewrite E. apply in_map, Hin.
  - destruct Hin as [Hin|Hin]; [subst; congruence|]. apply IH; auto.
Qed.

Definition srcs_ok (T : table) (tl : list (id * nat)) (p : port) (l : list id) : Prop :=
  Forall (fun src => has_src T tl src (p_vt p) = true) l.

Lemma acc_enum T tl ps : NoDup (map p_name ps) -> Forall pname_ok ps ->
  forall todo inst, (forall p, In p todo -> In p ps) -> Forall2 (srcs_ok T tl) todo inst ->
  Forall (fun d => acc T tl ps d = true) (enum_deps todo inst).
Proof.
  intros Hnd Hn. induction todo as [|p t IH]; intros inst Hsub Hs; [constructor|].
  inversion Hs as [|? l ? it Hpl Hs']; subst. cbn. apply Forall_app. split.
  - apply Forall_forall. intros d Hd.
    assert (Hp : In p ps) by (apply Hsub; left; reflexivity).
    assert (Hpn : pname_ok p) by (eapply Forall_forall in Hn; eauto).
    destruct (enum_port_field p l d Hpn Hd) as (F & D & O & S).
    unfold acc, accepts. unfold dfield in F. rewrite O, F, (find_port_In ps p Hnd Hp), D. cbn.
    rewrite Bool.eqb_reflx. cbn. unfold srcs_ok in Hpl. eapply Forall_forall in Hpl; eauto.
  - apply IH; auto. intros q Hq. apply Hsub. right. exact Hq.
Qed.

(* the dependency list a node saves, replayed on a freshly built node, rebuilds its inputs exactly *)
Theorem deps_roundtrip T tl ps ins :
  NoDup (map p_name ps) -> Forall pname_ok ps -> Forall2 port_shape ps ins -> Forall2 (srcs_ok T tl) ps ins ->
  fold_opt (dstep T tl ps) (sort_deps dep_less (enum_deps ps ins)) (map (fun _ => []) ps) = Some ins.
Proof.
  intros Hnd Hn Hs Hsrc.
  rewrite replay_ok.
  - f_equal. rewrite sort_replay by (apply asc_enum_deps; auto).
    apply (replay_enum ps [] [] ins); auto.
  - unfold sort_deps. apply isort_Forall. apply (acc_enum T tl ps Hnd Hn ps ins); auto.
Qed.

(* ------------------------------------------------------------------------------------------------ *)
(* 2. well-formed tables, nodes and instances                                                        *)
(* ------------------------------------------------------------------------------------------------ *)

(* [r0]: the record of a freshly built node of the type; [r]: the record of a live node *)
Definition par_ok (k : pkind) (r0 r : prec) : Prop :=
  match k with
  | PNone => False
  | PValue => (exists d, pr_def r = Some d) /\ (exists v, pr_val r = Some v)
  | PFile | PImage =>
      pr_def r = pr_def r0 /\ pr_val r0 = None /\ (pr_val r = None \/ exists b, pr_val r = Some (JBytes b))
  end.

Definition ty_ok (t : ty) : Prop :=
  NoDup (map p_name (t_ports t)) /\ Forall pname_ok (t_ports t) /\
  match t_def t with Some r0 => par_ok (t_kind t) r0 r0 | None => True end.
Definition table_ok (T : table) : Prop := Forall ty_ok T.

Definition node_ok (T : table) (tl : list (id * nat)) (n : node) : Prop :=
  exists t, nth_error T (n_ty n) = Some t /\
    Forall2 port_shape (t_ports t) (n_in n) /\ Forall2 (srcs_ok T tl) (t_ports t) (n_in n) /\
    match n_par n, t_def t with
    | Some r, Some r0 => par_ok (t_kind t) r0 r
    | None, None => True
    | _, _ => False
    end.

Definition valid (T : table) (s : inst) : Prop :=
  Forall (fun e => node_ok T (tys s) (snd e)) (i_nodes s) /\
  Forall (fun e => is_artifact T (tys s) (snd e) = true) (i_prods s).

Lemma table_ok_nth T k t : table_ok T -> nth_error T k = Some t -> ty_ok t.
Proof. intros H E. eapply Forall_forall in H; [exact H|]. eapply nth_error_In, E. Qed.

(* ------------------------------------------------------------------------------------------------ *)
(* 3. save / load round trip                                                                         *)
(* ------------------------------------------------------------------------------------------------ *)

Lemma skipn_app_exact {A} (a b : list A) : skipn (length a) (a ++ b) = b.
Proof. induction a; cbn; auto. Qed.
Lemma firstn_app_exact {A} (a b : list A) : firstn (length a) (a ++ b) = a.
Proof. induction a; cbn; [reflexivity|]. f_equal. auto. Qed.

Lemma par_roundtrip k r0 r pre post :
  par_ok k r0 r ->
  (k = PFile -> (exists b, pr_val r = Some (JBytes b)) -> post = []) ->
  decode_par k (pre ++ snd (encode_par k (N.of_nat (length pre)) r) ++ post) r0
             (fst (encode_par k (N.of_nat (length pre)) r)) = r.
Proof.
  intros Hok Hpost. destruct r as [nm ds df vl cl]. unfold par_ok in Hok. cbn [pr_def pr_val] in *.
  destruct k.
  - destruct Hok.
  - destruct Hok as [[d Hd] [v Hv]]. subst. reflexivity.
  - destruct Hok as (Hd & H0 & Hv). unfold encode_par, decode_par. cbn [pr_val pr_name pr_desc pr_cli pr_def].
    destruct Hv as [Hv|[b Hv]]; subst vl.
    + cbn. rewrite H0, Hd. reflexivity.
    + cbn [fst snd s_name s_desc s_def s_cur s_cli decode_field read_view].
      rewrite (Hpost eq_refl (ex_intro _ b eq_refl)). rewrite app_nil_r.
      rewrite !Nat2N.id, skipn_app_exact, Hd. reflexivity.
  - destruct Hok as (Hd & H0 & Hv). unfold encode_par, decode_par. cbn [pr_val pr_name pr_desc pr_cli pr_def].
    destruct Hv as [Hv|[b Hv]]; subst vl.
    + cbn. rewrite H0, Hd. reflexivity.
    + cbn [fst snd s_name s_desc s_def s_cur s_cli decode_field read_view].
      rewrite !Nat2N.id, skipn_app_exact, firstn_app_exact, Hd. reflexivity.
Qed.

Lemma encode_node_fst less T off e :
  s_id (fst (encode_node less T off e)) = fst e /\ s_ty (fst (encode_node less T off e)) = n_ty (snd e).
Proof.
  unfold encode_node. destruct (n_par (snd e)); [destruct (encode_par _ _ _)|]; cbn; auto.
Qed.

Lemma encode_par_payload k off r : snd (encode_par k off r) = snd (encode_par k 0 r).
Proof. unfold encode_par. destruct k; try reflexivity; destruct (pr_val r) as [[]|]; reflexivity. Qed.

Lemma encode_node_snd less T off e : snd (encode_node less T off e) = payload T (snd e).
Proof.
  unfold encode_node, payload. destruct (n_par (snd e)) as [r|]; [|reflexivity].
  rewrite <- (encode_par_payload _ off r). destruct (encode_par _ _ _); reflexivity.
Qed.

Lemma encode_nodes_snd less T : forall l off, snd (encode_nodes less T off l) = buffer_of T l.
Proof.
  induction l as [|e l IH]; intros off; [reflexivity|].
  cbn [encode_nodes]. pose proof (encode_node_snd less T off e) as Hp.
  destruct (encode_node less T off e) as [sn p]. specialize (IH (off + N.of_nat (length p))).
  destruct (encode_nodes less T (off + N.of_nat (length p)) l) as [sns b]. cbn in *. subst. reflexivity.
Qed.

Lemma encode_nodes_tys less T : forall l off,
  map (fun sn => (s_id sn, s_ty sn)) (fst (encode_nodes less T off l)) = map (fun e => (fst e, n_ty (snd e))) l.
Proof.
  induction l as [|e l IH]; intros off; [reflexivity|].
  cbn [encode_nodes]. pose proof (encode_node_fst less T off e) as [Hi Ht].
  destruct (encode_node less T off e) as [sn p]. specialize (IH (off + N.of_nat (length p))).
  destruct (encode_nodes less T (off + N.of_nat (length p)) l) as [sns b]. cbn in *. rewrite Hi, Ht, IH. reflexivity.
Qed.

Lemma node_roundtrip T tl pre post e :
  table_ok T -> node_ok T tl (snd e) ->
  (file_payload T (snd e) = true -> post = []) ->
  decode_node T tl (pre ++ snd (encode_node dep_less T (N.of_nat (length pre)) e) ++ post)
              (fst (encode_node dep_less T (N.of_nat (length pre)) e)) = Some e.
Proof.
  intros HT (t & Ht & Hshape & Hsrc & Hpar) Hpost. destruct e as [i [k ins par]]. cbn [snd fst n_ty n_in n_par] in *.
  destruct (table_ok_nth T k t HT Ht) as (Hnd & Hpn & _).
  assert (Hdeps : fold_opt (dstep T tl (t_ports t)) (sort_deps dep_less (enum_deps (t_ports t) ins))
                           (map (fun _ => []) (t_ports t)) = Some ins) by (apply deps_roundtrip; auto).
  unfold encode_node. cbn [snd fst n_ty n_in n_par]. unfold ports_of, kind_of. rewrite Ht.
  unfold file_payload, kind_of in Hpost. cbn [n_ty n_par] in Hpost. rewrite Ht in Hpost.
  destruct par as [r|]; destruct (t_def t) as [r0|] eqn:Ed; try contradiction.
  - pose proof (par_roundtrip (t_kind t) r0 r pre post Hpar) as Hr.
    destruct (encode_par (t_kind t) (N.of_nat (length pre)) r) as [d p] eqn:Ep. cbn [fst snd] in *.
    unfold decode_node. cbn [s_ty s_deps s_data s_id]. rewrite Ht. cbn [bind]. cbn [fresh n_in].
    change (fun (ins0 : list (list id)) (d0 : sdep) =>
              if String.eqb (d_port d0) "Out" then set_input T tl (t_ports t) ins0 (d_name d0) (d_src d0) else None)
      with (dstep T tl (t_ports t)).
    rewrite Hdeps. cbn [bind]. rewrite Ed. cbn [bind]. rewrite Hr; [reflexivity|].
    intros Hk [b Hb]. apply Hpost. rewrite Hk, Hb. reflexivity.
  - cbn [fst snd app]. unfold decode_node. cbn [s_ty s_deps s_data s_id]. rewrite Ht. cbn [bind]. cbn [fresh n_in].
    change (fun (ins0 : list (list id)) (d0 : sdep) =>
              if String.eqb (d_port d0) "Out" then set_input T tl (t_ports t) ins0 (d_name d0) (d_src d0) else None)
      with (dstep T tl (t_ports t)).
    rewrite Hdeps. cbn [bind]. rewrite Ed. reflexivity.
Qed.

Lemma nodes_roundtrip T tl : table_ok T -> forall l pre,
  Forall (fun e => node_ok T tl (snd e)) l -> no_overread T l ->
  map_opt (decode_node T tl (pre ++ snd (encode_nodes dep_less T (N.of_nat (length pre)) l)))
          (fst (encode_nodes dep_less T (N.of_nat (length pre)) l)) = Some l.
Proof.
  intros HT. induction l as [|e l IH]; intros pre Hok Hno; [reflexivity|].
  inversion Hok as [|? ? He Hl]; subst. destruct Hno as [Hfile Hno].
  cbn [encode_nodes].
  pose proof (node_roundtrip T tl pre (buffer_of T l) e HT He Hfile) as Hnode.
  destruct (encode_node dep_less T (N.of_nat (length pre)) e) as [sn p] eqn:E1. cbn [fst snd] in Hnode.
  replace (N.of_nat (length pre) + N.of_nat (length p)) with (N.of_nat (length (pre ++ p)))
    by (rewrite app_length; lia).
  specialize (IH (pre ++ p) Hl Hno).
  pose proof (encode_nodes_snd dep_less T l (N.of_nat (length (pre ++ p)))) as Hb.
  destruct (encode_nodes dep_less T (N.of_nat (length (pre ++ p))) l) as [sns b] eqn:E2. cbn [fst snd] in *.
  subst b. cbn [map_opt]. rewrite Hnode. rewrite <- app_assoc in IH. rewrite IH. reflexivity.
Qed.

Theorem reload_valid T s :
  table_ok T -> valid T s -> no_overread T (i_nodes s) -> decode T (encode T s) = Some s.
Proof.
  intros HT [Hn Hp] Hno. unfold encode, encode_with.
  pose proof (nodes_roundtrip T (tys s) HT (i_nodes s) [] Hn Hno) as Hr. cbn [length app] in Hr.
  change (N.of_nat 0) with 0 in Hr.
  pose proof (encode_nodes_tys dep_less T (i_nodes s) 0) as Ht.
  destruct (encode_nodes dep_less T 0 (i_nodes s)) as [sns buf]. cbn [fst snd] in *.
  unfold decode. cbn [s_nodes s_buf s_prods s_meta]. rewrite Ht. fold (tys s). rewrite Hr. cbn [bind].
  assert (Hf : forallb (fun '(_, i, p) => String.eqb p "Out" && is_artifact T (tys s) i)
                       (map (fun e : string * id => (fst e, snd e, "Out"%string)) (i_prods s)) = true).
  { apply forallb_forall. intros x Hx. apply in_map_iff in Hx. destruct Hx as (e & <- & He).
    eapply Forall_forall in Hp; [|exact He]. cbn. exact Hp. }
  rewrite Hf. rewrite map_map.
  assert (Hm : map (fun x : string * id => (fst x, snd x)) (i_prods s) = i_prods s).
  { clear. induction (i_prods s) as [|[a b] l IH]; cbn; [reflexivity|]. rewrite IH. reflexivity. }
  cbn. rewrite Hm. destruct s; reflexivity.
Qed.

(* ------------------------------------------------------------------------------------------------ *)
(* 4. every editing operation preserves the invariant                                                *)
(* ------------------------------------------------------------------------------------------------ *)

Lemma insert_In_iff {A} (less : A -> A -> bool) x y l : In y (insert less x l) <-> y = x \/ In y l.
Proof.
  split; [apply insert_In|]. induction l as [|z l IH]; cbn.
  - intros [H|[]]; auto.
  - destruct (less x z); cbn; intros [H|[H|H]]; auto.
Qed.

Lemma existsb_incl {A} (f : A -> bool) l l' :
  (forall x, In x l -> In x l') -> existsb f l = true -> existsb f l' = true.
Proof.
  intros Hi H. apply existsb_exists in H. destruct H as (x & Hx & Hf). apply existsb_exists. exists x. auto.
Qed.

Lemma Forall2_impl_in {A B} (P Q : A -> B -> Prop) : forall la lb,
  Forall2 P la lb -> (forall a b, In b lb -> P a b -> Q a b) -> Forall2 Q la lb.
Proof.
  induction 1; intros H'; constructor.
  - apply H'; [left; reflexivity | assumption].
  - apply IHForall2. intros a b Hb. apply H'. right. exact Hb.
Qed.

(* node_ok only looks at the sources a node actually uses *)
Lemma node_ok_tl T tl tl' n :
  node_ok T tl n ->
  (forall src vt l, In l (n_in n) -> In src l -> has_src T tl src vt = true -> has_src T tl' src vt = true) ->
  node_ok T tl' n.
Proof.
  intros (t & Ht & Hs & Hsrc & Hp) Hmono. exists t. repeat split; auto.
  eapply Forall2_impl_in; [exact Hsrc|]. intros p l Hl Hok. unfold srcs_ok in *.
  apply Forall_forall. intros src Hin. eapply Hmono; eauto. eapply Forall_forall in Hok; eauto.
Qed.

Lemma insert_Forall' {A} (less : A -> A -> bool) (P : A -> Prop) x l : P x -> Forall P l -> Forall P (insert less x l).
Proof. apply insert_Forall. Qed.

Lemma put_Forall {V} (P : string * V -> Prop) k v l : P (k, v) -> Forall P l -> Forall P (put k v l).
Proof.
  intros Hk Hl. induction Hl as [|[k' v'] l Hx Hl IH]; cbn; [repeat constructor; auto|].
  destruct (String.eqb k k'); [constructor; auto|]. destruct (str_ltb k k'); repeat constructor; auto.
Qed.

Lemma filter_Forall {A} (P : A -> Prop) f l : Forall P l -> Forall P (filter f l).
Proof. induction 1; cbn; [constructor|]. destruct (f x); auto. Qed.

Lemma tys_map_node i f l : (forall n, n_ty (f n) = n_ty n) ->
  map (fun e : id * node => (fst e, n_ty (snd e))) (map_node i f l) = map (fun e => (fst e, n_ty (snd e))) l.
Proof.
  intros Hf. unfold map_node. rewrite map_map. apply map_ext. intros [j n]. cbn.
  destruct (String.eqb i j); cbn; [rewrite Hf|]; reflexivity.
Qed.

Lemma map_node_Forall (P : id * node -> Prop) i f l :
  Forall P l -> (forall e, P e -> P (fst e, f (snd e))) -> Forall P (map_node i f l).
Proof.
  intros Hl Hf. unfold map_node. apply Forall_forall. intros x Hx. apply in_map_iff in Hx.
  destruct Hx as (e & <- & He). eapply Forall_forall in Hl; [|exact He].
  destruct (String.eqb i (fst e)); [apply Hf, Hl | exact Hl].
Qed.

Lemma zip_upd_Forall2 (P : port -> list id -> Prop) f g : forall ps ins,
  Forall2 P ps ins -> (forall q l, In q ps -> P q l -> String.eqb (p_name q) f = true -> P q (g l)) ->
  Forall2 P ps (zip_upd ps ins f g).
Proof.
  induction 1 as [|q l ps ins Hq Hr IH]; intros Hg; cbn; constructor.
  - destruct (String.eqb (p_name q) f) eqn:E; [apply Hg; auto; left; reflexivity | exact Hq].
  - apply IH. intros q' l' Hin. apply Hg. right. exact Hin.
Qed.

Lemma find_port_name ps f p : find_port ps f = Some p -> p_name p = f /\ In p ps.
Proof.
  unfold find_port. intros H. apply find_some in H. destruct H as [Hin He]. apply String.eqb_eq in He. auto.
Qed.

Lemma set_input_ok T tl ps ins name src ins' :
  NoDup (map p_name ps) ->
  Forall2 port_shape ps ins -> Forall2 (srcs_ok T tl) ps ins ->
  set_input T tl ps ins name src = Some ins' ->
  Forall2 port_shape ps ins' /\ Forall2 (srcs_ok T tl) ps ins'.
Proof.
  intros Hnd Hs Hsrc H. unfold set_input in H. destruct (accepts T tl ps name src) eqn:Ea; [|discriminate].
  injection H as <-. unfold accepts in Ea. destruct (find_port ps (field_of name)) as [p|] eqn:Ef; [|discriminate].
  apply andb_prop in Ea. destruct Ea as [Harr Hsrc1]. apply Bool.eqb_prop in Harr.
  destruct (find_port_name _ _ _ Ef) as [Hname Hin].
  assert (Hq : forall q, In q ps -> String.eqb (p_name q) (field_of name) = true -> q = p).
  { intros q Hq He. apply String.eqb_eq in He. rewrite <- He in Ef. rewrite (find_port_In ps q Hnd Hq) in Ef. congruence. }
  split; apply zip_upd_Forall2; auto.
  - intros q l Hqin _ He Harrq. rewrite (Hq q Hqin He), Harr in Harrq. rewrite Harrq. cbn. lia.
  - intros q l Hqin Hl He. rewrite (Hq q Hqin He). unfold srcs_ok in *. rewrite (Hq q Hqin He) in Hl.
    destruct (dotted name); [apply Forall_app; split; auto|]; repeat constructor; auto.
Qed.

Lemma remove_nth_incl {A} (P : A -> Prop) : forall l k, Forall P l -> Forall P (remove_nth k l).
Proof.
  induction l as [|x l IH]; intros k H; destruct k; cbn; auto; inversion H; subst; auto.
Qed.
Lemma remove_nth_length {A} : forall (l : list A) k, (length (remove_nth k l) <= length l)%nat.
Proof. induction l as [|x l IH]; intros k; destruct k; cbn; auto. specialize (IH k). lia. Qed.

Lemma clear_input_ok T tl ps ins name ins' :
  Forall2 port_shape ps ins -> Forall2 (srcs_ok T tl) ps ins ->
  clear_input ps ins name = Some ins' ->
  Forall2 port_shape ps ins' /\ Forall2 (srcs_ok T tl) ps ins'.
Proof.
  intros Hs Hsrc H. unfold clear_input in H.
  destruct (lsplit name) as [[f rest]|].
  - destruct (atoi_idx rest) as [idx|]; [|discriminate]. cbn [bind] in H.
    destruct (find_port ps f) as [p|]; [|discriminate]. cbn [bind] in H.
    destruct (port_val ps ins f) as [l|]; [|discriminate]. cbn [bind] in H.
    destruct (p_array p && (idx <? N.of_nat (length l))); [|discriminate]. injection H as <-.
    split; apply zip_upd_Forall2; auto.
    + intros q l' _ Hl _ Ha. specialize (Hl Ha). pose proof (remove_nth_length l' (N.to_nat idx)). lia.
    + intros q l' _ Hl _. apply remove_nth_incl, Hl.
  - destruct (find_port ps name) as [p|]; [|discriminate]. cbn [bind] in H. injection H as <-.
    split; apply zip_upd_Forall2; auto.
    + intros q l' _ _ _ _. cbn. lia.
    + intros q l' _ _ _. constructor.
Qed.

Lemma node_ok_in T tl n ins' :
  node_ok T tl n ->
  (forall t, nth_error T (n_ty n) = Some t ->
     Forall2 port_shape (t_ports t) ins' /\ Forall2 (srcs_ok T tl) (t_ports t) ins') ->
  node_ok T tl (mknode (n_ty n) ins' (n_par n)).
Proof.
  intros (t & Ht & _ & _ & Hp) H. destruct (H t Ht) as [A B]. exists t. cbn. auto.
Qed.

Lemma node_ok_par T tl n (f : prec -> prec) :
  node_ok T tl n ->
  (forall k r0 r, par_ok k r0 r -> kind_of T (n_ty n) = k -> par_ok k r0 (f r)) ->
  node_ok T tl (set_par n f).
Proof.
  intros (t & Ht & Hs & Hsrc & Hp) Hf. exists t. unfold set_par. cbn. repeat split; auto.
  destruct (n_par n) as [r|]; destruct (t_def t) as [r0|]; auto.
  apply Hf; auto. unfold kind_of. rewrite Ht. reflexivity.
Qed.

Lemma has_src_del T tl i src vt : src <> i ->
  has_src T tl src vt = true -> has_src T (filter (fun e => negb (String.eqb i (fst e))) tl) src vt = true.
Proof.
  intros Hne H. unfold has_src in *. apply existsb_exists in H. destruct H as (e & He & Hf).
  apply existsb_exists. exists e. split; [|exact Hf]. apply filter_In. split; [exact He|].
  apply andb_prop in Hf. destruct Hf as [Hid _]. apply String.eqb_eq in Hid.
  apply negb_true_iff. apply String.eqb_neq. congruence.
Qed.

Lemma is_artifact_del T tl i j : j <> i ->
  is_artifact T tl j = true -> is_artifact T (filter (fun e => negb (String.eqb i (fst e))) tl) j = true.
Proof.
  intros Hne H. unfold is_artifact in *. apply existsb_exists in H. destruct H as (e & He & Hf).
  apply existsb_exists. exists e. split; [|exact Hf]. apply filter_In. split; [exact He|].
  apply andb_prop in Hf. destruct Hf as [Hid _]. apply String.eqb_eq in Hid.
  apply negb_true_iff. apply String.eqb_neq. congruence.
Qed.

Lemma tys_del i (l : list (id * node)) :
  map (fun e : id * node => (fst e, n_ty (snd e))) (del i l)
  = filter (fun e => negb (String.eqb i (fst e))) (map (fun e => (fst e, n_ty (snd e))) l).
Proof.
  unfold del. induction l as [|[j n] l IH]; cbn; [reflexivity|].
  destruct (negb (String.eqb i j)); cbn; rewrite IH; reflexivity.
Qed.

Lemma mem_In x l : mem x l = true <-> In x l.
Proof.
  unfold mem. rewrite existsb_exists. split.
  - intros (y & Hy & He). apply String.eqb_eq in He. subst. exact Hy.
  - intros H. exists x. split; [exact H | apply String.eqb_refl].
Qed.

Lemma not_depended s i e l src :
  depended_on s i = false -> In e (i_nodes s) -> In l (n_in (snd e)) -> In src l -> src <> i.
Proof.
  intros Hd He Hl Hs Heq. subst src. unfold depended_on in Hd.
  assert (X : existsb (fun e0 : id * node => existsb (mem i) (n_in (snd e0))) (i_nodes s) = true).
  { apply existsb_exists. exists e. split; [exact He|]. apply existsb_exists. exists l. split; [exact Hl|].
    apply mem_In, Hs. }
  congruence.
Qed.

Lemma valid_empty T : valid T empty.
Proof. split; constructor. Qed.

Theorem step_valid T s o : table_ok T -> valid T s -> valid T (fst (step T s o)).
Proof.
  intros HT [Hn Hp]. destruct o; cbn [step].
  - (* create *)
    destruct (nth_error T k) as [t|] eqn:Et; [|split; assumption]. cbn [fst].
    set (e := (alloc (ids s), fresh t k)).
    assert (Hincl : forall x, In x (tys s) -> In x (tys (set_nodes s (insert_node e (i_nodes s))))).
    { intros x Hx. unfold tys in Hx. unfold tys, set_nodes, insert_node. cbn [i_nodes]. apply in_map_iff in Hx.
      destruct Hx as (y & <- & Hy). apply (in_map (fun e0 : id * node => (fst e0, n_ty (snd e0)))).
      apply insert_In_iff. right. exact Hy. }
    split.
    + unfold set_nodes at 2. cbn [i_nodes]. unfold insert_node. apply insert_Forall.
      * destruct (table_ok_nth T k t HT Et) as (_ & _ & Hd).
        exists t. cbn. repeat split; auto.
        -- clear. induction (t_ports t); cbn; constructor; auto. intros _. cbn. lia.
        -- clear. induction (t_ports t); cbn; constructor; auto. constructor.
        -- destruct (t_def t); auto.
      * eapply Forall_impl; [|exact Hn]. intros x Hx. eapply node_ok_tl; [exact Hx|].
        intros src vt l _ _ H. unfold has_src in *. eapply existsb_incl; [|exact H]. exact Hincl.
    + unfold set_nodes at 2. cbn [i_prods]. eapply Forall_impl; [|exact Hp]. intros x Hx.
      unfold is_artifact in *. eapply existsb_incl; [|exact Hx]. exact Hincl.
  - (* delete *)
    destruct (depended_on s i) eqn:Ed; [split; assumption|]. cbn [fst]. unfold valid, tys. cbn [i_nodes i_prods].
    rewrite tys_del. fold (tys s). split.
    + unfold del. apply Forall_forall. intros e He. apply filter_In in He. destruct He as [He _].
      eapply Forall_forall in Hn; [|exact He]. eapply node_ok_tl; [exact Hn|].
      intros src vt l Hl Hs. apply has_src_del. eapply not_depended; eauto.
    + apply Forall_forall. intros e He. apply filter_In in He. destruct He as [He Hne].
      eapply Forall_forall in Hp; [|exact He]. apply is_artifact_del; [|exact Hp].
      apply negb_true_iff in Hne. apply String.eqb_neq in Hne. intros X. apply Hne. symmetry. exact X.
  - (* connect *)
    destruct (find_node s dst) as [nd|]; [|split; assumption].
    destruct (find_node s src); [|split; assumption].
    destruct (set_input T (tys s) (ports_of T (n_ty nd)) (n_in nd) port src); [|split; assumption].
    cbn [fst]. unfold valid, tys, set_nodes. cbn [i_nodes i_prods].
    rewrite tys_map_node by (intros n0; destruct (set_input _ _ _ _ _ _); reflexivity). fold (tys s).
    split; [|exact Hp]. apply map_node_Forall; [exact Hn|]. intros e He. cbn [snd].
    destruct (set_input T (tys s) (ports_of T (n_ty (snd e))) (n_in (snd e)) port src) as [ins'|] eqn:Es; [|exact He].
    apply node_ok_in; [exact He|]. intros t Ht. unfold ports_of in Es. rewrite Ht in Es.
    destruct He as (t' & Ht' & Hs & Hsrc & _). rewrite Ht in Ht'. injection Ht' as <-.
    destruct (table_ok_nth T _ t HT Ht) as (Hnd & _ & _). eapply set_input_ok; eauto.
  - (* disconnect *)
    destruct (find_node s dst) as [nd|]; [|split; assumption].
    destruct (clear_input (ports_of T (n_ty nd)) (n_in nd) port); [|split; assumption].
    cbn [fst]. unfold valid, tys, set_nodes. cbn [i_nodes i_prods].
    rewrite tys_map_node by (intros n0; destruct (clear_input _ _ _); reflexivity). fold (tys s).
    split; [|exact Hp]. apply map_node_Forall; [exact Hn|]. intros e He. cbn [snd].
    destruct (clear_input (ports_of T (n_ty (snd e))) (n_in (snd e)) port) as [ins'|] eqn:Es; [|exact He].
    apply node_ok_in; [exact He|]. intros t Ht. unfold ports_of in Es. rewrite Ht in Es.
    destruct He as (t' & Ht' & Hs & Hsrc & _). rewrite Ht in Ht'. injection Ht' as <-.
    eapply clear_input_ok; eauto.
  - (* update *)
    destruct (find_node s i) as [n|]; [|split; assumption].
    destruct (n_par n); [|split; assumption].
    destruct (value_fits (kind_of T (n_ty n)) v); [|split; assumption].
    cbn [fst]. unfold valid, tys, set_nodes. cbn [i_nodes i_prods].
    rewrite tys_map_node by (intros n0; destruct (value_fits _ _); reflexivity). fold (tys s).
    split; [|exact Hp]. apply map_node_Forall; [exact Hn|]. intros e He. cbn [snd].
    destruct (value_fits (kind_of T (n_ty (snd e))) v) eqn:Ev; [|exact He].
    apply node_ok_par; [exact He|]. intros k r0 r Hok Hk. rewrite Hk in Ev.
    destruct k; cbn in *; auto.
    + destruct Hok as [Hd _]. split; [exact Hd | eexists; reflexivity].
    + destruct v; try discriminate. destruct Hok as (A & B & _). repeat split; auto. right. eexists. reflexivity.
    + destruct v; try discriminate. destruct Hok as (A & B & _). repeat split; auto. right. eexists. reflexivity.
  - (* bad update *) split; assumption.
  - (* name *)
    destruct (is_param s i); [|split; assumption].
    cbn [fst]. unfold valid, tys, set_nodes. cbn [i_nodes i_prods].
    rewrite tys_map_node by reflexivity. fold (tys s).
    split; [|exact Hp]. apply map_node_Forall; [exact Hn|]. intros e He. cbn [snd].
    apply node_ok_par; [exact He|]. intros k r0 r Hok _. destruct k; exact Hok.
  - (* description *)
    destruct (is_param s i); [|split; assumption].
    cbn [fst]. unfold valid, tys, set_nodes. cbn [i_nodes i_prods].
    rewrite tys_map_node by reflexivity. fold (tys s).
    split; [|exact Hp]. apply map_node_Forall; [exact Hn|]. intros e He. cbn [snd].
    apply node_ok_par; [exact He|]. intros k r0 r Hok _. destruct k; exact Hok.
  - (* producer *)
    destruct (is_artifact T (tys s) i) eqn:Ea; [|split; assumption].
    cbn [fst]. split; [exact Hn|]. cbn [i_prods]. unfold tys. cbn [i_nodes]. fold (tys s).
    apply put_Forall; [exact Ea|]. apply filter_Forall, Hp.
  - (* set metadata *)
    destruct (meta_set (split_dots path) v (i_meta s)); split; assumption.
  - (* delete metadata *)
    destruct (meta_del (split_dots path) (i_meta s)); split; assumption.
Qed.

Lemma run_from_valid T : table_ok T -> forall h s, valid T s -> valid T (fst (run_from T s h)).
Proof.
  intros HT. induction h as [|o h IH]; intros s Hs; [exact Hs|].
  cbn [run_from]. pose proof (step_valid T s o HT Hs) as H1.
  destruct (step T s o) as [s1 ok]. cbn [fst] in H1. specialize (IH s1 H1).
  destruct (run_from T s1 h) as [s2 oks]. exact IH.
Qed.

Theorem run_valid T h : table_ok T -> valid T (run T h).
Proof. intros HT. apply run_from_valid; [exact HT | apply valid_empty]. Qed.

(* ------------------------------------------------------------------------------------------------ *)
(* 5. headline theorems                                                                              *)
(* ------------------------------------------------------------------------------------------------ *)

(* after ANY edit history: loading the saved graph gives back the same instance (ids, types, wiring with
   array order, parameter records, producers, metadata) *)
Theorem reload_same T h :
  table_ok T -> no_overread T (i_nodes (run T h)) ->
  decode T (encode T (run T h)) = Some (run T h).
Proof. intros HT Hno. apply reload_valid; auto. apply run_valid, HT. Qed.

(* ... and saving the reloaded instance reproduces the saved schema *)
Theorem resave_same T h s' :
  table_ok T -> no_overread T (i_nodes (run T h)) ->
  decode T (encode T (run T h)) = Some s' -> encode T s' = encode T (run T h).
Proof. intros HT Hno H. rewrite reload_same in H by assumption. injection H as <-. reflexivity. Qed.

(* anything computed from the instance alone (artifacts of deterministic nodes) agrees before and after *)
Theorem artifacts_same T h s' {A} (artifact : inst -> A) :
  table_ok T -> no_overread T (i_nodes (run T h)) ->
  decode T (encode T (run T h)) = Some s' -> artifact s' = artifact (run T h).
Proof. intros HT Hno H. rewrite reload_same in H by assumption. injection H as <-. reflexivity. Qed.

(* a graph without File parameters never over-reads *)
Lemma no_file_no_overread T l :
  Forall (fun e : id * node => file_payload T (snd e) = false) l -> no_overread T l.
Proof. induction 1 as [|e l He Hl IH]; cbn; [exact I|]. split; [congruence | exact IH]. Qed.

(* KEY LEMMA, list form: sorting the names field.k0, field.k0+1, ... with the repaired comparator leaves
   them in index order, for any number of connections *)
Lemma sort_arr_index_order f : forall l k0, sort_deps dep_less (enum_arr f k0 l) = enum_arr f k0 l.
Proof.
  induction l as [|x l IH]; intros k0; [reflexivity|].
  unfold sort_deps in *. cbn [enum_arr isort]. rewrite IH.
  destruct l as [|y l]; [reflexivity|]. cbn [enum_arr insert d_name].
  rewrite dep_less_arr. replace (k0 <? k0 + 1) with true by (symmetry; apply N.ltb_lt; lia). reflexivity.
Qed.

(* ---- the id allocation rule yields a fresh id ---- *)
Lemma node_id_inj a b : node_id a = node_id b -> a = b.
Proof. unfold node_id. cbn. intros H. injection H as H. apply dec_inj, H. Qed.

Lemma alloc_from_taken used : forall fuel k,
  In (alloc_from fuel k used) used ->
  forall j, (j <= fuel)%nat -> In (node_id (k + N.of_nat j)) used.
Proof.
  induction fuel as [|fuel IH]; intros k H j Hj.
  - assert (j = 0%nat) by lia. subst. cbn in *. rewrite N.add_0_r. exact H.
  - cbn [alloc_from] in H. destruct (mem (node_id k) used) eqn:E.
    + destruct j as [|j]; [rewrite N.add_0_r; apply mem_In, E|].
      specialize (IH (k + 1) H j ltac:(lia)). replace (k + N.of_nat (S j)) with (k + 1 + N.of_nat j) by lia. exact IH.
    + apply mem_In in H. congruence.
Qed.

Theorem alloc_fresh used : ~ In (alloc used) used.
Proof.
  intros H. unfold alloc in H.
  pose proof (alloc_from_taken used _ _ H) as Hall.
  set (n := length used) in *.
  set (cands := map (fun j => node_id (N.of_nat n + N.of_nat j)) (seq 0 (S (S n)))).
  assert (Hnd : NoDup cands).
  { apply Injective_map_NoDup; [|apply seq_NoDup].
    intros a b Hab. apply node_id_inj in Hab. lia. }
  assert (Hincl : incl cands used).
  { intros x Hx. apply in_map_iff in Hx. destruct Hx as (j & <- & Hj). apply in_seq in Hj. apply Hall. lia. }
  pose proof (NoDup_incl_length Hnd Hincl) as Hlen. unfold cands in Hlen. rewrite map_length, seq_length in Hlen.
  subst n. clear - Hlen. unfold id in *. lia.
Qed.

(* ---- decidable table well-formedness ---- *)
Fixpoint nodupb (l : list string) : bool :=
  match l with [] => true | x :: r => negb (mem x r) && nodupb r end.
Lemma nodupb_sound l : nodupb l = true -> NoDup l.
Proof.
  induction l as [|x l IH]; cbn; intros H; constructor; apply andb_prop in H; destruct H as [A B]; auto.
  intros Hin. apply mem_In in Hin. rewrite Hin in A. discriminate.
Qed.

Definition par_okb (k : pkind) (r0 r : prec) : bool :=
  match k with
  | PNone => false
  | PValue => match pr_def r, pr_val r with Some _, Some _ => true | _, _ => false end
  | _ => match pr_def r, pr_def r0, pr_val r0, pr_val r with
         | None, None, None, None => true
         | None, None, None, Some (JBytes _) => true
         | _, _, _, _ => false
         end
  end.
Lemma par_okb_sound k r0 r : par_okb k r0 r = true -> par_ok k r0 r.
Proof.
  unfold par_okb, par_ok. destruct k; try discriminate.
  - destruct (pr_def r), (pr_val r); try discriminate. intros _. split; eexists; reflexivity.
  - destruct (pr_def r), (pr_def r0), (pr_val r0); try discriminate.
    destruct (pr_val r) as [[]|]; try discriminate; intros _; repeat split; auto. right. eexists. reflexivity.
  - destruct (pr_def r), (pr_def r0), (pr_val r0); try discriminate.
    destruct (pr_val r) as [[]|]; try discriminate; intros _; repeat split; auto. right. eexists. reflexivity.
Qed.

Definition ty_okb (t : ty) : bool :=
  nodupb (map p_name (t_ports t)) && forallb (fun p => no_dot (p_name p)) (t_ports t)
  && match t_def t with Some r0 => par_okb (t_kind t) r0 r0 | None => true end.
Definition table_okb (T : table) : bool := forallb ty_okb T.

Lemma table_okb_sound T : table_okb T = true -> table_ok T.
Proof.
  unfold table_okb, table_ok. intros H. apply Forall_forall. intros t Ht.
  eapply forallb_forall in H; [|exact Ht]. unfold ty_okb in H.
  apply andb_prop in H. destruct H as [H C]. apply andb_prop in H. destruct H as [A B].
  split; [apply nodupb_sound, A|]. split.
  - apply Forall_forall. intros p Hp. eapply forallb_forall in B; [|exact Hp]. exact B.
  - destruct (t_def t); [apply par_okb_sound, C | exact I].
Qed.

(* ------------------------------------------------------------------------------------------------ *)
(* 6. witnesses: what goes wrong without the repairs                                                 *)
(* ------------------------------------------------------------------------------------------------ *)

(* a two-type factory: a float parameter and a node with one array input *)
Definition demo_table : table :=
  [ mkty [] 1 PValue false (Some (mkprec "" "" (Some (JInt 0)) (Some (JInt 0)) None));
    mkty [P "Values" true 1] 1 PNone false None;
    mkty [] 10 PFile false (Some (mkprec "" "" None None None)) ].

Lemma demo_table_ok : table_ok demo_table.
Proof. apply table_okb_sound. vm_compute. reflexivity. Qed.

(* create the array node, then k parameters, each connected to the next index *)
Fixpoint connect_many (k : nat) (from : N) : list op :=
  match k with
  | O => []
  | S k' => OCreate 0 :: OConnect (node_id from) (node_id 0) (arr_name "Values" (from - 1)) :: connect_many k' (from + 1)
  end.
Definition eleven : list op := OCreate 1 :: connect_many 11 1.

Definition wiring_of (o : option inst) : list (list (list id)) :=
  match o with Some s => map (fun e => n_in (snd e)) (i_nodes s) | None => [] end.

(* the pinned comparator (lower-cased lexicographic): with 11 connections on one array input the reload
   permutes them ("Values.10" sorts before "Values.2") *)
Theorem lexicographic_sort_refuted_witness :
  decode demo_table (encode_pinned demo_table (run demo_table eleven)) <> Some (run demo_table eleven).
Proof.
  intros H. apply (f_equal wiring_of) in H. vm_compute in H. discriminate H.
Qed.

(* ... while the repaired comparator reloads the very same history exactly (instance of reload_same) *)
Example eleven_reloads :
  decode demo_table (encode demo_table (run demo_table eleven)) = Some (run demo_table eleven).
Proof.
  apply reload_same; [apply demo_table_ok|]. vm_compute. repeat split; intros; discriminate.
Qed.

(* the File over-read of the jbtf dependency: two File parameters, the first reloads with the second's bytes
   appended *)
Definition two_files : list op :=
  [OCreate 2; OCreate 2; OUpdate (node_id 0) (JBytes [65; 65; 65]); OUpdate (node_id 1) (JBytes [66; 66])].

Theorem file_overread_refuted_witness :
  decode demo_table (encode demo_table (run demo_table two_files)) <> Some (run demo_table two_files)
  /\ ~ no_overread demo_table (i_nodes (run demo_table two_files)).
Proof.
  split.
  - intros H. apply (f_equal (fun o => match o with Some s => map (fun e => n_par (snd e)) (i_nodes s) | None => [] end)) in H.
    vm_compute in H. discriminate H.
  - vm_compute. intros [H _]. specialize (H eq_refl). discriminate H.
Qed.

(* ------------------------------------------------------------------------------------------------ *)
(* 8. the repaired reading discipline: the round trip holds WITHOUT the over-read side condition      *)
(* ------------------------------------------------------------------------------------------------ *)
Lemma par_roundtrip_fixed k r0 r pre post :
  par_ok k r0 r ->
  decode_par_fixed (pre ++ snd (encode_par k (N.of_nat (length pre)) r) ++ post) r0
                   (fst (encode_par k (N.of_nat (length pre)) r)) = r.
Proof.
  intros Hok. destruct r as [nm ds df vl cl]. unfold par_ok in Hok. cbn [pr_def pr_val] in *.
  destruct k.
  - destruct Hok.
  - destruct Hok as [[d Hd] [v Hv]]. subst. reflexivity.
  - destruct Hok as (Hd & H0 & Hv). unfold encode_par, decode_par_fixed. cbn [pr_val pr_name pr_desc pr_cli pr_def].
    destruct Hv as [Hv|[b Hv]]; subst vl.
    + cbn. rewrite H0, Hd. reflexivity.
    + cbn [fst snd s_name s_desc s_def s_cur s_cli decode_field_fixed]. unfold read_view_fixed.
      rewrite !Nat2N.id, skipn_app_exact, firstn_app_exact, Hd. reflexivity.
  - destruct Hok as (Hd & H0 & Hv). unfold encode_par, decode_par_fixed. cbn [pr_val pr_name pr_desc pr_cli pr_def].
    destruct Hv as [Hv|[b Hv]]; subst vl.
    + cbn. rewrite H0, Hd. reflexivity.
    + cbn [fst snd s_name s_desc s_def s_cur s_cli decode_field_fixed]. unfold read_view_fixed.
      rewrite !Nat2N.id, skipn_app_exact, firstn_app_exact, Hd. reflexivity.
Qed.

Lemma node_roundtrip_fixed T tl pre post e :
  table_ok T -> node_ok T tl (snd e) ->
  decode_node_fixed T tl (pre ++ snd (encode_node dep_less T (N.of_nat (length pre)) e) ++ post)
                    (fst (encode_node dep_less T (N.of_nat (length pre)) e)) = Some e.
Proof.
  intros HT (t & Ht & Hshape & Hsrc & Hpar). destruct e as [i [k ins par]]. cbn [snd fst n_ty n_in n_par] in *.
  destruct (table_ok_nth T k t HT Ht) as (Hnd & Hpn & _).
  assert (Hdeps : fold_opt (dstep T tl (t_ports t)) (sort_deps dep_less (enum_deps (t_ports t) ins))
                           (map (fun _ => []) (t_ports t)) = Some ins) by (apply deps_roundtrip; auto).
  unfold encode_node. cbn [snd fst n_ty n_in n_par]. unfold ports_of, kind_of. rewrite Ht.
  destruct par as [r|]; destruct (t_def t) as [r0|] eqn:Ed; try contradiction.
  - pose proof (par_roundtrip_fixed (t_kind t) r0 r pre post Hpar) as Hr.
    destruct (encode_par (t_kind t) (N.of_nat (length pre)) r) as [d p] eqn:Ep. cbn [fst snd] in *.
    unfold decode_node_fixed. cbn [s_ty s_deps s_data s_id]. rewrite Ht. cbn [bind]. cbn [fresh n_in].
    change (fun (ins0 : list (list id)) (d0 : sdep) =>
              if String.eqb (d_port d0) "Out" then set_input T tl (t_ports t) ins0 (d_name d0) (d_src d0) else None)
      with (dstep T tl (t_ports t)).
    rewrite Hdeps. cbn [bind]. rewrite Ed. cbn [bind]. rewrite Hr. reflexivity.
  - cbn [fst snd app]. unfold decode_node_fixed. cbn [s_ty s_deps s_data s_id]. rewrite Ht. cbn [bind]. cbn [fresh n_in].
    change (fun (ins0 : list (list id)) (d0 : sdep) =>
              if String.eqb (d_port d0) "Out" then set_input T tl (t_ports t) ins0 (d_name d0) (d_src d0) else None)
      with (dstep T tl (t_ports t)).
    rewrite Hdeps. cbn [bind]. rewrite Ed. reflexivity.
Qed.

Lemma nodes_roundtrip_fixed T tl : table_ok T -> forall l pre,
  Forall (fun e => node_ok T tl (snd e)) l ->
  map_opt (decode_node_fixed T tl (pre ++ snd (encode_nodes dep_less T (N.of_nat (length pre)) l)))
          (fst (encode_nodes dep_less T (N.of_nat (length pre)) l)) = Some l.
Proof.
  intros HT. induction l as [|e l IH]; intros pre Hok; [reflexivity|].
  inversion Hok as [|? ? He Hl]; subst.
  cbn [encode_nodes].
  pose proof (node_roundtrip_fixed T tl pre (buffer_of T l) e HT He) as Hnode.
  destruct (encode_node dep_less T (N.of_nat (length pre)) e) as [sn p] eqn:E1. cbn [fst snd] in Hnode.
  replace (N.of_nat (length pre) + N.of_nat (length p)) with (N.of_nat (length (pre ++ p)))
    by (rewrite app_length; lia).
  specialize (IH (pre ++ p) Hl).
  pose proof (encode_nodes_snd dep_less T l (N.of_nat (length (pre ++ p)))) as Hb.
  destruct (encode_nodes dep_less T (N.of_nat (length (pre ++ p))) l) as [sns b] eqn:E2. cbn [fst snd] in *.
  subst b. cbn [map_opt]. rewrite Hnode. rewrite <- app_assoc in IH. rewrite IH. reflexivity.
Qed.

Theorem reload_valid_fixed T s :
  table_ok T -> valid T s -> decode_fixed T (encode T s) = Some s.
Proof.
  intros HT [Hn Hp]. unfold encode, encode_with.
  pose proof (nodes_roundtrip_fixed T (tys s) HT (i_nodes s) [] Hn) as Hr. cbn [length app] in Hr.
  change (N.of_nat 0) with 0 in Hr.
  pose proof (encode_nodes_tys dep_less T (i_nodes s) 0) as Ht.
  destruct (encode_nodes dep_less T 0 (i_nodes s)) as [sns buf]. cbn [fst snd] in *.
  unfold decode_fixed. cbn [s_nodes s_buf s_prods s_meta]. rewrite Ht. fold (tys s). rewrite Hr. cbn [bind].
  assert (Hf : forallb (fun '(_, i, p) => String.eqb p "Out" && is_artifact T (tys s) i)
                       (map (fun e : string * id => (fst e, snd e, "Out"%string)) (i_prods s)) = true).
  { apply forallb_forall. intros x Hx. apply in_map_iff in Hx. destruct Hx as (e & <- & He).
    eapply Forall_forall in Hp; [|exact He]. cbn. exact Hp. }
  rewrite Hf. rewrite map_map.
  assert (Hm : map (fun x : string * id => (fst x, snd x)) (i_prods s) = i_prods s).
  { clear. induction (i_prods s) as [|[a b] l IH]; cbn; [reflexivity|]. rewrite IH. reflexivity. }
  cbn. rewrite Hm. destruct s; reflexivity.
Qed.

(* after ANY edit history, no side condition *)
Theorem reload_same_fixed T h : table_ok T -> decode_fixed T (encode T (run T h)) = Some (run T h).
Proof. intros HT. apply reload_valid_fixed; auto. apply run_valid, HT. Qed.

(* the faithful and the repaired reader agree wherever the faithful one does not over-read *)
Theorem reload_fixed_agrees T h :
  table_ok T -> no_overread T (i_nodes (run T h)) ->
  decode T (encode T (run T h)) = decode_fixed T (encode T (run T h)).
Proof. intros HT Hno. rewrite reload_same, reload_same_fixed; auto. Qed.

(* ------------------------------------------------------------------------------------------------ *)
(* 9. life after the reload: the reloaded graph carries on exactly as the saved one                  *)
(* ------------------------------------------------------------------------------------------------ *)
Definition ids_of (s : inst) : list id := map fst (i_nodes s).

(* every continuation c — same resulting graph, same success flag of every operation *)
Theorem continuation_same T h c s' :
  table_ok T -> no_overread T (i_nodes (run T h)) ->
  decode T (encode T (run T h)) = Some s' ->
  run_from T s' c = run_from T (run T h) c.
Proof. intros HT Hno H. rewrite reload_same in H by assumption. injection H as <-. reflexivity. Qed.

Theorem continuation_same_fixed T h c s' :
  table_ok T -> decode_fixed T (encode T (run T h)) = Some s' ->
  run_from T s' c = run_from T (run T h) c.
Proof. intros HT H. rewrite reload_same_fixed in H by assumption. injection H as <-. reflexivity. Qed.

(* running on is running the concatenated history (so everything proved of [run] holds after a reload
   followed by further edits: validity, the next round trip, ...) *)
Lemma run_from_app T : forall a s b,
  fst (run_from T s (a ++ b)) = fst (run_from T (fst (run_from T s a)) b).
Proof.
  induction a as [|o a IH]; intros s b; [reflexivity|].
  cbn [app run_from]. destruct (step T s o) as [s1 ok] eqn:E.
  specialize (IH s1 b). destruct (run_from T s1 (a ++ b)) as [s2 oks] eqn:E2.
  destruct (run_from T s1 a) as [s3 oks3] eqn:E3. cbn [fst] in *. exact IH.
Qed.

Theorem reload_then_continue_then_reload T h c s' :
  table_ok T -> decode_fixed T (encode T (run T h)) = Some s' ->
  let s2 := fst (run_from T s' c) in
  s2 = run T (h ++ c) /\ decode_fixed T (encode T s2) = Some s2.
Proof.
  intros HT H s2. subst s2. rewrite (continuation_same_fixed T h c s' HT H).
  assert (E : fst (run_from T (run T h) c) = run T (h ++ c)).
  { unfold run. rewrite run_from_app. reflexivity. }
  rewrite E. split; [reflexivity|]. apply reload_same_fixed, HT.
Qed.

(* C12-F's class: the id handed out by the first CreateNode after a reload is not in use in the reloaded graph
   (and is the id the saved graph itself would hand out) *)
Theorem new_id_after_reload_is_fresh T h s' :
  table_ok T -> decode_fixed T (encode T (run T h)) = Some s' ->
  ~ In (alloc (ids_of s')) (ids_of s') /\ alloc (ids_of s') = alloc (ids_of (run T h)).
Proof.
  intros HT H. rewrite reload_same_fixed in H by assumption. injection H as <-.
  split; [apply alloc_fresh | reflexivity].
Qed.
