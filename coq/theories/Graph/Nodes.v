(* C11 (also imported by C12, C13) — executable model of the node graph of /repo/nodes:
   nodes.Struct[T,G] (struct_node.go), nodes.ValueNode / parameter.Value (value_node.go,
   generator/parameter/value.go), the reflection helpers of refutil/reflect.go that SetInput and
   Dependencies() go through.  No proofs in this file (see Graph/NodesProofs.v).

   Interface for later users:
     state (record: nodes, clock) · op · result · step · run · read · init
     graph_of / eval_scratch (from-scratch evaluation of the current wiring and parameter values)
     oracle (enumeration order of Dependencies(); sorted_oracle = the repaired code)            *)
From Coq Require Import String Ascii.
From PF Require Import Base.Bytes.
Local Open Scope nat_scope.

Definition id := nat.          (* node identity = index in the node table *)
Definition val := Z.           (* node outputs are integers (harness processors) *)

(* ---------- strings: Go's byte-wise "<", fmt "%d", strconv.Atoi ---------- *)
Fixpoint str_ltb (a b : string) : bool :=
  match a, b with
  | EmptyString, EmptyString => false
  | EmptyString, String _ _ => true
  | String _ _, EmptyString => false
  | String x a', String y b' =>
      let nx := nat_of_ascii x in let ny := nat_of_ascii y in
      if nx <? ny then true else if ny <? nx then false else str_ltb a' b'
  end.

Fixpoint dec_aux (fuel n : nat) (acc : string) : string :=
  match fuel with
  | O => acc
  | S f => let acc' := String (ascii_of_nat (48 + n mod 10)) acc in
           if n / 10 =? 0 then acc' else dec_aux f (n / 10) acc'
  end.
Definition decimal (n : nat) : string := dec_aux (S n) n EmptyString.       (* fmt.Sprintf("%d", n) *)

(* input[:index], input[index+1:] at the first '.'  (strings.Index(input, ".")) *)
Fixpoint split_dot (s : string) : string * option string :=
  match s with
  | EmptyString => (EmptyString, None)
  | String c r => if (nat_of_ascii c =? 46) then (EmptyString, Some r)
                  else let '(a, b) := split_dot r in (String c a, b)
  end.

(* accumulates in N: an index like "99999999999999999999" must not be built in unary *)
Fixpoint digits (s : string) (acc : N) : option N :=
  match s with
  | EmptyString => Some acc
  | String c r => let k := nat_of_ascii c in
                  if (48 <=? k) && (k <=? 57) then digits r (10 * acc + N.of_nat (k - 48))%N else None
  end.
(* strconv.Atoi: optional sign, at least one digit, decimal digits only.  Negative results are
   returned as None here because every caller rejects them (reflect slice bounds). "-0" is 0.
   Values beyond the int range (strconv reports ErrRange) are far beyond any slice length, so the
   callers reject them as well. *)
Definition atoi (s : string) : option N :=
  match s with
  | EmptyString => None
  | String c r =>
      let k := nat_of_ascii c in
      if k =? 43 then match r with EmptyString => None | _ => digits r 0 end
      else if k =? 45 then match r with EmptyString => None | _ =>
                 match digits r 0 with Some 0%N => Some 0%N | _ => None end end
      else digits s 0
  end.

(* ---------- nodes ---------- *)
Inductive port :=
| Scalar (src : option id)      (* field of type nodes.NodeOutput[int]; nil = not connected *)
| Array (srcs : list id).       (* field of type []nodes.NodeOutput[int] *)

Definition port_ids (p : port) : list id :=
  match p with Scalar None => [] | Scalar (Some d) => [d] | Array l => l end.

Definition procfn := list (list val) -> val.   (* Data.Process(): one list of input values per port, declaration order *)

Record snode := {
  sn_ports : list (string * port);     (* exported fields of Data in declaration order *)
  sn_proc : procfn;
  sn_ver : nat;                        (* version *)
  sn_cache : val;                      (* value *)
  sn_depvers : option (list nat);      (* depVersions; None = nil = never processed *)
  sn_dirty : bool;                     (* inputChangedSinceLastProcess *)
  (* ghost, specification only *)
  sn_execs : nat;                      (* number of calls of Data.Process() *)
  sn_edits : nat                       (* number of successful SetInput calls *)
}.

Inductive node :=
| Param (ver : nat) (v : val) (sets : nat)    (* parameter.Value / nodes.ValueNode; sets = ghost count of updates *)
| Struct (sn : snode).

Definition store := list node.

Definition ver_of (st : store) (d : id) : option nat :=
  match nth_error st d with
  | Some (Param v _ _) => Some v
  | Some (Struct sn) => Some (sn_ver sn)
  | None => None
  end.

Definition ids_of (sn : snode) : list (list id) := map (fun p => port_ids (snd p)) (sn_ports sn).
Definition deps_ids (sn : snode) : list id := concat (ids_of sn).

(* ---------- Dependencies() ---------- *)
Definition dep := (string * id)%type.        (* StructDependency: name, node *)

Fixpoint number_from (nm : string) (k : nat) (l : list id) : list dep :=
  match l with [] => [] | d :: r => (append nm (String "."%char (decimal k)), d) :: number_from nm (S k) r end.

Definition port_deps (np : string * port) : list dep :=
  match snd np with
  | Scalar None => []                                   (* FieldValuesOfType skips nil fields *)
  | Scalar (Some d) => [(fst np, d)]
  | Array l => number_from (fst np) 0 l                 (* "%s.%d" *)
  end.
Definition raw_deps (ports : list (string * port)) : list dep := flat_map port_deps ports.

(* The order in which Dependencies() lists them.  The pinned tree ranges over Go maps, so the order
   may differ from call to call: the model takes it from an oracle indexed by the operation
   counter, the call site and the node.  The repaired code sorts by name. *)
Inductive phase := Rec | Cmp.     (* updateUsedDependencyVersions | Outdated *)
Definition order := phase -> id -> list dep -> list dep.
Definition oracle := nat -> order.

Fixpoint insert_dep (x : dep) (l : list dep) : list dep :=
  match l with
  | [] => [x]
  | y :: r => if str_ltb (fst y) (fst x) then y :: insert_dep x r else x :: l
  end.
Definition sort_deps (l : list dep) : list dep := fold_right insert_dep [] l.
Definition sorted_order : order := fun _ _ l => sort_deps l.
Definition sorted_oracle : oracle := fun _ => sorted_order.      (* sort.Slice(output, name <) *)

(* ---------- Outdated() / State() ---------- *)
(* for i, dep := range deps { if dep.Version() != depVersions[i] || dep.State() != Processed {return true} } *)
Fixpoint cmp_deps (stale : id -> option bool) (st : store) (deps : list id) (dv : list nat) : option bool :=
  match deps with
  | [] => Some false
  | d :: ds =>
      match dv with
      | [] => None                                   (* index out of range *)
      | v :: vs =>
          do w <- ver_of st d;
          if negb (w =? v) then Some true else
          do sd <- stale d;
          if sd then Some true else cmp_deps stale st ds vs
      end
  end.

(* State() == Stale, i.e. Outdated(); parameters are always Processed *)
Fixpoint stale (po : order) (fuel : nat) (st : store) (n : id) : option bool :=
  match fuel with
  | O => None
  | S f =>
      match nth_error st n with
      | None => None
      | Some (Param _ _ _) => Some false
      | Some (Struct sn) =>
          match sn_depvers sn with
          | None => Some true
          | Some dv =>
              if sn_dirty sn then Some true
              else cmp_deps (stale po f st) st (map snd (po Cmp n (raw_deps (sn_ports sn)))) dv
          end
      end
  end.

(* ---------- Value() / process() ---------- *)
Fixpoint map_opt {A B} (f : A -> option B) (l : list A) : option (list B) :=
  match l with
  | [] => Some []
  | x :: r => do y <- f x; do ys <- map_opt f r; Some (y :: ys)
  end.

Fixpoint read_list (rd : store -> id -> option (store * val)) (st : store) (l : list id)
  : option (store * list val) :=
  match l with
  | [] => Some (st, [])
  | d :: r => do '(st1, x) <- rd st d; do '(st2, xs) <- read_list rd st1 r; Some (st2, x :: xs)
  end.
Fixpoint read_ports (rd : store -> id -> option (store * val)) (st : store) (ps : list (list id))
  : option (store * list (list val)) :=
  match ps with
  | [] => Some (st, [])
  | l :: r => do '(st1, xs) <- read_list rd st l; do '(st2, xss) <- read_ports rd st1 r; Some (st2, xs :: xss)
  end.

Fixpoint set_nth {A} (k : nat) (x : A) (l : list A) : list A :=
  match l, k with
  | [], _ => []
  | _ :: r, O => x :: r
  | y :: r, S k' => y :: set_nth k' x r
  end.

Fixpoint value (po : order) (fuel : nat) (st : store) (n : id) : option (store * val) :=
  match fuel with
  | O => None
  | S f =>
      match nth_error st n with
      | None => None
      | Some (Param _ v _) => Some (st, v)
      | Some (Struct sn) =>
          do o <- stale po fuel st n;
          if o then
            (* process(): Data.Process() reads every input port in declaration order ... *)
            do '(st1, ins) <- read_ports (value po f) st (ids_of sn);
            let v := sn_proc sn ins in
            (* ... then version++, updateUsedDependencyVersions(), flag reset *)
            do vers <- map_opt (ver_of st1) (map snd (po Rec n (raw_deps (sn_ports sn))));
            let sn' := {| sn_ports := sn_ports sn; sn_proc := sn_proc sn; sn_ver := S (sn_ver sn);
                          sn_cache := v; sn_depvers := Some vers; sn_dirty := false;
                          sn_execs := S (sn_execs sn); sn_edits := sn_edits sn |} in
            Some (set_nth n (Struct sn') st1, v)
          else Some (st, sn_cache sn)
      end
  end.

(* ---------- from-scratch evaluation of the current wiring and parameter values ---------- *)
Inductive gnode := GParam (v : val) | GStruct (ins : list (list id)) (proc : procfn).
Definition graph := list gnode.
Definition erase (x : node) : gnode :=
  match x with Param _ v _ => GParam v | Struct sn => GStruct (ids_of sn) (sn_proc sn) end.
Definition graph_of (st : store) : graph := map erase st.

Fixpoint eval_scratch (fuel : nat) (g : graph) (n : id) : option val :=
  match fuel with
  | O => None
  | S f =>
      match nth_error g n with
      | None => None
      | Some (GParam v) => Some v
      | Some (GStruct ins proc) =>
          do xs <- map_opt (map_opt (eval_scratch f g)) ins; Some (proc xs)
      end
  end.

(* longest path below a node; None = a cycle (or a dangling id) is reachable *)
Fixpoint depth (fuel : nat) (g : graph) (n : id) : option nat :=
  match fuel with
  | O => None
  | S f =>
      match nth_error g n with
      | None => None
      | Some (GParam _) => Some 0
      | Some (GStruct ins _) =>
          do hs <- map_opt (depth f g) (concat ins); Some (S (fold_right Nat.max 0 hs))
      end
  end.
Definition acyclic_b (g : graph) : bool :=
  forallb (fun n => match depth (S (length g)) g n with Some _ => true | None => false end) (seq 0 (length g)).

(* ---------- SetInput ---------- *)
Fixpoint remove_at {A} (k : nat) (l : list A) : list A :=
  match l, k with
  | [], _ => []
  | _ :: r, O => r
  | x :: r, S k' => x :: remove_at k' r
  end.

(* the first field called nm is rewritten by f; None: no such field / f rejects (reflect panics) *)
Fixpoint upd_port (nm : string) (f : port -> option port) (ps : list (string * port)) : option (list (string * port)) :=
  match ps with
  | [] => None
  | (k, p) :: r => if String.eqb k nm then do p' <- f p; Some ((k, p') :: r)
                   else do r' <- upd_port nm f r; Some ((k, p) :: r')
  end.

(* SetInput(input, Output{NodeOutput: src}) on the ports; src = None is a nil NodeOutput *)
Definition set_input (ps : list (string * port)) (input : string) (src : option id) : option (list (string * port)) :=
  match split_dot input with
  | (nm, Some suffix) =>
      match src with
      | None =>            (* strconv.Atoi(suffix); RemoveFromStructFieldArray *)
          do k <- atoi suffix;
          upd_port nm (fun p => match p with
                                | Array l => if (k <? N.of_nat (length l))%N
                                             then Some (Array (remove_at (N.to_nat k) l)) else None
                                | Scalar _ => None end) ps
      | Some d =>          (* AddToStructFieldArray: appends, the suffix is not looked at *)
          upd_port nm (fun p => match p with Array l => Some (Array (l ++ [d])) | Scalar _ => None end) ps
      end
  | (nm, None) =>          (* SetStructField; nil writes the zero value of the field's type *)
      upd_port nm (fun p => match p, src with
                            | Scalar _, _ => Some (Scalar src)
                            | Array _, None => Some (Array [])
                            | Array _, Some _ => None end) ps
  end.

(* ---------- states, operations ---------- *)
Record state := { nodes : store; clock : nat }.     (* clock: ghost count of operations applied *)

Inductive op :=
| SetParam (n : id) (v : val)
| Connect (n : id) (input : string) (src : id)
| Disconnect (n : id) (input : string)
| Read (n : id).
Inductive result := RDone | RVal (v : val).

Definition fuel_of (st : store) : nat := S (length st).

Definition rewire (st : store) (n : id) (input : string) (src : option id) : option store :=
  match nth_error st n with
  | Some (Struct sn) =>
      do ps <- set_input (sn_ports sn) input src;
      let sn' := {| sn_ports := ps; sn_proc := sn_proc sn; sn_ver := sn_ver sn; sn_cache := sn_cache sn;
                    sn_depvers := sn_depvers sn; sn_dirty := true;
                    sn_execs := sn_execs sn; sn_edits := S (sn_edits sn) |} in
      Some (set_nth n (Struct sn') st)
  | _ => None            (* parameters: "input can not be set" *)
  end.

(* one operation on the node table under a given enumeration order; None = the operation is rejected
   (the Go call panics with a declared error) or outside the precondition (it would create a cycle:
   the Go code would not terminate) *)
Definition step_store (po : order) (st : store) (o : op) : option (store * result) :=
  match o with
  | SetParam n v =>
      match nth_error st n with
      | Some (Param ver _ sets) => Some (set_nth n (Param (S ver) v (S sets)) st, RDone)
      | _ => None
      end
  | Connect n input src =>
      if src <? length st then
        do st' <- rewire st n input (Some src);
        if acyclic_b (graph_of st') then Some (st', RDone) else None
      else None
  | Disconnect n input => do st' <- rewire st n input None; Some (st', RDone)
  | Read n => do '(st', v) <- value po (fuel_of st) st n; Some (st', RVal v)
  end.

Definition step (orc : oracle) (s : state) (o : op) : option (state * result) :=
  do '(st', r) <- step_store (orc (clock s)) (nodes s) o;
  Some ({| nodes := st'; clock := S (clock s) |}, r).

Definition read (orc : oracle) (s : state) (n : id) : option (state * val) :=
  match step orc s (Read n) with Some (s', RVal v) => Some (s', v) | _ => None end.

Fixpoint run (orc : oracle) (s : state) (h : list op) : option state :=
  match h with
  | [] => Some s
  | o :: r => do '(s', _) <- step orc s o; run orc s' r
  end.

(* ---------- initial states: node declarations, nothing connected ---------- *)
Inductive decl :=
| DParam (v : val)
| DStruct (fields : list (string * bool)) (proc : procfn).    (* field name, is-array *)

Definition init_node (d : decl) : node :=
  match d with
  | DParam v => Param 0 v 0
  | DStruct fs proc =>
      Struct {| sn_ports := map (fun f : string * bool => (fst f, if snd f then Array [] else Scalar None)) fs;
                sn_proc := proc; sn_ver := 0; sn_cache := 0%Z; sn_depvers := None; sn_dirty := false;
                sn_execs := 0; sn_edits := 0 |}
  end.
Definition init (ds : list decl) : state := {| nodes := map init_node ds; clock := 0 |}.

Definition eval_now (s : state) (n : id) : option val :=
  eval_scratch (fuel_of (nodes s)) (graph_of (nodes s)) n.

(* observables compared with the implementation *)
Definition state_of (po : order) (st : store) (n : id) : option bool := stale po (fuel_of st) st n.
Definition execs_of (st : store) (n : id) : nat :=
  match nth_error st n with Some (Struct sn) => sn_execs sn | _ => 0 end.

(* ---------- processors that can fail ---------- *)
(* Data.Process() returns (T, error).  process() stores both ("sn.value, sn.err = sn.Data.Process()"), then
   version++, records the dependency versions and clears the flag exactly as after a successful run.
   Value() returns sn.value whatever the error; sn.err is never read back: State() is Stale or Processed
   (never Error), Version() counts failed executions too, Outdated() of a consumer looks only at Version()
   and State().  So a node whose last run failed serves the value component of the failed result, and its
   consumers compute from that.  [procfn] above is therefore the value component of Process(); the
   definitions below make the error component explicit for the specification. *)
Definition outcome := (val * bool)%type.                 (* (value, err != nil) *)
Definition efn := list (list val) -> outcome.            (* Data.Process() as a function of the input values *)
Definition served (p : efn) : procfn := fun ins => fst (p ins).

Inductive onode := OParam (v : val) | OStruct (ins : list (list id)) (p : efn).
Definition oerase (x : onode) : gnode :=
  match x with OParam v => GParam v | OStruct ins p => GStruct ins (served p) end.

(* from-scratch evaluation with error results: the outcome of running Process() of node n on the values its
   inputs serve, recursively, ignoring every cache *)
Fixpoint eval_outcome (fuel : nat) (g : list onode) (n : id) : option outcome :=
  match fuel with
  | O => None
  | S f =>
      match nth_error g n with
      | None => None
      | Some (OParam v) => Some (v, false)
      | Some (OStruct ins p) =>
          do xs <- map_opt (map_opt (fun d => option_map fst (eval_outcome f g d))) ins; Some (p xs)
      end
  end.

(* ---------- processors that panic ---------- *)
(* process() is "sn.value, sn.err = sn.Data.Process(); sn.version++; sn.updateUsedDependencyVersions();
   flag = false".  When Data.Process() panics (its own code, or a dependency's Value() called from it) the
   panic unwinds through process() and Value(): NOTHING of this node is updated — value, version,
   depVersions and flag stay as they were — while every dependency whose Value() had already returned keeps
   what its own evaluation committed.  The caller that recovers the panic (as the HTTP handler does) sees a
   failed read. *)
Definition pantab := id -> list (list val) -> bool.      (* does Data.Process() of node n panic on these inputs *)
Inductive pres := POk (v : val) | PPanic.

Fixpoint pread_list (rd : store -> id -> option (store * pres)) (st : store) (l : list id)
  : option (store * option (list val)) :=
  match l with
  | [] => Some (st, Some [])
  | d :: r =>
      do '(st1, x) <- rd st d;
      match x with
      | PPanic => Some (st1, None)                      (* the remaining inputs are never read *)
      | POk v => do '(st2, xs) <- pread_list rd st1 r; Some (st2, option_map (cons v) xs)
      end
  end.
Fixpoint pread_ports (rd : store -> id -> option (store * pres)) (st : store) (ps : list (list id))
  : option (store * option (list (list val))) :=
  match ps with
  | [] => Some (st, Some [])
  | l :: r =>
      do '(st1, oxs) <- pread_list rd st l;
      match oxs with
      | None => Some (st1, None)
      | Some xs => do '(st2, xss) <- pread_ports rd st1 r; Some (st2, option_map (cons xs) xss)
      end
  end.

(* Value() with panicking processors; with [pan = fun _ _ => false] this is [value] *)
Fixpoint pvalue (po : order) (pan : pantab) (fuel : nat) (st : store) (n : id) : option (store * pres) :=
  match fuel with
  | O => None
  | S f =>
      match nth_error st n with
      | None => None
      | Some (Param _ v _) => Some (st, POk v)
      | Some (Struct sn) =>
          do o <- stale po fuel st n;
          if o then
            do '(st1, oins) <- pread_ports (pvalue po pan f) st (ids_of sn);
            match oins with
            | None => Some (st1, PPanic)                (* a dependency panicked *)
            | Some ins =>
                if pan n ins then Some (st1, PPanic)    (* this node's processor panics *)
                else
                  let v := sn_proc sn ins in
                  do vers <- map_opt (ver_of st1) (map snd (po Rec n (raw_deps (sn_ports sn))));
                  let sn' := {| sn_ports := sn_ports sn; sn_proc := sn_proc sn; sn_ver := S (sn_ver sn);
                                sn_cache := v; sn_depvers := Some vers; sn_dirty := false;
                                sn_execs := S (sn_execs sn); sn_edits := sn_edits sn |} in
                  Some (set_nth n (Struct sn') st1, POk v)
            end
          else Some (st, POk (sn_cache sn))
      end
  end.

(* from-scratch evaluation with panics: inputs in declaration order, the first panic aborts *)
Fixpoint plist {A} (f : A -> option pres) (l : list A) : option (option (list val)) :=
  match l with
  | [] => Some (Some [])
  | d :: r => do x <- f d;
              match x with
              | PPanic => Some None
              | POk v => do xs <- plist f r; Some (option_map (cons v) xs)
              end
  end.
Fixpoint pports (f : id -> option pres) (ps : list (list id)) : option (option (list (list val))) :=
  match ps with
  | [] => Some (Some [])
  | l :: r => do oxs <- plist f l;
              match oxs with
              | None => Some None
              | Some xs => do xss <- pports f r; Some (option_map (cons xs) xss)
              end
  end.
Fixpoint eval_p (pan : pantab) (fuel : nat) (g : graph) (n : id) : option pres :=
  match fuel with
  | O => None
  | S f =>
      match nth_error g n with
      | None => None
      | Some (GParam v) => Some (POk v)
      | Some (GStruct ins proc) =>
          do oxs <- pports (eval_p pan f g) ins;
          match oxs with
          | None => Some PPanic
          | Some xs => if pan n xs then Some PPanic else Some (POk (proc xs))
          end
      end
  end.
