(* C11, round 4 — processors that do NOT read every input, and the repaired Outdated() (/repo 6677351).

   Graph/Nodes.v models processors that read every port on every run ([value] reads all of [ids_of sn]).  Some
   node types of the repository return before reading a connected input (repeat.LineNodeData: Times <= 0;
   extrude.ScrewNodeData: short line / fewer than two segments).  This file adds, next to the unchanged model:

     - a reading discipline: ports are read in declaration order and a function [stop] of the values read so far
       may end the reading ([cut]: the prefix of the inputs such a processor looks at);
     - depUnread: per node, one flag per dependency position, recorded by process() right after Process()
       returned (the dependency was still Stale, so the run did not read it);
     - [lstale]  = Outdated() of the repaired code: flagged positions are skipped;
       [lvalue]  = Value()/process() with the reading discipline and the recording of the flags.

   The enumeration order is [po Cmp] for recording AND comparing (the repaired, deterministic Dependencies()).
   No proofs here (Graph/NodesLazyProofs.v). *)
From Coq Require Import String Ascii.
From PF Require Import Base.Bytes Graph.Nodes.
Local Open Scope nat_scope.

Definition stopfn := list (list val) -> bool.     (* values of the ports read so far -> stop reading? *)

Fixpoint cut_from (stop : stopfn) (acc rest : list (list val)) : list (list val) :=
  match rest with
  | [] => acc
  | xs :: r => if stop acc then acc else cut_from stop (acc ++ [xs]) r
  end.
(* the prefix of the port values a processor with discipline [stop] looks at *)
Definition cut (stop : stopfn) (ins : list (list val)) : list (list val) := cut_from stop [] ins.
(* such a processor as a function of ALL input values (what a from-scratch evaluation applies) *)
Definition lazy_proc (stop : stopfn) (f : procfn) : procfn := fun ins => f (cut stop ins).

Definition unread_tab := list (list bool).        (* per node id: depUnread, positional like depVersions *)
Definition flags_of (ur : unread_tab) (n : id) : list bool := nth n ur [].

(* for i, dep := range deps { if depUnread[i] {continue}; if dep.Version() != depVersions[i] || dep.State() != Processed {return true} } *)
Fixpoint lcmp_deps (stale : id -> option bool) (st : store) (deps : list id) (dv : list nat) (ur : list bool) : option bool :=
  match deps with
  | [] => Some false
  | d :: ds =>
      match dv, ur with
      | v :: vs, u :: us =>
          if u then lcmp_deps stale st ds vs us
          else
            do w <- ver_of st d;
            if negb (w =? v) then Some true else
            do sd <- stale d;
            if sd then Some true else lcmp_deps stale st ds vs us
      | _, _ => None                                 (* index out of range *)
      end
  end.

Definition enum (po : order) (n : id) (sn : snode) : list id := map snd (po Cmp n (raw_deps (sn_ports sn))).

Fixpoint lstale (po : order) (fuel : nat) (st : store) (ur : unread_tab) (n : id) : option bool :=
  match fuel with
  | O => None
  | S f =>
      match nth_error st n with
      | None => None
      | Some (Param _ _ _) => Some false
      | Some (Struct sn) =>
          match sn_depvers sn with
          | None => Some true
          | Some dv =>
              if sn_dirty sn then Some true
              else lcmp_deps (lstale po f st ur) st (enum po n sn) dv (flags_of ur n)
          end
      end
  end.

Definition lstate := (store * unread_tab)%type.

(* Process() reads the ports in declaration order until [stop] says so *)
Fixpoint lread_list (rd : lstate -> id -> option (lstate * val)) (s : lstate) (l : list id) : option (lstate * list val) :=
  match l with
  | [] => Some (s, [])
  | d :: t => do '(sa, x) <- rd s d; do '(sb, xs) <- lread_list rd sa t; Some (sb, x :: xs)
  end.
Fixpoint lread_ports (rd : lstate -> id -> option (lstate * val)) (stop : stopfn) (s : lstate)
                     (ps : list (list id)) (acc : list (list val)) : option (lstate * list (list val)) :=
  match ps with
  | [] => Some (s, acc)
  | l :: r =>
      if stop acc then Some (s, acc)
      else do '(s1, xs) <- lread_list rd s l; lread_ports rd stop s1 r (acc ++ [xs])
  end.

(* Value(); [stops n] is the reading discipline of node n, [sn_proc] is applied to the prefix that was read *)
Fixpoint lvalue (po : order) (stops : id -> stopfn) (fuel : nat) (s : lstate) (n : id) : option (lstate * val) :=
  match fuel with
  | O => None
  | S f =>
      let '(st, ur) := s in
      match nth_error st n with
      | None => None
      | Some (Param _ v _) => Some (s, v)
      | Some (Struct sn) =>
          do o <- lstale po fuel st ur n;
          if o then
            do '(s1, acc) <- lread_ports (lvalue po stops f) (stops n) s (ids_of sn) [];
            let '(st1, ur1) := s1 in
            let v := sn_proc sn acc in
            (* version++, updateUsedDependencyVersions(): versions AND "still stale" flags, flag reset *)
            do vers <- map_opt (ver_of st1) (enum po n sn);
            do flags <- map_opt (lstale po f st1 ur1) (enum po n sn);
            let sn' := {| sn_ports := sn_ports sn; sn_proc := sn_proc sn; sn_ver := S (sn_ver sn);
                          sn_cache := v; sn_depvers := Some vers; sn_dirty := false;
                          sn_execs := S (sn_execs sn); sn_edits := sn_edits sn |} in
            Some ((set_nth n (Struct sn') st1, set_nth n flags ur1), v)
          else Some (s, sn_cache sn)
      end
  end.

(* one operation; edits are those of Graph/Nodes.v and leave the flags alone (a re-wired node is dirty, its flags
   are not looked at until its next run replaces them) *)
Definition lstep (po : order) (stops : id -> stopfn) (s : lstate) (o : op) : option lstate :=
  let '(st, ur) := s in
  match o with
  | Read n => do '(s', _) <- lvalue po stops (fuel_of st) s n; Some s'
  | _ => do '(st', _) <- step_store po st o; Some (st', ur)
  end.
Fixpoint lrun (po : order) (stops : id -> stopfn) (s : lstate) (h : list op) : option lstate :=
  match h with
  | [] => Some s
  | o :: r => do s' <- lstep po stops s o; lrun po stops s' r
  end.
Definition linit (ds : list decl) : lstate := (nodes (init ds), map (fun _ => []) ds).

