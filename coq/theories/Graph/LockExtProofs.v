(* C13, round 4 -- proofs about Graph/LockExt.v: sequential scripts, the HTTP layer, version stamps. *)
From Coq Require Import List NArith Arith Bool String Lia Sorting.Sorted Sorting.Permutation.
From PF Require Import Graph.Lock Graph.LockProofs Graph.LockExt.
Import ListNotations.

(* ------------------------------------------------------------------ *)
(** * 1. Sequential scripts: the linear replay decides linearizability *)

Lemma legalb_legal : forall l s, legalb s l = true <-> legal s l.
Proof.
  induction l as [|x r IH]; intro s; cbn [legalb legal].
  - tauto.
  - destruct (resp_eqb (snd (seq_step s (c_op x))) (c_resp x)) eqn:E.
    + apply resp_eqb_eq in E. rewrite IH. tauto.
    + split; [discriminate|]. intros [H _]. apply resp_eqb_eq in H. congruence.
Qed.

Lemma number_bounds : forall l i x, In x (number i l) -> i <= c_inv x /\ c_res x = S (c_inv x).
Proof.
  induction l as [|[o r] t IH]; intros i x H; cbn [number] in H.
  - destruct H.
  - destruct H as [<-|H]; cbn; [lia|]. apply IH in H. lia.
Qed.

Lemma number_rt_ok : forall l i, rt_ok (number i l).
Proof.
  unfold rt_ok. induction l as [|[o r] t IH]; intro i; cbn [number].
  - constructor.
  - constructor; [apply IH|]. apply Forall_forall. intros y Hy. apply number_bounds in Hy. cbn. lia.
Qed.

(* every call of the script responds before the next one is invoked *)
Lemma number_sequential : forall l i, StronglySorted (fun a b => c_res a <= c_inv b) (number i l).
Proof.
  induction l as [|[o r] t IH]; intro i; cbn [number].
  - constructor.
  - constructor; [apply IH|]. apply Forall_forall. intros y Hy. apply number_bounds in Hy. cbn. lia.
Qed.

(* a real-time compatible order of a strictly sequential history is the history itself *)
Lemma sequential_order_unique : forall l order,
  StronglySorted (fun a b => c_res a <= c_inv b) l ->
  Permutation order l -> rt_ok order -> order = l.
Proof.
  induction l as [|x l IH]; intros order HS HP HR.
  - apply Permutation_nil. symmetry. exact HP.
  - inversion HS as [|? ? HS' HF]; subst.
    assert (Hin : In x order) by (eapply Permutation_in; [symmetry; exact HP|left; reflexivity]).
    destruct (in_split _ _ Hin) as [l1 [l2 ->]].
    destruct l1 as [|y l1].
    + cbn in *. f_equal. apply IH; [exact HS'| |].
      * eapply Permutation_cons_inv. exact HP.
      * apply rt_ok_cons in HR. tauto.
    + exfalso. cbn in HP, HR. apply rt_ok_cons in HR. destruct HR as [_ HR].
      rewrite Forall_forall in HR.
      assert (Hx : In x (l1 ++ x :: l2)) by (apply in_or_app; right; left; reflexivity).
      specialize (HR x Hx).
      assert (Hy : In y (x :: l)) by (eapply Permutation_in; [exact HP|left; reflexivity]).
      destruct Hy as [Hxy|Hy]; [subst y|].
      * (* y = x: x occurs twice in a permutation of x :: l, so x is in l: res x <= inv x < res x *)
        assert (In x l).
        { apply Permutation_cons_inv in HP.
          eapply Permutation_in; [exact HP|]. apply in_or_app. right. left. reflexivity. }
        rewrite Forall_forall in HF. specialize (HF x H). lia.
      * rewrite Forall_forall in HF. specialize (HF y Hy). lia.
Qed.

Theorem sweep_oracle_iff : forall s i l,
  legalb s (number i l) = true <-> linearizable s (number i l).
Proof.
  intros s i l. split.
  - intro H. exists (number i l). split; [apply Permutation_refl|]. split.
    + apply legalb_legal. exact H.
    + apply number_rt_ok.
  - intros [order [HP [HL HR]]].
    rewrite (sequential_order_unique (number i l) order (number_sequential l i) HP HR) in HL.
    apply legalb_legal. exact HL.
Qed.

(* ------------------------------------------------------------------ *)
(** * 2. The HTTP layer *)

Lemma legal_obs : forall (R : call -> call -> Prop) cs obs,
  (forall x y, R x y -> c_op y = c_op x /\ c_resp y = c_resp x) ->
  Forall2 R cs obs -> forall s, legal s cs -> legal s obs.
Proof.
  intros R cs obs HRel HF. induction HF as [|x y cs obs Hxy HF IH]; intros s HL; cbn [legal] in *.
  - exact I.
  - destruct (HRel _ _ Hxy) as [Ho Hr]. rewrite Ho, Hr. destruct HL as [H1 H2]. split; [exact H1|].
    apply IH. exact H2.
Qed.

Lemma rt_ok_obs : forall (R : call -> call -> Prop) cs obs,
  (forall x y, R x y -> c_inv y <= c_inv x /\ c_res x <= c_res y) ->
  Forall2 R cs obs -> rt_ok cs -> rt_ok obs.
Proof.
  intros R cs obs HRel HF. unfold rt_ok. induction HF as [|x y cs obs Hxy HF IH]; intro HS.
  - constructor.
  - inversion HS as [|? ? HS' HFa]; subst. constructor; [apply IH; exact HS'|].
    destruct (HRel _ _ Hxy) as [Hi _].
    clear IH HS HS'. induction HF as [|x' y' cs obs Hxy' HF IH]; [constructor|].
    inversion HFa; subst. constructor; [|apply IH; assumption].
    destruct (HRel _ _ Hxy') as [_ Hr]. lia.
Qed.

(* plain handlers: what the HTTP clients observe is linearizable whenever the Instance-level history is *)
Theorem http_plain_linearizable : forall H all s cs obs,
  (forall o, H o = true) ->
  Forall2 (http_obs H all) cs obs ->
  linearizable s cs -> linearizable s obs.
Proof.
  intros H all s cs obs HH HF [order [HP [HL HR]]].
  destruct (Permutation_Forall2 (Permutation_sym HP) HF) as [order' [HP' HF']].
  exists order'. split; [apply Permutation_sym; exact HP'|]. split.
  - eapply legal_obs; [|exact HF'|exact HL].
    intros x y [Ho [_ [_ Hr]]]. rewrite HH in Hr. split; assumption.
  - eapply rt_ok_obs; [|exact HF'|exact HR]. intros x y [_ [Hi [Hr _]]]. split; assumption.
Qed.

Lemma http_facts_plain : forall hs, http_facts_ok hs = true -> forall o, plain_of hs o = true.
Proof.
  intros hs H o. unfold http_facts_ok in H. apply andb_true_iff in H. destruct H as [HS HA].
  unfold plain_of. apply andb_true_iff. split.
  - rewrite forallb_forall in HS. apply HS. unfold entry_points. destruct o; cbn; tauto.
  - rewrite forallb_forall in HA |- *. intros h Hh. rewrite (HA h Hh). apply orb_true_r.
Qed.

(* a handler that answers a request with the response of ANOTHER request's call (a response cache, request
   coalescing): a slow artifact request A (evaluated in the initial state), an update B acknowledged while A is
   still being serialised, then a new artifact request C that is served A's bytes *)
Definition coal_init : state := state_of [0%N] 0%N.
Definition coal_calls : list call :=
  [mkcall 0 (Artifact [0]) (RArt [0%N]) 0 1; mkcall 1 (Update 0 1%N) (RUpd true) 2 3;
   mkcall 2 (Artifact [0]) (RArt [1%N]) 5 6].
Definition coal_obs : list call :=
  [mkcall 0 (Artifact [0]) (RArt [0%N]) 0 8; mkcall 1 (Update 0 1%N) (RUpd true) 2 3;
   mkcall 2 (Artifact [0]) (RArt [0%N]) 4 9].

Theorem http_shared_response_refuted :
  linearizable coal_init coal_calls /\
  Forall2 (http_obs (fun o => negb (readonly o)) coal_calls) coal_calls coal_obs /\
  ~ linearizable coal_init coal_obs.
Proof.
  split; [apply linb_iff; vm_compute; reflexivity|]. split.
  - unfold coal_calls, coal_obs.
    constructor; [|constructor; [|constructor; [|constructor]]]; unfold http_obs; cbn.
    + repeat split; try lia. exists (mkcall 0 (Artifact [0]) (RArt [0%N]) 0 1). cbn. tauto.
    + repeat split; lia.
    + repeat split; try lia. exists (mkcall 0 (Artifact [0]) (RArt [0%N]) 0 1). cbn. tauto.
  - intro H. apply linb_iff in H. vm_compute in H. discriminate.
Qed.

(* ------------------------------------------------------------------ *)
(** * 4. Dependency versions *)

Theorem stale_by_list_exact : forall recorded current,
  stale_by_list recorded current = false <-> recorded = current.
Proof.
  intros r c. unfold stale_by_list. rewrite negb_false_iff. apply list_eqb_N_eq.
Qed.

(* with the mask of HEAD (dependencies the last run did not read are skipped): exact on the dependencies that were read *)
Theorem stale_masked_exact : forall unread recorded current,
  stale_masked unread recorded current = false <->
  Forall (fun x => fst x = true \/ fst (snd x) = snd (snd x)) (combine unread (combine recorded current)).
Proof.
  intros u r c. unfold stale_masked. generalize (combine u (combine r c)). intro l.
  induction l as [|[b [x y]] l IH]; cbn [existsb fst snd].
  - split; [constructor|reflexivity].
  - rewrite orb_false_iff, IH. split.
    + intros [H1 H2]. constructor; [|exact H2]. cbn. destruct b; [left; reflexivity|].
      right. cbn in H1. apply negb_false_iff in H1. apply N.eqb_eq. exact H1.
    + intro H. inversion H as [|? ? H1 H2]; subst. split; [|exact H2]. cbn in H1.
      destruct H1 as [Hb | Hxy]; [subst b; reflexivity|]. subst y. rewrite N.eqb_refl. destruct b; reflexivity.
Qed.

(* nothing unread: the masked comparison is the plain one *)
Theorem stale_masked_all_read : forall recorded current,
  List.length recorded = List.length current ->
  stale_masked (repeat false (List.length recorded)) recorded current = stale_by_list recorded current.
Proof.
  unfold stale_masked, stale_by_list.
  induction recorded as [|x r IH]; intros [|y c] Hl; try discriminate; [reflexivity|].
  cbn [List.length repeat combine existsb fst snd list_eqb]. injection Hl as Hl. rewrite (IH c Hl).
  destruct (N.eqb x y); reflexivity.
Qed.

(* one dependency re-evaluated once (from an even version) and the next one 2^sh times: the folded stamp does not
   move, whatever the seed and the shift *)
Theorem fold_stamp_collides : forall sh s0 a b,
  N.testbit b sh = false ->
  fold_stamp sh s0 [N.succ (2 * a); (b + 2 ^ sh)%N] = fold_stamp sh s0 [(2 * a)%N; b].
Proof.
  intros sh s0 a b Hb. unfold fold_stamp. cbn [fold_left].
  assert (Hsucc : N.succ (2 * a) = N.lxor (2 * a) 1).
  { rewrite <- N.add_1_r. apply N.add_nocarry_lxor.
    apply N.bits_inj. intro n. rewrite N.land_spec, N.bits_0.
    destruct n as [|p].
    - rewrite N.testbit_even_0. reflexivity.
    - replace (N.testbit 1 (N.pos p)) with false by reflexivity. apply andb_false_r. }
  assert (Hadd : (b + 2 ^ sh = N.lxor b (2 ^ sh))%N).
  { apply N.add_nocarry_lxor.
    apply N.bits_inj. intro n. rewrite N.land_spec, N.bits_0.
    destruct (N.eq_dec n sh) as [->|Hn]; [rewrite Hb; reflexivity|].
    rewrite N.pow2_bits_false by congruence. apply andb_false_r. }
  rewrite Hsucc, Hadd.
  rewrite <- (N.lxor_assoc (N.shiftl s0 sh) (2 * a) 1).
  rewrite N.shiftl_lxor. rewrite N.shiftl_1_l.
  set (Y := N.shiftl (N.lxor (N.shiftl s0 sh) (2 * a)) sh).
  rewrite N.lxor_assoc. f_equal.
  rewrite (N.lxor_comm b (2 ^ sh)). rewrite <- N.lxor_assoc. rewrite N.lxor_nilpotent. apply N.lxor_0_l.
Qed.

(* the seeded change C13-I: shift 5, seed = number of dependencies *)
Theorem folded_stamp_refuted :
  stale_by_list [0; 0]%N [1; 32]%N = true /\ stale_by_stamp 5 2 [0; 0]%N [1; 32]%N = false.
Proof. split; vm_compute; reflexivity. Qed.
