(* C12: facts about dependency names — decimal printing is injective and read back by Atoi, splitting at the
   first / last dot recovers field and index, and the repaired comparator orders "field.i" before "field.j"
   exactly when i < j (for ALL i, j); insertion sort facts. *)
From Coq Require Import String Ascii DecimalString DecimalN DecimalPos.
From PF Require Import Base.Bytes Graph.Schema.
Open Scope N_scope.

Lemma is_dot_dot : is_dot dot = true.
Proof. reflexivity. Qed.

Lemma cat_nil_l s : cat EmptyString s = s.
Proof. reflexivity. Qed.
Lemma cat_cons c a b : cat (String c a) b = String c (cat a b).
Proof. reflexivity. Qed.

(* ---- splitting ---- *)
Lemma lsplit_nodot f : no_dot f = true -> lsplit f = None.
Proof.
  induction f as [|c f IH]; cbn; intros H; [reflexivity|].
  apply andb_prop in H. destruct H as [Hc Hf]. apply negb_true_iff in Hc. rewrite Hc, (IH Hf). reflexivity.
Qed.

Lemma lsplit_app f d : no_dot f = true -> lsplit (cat f (String dot d)) = Some (f, d).
Proof.
  induction f as [|c f IH]; intros H.
  - reflexivity.
  - cbn in H. apply andb_prop in H. destruct H as [Hc Hf]. apply negb_true_iff in Hc.
    rewrite cat_cons. cbn [lsplit]. rewrite Hc, (IH Hf). reflexivity.
Qed.

Lemma rsplit_nodot d : no_dot d = true -> rsplit d = None.
Proof.
  induction d as [|c d IH]; cbn; intros H; [reflexivity|].
  apply andb_prop in H. destruct H as [Hc Hd]. apply negb_true_iff in Hc. rewrite (IH Hd), Hc. reflexivity.
Qed.

Lemma rsplit_app f d : no_dot d = true -> rsplit (cat f (String dot d)) = Some (f, d).
Proof.
  intros Hd. induction f as [|c f IH].
  - cbn. rewrite (rsplit_nodot d Hd). reflexivity.
  - rewrite cat_cons. cbn [rsplit]. rewrite IH. reflexivity.
Qed.

(* ---- decimal ---- *)
Lemma uint_no_dot u : no_dot (NilEmpty.string_of_uint u) = true.
Proof. induction u; cbn; auto. Qed.

Lemma dec_no_dot n : no_dot (dec n) = true.
Proof. apply uint_no_dot. Qed.

Lemma to_uint_nonnil n : N.to_uint n <> Decimal.Nil.
Proof. destruct n; cbn; [discriminate | apply Unsigned.to_uint_nonnil]. Qed.

Lemma dec_nonempty n : dec n <> EmptyString.
Proof.
  unfold dec. pose proof (to_uint_nonnil n) as H. destruct (N.to_uint n); cbn; congruence.
Qed.

(* strconv.Atoi reads back what %d printed: decimal printing is injective *)
Lemma atoi_dec n : atoi (dec n) = Some n.
Proof.
  unfold atoi. pose proof (dec_nonempty n) as H. destruct (dec n) eqn:E; [congruence|].
  rewrite <- E. unfold dec. rewrite NilEmpty.usu. f_equal. apply DecimalN.Unsigned.of_to.
Qed.

Lemma dec_inj n m : dec n = dec m -> n = m.
Proof. intros H. pose proof (atoi_dec n) as A. rewrite H, atoi_dec in A. congruence. Qed.

Lemma split_array_name_arr f k : split_array_name (arr_name f k) = Some (f, k).
Proof.
  unfold split_array_name, arr_name. rewrite rsplit_app by apply dec_no_dot. rewrite atoi_dec. reflexivity.
Qed.

(* KEY LEMMA: under the repaired comparator the names field.i, field.j compare as the numbers i, j *)
Lemma dep_less_arr f i j : dep_less (arr_name f i) (arr_name f j) = (i <? j).
Proof.
  unfold dep_less. rewrite !split_array_name_arr. rewrite String.eqb_refl. reflexivity.
Qed.

Lemma field_of_arr f k : no_dot f = true -> lsplit (arr_name f k) = Some (f, dec k).
Proof. intros H. unfold arr_name. apply lsplit_app, H. Qed.

(* ---- insertion sort ---- *)
Section Sort.
  Context {A : Type} (less : A -> A -> bool).

  Lemma insert_In x y l : In y (insert less x l) -> y = x \/ In y l.
  Proof.
    induction l as [|z l IH]; cbn.
    - intros [H|[]]; auto.
    - destruct (less x z); cbn; intros H.
      + destruct H as [H|H]; auto.
      + destruct H as [H|H]; auto. destruct (IH H); auto.
  Qed.

  Lemma isort_In y l : In y (isort less l) -> In y l.
  Proof.
    induction l as [|x l IH]; cbn; [tauto|]. intros H. apply insert_In in H. destruct H; auto.
  Qed.

  Lemma insert_Forall (P : A -> Prop) x l : P x -> Forall P l -> Forall P (insert less x l).
  Proof.
    intros Hx Hl. induction Hl as [|z l Hz Hl IH]; cbn.
    - constructor; auto.
    - destruct (less x z); repeat constructor; auto.
  Qed.

  Lemma isort_Forall (P : A -> Prop) l : Forall P l -> Forall P (isort less l).
  Proof. induction 1; cbn; [constructor | apply insert_Forall; auto]. Qed.

  Lemma insert_length x l : length (insert less x l) = S (length l).
  Proof. induction l as [|z l IH]; cbn; [reflexivity|]. destruct (less x z); cbn; auto. Qed.
End Sort.

(* ------------------------------------------------------------------------------------------------ *)
(* The JSON text: string escaping is read back exactly (hence injective and prefix-free)              *)
(* ------------------------------------------------------------------------------------------------ *)
Local Open Scope string_scope.

Lemma sapp_assoc (a b c : string) : (a ++ b) ++ c = a ++ (b ++ c).
Proof. induction a as [|x a IH]; cbn; [reflexivity|]. rewrite IH. reflexivity. Qed.

Definition hexval (c : ascii) : N :=
  let n := byte_of c in (if n <? 58 then n - 48 else n - 87)%N.

(* one escaped character read from the front of a JSON string body; None at the closing quote *)
Definition unesc_head (s : string) : option (ascii * string) :=
  match s with
  | EmptyString => None
  | String c r =>
      let n := byte_of c in
      if (n =? 34)%N then None
      else if (n =? 92)%N then
        match r with
        | String d r' =>
            let m := byte_of d in
            if (m =? 34)%N then Some (d, r') else if (m =? 92)%N then Some (d, r')
            else if (m =? 110)%N then Some (ascii_of_N 10, r') else if (m =? 114)%N then Some (ascii_of_N 13, r')
            else if (m =? 116)%N then Some (ascii_of_N 9, r') else if (m =? 98)%N then Some (ascii_of_N 8, r')
            else if (m =? 102)%N then Some (ascii_of_N 12, r')
            else match r' with
                 | String _ (String _ (String h1 (String h2 r''))) =>
                     Some (ascii_of_N (16 * hexval h1 + hexval h2)%N, r'')
                 | _ => None
                 end
        | EmptyString => None
        end
      else Some (c, r)
  end.

Lemma unesc_esc_char : forall (c : ascii) (X : string), unesc_head (esc_char c ++ X) = Some (c, X).
Proof.
  intros [b0 b1 b2 b3 b4 b5 b6 b7] X.
  destruct b0, b1, b2, b3, b4, b5, b6, b7; vm_compute; reflexivity.
Qed.

Lemma unesc_quote (X : string) : unesc_head (String """"%char X) = None.
Proof. reflexivity. Qed.

(* the body of a quoted string determines the string and where it ends *)
Theorem esc_prefix_free : forall s s' X Y,
  esc s ++ String """"%char X = esc s' ++ String """"%char Y -> s = s' /\ X = Y.
Proof.
  induction s as [|c s IH]; intros [|c' s'] X Y H; cbn [esc] in H.
  - cbn in H. injection H as ->. split; reflexivity.
  - rewrite sapp_assoc in H. apply (f_equal unesc_head) in H. rewrite unesc_esc_char in H. cbn in H. discriminate.
  - rewrite sapp_assoc in H. apply (f_equal unesc_head) in H. rewrite unesc_esc_char in H. cbn in H. discriminate.
  - rewrite !sapp_assoc in H. pose proof (f_equal unesc_head H) as H1. rewrite !unesc_esc_char in H1.
    injection H1 as -> H2. destruct (IH s' X Y H2) as [-> ->]. split; reflexivity.
Qed.

Theorem quote_inj : forall s s', quote s = quote s' -> s = s'.
Proof.
  intros s s' H. unfold quote in H. injection H as H.
  destruct (esc_prefix_free s s' EmptyString EmptyString H) as [E _]. exact E.
Qed.

(* integers are written in decimal and read back exactly *)
Theorem zdec_inj : forall a b : Z, zdec a = zdec b -> a = b.
Proof.
  assert (Hd : forall p q, dec (Npos p) = dec (Npos q) -> p = q).
  { intros p q H. apply (f_equal atoi) in H. rewrite !atoi_dec in H. congruence. }
  assert (Hm : forall p, exists c r, dec (Npos p) = String c r /\ c <> "-"%char).
  { intros p. pose proof (atoi_dec (Npos p)) as H. destruct (dec (Npos p)) as [|c r] eqn:E; [discriminate H|].
    exists c, r. split; [reflexivity|]. intros ->. unfold atoi in H. cbn in H.
    destruct (NilEmpty.uint_of_string r); cbn in H; discriminate H. }
  intros [|p|p] [|q|q] H; cbn [zdec] in H; try reflexivity.
  - change "0" with (dec 0) in H. apply (f_equal atoi) in H. rewrite !atoi_dec in H. discriminate.
  - destruct (Hm q) as (c & r & E & _). cbn in H. discriminate.
  - change "0" with (dec 0) in H. apply (f_equal atoi) in H. rewrite !atoi_dec in H. discriminate.
  - f_equal. apply Hd, H.
  - destruct (Hm p) as (c & r & E & Hc). rewrite E in H. cbn in H. injection H as -> _. contradiction.
  - cbn in H. discriminate.
  - destruct (Hm q) as (c & r & E & Hc). rewrite E in H. cbn in H. injection H as <- _. contradiction.
  - cbn in H. injection H as H. f_equal. apply Hd, H.
Qed.
