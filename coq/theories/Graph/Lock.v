(* C13 -- concurrent parameter updates / parameter reads / artifact generation on graph.Instance.

   Go code modelled (generator/graph/instance.go):
     UpdateParameter : Lock; defer Unlock; Parameter(id).ApplyMessage(data); incModelVersion()
     ParameterData   : Lock; defer Unlock; Parameter(id).ToMessage()
     Artifact        : producers[name] (panic if absent); Lock; defer Unlock; producer.Value()
   The model has three layers:
     1. the *sequential specification* [seq_step] (state = parameter valuation + model version),
     2. a *small-step interleaving semantics* [step]: every call is Inv; <program>; Resp where the program is
        the body split into single shared-memory accesses, bracketed by Acquire/Release exactly when the
        generated lock facts of that entry point say so ([guard_of], [call_prog]),
     3. the history level: call records with invocation/response time stamps, [linearizable] and the
        executable checker [linb] that the harness histories are run through.
   This file contains definitions only (no proofs); proofs are in Graph/LockProofs.v. *)
From Coq Require Import List NArith Arith Bool String Sorting.Sorted Sorting.Permutation.
Import ListNotations.

(* ------------------------------------------------------------------ *)
(** * Lock facts (generated into coq/gen/LockFacts.v by tools/lockfacts) *)

Record mfacts := {
  mf_name : string;
  mf_nstmts : nat;                     (* top-level statements of the body *)
  mf_lock_at : option nat;             (* index of the top-level statement `r.<mutex>.Lock()` *)
  mf_defer_unlock_at : option nat;     (* index of the top-level statement `defer r.<mutex>.Unlock()` *)
  mf_lock_mentions : nat;              (* every mention of r.<mutex> in the body *)
  mf_defers : nat; mf_gos : nat; mf_funclits : nat;    (* defer / go statements, function literals in the body *)
  mf_escapes : nat; mf_pre_escapes : nat;              (* bare uses of the receiver (whole body / before the lock) *)
  mf_pre_kinds : list string;          (* kinds of the statements before the lock *)
  mf_pre_reads : list string; mf_pre_writes : list string;       (* receiver fields touched before the lock *)
  mf_pre_self_calls : list string; mf_pre_calls : list string;   (* receiver methods / other callees before the lock *)
  mf_reads : list string; mf_writes : list string;               (* receiver fields touched anywhere in the body *)
  mf_self_calls : list string                                    (* receiver methods called anywhere in the body *)
}.

Definition str_in (s : string) (l : list string) : bool := existsb (String.eqb s) l.

Fixpoint lookup (n : string) (fs : list mfacts) : option mfacts :=
  match fs with
  | [] => None
  | m :: r => if String.eqb n (mf_name m) then Some m else lookup n r
  end.

Definition self_calls_of (fs : list mfacts) (n : string) : list string :=
  match lookup n fs with Some m => mf_self_calls m | None => [] end.

(* methods reachable from [todo] through receiver-method calls; None = out of fuel *)
Fixpoint closure (fuel : nat) (fs : list mfacts) (todo seen : list string) : option (list string) :=
  match todo with
  | [] => Some seen
  | n :: rest =>
      match fuel with
      | O => None
      | S k => if str_in n seen then closure k fs rest seen
               else closure k fs (self_calls_of fs n ++ rest) (n :: seen)
      end
  end.
Definition closure_fuel (fs : list mfacts) : nat := S (S (List.length fs)) * S (S (List.length fs)).
Definition reach_methods (fs : list mfacts) (roots : list string) : option (list string) :=
  closure (closure_fuel fs) fs roots [].

Definition writes_of (fs : list mfacts) (ms : list string) : list string :=
  flat_map (fun n => match lookup n fs with Some m => mf_writes m | None => [] end) ms.

(* the entry points the property names *)
Definition entry_points : list string := ["UpdateParameter"; "ParameterData"; "Artifact"]%string.

(* statements allowed in front of the lock: plain local computation *)
Definition pre_kind_ok (k : string) : bool := str_in k ["define"; "assign"; "if"; "decl"]%string.
(* callees allowed in front of the lock: no access to shared state *)
Definition pre_call_ok (k : string) : bool := str_in k ["panic"; "fmt.Errorf"; "fmt.Sprintf"; "len"]%string.

(* [guarded fs W n]: everything method [n] does to state that a critical section writes ([W] = receiver fields
   written by the entry points and their callees; node/parameter objects are only reachable after the lock)
   happens between `Lock()` and the deferred `Unlock()`:
   Lock at statement k, `defer Unlock` at k+1, no other mention of the mutex, no other defer, no goroutine or
   closure, and the statements before the lock only read receiver fields outside W, call nothing but
   [pre_call_ok] functions and do not leak the receiver. *)
Definition guarded (fs : list mfacts) (W : list string) (n : string) : bool :=
  match lookup n fs with
  | None => false
  | Some m =>
      match mf_lock_at m, mf_defer_unlock_at m with
      | Some k, Some d =>
          Nat.eqb d (S k) && Nat.eqb (mf_lock_mentions m) 2 && Nat.eqb (mf_defers m) 1
          && Nat.eqb (mf_gos m) 0 && Nat.eqb (mf_funclits m) 0 && Nat.eqb (mf_pre_escapes m) 0
          && forallb pre_kind_ok (mf_pre_kinds m)
          && match mf_pre_writes m with [] => true | _ => false end
          && match mf_pre_self_calls m with [] => true | _ => false end
          && forallb pre_call_ok (mf_pre_calls m)
          && forallb (fun f => negb (str_in f W)) (mf_pre_reads m)
      | _, _ => false
      end
  end.

(* a method called from inside a critical section: must exist in the file, must not touch the mutex
   (sync.Mutex is not re-entrant) and must not start goroutines *)
Definition callee_ok (fs : list mfacts) (entry n : string) : bool :=
  String.eqb n entry ||
  match lookup n fs with
  | None => false
  | Some m => Nat.eqb (mf_lock_mentions m) 0 && Nat.eqb (mf_gos m) 0
  end.

Definition entry_ok (fs : list mfacts) (n : string) : bool :=
  match reach_methods fs entry_points, reach_methods fs [n] with
  | Some all, Some mine => guarded fs (writes_of fs all) n && forallb (callee_ok fs n) mine
  | _, _ => false
  end.

Definition lock_facts_ok (fs : list mfacts) : bool := forallb (entry_ok fs) entry_points.

(* ------------------------------------------------------------------ *)
(** * Sequential specification *)

Definition param := nat.
Definition value := N.
Definition tid := nat.

Inductive op :=
| Update (p : param) (v : value)     (* UpdateParameter(id_p, json v)        -> (true, nil)  *)
| BadUpdate (p : param)              (* UpdateParameter(id_p, malformed json) -> (false, err) *)
| Get (p : param)                    (* ParameterData(id_p) *)
| Artifact (f : list param)          (* Artifact(name); f = the parameters the producer's text lists, in order *)
| ArtifactP (f : list param) (bad : list (param * value)).
                                     (* a producer with nodes whose processor PANICS: [bad] = the (parameter, value)
                                        pairs for which evaluation panics; the call then has no artifact *)

Inductive resp :=
| RUpd (ok : bool)
| RGet (v : value)
| RArt (vs : list value)
| RPanic                             (* the producer's evaluation panicked (recovered by the caller) *)
| RFail.                             (* unexpected panic / hang / unparsable output: never a sequential response *)

Record state := mkstate { st_vals : param -> value; st_ver : N }.

Definition upd (f : param -> value) (p : param) (v : value) : param -> value :=
  fun q => if Nat.eqb q p then v else f q.

(* does some listed parameter currently have a value for which the evaluation panics? *)
Definition panics (seen bad : list (param * value)) : bool :=
  existsb (fun b => existsb (fun x => Nat.eqb (fst x) (fst b) && N.eqb (snd x) (snd b)) seen) bad.

Definition seq_step (s : state) (o : op) : state * resp :=
  match o with
  | Update p v => (mkstate (upd (st_vals s) p v) (N.succ (st_ver s)), RUpd true)
  | BadUpdate p => (mkstate (st_vals s) (N.succ (st_ver s)), RUpd false)
  | Get p => (s, RGet (st_vals s p))
  | Artifact f => (s, RArt (map (st_vals s) f))
  | ArtifactP f bad => (s, if panics (map (fun p => (p, st_vals s p)) f) bad then RPanic
                           else RArt (map (st_vals s) f))
  end.

Definition entry_name (o : op) : string :=
  match o with
  | Update _ _ | BadUpdate _ => "UpdateParameter"
  | Get _ => "ParameterData"
  | Artifact _ | ArtifactP _ _ => "Artifact"
  end%string.

(* is the body of the entry point serving [o] inside Lock/Unlock according to the facts? *)
Definition guard_of (fs : list mfacts) (o : op) : bool := entry_ok fs (entry_name o).

(* ------------------------------------------------------------------ *)
(** * Small-step interleaving semantics *)

Inductive mstep :=
| MAcq | MRel
| MRead (p : param)                  (* one parameter read (appended to the call's local result) *)
| MWrite (p : param) (v : value)     (* ApplyMessage: store the new value *)
| MVerLoad | MVerStore.              (* incModelVersion: i.movelVersion++ is a load and a store *)

Definition body (o : op) : list mstep :=
  match o with
  | Update p v => [MWrite p v; MVerLoad; MVerStore]
  | BadUpdate p => [MVerLoad; MVerStore]
  | Get p => [MRead p]
  | Artifact f | ArtifactP f _ => map MRead f
  end.

Definition call_prog (g : bool) (o : op) : list mstep :=
  if g then MAcq :: body o ++ [MRel] else body o.

Definition result (o : op) (acc : list value) : resp :=
  match o with
  | Update _ _ => RUpd true
  | BadUpdate _ => RUpd false
  | Get _ => RGet (hd 0%N acc)
  | Artifact _ => RArt acc
  | ArtifactP f bad => if panics (combine f acc) bad then RPanic else RArt acc
  end.

(* effect of a non-lock micro step on (shared values, shared version, local accumulator, local temp) *)
Definition mem := ((param -> value) * N * list value * N)%type.
Definition apply_plain (m : mstep) (st : mem) : mem :=
  match st with
  | (vals, ver, acc, tmp) =>
      match m with
      | MRead p => (vals, ver, acc ++ [vals p], tmp)
      | MWrite p v => (upd vals p v, ver, acc, tmp)
      | MVerLoad => (vals, ver, acc, ver)
      | MVerStore => (vals, N.succ tmp, acc, tmp)
      | MAcq | MRel => st
      end
  end.
Definition run_ms (ms : list mstep) (st : mem) : mem := fold_left (fun st m => apply_plain m st) ms st.

(* a completed call as the harness records it: time stamps from one shared counter *)
Record call := mkcall { c_tid : tid; c_op : op; c_resp : resp; c_inv : nat; c_res : nat }.

Inductive tcur :=
| Idle
| InCall (o : op) (inv : nat) (ms : list mstep) (acc : list value) (tmp : N).

Record tstate := mkts { ts_prog : list op; ts_cur : tcur }.

Record config := mkcfg {
  c_vals : param -> value;
  c_ver : N;
  c_lock : option tid;
  c_time : nat;                       (* the shared counter: ticks at every step *)
  c_thr : tid -> tstate
}.

Definition set_thr (f : tid -> tstate) (t : tid) (x : tstate) : tid -> tstate :=
  fun u => if Nat.eqb u t then x else f u.

Inductive label := LInv (o : op) | LStep (m : mstep) | LResp (x : call).
Definition event := (tid * label)%type.

(* thread [t] takes its next step; None = not enabled (program finished, lock busy, unlock of a lock not held) *)
Definition step (G : op -> bool) (c : config) (t : tid) : option (config * label) :=
  let th := c_thr c t in
  match ts_cur th with
  | Idle =>
      match ts_prog th with
      | [] => None
      | o :: rest =>
          Some (mkcfg (c_vals c) (c_ver c) (c_lock c) (S (c_time c))
                      (set_thr (c_thr c) t (mkts rest (InCall o (c_time c) (call_prog (G o) o) [] 0%N))),
                LInv o)
      end
  | InCall o inv [] acc tmp =>
      Some (mkcfg (c_vals c) (c_ver c) (c_lock c) (S (c_time c))
                  (set_thr (c_thr c) t (mkts (ts_prog th) Idle)),
            LResp (mkcall t o (result o acc) inv (c_time c)))
  | InCall o inv (m :: ms) acc tmp =>
      match m with
      | MAcq =>
          match c_lock c with
          | None => Some (mkcfg (c_vals c) (c_ver c) (Some t) (S (c_time c))
                                (set_thr (c_thr c) t (mkts (ts_prog th) (InCall o inv ms acc tmp))), LStep m)
          | Some _ => None
          end
      | MRel =>
          match c_lock c with
          | Some h => if Nat.eqb h t
                      then Some (mkcfg (c_vals c) (c_ver c) None (S (c_time c))
                                       (set_thr (c_thr c) t (mkts (ts_prog th) (InCall o inv ms acc tmp))), LStep m)
                      else None
          | None => None
          end
      | _ =>
          match apply_plain m (c_vals c, c_ver c, acc, tmp) with
          | (vals', ver', acc', tmp') =>
              Some (mkcfg vals' ver' (c_lock c) (S (c_time c))
                          (set_thr (c_thr c) t (mkts (ts_prog th) (InCall o inv ms acc' tmp'))), LStep m)
          end
      end
  end.

Definition init_config (s : state) (programs : list (list op)) : config :=
  mkcfg (st_vals s) (st_ver s) None 0 (fun t => mkts (nth t programs []) Idle).

(* traces are kept newest-first *)
Inductive reach (G : op -> bool) (c0 : config) : config -> list event -> Prop :=
| reach_nil : reach G c0 c0 []
| reach_step : forall c tr t c' l,
    reach G c0 c tr -> step G c t = Some (c', l) -> reach G c0 c' ((t, l) :: tr).

(* executable version: run a schedule (list of thread ids); None when some thread is scheduled while disabled *)
Fixpoint run_from (G : op -> bool) (c : config) (tr : list event) (sched : list tid) : option (config * list event) :=
  match sched with
  | [] => Some (c, tr)
  | t :: r => match step G c t with
              | Some (c', l) => run_from G c' ((t, l) :: tr) r
              | None => None
              end
  end.
Definition run (G : op -> bool) (s : state) (programs : list (list op)) (sched : list tid) :=
  run_from G (init_config s programs) [] sched.

Definition calls_of (tr : list event) : list call :=
  flat_map (fun e => match snd e with LResp x => [x] | _ => [] end) tr.

Definition quiescent (c : config) : Prop := forall t, ts_cur (c_thr c t) = Idle.

(* thread is inside its critical section: it has acquired and not yet released *)
Definition in_cs (c : config) (t : tid) : Prop :=
  match ts_cur (c_thr c t) with
  | InCall _ _ ms _ _ => In MRel ms /\ ~ In MAcq ms
  | Idle => False
  end.

(* ------------------------------------------------------------------ *)
(** * Histories and linearizability *)

Fixpoint legal (s : state) (l : list call) : Prop :=
  match l with
  | [] => True
  | x :: r => snd (seq_step s (c_op x)) = c_resp x /\ legal (fst (seq_step s (c_op x))) r
  end.

Definition run_calls (s : state) (l : list call) : state :=
  fold_left (fun s x => fst (seq_step s (c_op x))) l s.

(* a before b in the order is forbidden when b had responded before a was invoked *)
Definition rt_ok (l : list call) : Prop := StronglySorted (fun a b => c_inv a < c_res b) l.

Definition linearizable (s : state) (cs : list call) : Prop :=
  exists order, Permutation order cs /\ legal s order /\ rt_ok order.

(* ------------------------------------------------------------------ *)
(** * The executable checker (Wing-Gong search; read-only calls are placed greedily) *)

Fixpoint list_eqb {A} (eqb : A -> A -> bool) (a b : list A) : bool :=
  match a, b with
  | [], [] => true
  | x :: a', y :: b' => eqb x y && list_eqb eqb a' b'
  | _, _ => false
  end.

Definition resp_eqb (a b : resp) : bool :=
  match a, b with
  | RUpd x, RUpd y => Bool.eqb x y
  | RGet x, RGet y => N.eqb x y
  | RArt x, RArt y => list_eqb N.eqb x y
  | RPanic, RPanic => true
  | RFail, RFail => true
  | _, _ => false
  end.

Definition readonly (o : op) : bool :=
  match o with Get _ | Artifact _ | ArtifactP _ _ => true | _ => false end.

(* all ways to take one element out of a list *)
Fixpoint picks {A} (l : list A) : list (A * list A) :=
  match l with
  | [] => []
  | x :: xs => (x, xs) :: map (fun yr => (fst yr, x :: snd yr)) (picks xs)
  end.

Definition can_first (x : call) (rest : list call) : bool := forallb (fun y => c_inv x <? c_res y) rest.
Definition matches (s : state) (x : call) : bool := resp_eqb (snd (seq_step s (c_op x))) (c_resp x).

(* [existsb] with a short-circuit: the cases are evaluated by vm_compute, which is call-by-value, so
   [f a || existsb f l] and [a && b] would evaluate every branch of the search *)
Fixpoint anyb {A} (f : A -> bool) (l : list A) : bool :=
  match l with
  | [] => false
  | a :: r => if f a then true else anyb f r
  end.

Fixpoint search (fuel : nat) (s : state) (rem : list call) : bool :=
  match rem with
  | [] => true
  | _ :: _ =>
      match fuel with
      | O => false
      | S k =>
          match find (fun xr => readonly (c_op (fst xr)) && can_first (fst xr) (snd xr) && matches s (fst xr))
                     (picks rem) with
          | Some xr => search k s (snd xr)
          | None =>
              anyb (fun xr => if can_first (fst xr) (snd xr)
                              then if matches s (fst xr)
                                   then search k (fst (seq_step s (c_op (fst xr)))) (snd xr)
                                   else false
                              else false)
                   (picks rem)
          end
      end
  end.

Definition linb (s : state) (cs : list call) : bool := search (List.length cs) s cs.

Definition state_of (init : list N) (ver : N) : state := mkstate (fun p => nth p init 0%N) ver.
