(* C12: typed parameter values are read back exactly (per kind), hence distinct values are saved differently;
   WebColor's hex text in full. *)
From Coq Require Import String Ascii Lia.
From PF Require Import Base.Bytes Graph.Schema Graph.Values.
Open Scope N_scope.

(* ---------- hex digits: a finite check over the 256 byte values ---------- *)
Definition hex_ok (n : N) : bool :=
  match unhex2 (hexc (n / 16)) (hexc (n mod 16)) with Some m => m =? n | None => false end.

Lemma hex_all : forallb hex_ok (map N.of_nat (seq 0 256)) = true.
Proof. vm_compute. reflexivity. Qed.

Lemma unhex_hex n : n < 256 -> unhex2 (hexc (n / 16)) (hexc (n mod 16)) = Some n.
Proof.
  intro H.
  assert (In n (map N.of_nat (seq 0 256))) as Hin.
  { rewrite <- (N2Nat.id n). apply in_map. apply in_seq. lia. }
  pose proof (proj1 (forallb_forall _ _) hex_all n Hin) as Hk. unfold hex_ok in Hk.
  destruct (unhex2 (hexc (n / 16)) (hexc (n mod 16))) as [m|]; [|discriminate].
  apply N.eqb_eq in Hk. congruence.
Qed.

(* WebColor: MarshalJSON then UnmarshalJSON is the identity on the four bytes (6-digit form when A = 255) *)
Theorem color_roundtrip r g b a :
  r < 256 -> g < 256 -> b < 256 -> a < 256 -> color_parse (color_str r g b a) = Some (r, g, b, a).
Proof.
  intros Hr Hg Hb Ha. unfold color_str, color_parse.
  destruct (a =? 255) eqn:E.
  - apply N.eqb_eq in E. subst a. cbn [chars].
    change (Ascii.eqb hash hash) with true. cbv iota.
    rewrite !unhex_hex by assumption. reflexivity.
  - cbn [chars]. change (Ascii.eqb hash hash) with true. cbv iota.
    rewrite !unhex_hex by assumption. reflexivity.
Qed.

(* the text never takes a short form (#rgb / #rgba) and upper-case digits are read as well: spot checks *)
Example color_short_forms :
  color_parse "#fff" = Some (255, 255, 255, 255) /\ color_parse "#AbCd" = Some (170, 187, 204, 221)
  /\ color_parse "#ABCDEF80" = Some (171, 205, 239, 128) /\ color_parse "#12345" = None /\ color_parse "" = None
  /\ color_str 1 2 3 4 = "#01020304"%string /\ color_str 0 0 0 255 = "#000000"%string
  /\ color_str 0 0 0 0 = "#00000000"%string.
Proof. vm_compute. repeat split. Qed.

(* ---------- structural round trip ---------- *)
Lemma num_rt a : num_of (num_json a) = Some a.
Proof. destruct a; reflexivity. Qed.

Lemma v3_rt v : v3_of (v3_json v) = Some v.
Proof. destruct v as [[x y] z]. cbn. rewrite !num_rt. reflexivity. Qed.

Lemma all_opt_map {A B} (f : A -> option B) (g : B -> A) :
  (forall x, f (g x) = Some x) -> forall l, all_opt f (map g l) = Some l.
Proof. intros H l. induction l as [|x r IH]; cbn; [reflexivity|]. rewrite H, IH. reflexivity. Qed.

(* 1. every well-formed typed value of every kind is read back exactly from the tree it is saved as *)
Theorem value_roundtrip k v : wf k v = true -> of_json k (to_json v) = Some v.
Proof.
  intro H. destruct k, v; cbn in H; try discriminate; cbn [to_json of_json].
  - rewrite num_rt. reflexivity.
  - rewrite num_rt. reflexivity.
  - reflexivity.
  - reflexivity.
  - reflexivity.
  - cbn. rewrite !num_rt. reflexivity.
  - rewrite v3_rt. reflexivity.
  - destruct l as [l|]; cbn; [|reflexivity]. rewrite (all_opt_map v3_of v3_json v3_rt). reflexivity.
  - cbn. rewrite !v3_rt. reflexivity.
  - unfold byte_ok in H. apply andb_prop in H as [H Ha]. apply andb_prop in H as [H Hb]. apply andb_prop in H as [Hr Hg].
    apply N.ltb_lt in Hr, Hg, Hb, Ha. rewrite color_roundtrip by assumption. reflexivity.
  - destruct l as [l|]; cbn; [|reflexivity].
    rewrite (all_opt_map str_of JStr (fun s => eq_refl)). reflexivity.
Qed.

(* 2. hence two different values of a kind are never saved as the same tree *)
Theorem saved_tree_determines_value k v v' :
  wf k v = true -> wf k v' = true -> to_json v = to_json v' -> v = v'.
Proof.
  intros H H' E. apply value_roundtrip in H. apply value_roundtrip in H'. rewrite E in H. congruence.
Qed.

(* 3. and the saved tree of a well-formed value is canonical (what the binding checks of observed values) *)
Lemma jval_eqb_refl : forall j, jval_eqb j j = true.
Proof.
  fix IH 1. intros [| b | z | n | s | l | l | l]; cbn.
  - reflexivity.
  - apply Bool.eqb_reflx.
  - apply Z.eqb_refl.
  - apply N.eqb_refl.
  - apply String.eqb_refl.
  - induction l as [|x r IHl]; [reflexivity|]. rewrite IH. exact IHl.
  - induction l as [|[k x] r IHl]; [reflexivity|]. rewrite String.eqb_refl, IH. exact IHl.
  - induction l as [|x r IHl]; cbn; [reflexivity|]. rewrite N.eqb_refl. exact IHl.
Qed.

Theorem saved_tree_is_canonical k v : wf k v = true -> canonical k (to_json v) = true.
Proof.
  intro H. unfold canonical. rewrite (value_roundtrip k v H), H, jval_eqb_refl. reflexivity.
Qed.

(* the special values the property's quantifier names are covered by the kinds' value sets *)
Example special_floats_are_values :
  canonical KF64 (JNum two63) = true                          (* -0 *)
  /\ canonical KF64 (JNum 1) = true                           (* 5e-324, the smallest subnormal *)
  /\ canonical KF64 (JNum 9218868437227405311) = true         (* 1.7976931348623157e308, the largest finite *)
  /\ canonical KF64 (JNum 4503599627370496) = true            (* 2.2250738585072014e-308, the smallest normal *)
  /\ canonical KF64 (JInt 3) = true
  /\ canonical KF64 (JNum 14114281232179134464) = true        (* -2^63 is written -9223372036854776000: no int64 *)
  /\ canonical KF64 (JNum 4890909195324358656) = true         (* +2^63 *)
  /\ canonical KF64 (JInt 9223372036854775808) = false        (* not an int64 *)
  /\ canonical KF64 (JNum 4613937818241073152) = false        (* 3.0 is written "3" *)
  /\ canonical KF64 (JNum 0) = false                          (* +0 is written "0" *)
  /\ canonical KF64 (JNum 9218868437227405312) = false        (* +Inf is not a value *)
  /\ canonical KInt (JInt 9223372036854775807) = true /\ canonical KInt (JInt 9223372036854775808) = false
  /\ canonical KColor (JStr "#01020304") = true /\ canonical KColor (JStr "#010203ff") = false
  /\ canonical KColor (JStr "#ABCDEF") = false /\ canonical KColor (JStr "#fff") = false
  /\ canonical KV3Arr JNull = true /\ canonical KV3Arr (JArr []) = true
  /\ canonical KStrs (JArr [JStr ""; JStr "a"]) = true /\ canonical KStrs (JArr [JNull]) = false.
Proof. vm_compute. repeat split. Qed.
