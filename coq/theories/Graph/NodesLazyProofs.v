(* C11, round 4 — what is proved about Graph/NodesLazy.v (processors that skip inputs, repaired Outdated()).

   [skip_unread_sound]: the soundness of skipping unread dependencies, one level: for a node that looks clean
   locally and whose record is what process() wrote (remembered versions / values of the dependencies, the flags,
   "every input the run consulted is flagged read"), Outdated() = false implies that the cached value is the value
   Process() computes from the from-scratch values of its inputs — for EVERY value the unread inputs may have now.
   This is the induction step of freshness for such processors.  NOT proved here (see notes/C11.md): that every
   history preserves that record (the analogue of Parts 2, 3 and 5 of NodesProofs.v for [lvalue], which needs the
   "a read does not touch a clean node" lemma over the READ cone); the theorems of Properties/C11.v are about
   processors that read every port, for which the repaired code behaves exactly as before (all flags false).
   [lazy_witness]: a gate-driven processor that does not read its second input executes once and then reports
   Processed although that input is Stale; the comparison of the unrepaired code ([stale], no flags) says outdated
   for ever. *)
From Coq Require Import String Ascii Permutation.
From PF Require Import Base.Bytes Graph.Nodes Graph.NodesProofs Graph.NodesLazy.
Local Open Scope nat_scope.

Lemma cut_from_length stop : forall rest acc, length acc <= length (cut_from stop acc rest).
Proof.
  induction rest as [|xs r IH]; simpl; intros acc; [lia|].
  destruct (stop acc); [lia|]. specialize (IH (acc ++ [xs])). rewrite app_length in IH. simpl in IH. lia.
Qed.

(* the prefix a processor looks at depends only on that prefix *)
Lemma cut_from_agree stop : forall rest rest' acc,
  length rest = length rest' ->
  firstn (length (cut_from stop acc rest) - length acc) rest = firstn (length (cut_from stop acc rest) - length acc) rest' ->
  cut_from stop acc rest' = cut_from stop acc rest.
Proof.
  induction rest as [|xs r IH]; intros rest' acc HL HF.
  - destruct rest'; [reflexivity|discriminate].
  - destruct rest' as [|ys r']; [discriminate|]. simpl in *. destruct (stop acc) eqn:Es; [reflexivity|].
    pose proof (cut_from_length stop r (acc ++ [xs])) as Hlen. rewrite app_length in Hlen. simpl in Hlen.
    remember (length (cut_from stop (acc ++ [xs]) r) - length acc) as k.
    destruct k as [|k]; [lia|]. simpl in HF. injection HF as -> HF.
    apply IH; [lia|]. rewrite app_length. simpl.
    replace (length (cut_from stop (acc ++ [ys]) r) - (length acc + 1)) with k by lia. exact HF.
Qed.

Lemma cut_agree stop ins ins' :
  length ins = length ins' ->
  firstn (length (cut stop ins)) ins = firstn (length (cut stop ins)) ins' ->
  cut stop ins' = cut stop ins.
Proof.
  intros HL HF. unfold cut in *. apply cut_from_agree; auto. simpl. rewrite Nat.sub_0_r. exact HF.
Qed.

Lemma lcmp_deps_false s st : forall L (sv : id -> nat) (U : id -> bool),
  lcmp_deps s st L (map sv L) (map U L) = Some false ->
  forall d, In d L -> U d = false -> verT st d = sv d /\ s d = Some false.
Proof.
  induction L as [|a r IH]; simpl; intros sv U H d Hd Hu; [tauto|].
  destruct (U a) eqn:Ua.
  - destruct Hd as [<- | Hd]; [congruence|]. eapply IH; eauto.
  - apply bind_some in H as [w [Ew H]]. destruct (w =? sv a) eqn:Ev; simpl in H; [|discriminate].
    apply bind_some in H as [sd [Es H]]. destruct sd; [discriminate|].
    apply Nat.eqb_eq in Ev. destruct Hd as [<- | Hd].
    + split; auto. unfold verT. rewrite Ew. auto.
    + eapply IH; eauto.
Qed.

Lemma firstn_map_ext {A B} (f g : A -> B) : forall k l,
  (forall j x, j < k -> nth_error l j = Some x -> f x = g x) -> firstn k (map f l) = firstn k (map g l).
Proof.
  induction k as [|k IH]; intros l H; [reflexivity|]. destruct l as [|a r]; [reflexivity|]. simpl. f_equal.
  - apply (H 0 a); [lia|reflexivity].
  - apply IH. intros j x Hj Hx. apply (H (S j) x); [lia|exact Hx].
Qed.

Theorem skip_unread_sound po (stops : id -> stopfn) f st ur n sn dv (sv : id -> nat) (sx E : id -> val) (U : id -> bool) :
  perm_ok po ->
  nth_error st n = Some (Struct sn) -> sn_depvers sn = Some dv -> sn_dirty sn = false ->
  (* the record process() wrote *)
  dv = map sv (enum po n sn) -> flags_of ur n = map U (enum po n sn) ->
  sn_cache sn = sn_proc sn (cut (stops n) (map (map sx) (ids_of sn))) ->
  (forall d, In d (deps_ids sn) -> U d = false -> sv d = verT st d -> sx d = outT st d) ->
  (forall j l d, j < length (cut (stops n) (map (map sx) (ids_of sn))) -> nth_error (ids_of sn) j = Some l -> In d l -> U d = false) ->
  (* Outdated() = false *)
  lstale po (S f) st ur n = Some false ->
  (* dependencies that are not outdated show their from-scratch value E *)
  (forall d, In d (deps_ids sn) -> lstale po f st ur d = Some false -> E d = outT st d) ->
  sn_cache sn = sn_proc sn (cut (stops n) (map (map E) (ids_of sn))).
Proof.
  intros PO En Edv Ed Hdv Hfl Hc Hval Hcons Hs HE.
  cbn [lstale] in Hs. rewrite En, Edv, Ed, Hdv, Hfl in Hs.
  pose proof (lcmp_deps_false _ _ _ _ _ Hs) as Hf.
  rewrite Hc. f_equal. symmetry. apply cut_agree; [rewrite !map_length; reflexivity|].
  apply firstn_map_ext. intros j l Hj Hl.
  apply map_ext_in. intros d Hd.
  assert (Hdeps : In d (deps_ids sn)) by (unfold deps_ids; apply in_concat; exists l; split; [eapply nth_error_In; eauto|exact Hd]).
  assert (Hu : U d = false) by (eapply Hcons; eauto).
  assert (Hin : In d (enum po n sn)) by (apply (perm_in_deps po n sn d PO); exact Hdeps).
  destruct (Hf d Hin Hu) as [Hv Hst].
  rewrite (Hval d Hdeps Hu (eq_sym Hv)). symmetry. apply HE; [exact Hdeps|exact Hst].
Qed.

(* ---- the record invariant, and freshness of every node the repaired Outdated() calls up to date ---- *)
Definition lnode_inv (po : order) (stops : id -> stopfn) (st : store) (ur : unread_tab) (n : id) (sn : snode) : Prop :=
  forall dv, sn_depvers sn = Some dv -> sn_dirty sn = false ->
  exists (sv : id -> nat) (sx : id -> val) (U : id -> bool),
    dv = map sv (enum po n sn) /\ flags_of ur n = map U (enum po n sn) /\
    sn_cache sn = sn_proc sn (cut (stops n) (map (map sx) (ids_of sn))) /\
    (forall d, In d (deps_ids sn) -> U d = false -> sv d <= verT st d /\ (sv d = verT st d -> sx d = outT st d)) /\
    (forall j l d, j < length (cut (stops n) (map (map sx) (ids_of sn))) -> nth_error (ids_of sn) j = Some l -> In d l -> U d = false).
Definition LInv (po : order) (stops : id -> stopfn) (st : store) (ur : unread_tab) : Prop :=
  forall n sn, nth_error st n = Some (Struct sn) -> lnode_inv po stops st ur n sn.
(* every processor looks only at the prefix its discipline reads *)
Definition lazy_procs (stops : id -> stopfn) (st : store) : Prop :=
  forall n sn, nth_error st n = Some (Struct sn) -> forall ins, sn_proc sn ins = sn_proc sn (cut (stops n) ins).

Lemma eval_total : forall f g n h, depth f g n = Some h -> exists v, eval_scratch f g n = Some v.
Proof.
  induction f as [|f IH]; intros g n h H; [discriminate|].
  rewrite depth_S in H. rewrite eval_S. destruct (nth_error g n) as [[v|ins proc]|]; [eauto| |discriminate].
  inv_bind H.
  destruct (map_opt_total (map_opt (eval_scratch f g)) ins) as [xs ->]; [|simpl; eauto].
  intros l Hl. apply map_opt_total. intros d Hd.
  destruct (map_opt_some_in _ _ _ E d) as (hd & Ed & _); [apply in_concat; eauto|]. eapply IH; eauto.
Qed.

(* FRESHNESS of whatever the repaired Outdated() calls up to date, any depth: in a state whose records are what
   process() writes ([LInv]), a node with Outdated() = false shows its from-scratch value — inputs that were not
   read may be Stale, changed, anything *)
Theorem lstale_false_eval po stops : perm_ok po -> forall f st ur n h,
  LInv po stops st ur -> lazy_procs stops st ->
  depth f (graph_of st) n = Some h -> lstale po f st ur n = Some false ->
  eval_scratch f (graph_of st) n = Some (outT st n).
Proof.
  intros PO. induction f as [|f IH]; intros st ur n h I LP D H; [discriminate|].
  pose proof H as H0. cbn [lstale] in H. rewrite eval_S, graph_nth. unfold outT.
  destruct (nth_error st n) as [[ver w sets|sn]|] eqn:En; simpl; auto; [|discriminate].
  destruct (sn_depvers sn) as [dv|] eqn:Edv; [|discriminate].
  destruct (sn_dirty sn) eqn:Ed; [discriminate|].
  destruct (I _ _ En dv Edv Ed) as (sv & sx & U & Hdv & Hfl & Hc & Hval & Hcons).
  rewrite depth_S, graph_nth, En in D. simpl in D. inv_bind D.
  set (g := graph_of st) in *.
  set (Ev := fun d => match eval_scratch f g d with Some v => v | None => 0%Z end).
  assert (Hev : forall d, In d (deps_ids sn) -> eval_scratch f g d = Some (Ev d)).
  { intros d Hd. destruct (map_opt_some_in _ _ _ E d Hd) as (hd & Ehd & _).
    destruct (eval_total _ _ _ _ Ehd) as [v Hv]. unfold Ev. rewrite Hv. reflexivity. }
  erewrite (map_opt_ext_some _ (map Ev)).
  2:{ intros l Hl. apply map_opt_ext_some. intros d Hd. apply Hev. unfold deps_ids. apply in_concat. eauto. }
  simpl. f_equal. rewrite (LP _ _ En). symmetry.
  eapply (skip_unread_sound po stops f st ur n sn dv sv sx Ev U); eauto.
  { intros d Hd Hu. apply (proj2 (Hval d Hd Hu)). }
  intros d Hd Hs. destruct (map_opt_some_in _ _ _ E d Hd) as (hd & Ehd & _).
  pose proof (IH st ur d hd I LP Ehd Hs) as He. fold g in He. rewrite (Hev d Hd) in He. injection He as ->. reflexivity.
Qed.

(* ---- the record invariant holds initially and is preserved by every edit (parameter update, re-wiring);
        what is NOT proved is its preservation by [lvalue] ---- *)
Lemma linit_LInv po stops ds : LInv po stops (fst (linit ds)) (snd (linit ds)).
Proof.
  intros n sn En. simpl in En. rewrite nth_error_map in En.
  destruct (nth_error ds n) as [[v|fs proc]|]; try discriminate. injection En as <-.
  intros dv Hdv. discriminate.
Qed.

Lemma lnode_inv_mono po stops st st' ur n sn :
  (forall m, verT st m <= verT st' m /\ (verT st m = verT st' m -> outT st' m = outT st m)) ->
  lnode_inv po stops st ur n sn -> lnode_inv po stops st' ur n sn.
Proof.
  intros V H dv Hd Hc. destruct (H dv Hd Hc) as (sv & sx & U & A & B & C & M & K).
  exists sv, sx, U. repeat split; auto; destruct (M d H0 H1) as [L Q], (V d) as [L' Q'].
  - lia.
  - intros E'. rewrite Q', Q; auto; lia.
Qed.

Lemma ledit_LInv po stops st ur o st' ur' : is_read o = false ->
  lstep po stops (st, ur) o = Some (st', ur') -> LInv po stops st ur -> LInv po stops st' ur'.
Proof.
  intros Hr H I. destruct o as [n v | n input src | n input | n]; try discriminate; cbn [lstep] in H;
    apply bind_some in H as [[st1 r] [E H]]; injection H as <- <-; cbn [step_store] in E.
  - (* SetParam *)
    destruct (nth_error st n) as [[ver w sets|]|] eqn:En; try discriminate. injection E as <- _.
    intros k snk Ek. destruct (Nat.eq_dec n k) as [<- | Hne].
    + rewrite nth_error_set_nth_eq in Ek by (eapply nth_error_some_lt; eauto). discriminate.
    + rewrite nth_error_set_nth_neq in Ek; auto. eapply lnode_inv_mono; [|apply (I _ _ Ek)].
      intros m. destruct (Nat.eq_dec n m) as [<- | Hnm].
      * unfold verT, ver_of. rewrite nth_error_set_nth_eq by (eapply nth_error_some_lt; eauto).
        rewrite En. split; [lia|]. intros; lia.
      * rewrite verT_set_nth_neq, outT_set_nth_neq; auto.
  - (* Connect *)
    destruct (src <? length st); [|discriminate]. apply bind_some in E as [a [E H]].
    destruct (acyclic_b (graph_of a)); [|discriminate]. injection H as <- _.
    destruct (rewire_inv _ _ _ _ _ E) as (sn & ps & En & Hps & ->).
    intros k snk Ek. destruct (Nat.eq_dec n k) as [<- | Hne].
    + rewrite nth_error_set_nth_eq in Ek by (eapply nth_error_some_lt; eauto). injection Ek as <-.
      intros dv _ Hd. discriminate.
    + rewrite nth_error_set_nth_neq in Ek; auto. eapply lnode_inv_mono; [|apply (I _ _ Ek)].
      intros m. destruct (Nat.eq_dec n m) as [<- | Hnm].
      * unfold verT, ver_of, outT. rewrite nth_error_set_nth_eq by (eapply nth_error_some_lt; eauto).
        rewrite En. simpl. split; auto.
      * rewrite verT_set_nth_neq, outT_set_nth_neq; auto.
  - (* Disconnect *)
    apply bind_some in E as [a [E H]]. injection H as <- _.
    destruct (rewire_inv _ _ _ _ _ E) as (sn & ps & En & Hps & ->).
    intros k snk Ek. destruct (Nat.eq_dec n k) as [<- | Hne].
    + rewrite nth_error_set_nth_eq in Ek by (eapply nth_error_some_lt; eauto). injection Ek as <-.
      intros dv _ Hd. discriminate.
    + rewrite nth_error_set_nth_neq in Ek; auto. eapply lnode_inv_mono; [|apply (I _ _ Ek)].
      intros m. destruct (Nat.eq_dec n m) as [<- | Hnm].
      * unfold verT, ver_of, outT. rewrite nth_error_set_nth_eq by (eapply nth_error_some_lt; eauto).
        rewrite En. simpl. split; auto.
      * rewrite verT_set_nth_neq, outT_set_nth_neq; auto.
Qed.

(* ---- witness: nodes 0 gate (parameter, 0 = "stop"), 1 parameter, 2 = U(1), 3 = L(Gate: 0, A: 2) ---- *)
Definition gate_stop : stopfn := fun acc => match acc with [[g]] => (g mod 2 =? 0)%Z | _ => false end.
Definition lazy_stops : id -> stopfn := fun n => if n =? 3 then gate_stop else fun _ => false.
Definition lazy_decls : list decl :=
  [DParam 0%Z; DParam 7%Z; DStruct [("In"%string, false)] sum_proc;
   DStruct [("Gate"%string, false); ("A"%string, false)] (lazy_proc gate_stop sum_proc)].
Definition lazy_hist : list op := [Connect 2 "In"%string 1; Connect 3 "Gate"%string 0; Connect 3 "A"%string 2; Read 3].

Lemma lazy_witness :
  exists s1 s2,
    lrun sorted_order lazy_stops (linit lazy_decls) lazy_hist = Some s1 /\
    execs_of (fst s1) 3 = 1 /\ execs_of (fst s1) 2 = 0 /\                  (* L ran once, U was never read *)
    flags_of (snd s1) 3 = [true; false] /\                                 (* dependencies by name: A (unread), Gate *)
    lstale sorted_order 5 (fst s1) (snd s1) 2 = Some true /\               (* U is Stale *)
    lstale sorted_order 5 (fst s1) (snd s1) 3 = Some false /\              (* repaired Outdated(): L is Processed *)
    stale sorted_order 5 (fst s1) 3 = Some true /\                         (* unrepaired Outdated(): outdated for ever *)
    lrun sorted_order lazy_stops s1 [Read 3; Read 3; SetParam 1 9%Z; Read 3] = Some s2 /\
    execs_of (fst s2) 3 = 1 /\                                             (* idle reads, and an update behind the unread input *)
    eval_scratch 5 (graph_of (fst s2)) 3 = Some (outT (fst s2) 3).         (* and the cache is the from-scratch value *)
Proof.
  eexists. eexists.
  split; [vm_compute; reflexivity|]. split; [vm_compute; reflexivity|]. split; [vm_compute; reflexivity|].
  split; [vm_compute; reflexivity|]. split; [vm_compute; reflexivity|]. split; [vm_compute; reflexivity|].
  split; [vm_compute; reflexivity|]. split; [vm_compute; reflexivity|]. split; vm_compute; reflexivity.
Qed.
